/-
FlatMap model (`Model/PipeDyn.lean`), C05 in EVERY world: under any fault plan (and any cancellation) the outer probe source
is pulled at most as often as the list-level demand `needPulls` says — a failure or a cancellation can only cut the
pulling short.  Potential argument: `demandFrom c n` (pulls still needed for `n` more elements) pays for every pull.
-/
import ShpanVerif.Proofs.PipeDynPulls

namespace ShpanVerif.Proofs.PipeDyn
open ShpanVerif.Model.Pipe ShpanVerif.Model.PipeDyn

/-- pulls until the outer stream yields its next element (or answers EOF) -/
def skipCost (ops : List OOp) (rest : List Int) : Nat :=
  match nextOuter ops rest with
  | some (_, rest') => rest.length - rest'.length
  | none => rest.length + 1

theorem skipCost_cons_none {ops : List OOp} {x : Int} {rest : List Int} (h : opsPure ops (.int x) = none) :
    skipCost ops (x :: rest) = skipCost ops rest + 1 := by
  unfold skipCost
  simp only [nextOuter, h]
  cases hn : nextOuter ops rest with
  | none => simp
  | some q =>
    have := (nextOuter_some hn).2
    simp; omega

theorem skipCost_pos (ops : List OOp) (rest : List Int) : 1 ≤ skipCost ops rest := by
  unfold skipCost
  cases hn : nextOuter ops rest with
  | none => simp
  | some q => have := (nextOuter_some hn).2; simp; omega

/-- the outer stream in any world: a value / EOF are the list-level ones and cost exactly the list-level pulls; a failure
    costs no more -/
theorem emitRest_P_all (r0 : Nat) (ops : List OOp) : ∀ (rest : List Int) (w : World),
    match (emitRest r0 ops rest w).1 with
    | .val v => nextOuter ops rest = some (v, (emitRest r0 ops rest w).2.1) ∧
        P r0 (emitRest r0 ops rest w).2.2 + (emitRest r0 ops rest w).2.1.length = P r0 w + rest.length
    | .eof => nextOuter ops rest = none ∧ P r0 (emitRest r0 ops rest w).2.2 = P r0 w + rest.length + 1
    | _ => P r0 (emitRest r0 ops rest w).2.2 ≤ P r0 w + skipCost ops rest
  | [], w => by
      have hp := P_emitRes r0 r0 w
      simp only [emitRest]
      generalize emitRes r0 w = x at *
      obtain ⟨hit, w'⟩ := x
      simp only [if_true] at hp
      cases hit <;> simp [hitRes, nextOuter, skipCost, hp]
  | x :: rest, w => by
      have hp := P_emitRes r0 r0 w
      simp only [emitRest]
      generalize emitRes r0 w = y at *
      obtain ⟨hit, w1⟩ := y
      simp only [if_true] at hp
      have hpos := skipCost_pos ops (x :: rest)
      cases hit with
      | none =>
          simp only []
          have ha := applyOps_any ops (.int x) w1
          have hpa := applyOps_P r0 ops (.int x) w1
          generalize applyOps ops (.int x) w1 = z at *
          obtain ⟨res, w2⟩ := z
          simp only at ha hpa
          obtain ⟨_, hv, hne⟩ := ha
          have ih := emitRest_P_all r0 ops rest w2
          cases res with
          | val o =>
              have ho := hv o rfl
              cases o with
              | some v => simp [nextOuter, ← ho, hpa, hp]; omega
              | none =>
                  simp only []
                  generalize emitRest r0 ops rest w2 = u at *
                  obtain ⟨res3, rest3, w3⟩ := u
                  cases res3 with
                  | val v => simp only at ih ⊢; simp [nextOuter, ← ho, ih.1]; omega
                  | eof => simp only at ih ⊢; simp [nextOuter, ← ho, ih.1]; omega
                  | fail e => simp only at ih ⊢; rw [skipCost_cons_none ho.symm]; omega
                  | panic b => simp only at ih ⊢; rw [skipCost_cons_none ho.symm]; omega
                  | oof => simp only at ih ⊢; rw [skipCost_cons_none ho.symm]; omega
          | eof => exact absurd rfl hne
          | fail e => simp only [castRes]; omega
          | panic b => simp only [castRes]; omega
          | oof => simp only [castRes]; omega
      | err => simp only [hitRes]; omega
      | panic b => simp only [hitRes]; omega

theorem pullOuter_P_all (c : Obj) (w : World) :
    match (pullOuter c w).1 with
    | .val i => ∃ v rest', nextOuter c.ops c.rest = some (v, rest') ∧ i = c.g v ∧ (pullOuter c w).2.1 = { c with rest := rest' } ∧
        P c.r0 (pullOuter c w).2.2 + rest'.length = P c.r0 w + c.rest.length
    | .eof => nextOuter c.ops c.rest = none ∧ P c.r0 (pullOuter c w).2.2 = P c.r0 w + c.rest.length + 1
    | _ => P c.r0 (pullOuter c w).2.2 ≤ P c.r0 w + skipCost c.ops c.rest := by
  have he := emitRest_P_all c.r0 c.ops c.rest w
  simp only [pullOuter]
  generalize emitRest c.r0 c.ops c.rest w = x at *
  obtain ⟨res, rest1, w1⟩ := x
  cases res with
  | val v =>
      simp only at he
      have hu := P_userCall c.r0 w1
      simp only []
      generalize userCall w1 = y at *
      obtain ⟨hit, w2⟩ := y
      simp only at hu
      have hle : rest1.length < c.rest.length := (nextOuter_some he.1).2
      have hsk : skipCost c.ops c.rest = c.rest.length - rest1.length := by simp [skipCost, he.1]
      cases hit with
      | none => exact ⟨v, rest1, he.1, rfl, rfl, by rw [hu]; exact he.2⟩
      | err => simp only [hitRes, noErr]; rw [hu, hsk]; omega
      | panic b => simp only [hitRes, noErr]; rw [hu, hsk]; omega
  | eof => simpa [castRes] using he
  | fail e => simpa [castRes] using he
  | panic b => simpa [castRes] using he
  | oof => simpa [castRes] using he

theorem pullOuter_shape (c : Obj) (w : World) : ∃ rest', (pullOuter c w).2.1 = { c with rest := rest' } := by
  simp only [pullOuter]
  generalize emitRest c.r0 c.ops c.rest w = x
  obtain ⟨res, rest1, w1⟩ := x
  cases res with
  | val v =>
      simp only []
      generalize userCall w1 = y
      obtain ⟨hit, w2⟩ := y
      cases hit <;> exact ⟨rest1, rfl⟩
  | _ => exact ⟨rest1, rfl⟩

/-! ### inner streams in any world: a value is the head of the remaining elements, EOF means none are left -/

theorem iterStep_rem (r : Nat) (ys rest : List V) (w : World) :
    match (iterStep r ys rest w).1 with
    | .val v => rest = v :: remaining (iterStep r ys rest w).2.1
    | .eof => rest = []
    | _ => True := by
  cases rest <;> simp [iterStep]

theorem emitI_rem (s : InnerS) (w : World) (hl : Live s) :
    Live (emitI s w).2.1 ∧
    match (emitI s w).1 with
    | .val v => remaining s = v :: remaining (emitI s w).2.1
    | .eof => remaining s = []
    | _ => True := by
  cases s with
  | probe r ys rest =>
      simp only [emitI]
      generalize emitRes r w = x
      obtain ⟨hit, w'⟩ := x
      cases hit <;> cases rest <;> simp [Live, hitRes]
  | just ys rest => simp only [emitI]; split <;> cases rest <;> simp [Live]
  | empty => simp [emitI, Live, remaining]
  | error => exact absurd rfl hl
  | iter r ys st =>
      simp only [emitI]
      split
      · simp [Live]
      · cases st with
        | fresh =>
            have hc := openRes_cases r w
            simp only []
            generalize openRes r w = x at *
            obtain ⟨res, w'⟩ := x
            simp only at hc
            cases res with
            | val u =>
                have := iterStep_rem r ys ys w'
                refine ⟨by cases ys <;> simp [iterStep, Live], ?_⟩
                simpa using this
            | eof => rcases hc with ⟨h, _⟩ | ⟨h | ⟨b, h⟩, _⟩ <;> simp at h
            | fail e => simp [Live]
            | panic b => simp [Live, castRes]
            | oof => simp [Live, castRes]
        | running rest =>
            have := iterStep_rem r ys rest w
            refine ⟨by cases rest <;> simp [iterStep, Live], ?_⟩
            simpa using this
        | done => simp [Live]

theorem openNext_rem (c : Obj) (i : Inner) (w : World) (hv : (openNext c i w).1 = .val ()) :
    i.isError = false ∧ ∃ s, (openNext c i w).2.1 = { c with cur := some s, curOpen := true } ∧ remaining s = i.elems ∧
      Live s ∧ sres s = ires i := by
  have hso := sres_openI i w
  simp only [openNext] at hv ⊢
  cases i with
  | probe r ys =>
      simp only [Inner.init, openI] at hv hso ⊢
      generalize openRes r w = x at *
      obtain ⟨res, w'⟩ := x
      cases res <;> simp_all [Inner.isError, Inner.elems, Live, sres, ires]
  | just ys => simp [Inner.init, openI, Inner.isError, Inner.elems, Live, sres, ires]
  | empty => simp [Inner.init, openI, Inner.isError, Inner.elems, Live, sres, ires, remaining]
  | error => simp [Inner.init, openI] at hv
  | iter r ys => simp [Inner.init, openI, Inner.isError, Inner.elems, Live, sres, ires]

/-- a failed `openNext` leaves `cur` as it was, or empties it -/
theorem openNext_fail (c : Obj) (i : Inner) (w : World) (hv : (openNext c i w).1 ≠ .val ()) :
    (openNext c i w).2.1 = c ∨ (openNext c i w).2.1 = { c with cur := none } := by
  simp only [openNext] at hv ⊢
  generalize openI i.init w = x at *
  obtain ⟨res, s, w'⟩ := x
  cases res <;> simp_all

/-! ### the concatenation in any world -/

/-- the current provider never belongs to an `Error` stream (its Open fails) -/
def LiveCur (c : Obj) : Prop := ∀ s, c.cur = some s → Live s

/-- inside a materialisation the current provider is not stale -/
def CurOpen (c : Obj) : Prop := ∀ s, c.cur = some s → c.curOpen = true

theorem skipCost_le_needPulls (ops : List OOp) (g : V → Inner) (n : Nat) (rest : List Int) :
    skipCost ops rest ≤ needPulls ops g n rest := by
  unfold skipCost
  cases hn : nextOuter ops rest with
  | none => simp only []; rw [needPulls_none n hn]; omega
  | some q =>
    obtain ⟨v, rest'⟩ := q
    have := needPulls_some (g := g) n hn
    have := (nextOuter_some hn).2
    simp only []; omega

theorem emitC_P_all : ∀ (fuel : Nat) (c : Obj) (w : World), NoR0 c → Distinct c → LiveCur c → CurOpen c →
    ∀ n, 1 ≤ n →
    NoR0 (emitC fuel c w).2.1 ∧ LiveCur (emitC fuel c w).2.1 ∧ CurOpen (emitC fuel c w).2.1 ∧ Same c (emitC fuel c w).2.1 ∧
    match (emitC fuel c w).1 with
    | .val _ => P c.r0 (emitC fuel c w).2.2 + demandFrom (emitC fuel c w).2.1 (n - 1) ≤ P c.r0 w + demandFrom c n
    | _ => P c.r0 (emitC fuel c w).2.2 ≤ P c.r0 w + demandFrom c n := by
  intro fuel
  induction fuel with
  | zero => intro c w hno hd hl hco n hn; exact ⟨hno, hl, hco, Same.refl' c, by simp [emitC]⟩
  | succ k ih =>
    intro c w hno hd hl hco n hn
    simp only [emitC]
    split
    · exact ⟨hno, hl, hco, Same.refl' c, by simp⟩
    · cases hcur : c.cur with
      | none => exact ⟨hno, hl, hco, Same.refl' c, by simp⟩
      | some s =>
        have hs0 := hno s hcur
        have hls := hl s hcur
        have hopen := hco s hcur
        have hpi := emitI_P c.r0 s w hs0
        have hsr := sres_emitI s w
        have hrem := emitI_rem s w hls
        simp only []
        generalize emitI s w = x at *
        obtain ⟨res, s1, w1⟩ := x
        simp only at hpi hsr hrem
        obtain ⟨hl1, hrem⟩ := hrem
        have hno1 : NoR0 { c with cur := some s1 } := by
          intro s' hs'; simp at hs'; subst hs'; rw [hsr]; exact hs0
        have hl1' : LiveCur { c with cur := some s1 } := by intro s' hs'; simp at hs'; subst hs'; exact hl1
        have hco1 : CurOpen { c with cur := some s1 } := fun _ _ => hopen
        cases res with
        | val v =>
            simp only at hrem
            refine ⟨hno1, hl1', hco1, ⟨rfl, rfl, rfl, rfl⟩, ?_⟩
            simp only [demandFrom, hcur, hrem, hpi, List.length_cons]
            split <;> split <;> first | omega | (apply Nat.le_of_eq; congr 2; omega)
        | fail e => exact ⟨hno1, hl1', hco1, ⟨rfl, rfl, rfl, rfl⟩, by simp [hpi]⟩
        | panic b => exact ⟨hno1, hl1', hco1, ⟨rfl, rfl, rfl, rfl⟩, by simp [hpi]⟩
        | oof => exact ⟨hno1, hl1', hco1, ⟨rfl, rfl, rfl, rfl⟩, by simp [hpi]⟩
        | eof =>
          simp only at hrem
          simp only [hopen, if_true]
          have hdem : demandFrom c n = needPulls c.ops c.g n c.rest := by
            simp only [demandFrom, hcur, hrem, List.length_nil, Nat.sub_zero]
            rw [if_neg (by omega)]
          have hpc := closeI_P c.r0 s1 w1
          generalize closeI s1 w1 = y at *
          obtain ⟨s2, w2⟩ := y
          simp only at hpc ⊢
          have hnone : ∀ rest', NoR0 { c with cur := none, curOpen := false, rest := rest' } ∧
              LiveCur { c with cur := none, curOpen := false, rest := rest' } ∧
              CurOpen { c with cur := none, curOpen := false, rest := rest' } :=
            fun _ => ⟨fun s' hs' => by simp at hs', fun s' hs' => by simp at hs', fun s' hs' => by simp at hs'⟩
          split
          · exact ⟨(hnone c.rest).1, (hnone c.rest).2.1, (hnone c.rest).2.2, ⟨rfl, rfl, rfl, rfl⟩, by
              simp only []; rw [hpc, hpi]; omega⟩
          · have hp := pullOuter_P_all { c with cur := none, curOpen := false } w2
            have hsk := skipCost_le_needPulls c.ops c.g n c.rest
            generalize hz : pullOuter { c with cur := none, curOpen := false } w2 = z at *
            obtain ⟨res3, c3, w3⟩ := z
            obtain ⟨rest3, hc3⟩ : ∃ rest', c3 = { c with cur := none, curOpen := false, rest := rest' } := by
              have := pullOuter_shape { c with cur := none, curOpen := false } w2
              rw [hz] at this; exact this
            subst hc3
            simp only at hp
            cases res3 with
            | val i =>
                simp only at hp ⊢
                obtain ⟨v, rest', hnx, rfl, hc3, hp3⟩ := hp
                have hr : rest3 = rest' := by
                  have := congrArg Obj.rest hc3; simpa using this
                subst hr
                have hns := needPulls_some (g := c.g) n hnx
                have hlen := (nextOuter_some hnx).2
                have hpo := openNext_P c.r0 { c with cur := none, curOpen := false, rest := rest3 } (c.g v) w3
                have hrm := openNext_rem { c with cur := none, curOpen := false, rest := rest3 } (c.g v) w3
                have hfl := openNext_fail { c with cur := none, curOpen := false, rest := rest3 } (c.g v) w3
                generalize openNext { c with cur := none, curOpen := false, rest := rest3 } (c.g v) w3 = u at *
                obtain ⟨res4, c4, w4⟩ := u
                simp only at hpo hrm hfl
                cases res4 with
                | val a =>
                    obtain ⟨herr, s5, rfl, hrem5, hl5, hs5⟩ := hrm rfl
                    simp only [herr, Bool.false_eq_true, if_false] at hns
                    simp only []
                    have hno4 : NoR0 { c with cur := some s5, curOpen := true, rest := rest3 } := by
                      intro s' hs'; simp at hs'; subst hs'; rw [hs5]; exact hd v
                    have hl4 : LiveCur { c with cur := some s5, curOpen := true, rest := rest3 } := by
                      intro s' hs'; simp at hs'; subst hs'; exact hl5
                    have hco4 : CurOpen { c with cur := some s5, curOpen := true, rest := rest3 } := fun _ _ => rfl
                    have hih := ih { c with cur := some s5, curOpen := true, rest := rest3 } w4 hno4 hd hl4 hco4 n hn
                    have hd4 : demandFrom { c with cur := some s5, curOpen := true, rest := rest3 } n =
                        (if n ≤ (c.g v).elems.length then 0 else needPulls c.ops c.g (n - (c.g v).elems.length) rest3) := by
                      simp only [demandFrom, hrem5]
                    obtain ⟨j1, j2, j3, j4, j5⟩ := hih
                    refine ⟨j1, j2, j3, Same.trans' ⟨rfl, rfl, rfl, rfl⟩ j4, ?_⟩
                    rw [hd4] at j5
                    simp only [] at j5
                    rw [hdem]
                    generalize emitC k { c with cur := some s5, curOpen := true, rest := rest3 } w4 = rr at *
                    obtain ⟨res5, c5, w5⟩ := rr
                    cases res5 <;> simp only at j5 ⊢ <;> omega
                | eof =>
                    have hc4 := hfl (by simp)
                    have h3 := hnone rest3
                    have hfin : P c.r0 w4 ≤ P c.r0 w + demandFrom c n := by rw [hdem]; omega
                    rcases hc4 with rfl | rfl
                    · exact ⟨h3.1, h3.2.1, h3.2.2, ⟨rfl, rfl, rfl, rfl⟩, by simpa [castRes] using hfin⟩
                    · exact ⟨h3.1, h3.2.1, h3.2.2, ⟨rfl, rfl, rfl, rfl⟩, by simpa [castRes] using hfin⟩
                | fail e =>
                    have hc4 := hfl (by simp)
                    have h3 := hnone rest3
                    have hfin : P c.r0 w4 ≤ P c.r0 w + demandFrom c n := by rw [hdem]; omega
                    rcases hc4 with rfl | rfl
                    · exact ⟨h3.1, h3.2.1, h3.2.2, ⟨rfl, rfl, rfl, rfl⟩, by simpa [castRes] using hfin⟩
                    · exact ⟨h3.1, h3.2.1, h3.2.2, ⟨rfl, rfl, rfl, rfl⟩, by simpa [castRes] using hfin⟩
                | panic b =>
                    have hc4 := hfl (by simp)
                    have h3 := hnone rest3
                    have hfin : P c.r0 w4 ≤ P c.r0 w + demandFrom c n := by rw [hdem]; omega
                    rcases hc4 with rfl | rfl
                    · exact ⟨h3.1, h3.2.1, h3.2.2, ⟨rfl, rfl, rfl, rfl⟩, by simpa [castRes] using hfin⟩
                    · exact ⟨h3.1, h3.2.1, h3.2.2, ⟨rfl, rfl, rfl, rfl⟩, by simpa [castRes] using hfin⟩
                | oof =>
                    have hc4 := hfl (by simp)
                    have h3 := hnone rest3
                    have hfin : P c.r0 w4 ≤ P c.r0 w + demandFrom c n := by rw [hdem]; omega
                    rcases hc4 with rfl | rfl
                    · exact ⟨h3.1, h3.2.1, h3.2.2, ⟨rfl, rfl, rfl, rfl⟩, by simpa [castRes] using hfin⟩
                    · exact ⟨h3.1, h3.2.1, h3.2.2, ⟨rfl, rfl, rfl, rfl⟩, by simpa [castRes] using hfin⟩
            | eof =>
                simp only at hp
                have h3 := hnone rest3
                refine ⟨h3.1, h3.2.1, h3.2.2, ⟨rfl, rfl, rfl, rfl⟩, ?_⟩
                simp only [castRes]; rw [hdem, needPulls_none n hp.1]; omega
            | fail e =>
                simp only at hp
                have h3 := hnone rest3
                refine ⟨h3.1, h3.2.1, h3.2.2, ⟨rfl, rfl, rfl, rfl⟩, ?_⟩
                simp only [castRes]; rw [hdem]; omega
            | panic b =>
                simp only at hp
                have h3 := hnone rest3
                refine ⟨h3.1, h3.2.1, h3.2.2, ⟨rfl, rfl, rfl, rfl⟩, ?_⟩
                simp only [castRes]; rw [hdem]; omega
            | oof =>
                simp only at hp
                have h3 := hnone rest3
                refine ⟨h3.1, h3.2.1, h3.2.2, ⟨rfl, rfl, rfl, rfl⟩, ?_⟩
                simp only [castRes]; rw [hdem]; omega

/-! ### the terminal in any world -/

/-- `n` = the number of elements the pull loop may still want: the Limit's allowance, or (no Limit) more than the loop
    can run with its fuel -/
def WantOK (lim : Option Int) (consumed : Int) (fuel n : Nat) : Prop :=
  match lim with
  | none => fuel < n
  | some m => n = (m - consumed + 1).toNat

theorem pullLoop_P_all : ∀ (fuel : Nat) (kc : Consumer) (lim : Option Int) (consumed : Int) (c : Obj) (acc : List V)
    (w : World), NoR0 c → Distinct c → LiveCur c → CurOpen c →
    ∀ n, WantOK lim consumed fuel n →
    P c.r0 (Model.PipeDyn.pullLoop fuel kc lim consumed c acc w).2.2.2 ≤ P c.r0 w + demandFrom c n := by
  intro fuel
  induction fuel with
  | zero => intro kc lim consumed c acc w _ _ _ _ n _; simp [Model.PipeDyn.pullLoop]
  | succ k ih =>
    intro kc lim consumed c acc w hno hd hl hco n hnl
    simp only [Model.PipeDyn.pullLoop]
    split
    · simp
    · by_cases hstop : ∃ m, lim = some m ∧ consumed > m
      · obtain ⟨m, rfl, hm⟩ := hstop
        simp [emitT, hm]
      · have hT : emitT k lim consumed c w = emitC k c w := by
          cases lim with
          | none => rfl
          | some m => simp only [emitT]; rw [if_neg]; intro h; exact hstop ⟨m, rfl, h⟩
        rw [hT]
        have hn1 : 1 ≤ n := by
          cases lim with
          | none => simp only [WantOK] at hnl; omega
          | some m =>
            simp only [WantOK] at hnl
            have : ¬ consumed > m := fun h => hstop ⟨m, rfl, h⟩
            omega
        have hnext : WantOK lim (consumed + 1) k (n - 1) := by
          cases lim with
          | none => simp only [WantOK] at hnl ⊢; omega
          | some m => simp only [WantOK] at hnl ⊢; omega
        have he := emitC_P_all k c w hno hd hl hco n hn1
        generalize emitC k c w = x at *
        obtain ⟨res, c1, w1⟩ := x
        simp only at he
        obtain ⟨e1, e2, e3, e4, e5⟩ := he
        have hr0 : c1.r0 = c.r0 := e4.1
        cases res with
        | val v =>
            simp only at e5
            cases kc with
            | collect =>
                simp only []
                have := ih .collect lim (consumed + 1) c1 (v :: acc) w1 e1 (Distinct_same e4 hd) e2 e3 (n - 1) hnext
                rw [hr0] at this; omega
            | user =>
                have hpu := P_userCall c.r0 w1
                simp only []
                generalize userCall w1 = y at *
                obtain ⟨hit, w2⟩ := y
                simp only at hpu
                cases hit with
                | none =>
                    simp only []
                    have := ih .user lim (consumed + 1) c1 (v :: acc) w2 e1 (Distinct_same e4 hd) e2 e3 (n - 1) hnext
                    rw [hr0] at this; omega
                | err => simp only []; omega
                | panic b => simp only []; omega
        | eof => simpa using e5
        | fail e => simpa [castRes] using e5
        | panic b => simpa [castRes] using e5
        | oof => simpa [castRes] using e5

theorem openC_P_all (c : Obj) (w : World) (hd : Distinct c) (n : Nat) :
    match (openC c w).1 with
    | .val _ => NoR0 (openC c w).2.1 ∧ LiveCur (openC c w).2.1 ∧ CurOpen (openC c w).2.1 ∧ Same c (openC c w).2.1 ∧
        P c.r0 (openC c w).2.2 + demandFrom (openC c w).2.1 n ≤ P c.r0 w + needPulls c.ops c.g n c.xs
    | _ => P c.r0 (openC c w).2.2 ≤ P c.r0 w + needPulls c.ops c.g n c.xs := by
  have hpo := P_openRes c.r0 c.r0 w
  simp only [openC, cpOpen, openOuter]
  generalize openRes c.r0 w = x at *
  obtain ⟨res, w1⟩ := x
  simp only at hpo
  cases res with
  | val u =>
      simp only []
      have hp := pullOuter_P_all { c with cur := none, rest := c.xs, outerOpen := true } w1
      have hsk := skipCost_le_needPulls c.ops c.g n c.xs
      have hsh := pullOuter_shape { c with cur := none, rest := c.xs, outerOpen := true } w1
      generalize pullOuter { c with cur := none, rest := c.xs, outerOpen := true } w1 = z at *
      obtain ⟨res3, c3, w3⟩ := z
      obtain ⟨rest3, hc3⟩ := hsh
      simp only at hc3 hp
      subst hc3
      cases res3 with
      | val i =>
          simp only at hp ⊢
          obtain ⟨v, rest', hnx, rfl, hc3, hp3⟩ := hp
          have hr : rest3 = rest' := by have := congrArg Obj.rest hc3; simpa using this
          subst hr
          have hns := needPulls_some (g := c.g) n hnx
          have hlen := (nextOuter_some hnx).2
          have hpn := openNext_P c.r0 { c with cur := none, rest := rest3, outerOpen := true } (c.g v) w3
          have hrm := openNext_rem { c with cur := none, rest := rest3, outerOpen := true } (c.g v) w3
          generalize openNext { c with cur := none, rest := rest3, outerOpen := true } (c.g v) w3 = u4 at *
          obtain ⟨res4, c4, w4⟩ := u4
          simp only at hpn hrm
          cases res4 with
          | val a =>
              obtain ⟨herr, s5, rfl, hrem5, hl5, hs5⟩ := hrm rfl
              simp only [herr, Bool.false_eq_true, if_false] at hns
              simp only []
              refine ⟨?_, ?_, fun _ _ => rfl, ⟨rfl, rfl, rfl, rfl⟩, ?_⟩
              · intro s' hs'; simp at hs'; subst hs'; rw [hs5]; exact hd v
              · intro s' hs'; simp at hs'; subst hs'; exact hl5
              · simp only [demandFrom, hrem5]; omega
          | eof => simp only [closeFunc_P]; omega
          | fail e => simp only [closeFunc_P]; omega
          | panic b => simp only [closeFunc_P]; omega
          | oof => simp only [closeFunc_P]; omega
      | eof =>
          simp only at hp ⊢
          refine ⟨?_, ?_, ?_, ⟨rfl, rfl, rfl, rfl⟩, ?_⟩
          · intro s hs'; simp at hs'
          · intro s hs'; simp at hs'
          · intro s hs'; simp at hs'
          · simp only [demandFrom]; rw [needPulls_none n hp.1]; omega
      | fail e => simp only [castRes, closeFunc_P]; omega
      | panic b => simp only [castRes, closeFunc_P]; omega
      | oof => simp only [castRes, closeFunc_P]; omega
  | eof => simp only [closeFunc_P]; omega
  | fail e => simp only [closeFunc_P]; omega
  | panic b => simp only [closeFunc_P]; omega
  | oof => simp only [closeFunc_P]; omega

/-- list-level bound on the pulls of the outer source, valid in every world -/
def boundAll (lim : Option Int) (c : Obj) : Nat :=
  match lim with
  | some n => if n ≤ 0 then 0 else needPulls c.ops c.g n.toNat c.xs
  | none => c.xs.length + 1

/-- **bound in every world**: whatever the fault plan, the outer source is pulled at most `needPulls … n xs` times under
    `Limit(n)`, `n ≥ 1`; not at all under `Limit(n ≤ 0)`; at most `xs.length + 1` times without a Limit -/
theorem consume_P_all (fuel : Nat) (kc : Consumer) (lim : Option Int) (c : Obj) (w : World)
    (hd : Distinct c) :
    P c.r0 (Model.PipeDyn.consume fuel kc lim c w).2.2 ≤ P c.r0 w + boundAll lim c := by
  simp only [Model.PipeDyn.consume]
  by_cases hoff : limOff lim
  · simp [hoff]
  · simp only [hoff]
    -- the number of elements the loop may still want when it starts
    obtain ⟨n, hn, hbound⟩ : ∃ n, WantOK lim 1 fuel n ∧
        needPulls c.ops c.g n c.xs ≤ boundAll lim c := by
      cases lim with
      | none => exact ⟨fuel + 1, by simp [WantOK], needPulls_le _ _ _ _⟩
      | some m =>
        simp only [limOff, decide_eq_true_eq] at hoff
        refine ⟨m.toNat, by simp [WantOK], ?_⟩
        simp only [boundAll]; rw [if_neg hoff]; exact Nat.le_refl _
    have ho := openC_P_all c w hd n
    generalize openC c w = x at *
    obtain ⟨res, c1, w1⟩ := x
    cases res with
    | val u =>
        simp only at ho
        obtain ⟨h1, h2, h3, h4, h5⟩ := ho
        have hr0 : c1.r0 = c.r0 := h4.1
        have hp := pullLoop_P_all fuel kc lim 1 c1 [] w1 h1 (Distinct_same h4 hd) h2 h3 n hn
        rw [hr0] at hp
        simp only [Bool.false_eq_true, if_false]
        generalize Model.PipeDyn.pullLoop fuel kc lim 1 c1 [] w1 = y at *
        obtain ⟨res2, acc, c2, w2⟩ := y
        simp only at hp
        cases res2 <;> simp only [closeFunc_P] <;> omega
    | eof => simp only at ho ⊢; simp only [Bool.false_eq_true, if_false]; omega
    | fail e => simp only at ho ⊢; simp only [Bool.false_eq_true, if_false]; omega
    | panic b => simp only at ho ⊢; simp only [Bool.false_eq_true, if_false]; omega
    | oof => simp only at ho ⊢; simp only [Bool.false_eq_true, if_false]; omega

end ShpanVerif.Proofs.PipeDyn
