/-
Helper lemmas about core's stable `List.mergeSort` (core only), second part: sorting a block first does not change the
stable sort of the whole.

  * `mergeSort_cons_congr` / `mergeSort_append_congr`  the sort of `A ++ X` depends on `X` only through the sort of `X`
  * `mergeSort_swap`            two adjacent elements that are strictly ordered the right way round may be exchanged
  * `mergeSort_move`            an element may jump over a prefix of strictly smaller elements
  * `mergeSort_mergeSort_append`, `mergeSort_nested`
                                `mergeSort (A ++ mergeSort B ++ C) = mergeSort (A ++ B ++ C)` for ALL lists A, B, C
-/
import ShpanVerif.Proofs.SortLemmas

namespace ShpanVerif.Proofs

open List

variable {α : Type} {le : α → α → Bool}

attribute [local instance] boolRelToRel

/-- In the shape `l₁ ++ a :: l₂` of a sorted list everything after `a` is weakly above it. -/
theorem ge_after_of_sorted {a : α} {l₁ l₂ : List α} (s : (l₁ ++ a :: l₂).Pairwise le) :
    ∀ b ∈ l₂, le a b = true := by
  intro b hb
  exact rel_of_pairwise_cons (pairwise_append.mp s).2.1 hb

/-- The stable sort of `a :: X` is a function of `a` and the stable sort of `X`. -/
theorem mergeSort_cons_congr
    (trans : ∀ (a b c : α), le a b → le b c → le a c)
    (total : ∀ (a b : α), le a b || le b a) (a : α) {X Y : List α}
    (h : mergeSort X le = mergeSort Y le) : mergeSort (a :: X) le = mergeSort (a :: Y) le := by
  obtain ⟨l₁, l₂, h₁, h₂, h₃⟩ := mergeSort_cons trans total a X
  obtain ⟨m₁, m₂, g₁, g₂, g₃⟩ := mergeSort_cons trans total a Y
  have s₁ : (l₁ ++ a :: l₂).Pairwise le := by rw [← h₁]; exact pairwise_mergeSort trans total _
  have s₂ : (m₁ ++ a :: m₂).Pairwise le := by rw [← g₁]; exact pairwise_mergeSort trans total _
  have hu := split_unique (P := fun b => !le a b) l₁ l₂ m₁ m₂ (by rw [← h₂, ← g₂, h])
    (fun b hb => by simpa using h₃ b hb)
    (fun b hb => by simp [ge_after_of_sorted s₁ b hb])
    (fun b hb => by simpa using g₃ b hb)
    (fun b hb => by simp [ge_after_of_sorted s₂ b hb])
  rw [h₁, g₁, hu.1, hu.2]

/-- The stable sort of `A ++ X` depends on `X` only through the stable sort of `X`. -/
theorem mergeSort_append_congr
    (trans : ∀ (a b c : α), le a b → le b c → le a c)
    (total : ∀ (a b : α), le a b || le b a) (A : List α) {X Y : List α}
    (h : mergeSort X le = mergeSort Y le) : mergeSort (A ++ X) le = mergeSort (A ++ Y) le := by
  induction A with
  | nil => simpa using h
  | cons a A ih => exact mergeSort_cons_congr trans total a ih

/-- Two adjacent elements `x`, `y` with `x` strictly below `y` may be exchanged: the stable sort puts `x` first anyway. -/
theorem mergeSort_swap
    (trans : ∀ (a b c : α), le a b → le b c → le a c)
    (total : ∀ (a b : α), le a b || le b a) (x y : α) (hyx : le y x = false) (R : List α) :
    mergeSort (x :: y :: R) le = mergeSort (y :: x :: R) le := by
  have hxy : le x y = true := by
    have := total x y
    simpa [hyx] using this
  obtain ⟨l₁, l₂, h₁, h₂, h₃⟩ := mergeSort_cons trans total y R
  obtain ⟨k₁, k₂, e₁, e₂, e₃⟩ := mergeSort_cons trans total x (y :: R)
  obtain ⟨j₁, j₂, f₁, f₂, f₃⟩ := mergeSort_cons trans total x R
  obtain ⟨i₁, i₂, g₁, g₂, g₃⟩ := mergeSort_cons trans total y (x :: R)
  have sy : (l₁ ++ y :: l₂).Pairwise le := by rw [← h₁]; exact pairwise_mergeSort trans total _
  have sxy : (k₁ ++ x :: k₂).Pairwise le := by rw [← e₁]; exact pairwise_mergeSort trans total _
  have sx : (j₁ ++ x :: j₂).Pairwise le := by rw [← f₁]; exact pairwise_mergeSort trans total _
  have syx : (i₁ ++ y :: i₂).Pairwise le := by rw [← g₁]; exact pairwise_mergeSort trans total _
  have hl₂ := ge_after_of_sorted sy
  have hk₂ := ge_after_of_sorted sxy
  have hj₂ := ge_after_of_sorted sx
  have hi₂ := ge_after_of_sorted syx
  -- `k₁` is a prefix of `l₁`: `y` is not strictly below `x`
  have hsplit : l₁ ++ y :: l₂ = k₁ ++ k₂ := by rw [← h₁, e₂]
  obtain ⟨c, hl₁, hk₂e⟩ : ∃ c, l₁ = k₁ ++ c ∧ k₂ = c ++ y :: l₂ := by
    rcases append_eq_append_iff.mp hsplit with ⟨a', ha, hb⟩ | ⟨c', ha, hb⟩
    · cases a' with
      | nil => exact ⟨[], by simpa using ha.symm, by simpa using hb.symm⟩
      | cons z a' =>
        simp only [cons_append, cons.injEq] at hb
        have : y ∈ k₁ := by rw [ha, ← hb.1]; simp
        have := e₃ y this
        simp [hxy] at this
    · exact ⟨c', ha, hb⟩
  subst hl₁ hk₂e
  -- the sort of `R`, split at `x`
  have hu₁ := split_unique (P := fun b => !le x b) k₁ (c ++ l₂) j₁ j₂
    (by rw [← f₂, h₂]; simp)
    (fun b hb => by simpa using e₃ b hb)
    (fun b hb => by
      have : b ∈ c ++ y :: l₂ := by
        rcases mem_append.mp hb with hb | hb <;> simp [hb]
      simp [hk₂ b this])
    (fun b hb => by simpa using f₃ b hb)
    (fun b hb => by simp [hj₂ b hb])
  obtain ⟨rfl, rfl⟩ := hu₁
  -- the sort of `x :: R`, split at `y`
  have hu₂ := split_unique (P := fun b => !le y b) (k₁ ++ x :: c) l₂ i₁ i₂
    (by rw [← g₂, f₁]; simp)
    (fun b hb => by
      rcases mem_append.mp hb with hb | hb
      · simpa using h₃ b (by simp [hb])
      · rcases mem_cons.mp hb with rfl | hb
        · simp [hyx]
        · simpa using h₃ b (by simp [hb]))
    (fun b hb => by simp [hl₂ b hb])
    (fun b hb => by simpa using g₃ b hb)
    (fun b hb => by simp [hi₂ b hb])
  rw [e₁, g₁, ← hu₂.1, ← hu₂.2]
  simp

/-- An element may jump over a prefix of strictly smaller elements. -/
theorem mergeSort_move
    (trans : ∀ (a b c : α), le a b → le b c → le a c)
    (total : ∀ (a b : α), le a b || le b a) (b : α) :
    ∀ (S R : List α), (∀ s ∈ S, le b s = false) →
      mergeSort (S ++ b :: R) le = mergeSort (b :: (S ++ R)) le
  | [], R, _ => by simp
  | s :: S, R, h => by
      have ih := mergeSort_move trans total b S R (fun t ht => h t (by simp [ht]))
      have h1 : mergeSort (s :: (S ++ b :: R)) le = mergeSort (s :: b :: (S ++ R)) le :=
        mergeSort_cons_congr trans total s ih
      have h2 := mergeSort_swap trans total s b (h s (by simp)) (S ++ R)
      simpa using h1.trans h2

/-- Sorting a leading block first does not change the stable sort. -/
theorem mergeSort_mergeSort_append
    (trans : ∀ (a b c : α), le a b → le b c → le a c)
    (total : ∀ (a b : α), le a b || le b a) :
    ∀ (B C : List α), mergeSort (mergeSort B le ++ C) le = mergeSort (B ++ C) le
  | [], C => by simp
  | b :: B, C => by
      have ih := mergeSort_mergeSort_append trans total B C
      obtain ⟨l₁, l₂, h₁, h₂, h₃⟩ := mergeSort_cons trans total b B
      rw [h₁]
      have hm := mergeSort_move trans total b l₁ (l₂ ++ C) (fun s hs => by simpa using h₃ s hs)
      have : l₁ ++ b :: l₂ ++ C = l₁ ++ b :: (l₂ ++ C) := by simp
      rw [this, hm]
      have : l₁ ++ (l₂ ++ C) = mergeSort B le ++ C := by rw [h₂]; simp
      rw [this]
      exact mergeSort_cons_congr trans total b ih

/-- **Sorting any consecutive block first does not change the stable sort** (all lists, sorted or not). -/
theorem mergeSort_nested
    (trans : ∀ (a b c : α), le a b → le b c → le a c)
    (total : ∀ (a b : α), le a b || le b a) (A B C : List α) :
    mergeSort (A ++ mergeSort B le ++ C) le = mergeSort (A ++ B ++ C) le := by
  rw [append_assoc, append_assoc]
  exact mergeSort_append_congr trans total A (mergeSort_mergeSort_append trans total B C)

/-- The stable sort is idempotent (instance of `mergeSort_nested`). -/
theorem mergeSort_idem
    (trans : ∀ (a b c : α), le a b → le b c → le a c)
    (total : ∀ (a b : α), le a b || le b a) (B : List α) :
    mergeSort (mergeSort B le) le = mergeSort B le := by
  simpa using mergeSort_nested trans total [] B []

end ShpanVerif.Proofs
