/-
C05 (general pull bound), part 3: ClusterSortedStream.  One output costs exactly the length of the current
run in source pulls, however little of the run the factory reads: the factory's nested read pulls once per
element it takes, the skip loop once per element it leaves (the last of these pulls fetches the first
element of the next run, or EOF).
-/
import ShpanVerif.Proofs.PipeC05Defs

namespace ShpanVerif.Proofs.PipeC05
open ShpanVerif.Model.Pipe ShpanVerif ShpanVerif.Proofs.PipeC04

variable {r : Nat}

/-- result of one of the cluster loops: potential for `M` more source calls left -/
def CStep {α : Type} (r : Nat) (res : Res α × Option V × Option V × Pipe × World) (w : World) (M k : Nat) : Prop :=
  match res with
  | (.oof, _, _, _, _) => True
  | (.val _, _, _, p', w') => Pot r p' w' w M k
  | (.eof, _, _, _, _) => True
  | (.fail _, _, _, _, _) => True
  | (.panic _, _, _, _, _) => True

theorem CStep.trans {α : Type} {res : Res α × Option V × Option V × Pipe × World} {w1 w : World} {n k1 k : Nat}
    (h : CStep r res w1 n k1) (hle : pulls w1.trace r + k1 ≤ pulls w.trace r + k) :
    CStep r res w n k := by
  rcases res with ⟨res, a, b, p', w'⟩
  cases res <;> simp only [CStep, Pot] at h ⊢
  obtain ⟨k', hs, hp⟩ := h; exact ⟨k', hs, by omega⟩

theorem clusterRead_pull {F : Nat} (hP : PBelow r F) (k cls : Int) : ∀ fuel, fuel ≤ F →
    ∀ (want : Option Nat) (acc : List V) (nxt last : Option V) (p : Pipe) (l0 : List V) (w : World) (M kk : Nat),
      Den p l0 → (nxt = none → l0 = []) →
      SD r p ((takeWant want ((nxt.toList ++ l0).takeWhile (inCls k cls))).length + M) kk → w.Clean →
      CStep r (clusterRead fuel k cls want acc nxt last p w) w M kk
  | 0, _, _, _, _, _, _, _, _, _, _, _, _, _, _ => by rw [clusterRead]; trivial
  | fuel+1, hf, want, acc, nxt, last, p, l0, w, M, kk, hd, hn, hs, hw => by
    have nothing : takeWant want ((nxt.toList ++ l0).takeWhile (inCls k cls)) = [] →
        CStep r (Res.val acc, nxt, last, p, w) w M kk := by
      intro h0
      rw [h0] at hs
      exact ⟨kk, by simpa using hs, Nat.le_refl _⟩
    unfold clusterRead
    split
    · rw [if_neg (not_cancelled hw)]
      exact nothing (by simp [takeWant])
    · rename_i hw0
      have hw0' : want ≠ some 0 := fun h => hw0 h
      rw [if_neg (not_cancelled hw)]
      cases nxt with
      | none =>
        simp only
        have := hn rfl; subst this
        exact nothing (by cases want <;> simp [takeWant])
      | some item =>
        simp only
        by_cases hc : classify k item = cls
        · have hc1 : (classify k item != cls) = false := by simp [hc]
          rw [hc1]
          simp only [Bool.false_eq_true, if_false]
          have hin : inCls k cls item = true := by simp [inCls, hc]
          have htw : takeWant want (((some item).toList ++ l0).takeWhile (inCls k cls)) =
              item :: takeWant (want.map (· - 1)) (l0.takeWhile (inCls k cls)) := by
            simp only [Option.toList_some, List.singleton_append, List.takeWhile_cons, hin, if_true]
            exact takeWant_cons want hw0' _ _
          rw [htw] at hs
          simp only [List.length_cons] at hs
          rw [Nat.add_right_comm] at hs
          have hok := emitOK_all fuel p l0 w hd hw
          have h := (hP fuel (by omega)).1 p l0 w _ kk hd hs hw
          rcases he : emitP fuel p w with ⟨res, p', w'⟩
          rw [he] at h hok
          cases res <;> simp only [PullStep, StepOK, CStep, Pot] at h hok ⊢
          · rename_i v
            obtain ⟨xs, rfl, h2, h3⟩ := hok
            obtain ⟨k', hs1, hp1⟩ := h
            exact (clusterRead_pull hP k cls fuel (by omega) (want.map (· - 1)) (item :: acc) (some v) (some item)
              p' xs w' M k' h3 (by simp) hs1 h2).trans hp1
          · obtain ⟨rfl, h2, h3⟩ := hok
            obtain ⟨k', hs1, hp1⟩ := h
            exact (clusterRead_pull hP k cls fuel (by omega) (want.map (· - 1)) (item :: acc) none (some item)
              p' [] w' M k' h3 (fun _ => rfl) hs1 h2).trans hp1
        · have hc1 : (classify k item != cls) = true := by simp [hc]
          rw [hc1]
          simp only [if_true]
          have hin : inCls k cls item = false := by simp [inCls, hc]
          exact nothing (by simp [hin]; cases want <;> simp [takeWant])

theorem clusterSkipLoop_pull {F : Nat} (hP : PBelow r F) (k cls : Int) : ∀ fuel, fuel ≤ F →
    ∀ (nextCls : Int) (nxt last : Option V) (p : Pipe) (l0 : List V) (w : World) (M kk : Nat),
      Den p l0 → (nxt = none → l0 = []) → (∀ it, nxt = some it → nextCls = classify k it) →
      SD r p (((nxt.toList ++ l0).takeWhile (inCls k cls)).length + M) kk → w.Clean →
      CStep r (clusterSkipLoop fuel k cls nextCls nxt last p w) w M kk
  | 0, _, _, _, _, _, _, _, _, _, _, _, _, _, _ => by rw [clusterSkipLoop]; trivial
  | fuel+1, hf, nextCls, nxt, last, p, l0, w, M, kk, hd, hn, hcl, hs, hw => by
    unfold clusterSkipLoop
    cases nxt with
    | none =>
      have := hn rfl; subst this
      simp only [CStep, Pot]
      exact ⟨kk, by simpa using hs, Nat.le_refl _⟩
    | some item =>
      simp only
      have hnc := hcl item rfl
      by_cases hc : classify k item = cls
      · have hc1 : (nextCls != cls) = false := by simp [hnc, hc]
        rw [hc1]
        simp only [Bool.false_eq_true, if_false]
        have hin : inCls k cls item = true := by simp [inCls, hc]
        have e : ((some item).toList ++ l0).takeWhile (inCls k cls) = item :: l0.takeWhile (inCls k cls) := by
          simp [hin]
        rw [e] at hs
        simp only [List.length_cons] at hs
        rw [Nat.add_right_comm] at hs
        have hok := emitOK_all fuel p l0 w hd hw
        have h := (hP fuel (by omega)).1 p l0 w _ kk hd hs hw
        rcases he : emitP fuel p w with ⟨res, p', w'⟩
        rw [he] at h hok
        cases res <;> simp only [PullStep, StepOK, CStep, Pot] at h hok ⊢
        · rename_i v
          obtain ⟨xs, rfl, h2, h3⟩ := hok
          obtain ⟨k', hs1, hp1⟩ := h
          by_cases hv : cls > classify k v
          · rw [if_pos hv]; trivial
          · rw [if_neg hv]
            exact (clusterSkipLoop_pull hP k cls fuel (by omega) (classify k v) (some v) (some item) p' xs w' M k'
              h3 (by simp) (by intro it hit; cases hit; rfl) hs1 h2).trans hp1
        · obtain ⟨rfl, h2, h3⟩ := hok
          obtain ⟨k', hs1, hp1⟩ := h
          exact ⟨k', by simpa using hs1, hp1⟩
      · have hc1 : (nextCls != cls) = true := by simp [hnc, hc]
        rw [hc1]
        simp only [if_true, CStep, Pot]
        have hin : inCls k cls item = false := by simp [inCls, hc]
        refine ⟨kk, ?_, Nat.le_refl _⟩
        simpa [hin] using hs

theorem clusterSkip_pull {F : Nat} (hP : PBelow r F) (k cls : Int) : ∀ fuel, fuel ≤ F →
    ∀ (nxt last : Option V) (p : Pipe) (l0 : List V) (w : World) (M kk : Nat),
      Den p l0 → (nxt = none → l0 = []) →
      SD r p (((nxt.toList ++ l0).takeWhile (inCls k cls)).length + M) kk → w.Clean →
      CStep r (clusterSkip fuel k cls nxt last p w) w M kk
  | 0, _, _, _, _, _, _, _, _, _, _, _, _ => by rw [clusterSkip]; trivial
  | fuel+1, hf, nxt, last, p, l0, w, M, kk, hd, hn, hs, hw => by
    unfold clusterSkip
    cases nxt with
    | none =>
      have := hn rfl; subst this
      simp only [CStep, Pot]
      exact ⟨kk, by simpa using hs, Nat.le_refl _⟩
    | some item =>
      simp only
      exact clusterSkipLoop_pull hP k cls fuel (by omega) (classify k item) (some item) last p l0 w M kk hd hn
        (by intro it hit; cases hit; rfl) hs hw

theorem pull_cluster {fuel : Nat} (hP : PBelow r (fuel+1)) (k : Int) (fac : Fac) (nxt : Option V) (cls : Int)
    (last : Option V) (so : Bool) (p : Pipe) (w : World) (n kk : Nat)
    (hs : SD r (.cluster k fac nxt cls last so p) (n+1) kk) (hw : w.Clean) :
    PullStep r (emitP (fuel+1) (.cluster k fac nxt cls last so p) w) w n kk := by
  have hP' : PBelow r fuel := hP.mono (Nat.le_succ _)
  have hB' : Below fuel := hB fuel
  cases nxt with
  | none =>
    rw [emitP]
    exact ⟨kk, by rw [SD]; trivial, Nat.le_refl _⟩
  | some item =>
    rw [SD] at hs
    obtain ⟨rfl, l0, hd0, hsorted, hs⟩ := hs
    rw [emitP]
    obtain ⟨w1, hu, hc1, hpu⟩ := userCall_pulls hw
    rw [hu]
    simp only
    have hcons := (sortedBy_cons (classify k) item l0).mp hsorted
    have hinI : inCls k (classify k item) item = true := by simp [inCls]
    have hS : (some item).toList ++ l0 = item :: l0 := rfl
    have hg : (item :: l0).takeWhile (inCls k (classify k item)) =
        item :: l0.takeWhile (inCls k (classify k item)) := by
      rw [List.takeWhile_cons, if_pos hinI]
    have hrest : (item :: l0).dropWhile (inCls k (classify k item)) =
        l0.dropWhile (inCls k (classify k item)) := by
      rw [List.dropWhile_cons, if_pos hinI]
    -- the potential: this run, then `n` more runs
    rw [runSum_cons] at hs
    generalize hR : runSum k (l0.dropWhile (inCls k (classify k item))) n = R at hs
    have hc1le : (takeWant (facWant fac) (item :: l0.takeWhile (inCls k (classify k item)))).length ≤
        1 + (l0.takeWhile (inCls k (classify k item))).length := by
      have := takeWant_length_le (facWant fac) (item :: l0.takeWhile (inCls k (classify k item)))
      simp only [List.length_cons] at this; omega
    have hs' : SD r p ((takeWant (facWant fac) (item :: l0.takeWhile (inCls k (classify k item)))).length +
        ((1 + (l0.takeWhile (inCls k (classify k item))).length -
            (takeWant (facWant fac) (item :: l0.takeWhile (inCls k (classify k item)))).length) + R)) kk := by
      have e : (takeWant (facWant fac) (item :: l0.takeWhile (inCls k (classify k item)))).length +
        ((1 + (l0.takeWhile (inCls k (classify k item))).length -
            (takeWant (facWant fac) (item :: l0.takeWhile (inCls k (classify k item)))).length) + R) =
          1 + (l0.takeWhile (inCls k (classify k item))).length + R := by omega
      rw [e]; exact hs
    -- the factory's read
    have hread : ReadOK (if fac = Fac.none then (Res.val [], some item, last, p, w1)
        else clusterRead fuel k (classify k item) (facWant fac) [] (some item) last p w1)
        k (classify k item) (facWant fac) [] ((some item).toList ++ l0) last := by
      by_cases hf : fac = Fac.none
      · rw [if_pos hf]; subst hf
        exact readOK_nothing k _ _ [] (some item) last p l0 w1 hd0 (by simp) hc1 (by simp [facWant, takeWant])
      · rw [if_neg hf]
        exact clusterRead_ok hB' k _ fuel (Nat.le_refl _) _ [] (some item) last p l0 w1 hd0 (by simp) hc1
    have hreadp : CStep r (if fac = Fac.none then (Res.val ([] : List V), some item, last, p, w1)
        else clusterRead fuel k (classify k item) (facWant fac) [] (some item) last p w1) w1
        ((1 + (l0.takeWhile (inCls k (classify k item))).length -
            (takeWant (facWant fac) (item :: l0.takeWhile (inCls k (classify k item)))).length) + R) kk := by
      by_cases hf : fac = Fac.none
      · rw [if_pos hf]; subst hf
        simp only [CStep, Pot]
        refine ⟨kk, ?_, Nat.le_refl _⟩
        simpa [facWant, takeWant] using hs'
      · rw [if_neg hf]
        exact clusterRead_pull hP' k _ fuel (Nat.le_refl _) _ [] (some item) last p l0 w1 _ kk hd0 (by simp)
          (by rw [hS, hg]; exact hs') hc1
    rcases hr : (if fac = Fac.none then (Res.val [], some item, last, p, w1)
        else clusterRead fuel k (classify k item) (facWant fac) [] (some item) last p w1) with
      ⟨res, nxt1, last1, p1, w2⟩
    rw [hr] at hread hreadp
    cases res <;> simp only [ReadOK, CStep, PullStep, Pot] at hread hreadp ⊢
    obtain ⟨hc2, hacc, hlast1, l1, hd1, hS1, hn1⟩ := hread
    obtain ⟨k1, hsd1, hp1⟩ := hreadp
    rw [hS, hg] at hacc hlast1 hS1
    -- the skip
    have hnle : (takeWant (facWant fac) (item :: l0.takeWhile (inCls k (classify k item)))).length ≤
        ((item :: l0).takeWhile (inCls k (classify k item))).length := by
      rw [hg]; exact takeWant_length_le _ _
    have hsorted1 : ∀ b ∈ nxt1.toList ++ l1, classify k item ≤ classify k b := by
      intro b hb
      rw [hS1] at hb
      have := List.mem_of_mem_drop hb
      rcases List.mem_cons.mp this with rfl | hb'
      · exact Int.le_refl _
      · exact hcons.1 b hb'
    have hskip := clusterSkip_ok hB' k (classify k item) fuel (Nat.le_refl _) nxt1 last1 p1 l1 w2 hd1 hn1 hsorted1 hc2
    have hsd1' : SD r p1 (((nxt1.toList ++ l1).takeWhile (inCls k (classify k item))).length + R) k1 := by
      rw [hS1, takeWhile_drop _ _ _ hnle, hg, List.length_drop]
      simpa [Nat.add_comm] using hsd1
    have hskipp := clusterSkip_pull hP' k (classify k item) fuel (Nat.le_refl _) nxt1 last1 p1 l1 w2 R k1 hd1 hn1
      hsd1' hc2
    rcases hsk : clusterSkip fuel k (classify k item) nxt1 last1 p1 w2 with ⟨res2, nxt2, last2, p2, w3⟩
    rw [hsk] at hskip hskipp
    cases res2 <;> simp only [SkipLoopOK, CStep, Pot] at hskip hskipp ⊢
    obtain ⟨hc3, hcl2, hlast2, l2, hd2, hS2, hn2⟩ := hskip
    obtain ⟨k2, hsd2, hp2⟩ := hskipp
    rw [hS1, dropWhile_drop _ _ _ hnle, hrest] at hS2
    refine ⟨k2, ?_, by rw [hpu r] at hp1; omega⟩
    cases nxt2 with
    | none => rw [SD]; trivial
    | some it =>
      rw [SD]
      have hrest2 : l0.dropWhile (inCls k (classify k item)) = it :: l2 := by rw [← hS2]; rfl
      refine ⟨hcl2 it rfl, l2, hd2, ?_, ?_⟩
      · rw [← hrest2]; exact sortedBy_dropWhile _ _ l0 hcons.2
      · rw [← hrest2, hR]; exact hsd2

end ShpanVerif.Proofs.PipeC05
