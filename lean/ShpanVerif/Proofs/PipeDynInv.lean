/-
FlatMap model (`Model/PipeDyn.lean`), ALL worlds (any fault plan, cancelled or not): the open/close invariant.
`Inv c w`: the world's open set is exactly what the operator object believes to be open — the outer probe source iff
`outerOpen`, the current inner stream's resource iff `curOpen` and that stream holds it — and `bad` is off.
Every layer preserves it; `closeFunc` brings object and world back to rest (`Rested`).
-/
import ShpanVerif.Proofs.PipeDynClean

namespace ShpanVerif.Proofs.PipeDyn
open ShpanVerif.Model.Pipe ShpanVerif.Model.PipeDyn

/-! ### what the probe primitives do to `isOpen` / `bad` -/

theorem call_res (w : World) : (w.call).2.bad = w.bad ∧ (w.call).2.isOpen = w.isOpen := by
  unfold World.call
  split
  · split
    · split <;> simp
    · simp
  · simp

@[simp] theorem userCall_bad (w : World) : (userCall w).2.bad = w.bad := (call_res w).1
@[simp] theorem userCall_isOpen (w : World) : (userCall w).2.isOpen = w.isOpen := (call_res w).2

@[simp] theorem emitRes_isOpen (r : Nat) (w : World) : (emitRes r w).2.isOpen = w.isOpen := by
  have := call_res w
  unfold emitRes
  generalize w.call = x at *
  obtain ⟨h, w'⟩ := x
  simp_all

@[simp] theorem emitRes_bad (r : Nat) (w : World) : (emitRes r w).2.bad = (w.bad || !w.isOpen r) := by
  have := call_res w
  unfold emitRes
  generalize w.call = x at *
  obtain ⟨h, w'⟩ := x
  simp_all

@[simp] theorem closeRes_isOpen (r : Nat) (w : World) : (closeRes r w).isOpen = upd w.isOpen r false := rfl
@[simp] theorem closeRes_bad (r : Nat) (w : World) : (closeRes r w).bad = (w.bad || !w.isOpen r) := rfl

/-- an Open either succeeds (the resource is now open; `bad` if it was open already) or fails and changes nothing -/
theorem openRes_cases (r : Nat) (w : World) :
    ((openRes r w).1 = .val () ∧ (openRes r w).2.isOpen = upd w.isOpen r true ∧
        (openRes r w).2.bad = (w.bad || w.isOpen r)) ∨
    (((openRes r w).1 = .fail .user ∨ ∃ b, (openRes r w).1 = .panic b) ∧
        (openRes r w).2.isOpen = w.isOpen ∧ (openRes r w).2.bad = w.bad) := by
  have := call_res w
  unfold openRes
  generalize w.call = x at *
  obtain ⟨h, w'⟩ := x
  cases h <;> simp_all

theorem upd_apply (f : Nat → Bool) (r : Nat) (b : Bool) (x : Nat) : upd f r b x = if x = r then b else f x := rfl

/-! ### replay of the event trace: "never two inner streams open at the same time" -/

/-- one event of the replay; state = (no violation so far, the inner resource currently open) -/
def stepT (r0 : Nat) (s : Bool × Option Nat) : Event → Bool × Option Nat
  | .openOk r => if r = r0 then s else (s.1 && s.2.isNone, some r)
  | .close r => if r = r0 then s else (s.1, if s.2 = some r then none else s.2)
  | _ => s

/-- replay of a whole trace: the flag stays `true` iff no resource other than `r0` was ever opened while another
    resource other than `r0` was open -/
def runT (r0 : Nat) (tr : List Event) : Bool × Option Nat := tr.foldl (stepT r0) (true, none)

theorem runT_snoc (r0 : Nat) (tr : List Event) (e : Event) : runT r0 (tr ++ [e]) = stepT r0 (runT r0 tr) e := by
  simp [runT, List.foldl_append]

theorem runT_call (r0 : Nat) (w : World) : runT r0 (w.call).2.trace = runT r0 w.trace := by
  unfold World.call
  split
  · split
    · split <;> simp [runT_snoc, stepT]
    · simp [runT_snoc, stepT]
  · simp [runT_snoc, stepT]

theorem runT_userCall (r0 : Nat) (w : World) : runT r0 (userCall w).2.trace = runT r0 w.trace := runT_call r0 w

theorem runT_emitRes (r0 r : Nat) (w : World) : runT r0 (emitRes r w).2.trace = runT r0 w.trace := by
  have := runT_call r0 w
  unfold emitRes
  generalize w.call = x at *
  obtain ⟨h, w'⟩ := x
  simp only [runT_snoc, stepT]; exact this

theorem runT_closeRes (r0 r : Nat) (w : World) : runT r0 (closeRes r w).trace = stepT r0 (runT r0 w.trace) (.close r) := by
  simp [closeRes, runT_snoc]

theorem runT_openRes (r0 r : Nat) (w : World) :
    runT r0 (openRes r w).2.trace =
      (match (openRes r w).1 with
       | .val _ => stepT r0 (runT r0 w.trace) (.openOk r)
       | _ => runT r0 w.trace) := by
  have := runT_call r0 w
  unfold openRes
  generalize w.call = x at *
  obtain ⟨h, w'⟩ := x
  cases h <;> simp [runT_snoc, stepT, this]

/-- once violated, always violated -/
theorem foldl_stepT_false (r0 : Nat) : ∀ (b : List Event) (x : Option Nat), (b.foldl (stepT r0) (false, x)).1 = false
  | [], _ => rfl
  | e :: b, x => by
      cases e with
      | openOk r => simp only [List.foldl_cons, stepT]; split <;> simp [foldl_stepT_false r0 b]
      | close r => simp only [List.foldl_cons, stepT]; split <;> simp [foldl_stepT_false r0 b]
      | _ => simp only [List.foldl_cons, stepT]; exact foldl_stepT_false r0 b x

/-- what the flag of the replay means: whenever a resource other than `r0` is opened, no resource other than `r0` is
    open at that moment (every earlier one has been closed) -/
theorem runT_open_none (r0 : Nat) (a b : List Event) (r : Nat) (hr : r ≠ r0)
    (h : (runT r0 (a ++ [.openOk r] ++ b)).1 = true) : (runT r0 a).2 = none ∧ (runT r0 a).1 = true := by
  unfold runT at *
  rw [List.foldl_append, List.foldl_append] at h
  simp only [List.foldl_cons, List.foldl_nil, stepT, hr, if_false] at h
  generalize List.foldl (stepT r0) (true, none) a = s at *
  obtain ⟨f, o⟩ := s
  cases f with
  | false => simp [foldl_stepT_false] at h
  | true =>
    cases o with
    | none => exact ⟨rfl, rfl⟩
    | some q => simp [foldl_stepT_false] at h

/-- trace-level invariant: no violation so far, and the replay's "currently open inner resource" is the world's -/
def TI (r0 : Nat) (w : World) : Prop :=
  (runT r0 w.trace).1 = true ∧ (runT r0 w.trace).2 ≠ some r0 ∧
  ∀ r, r ≠ r0 → (w.isOpen r = true ↔ (runT r0 w.trace).2 = some r)

/-- a world in which nothing has happened yet -/
theorem TI_fresh (r0 : Nat) (w : World) (ht : w.trace = []) (hc : ∀ r, w.isOpen r = false) : TI r0 w := by
  unfold TI; rw [ht]; simp [runT, hc]

/-- the part of the world C01 is about is untouched (open set, `bad`, and the replay of the trace) -/
def SameRes (w w' : World) : Prop := w'.bad = w.bad ∧ w'.isOpen = w.isOpen ∧ ∀ r0, runT r0 w'.trace = runT r0 w.trace

theorem SameRes.rfl' (w : World) : SameRes w w := ⟨rfl, rfl, fun _ => rfl⟩

theorem TI.same {r0 : Nat} {w w' : World} (h : TI r0 w) (hs : SameRes w w') : TI r0 w' := by
  unfold TI at *; rw [hs.2.2 r0, hs.2.1]; exact h

theorem TI.closeResP {r0 : Nat} {w : World} (h : TI r0 w) (r : Nat) : TI r0 (closeRes r w) := by
  obtain ⟨h1, h2, h3⟩ := h
  unfold TI
  rw [runT_closeRes]
  by_cases e : r = r0
  · subst e
    simp only [stepT, if_true, closeRes_isOpen]
    refine ⟨h1, h2, ?_⟩
    intro r' hr'; rw [← h3 r' hr']; simp [upd_apply, hr']
  · simp only [stepT, e, if_false, closeRes_isOpen]
    refine ⟨h1, ?_, ?_⟩
    · split <;> simp_all
    · intro r' hr'
      by_cases e' : r' = r
      · subst e'; simp [upd_apply]
        try (split <;> simp_all)
      · simp only [upd_apply, e', if_false]; rw [h3 r' hr']
        split
        · rename_i hc; simp [hc]; exact fun h => e' h.symm
        · rfl

/-- a successful Open of an inner resource while no inner resource is open keeps the trace invariant -/
theorem TI.openOk {r0 : Nat} {w w' : World} (h : TI r0 w) (r : Nat)
    (hclosed : r ≠ r0 → ∀ r', r' ≠ r0 → w.isOpen r' = false)
    (ht : runT r0 w'.trace = stepT r0 (runT r0 w.trace) (.openOk r)) (ho : w'.isOpen = upd w.isOpen r true) : TI r0 w' := by
  obtain ⟨h1, h2, h3⟩ := h
  unfold TI
  rw [ht, ho]
  by_cases e : r = r0
  · subst e
    simp only [stepT, if_true]
    refine ⟨h1, h2, ?_⟩
    intro r' hr'; rw [← h3 r' hr']; simp [upd_apply, hr']
  · have hnone : (runT r0 w.trace).2 = none := by
      cases hc : (runT r0 w.trace).2 with
      | none => rfl
      | some q =>
        have hq : q ≠ r0 := by intro e'; subst e'; exact h2 hc
        have := (h3 q hq).2 hc
        rw [hclosed e q hq] at this; simp at this
    simp only [stepT, e, if_false, hnone, h1]
    refine ⟨by simp, by simp; exact e, ?_⟩
    intro r' hr'
    by_cases e' : r' = r
    · subst e'; simp [upd_apply]
    · simp only [upd_apply, e', if_false]
      rw [hclosed e r' hr']; simp; exact fun h => e' h.symm

/-! ### the outer stream -/

theorem applyOps_any : ∀ (ops : List OOp) (v : V) (w : World),
    SameRes w (applyOps ops v w).2 ∧ (∀ o, (applyOps ops v w).1 = .val o → o = opsPure ops v) ∧
    (applyOps ops v w).1 ≠ .eof
  | [], v, w => by simp [applyOps, opsPure, SameRes]
  | .peek :: ops, v, w => by
      have hb := userCall_bad w; have ho := userCall_isOpen w; have ht := fun r0 => runT_userCall r0 w
      simp only [applyOps, opsPure]
      generalize userCall w = x at *
      obtain ⟨hit, w'⟩ := x
      have ih := applyOps_any ops v w'
      cases hit <;> simp_all [SameRes, hitRes, noErr]
  | .map f :: ops, v, w => by
      have hb := userCall_bad w; have ho := userCall_isOpen w; have ht := fun r0 => runT_userCall r0 w
      simp only [applyOps, opsPure]
      generalize userCall w = x at *
      obtain ⟨hit, w'⟩ := x
      have ih := applyOps_any ops (f.app v) w'
      cases hit <;> simp_all [SameRes, hitRes]
  | .filter p :: ops, v, w => by
      have hb := userCall_bad w; have ho := userCall_isOpen w; have ht := fun r0 => runT_userCall r0 w
      simp only [applyOps, opsPure]
      generalize userCall w = x at *
      obtain ⟨hit, w'⟩ := x
      have ih := applyOps_any ops v w'
      cases hit <;> by_cases hp : p.app v <;> simp_all [SameRes, hitRes]

theorem outerDen_cons_none {ops : List OOp} {x : Int} {rest : List Int} (h : opsPure ops (.int x) = none) :
    outerDen ops (x :: rest) = outerDen ops rest := by simp [outerDen, h]

theorem outerDen_cons_some {ops : List OOp} {x : Int} {rest : List Int} {v : V} (h : opsPure ops (.int x) = some v) :
    outerDen ops (x :: rest) = v :: outerDen ops rest := by simp [outerDen, h]

theorem emitRest_any (r0 : Nat) (ops : List OOp) : ∀ (rest : List Int) (w : World), w.isOpen r0 = true →
    SameRes w (emitRest r0 ops rest w).2.2 ∧ (emitRest r0 ops rest w).2.1 <:+ rest ∧
    (∀ v, (emitRest r0 ops rest w).1 = .val v → outerDen ops rest ≠ []) ∧
    ((emitRest r0 ops rest w).1 = .eof → outerDen ops rest = [])
  | [], w, h => by
      have hb := emitRes_bad r0 w; have ho := emitRes_isOpen r0 w; have ht := fun q => runT_emitRes q r0 w
      simp only [emitRest]
      generalize emitRes r0 w = x at *
      obtain ⟨hit, w'⟩ := x
      cases hit <;> simp_all [SameRes, hitRes, outerDen]
  | x :: rest, w, h => by
      have hb := emitRes_bad r0 w; have ho := emitRes_isOpen r0 w; have ht := fun q => runT_emitRes q r0 w
      simp only [emitRest]
      generalize emitRes r0 w = y at *
      obtain ⟨hit, w1⟩ := y
      simp only at hb ho ht
      have hs1 : SameRes w w1 := ⟨by rw [hb]; simp [h], ho, ht⟩
      cases hit with
      | none =>
          simp only []
          have ha := applyOps_any ops (.int x) w1
          generalize applyOps ops (.int x) w1 = z at *
          obtain ⟨res, w2⟩ := z
          simp only at ha
          obtain ⟨hs2, hv, hne⟩ := ha
          have hsr : SameRes w w2 := ⟨by rw [hs2.1, hs1.1], by rw [hs2.2.1, hs1.2.1], fun q => by rw [hs2.2.2 q, hs1.2.2 q]⟩
          have hopen2 : w2.isOpen r0 = true := by rw [hsr.2.1]; exact h
          have ih := emitRest_any r0 ops rest w2 hopen2
          cases res with
          | val o =>
              have := hv o rfl
              cases o with
              | some v =>
                  simp only []
                  refine ⟨hsr, List.suffix_cons _ _, ?_, ?_⟩
                  · intro _ _; rw [outerDen_cons_some this.symm]; simp
                  · intro hh; cases hh
              | none =>
                  simp only []
                  obtain ⟨i1, i3, i4, i5⟩ := ih
                  refine ⟨⟨by rw [i1.1, hsr.1], by rw [i1.2.1, hsr.2.1], fun q => by rw [i1.2.2 q, hsr.2.2 q]⟩, ?_, ?_, ?_⟩
                  · exact List.IsSuffix.trans i3 (List.suffix_cons _ _)
                  · intro v hv'; rw [outerDen_cons_none this.symm]; exact i4 v hv'
                  · intro he; rw [outerDen_cons_none this.symm]; exact i5 he
          | eof => exact absurd rfl hne
          | fail e => exact ⟨hsr, List.suffix_cons _ _, fun v hv' => by simp [castRes] at hv', fun hh => by simp [castRes] at hh⟩
          | panic b => exact ⟨hsr, List.suffix_cons _ _, fun v hv' => by simp [castRes] at hv', fun hh => by simp [castRes] at hh⟩
          | oof => exact ⟨hsr, List.suffix_cons _ _, fun v hv' => by simp [castRes] at hv', fun hh => by simp [castRes] at hh⟩
      | err => exact ⟨hs1, List.suffix_refl _, fun v hv' => by simp [hitRes] at hv', fun hh => by simp [hitRes] at hh⟩
      | panic b => exact ⟨hs1, List.suffix_refl _, fun v hv' => by simp [hitRes] at hv', fun hh => by simp [hitRes] at hh⟩

/-! ### inner streams -/

/-- the probe resource an inner stream description works on -/
def ires : Inner → Option Nat
  | .probe r _ => some r
  | .iter r _ => some r
  | _ => none

def sres : InnerS → Option Nat
  | .probe r _ _ => some r
  | .iter r _ _ => some r
  | _ => none

/-- an OPEN inner stream holds resource `r` open: a probe source always, an iterator while its sequence function runs -/
def holdsS : InnerS → Nat → Bool
  | .probe r' _ _, r => r == r'
  | .iter r' _ (.running _), r => r == r'
  | _, _ => false

/-- the world agrees with an open inner stream about its resource -/
def Tracks (s : InnerS) (w : World) : Prop := ∀ r, sres s = some r → w.isOpen r = holdsS s r

theorem holdsS_other {s : InnerS} {r : Nat} (h : sres s ≠ some r) : holdsS s r = false := by
  cases s with
  | probe r' ys rest => simp [sres] at h; simp [holdsS]; exact fun e => h e.symm
  | iter r' ys st => simp [sres] at h; cases st <;> simp [holdsS]; exact fun e => h e.symm
  | _ => rfl

theorem openI_any (i : Inner) (w : World) (hclosed : ∀ r, ires i = some r → w.isOpen r = false) :
    sres (openI i.init w).2.1 = ires i ∧
    (((openI i.init w).1 = .val () ∧ (openI i.init w).2.2.bad = w.bad ∧
        ∀ r, (openI i.init w).2.2.isOpen r = (w.isOpen r || holdsS (openI i.init w).2.1 r)) ∨
     ((openI i.init w).1 ≠ .val () ∧ SameRes w (openI i.init w).2.2)) := by
  cases i with
  | probe r ys =>
      have hc := openRes_cases r w
      have ht := fun q => runT_openRes q r w
      have hcl := hclosed r rfl
      simp only [Inner.init, openI, ires]
      generalize openRes r w = x at *
      obtain ⟨res, w'⟩ := x
      simp only at hc ht
      rcases hc with ⟨rfl, h1, h2⟩ | ⟨hres, h1, h2⟩
      · refine ⟨rfl, Or.inl ⟨rfl, by simp [h2, hcl], ?_⟩⟩
        intro r'; simp [h1, upd_apply, holdsS]; by_cases e : r' = r <;> simp [e]
      · rcases hres with rfl | ⟨b, rfl⟩ <;> simp [sres, SameRes, h1, h2] <;> intro q <;> simpa using ht q
  | just ys => simp [Inner.init, openI, ires, sres, holdsS]
  | empty => simp [Inner.init, openI, ires, sres, holdsS]
  | error => simp [Inner.init, openI, ires, sres, SameRes]
  | iter r ys => simp [Inner.init, openI, ires, sres, holdsS]

theorem iterStep_any (r : Nat) (ys rest : List V) (w : World) (h : w.isOpen r = true) :
    (iterStep r ys rest w).2.2.bad = w.bad ∧ Tracks (iterStep r ys rest w).2.1 (iterStep r ys rest w).2.2 ∧
    sres (iterStep r ys rest w).2.1 = some r ∧
    ∀ r', r' ≠ r → (iterStep r ys rest w).2.2.isOpen r' = w.isOpen r' := by
  cases rest with
  | nil =>
      simp only [iterStep, closeRes_bad, closeRes_isOpen, h, sres, Tracks]
      refine ⟨by simp, ?_, trivial, ?_⟩
      · intro r' hr'; simp at hr'; subst hr'; simp [upd_apply, holdsS]
      · intro r' hr'; simp [upd_apply, hr']
  | cons y rest =>
      simp only [iterStep, sres, Tracks]
      refine ⟨trivial, ?_, trivial, fun _ _ => trivial⟩
      intro r' hr'; simp at hr'; subst hr'; simp [holdsS, h]

theorem emitI_any (s : InnerS) (w : World) (ht : Tracks s w) :
    (emitI s w).2.2.bad = w.bad ∧ Tracks (emitI s w).2.1 (emitI s w).2.2 ∧ sres (emitI s w).2.1 = sres s ∧
    ∀ r, sres s ≠ some r → (emitI s w).2.2.isOpen r = w.isOpen r := by
  cases s with
  | probe r ys rest =>
      have hopen : w.isOpen r = true := by simpa [holdsS] using ht r rfl
      have hb := emitRes_bad r w; have ho := emitRes_isOpen r w
      simp only [emitI]
      generalize emitRes r w = x at *
      obtain ⟨hit, w'⟩ := x
      simp only at hb ho
      have hb' : w'.bad = w.bad := by rw [hb]; simp [hopen]
      have htr : ∀ rest', Tracks (.probe r ys rest') w' := by
        intro rest' r' hr'; simp [sres] at hr'; subst hr'; simp [holdsS, ho, hopen]
      cases hit with
      | none => cases rest <;> simp [hb', htr, sres, ho]
      | err => simp [hb', htr, sres, ho]
      | panic b => simp [hb', htr, sres, ho]
  | just ys rest =>
      simp only [emitI]
      split
      · exact ⟨rfl, ht, rfl, fun _ _ => rfl⟩
      · cases rest <;> simp [Tracks, sres]
  | empty => simp [emitI, Tracks, sres]
  | error => simp [emitI, Tracks, sres]
  | iter r ys st =>
      simp only [emitI]
      split
      · exact ⟨rfl, ht, rfl, fun _ _ => rfl⟩
      · cases st with
        | fresh =>
            have hclosed : w.isOpen r = false := by simpa [holdsS] using ht r rfl
            have hc := openRes_cases r w
            simp only []
            generalize openRes r w = x at *
            obtain ⟨res, w'⟩ := x
            simp only at hc
            rcases hc with ⟨rfl, h1, h2⟩ | ⟨hres, h1, h2⟩
            · have hopen' : w'.isOpen r = true := by simp [h1, upd_apply]
              have hi := iterStep_any r ys ys w' hopen'
              simp only []
              obtain ⟨i1, i2, i3, i4⟩ := hi
              refine ⟨by rw [i1, h2]; simp [hclosed], i2, by rw [i3]; rfl, ?_⟩
              intro r' hr'
              have : r' ≠ r := by intro e; apply hr'; simp [sres, e]
              rw [i4 r' this, h1]; simp [upd_apply, this]
            · have htr : Tracks (.iter r ys .done) w' := by
                intro r' hr'; simp [sres] at hr'; subst hr'; simp [holdsS, h1, hclosed]
              rcases hres with rfl | ⟨b, rfl⟩ <;> simp [castRes, h2, htr, sres, h1]
        | running rest =>
            have hopen : w.isOpen r = true := by simpa [holdsS] using ht r rfl
            have hi := iterStep_any r ys rest w hopen
            obtain ⟨i1, i2, i3, i4⟩ := hi
            refine ⟨i1, i2, by rw [i3]; rfl, ?_⟩
            intro r' hr'
            have : r' ≠ r := by intro e; apply hr'; simp [sres, e]
            exact i4 r' this
        | done => exact ⟨rfl, ht, rfl, fun _ _ => rfl⟩

theorem closeI_any (s : InnerS) (w : World) (ht : Tracks s w) :
    (closeI s w).2.bad = w.bad ∧ ∀ r, (closeI s w).2.isOpen r = (if sres s = some r then false else w.isOpen r) := by
  cases s with
  | probe r ys rest =>
      have hopen : w.isOpen r = true := by simpa [holdsS] using ht r rfl
      simp only [closeI, closeRes_bad, closeRes_isOpen, sres, hopen]
      refine ⟨by simp, ?_⟩
      intro r'; by_cases e : r' = r
      · simp [upd_apply, e]
      · have : ¬ r = r' := fun h => e h.symm
        simp [upd_apply, e, this]
  | just ys rest => simp [closeI, sres]
  | empty => simp [closeI, sres]
  | error => simp [closeI, sres]
  | iter r ys st =>
      cases st with
      | running rest =>
          have hopen : w.isOpen r = true := by simpa [holdsS] using ht r rfl
          simp only [closeI, closeRes_bad, closeRes_isOpen, sres, hopen]
          refine ⟨by simp, ?_⟩
          intro r'; by_cases e : r' = r
          · simp [upd_apply, e]
          · have : ¬ r = r' := fun h => e h.symm
            simp [upd_apply, e, this]
      | fresh =>
          have hcl : w.isOpen r = false := by simpa [holdsS] using ht r rfl
          simp only [closeI, sres]
          refine ⟨trivial, ?_⟩
          intro r'; by_cases e : r = r'
          · subst e; simp [hcl]
          · simp [e]
      | done =>
          have hcl : w.isOpen r = false := by simpa [holdsS] using ht r rfl
          simp only [closeI, sres]
          refine ⟨trivial, ?_⟩
          intro r'; by_cases e : r = r'
          · subst e; simp [hcl]
          · simp [e]

/-! ### inner streams and the trace invariant -/

theorem TI.same' {r0 : Nat} {w w' : World} (h : TI r0 w) (hi : w'.isOpen = w.isOpen)
    (ht : runT r0 w'.trace = runT r0 w.trace) : TI r0 w' := by
  unfold TI at *; rw [ht, hi]; exact h

theorem TI.openResP {r0 : Nat} {w : World} (h : TI r0 w) (r : Nat)
    (hclosed : r ≠ r0 → ∀ r', r' ≠ r0 → w.isOpen r' = false) : TI r0 (openRes r w).2 := by
  have hc := openRes_cases r w
  have ht := runT_openRes r0 r w
  generalize openRes r w = x at *
  obtain ⟨res, w'⟩ := x
  simp only at hc ht
  rcases hc with ⟨rfl, h1, h2⟩ | ⟨hres, h1, h2⟩
  · exact h.openOk r hclosed (by simpa using ht) h1
  · refine h.same' h1 ?_
    rcases hres with rfl | ⟨b, rfl⟩ <;> simpa using ht

theorem iterStep_TI {r0 : Nat} (r : Nat) (ys rest : List V) (w : World) (h : TI r0 w) :
    TI r0 (iterStep r ys rest w).2.2 := by
  cases rest with
  | nil => exact h.closeResP r
  | cons y rest => exact h

theorem openI_TI {r0 : Nat} (i : Inner) (w : World) (h : TI r0 w) (hcl : ∀ r', r' ≠ r0 → w.isOpen r' = false) :
    TI r0 (openI i.init w).2.2 := by
  cases i with
  | probe r ys =>
      have := h.openResP r (fun _ => hcl)
      simp only [Inner.init, openI]
      generalize openRes r w = x at *
      obtain ⟨res, w'⟩ := x
      cases res <;> exact this
  | _ => exact h

theorem emitI_TI {r0 : Nat} (s : InnerS) (w : World) (h : TI r0 w) (hp : ∀ r', r' ≠ r0 → w.isOpen r' = holdsS s r') :
    TI r0 (emitI s w).2.2 := by
  cases s with
  | probe r ys rest =>
      have := h.same' (emitRes_isOpen r w) (runT_emitRes r0 r w)
      simp only [emitI]
      generalize emitRes r w = x at *
      obtain ⟨hit, w'⟩ := x
      cases hit <;> cases rest <;> exact this
  | just ys rest =>
      simp only [emitI]
      split
      · exact h
      · cases rest <;> exact h
  | empty => exact h
  | error => exact h
  | iter r ys st =>
      simp only [emitI]
      split
      · exact h
      · cases st with
        | fresh =>
            have hcl : ∀ r', r' ≠ r0 → w.isOpen r' = false := by intro r' hr'; rw [hp r' hr']; rfl
            have := h.openResP r (fun _ => hcl)
            simp only []
            generalize openRes r w = x at *
            obtain ⟨res, w'⟩ := x
            cases res with
            | val u => exact iterStep_TI r ys ys w' this
            | _ => exact this
        | running rest => exact iterStep_TI r ys rest w h
        | done => exact h

theorem closeI_TI {r0 : Nat} (s : InnerS) (w : World) (h : TI r0 w) : TI r0 (closeI s w).2 := by
  cases s with
  | probe r ys rest => exact h.closeResP r
  | iter r ys st => cases st <;> first | exact h | exact h.closeResP r
  | _ => exact h

/-! ### the concatenation -/

def holdsO : Option InnerS → Nat → Bool
  | some s, r => holdsS s r
  | none, _ => false

/-- the mapper never builds a stream on the outer source's resource -/
def Distinct (c : Obj) : Prop := ∀ v, ires (c.g v) ≠ some c.r0

/-- object and world agree on what is open; nothing went wrong so far -/
structure Inv (c : Obj) (w : World) : Prop where
  bad : w.bad = false
  opn : ∀ r, w.isOpen r = ((c.outerOpen && r == c.r0) || (c.curOpen && holdsO c.cur r))
  curRes : ∀ s, c.cur = some s → sres s ≠ some c.r0
  suffix : c.rest <:+ c.xs
  distinct : Distinct c
  rewound : c.outerOpen = false → c.rest = c.xs
  /-- trace level: never two inner streams open at the same time -/
  trc : TI c.r0 w

/-- inside a materialisation (after a successful open): the outer stream is open and the current provider is not stale -/
def Run (c : Obj) : Prop := c.outerOpen = true ∧ ∀ s, c.cur = some s → c.curOpen = true

/-- between materialisations: everything closed, the probe source rewound -/
def Rested (c : Obj) (w : World) : Prop := Inv c w ∧ c.outerOpen = false ∧ c.curOpen = false ∧ c.rest = c.xs

theorem Rested.allClosed {c : Obj} {w : World} (h : Rested c w) : ∀ r, w.isOpen r = false := by
  intro r; rw [h.1.opn r]; simp [h.2.1, h.2.2.1]

theorem outerDen_suffix {ops : List OOp} {a b : List Int} (h : a <:+ b) (hne : outerDen ops a ≠ []) :
    outerDen ops b ≠ [] := by
  obtain ⟨t, rfl⟩ := h
  simp only [outerDen, List.filterMap_append] at *
  intro hh; rw [List.append_eq_nil_iff] at hh; exact hne hh.2

theorem pullOuter_any (c : Obj) (w : World) (hopen : w.isOpen c.r0 = true) :
    SameRes w (pullOuter c w).2.2 ∧
    (∃ rest', (pullOuter c w).2.1 = { c with rest := rest' } ∧ rest' <:+ c.rest) ∧
    (∀ i, (pullOuter c w).1 = .val i → (∃ v, i = c.g v) ∧ outerDen c.ops c.rest ≠ []) ∧
    ((pullOuter c w).1 = .eof → outerDen c.ops c.rest = []) := by
  have he := emitRest_any c.r0 c.ops c.rest w hopen
  simp only [pullOuter]
  generalize emitRest c.r0 c.ops c.rest w = x at *
  obtain ⟨res, rest1, w1⟩ := x
  simp only at he
  obtain ⟨hs, hsuf, hval, heof⟩ := he
  cases res with
  | val v =>
      have hb := userCall_bad w1; have ho := userCall_isOpen w1; have ht := fun q => runT_userCall q w1
      simp only []
      generalize userCall w1 = y at *
      obtain ⟨hit, w2⟩ := y
      simp only at hb ho ht
      have hs2 : SameRes w w2 := ⟨by rw [hb]; exact hs.1, by rw [ho]; exact hs.2.1, fun q => by rw [ht q]; exact hs.2.2 q⟩
      cases hit with
      | none => exact ⟨hs2, ⟨rest1, rfl, hsuf⟩, fun i hi => by simp at hi; exact ⟨⟨v, hi.symm⟩, hval v rfl⟩, fun h => by simp at h⟩
      | err => exact ⟨hs2, ⟨rest1, rfl, hsuf⟩, fun i hi => by simp [hitRes, noErr] at hi, fun h => by simp [hitRes, noErr] at h⟩
      | panic b => exact ⟨hs2, ⟨rest1, rfl, hsuf⟩, fun i hi => by simp [hitRes, noErr] at hi, fun h => by simp [hitRes, noErr] at h⟩
  | eof => exact ⟨hs, ⟨rest1, rfl, hsuf⟩, fun i hi => by simp [castRes] at hi, fun _ => heof rfl⟩
  | fail e => exact ⟨hs, ⟨rest1, rfl, hsuf⟩, fun i hi => by simp [castRes] at hi, fun h => by simp [castRes] at h⟩
  | panic b => exact ⟨hs, ⟨rest1, rfl, hsuf⟩, fun i hi => by simp [castRes] at hi, fun h => by simp [castRes] at h⟩
  | oof => exact ⟨hs, ⟨rest1, rfl, hsuf⟩, fun i hi => by simp [castRes] at hi, fun h => by simp [castRes] at h⟩

/-- the invariant does not look at `rest` except for "is a suffix of xs", nor at the world except for `bad`/`isOpen` -/
theorem Inv.move {c : Obj} {w w' : World} {rest' : List Int} (h : Inv c w) (hs : SameRes w w') (hr : rest' <:+ c.rest)
    (ho : c.outerOpen = true) : Inv { c with rest := rest' } w' := by
  obtain ⟨h1, h2, h3, h4, h6, h7, h8⟩ := h
  exact ⟨by rw [hs.1]; exact h1, by intro r; rw [hs.2.1]; exact h2 r, h3, hr.trans h4, h6, by simp [ho], h8.same hs⟩

theorem Inv.dropCur {c : Obj} {w w' : World} (h : Inv c w) (hs : SameRes w w') (hc : c.curOpen = false) :
    Inv { c with cur := none } w' := by
  obtain ⟨h1, h2, h3, h4, h6, h7, h8⟩ := h
  refine ⟨by rw [hs.1]; exact h1, ?_, ?_, h4, h6, h7, h8.same hs⟩
  · intro r; rw [hs.2.1, h2 r]; simp [hc]
  · intro s hs'; simp at hs'

theorem openNext_any (c : Obj) (i : Inner) (w : World) (h : Inv c w) (hc : c.curOpen = false)
    (hi : ∃ v, i = c.g v) :
    ((openNext c i w).1 = .val () ∧ (∃ s, (openNext c i w).2.1 = { c with cur := some s, curOpen := true }) ∧
        Inv (openNext c i w).2.1 (openNext c i w).2.2) ∨
    ((openNext c i w).1 ≠ .val () ∧ ((openNext c i w).2.1 = c ∨ (openNext c i w).2.1 = { c with cur := none }) ∧
        SameRes w (openNext c i w).2.2) := by
  obtain ⟨v, rfl⟩ := hi
  have hclosed : ∀ r, ires (c.g v) = some r → w.isOpen r = false := by
    intro r hr
    have : r ≠ c.r0 := by intro e; subst e; exact h.distinct v hr
    rw [h.opn r]; simp [hc, this]
  have ho := openI_any (c.g v) w hclosed
  have hti := openI_TI (r0 := c.r0) (c.g v) w h.trc (by
    intro r' hr'; rw [h.opn r']; simp [hc, hr'])
  simp only [openNext]
  generalize openI (c.g v).init w = x at *
  obtain ⟨res, s1, w1⟩ := x
  simp only at ho
  obtain ⟨hres, hcase⟩ := ho
  rcases hcase with ⟨rfl, hb, hop⟩ | ⟨hnv, hs⟩
  · left
    refine ⟨rfl, ⟨s1, rfl⟩, ?_⟩
    refine ⟨by rw [hb]; exact h.bad, ?_, ?_, h.suffix, h.distinct, h.rewound, hti⟩
    · intro r; simp only []; rw [hop r, h.opn r]; simp [hc, holdsO]
    · intro s hs'; simp at hs'; subst hs'; rw [hres]; exact h.distinct v
  · right
    cases res with
    | val u => exact absurd rfl hnv
    | panic b => exact ⟨by simp, Or.inl rfl, hs⟩
    | eof => exact ⟨by simp, Or.inr rfl, hs⟩
    | fail e => exact ⟨by simp, Or.inr rfl, hs⟩
    | oof => exact ⟨by simp, Or.inr rfl, hs⟩

theorem Inv.tracks {c : Obj} {w : World} (h : Inv c w) {s : InnerS} (hcur : c.cur = some s) (hopen : c.curOpen = true) :
    Tracks s w := by
  intro r hr
  have : r ≠ c.r0 := by intro e; subst e; exact h.curRes s hcur hr
  rw [h.opn r]; simp [hcur, hopen, holdsO, this]

/-- closeFunc, first half: the current inner stream, if the builder holds it open -/
def closeCur (c : Obj) (w : World) : Obj × World :=
  match c.curOpen, c.cur with
  | true, some s => ({ c with cur := some (closeI s w).1, curOpen := false }, (closeI s w).2)
  | _, _ => ({ c with curOpen := false }, w)

/-- closeFunc, second half: the outer stream -/
def closeOut (c : Obj) (w : World) : Obj × World :=
  if c.outerOpen then ({ c with outerOpen := false, rest := c.xs }, closeRes c.r0 w) else (c, w)

theorem closeFunc_eq (c : Obj) (w : World) : closeFunc c w = closeOut (closeCur c w).1 (closeCur c w).2 := by
  unfold closeFunc closeCur closeOut
  cases c.curOpen <;> cases c.cur <;> rfl

theorem closeCur_any (c : Obj) (w : World) (h : Inv c w) :
    Inv (closeCur c w).1 (closeCur c w).2 ∧ (closeCur c w).1.curOpen = false ∧ Same c (closeCur c w).1 ∧
    (closeCur c w).1.outerOpen = c.outerOpen ∧ (closeCur c w).1.rest = c.rest := by
  unfold closeCur
  cases hco : c.curOpen with
  | false =>
      refine ⟨?_, rfl, ⟨rfl, rfl, rfl, rfl⟩, rfl, rfl⟩
      obtain ⟨h1, h2, h3, h4, h6, h7, h8⟩ := h
      exact ⟨h1, by intro r; rw [h2 r]; simp [hco], h3, h4, h6, h7, h8⟩
  | true =>
      cases hcur : c.cur with
      | none =>
          refine ⟨?_, rfl, ⟨rfl, rfl, rfl, rfl⟩, rfl, rfl⟩
          obtain ⟨h1, h2, h3, h4, h6, h7, h8⟩ := h
          refine ⟨h1, by intro r; rw [h2 r]; simp [hcur, holdsO], ?_, h4, h6, h7, h8⟩
          intro s hs; simp [hcur] at hs
      | some s =>
          have ht := h.tracks hcur hco
          obtain ⟨hb, hop⟩ := closeI_any s w ht
          refine ⟨?_, rfl, ⟨rfl, rfl, rfl, rfl⟩, rfl, rfl⟩
          obtain ⟨h1, h2, h3, h4, h6, h7, h8⟩ := h
          refine ⟨by rw [hb]; exact h1, ?_, ?_, h4, h6, h7, closeI_TI s w h8⟩
          · intro r; simp only []; rw [hop r, h2 r]
            by_cases hr : sres s = some r
            · have : r ≠ c.r0 := by intro e; subst e; exact h3 s hcur hr
              simp [hr, this]
            · simp [hr, hcur, hco, holdsO, holdsS_other hr]
          · intro s' hs'; simp at hs'; subst hs'
            have : sres (closeI s w).1 = sres s := by
              cases s with
              | iter r ys st => cases st <;> rfl
              | _ => rfl
            rw [this]; exact h3 s hcur

theorem closeOut_any (c : Obj) (w : World) (h : Inv c w) (hco : c.curOpen = false) :
    Rested (closeOut c w).1 (closeOut c w).2 ∧ Same c (closeOut c w).1 := by
  obtain ⟨h1, h2, h3, h4, h6, h7, h8⟩ := h
  unfold closeOut
  cases hout : c.outerOpen with
  | false =>
      simp only [Bool.false_eq_true, if_false]
      exact ⟨⟨⟨h1, h2, h3, h4, h6, h7, h8⟩, hout, hco, h7 hout⟩, ⟨rfl, rfl, rfl, rfl⟩⟩
  | true =>
      simp only [if_true]
      refine ⟨⟨⟨?_, ?_, h3, List.suffix_refl _, h6, fun _ => rfl, h8.closeResP c.r0⟩, rfl, hco, rfl⟩, ⟨rfl, rfl, rfl, rfl⟩⟩
      · simp [h1, h2 c.r0, hout]
      · intro r; simp [upd_apply, h2 r, hout, hco]

theorem closeFunc_any (c : Obj) (w : World) (h : Inv c w) :
    Rested (closeFunc c w).1 (closeFunc c w).2 ∧ Same c (closeFunc c w).1 := by
  rw [closeFunc_eq]
  obtain ⟨a1, a2, a3, a4, a5⟩ := closeCur_any c w h
  obtain ⟨b1, b2⟩ := closeOut_any _ _ a1 a2
  refine ⟨b1, ?_⟩
  unfold Same at *; grind

theorem Inv.same_world {c : Obj} {w w' : World} (h : Inv c w) (hs : SameRes w w') : Inv c w' := by
  obtain ⟨h1, h2, h3, h4, h6, h7, h8⟩ := h
  exact ⟨by rw [hs.1]; exact h1, by intro r; rw [hs.2.1]; exact h2 r, h3, h4, h6, h7, h8.same hs⟩

theorem Same.trans' {a b c : Obj} (h1 : Same a b) (h2 : Same b c) : Same a c := by
  unfold Same at *; grind

theorem Same.refl' (a : Obj) : Same a a := ⟨rfl, rfl, rfl, rfl⟩

/-- the lifecycle Open of the FlatMap stream, from rest: it either succeeds (`Run`), or everything is closed again -/
theorem openC_any (c : Obj) (w : World) (h : Rested c w) :
    ((openC c w).1 = .val () ∧ Inv (openC c w).2.1 (openC c w).2.2 ∧ Run (openC c w).2.1 ∧ Same c (openC c w).2.1) ∨
    ((openC c w).1 ≠ .val () ∧ Rested (openC c w).2.1 (openC c w).2.2 ∧ Same c (openC c w).2.1) := by
  obtain ⟨hinv, hoo, hco, hrest⟩ := h
  have hclosed : w.isOpen c.r0 = false := Rested.allClosed ⟨hinv, hoo, hco, hrest⟩ c.r0
  have hc := openRes_cases c.r0 w
  have hti := hinv.trc.openResP c.r0 (fun e => absurd rfl e)
  have hrt := fun q => runT_openRes q c.r0 w
  simp only [openC, cpOpen, openOuter]
  generalize openRes c.r0 w = x at *
  obtain ⟨res, w1⟩ := x
  simp only at hc hti hrt
  rcases hc with ⟨rfl, h1, h2⟩ | ⟨hres, h1, h2⟩
  · -- the outer stream is open
    simp only []
    have hinv1 : Inv { c with cur := none, rest := c.xs, outerOpen := true } w1 := by
      obtain ⟨i1, i2, i3, i4, i6, i7, i8⟩ := hinv
      refine ⟨by rw [h2]; simp [i1, hclosed], ?_, fun s hs => by simp at hs, List.suffix_refl _, i6, by simp, hti⟩
      intro r; rw [h1]; simp [upd_apply, hco]
      by_cases e : r = c.r0
      · simp [e]
      · simp [e]; rw [i2 r]; simp [hoo, hco, e]
    have hopen1 : w1.isOpen c.r0 = true := by rw [h1]; simp [upd_apply]
    have hp := pullOuter_any { c with cur := none, rest := c.xs, outerOpen := true } w1 hopen1
    generalize pullOuter { c with cur := none, rest := c.xs, outerOpen := true } w1 = y at *
    obtain ⟨res2, c2, w2⟩ := y
    simp only at hp
    obtain ⟨hs2, ⟨rest', rfl, hsuf⟩, hval, heof⟩ := hp
    have hinv2 := hinv1.move hs2 hsuf rfl
    cases res2 with
    | val i =>
        simp only []
        obtain ⟨hv, -⟩ := hval i rfl
        have hn := openNext_any _ i w2 hinv2 hco hv
        generalize openNext { c with cur := none, rest := rest', outerOpen := true } i w2 = z at *
        obtain ⟨res3, c3, w3⟩ := z
        simp only at hn
        rcases hn with ⟨rfl, ⟨s, rfl⟩, hinv3⟩ | ⟨hnv, hc3, hs3⟩
        · left
          refine ⟨rfl, hinv3, ⟨rfl, ?_⟩, ⟨rfl, rfl, rfl, rfl⟩⟩
          intro s' _; rfl
        · right
          have hinv3 : Inv c3 w3 := by
            rcases hc3 with rfl | rfl
            · exact hinv2.same_world hs3
            · exact hinv2.dropCur hs3 hco
          have hsame3 : Same c c3 := by rcases hc3 with rfl | rfl <;> exact ⟨rfl, rfl, rfl, rfl⟩
          have hcf := closeFunc_any c3 w3 hinv3
          cases res3 with
          | val u => exact absurd rfl hnv
          | eof => exact ⟨by simp, hcf.1, hsame3.trans' hcf.2⟩
          | fail e => exact ⟨by simp, hcf.1, hsame3.trans' hcf.2⟩
          | panic b => exact ⟨by simp, hcf.1, hsame3.trans' hcf.2⟩
          | oof => exact ⟨by simp, hcf.1, hsame3.trans' hcf.2⟩
    | eof =>
        left
        simp only []
        refine ⟨trivial, hinv2, ⟨rfl, ?_⟩, ⟨rfl, rfl, rfl, rfl⟩⟩
        intro s hs; simp at hs
    | fail e =>
        right
        have hcf := closeFunc_any _ w2 hinv2
        exact ⟨by simp [castRes], hcf.1, Same.trans' ⟨rfl, rfl, rfl, rfl⟩ hcf.2⟩
    | panic b =>
        right
        have hcf := closeFunc_any _ w2 hinv2
        exact ⟨by simp [castRes], hcf.1, Same.trans' ⟨rfl, rfl, rfl, rfl⟩ hcf.2⟩
    | oof =>
        right
        have hcf := closeFunc_any _ w2 hinv2
        exact ⟨by simp [castRes], hcf.1, Same.trans' ⟨rfl, rfl, rfl, rfl⟩ hcf.2⟩
  · -- the outer stream's Open failed: nothing was opened
    right
    have hinv1 : Inv { c with cur := none } w1 := hinv.dropCur ⟨h2, h1, fun q => by
      rcases hres with rfl | ⟨b, rfl⟩ <;> simpa using hrt q⟩ hco
    have hcf := closeFunc_any { c with cur := none } w1 hinv1
    rcases hres with rfl | ⟨b, rfl⟩
    · exact ⟨by simp, hcf.1, Same.trans' ⟨rfl, rfl, rfl, rfl⟩ hcf.2⟩
    · exact ⟨by simp, hcf.1, Same.trans' ⟨rfl, rfl, rfl, rfl⟩ hcf.2⟩

/-- `concatProvider.emit` keeps the invariant, whatever happens (any fault at any call position, cancelled or not) -/
theorem emitC_any : ∀ (fuel : Nat) (c : Obj) (w : World), Inv c w → Run c →
    Inv (emitC fuel c w).2.1 (emitC fuel c w).2.2 ∧ Run (emitC fuel c w).2.1 ∧ Same c (emitC fuel c w).2.1 := by
  intro fuel
  induction fuel with
  | zero => intro c w h hr; exact ⟨h, hr, Same.refl' c⟩
  | succ n ih =>
    intro c w h hr
    simp only [emitC]
    split
    · exact ⟨h, hr, Same.refl' c⟩
    · cases hcur : c.cur with
      | none => exact ⟨h, hr, Same.refl' c⟩
      | some s =>
        have hco := hr.2 s hcur
        have ht := h.tracks hcur hco
        have he := emitI_any s w ht
        have hti := emitI_TI (r0 := c.r0) s w h.trc (by
          intro r' hr'; rw [h.opn r']; simp [hcur, hco, holdsO, hr'])
        simp only []
        generalize emitI s w = x at *
        obtain ⟨res, s1, w1⟩ := x
        simp only at he hti
        obtain ⟨e1, e2, e3, e4⟩ := he
        -- after the pull the object with the new stream state still agrees with the world
        have hinv1 : Inv { c with cur := some s1 } w1 := by
          obtain ⟨i1, i2, i3, i4, i6, i7, i8⟩ := h
          refine ⟨by rw [e1]; exact i1, ?_, ?_, i4, i6, i7, hti⟩
          · intro r
            by_cases hres : sres s = some r
            · have : r ≠ c.r0 := by intro e; subst e; exact i3 s hcur hres
              rw [e2 r (by rw [e3]; exact hres)]; simp [hco, holdsO, this]
            · rw [e4 r hres, i2 r]
              have h1 : sres s1 ≠ some r := by rw [e3]; exact hres
              simp [hcur, holdsO, holdsS_other hres, holdsS_other h1]
          · intro s' hs'; simp at hs'; subst hs'; rw [e3]; exact i3 s hcur
        have hrun1 : Run { c with cur := some s1 } := ⟨hr.1, fun _ _ => hco⟩
        cases res with
        | val v => exact ⟨hinv1, hrun1, ⟨rfl, rfl, rfl, rfl⟩⟩
        | fail e => exact ⟨hinv1, hrun1, ⟨rfl, rfl, rfl, rfl⟩⟩
        | panic b => exact ⟨hinv1, hrun1, ⟨rfl, rfl, rfl, rfl⟩⟩
        | oof => exact ⟨hinv1, hrun1, ⟨rfl, rfl, rfl, rfl⟩⟩
        | eof =>
          simp only [hco, if_true]
          have hcl := closeI_any s1 w1 e2
          have hti2 := closeI_TI (r0 := c.r0) s1 w1 hti
          generalize closeI s1 w1 = y at *
          obtain ⟨s2, w2⟩ := y
          simp only at hcl hti2 ⊢
          obtain ⟨c1, c2⟩ := hcl
          have hinv2 : Inv { c with cur := none, curOpen := false } w2 := by
            obtain ⟨i1, i2, i3, i4, i6, i7, i8⟩ := hinv1
            refine ⟨by rw [c1]; exact i1, ?_, ?_, i4, i6, i7, hti2⟩
            · intro r; rw [c2 r]
              by_cases hres : sres s1 = some r
              · have : r ≠ c.r0 := by intro e; subst e; exact i3 s1 rfl hres
                simp [hres, this]
              · simp only [hres, if_false]; rw [i2 r]; simp [holdsO, holdsS_other hres]
            · intro s' hs'; simp at hs'
          have hrun2 : Run { c with cur := none, curOpen := false } := ⟨hr.1, fun s' hs' => by simp at hs'⟩
          split
          · exact ⟨hinv2, hrun2, ⟨rfl, rfl, rfl, rfl⟩⟩
          · have hopen2 : w2.isOpen c.r0 = true := by rw [hinv2.opn c.r0]; simp [hr.1]
            have hp := pullOuter_any { c with cur := none, curOpen := false } w2 hopen2
            generalize pullOuter { c with cur := none, curOpen := false } w2 = z at *
            obtain ⟨res3, c3, w3⟩ := z
            simp only at hp
            obtain ⟨hs3, ⟨rest', rfl, hsuf⟩, hval, heof⟩ := hp
            have hinv3 := hinv2.move hs3 hsuf hr.1
            have hrun3 : Run { c with cur := none, curOpen := false, rest := rest' } := ⟨hr.1, fun s' hs' => by simp at hs'⟩
            cases res3 with
            | val i =>
                simp only []
                obtain ⟨hv, -⟩ := hval i rfl
                have hn := openNext_any _ i w3 hinv3 rfl hv
                generalize openNext { c with cur := none, curOpen := false, rest := rest' } i w3 = u at *
                obtain ⟨res4, c4, w4⟩ := u
                simp only at hn
                rcases hn with ⟨rfl, ⟨s5, rfl⟩, hinv4⟩ | ⟨hnv, hc4, hs4⟩
                · simp only []
                  have hrun4 : Run { c with cur := some s5, curOpen := true, rest := rest' } := ⟨hr.1, fun _ _ => rfl⟩
                  obtain ⟨j1, j2, j3⟩ := ih _ w4 hinv4 hrun4
                  exact ⟨j1, j2, Same.trans' ⟨rfl, rfl, rfl, rfl⟩ j3⟩
                · have hinv4 : Inv c4 w4 := by
                    rcases hc4 with rfl | rfl
                    · exact hinv3.same_world hs4
                    · exact hinv3.dropCur hs4 rfl
                  have hrun4 : Run c4 := by rcases hc4 with rfl | rfl <;> exact ⟨hr.1, fun s' hs' => by simp at hs'⟩
                  have hsame4 : Same c c4 := by rcases hc4 with rfl | rfl <;> exact ⟨rfl, rfl, rfl, rfl⟩
                  cases res4 with
                  | val u => exact absurd rfl hnv
                  | eof => exact ⟨hinv4, hrun4, hsame4⟩
                  | fail e => exact ⟨hinv4, hrun4, hsame4⟩
                  | panic b => exact ⟨hinv4, hrun4, hsame4⟩
                  | oof => exact ⟨hinv4, hrun4, hsame4⟩
            | eof => exact ⟨hinv3, hrun3, ⟨rfl, rfl, rfl, rfl⟩⟩
            | fail e => exact ⟨hinv3, hrun3, ⟨rfl, rfl, rfl, rfl⟩⟩
            | panic b => exact ⟨hinv3, hrun3, ⟨rfl, rfl, rfl, rfl⟩⟩
            | oof => exact ⟨hinv3, hrun3, ⟨rfl, rfl, rfl, rfl⟩⟩

theorem emitT_any (fuel : Nat) (lim : Option Int) (consumed : Int) (c : Obj) (w : World) (h : Inv c w) (hr : Run c) :
    Inv (emitT fuel lim consumed c w).2.1 (emitT fuel lim consumed c w).2.2 ∧ Run (emitT fuel lim consumed c w).2.1 ∧
    Same c (emitT fuel lim consumed c w).2.1 := by
  unfold emitT
  cases lim with
  | none => exact emitC_any fuel c w h hr
  | some n =>
    simp only []
    split
    · exact ⟨h, hr, Same.refl' c⟩
    · exact emitC_any fuel c w h hr

theorem pullLoop_any : ∀ (fuel : Nat) (k : Consumer) (lim : Option Int) (consumed : Int) (c : Obj) (acc : List V) (w : World),
    Inv c w → Run c →
    Inv (Model.PipeDyn.pullLoop fuel k lim consumed c acc w).2.2.1 (Model.PipeDyn.pullLoop fuel k lim consumed c acc w).2.2.2 ∧
    Run (Model.PipeDyn.pullLoop fuel k lim consumed c acc w).2.2.1 ∧
    Same c (Model.PipeDyn.pullLoop fuel k lim consumed c acc w).2.2.1 := by
  intro fuel
  induction fuel with
  | zero => intro k lim consumed c acc w h hr; exact ⟨h, hr, Same.refl' c⟩
  | succ n ih =>
    intro k lim consumed c acc w h hr
    simp only [Model.PipeDyn.pullLoop]
    split
    · exact ⟨h, hr, Same.refl' c⟩
    · have he := emitT_any n lim consumed c w h hr
      generalize emitT n lim consumed c w = x at *
      obtain ⟨res, c1, w1⟩ := x
      simp only at he
      obtain ⟨e1, e2, e3⟩ := he
      cases res with
      | val v =>
          cases k with
          | collect =>
              simp only []
              obtain ⟨j1, j2, j3⟩ := ih .collect lim (consumed + 1) c1 (v :: acc) w1 e1 e2
              exact ⟨j1, j2, e3.trans' j3⟩
          | user =>
              have hb := userCall_bad w1; have ho := userCall_isOpen w1; have ht := fun q => runT_userCall q w1
              simp only []
              generalize userCall w1 = y at *
              obtain ⟨hit, w2⟩ := y
              simp only at hb ho ht
              have e1' : Inv c1 w2 := e1.same_world ⟨hb, ho, ht⟩
              cases hit with
              | none =>
                  simp only []
                  obtain ⟨j1, j2, j3⟩ := ih .user lim (consumed + 1) c1 (v :: acc) w2 e1' e2
                  exact ⟨j1, j2, e3.trans' j3⟩
              | err => exact ⟨e1', e2, e3⟩
              | panic b => exact ⟨e1', e2, e3⟩
      | eof => exact ⟨e1, e2, e3⟩
      | fail e => exact ⟨e1, e2, e3⟩
      | panic b => exact ⟨e1, e2, e3⟩
      | oof => exact ⟨e1, e2, e3⟩

/-- **the terminal brings everything back to rest**: in every world (any fault kind at any call position, cancelled or
    not) a materialisation that starts from rest ends at rest — `bad` off, every resource closed, the operator object
    rewound — unless the model ran out of fuel -/
theorem consume_any (fuel : Nat) (k : Consumer) (lim : Option Int) (c : Obj) (w : World) (h : Rested c w) :
    (Model.PipeDyn.consume fuel k lim c w).1 = .oof ∨
    (Rested (Model.PipeDyn.consume fuel k lim c w).2.1 (Model.PipeDyn.consume fuel k lim c w).2.2 ∧
      Same c (Model.PipeDyn.consume fuel k lim c w).2.1) := by
  simp only [Model.PipeDyn.consume]
  split
  · exact Or.inr ⟨h, Same.refl' c⟩
  · have ho := openC_any c w h
    generalize openC c w = x at *
    obtain ⟨res, c1, w1⟩ := x
    simp only at ho
    rcases ho with ⟨rfl, hinv, hrun, hsame⟩ | ⟨hnv, hrest, hsame⟩
    · simp only []
      have hp := pullLoop_any fuel k lim 1 c1 [] w1 hinv hrun
      generalize Model.PipeDyn.pullLoop fuel k lim 1 c1 [] w1 = y at *
      obtain ⟨res2, acc, c2, w2⟩ := y
      simp only at hp
      obtain ⟨p1, p2, p3⟩ := hp
      have hcf := closeFunc_any c2 w2 p1
      cases res2 with
      | oof => left; rfl
      | val u => right; exact ⟨hcf.1, (hsame.trans' p3).trans' hcf.2⟩
      | eof => right; exact ⟨hcf.1, (hsame.trans' p3).trans' hcf.2⟩
      | fail e => right; exact ⟨hcf.1, (hsame.trans' p3).trans' hcf.2⟩
      | panic b => right; exact ⟨hcf.1, (hsame.trans' p3).trans' hcf.2⟩
    · cases res with
      | val u => exact absurd rfl hnv
      | eof => left; rfl
      | oof => left; rfl
      | fail e => right; exact ⟨hrest, hsame⟩
      | panic b => right; exact ⟨hrest, hsame⟩

end ShpanVerif.Proofs.PipeDyn
