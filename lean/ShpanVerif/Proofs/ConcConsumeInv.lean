/-
Inductive invariants, decreasing measure and deadlock freedom of the concurrent-consume transition system
(`Model/ConcConsume.lean`), over ALL labels unless a hypothesis says otherwise.
-/
import ShpanVerif.Model.ConcConsume

namespace ShpanVerif.Proofs.ConcConsume
open ShpanVerif.Model.Conc ShpanVerif.Model.ConcConsume

macro "step_cases" hs:ident : tactic =>
  `(tactic| (cases ‹Label› <;> simp only [step] at $hs:ident <;> (repeat' split at $hs:ident) <;>
      (try (simp at $hs:ident)) <;> (try (subst $hs:ident))))

structure Basic (cfg : Cfg) (s : St) : Prop where
  workers : s.wIdle + s.wCb.length + s.wDrain + s.wExit = cfg.c
  cap : s.ch.length ≤ cfg.c
  cursor_le : s.cursor ≤ cfg.n
  emitting_eq : s.emitting = if s.prod = .inEmit then 1 else 0
  chCl : s.chClosed = true ↔ s.prod = .done
  exit_why : 0 < s.wExit → s.wctx = true ∨ s.chClosed = true
  drain_why : 0 < s.wDrain → s.wctx = true
  term_wg : s.term ≠ .waitWg → s.wExit = cfg.c
  term_prod : s.term ≠ .waitWg → s.term ≠ .waitProd → s.prod = .done
  res_iff : s.res = none ↔ (s.term = .waitWg ∨ s.term = .waitProd ∨ s.term = .result)
  closed_iff : s.srcClosed = true ↔ (s.term = .close1 ∨ s.term = .ret)
  wcancel_iff : s.wcancel = true ↔ (s.firstErr = true ∨ s.term = .close0 ∨ s.term = .close1 ∨ s.term = .ret)
  noBadW : s.badWindow = false
  noBadO : s.badOverlap = false
  closes_eq : s.closes = if s.srcClosed then 1 else 0

theorem basic_init (cfg : Cfg) : Basic cfg (init cfg) := by
  constructor <;> simp [init, St.wctx]

set_option maxHeartbeats 4000000 in
theorem basic_step {cfg : Cfg} {s s' : St} {l : Label} (h : Basic cfg s) (hs : step cfg s l = some s') :
    Basic cfg s' := by
  obtain ⟨h1, h2, h3, h4, h5, h6, h7, h8, h9, h10, h11, h12, h13, h14, h15⟩ := h
  step_cases hs <;>
    (constructor <;> (try (simp_all [List.length_erase_of_mem, St.wctx])) <;> (try grind [List.length_pos_of_mem]))

theorem basic {cfg : Cfg} {s : St} (hr : Reachable (sys cfg) s) : Basic cfg s :=
  invariant (sys := sys cfg) (basic_init cfg) (fun _ _ _ h hs => basic_step h hs) s hr

@[simp] theorem cntItems_nil (i : Nat) : cntItems i [] = 0 := rfl
theorem cntItems_cons (i : Nat) (it : Item) (l : List Item) :
    cntItems i (it :: l) = cntItems i l + (if Item.isVal i it then 1 else 0) := by
  simp [cntItems, List.countP_cons]
@[simp] theorem cntItems_append (i : Nat) (l l' : List Item) : cntItems i (l ++ l') = cntItems i l + cntItems i l' := by
  simp [cntItems]

theorem count_erase_add (i j : Nat) (l : List Nat) (h : j ∈ l) :
    (l.erase j).count i + (if i = j then 1 else 0) = l.count i := by
  rw [List.count_erase]
  have := List.count_pos_iff.mpr h
  by_cases hij : i = j
  · subst hij; simp; omega
  · have : (j == i) = false := by simpa using (fun h => hij h.symm)
    simp [hij, this]

/-- The callback is never invoked twice for an element, never for an invented one; calls in flight are calls made. -/
structure AtMostOnce (s : St) : Prop where
  le : ∀ i, cnt i s ≤ if i < s.cursor then 1 else 0
  sub : ∀ i, s.wCb.count i ≤ s.called.count i

set_option maxHeartbeats 2000000 in
theorem atMostOnce_step {cfg : Cfg} {s s' : St} {l : Label} (h : AtMostOnce s) (hs : step cfg s l = some s') :
    AtMostOnce s' := by
  obtain ⟨a1, a2⟩ := h
  step_cases hs <;> (constructor <;> intro i <;> have hi := a1 i <;> have hj := a2 i <;>
    simp_all [cnt, inHand, cntItems_cons] <;> grind [count_erase_add, Item.isVal])

theorem atMostOnce {cfg : Cfg} {s : St} (hr : Reachable (sys cfg) s) : AtMostOnce s :=
  invariant (sys := sys cfg) (P := AtMostOnce) (by constructor <;> intro i <;> simp [sys, init, cnt, inHand])
    (fun _ _ _ h hs => atMostOnce_step h hs) s hr

/-- Failure-free history: no cancellation, no injected source or callback failure. -/
def FF (s : St) : Prop := s.ctx0 = false ∧ s.faulted = false

structure Exact (cfg : Cfg) (s : St) : Prop where
  cons : ∀ i, cnt i s = if i < s.cursor then 1 else 0
  noErrCh : Item.err ∉ s.ch
  noErrHand : s.prod ≠ .have .err
  noFirstErr : s.firstErr = false
  noDrain : s.wDrain = 0
  exit_closed : 0 < s.wExit → s.chClosed = true ∧ s.ch = []
  prod_eof : (s.prod = .closing ∨ s.prod = .done) → s.cursor = cfg.n
  res_ok : s.res ≠ none → s.res = some .ok

set_option maxHeartbeats 4000000 in
theorem exact_step {cfg : Cfg} {s s' : St} {l : Label} (hb : Basic cfg s) (h : FF s → Exact cfg s)
    (hs : step cfg s l = some s') : FF s' → Exact cfg s' := by
  intro hff
  obtain ⟨b1, b2, b3, b4, b5, b6, b7, b8, b9, b10, b11, b12, b13, b14⟩ := hb
  step_cases hs <;> simp only [FF] at hff <;> (try (simp at hff; done)) <;>
    (obtain ⟨e1, e2, e3, e4, e5, e6, e7, e8⟩ := h (by simpa [FF] using hff)) <;>
    (constructor <;> (try intro i) <;> (try have hi := e1 i) <;> simp_all [cnt, inHand, cntItems_cons, St.wctx] <;>
      grind [count_erase_add, Item.isVal])

theorem exact {cfg : Cfg} {s : St} (hr : Reachable (sys cfg) s) : FF s → Exact cfg s := by
  have : Basic cfg s ∧ (FF s → Exact cfg s) := by
    refine invariant (sys := sys cfg) (P := fun s => Basic cfg s ∧ (FF s → Exact cfg s)) ?_ ?_ s hr
    · refine ⟨basic_init cfg, fun _ => ?_⟩
      constructor <;> simp [sys, init, cnt, inHand]
    · intro s l s' h hs
      exact ⟨basic_step h.1 hs, exact_step h.1 h.2 hs⟩
  exact this.2

end ShpanVerif.Proofs.ConcConsume
