/-
C01, part 3c: induction step for the provider function `emitP` and its loops:
an opened pipeline stays opened (object state and open set in agreement, `bad` off) after every pull,
whatever the pull returns — value, EOF, error or panic.  The only open/close traffic during a pull is
concat switching to its next inner stream (close current, open next, roll-back if that open fails).
-/
import ShpanVerif.Proofs.PipeC01Open

namespace ShpanVerif.Proofs.PipeC01
open ShpanVerif.Model.Pipe

/-! ### tools -/

/-- no world change that matters, object state changed only in fields `Op` does not look at -/
theorem EmitOK.same {α : Type} {p p' : Pipe} {w w' : World} (res : Res α) (hid : ids p' = ids p)
    (ho : w'.isOpen = w.isOpen) (hb : w'.bad = false) (hop : Op p' w.isOpen) : EmitOK p w (res, p', w') :=
  fun _ => ⟨hid, Keep.same hb ho, by rw [ho]; exact hop⟩

theorem EmitOK.world {α : Type} {p p1 : Pipe} {w w1 w2 : World} {res : Res α} (h : EmitOK p w (res, p1, w1))
    (ho : w2.isOpen = w1.isOpen) (hb : w2.bad = w1.bad) : EmitOK p w (res, p1, w2) := by
  intro hx
  obtain ⟨a, b, c⟩ := h hx
  exact ⟨a, b.world ho hb, by rw [ho]; exact c⟩

/-- an operator passes on what its child did -/
theorem EmitOK.wrap {α β : Type} {p p1 P P1 : Pipe} {w w1 : World} {res : Res α} (res' : Res β)
    (h1 : EmitOK p w (res, p1, w1)) (hoof : res'.isOof = false → res.isOof = false)
    (hsub : ∀ x ∈ ids p, x ∈ ids P) (hids : ids p1 = ids p → ids P1 = ids P)
    (hop : Keep (ids p) w w1 → Op p1 w1.isOpen → Op P1 w1.isOpen) : EmitOK P w (res', P1, w1) := by
  intro hx
  obtain ⟨a, b, c⟩ := h1 (hoof hx)
  exact ⟨hids a, b.mono hsub, hop b c⟩

theorem EmitLOK.wrap {α β : Type} {ps ps1 : PipeList} {P P1 : Pipe} {w w1 : World} {res : Res α} (res' : Res β)
    (h1 : EmitLOK ps w (res, ps1, w1)) (hoof : res'.isOof = false → res.isOof = false)
    (hP : ids P = idsList ps) (hP1 : ids P1 = idsList ps1)
    (hop : ps1.length = ps.length → St ps1 (fun _ => true) w1.isOpen → Op P1 w1.isOpen) :
    EmitOK P w (res', P1, w1) := by
  intro hx
  obtain ⟨a, l, b, c⟩ := h1 (hoof hx)
  exact ⟨by rw [hP1, hP]; exact a, by rw [hP]; exact b, hop l c⟩

theorem oofOK {α : Type} {p p' : Pipe} {w w' : World} : EmitOK (α := α) p w (.oof, p', w') := by
  intro h; simp [Res.isOof] at h

theorem oofLOK {α : Type} {ps ps' : PipeList} {w w' : World} : EmitLOK (α := α) ps w (.oof, ps', w') := by
  intro h; simp [Res.isOof] at h

/-! ### `emitP`, constructor by constructor -/

theorem emit_src (fuel r xs idx) (w : World) (hop : Op (.src r xs idx) w.isOpen) (hb : w.bad = false) :
    EmitOK (.src r xs idx) w (emitP (fuel+1) (.src r xs idx) w) := by
  simp only [Op] at hop
  rw [emitP]
  obtain ⟨h, w1, he, ho, hb1⟩ := emitRes_eq r w
  have hb1' : w1.bad = false := by rw [hb1, hb, hop]; rfl
  rw [he]
  cases h with
  | none =>
    dsimp only
    split
    · exact EmitOK.same _ rfl ho hb1' (by simp only [Op]; exact hop)
    · exact EmitOK.same _ rfl ho hb1' (by simp only [Op]; exact hop)
  | err => exact EmitOK.same _ rfl ho hb1' (by simp only [Op]; exact hop)
  | panic b => exact EmitOK.same _ rfl ho hb1' (by simp only [Op]; exact hop)

theorem emit_lc {fuel : Nat} (ih : AllSpec fuel) (r p) (w : World) (hop : Op (.lc r p) w.isOpen)
    (hn : (ids (.lc r p)).Nodup) (hb : w.bad = false) :
    EmitOK (.lc r p) w (emitP (fuel+1) (.lc r p) w) := by
  simp only [Op] at hop
  simp only [ids] at hn
  obtain ⟨hnp, _, hdis⟩ := List.nodup_append.mp hn
  have hr : r ∉ ids p := fun h => hdis r h r (by simp) rfl
  have h1 := ih.emitP p w hop.1 hnp hb
  rw [emitP]
  generalize Model.Pipe.emitP fuel p w = x at h1
  obtain ⟨res, p1, w1⟩ := x
  exact h1.wrap res id (fun x hx => by simp [ids, hx]) (fun h => by simp only [ids, h])
    (fun hk hp => by simp only [Op]; exact ⟨hp, by rw [hk.frame r hr]; exact hop.2⟩)

theorem emit_map {fuel : Nat} (ih : AllSpec fuel) (f p) (w : World) (hop : Op (.map f p) w.isOpen)
    (hn : (ids (.map f p)).Nodup) (hb : w.bad = false) :
    EmitOK (.map f p) w (emitP (fuel+1) (.map f p) w) := by
  simp only [Op] at hop
  simp only [ids] at hn
  have h1 := ih.emitP p w hop hn hb
  rw [emitP]
  generalize Model.Pipe.emitP fuel p w = x at h1
  obtain ⟨res, p1, w1⟩ := x
  have pass : ∀ {β γ : Type} {w2 : World} {res0 : Res γ} (res' : Res β), EmitOK p w (res0, p1, w2) →
      (res'.isOof = false → res0.isOof = false) → EmitOK (.map f p) w (res', .map f p1, w2) :=
    fun res' h ho => h.wrap res' ho (fun _ hx => hx) (fun h => by simp only [ids, h])
      (fun _ hp => by simp only [Op]; exact hp)
  cases res with
  | val v =>
    dsimp only
    obtain ⟨h, w2, he, ho, hb2⟩ := userCall_eq w1
    rw [he]
    have h2 := h1.world ho hb2
    cases h <;> exact pass _ h2 (fun _ => rfl)
  | eof => exact pass _ h1 id
  | fail e => exact pass _ h1 (fun _ => rfl)
  | panic b => exact pass _ h1 (fun _ => rfl)
  | oof => exact oofOK

theorem emit_filter {fuel : Nat} (ih : AllSpec fuel) (g p) (w : World) (hop : Op (.filter g p) w.isOpen)
    (hn : (ids (.filter g p)).Nodup) (hb : w.bad = false) :
    EmitOK (.filter g p) w (emitP (fuel+1) (.filter g p) w) := by
  simp only [Op] at hop
  simp only [ids] at hn
  have h1 := ih.emitP p w hop hn hb
  rw [emitP]
  generalize Model.Pipe.emitP fuel p w = x at h1
  obtain ⟨res, p1, w1⟩ := x
  have pass : ∀ {β γ : Type} {w2 : World} {res0 : Res γ} (res' : Res β), EmitOK p w (res0, p1, w2) →
      (res'.isOof = false → res0.isOof = false) → EmitOK (.filter g p) w (res', .filter g p1, w2) :=
    fun res' h ho => h.wrap res' ho (fun _ hx => hx) (fun h => by simp only [ids, h])
      (fun _ hp => by simp only [Op]; exact hp)
  cases res with
  | val v =>
    dsimp only
    obtain ⟨h, w2, he, ho, hb2⟩ := userCall_eq w1
    rw [he]
    have h2 := h1.world ho hb2
    cases h with
    | none =>
      dsimp only
      split
      · exact pass _ h2 (fun _ => rfl)
      · -- predicate said no: pull again
        obtain ⟨hid, hk, hop2⟩ := h2 rfl
        exact EmitOK.after (p1 := .filter g p1) (by simp only [ids, hid]) hk
          (ih.emitP (.filter g p1) w2 (by simp only [Op]; exact hop2) (by simp only [ids, hid]; exact hn) hk.bad)
    | err => exact pass _ h2 (fun _ => rfl)
    | panic b => exact pass _ h2 (fun _ => rfl)
  | eof => exact pass _ h1 id
  | fail e => exact pass _ h1 (fun _ => rfl)
  | panic b => exact pass _ h1 (fun _ => rfl)
  | oof => exact oofOK

theorem emit_limit {fuel : Nat} (ih : AllSpec fuel) (n c p) (w : World) (hop : Op (.limit n c p) w.isOpen)
    (hn : (ids (.limit n c p)).Nodup) (hb : w.bad = false) :
    EmitOK (.limit n c p) w (emitP (fuel+1) (.limit n c p) w) := by
  have hop0 := hop
  simp only [Op] at hop
  simp only [ids] at hn
  rw [emitP]
  split
  · exact EmitOK.same _ rfl rfl hb hop0
  rename_i hpos
  rw [if_neg hpos] at hop
  split
  · exact EmitOK.same _ rfl rfl hb hop0
  have h1 := ih.emitP p w hop hn hb
  generalize Model.Pipe.emitP fuel p w = x at h1
  obtain ⟨res, p1, w1⟩ := x
  have pass : ∀ {β : Type} (res' : Res β) (c' : Int),
      (res'.isOof = false → res.isOof = false) → EmitOK (.limit n c p) w (res', .limit n c' p1, w1) :=
    fun res' c' ho => h1.wrap res' ho (fun _ hx => hx) (fun h => by simp only [ids, h])
      (fun _ hp => by simp only [Op, if_neg hpos]; exact hp)
  cases res with
  | val v => exact pass _ _ id
  | eof => exact pass _ _ id
  | fail e => exact pass _ _ id
  | panic b => exact pass _ _ id
  | oof => exact oofOK

theorem emit_skip {fuel : Nat} (ih : AllSpec fuel) (n d p) (w : World) (hop : Op (.skip n d p) w.isOpen)
    (hn : (ids (.skip n d p)).Nodup) (hb : w.bad = false) :
    EmitOK (.skip n d p) w (emitP (fuel+1) (.skip n d p) w) := by
  have hop0 := hop
  simp only [Op] at hop
  simp only [ids] at hn
  have pass : ∀ {β γ : Type} {q q1 : Pipe} {w0 w2 : World} {res0 : Res γ} (res' : Res β),
      EmitOK q w0 (res0, q1, w2) →
      (res'.isOof = false → res0.isOof = false) → EmitOK (.skip n d q) w0 (res', .skip n true q1, w2) :=
    fun res' h ho => h.wrap res' ho (fun _ hx => hx) (fun h => by simp only [ids, h])
      (fun _ hp => by simp only [Op]; exact hp)
  rw [emitP]
  split
  · exact EmitOK.same _ rfl rfl hb hop0
  split
  · have h1 := ih.emitP p w hop hn hb
    generalize Model.Pipe.emitP fuel p w = x at h1
    obtain ⟨res, p1, w1⟩ := x
    exact pass res h1 id
  · have h1 := ih.skipLoop n p w hop hn hb
    generalize Model.Pipe.skipLoop fuel n p w = x at h1
    obtain ⟨res, p1, w1⟩ := x
    cases res with
    | val u =>
      dsimp only
      obtain ⟨hid, hk, hop1⟩ := h1 rfl
      have h2 := ih.emitP p1 w1 hop1 (hid ▸ hn) hk.bad
      generalize Model.Pipe.emitP fuel p1 w1 = y at h2
      obtain ⟨res2, p2, w2⟩ := y
      exact EmitOK.after (p1 := .skip n d p1) (by simp only [ids, hid]) hk (pass res2 h2 id)
    | eof => exact pass _ h1 id
    | fail e => exact pass _ h1 id
    | panic b => exact pass _ h1 id
    | oof => exact oofOK

theorem emit_concat {fuel : Nat} (ih : AllSpec fuel) (ps next curOpen outerOpen) (w : World)
    (hop : Op (.concat ps next curOpen outerOpen) w.isOpen)
    (hn : (ids (.concat ps next curOpen outerOpen)).Nodup) (hb : w.bad = false) :
    EmitOK (.concat ps next curOpen outerOpen) w (emitP (fuel+1) (.concat ps next curOpen outerOpen) w) := by
  have hop0 := hop
  simp only [Op] at hop
  simp only [ids] at hn
  rw [emitP]
  split
  · exact EmitOK.same _ rfl rfl hb hop0   -- ConcatStreams() of nothing = Empty(): EOF, no ctx check
  split
  · exact EmitOK.same _ rfl rfl hb hop0
  split
  · exact EmitOK.same _ rfl rfl hb hop0
  rename_i hcur
  have hcur : curOpen = true := by simpa using hcur
  subst hcur
  have hst : St ps (fun j => j == next - 1) w.isOpen := St_congr_f ps (fun _ _ => by simp) hop
  split
  · exact oofOK
  rename_i cur hget
  have hncur := nodup_of_get ps _ cur hget hn
  have hsub := mem_idsList_of_get ps _ cur hget
  have h1 := ih.emitP cur w (St_get_op hst hget (by simp)) hncur hb
  generalize Model.Pipe.emitP fuel cur w = x at h1
  obtain ⟨res, cur1, w1⟩ := x
  -- the current inner stream produced something other than EOF: it stays the current one
  have stay : ∀ {β : Type} (res' : Res β), (res'.isOof = false → res.isOof = false) →
      EmitOK (.concat ps next true outerOpen) w (res', .concat (ps.set (next-1) cur1) next true outerOpen, w1) := by
    intro β res' ho hx
    obtain ⟨hid, hk, hop1⟩ := h1 (ho hx)
    refine ⟨by simp only [ids]; exact idsList_set ps _ cur cur1 hget hid, hk.mono hsub, ?_⟩
    simp only [Op]
    exact St_set_op hst hget hn hk.frame hid hop1 (by simp) (fun j _ => by simp)
  cases res with
  | val v => exact stay _ id
  | fail e => exact stay _ id
  | panic b => exact stay _ id
  | oof => exact oofOK
  | eof =>
    obtain ⟨hid, hk, hop1⟩ := h1 rfl
    dsimp only at hid hk hop1 ⊢
    -- close the exhausted inner stream
    obtain ⟨hid2, hk2, hcl2⟩ := closeP_spec cur1 w1 hop1 (hid ▸ hncur) hk.bad
    generalize closeP cur1 w1 = y at hid2 hk2 hcl2
    obtain ⟨cur2, w2⟩ := y
    dsimp only at hid2 hk2 hcl2 ⊢
    have hid02 : ids cur2 = ids cur := hid2.trans hid
    have hk02 : Keep (ids cur) w w2 := hk.trans (hid ▸ hk2)
    have hids1 : idsList (ps.set (next-1) cur2) = idsList ps := idsList_set ps _ cur cur2 hget hid02
    have hst1 : St (ps.set (next-1) cur2) (fun _ => false) w2.isOpen :=
      St_set_cl hst hget hn hk02.frame hid02 hcl2 rfl (fun j hj => by simp [hj])
    have hK1 : Keep (idsList ps) w w2 := hk02.mono hsub
    have closedOK : ∀ {β : Type} (res' : Res β),
        EmitOK (.concat ps next true outerOpen) w
          (res', .concat (ps.set (next-1) cur2) next false outerOpen, w2) := by
      intro β res' _
      refine ⟨by simp only [ids]; exact hids1, hK1, ?_⟩
      simp only [Op]
      exact St_congr_f _ (fun _ _ => by simp) hst1
    split
    · exact closedOK _
    split
    · exact closedOK _
    rename_i nx hgetn
    have hn1 : (idsList (ps.set (next-1) cur2)).Nodup := hids1 ▸ hn
    have hnnx := nodup_of_get _ _ nx hgetn hn1
    have hsubn := mem_idsList_of_get _ _ nx hgetn
    have h3 := ih.openP nx w2 (St_get_cl hst1 hgetn rfl) hnnx hK1.bad
    generalize Model.Pipe.openP fuel nx w2 = z at h3
    obtain ⟨res3, nx3, w3⟩ := z
    have failed : ∀ {β : Type} (res' : Res β), res3.isOof = false → res3.isVal = false →
        EmitOK (.concat ps next true outerOpen) w
          (res', .concat ((ps.set (next-1) cur2).set next nx3) (next+1) false outerOpen, w3) := by
      intro β res' ho hv _
      obtain ⟨hid3, hk3, hc3⟩ := h3 ho
      simp only [hv, Bool.false_eq_true, if_false] at hc3
      refine ⟨by simp only [ids]; exact (idsList_set _ _ nx nx3 hgetn hid3).trans hids1,
        hK1.trans (hids1 ▸ hk3.mono hsubn), ?_⟩
      simp only [Op]
      have := St_set_cl (g := fun _ => false) hst1 hgetn hn1 hk3.frame hid3 hc3 rfl (fun _ _ => rfl)
      exact St_congr_f _ (fun _ _ => by simp) this
    cases res3 with
    | val u =>
      obtain ⟨hid3, hk3, hop3⟩ := h3 rfl
      simp only [Res.isVal, if_true] at hop3
      dsimp only at hid3 hk3 hop3 ⊢
      have hids3 : idsList ((ps.set (next-1) cur2).set next nx3) = idsList ps :=
        (idsList_set _ _ nx nx3 hgetn hid3).trans hids1
      have hst3 : St ((ps.set (next-1) cur2).set next nx3) (fun j => j == next) w3.isOpen :=
        St_set_op hst1 hgetn hn1 hk3.frame hid3 hop3 (by simp) (fun j hj => by simp [hj])
      have hK3 : Keep (idsList ps) w w3 := hK1.trans (hids1 ▸ hk3.mono hsubn)
      exact EmitOK.after (p1 := .concat ((ps.set (next-1) cur2).set next nx3) (next+1) true outerOpen)
        (by simp only [ids]; exact hids3) hK3
        (ih.emitP _ w3 (by simp only [Op]; exact St_congr_f _ (fun _ _ => by simp) hst3)
          (by simp only [ids]; exact hids3 ▸ hn) hK3.bad)
    | oof => exact oofOK
    | eof => exact oofOK
    | fail e => exact failed _ rfl rfl
    | panic b => exact failed _ rfl rfl

theorem emit_zip {fuel : Nat} (ih : AllSpec fuel) (ps opened) (w : World) (hop : Op (.zip ps opened) w.isOpen)
    (hn : (ids (.zip ps opened)).Nodup) (hb : w.bad = false) :
    EmitOK (.zip ps opened) w (emitP (fuel+1) (.zip ps opened) w) := by
  have hop0 := hop
  simp only [Op] at hop
  simp only [ids] at hn
  rw [emitP]
  split
  · exact EmitOK.same _ rfl rfl hb hop0
  have h1 := ih.zipRow ps 0 [] w hop.2 hn hb
  generalize Model.Pipe.zipRow fuel ps 0 [] w = x at h1
  obtain ⟨res, ps1, w1⟩ := x
  have pass : ∀ {β : Type} (res' : Res β), (res'.isOof = false → res.isOof = false) →
      EmitOK (.zip ps opened) w (res', .zip ps1 opened, w1) :=
    fun res' ho => h1.wrap res' ho rfl rfl (fun hl hs => by simp only [Op]; exact ⟨hop.1.trans hl.symm, hs⟩)
  cases res with
  | val v => exact pass _ id
  | eof => exact pass _ id
  | fail e => exact pass _ id
  | panic b => exact pass _ id
  | oof => exact oofOK

theorem emit_merge {fuel : Nat} (ih : AllSpec fuel) (ps opened slots) (w : World)
    (hop : Op (.merge ps opened slots) w.isOpen)
    (hn : (ids (.merge ps opened slots)).Nodup) (hb : w.bad = false) :
    EmitOK (.merge ps opened slots) w (emitP (fuel+1) (.merge ps opened slots) w) := by
  have hop0 := hop
  simp only [Op] at hop
  simp only [ids] at hn
  unfold emitP
  split
  · exact EmitOK.same _ rfl rfl hb hop0
  extract_lets slots0
  clear_value slots0
  have h1 := ih.mergeRefill ps 0 slots0 w hop.2 hn hb
  generalize Model.Pipe.mergeRefill fuel ps 0 slots0 w = x at h1
  obtain ⟨res, ps1, w1⟩ := x
  have pass : ∀ {β : Type} (res' : Res β) (sl : Option (List (Option V))),
      (res'.isOof = false → res.isOof = false) →
      EmitOK (.merge ps opened slots) w (res', .merge ps1 opened sl, w1) :=
    fun res' sl ho => h1.wrap res' ho rfl rfl (fun hl hs => by simp only [Op]; exact ⟨hop.1.trans hl.symm, hs⟩)
  cases res with
  | val v =>
    dsimp only
    split
    · exact pass _ _ (fun _ => rfl)
    · exact pass _ _ (fun _ => rfl)
  | eof => exact oofOK
  | fail e => exact pass _ _ id
  | panic b => exact pass _ _ id
  | oof => exact oofOK

theorem emit_window {fuel : Nat} (ih : AllSpec fuel) (s st o buf d so p) (w : World)
    (hop : Op (.window s st o buf d so p) w.isOpen)
    (hn : (ids (.window s st o buf d so p)).Nodup) (hb : w.bad = false) :
    EmitOK (.window s st o buf d so p) w (emitP (fuel+1) (.window s st o buf d so p) w) := by
  have hop0 := hop
  simp only [Op] at hop
  simp only [ids] at hn
  rw [emitP]
  split
  · exact EmitOK.same _ rfl rfl hb hop0
  · obtain ⟨rfl, hop⟩ := hop
    exact ih.windowFill s st o buf p w hop hn hb

theorem emit_cluster {fuel : Nat} (ih : AllSpec fuel) (k fac nxt cls last so p) (w : World)
    (hop : Op (.cluster k fac nxt cls last so p) w.isOpen)
    (hn : (ids (.cluster k fac nxt cls last so p)).Nodup) (hb : w.bad = false) :
    EmitOK (.cluster k fac nxt cls last so p) w (emitP (fuel+1) (.cluster k fac nxt cls last so p) w) := by
  have hop0 := hop
  simp only [Op] at hop
  simp only [ids] at hn
  obtain ⟨rfl, hop⟩ := hop
  have pass : ∀ {β γ : Type} {q q1 : Pipe} {w0 w2 : World} {res0 : Res γ} (res' : Res β) (nxt' cls' last'),
      EmitOK q w0 (res0, q1, w2) → (res'.isOof = false → res0.isOof = false) →
      EmitOK (.cluster k fac nxt cls last true q) w0 (res', .cluster k fac nxt' cls' last' true q1, w2) :=
    fun res' _ _ _ h ho => h.wrap res' ho (fun _ hx => hx) (fun h => by simp only [ids, h])
      (fun _ hp => by simp only [Op]; exact ⟨trivial, hp⟩)
  unfold emitP
  split
  · exact EmitOK.same _ rfl rfl hb hop0
  obtain ⟨h, w1, he, ho, hb1⟩ := userCall_eq w
  rw [he]
  have hb1' : w1.bad = false := hb1.trans hb
  cases h with
  | err => exact EmitOK.same _ rfl ho hb1' hop0
  | panic b => exact EmitOK.same _ rfl ho hb1' hop0
  | none =>
    dsimp only
    rename_i item
    have hop1 : Op p w1.isOpen := by rw [ho]; exact hop
    have hk1 : Keep (ids p) w w1 := Keep.same hb1' ho
    have hR : EmitOK p w1 (drop2 (if fac = .none then (.val [], some item, last, p, w1)
               else clusterRead fuel k cls (facWant fac) [] (some item) last p w1)) := by
      split
      · exact EmitOK.same _ rfl rfl hb1' hop1
      · exact ih.clusterRead k cls (facWant fac) [] (some item) last p w1 hop1 hn hb1'
    generalize (if fac = .none then ((.val [] : Res (List V)), some item, last, p, w1)
               else clusterRead fuel k cls (facWant fac) [] (some item) last p w1) = x at hR
    obtain ⟨res, nxt2, last2, p2, w2⟩ := x
    simp only [drop2] at hR
    have hR' : EmitOK p w (res, p2, w2) := EmitOK.after rfl hk1 hR
    cases res with
    | val read =>
      dsimp only
      obtain ⟨hid2, hk2, hop2⟩ := hR' rfl
      have hS := ih.clusterSkip k cls nxt2 last2 p2 w2 hop2 (hid2 ▸ hn) hk2.bad
      generalize Model.Pipe.clusterSkip fuel k cls nxt2 last2 p2 w2 = y at hS
      obtain ⟨res3, nxt3, last3, p3, w3⟩ := y
      simp only [drop2] at hS
      have hS' : EmitOK p w (res3, p3, w3) := EmitOK.after hid2 hk2 hS
      cases res3 with
      | val c => exact pass _ _ _ _ hS' (fun _ => rfl)
      | eof => exact oofOK
      | fail e => exact pass _ _ _ _ hS' id
      | panic b => exact pass _ _ _ _ hS' id
      | oof => exact oofOK
    | eof => exact oofOK
    | fail e => exact pass _ _ _ _ hR' id
    | panic b => exact pass _ _ _ _ hR' id
    | oof => exact oofOK

theorem emitP_step {fuel : Nat} (ih : AllSpec fuel) : ∀ (p : Pipe) (w : World),
    Op p w.isOpen → (ids p).Nodup → w.bad = false → EmitOK p w (emitP (fuel+1) p w)
  | .src r xs idx, w, hop, _, hb => emit_src fuel r xs idx w hop hb
  | .lc r p, w, hop, hn, hb => emit_lc ih r p w hop hn hb
  | .map f p, w, hop, hn, hb => emit_map ih f p w hop hn hb
  | .filter g p, w, hop, hn, hb => emit_filter ih g p w hop hn hb
  | .limit n c p, w, hop, hn, hb => emit_limit ih n c p w hop hn hb
  | .skip n d p, w, hop, hn, hb => emit_skip ih n d p w hop hn hb
  | .concat ps a b c, w, hop, hn, hb => emit_concat ih ps a b c w hop hn hb
  | .zip ps a, w, hop, hn, hb => emit_zip ih ps a w hop hn hb
  | .merge ps a s, w, hop, hn, hb => emit_merge ih ps a s w hop hn hb
  | .window s st o buf d so p, w, hop, hn, hb => emit_window ih s st o buf d so p w hop hn hb
  | .cluster k fac nxt cls last so p, w, hop, hn, hb => emit_cluster ih k fac nxt cls last so p w hop hn hb

end ShpanVerif.Proofs.PipeC01
