/-
Join lifecycle model (`Model/JoinLife.lean`), fault-free runs: erasing the probe world.

* `runW_clean`     : in a clean world an emit program does exactly what it does over plain lists (`runL`) — any program;
* `collectL`       : the terminal over plain lists (pull until EOF / error);
* `consumeJ_clean` : in a clean world the terminal (no Limit) returns what `collectL` returns.
-/
import ShpanVerif.Proofs.JoinLifeC03

namespace ShpanVerif.Proofs.JoinLife
open ShpanVerif.Model.Pipe ShpanVerif.Model.JoinLife
open ShpanVerif.Model.PipeDyn (hitRes castRes noErr limOff)
open ShpanVerif.Model.Join (JErr)

/-- what the inputs have left -/
def rests (ins : List Inp) : List (List Int) := ins.map (·.rest)

/-- `runW` in a clean world against `runL` -/
def Erased {σ : Type} (x : Res Row × σ × List Inp × World) : LRes σ → Prop
  | .row v s ls => x.1 = .val v ∧ x.2.1 = s ∧ rests x.2.2.1 = ls
  | .eof s ls => x.1 = .eof ∧ x.2.1 = s ∧ rests x.2.2.1 = ls
  | .err e s ls => x.1 = .fail (.lib (errTag e)) ∧ x.2.1 = s ∧ rests x.2.2.1 = ls
  | .oof => x.1 = .oof
  | .noInput => x.1 = .fail (.lib "no-such-input")

theorem runW_clean {σ : Type} (p : Prog σ) : ∀ (ins : List Inp) (w : World), w.Clean →
    Erased (runW p ins w) (runL p (rests ins)) ∧ (runW p ins w).2.2.2.Clean := by
  induction p with
  | ret row s => intro ins w h; exact ⟨⟨rfl, rfl, rfl⟩, h⟩
  | eof s => intro ins w h; exact ⟨⟨rfl, rfl, rfl⟩, h⟩
  | fail e s => intro ins w h; exact ⟨⟨rfl, rfl, rfl⟩, h⟩
  | oof s => intro ins w h; exact ⟨rfl, h⟩
  | ctx s q ih =>
      intro ins w h
      simp only [runW, runL, h.2, Bool.false_eq_true, if_false]
      exact ih ins w h
  | pull i s q ih =>
      intro ins w h
      simp only [runW, runL, pullAt, rests, List.getElem?_map]
      cases hg : ins[i]? with
      | none => exact ⟨rfl, h⟩
      | some p =>
        obtain ⟨w', h1, h2⟩ := PipeC04.emitRes_clean p.r h
        simp only [h1, Option.map_some]
        cases hr : p.rest with
        | nil => exact ih none ins w' h2
        | cons y rest =>
          simp only []
          have := ih (some y) (ins.set i { p with rest := rest }) w' h2
          simp only [rests, List.map_set] at this
          exact this
  | call s q ih =>
      intro ins w h
      obtain ⟨w', h1, h2⟩ := PipeC04.userCall_clean h
      simp only [runW, runL, h1]
      exact ih ins w' h2

/-- how a run over plain lists ended -/
inductive LEnd where
  | eof | err (e : JErr) | oof | noInput
  deriving DecidableEq, Repr

/-- the terminal over plain lists: call the emit program until it does not return a row (`n` bounds the number of calls) -/
def collectL {σ : Type} (prog : σ → Prog σ) : Nat → σ → List (List Int) → List Row × LEnd
  | 0, _, _ => ([], .oof)
  | n+1, s, ls =>
    match runL (prog s) ls with
    | .row v s' ls' => let o := collectL prog n s' ls'; (v :: o.1, o.2)
    | .eof _ _ => ([], .eof)
    | .err e _ _ => ([], .err e)
    | .oof => ([], .oof)
    | .noInput => ([], .noInput)

/-- what the terminal returns for a run over plain lists -/
def outcomeL : List Row × LEnd → JOutcome
  | (rows, .eof) => .ok rows
  | (rows, .err e) => .err (.lib (errTag e)) rows
  | (_, .oof) => .oof
  | (rows, .noInput) => .err (.lib "no-such-input") rows

theorem pullLoopJ_clean {σ : Type} (prog : σ → Prog σ) : ∀ (fuel : Nat) (kc : Consumer) (n : Int) (c : Obj σ)
    (acc : List Row) (w : World), w.Clean →
    outcomeOf (pullLoopJ prog fuel kc none n c acc w).1 (pullLoopJ prog fuel kc none n c acc w).2.1 =
      (match collectL prog fuel c.js (rests c.ins) with
       | (rows, .eof) => .ok (acc.reverse ++ rows)
       | (rows, .err e) => .err (.lib (errTag e)) (acc.reverse ++ rows)
       | (_, .oof) => .oof
       | (rows, .noInput) => .err (.lib "no-such-input") (acc.reverse ++ rows)) := by
  intro fuel
  induction fuel with
  | zero => intro kc n c acc w h; rfl
  | succ f ih =>
    intro kc n c acc w h
    have hr := runW_clean (prog c.js) c.ins w h
    simp only [pullLoopJ, collectL, h.2, Bool.false_eq_true, if_false, emitT, emitJ]
    generalize runW (prog c.js) c.ins w = x at hr
    obtain ⟨res, s1, ins1, w1⟩ := x
    generalize runL (prog c.js) (rests c.ins) = y at hr
    obtain ⟨hE, hC⟩ := hr
    simp only at hC
    cases y with
    | row v s' ls' =>
      obtain ⟨rfl, rfl, rfl⟩ := hE
      simp only []
      have step : ∀ w2 : World, w2.Clean →
          outcomeOf (pullLoopJ prog f kc none (n + 1) ({ c with ins := ins1, js := s1 } : Obj σ) (v :: acc) w2).1
            (pullLoopJ prog f kc none (n + 1) ({ c with ins := ins1, js := s1 } : Obj σ) (v :: acc) w2).2.1 =
          (match ((v :: (collectL prog f s1 (rests ins1)).1, (collectL prog f s1 (rests ins1)).2) : List Row × LEnd) with
           | (rows, .eof) => .ok (acc.reverse ++ rows)
           | (rows, .err e) => .err (.lib (errTag e)) (acc.reverse ++ rows)
           | (_, .oof) => .oof
           | (rows, .noInput) => .err (.lib "no-such-input") (acc.reverse ++ rows)) := by
        intro w2 h2
        rw [ih kc (n + 1) _ (v :: acc) w2 h2]
        simp only []
        generalize collectL prog f s1 (rests ins1) = o
        obtain ⟨rows, e⟩ := o
        cases e <;> simp
      cases kc with
      | collect => exact step w1 hC
      | user =>
        obtain ⟨w', h1, h2⟩ := PipeC04.userCall_clean hC
        simp only [h1]
        exact step w' h2
    | eof s' ls' => obtain ⟨rfl, rfl, rfl⟩ := hE; simp [outcomeOf]
    | err e s' ls' => obtain ⟨rfl, rfl, rfl⟩ := hE; simp [outcomeOf, castRes]
    | oof => simp only [Erased] at hE; subst hE; simp [outcomeOf, castRes]
    | noInput => simp only [Erased] at hE; subst hE; simp [outcomeOf, castRes]

/-- **erasing the probe world**: in a clean world the terminal (no Limit, either consumer) over inputs at rest returns what
    the run over plain lists returns -/
theorem consumeJ_clean {σ : Type} (prog : σ → Prog σ) (fuel : Nat) (kc : Consumer) (c : Obj σ) (w : World)
    (hw : w.Clean) :
    (consumeJ prog fuel kc none c w).1 = outcomeL (collectL prog fuel c.js (c.ins.map (·.xs))) := by
  have hv := openIns_clean c.ins w hw
  have hvc := openIns_val c.ins w () hv
  have hcl := openIns_prim clean_prim c.ins w hw
  unfold consumeJ openC
  simp only [limOff, Bool.false_eq_true, if_false]
  generalize openIns c.ins w = y at hv hvc hcl
  obtain ⟨res, ins1, n, w1⟩ := y
  simp only at hv hvc hcl
  subst hv
  obtain ⟨rfl, rfl⟩ := hvc
  simp only []
  have hp := pullLoopJ_clean prog fuel kc 1
    ({ c with ins := c.ins.map (fun p => { p with rest := p.xs }), opened := c.ins.length } : Obj σ) [] w1 hcl
  have hrs : rests (c.ins.map (fun p => ({ p with rest := p.xs } : Inp))) = c.ins.map (·.xs) := by
    simp [rests, Function.comp_def]
  simp only [hrs] at hp
  generalize pullLoopJ prog fuel kc none 1
    ({ c with ins := c.ins.map (fun p => { p with rest := p.xs }), opened := c.ins.length } : Obj σ) [] w1 = a at hp
  obtain ⟨ra, acca, ca, wa⟩ := a
  simp only at hp
  generalize collectL prog fuel c.js (c.ins.map (·.xs)) = o at hp
  obtain ⟨rows, e⟩ := o
  cases ra <;> cases e <;> simp_all [outcomeOf, outcomeL]

end ShpanVerif.Proofs.JoinLife
