/-
C20 helper: the driver's concrete lexer `jsonLex` tokenises a framed document "[" e1 "," e2 … "]" into
"[", one value per element, "]" — proved here for scalar elements (numbers, true/false/null: no delimiter, white
space, quote, bracket or colon inside).  String and nested elements (every well-formed JSON text, white space
anywhere): `Proofs/JsonScanLemmas.lean`, which builds on the scalar lemmas here.
-/
import ShpanVerif.Model.JsonFrame


set_option autoImplicit false
namespace ShpanVerif.Proofs.JsonLex
open List ShpanVerif.Model.JsonFrame

/-- a byte that may occur in a scalar element -/
def scalarByte (b : UInt8) : Bool :=
  !isScalarEnd b && b != bQuote && b != bLBr && b != bLBc && b != bColon

def ScalarElem (e : Bytes) : Prop := e ≠ [] ∧ ∀ b ∈ e, scalarByte b = true

instance (e : Bytes) : Decidable (ScalarElem e) := by unfold ScalarElem; infer_instance

theorem scalarByte_facts {b : UInt8} (h : scalarByte b = true) :
    isScalarEnd b = false ∧ isWs b = false ∧ (b == bComma) = false ∧ (b == bRBr) = false ∧ (b == bRBc) = false ∧
    (b == bQuote) = false ∧ (b == bLBr) = false ∧ (b == bLBc) = false ∧ (b == bColon) = false := by
  simp only [scalarByte, isScalarEnd, Bool.and_eq_true, Bool.not_eq_true', Bool.or_eq_false_iff, bne_iff_ne, ne_eq] at h
  obtain ⟨⟨⟨⟨⟨⟨⟨h1, h2⟩, h3⟩, h4⟩, h5⟩, h6⟩, h7⟩, h8⟩ := h
  simp only [isScalarEnd, h1, h2, h3, h4, Bool.or_self, true_and]
  refine ⟨?_, ?_, ?_, ?_⟩ <;> simpa using ‹_›

theorem scanScalar_spec (e : Bytes) (acc : Bytes) (t : UInt8) (tl : Bytes)
    (he : ∀ b ∈ e, isScalarEnd b = false) (ht : isScalarEnd t = true) :
    scanScalar (e ++ t :: tl) acc = (acc.reverse ++ e, t :: tl) := by
  induction e generalizing acc with
  | nil => simp [scanScalar, ht]
  | cons b e ih =>
    have hb := he b (by simp)
    simp only [cons_append, scanScalar, hb, Bool.false_eq_true, if_false]
    rw [ih _ (fun b' hb' => he b' (by simp [hb']))]
    simp

theorem skipWs_cons_of_not_ws {c : UInt8} (r : Bytes) (h : isWs c = false) : skipWs (c :: r) = c :: r := by
  simp [skipWs, h]

theorem scanValue_scalar {e : Bytes} (he : ScalarElem e) (t : UInt8) (tl : Bytes) (ht : isScalarEnd t = true) :
    scanValue (e ++ t :: tl) = some (e, t :: tl) := by
  obtain ⟨hne, hall⟩ := he
  cases e with
  | nil => exact absurd rfl hne
  | cons c e =>
    obtain ⟨h1, _, _, _, _, h6, h7, h8, h9⟩ := scalarByte_facts (hall c (by simp))
    simp only [cons_append, scanValue, h6, h7, h8, h9, h1, Bool.false_eq_true, if_false, Bool.or_self]
    rw [scanScalar_spec e [c] t tl (fun b hb => (scalarByte_facts (hall b (by simp [hb]))).1) ht]
    simp

theorem isScalarEnd_comma : isScalarEnd bComma = true := by decide
theorem isScalarEnd_rbr : isScalarEnd bRBr = true := by decide

/-- The element loop of `lexArr` over scalar elements. -/
theorem lexArr_scalars : ∀ (es : List Bytes) (fuel : Nat) (first : Bool),
    (∀ e ∈ es, ScalarElem e) → (joinBytes [bComma] es).length + 2 ≤ fuel → (es = [] → first = true) →
    lexArr fuel true first (joinBytes [bComma] es ++ [bRBr]) = es.map Tok.val ++ [Tok.arrClose]
  | [], fuel, first, _, hf, hfirst => by
    obtain ⟨fuel, rfl⟩ : ∃ k, fuel = k + 1 := ⟨fuel - 1, by simp [joinBytes] at hf; omega⟩
    have hws : isWs bRBr = false := by decide
    simp [joinBytes, lexArr, skipWs, hws, hfirst rfl]
  | [e], fuel, first, hall, hf, _ => by
    have he := hall e (by simp)
    obtain ⟨hne, hb⟩ := he
    obtain ⟨c, e', rfl⟩ : ∃ c e', e = c :: e' := by
      cases e with
      | nil => exact absurd rfl hne
      | cons c e' => exact ⟨c, e', rfl⟩
    obtain ⟨_, hws, _, h4, h5, _⟩ := scalarByte_facts (hb c (by simp))
    obtain ⟨fuel, rfl⟩ : ∃ k, fuel = k + 2 := ⟨fuel - 2, by simp [joinBytes] at hf; omega⟩
    have hsv := scanValue_scalar (hall (c :: e') (by simp)) bRBr [] isScalarEnd_rbr
    have hws2 : isWs bRBr = false := by decide
    have hc : (bRBr == bComma) = false := by decide
    simp only [joinBytes]
    rw [lexArr]
    simp only [cons_append, skipWs_cons_of_not_ws _ hws, h4, h5, Bool.false_and, Bool.false_eq_true, if_false, if_true]
    simp only [cons_append] at hsv
    rw [hsv]
    simp [lexArr, skipWs, hws2, hc]
  | e :: e2 :: es, fuel, first, hall, hf, _ => by
    have he := hall e (by simp)
    obtain ⟨hne, hb⟩ := he
    obtain ⟨c, e', rfl⟩ : ∃ c e', e = c :: e' := by
      cases e with
      | nil => exact absurd rfl hne
      | cons c e' => exact ⟨c, e', rfl⟩
    obtain ⟨_, hws, _, h4, h5, _⟩ := scalarByte_facts (hb c (by simp))
    have hlen : (joinBytes [bComma] ((c :: e') :: e2 :: es)).length =
        (c :: e').length + 1 + (joinBytes [bComma] (e2 :: es)).length := by
      simp [joinBytes]; omega
    obtain ⟨fuel, rfl⟩ : ∃ k, fuel = k + 2 := ⟨fuel - 2, by rw [hlen] at hf; simp at hf; omega⟩
    have hdoc : joinBytes [bComma] ((c :: e') :: e2 :: es) ++ [bRBr] =
        (c :: e') ++ bComma :: (joinBytes [bComma] (e2 :: es) ++ [bRBr]) := by
      simp [joinBytes]
    have hsv := scanValue_scalar (hall (c :: e') (by simp)) bComma (joinBytes [bComma] (e2 :: es) ++ [bRBr])
      isScalarEnd_comma
    have hwsc : isWs bComma = false := by decide
    have ih := lexArr_scalars (e2 :: es) fuel false (fun x hx => hall x (by simp [hx]))
      (by rw [hlen] at hf; simp at hf ⊢; omega) (by simp)
    rw [hdoc, lexArr]
    simp only [cons_append, skipWs_cons_of_not_ws _ hws, h4, h5, Bool.false_and, Bool.false_eq_true, if_false, if_true]
    simp only [cons_append] at hsv
    rw [hsv]
    simp only [map_cons, cons_append, cons.injEq, true_and]
    rw [lexArr]
    simp only [skipWs_cons_of_not_ws _ hwsc, Bool.false_eq_true, if_false, beq_self_eq_true, if_true]
    rw [ih]; simp

/-- **`jsonLex` frames scalar elements.** -/
theorem jsonLex_frames (es : List Bytes) (h : ∀ e ∈ es, ScalarElem e) :
    jsonLex (frame es) = Tok.arrOpen :: es.map Tok.val ++ [Tok.arrClose] := by
  have hws : isWs bLBr = false := by decide
  have hf : frame es = bLBr :: (joinBytes [bComma] es ++ [bRBr]) := by simp [frame]
  rw [jsonLex, hf, skipWs_cons_of_not_ws _ hws]
  simp only [beq_self_eq_true, if_true, cons_append, cons.injEq, true_and]
  exact lexArr_scalars es _ true h (by simp) (fun _ => rfl)

end ShpanVerif.Proofs.JsonLex
