/-
Pull-counting copy of the N-way inner join (Model/JoinDemand.lean): the per-input bookkeeping invariant

    orig = handed ++ rest,   out = |handed|,   the buffered element (if any) is the last one handed out

threaded through `pfill` / `prefill` / `padv` / `pinner` / `pcollect`, and its consequence for a run that delivers all the
rows it was asked for: the final state of every input is `ptake` of the state that produced the last row, i.e. the input
has handed out exactly a prefix of its list that ends with its element of that row (`Done`).
-/
import ShpanVerif.Proofs.JoinDemandLemmas

namespace ShpanVerif.Proofs.JoinDemand
open List ShpanVerif.Model.Join ShpanVerif.Model.JoinDemand

variable {α : Type} (key : α → Int)

/-- the source's list = what was handed out ++ what is left; the buffered element is the last one handed out -/
def Wf (s : PS α) : Prop :=
  ∃ h, s.orig = h ++ s.rest ∧ s.out = h.length ∧ ∀ b, s.buf = some b → ∃ h', h = h' ++ [b]

/-- right after a row: slot empty, the last element handed out is this input's element of the row -/
def Done (row : List α) (s : PS α) : Prop :=
  s.buf = none ∧ ∃ h b, s.orig = h ++ b :: s.rest ∧ s.out = h.length + 1 ∧ b ∈ row

theorem wf_of_done {row : List α} {s : PS α} (h : Done row s) : Wf s := by
  obtain ⟨hb, h, b, ho, hout, _⟩ := h
  exact ⟨h ++ [b], by simp [ho], by simp [hout], by intro b' hb'; rw [hb] at hb'; cases hb'⟩

theorem wf_init (l : List α) : Wf (PS.init l) :=
  ⟨[], rfl, rfl, by intro b hb; cases hb⟩

theorem wf_pfill {s : PS α} (h : Wf s) : Wf (pfill s) := by
  rcases s with ⟨buf, last, rest, out, orig⟩
  cases buf with
  | some b => cases rest <;> exact h
  | none =>
    cases rest with
    | nil => exact h
    | cons x xs =>
      obtain ⟨hd, ho, hout, _⟩ := h
      simp only at ho hout
      refine ⟨hd ++ [x], by simp [pfill, ho], by simp [pfill, hout], ?_⟩
      intro b hb
      simp only [pfill, Option.some.injEq] at hb
      subst hb
      exact ⟨hd, rfl⟩

theorem wf_adv1 (m : Int) {s : PS α} (h : Wf s) : Wf (adv1 key m s) := by
  rcases adv1_cases key m s with he | ⟨b, x, xs, hb, hlt, hr, _, _, hout, hbuf⟩
  · rw [he]; exact h
  · rcases s with ⟨buf, last, rest, out, orig⟩
    simp only at hb hr
    subst hb hr
    obtain ⟨hd, ho, ho2, _⟩ := h
    simp only at ho ho2
    have hrest : (adv1 key m ⟨some b, last, x :: xs, out, orig⟩).rest = xs := by simp [adv1, hlt]
    have horig : (adv1 key m ⟨some b, last, x :: xs, out, orig⟩).orig = orig := adv1_orig key m _
    refine ⟨hd ++ [x], by rw [hrest, horig, ho]; simp, by rw [hout]; simp [ho2], ?_⟩
    intro b' hb'
    rw [hbuf] at hb'
    cases hb'
    exact ⟨hd, rfl⟩

theorem wf_prefill {ss : List (PS α)} (h : ∀ s ∈ ss, Wf s) : ∀ s ∈ (prefill ss).1, Wf s := by
  intro s' hs'
  obtain ⟨s, hs, rfl | rfl⟩ := prefill_mem ss s' hs'
  · exact h _ hs
  · exact wf_pfill (h s hs)

theorem wf_padv (m : Int) {ss : List (PS α)} (h : ∀ s ∈ ss, Wf s) : ∀ s ∈ (padv key m ss).1, Wf s := by
  intro s' hs'
  obtain ⟨s, hs, rfl | rfl⟩ := padv_mem key m ss s' hs'
  · exact h _ hs
  · exact wf_adv1 key m (h s hs)

theorem done_ptake {row : List α} {s : PS α} (h : Wf s) (b : α) (hb : s.buf = some b) (hrow : b ∈ row) :
    Done row (ptake s) := by
  obtain ⟨hd, ho, hout, hl⟩ := h
  obtain ⟨h', rfl⟩ := hl b hb
  exact ⟨rfl, h', b, by simp [ptake, ho], by simp [ptake, hout], hrow⟩

/-- a call of `emitJoin` that returns a row leaves every input `Done` for that row -/
theorem pinner_done : ∀ (fuel : Nat) (ss : List (PS α)), (∀ s ∈ ss, Wf s) → ∀ v ss', pinner key fuel ss = .row v ss' →
    ∀ s ∈ ss', Done v s
  | 0, ss, _, v, ss', h => by simp [pinner] at h
  | fuel+1, ss, hw, v, ss', h => by
    rw [pinner] at h
    have h1 := wf_prefill hw
    have hf := prefill_filled ss
    rcases hp : prefill ss with ⟨ss1, ok⟩
    rw [hp] at h1 hf h
    cases ok with
    | false => simp at h
    | true =>
      simp only [] at h
      have hf1 := hf rfl
      cases hu : firstUnsorted key 0 (ss1.map PS.src) with
      | some i => simp [hu] at h
      | none =>
        simp only [hu] at h
        cases hm : maxKey (headKeys key (ss1.map PS.src)) with
        | none => simp [hm] at h
        | some m =>
          simp only [hm] at h
          by_cases hall : ((headKeys key (ss1.map PS.src)).all fun k => k == m) = true
          · simp only [hall, if_true, PStep.row.injEq] at h
            obtain ⟨rfl, rfl⟩ := h
            intro s hs
            obtain ⟨s0, hs0, rfl⟩ := mem_map.mp hs
            obtain ⟨b, hb⟩ := hf1 s0 hs0
            exact done_ptake (h1 s0 hs0) b hb (mem_filterMap.mpr ⟨s0, hs0, hb⟩)
          · simp only [hall, Bool.false_eq_true, if_false] at h
            have h2 := wf_padv key m h1
            rcases ha : padv key m ss1 with ⟨ss2, ok2⟩
            rw [ha] at h2 h
            cases ok2 with
            | false => simp at h
            | true => exact pinner_done fuel ss2 h2 v ss' h

/-- a `Limit(want)` that gets all its rows stops on the last one: every input is `Done` for it -/
theorem pcollect_done : ∀ (fuel want : Nat) (ss : List (PS α)), (∀ s ∈ ss, Wf s) →
    (pcollect key fuel (want + 1) ss).1.length = want + 1 →
    ∃ row, (pcollect key fuel (want + 1) ss).1.getLast? = some row ∧ ∀ s ∈ (pcollect key fuel (want + 1) ss).2, Done row s
  | 0, want, ss, _, hl => by simp [pcollect] at hl
  | fuel+1, want, ss, hw, hl => by
    rw [pcollect] at hl ⊢
    cases he : pemit key ss with
    | eof ss' => rw [he] at hl; simp at hl
    | err e ss' => rw [he] at hl; simp at hl
    | row v ss' =>
      rw [he] at hl
      simp only [] at hl ⊢
      have hd := pinner_done key _ ss hw v ss' he
      cases want with
      | zero =>
        refine ⟨v, ?_, ?_⟩
        · cases fuel <;> simp [pcollect]
        · cases fuel <;> simpa [pcollect] using hd
      | succ w =>
        have hl' : (pcollect key fuel (w + 1) ss').1.length = w + 1 := by simpa using hl
        obtain ⟨row, h1, h2⟩ := pcollect_done fuel w ss' (fun s hs => wf_of_done (hd s hs)) hl'
        refine ⟨row, ?_, h2⟩
        have hne : (pcollect key fuel (w + 1) ss').1 ≠ [] := by
          intro h; rw [h] at hl'; simp at hl'
        rw [getLast?_cons_of_ne_nil hne]
        exact h1

end ShpanVerif.Proofs.JoinDemand
