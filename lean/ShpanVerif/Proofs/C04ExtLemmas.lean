import ShpanVerif.Model.Terminals
/-
Helper lemmas for Props/C04Ext.lean: the consume loop is a fold, Go-map association lists, the reservoir
invariant, the iterator loop.
-/
namespace ShpanVerif.Proofs.C04Ext
open ShpanVerif.Model.Lazy ShpanVerif.Model.Terminals

variable {α β σ : Type}

/-! ### what a stream delivers -/

/-- The in-memory meaning of a stream for a terminal that reads it to the end: the list, or the first error
(open error, cancelled context, provider error). -/
def outcome (s : Src α) (ctx : Ctx) : Except Err (List α) :=
  match s.openErr with
  | some e => .error e
  | none =>
    match ctx.err with
    | some e => .error e
    | none =>
      match s.fail with
      | some e => .error e
      | none => .ok s.elems

/-- A stream that opens, in a live context. -/
def Runs (s : Src α) (ctx : Ctx) : Prop := s.openErr = none ∧ ctx.cancelled = false

theorem Runs.ctxErr {s : Src α} {ctx : Ctx} (h : Runs s ctx) : ctx.err = none := by
  simp [Ctx.err, h.2]

theorem consumeLoop_total (g : σ → α → σ) (xs : List α) (fail : Option Err) (st : σ) :
    Src.consumeLoop (fun st v => .ok (g st v)) xs fail st = (xs.foldl g st, fail) := by
  induction xs generalizing st with
  | nil => rfl
  | cons x xs ih => simp [Src.consumeLoop, ih]

theorem consume_eq (s : Src α) (ctx : Ctx) (g : σ → α → σ) (init : σ) :
    s.consume ctx g init =
      (match s.openErr with
       | some e => (init, some e)
       | none => match ctx.err with
         | some e => (init, some e)
         | none => (s.elems.foldl g init, s.fail)) := by
  simp only [Src.consume, Src.consumeWithErr, consumeLoop_total]
  cases s.openErr <;> cases ctx.err <;> rfl

/-- the loop with a consumer that can fail: `foldlM`, then the provider's own end -/
theorem consumeLoop_foldlM (f : σ → α → Except Err σ) (xs : List α) (fail : Option Err) (st : σ) :
    (Src.consumeLoop f xs fail st).2 =
      (match xs.foldlM f st with | .error e => some e | .ok _ => fail) ∧
    (∀ r, xs.foldlM f st = .ok r → (Src.consumeLoop f xs fail st).1 = r) := by
  induction xs generalizing st with
  | nil => simp [Src.consumeLoop, List.foldlM, pure, Except.pure]
  | cons x xs ih =>
    simp only [Src.consumeLoop, List.foldlM_cons, bind, Except.bind]
    rcases f st x with e | st'
    · simp
    · simpa using ih st'

theorem foldl_snoc_eq (xs : List α) (acc : List α) : xs.foldl (fun r v => r ++ [v]) acc = acc ++ xs := by
  induction xs generalizing acc with
  | nil => simp
  | cons x xs ih => simp [ih]

theorem foldl_count (xs : List α) (n : Nat) : xs.foldl (fun c _ => c + 1) n = n + xs.length := by
  induction xs generalizing n with
  | nil => simp
  | cons x xs ih => simp [ih]; omega

theorem foldl_last (xs : List α) (o : Option α) :
    xs.foldl (fun (_ : Option α) v => some v) o = (match xs.getLast? with | some v => some v | none => o) := by
  induction xs generalizing o with
  | nil => rfl
  | cons x xs ih =>
    simp only [List.foldl_cons, ih]
    cases xs with
    | nil => rfl
    | cons y ys =>
      rw [List.getLast?_cons_cons]
      cases h : (y :: ys).getLast? with
      | none => simp at h
      | some v => rfl

theorem foldl_firstLast (xs : List α) (a b : Option α) :
    xs.foldl Src.firstLastStep (a, b) =
      ((match a with | some f => some f | none => xs.head?),
       (match xs.getLast? with | some v => some v | none => b)) := by
  induction xs generalizing a b with
  | nil => cases a <;> rfl
  | cons x xs ih =>
    simp only [List.foldl_cons, Src.firstLastStep, ih]
    cases xs with
    | nil => cases a <;> rfl
    | cons y ys =>
      rw [List.getLast?_cons_cons]
      cases h : (y :: ys).getLast? with
      | none => simp at h
      | some v => cases a <;> simp

theorem foldl_extremum (pick : α → α → α) (xs : List α) (a : α) :
    xs.foldl (Src.extremumReduce pick) (some a) = some (xs.foldl pick a) := by
  induction xs generalizing a with
  | nil => rfl
  | cons x xs ih => simp [Src.extremumReduce, ih]

theorem foldl_extremum_none (pick : α → α → α) (xs : List α) :
    xs.foldl (Src.extremumReduce pick) none = (match xs with | [] => none | a :: as => some (as.foldl pick a)) := by
  cases xs with
  | nil => rfl
  | cons x xs => simp [Src.extremumReduce, foldl_extremum]

theorem foldl_max_spec (l : List Int) (a : Int) :
    (l.foldl max a = a ∨ l.foldl max a ∈ l) ∧ a ≤ l.foldl max a ∧ ∀ x ∈ l, x ≤ l.foldl max a := by
  induction l generalizing a with
  | nil => simp
  | cons y ys ih =>
    obtain ⟨h1, h2, h3⟩ := ih (max a y)
    simp only [List.foldl_cons, List.mem_cons]
    refine ⟨?_, by omega, ?_⟩
    · rcases h1 with h | h
      · rw [h]; rcases Int.le_total a y with hle | hle
        · right; left; omega
        · left; omega
      · right; right; exact h
    · intro x hx
      rcases hx with rfl | hx
      · omega
      · exact h3 x hx

theorem foldl_min_spec (l : List Int) (a : Int) :
    (l.foldl min a = a ∨ l.foldl min a ∈ l) ∧ l.foldl min a ≤ a ∧ ∀ x ∈ l, l.foldl min a ≤ x := by
  induction l generalizing a with
  | nil => simp
  | cons y ys ih =>
    obtain ⟨h1, h2, h3⟩ := ih (min a y)
    simp only [List.foldl_cons, List.mem_cons]
    refine ⟨?_, by omega, ?_⟩
    · rcases h1 with h | h
      · rw [h]; rcases Int.le_total a y with hle | hle
        · left; omega
        · right; left; omega
      · right; right; exact h
    · intro x hx
      rcases hx with rfl | hx
      · omega
      · exact h3 x hx

/-! ### Go maps -/

section GoMapLemmas
variable {κ ν : Type} [DecidableEq κ]

theorem get?_set (m : GoMap κ ν) (k k' : κ) (v : ν) :
    (m.set k v).get? k' = if k = k' then some v else m.get? k' := by
  induction m with
  | nil => simp [GoMap.set, GoMap.get?]
  | cons p rest ih =>
    obtain ⟨k0, v0⟩ := p
    simp only [GoMap.set]
    by_cases h : k0 = k
    · subst h; simp only [if_true, GoMap.get?]; by_cases h2 : k0 = k' <;> simp [h2]
    · simp only [h, if_false, GoMap.get?, ih]
      by_cases h2 : k0 = k'
      · subst h2; simp [Ne.symm h]
      · simp [h2]

theorem get?_isSome_iff (m : GoMap κ ν) (k : κ) : (m.get? k).isSome ↔ k ∈ m.keys := by
  induction m with
  | nil => simp [GoMap.get?, GoMap.keys]
  | cons p rest ih =>
    obtain ⟨k0, v0⟩ := p
    simp only [GoMap.get?, GoMap.keys, List.map_cons, List.mem_cons]
    by_cases h : k0 = k
    · simp [h]
    · simp only [h, if_false]
      rw [ih]; simp [GoMap.keys, Ne.symm h]

theorem get?_eq_none_iff (m : GoMap κ ν) (k : κ) : m.get? k = none ↔ k ∉ m.keys := by
  rw [← get?_isSome_iff]; cases m.get? k <;> simp

theorem mem_keys_set (m : GoMap κ ν) (k k' : κ) (v : ν) : k' ∈ (m.set k v).keys ↔ k' = k ∨ k' ∈ m.keys := by
  rw [← get?_isSome_iff, ← get?_isSome_iff, get?_set]
  by_cases h : k = k'
  · simp [h]
  · simp [h, Ne.symm h]

theorem keys_set_nodup (m : GoMap κ ν) (k : κ) (v : ν) (h : m.keys.Nodup) : (m.set k v).keys.Nodup := by
  induction m with
  | nil => simp [GoMap.set, GoMap.keys]
  | cons p rest ih =>
    obtain ⟨k0, v0⟩ := p
    simp only [GoMap.keys, List.map_cons, List.nodup_cons] at h
    simp only [GoMap.set]
    by_cases hk : k0 = k
    · subst hk; simpa [GoMap.keys] using h
    · simp only [hk, if_false, GoMap.keys, List.map_cons, List.nodup_cons]
      refine ⟨?_, ih h.2⟩
      intro hm
      have := (mem_keys_set rest k k0 v).1 hm
      rcases this with h1 | h1
      · exact hk h1
      · exact h.1 h1

/-- "last one wins": the state of `result[g v] = v` over a list -/
theorem get?_foldl_override (g : α → κ) (w : α → ν) (xs : List α) (m : GoMap κ ν) (k : κ) :
    (xs.foldl (fun m v => m.set (g v) (w v)) m).get? k =
      (match xs.reverse.find? (fun v => g v = k) with | some v => some (w v) | none => m.get? k) := by
  induction xs generalizing m with
  | nil => rfl
  | cons x xs ih =>
    simp only [List.foldl_cons, ih, List.reverse_cons, List.find?_append]
    cases hf : xs.reverse.find? (fun v => decide (g v = k)) with
    | some v => simp
    | none =>
      simp only [Option.none_or, get?_set, List.find?_cons, List.find?_nil]
      by_cases h : g x = k <;> simp [h]

theorem keys_foldl_nodup (g : α → κ) (w : α → ν) (xs : List α) (m : GoMap κ ν) (h : m.keys.Nodup) :
    (xs.foldl (fun m v => m.set (g v) (w v)) m).keys.Nodup := by
  induction xs generalizing m with
  | nil => exact h
  | cons x xs ih => exact ih _ (keys_set_nodup m _ _ h)

/-- `result[g v]++` over a list -/
theorem get?_foldl_count (g : α → κ) (xs : List α) (m : GoMap κ Nat) (k : κ) :
    (xs.foldl (Src.countStep g) m).get? k =
      (if xs.countP (fun v => g v = k) = 0 then m.get? k
       else some ((m.get? k).getD 0 + xs.countP (fun v => g v = k))) := by
  induction xs generalizing m with
  | nil => simp
  | cons x xs ih =>
    simp only [List.foldl_cons, ih, Src.countStep, get?_set, List.countP_cons]
    by_cases h : g x = k
    · subst h
      simp only [if_true, decide_true, Option.getD_some]
      by_cases hc : List.countP (fun v => decide (g v = g x)) xs = 0
      · simp [hc]
      · simp only [hc, if_false]
        have : ¬ (List.countP (fun v => decide (g v = g x)) xs + 1 = 0) := by omega
        simp only [this, if_false]; congr 1; omega
    · simp [h]

theorem keys_foldl_count_nodup (g : α → κ) (xs : List α) (m : GoMap κ Nat) (h : m.keys.Nodup) :
    (xs.foldl (Src.countStep g) m).keys.Nodup := by
  induction xs generalizing m with
  | nil => exact h
  | cons x xs ih => exact ih _ (keys_set_nodup m _ _ h)

/-- no duplicate: the loop runs to the provider's end and the map has exactly the produced associations -/
theorem toMap_loop_ok (kv : α → κ × ν) (xs : List α) (fail : Option Err) (m : GoMap κ ν)
    (hnd : (xs.map (fun x => (kv x).1)).Nodup) (hfresh : ∀ x ∈ xs, (kv x).1 ∉ m.keys) :
    ∃ m', Src.consumeLoop (Src.collectToMapStep kv) xs fail m = (m', fail) ∧
      (∀ k v, m'.get? k = some v ↔ (m.get? k = some v ∨ ∃ x ∈ xs, kv x = (k, v))) ∧
      (m.keys.Nodup → m'.keys.Nodup) := by
  induction xs generalizing m with
  | nil => exact ⟨m, rfl, by simp, id⟩
  | cons x xs ih =>
    simp only [List.map_cons, List.nodup_cons] at hnd
    have hx : m.get? (kv x).1 = none := (get?_eq_none_iff m _).2 (hfresh x (List.mem_cons_self))
    have hfresh' : ∀ y ∈ xs, (kv y).1 ∉ (m.set (kv x).1 (kv x).2).keys := by
      intro y hy hmem
      rcases (mem_keys_set m _ _ _).1 hmem with h | h
      · exact hnd.1 (by rw [← h]; exact List.mem_map_of_mem (f := fun x => (kv x).1) hy)
      · exact hfresh y (List.mem_cons_of_mem _ hy) h
    obtain ⟨m', h1, h2, h3⟩ := ih (m.set (kv x).1 (kv x).2) hnd.2 hfresh'
    refine ⟨m', ?_, ?_, fun hm => h3 (keys_set_nodup m _ _ hm)⟩
    · simp only [Src.consumeLoop, Src.collectToMapStep, hx, h1]
    · intro k v
      rw [h2, get?_set]
      constructor
      · rintro (h | ⟨y, hy, hkv⟩)
        · by_cases hk : (kv x).1 = k
          · simp only [hk, if_true, Option.some.injEq] at h
            exact Or.inr ⟨x, List.mem_cons_self, by rw [← hk, ← h]⟩
          · simp only [hk, if_false] at h; exact Or.inl h
        · exact Or.inr ⟨y, List.mem_cons_of_mem _ hy, hkv⟩
      · rintro (h | ⟨y, hy, hkv⟩)
        · by_cases hk : (kv x).1 = k
          · subst hk; rw [hx] at h; cases h
          · simp [hk, h]
        · rcases List.mem_cons.1 hy with rfl | hy
          · left; simp [hkv]
          · exact Or.inr ⟨y, hy, hkv⟩

/-- a duplicate (among the produced keys, or with a key already in the map): the loop ends with `dupKey` -/
theorem toMap_loop_dup (kv : α → κ × ν) (xs : List α) (fail : Option Err) (m : GoMap κ ν)
    (h : ¬ ((xs.map (fun x => (kv x).1)).Nodup ∧ ∀ x ∈ xs, (kv x).1 ∉ m.keys)) :
    (Src.consumeLoop (Src.collectToMapStep kv) xs fail m).2 = some .dupKey := by
  induction xs generalizing m with
  | nil => simp at h
  | cons x xs ih =>
    simp only [Src.consumeLoop, Src.collectToMapStep]
    cases hx : m.get? (kv x).1 with
    | some v => rfl
    | none =>
      simp only []
      apply ih
      intro ⟨hnd, hfresh⟩
      apply h
      have hxm : (kv x).1 ∉ m.keys := (get?_eq_none_iff m _).1 hx
      refine ⟨?_, ?_⟩
      · simp only [List.map_cons, List.nodup_cons]
        refine ⟨?_, hnd⟩
        intro hmem
        obtain ⟨y, hy, hky⟩ := List.mem_map.1 hmem
        exact hfresh y hy ((mem_keys_set m _ _ _).2 (Or.inl hky))
      · intro y hy
        rcases List.mem_cons.1 hy with rfl | hy
        · exact hxm
        · intro hmem
          exact hfresh y hy ((mem_keys_set m _ _ _).2 (Or.inr hmem))

end GoMapLemmas

/-! ### reservoir sampling -/

/-- removing one occurrence from a permuted sublist -/
theorem subperm_cons_inv {a : α} {l p m : List α} (hp : (a :: l).Perm p) (hs : p.Sublist m) :
    ∃ q, l.Perm q ∧ q.Sublist m := by
  have ha : a ∈ p := hp.subset List.mem_cons_self
  obtain ⟨p1, p2, rfl⟩ := List.append_of_mem ha
  refine ⟨p1 ++ p2, ?_, ?_⟩
  · exact (hp.trans List.perm_middle).cons_inv
  · exact (List.Sublist.append (List.Sublist.refl p1) (List.sublist_cons_self a p2)).trans hs

theorem set_eq_append (l : List α) (j : Nat) (v : α) (h : j < l.length) :
    l = l.take j ++ l[j] :: l.drop (j + 1) ∧ l.set j v = l.take j ++ v :: l.drop (j + 1) := by
  induction l generalizing j with
  | nil => simp at h
  | cons x xs ih =>
    cases j with
    | zero => simp
    | succ j =>
      have := ih j (by simpa using h)
      simp only [List.take_succ_cons, List.getElem_cons_succ, List.drop_succ_cons, List.set_cons_succ,
        List.cons_append, List.cons.injEq, true_and]
      exact ⟨this.1, this.2⟩

/-- The reservoir invariant after the elements `pre` (in this order) have been consumed. -/
def SampleInv (k : Nat) (pre : List α) (st : List α × Nat) : Prop :=
  st.2 = pre.length ∧ st.1.length = min k pre.length ∧
  (∃ p, st.1.Perm p ∧ p.Sublist pre) ∧ (pre.length ≤ k → st.1 = pre)

theorem sampleInv_step (k : Nat) (oracle : Nat → Nat) (pre : List α) (st : List α × Nat) (v : α)
    (h : SampleInv k pre st) : SampleInv k (pre ++ [v]) (Src.sampleStep k oracle st v) := by
  obtain ⟨res, idx⟩ := st
  obtain ⟨h1, h2, ⟨p, hp, hs⟩, h4⟩ := h
  simp only at h1 h2 hp h4
  subst h1
  unfold Src.sampleStep
  by_cases hlt : pre.length < k
  · simp only [hlt, if_true]
    have hres : res = pre := h4 (by omega)
    subst hres
    refine ⟨by simp, by simp; omega, ⟨res ++ [v], List.Perm.refl _, List.Sublist.refl _⟩, fun _ => rfl⟩
  · simp only [hlt, if_false]
    refine ⟨by simp, ?_, ?_, fun hle => by simp at hle; omega⟩
    · by_cases hj : oracle pre.length < k
      · simp only [hj, if_true, List.length_set, List.length_append, List.length_singleton]; omega
      · simp only [hj, if_false, List.length_append, List.length_singleton]; omega
    · by_cases hj : oracle pre.length < k
      · simp only [hj, if_true]
        have hjl : oracle pre.length < res.length := by omega
        obtain ⟨e1, e2⟩ := set_eq_append res (oracle pre.length) v hjl
        have hperm : (res[oracle pre.length] :: (res.take (oracle pre.length) ++ res.drop (oracle pre.length + 1))).Perm p := by
          refine List.Perm.trans ?_ hp
          rw [List.perm_comm]
          conv => lhs; rw [e1]
          exact List.perm_middle
        obtain ⟨q, hq, hqs⟩ := subperm_cons_inv hperm hs
        refine ⟨q ++ [v], ?_, List.Sublist.append hqs (List.Sublist.refl _)⟩
        rw [e2]
        refine List.Perm.trans List.perm_middle ?_
        refine List.Perm.trans (List.Perm.cons v hq) ?_
        exact (List.perm_append_singleton v q).symm
      · simp only [hj, if_false]
        exact ⟨p, hp, hs.trans (List.sublist_append_left pre [v])⟩

theorem sampleInv_foldl (k : Nat) (oracle : Nat → Nat) (xs pre : List α) (st : List α × Nat)
    (h : SampleInv k pre st) : SampleInv k (pre ++ xs) (xs.foldl (Src.sampleStep k oracle) st) := by
  induction xs generalizing pre st with
  | nil => simpa using h
  | cons x xs ih =>
    have := ih (pre ++ [x]) _ (sampleInv_step k oracle pre st x h)
    simpa using this

theorem sampleInv_init (k : Nat) : SampleInv k ([] : List α) ([], 0) :=
  ⟨rfl, by simp, ⟨[], List.Perm.refl _, List.Sublist.refl _⟩, fun _ => rfl⟩

/-! ### iterator -/

/-- the loop body of the harness: remember the value, `break` when `n == j` (n = values seen before) -/
def contAt (j : Option Nat) (n : Nat) : Bool :=
  match j with | none => true | some j => n != j

def recBody (j : Option Nat) (seen : List α) (v : α) : List α × Bool :=
  (seen ++ [v], contAt j seen.length)

/-- the same loop body over `IndexedIterator`: remembers (index, value) -/
def recBodyIdx (j : Option Nat) (seen : List (Nat × α)) (i : Nat) (v : α) : List (Nat × α) × Bool :=
  (seen ++ [(i, v)], contAt j seen.length)

theorem iterFirst_noBreak (xs : List α) (fail : Option Err) (seen : List α) :
    Src.iterFirst (recBody none) xs fail seen =
      (seen ++ xs, match fail with | some e => .error e | none => .ok none) := by
  induction xs generalizing seen with
  | nil => simp only [Src.iterFirst, List.append_nil]; cases fail <;> rfl
  | cons x xs ih => simp [Src.iterFirst, recBody, contAt, ih]

theorem iterFirst_break (j : Nat) (xs : List α) (fail : Option Err) (seen : List α) (h : seen.length ≤ j) :
    (Src.iterFirst (recBody (some j)) xs fail seen).1 = seen ++ xs.take (j + 1 - seen.length) ∧
    (Src.iterFirst (recBody (some j)) xs fail seen).2 =
      (if xs.length ≤ j - seen.length then (match fail with | some e => .error e | none => .ok none)
       else .ok xs[j - seen.length]?) := by
  induction xs generalizing seen with
  | nil => simp only [Src.iterFirst]; cases fail <;> simp
  | cons x xs ih =>
    simp only [Src.iterFirst, recBody, contAt]
    by_cases hj : seen.length = j
    · subst hj
      simp
    · have hlt : seen.length < j := by omega
      have hne : (seen.length != j) = true := by simp [hj]
      simp only [hne, if_true]
      obtain ⟨i1, i2⟩ := ih (seen ++ [x]) (by simp; omega)
      simp only [List.length_append, List.length_singleton] at i1 i2
      refine ⟨?_, ?_⟩
      · rw [i1]
        have e : j + 1 - seen.length = (j + 1 - (seen.length + 1)) + 1 := by omega
        rw [e, List.take_succ_cons]; simp
      · rw [i2]
        have e : j - seen.length = (j - (seen.length + 1)) + 1 := by omega
        rw [e]
        simp only [List.length_cons, Nat.add_le_add_iff_right, List.getElem?_cons_succ]

/-- the indexed loop sees the same values as the plain one, numbered from the number of values seen before -/
theorem iterFirst_idx (j : Option Nat) (xs : List α) (fail : Option Err) (st : List (Nat × α)) (acc : List α)
    (h1 : st.map (·.2) = acc) (h2 : st.map (·.1) = List.range st.length) :
    ((Src.iterFirst (fun (q : List (Nat × α) × Nat) v =>
        (((recBodyIdx j q.1 q.2 v).1, q.2 + 1), (recBodyIdx j q.1 q.2 v).2)) xs fail (st, st.length)).1.1.map (·.2)
      = (Src.iterFirst (recBody j) xs fail acc).1) ∧
    ((Src.iterFirst (fun (q : List (Nat × α) × Nat) v =>
        (((recBodyIdx j q.1 q.2 v).1, q.2 + 1), (recBodyIdx j q.1 q.2 v).2)) xs fail (st, st.length)).1.1.map (·.1)
      = List.range (Src.iterFirst (fun (q : List (Nat × α) × Nat) v =>
        (((recBodyIdx j q.1 q.2 v).1, q.2 + 1), (recBodyIdx j q.1 q.2 v).2)) xs fail (st, st.length)).1.1.length) ∧
    ((Src.iterFirst (fun (q : List (Nat × α) × Nat) v =>
        (((recBodyIdx j q.1 q.2 v).1, q.2 + 1), (recBodyIdx j q.1 q.2 v).2)) xs fail (st, st.length)).2
      = (Src.iterFirst (recBody j) xs fail acc).2) := by
  induction xs generalizing st acc with
  | nil => exact ⟨h1, h2, rfl⟩
  | cons x xs ih =>
    have hlen : acc.length = st.length := by rw [← h1]; simp
    have h1' : (st ++ [(st.length, x)]).map (·.2) = acc ++ [x] := by simp [h1]
    have h2' : (st ++ [(st.length, x)]).map (·.1) = List.range (st ++ [(st.length, x)]).length := by
      simp [h2, List.range_succ]
    have hl' : (st ++ [(st.length, x)]).length = st.length + 1 := by simp
    have := ih (st ++ [(st.length, x)]) (acc ++ [x]) h1' h2'
    rw [hl'] at this
    simp only [recBodyIdx] at this
    simp only [Src.iterFirst, recBodyIdx, recBody, hlen]
    by_cases hb : contAt j st.length = true
    · simp only [hb, if_true]; exact this
    · simp only [hb]; exact ⟨h1', h2', rfl⟩

end ShpanVerif.Proofs.C04Ext
