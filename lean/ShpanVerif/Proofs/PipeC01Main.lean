/-
C01, part 3d: induction steps of the loop helpers, the induction on `fuel` itself (`allSpec`), and the
terminal operation: `pullLoop` keeps the pipeline opened, `consume` = open (or roll back) ; pull ; close.
-/
import ShpanVerif.Proofs.PipeC01Emit

namespace ShpanVerif.Proofs.PipeC01
open ShpanVerif.Model.Pipe

/-! ### loops over one source -/

theorem skipLoop_step {fuel : Nat} (ih : AllSpec fuel) (n : Nat) (p : Pipe) (w : World)
    (hop : Op p w.isOpen) (hn : (ids p).Nodup) (hb : w.bad = false) :
    EmitOK p w (skipLoop (fuel+1) n p w) := by
  cases n with
  | zero => rw [skipLoop]; exact EmitOK.same _ rfl rfl hb hop
  | succ n =>
    rw [skipLoop]
    have h1 := ih.emitP p w hop hn hb
    generalize Model.Pipe.emitP fuel p w = x at h1
    obtain ⟨res, p1, w1⟩ := x
    have pass : ∀ {β : Type} (res' : Res β), (res'.isOof = false → res.isOof = false) →
        EmitOK p w (res', p1, w1) :=
      fun res' ho => h1.wrap res' ho (fun _ hx => hx) id (fun _ hp => hp)
    cases res with
    | val v =>
      obtain ⟨hid, hk, hop1⟩ := h1 rfl
      exact EmitOK.after hid hk (ih.skipLoop n p1 w1 hop1 (hid ▸ hn) hk.bad)
    | eof => exact pass _ id
    | fail e => exact pass _ id
    | panic b => exact pass _ id
    | oof => exact oofOK

theorem windowFill_step {fuel : Nat} (ih : AllSpec fuel) (s st o buf) (p : Pipe) (w : World)
    (hop : Op p w.isOpen) (hn : (ids p).Nodup) (hb : w.bad = false) :
    EmitOK p w (windowFill (fuel+1) s st o buf true p w) := by
  have win : ∀ {β : Type} (res' : Res β) (buf' d'), EmitOK p w (res', .window s st o buf' d' true p, w) :=
    fun res' _ _ => EmitOK.same _ rfl rfl hb (by simp only [Op]; exact ⟨trivial, hop⟩)
  rw [windowFill]
  split
  · split
    · exact win _ _ _
    have h1 := ih.emitP p w hop hn hb
    generalize Model.Pipe.emitP fuel p w = x at h1
    obtain ⟨res, p1, w1⟩ := x
    have pass : ∀ {β : Type} (res' : Res β) (buf' d'), (res'.isOof = false → res.isOof = false) →
        EmitOK p w (res', .window s st o buf' d' true p1, w1) :=
      fun res' _ _ ho => h1.wrap res' ho (fun _ hx => hx) (fun h => by simp only [ids, h])
        (fun _ hp => by simp only [Op]; exact ⟨trivial, hp⟩)
    cases res with
    | val v =>
      obtain ⟨hid, hk, hop1⟩ := h1 rfl
      exact EmitOK.after hid hk (ih.windowFill s st o (buf ++ [v]) p1 w1 hop1 (hid ▸ hn) hk.bad)
    | eof =>
      dsimp only
      split
      · exact pass _ _ _ (fun _ => rfl)
      · exact pass _ _ _ id
    | fail e => exact pass _ _ _ id
    | panic b => exact pass _ _ _ id
    | oof => exact oofOK
  · exact win _ _ _

theorem clusterRead_step {fuel : Nat} (ih : AllSpec fuel) (k cls want acc nxt last) (p : Pipe) (w : World)
    (hop : Op p w.isOpen) (hn : (ids p).Nodup) (hb : w.bad = false) :
    EmitOK p w (drop2 (clusterRead (fuel+1) k cls want acc nxt last p w)) := by
  have same : ∀ {β : Type} (res' : Res β), EmitOK p w (res', p, w) :=
    fun res' => EmitOK.same _ rfl rfl hb hop
  unfold clusterRead
  split
  · split <;> exact same _
  · split
    · exact same _
    split
    · exact same _
    split
    · exact same _
    have h1 := ih.emitP p w hop hn hb
    generalize Model.Pipe.emitP fuel p w = x at h1
    obtain ⟨res, p1, w1⟩ := x
    have pass : ∀ {β : Type} (res' : Res β), (res'.isOof = false → res.isOof = false) →
        EmitOK p w (res', p1, w1) :=
      fun res' ho => h1.wrap res' ho (fun _ hx => hx) id (fun _ hp => hp)
    cases res with
    | val v =>
      obtain ⟨hid, hk, hop1⟩ := h1 rfl
      exact EmitOK.after hid hk (ih.clusterRead _ _ _ _ _ _ p1 w1 hop1 (hid ▸ hn) hk.bad)
    | eof =>
      obtain ⟨hid, hk, hop1⟩ := h1 rfl
      exact EmitOK.after hid hk (ih.clusterRead _ _ _ _ _ _ p1 w1 hop1 (hid ▸ hn) hk.bad)
    | fail e => exact pass _ id
    | panic b => exact pass _ (fun _ => rfl)
    | oof => exact oofOK

theorem clusterSkip_step {fuel : Nat} (ih : AllSpec fuel) (k cls nxt last) (p : Pipe) (w : World)
    (hop : Op p w.isOpen) (hn : (ids p).Nodup) (hb : w.bad = false) :
    EmitOK p w (drop2 (clusterSkip (fuel+1) k cls nxt last p w)) := by
  unfold clusterSkip
  split
  · exact EmitOK.same _ rfl rfl hb hop
  · exact ih.clusterSkipLoop _ _ _ _ _ p w hop hn hb

theorem clusterSkipLoop_step {fuel : Nat} (ih : AllSpec fuel) (k cls ncls nxt last) (p : Pipe) (w : World)
    (hop : Op p w.isOpen) (hn : (ids p).Nodup) (hb : w.bad = false) :
    EmitOK p w (drop2 (clusterSkipLoop (fuel+1) k cls ncls nxt last p w)) := by
  have same : ∀ {β : Type} (res' : Res β), EmitOK p w (res', p, w) :=
    fun res' => EmitOK.same _ rfl rfl hb hop
  unfold clusterSkipLoop
  split
  · exact same _
  split
  · exact same _
  have h1 := ih.emitP p w hop hn hb
  generalize Model.Pipe.emitP fuel p w = x at h1
  obtain ⟨res, p1, w1⟩ := x
  have pass : ∀ {β : Type} (res' : Res β), (res'.isOof = false → res.isOof = false) →
      EmitOK p w (res', p1, w1) :=
    fun res' ho => h1.wrap res' ho (fun _ hx => hx) id (fun _ hp => hp)
  cases res with
  | val v =>
    dsimp only
    split
    · exact pass _ (fun _ => rfl)
    · obtain ⟨hid, hk, hop1⟩ := h1 rfl
      exact EmitOK.after hid hk (ih.clusterSkipLoop _ _ _ _ _ p1 w1 hop1 (hid ▸ hn) hk.bad)
  | eof => exact pass _ (fun _ => rfl)
  | fail e => exact pass _ id
  | panic b => exact pass _ id
  | oof => exact oofOK

/-! ### loops over the sub streams of zip / merge -/

/-- sub stream `i` of an all-open list was pulled -/
theorem EmitOK.toList {α β : Type} {ps : PipeList} {i : Nat} {p p1 : Pipe} {w w1 : World} {res : Res α}
    (res' : Res β) (h1 : EmitOK p w (res, p1, w1)) (hoof : res'.isOof = false → res.isOof = false)
    (hst : St ps (fun _ => true) w.isOpen) (hget : ps.get? i = some p) (hn : (idsList ps).Nodup) :
    EmitLOK ps w (res', ps.set i p1, w1) := by
  intro hx
  obtain ⟨hid, hk, hop⟩ := h1 (hoof hx)
  exact ⟨idsList_set ps i p p1 hget hid, length_set ps i p1, hk.mono (mem_idsList_of_get ps i p hget),
    St_set_op hst hget hn hk.frame hid hop rfl (fun _ _ => rfl)⟩

theorem zipRow_step {fuel : Nat} (ih : AllSpec fuel) (ps : PipeList) (i : Nat) (acc : List Int) (w : World)
    (hst : St ps (fun _ => true) w.isOpen) (hn : (idsList ps).Nodup) (hb : w.bad = false) :
    EmitLOK ps w (zipRow (fuel+1) ps i acc w) := by
  rw [zipRow]
  split
  · exact fun _ => ⟨rfl, rfl, Keep.refl hb, hst⟩
  rename_i p hget
  have h1 := ih.emitP p w (St_get_op hst hget rfl) (nodup_of_get ps i p hget hn) hb
  generalize Model.Pipe.emitP fuel p w = x at h1
  obtain ⟨res, p1, w1⟩ := x
  cases res with
  | val v =>
    obtain ⟨hids, hlen, hk, hst1⟩ := h1.toList (.val ()) id hst hget hn rfl
    exact EmitLOK.after hids hlen hk (ih.zipRow _ (i+1) _ w1 hst1 (hids ▸ hn) hk.bad)
  | eof => exact h1.toList _ id hst hget hn
  | fail e => exact h1.toList _ id hst hget hn
  | panic b => exact h1.toList _ id hst hget hn
  | oof => exact oofLOK

theorem mergeRefill_step {fuel : Nat} (ih : AllSpec fuel) (ps : PipeList) (i : Nat) (slots : List (Option V))
    (w : World) (hst : St ps (fun _ => true) w.isOpen) (hn : (idsList ps).Nodup) (hb : w.bad = false) :
    EmitLOK ps w (mergeRefill (fuel+1) ps i slots w) := by
  unfold mergeRefill
  split
  · exact fun _ => ⟨rfl, rfl, Keep.refl hb, hst⟩
  rename_i p hget
  split
  · exact ih.mergeRefill ps (i+1) slots w hst hn hb
  split
  · exact fun _ => ⟨rfl, rfl, Keep.refl hb, hst⟩
  have h1 := ih.emitP p w (St_get_op hst hget rfl) (nodup_of_get ps i p hget hn) hb
  generalize Model.Pipe.emitP fuel p w = x at h1
  obtain ⟨res, p1, w1⟩ := x
  cases res with
  | val v =>
    obtain ⟨hids, hlen, hk, hst1⟩ := h1.toList (.val ()) id hst hget hn rfl
    exact EmitLOK.after hids hlen hk (ih.mergeRefill _ (i+1) _ w1 hst1 (hids ▸ hn) hk.bad)
  | eof =>
    obtain ⟨hids, hlen, hk, hst1⟩ := h1.toList (.val ()) (fun _ => rfl) hst hget hn rfl
    exact EmitLOK.after hids hlen hk (ih.mergeRefill _ (i+1) _ w1 hst1 (hids ▸ hn) hk.bad)
  | fail e => exact h1.toList _ id hst hget hn
  | panic b => exact h1.toList _ id hst hget hn
  | oof => exact oofLOK

/-! ### the induction on fuel -/

theorem allSpec_zero : AllSpec 0 where
  openP := fun p w _ _ _ => by rw [openP]; intro h; simp [Res.isOof] at h
  openList := fun ps i w f _ _ _ _ => by rw [openList]; intro h; simp [Res.isOof] at h
  emitP := fun p w _ _ _ => by rw [emitP]; exact oofOK
  skipLoop := fun n p w _ _ _ => by rw [skipLoop]; exact oofOK
  zipRow := fun ps i acc w _ _ _ => by rw [zipRow]; exact oofLOK
  mergeRefill := fun ps i sl w _ _ _ => by rw [mergeRefill]; exact oofLOK
  windowFill := fun s st o buf p w _ _ _ => by rw [windowFill]; exact oofOK
  clusterRead := fun k cls want acc nxt last p w _ _ _ => by rw [clusterRead]; exact oofOK
  clusterSkip := fun k cls nxt last p w _ _ _ => by rw [clusterSkip]; exact oofOK
  clusterSkipLoop := fun k cls ncls nxt last p w _ _ _ => by rw [clusterSkipLoop]; exact oofOK

theorem allSpec_succ {fuel : Nat} (ih : AllSpec fuel) : AllSpec (fuel+1) where
  openP := openP_step ih
  openList := openList_step ih
  emitP := emitP_step ih
  skipLoop := skipLoop_step ih
  zipRow := zipRow_step ih
  mergeRefill := mergeRefill_step ih
  windowFill := windowFill_step ih
  clusterRead := clusterRead_step ih
  clusterSkip := clusterSkip_step ih
  clusterSkipLoop := clusterSkipLoop_step ih

/-- all ten specifications hold for every amount of fuel -/
theorem allSpec : ∀ fuel, AllSpec fuel
  | 0 => allSpec_zero
  | fuel+1 => allSpec_succ (allSpec fuel)

/-! ### the terminal operation -/

theorem pullLoop_spec : ∀ (fuel : Nat) (c : Consumer) (p : Pipe) (acc : List V) (w : World),
    Op p w.isOpen → (ids p).Nodup → w.bad = false →
    EmitOK p w ((pullLoop fuel c p acc w).1, (pullLoop fuel c p acc w).2.2.1, (pullLoop fuel c p acc w).2.2.2)
  | 0, c, p, acc, w, _, _, _ => by rw [pullLoop]; exact oofOK
  | fuel+1, c, p, acc, w, hop, hn, hb => by
    rw [pullLoop]
    split
    · exact EmitOK.same _ rfl rfl hb hop
    have h1 := (allSpec fuel).emitP p w hop hn hb
    generalize Model.Pipe.emitP fuel p w = x at h1
    obtain ⟨res, p1, w1⟩ := x
    have pass : ∀ {β : Type} (res' : Res β), (res'.isOof = false → res.isOof = false) →
        EmitOK p w (res', p1, w1) :=
      fun res' ho => h1.wrap res' ho (fun _ hx => hx) id (fun _ hp => hp)
    cases res with
    | val v =>
      obtain ⟨hid, hk, hop1⟩ := h1 rfl
      dsimp only at hid hk hop1 ⊢
      cases c with
      | collect =>
        exact EmitOK.after hid hk (pullLoop_spec fuel .collect p1 (v :: acc) w1 hop1 (hid ▸ hn) hk.bad)
      | user =>
        dsimp only
        obtain ⟨h, w2, he, ho, hb2⟩ := userCall_eq w1
        rw [he]
        have hk2 : Keep (ids p) w w2 := hk.world ho hb2
        have hop2 : Op p1 w2.isOpen := by rw [ho]; exact hop1
        cases h with
        | none => exact EmitOK.after hid hk2 (pullLoop_spec fuel .user p1 (v :: acc) w2 hop2 (hid ▸ hn) hk2.bad)
        | err => exact fun _ => ⟨hid, hk2, hop2⟩
        | panic b => exact fun _ => ⟨hid, hk2, hop2⟩
    | eof => exact pass _ (fun _ => rfl)
    | fail e => exact pass _ id
    | panic b => exact pass _ id
    | oof => exact oofOK

/-- `ConsumeWithErrAndCtx` from a closed pipeline: out of fuel, or everything is closed again -/
theorem consume_spec (fuel : Nat) (c : Consumer) (p : Pipe) (w : World)
    (hcl : Cl p w.isOpen) (hn : (ids p).Nodup) (hb : w.bad = false) :
    (consume fuel c p w).1 = .oof ∨
      (ids (consume fuel c p w).2.1 = ids p ∧ Keep (ids p) w (consume fuel c p w).2.2 ∧
        Cl (consume fuel c p w).2.1 (consume fuel c p w).2.2.isOpen) := by
  have h1 := (allSpec fuel).openP p w hcl hn hb
  unfold consume
  generalize Model.Pipe.openP fuel p w = x at h1
  obtain ⟨res, p1, w1⟩ := x
  cases res with
  | val u =>
    obtain ⟨hid, hk, hop⟩ := h1 rfl
    simp only [Res.isVal, if_true] at hop
    dsimp only at hid hk hop ⊢
    have hn1 : (ids p1).Nodup := hid ▸ hn
    have h2 := pullLoop_spec fuel c p1 [] w1 hop hn1 hk.bad
    generalize Model.Pipe.pullLoop fuel c p1 [] w1 = y at h2
    obtain ⟨res2, acc, p2, w2⟩ := y
    dsimp only at h2
    have fin : res2.isOof = false → ∀ out : Outcome,
        (out, (closeP p2 w2).1, (closeP p2 w2).2).1 = Outcome.oof ∨
        (ids (out, (closeP p2 w2).1, (closeP p2 w2).2).2.1 = ids p ∧
          Keep (ids p) w (out, (closeP p2 w2).1, (closeP p2 w2).2).2.2 ∧
          Cl (out, (closeP p2 w2).1, (closeP p2 w2).2).2.1 (out, (closeP p2 w2).1, (closeP p2 w2).2).2.2.isOpen) := by
      intro ho out
      obtain ⟨hid2, hk2, hop2⟩ := h2 ho
      obtain ⟨hid3, hk3, hcl3⟩ := closeP_spec p2 w2 hop2 (hid2 ▸ hn1) hk2.bad
      exact Or.inr ⟨hid3.trans (hid2.trans hid), hk.trans ((hid ▸ hk2).trans (hid ▸ hid2 ▸ hk3)), hcl3⟩
    cases res2 with
    | val u => exact fin rfl _
    | eof => exact fin rfl _
    | fail e => exact fin rfl _
    | panic b => exact fin rfl _
    | oof => exact Or.inl rfl
  | fail e =>
    obtain ⟨hid, hk, hc⟩ := h1 rfl
    exact Or.inr ⟨hid, hk, by simpa [Res.isVal] using hc⟩
  | panic b =>
    obtain ⟨hid, hk, hc⟩ := h1 rfl
    exact Or.inr ⟨hid, hk, by simpa [Res.isVal] using hc⟩
  | eof => exact Or.inl rfl
  | oof => exact Or.inl rfl

end ShpanVerif.Proofs.PipeC01
