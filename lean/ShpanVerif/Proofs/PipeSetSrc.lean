/-
`setSrc` (Model/PipeSetSrc.lean) on an operator object: it changes only the contents `xs` of the matching `src` nodes, so
resource ids, the reusable shape, the at-rest predicate (`Closed`) are untouched, and it commutes with erasing the operator
state (`shape`).  Plus the algebra of several replacements (same source: the later one wins; different sources: they
commute; a replacement is absorbed by a later list of replacements that names the same source).
-/
import ShpanVerif.Model.PipeSetSrc
import ShpanVerif.Proofs.PipeShapeFacts

namespace ShpanVerif.Proofs.PipeSetSrc
open ShpanVerif.Model.Pipe ShpanVerif

mutual
theorem ids_setSrc (r : Nat) (xs : List Int) : ∀ p : Pipe, ids (setSrc r xs p) = ids p
  | .src r' ys i => by simp only [setSrc]; split <;> simp [ids]
  | .lc _ p => by simp [setSrc, ids, ids_setSrc r xs p]
  | .map _ p => by simp [setSrc, ids, ids_setSrc r xs p]
  | .filter _ p => by simp [setSrc, ids, ids_setSrc r xs p]
  | .limit _ _ p => by simp [setSrc, ids, ids_setSrc r xs p]
  | .skip _ _ p => by simp [setSrc, ids, ids_setSrc r xs p]
  | .concat ps .. => by simp [setSrc, ids, idsList_setSrc r xs ps]
  | .zip ps _ => by simp [setSrc, ids, idsList_setSrc r xs ps]
  | .merge ps .. => by simp [setSrc, ids, idsList_setSrc r xs ps]
  | .window _ _ _ _ _ _ p => by simp [setSrc, ids, ids_setSrc r xs p]
  | .cluster _ _ _ _ _ _ p => by simp [setSrc, ids, ids_setSrc r xs p]
theorem idsList_setSrc (r : Nat) (xs : List Int) : ∀ ps : PipeList, idsList (setSrcList r xs ps) = idsList ps
  | .nil => by simp [setSrcList, idsList]
  | .cons p ps => by simp [setSrcList, idsList, ids_setSrc r xs p, idsList_setSrc r xs ps]
end

mutual
theorem reusable_setSrc (r : Nat) (xs : List Int) : ∀ p : Pipe, Reusable (setSrc r xs p) ↔ Reusable p
  | .src r' ys i => by simp only [setSrc]; split <;> simp [Reusable]
  | .lc _ p => by simp [setSrc, Reusable, reusable_setSrc r xs p]
  | .map _ p => by simp [setSrc, Reusable, reusable_setSrc r xs p]
  | .filter _ p => by simp [setSrc, Reusable, reusable_setSrc r xs p]
  | .limit .. => by simp [setSrc, Reusable]
  | .skip .. => by simp [setSrc, Reusable]
  | .concat ps .. => by simp [setSrc, Reusable, reusableList_setSrc r xs ps]
  | .zip ps _ => by simp [setSrc, Reusable, reusableList_setSrc r xs ps]
  | .merge ps .. => by simp [setSrc, Reusable, reusableList_setSrc r xs ps]
  | .window .. => by simp [setSrc, Reusable]
  | .cluster .. => by simp [setSrc, Reusable]
theorem reusableList_setSrc (r : Nat) (xs : List Int) :
    ∀ ps : PipeList, ReusableList (setSrcList r xs ps) ↔ ReusableList ps
  | .nil => by simp [setSrcList, ReusableList]
  | .cons p ps => by simp [setSrcList, ReusableList, reusable_setSrc r xs p, reusableList_setSrc r xs ps]
end

mutual
theorem closed_setSrc (r : Nat) (xs : List Int) : ∀ p : Pipe, Closed (setSrc r xs p) ↔ Closed p
  | .src r' ys i => by simp only [setSrc]; split <;> simp [Closed]
  | .lc _ p => by simp [setSrc, Closed, closed_setSrc r xs p]
  | .map _ p => by simp [setSrc, Closed, closed_setSrc r xs p]
  | .filter _ p => by simp [setSrc, Closed, closed_setSrc r xs p]
  | .limit _ _ p => by simp [setSrc, Closed, closed_setSrc r xs p]
  | .skip _ _ p => by simp [setSrc, Closed, closed_setSrc r xs p]
  | .concat ps .. => by simp [setSrc, Closed, closedList_setSrc r xs ps]
  | .zip ps _ => by simp [setSrc, Closed, closedList_setSrc r xs ps]
  | .merge ps .. => by simp [setSrc, Closed, closedList_setSrc r xs ps]
  | .window _ _ _ _ _ _ p => by simp [setSrc, Closed, closed_setSrc r xs p]
  | .cluster _ _ _ _ _ _ p => by simp [setSrc, Closed, closed_setSrc r xs p]
theorem closedList_setSrc (r : Nat) (xs : List Int) : ∀ ps : PipeList, ClosedList (setSrcList r xs ps) ↔ ClosedList ps
  | .nil => by simp [setSrcList, ClosedList]
  | .cons p ps => by simp [setSrcList, ClosedList, closed_setSrc r xs p, closedList_setSrc r xs ps]
end

mutual
/-- replacing contents and erasing operator state commute -/
theorem shape_setSrc (r : Nat) (xs : List Int) : ∀ p : Pipe, shape (setSrc r xs p) = setSrc r xs (shape p)
  | .src r' ys i => by simp only [setSrc, shape]; split <;> simp [shape]
  | .lc _ p => by simp [setSrc, shape, shape_setSrc r xs p]
  | .map _ p => by simp [setSrc, shape, shape_setSrc r xs p]
  | .filter _ p => by simp [setSrc, shape, shape_setSrc r xs p]
  | .limit _ _ p => by simp [setSrc, shape, shape_setSrc r xs p]
  | .skip _ _ p => by simp [setSrc, shape, shape_setSrc r xs p]
  | .concat ps .. => by simp [setSrc, shape, shapeList_setSrc r xs ps]
  | .zip ps _ => by simp [setSrc, shape, shapeList_setSrc r xs ps]
  | .merge ps .. => by simp [setSrc, shape, shapeList_setSrc r xs ps]
  | .window _ _ _ _ _ _ p => by simp [setSrc, shape, shape_setSrc r xs p]
  | .cluster _ _ _ _ _ _ p => by simp [setSrc, shape, shape_setSrc r xs p]
theorem shapeList_setSrc (r : Nat) (xs : List Int) :
    ∀ ps : PipeList, shapeList (setSrcList r xs ps) = setSrcList r xs (shapeList ps)
  | .nil => by simp [setSrcList, shapeList]
  | .cons p ps => by simp [setSrcList, shapeList, shape_setSrc r xs p, shapeList_setSrc r xs ps]
end

mutual
/-- same source twice: the later contents win -/
theorem setSrc_setSrc (r : Nat) (xs ys : List Int) : ∀ p : Pipe, setSrc r xs (setSrc r ys p) = setSrc r xs p
  | .src r' zs i => by
      by_cases h : (r' == r) = true <;> simp [setSrc, h]
  | .lc _ p => by simp [setSrc, setSrc_setSrc r xs ys p]
  | .map _ p => by simp [setSrc, setSrc_setSrc r xs ys p]
  | .filter _ p => by simp [setSrc, setSrc_setSrc r xs ys p]
  | .limit _ _ p => by simp [setSrc, setSrc_setSrc r xs ys p]
  | .skip _ _ p => by simp [setSrc, setSrc_setSrc r xs ys p]
  | .concat ps .. => by simp [setSrc, setSrcList_setSrcList r xs ys ps]
  | .zip ps _ => by simp [setSrc, setSrcList_setSrcList r xs ys ps]
  | .merge ps .. => by simp [setSrc, setSrcList_setSrcList r xs ys ps]
  | .window _ _ _ _ _ _ p => by simp [setSrc, setSrc_setSrc r xs ys p]
  | .cluster _ _ _ _ _ _ p => by simp [setSrc, setSrc_setSrc r xs ys p]
theorem setSrcList_setSrcList (r : Nat) (xs ys : List Int) :
    ∀ ps : PipeList, setSrcList r xs (setSrcList r ys ps) = setSrcList r xs ps
  | .nil => by simp [setSrcList]
  | .cons p ps => by simp [setSrcList, setSrc_setSrc r xs ys p, setSrcList_setSrcList r xs ys ps]
end

mutual
/-- different sources: the replacements commute -/
theorem setSrc_comm (r r' : Nat) (h : r ≠ r') (xs ys : List Int) :
    ∀ p : Pipe, setSrc r xs (setSrc r' ys p) = setSrc r' ys (setSrc r xs p)
  | .src q zs i => by
      by_cases h1 : (q == r) = true <;> by_cases h2 : (q == r') = true <;> simp [setSrc, h1, h2]
      exact absurd ((beq_iff_eq.mp h1).symm.trans (beq_iff_eq.mp h2)) h
  | .lc _ p => by simp [setSrc, setSrc_comm r r' h xs ys p]
  | .map _ p => by simp [setSrc, setSrc_comm r r' h xs ys p]
  | .filter _ p => by simp [setSrc, setSrc_comm r r' h xs ys p]
  | .limit _ _ p => by simp [setSrc, setSrc_comm r r' h xs ys p]
  | .skip _ _ p => by simp [setSrc, setSrc_comm r r' h xs ys p]
  | .concat ps .. => by simp [setSrc, setSrcList_comm r r' h xs ys ps]
  | .zip ps _ => by simp [setSrc, setSrcList_comm r r' h xs ys ps]
  | .merge ps .. => by simp [setSrc, setSrcList_comm r r' h xs ys ps]
  | .window _ _ _ _ _ _ p => by simp [setSrc, setSrc_comm r r' h xs ys p]
  | .cluster _ _ _ _ _ _ p => by simp [setSrc, setSrc_comm r r' h xs ys p]
theorem setSrcList_comm (r r' : Nat) (h : r ≠ r') (xs ys : List Int) :
    ∀ ps : PipeList, setSrcList r xs (setSrcList r' ys ps) = setSrcList r' ys (setSrcList r xs ps)
  | .nil => by simp [setSrcList]
  | .cons p ps => by simp [setSrcList, setSrc_comm r r' h xs ys p, setSrcList_comm r r' h xs ys ps]
end

/-! ### several sources at once -/

theorem setSrcAll_nil (p : Pipe) : setSrcAll [] p = p := rfl
theorem setSrcAll_cons (r : Nat) (xs : List Int) (cs : List (Nat × List Int)) (p : Pipe) :
    setSrcAll ((r, xs) :: cs) p = setSrcAll cs (setSrc r xs p) := rfl

theorem ids_setSrcAll : ∀ (cs : List (Nat × List Int)) (p : Pipe), ids (setSrcAll cs p) = ids p
  | [], _ => rfl
  | (r, xs) :: cs, p => by rw [setSrcAll_cons, ids_setSrcAll cs, ids_setSrc]

theorem reusable_setSrcAll : ∀ (cs : List (Nat × List Int)) (p : Pipe), Reusable (setSrcAll cs p) ↔ Reusable p
  | [], _ => Iff.rfl
  | (r, xs) :: cs, p => by rw [setSrcAll_cons, reusable_setSrcAll cs, reusable_setSrc]

theorem closed_setSrcAll : ∀ (cs : List (Nat × List Int)) (p : Pipe), Closed (setSrcAll cs p) ↔ Closed p
  | [], _ => Iff.rfl
  | (r, xs) :: cs, p => by rw [setSrcAll_cons, closed_setSrcAll cs, closed_setSrc]

theorem shape_setSrcAll : ∀ (cs : List (Nat × List Int)) (p : Pipe), shape (setSrcAll cs p) = setSrcAll cs (shape p)
  | [], _ => rfl
  | (r, xs) :: cs, p => by rw [setSrcAll_cons, shape_setSrcAll cs, shape_setSrc]; rfl

/-- same description (up to operator state) before ⇒ same description after the same replacements -/
theorem shape_setSrcAll_congr (cs : List (Nat × List Int)) {p q : Pipe} (h : shape p = shape q) :
    shape (setSrcAll cs p) = shape (setSrcAll cs q) := by
  rw [shape_setSrcAll, shape_setSrcAll, h]

/-- a replacement is absorbed by a later list of replacements that names the same source -/
theorem setSrcAll_absorb : ∀ (cs : List (Nat × List Int)) (p : Pipe) (r : Nat) (ys : List Int),
    r ∈ cs.map (·.1) → setSrcAll cs (setSrc r ys p) = setSrcAll cs p
  | [], _, _, _, h => by simp at h
  | (r', xs) :: cs, p, r, ys, h => by
      rw [setSrcAll_cons, setSrcAll_cons]
      by_cases he : r' = r
      · subst he; rw [setSrc_setSrc]
      · have hm : r ∈ cs.map (·.1) := by
          simp only [List.map_cons, List.mem_cons] at h
          rcases h with h | h
          · exact absurd h.symm he
          · exact h
        rw [setSrc_comm r' r he, setSrcAll_absorb cs _ r ys hm]

/-- … and so is a whole earlier list -/
theorem setSrcAll_absorb_all (cs : List (Nat × List Int)) : ∀ (ds : List (Nat × List Int)) (p : Pipe),
    (∀ r ∈ ds.map (·.1), r ∈ cs.map (·.1)) → setSrcAll cs (setSrcAll ds p) = setSrcAll cs p
  | [], _, _ => rfl
  | (r, ys) :: ds, p, h => by
      rw [setSrcAll_cons, setSrcAll_absorb_all cs ds _ (fun x hx => h x (by simp [hx])),
        setSrcAll_absorb cs p r ys (h r (by simp))]

end ShpanVerif.Proofs.PipeSetSrc
