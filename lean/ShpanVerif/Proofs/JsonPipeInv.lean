/-
Invariants, measure and deadlock freedom of the JSON-pipe transition system (`Model/JsonPipe.lean`), over ALL labels.
-/
import ShpanVerif.Model.JsonPipe

namespace ShpanVerif.Proofs.JsonPipe
open ShpanVerif.Model.Conc ShpanVerif.Model.JsonPipe

macro "step_cases" hs:ident : tactic =>
  `(tactic| (cases ‹Label› <;> simp only [step] at $hs:ident <;> (repeat' split at $hs:ident) <;>
      (try (simp at $hs:ident)) <;> (try (subst $hs:ident))))

def pOpenPc : WPc → Bool
  | .check | .inEmit | .w1 _ | .w2 _ | .closeP _ => true
  | _ => false
/-- pcs on the way to a clean close of the write end -/
def okPc : WPc → Bool
  | .closeP true | .closed true | .wEnd | .pwClose true => true
  | _ => false
def livePc : WPc → Bool
  | .inEmit | .w1 _ | .w2 _ => true
  | _ => false

/-- pcs after the inner terminal is over (P was closed, or never opened) -/
def postPc : WPc → Bool
  | .closed _ | .wEnd | .cancelC | .pwClose _ | .done => true
  | _ => false

/-- pcs after the inner terminal failed -/
def failPc : WPc → Bool
  | .closeP false | .closed false | .cancelC | .pwClose false | .done => true
  | _ => false

structure Basic (cfg : Cfg) (s : St) : Prop where
  cursor_le : s.cursor ≤ cfg.n
  emitting_eq : s.emitting = if s.w = .inEmit then 1 else 0
  opened : pOpenPc s.w = true → s.pOpened = true ∧ s.pClosed = false
  not_yet : s.w = .opening → s.pOpened = false ∧ s.pClosed = false
  noBadW : s.badWindow = false
  noBadO : s.badOverlap = false
  pw_iff : s.pwClosed ≠ none ↔ s.w = .done
  prClosed_iff : s.prClosed = true ↔ (s.t = .cancelS ∨ s.t = .join ∨ s.t = .ret)
  sCancel : s.sCancelled = true → (s.t = .join ∨ s.t = .ret)
  ret_s : cfg.fix25 = true → (s.t = .join ∨ s.t = .ret) → s.sCancelled = true
  join_fix : s.t = .join → cfg.fixJoin = true
  /-- fix B3: the function returns only after the writer goroutine is gone -/
  ret_done : cfg.fixJoin = true → s.t = .ret → s.w = .done
  dropped_pc : s.dropped = true → failPc s.w = true ∧ s.pwClosed ≠ some true
  ok_cursor : (okPc s.w = true ∨ s.pwClosed = some true) → s.cursor = cfg.n
  closes_eq : s.closes = if s.pClosed then 1 else 0
  post : postPc s.w = true → s.pOpened = s.pClosed

theorem basic_init (cfg : Cfg) : Basic cfg (init cfg) := by
  constructor <;> simp [init, pOpenPc, okPc, livePc, failPc, postPc]

set_option maxHeartbeats 4000000 in
theorem basic_step {cfg : Cfg} {s s' : St} {l : Label} (h : Basic cfg s) (hs : step cfg s l = some s') :
    Basic cfg s' := by
  obtain ⟨h1, h2, h3, h4, h5, h6, h7, h8, h9, h10, h10a, h10b, h11, h12, h13, h14⟩ := h
  step_cases hs <;>
    (constructor <;> (try (simp_all [St.sctx, pOpenPc, okPc, livePc, failPc, postPc])) <;> (try grind))

theorem basic {cfg : Cfg} {s : St} (hr : Reachable (sys cfg) s) : Basic cfg s :=
  invariant (sys := sys cfg) (basic_init cfg) (fun _ _ _ h hs => basic_step h hs) s hr

theorem count_append_single (i j : Nat) (l : List Nat) : (l ++ [j]).count i = l.count i + (if i = j then 1 else 0) := by
  simp only [List.count_append, List.count_cons, List.count_nil, beq_iff_eq]
  grind

structure Conserve (s : St) : Prop where
  le : ∀ i, cnt i s ≤ if i < s.cursor then 1 else 0
  eq : s.dropped = false → ∀ i, cnt i s = if i < s.cursor then 1 else 0

set_option maxHeartbeats 2000000 in
theorem conserve_step {cfg : Cfg} {s s' : St} {l : Label} (h : Conserve s) (hs : step cfg s l = some s') :
    Conserve s' := by
  obtain ⟨a1, a2⟩ := h
  step_cases hs <;> (refine ⟨fun i => ?_, fun hd i => ?_⟩ <;> have hi := a1 i <;>
    (try have hj := a2 (by simpa using hd) i) <;> clear a1 a2 <;>
    simp_all [cnt, inHand, count_append_single] <;> grind)

theorem conserve {cfg : Cfg} {s : St} (hr : Reachable (sys cfg) s) : Conserve s :=
  invariant (sys := sys cfg) (P := Conserve) (by refine ⟨fun i => ?_, fun _ i => ?_⟩ <;> simp [sys, init, cnt, inHand])
    (fun _ _ _ h hs => conserve_step h hs) s hr

/-- A clean end of the pipe (the reader sees EOF after valid JSON) means every element was written and read. -/
theorem clean_complete {cfg : Cfg} {s : St} (hr : Reachable (sys cfg) s) (h : s.pwClosed = some true) :
    ∀ i, i < cfg.n → s.written.count i = 1 := by
  intro i hi
  have hb := basic hr
  have hnd : s.dropped = false := by
    cases hd : s.dropped
    · rfl
    · exact absurd h (hb.dropped_pc hd).2
  have hcur := hb.ok_cursor (Or.inr h)
  have hdone := hb.pw_iff.mp (by simp [h])
  have := (conserve hr).eq hnd i
  simpa [cnt, inHand, hdone, hcur, hi] using this

/-! ### measure -/

def wW : WPc → Nat
  | .done => 0 | .pwClose _ => 1 | .cancelC => 2 | .wEnd => 3 | .closed _ => 4 | .closeP _ => 5 | .inEmit => 6
  | .check => 7 | .w2 _ => 8 | .w1 _ => 9 | .opening => 10

def tW : TPc → Nat
  | .ret => 0 | .join => 1 | .cancelS => 2 | .prClose => 3 | .inCons => 4

def mu (cfg : Cfg) (s : St) : Nat :=
  20 * (cfg.n - s.cursor) + 20 * s.errBudget + wW s.w + tW s.t + (if s.ctx0 then 0 else 1)

set_option maxHeartbeats 2000000 in
theorem mu_step {cfg : Cfg} {s s' : St} {l : Label} (hs : step cfg s l = some s') : mu cfg s' < mu cfg s := by
  step_cases hs <;> simp_all [mu, wW, tW] <;> grind

theorem run_length_le {cfg : Cfg} : ∀ (ls : List Label) (s s' : St), run (step cfg) s ls = some s' →
    ls.length + mu cfg s' ≤ mu cfg s := by
  intro ls
  induction ls with
  | nil => intro s s' h; simp [run] at h; subst h; simp
  | cons l ls ih =>
    intro s s' h
    simp only [run] at h
    cases hst : step cfg s l with
    | none => simp [hst] at h
    | some s1 =>
      simp only [hst] at h
      have := ih s1 s' h
      have := mu_step hst
      simp only [List.length_cons]
      omega

/-! ### deadlock freedom -/

/-- Owed: library steps, the return of P.Emit, the return of the consumer callback.  Not owed: the consumer's reads,
    cancel, injected failures. -/
def obliged : Label → Bool
  | .cancel | .wOpenErr | .wEmitErr | .rRead => false
  | _ => true

theorem progress {cfg : Cfg} {s : St} (hb : Basic cfg s) (hnf : final s = false) :
    ∃ l, obliged l = true ∧ (step cfg s l).isSome = true := by
  match ht : s.t with
  | .inCons => exact ⟨.rReturn, rfl, by simp [step, ht]⟩
  | .prClose => exact ⟨.tPrClose, rfl, by simp [step, ht]⟩
  | .cancelS => exact ⟨.tCancelS, rfl, by simp [step, ht]⟩
  | .join =>
    -- the function waits for the writer: the read end is closed and streamCtx cancelled, so the writer moves until done
    have hpr : s.prClosed = true := hb.prClosed_iff.mpr (Or.inr (Or.inl ht))
    match hw : s.w with
    | .done => exact ⟨.tJoin, rfl, by simp [step, ht, hw]⟩
    | .opening => exact ⟨.wOpenOk, rfl, by simp [step, hw]⟩
    | .check => exact ⟨.wCheck, rfl, by by_cases h : s.sctx = true <;> simp [step, hw, h]⟩
    | .inEmit =>
      have := hb.cursor_le
      by_cases h : s.cursor < cfg.n
      · exact ⟨.wEmitVal, rfl, by simp [step, hw, h]⟩
      · exact ⟨.wEmitEof, rfl, by simp [step, hw]; omega⟩
    | .w1 i => exact ⟨.wWrFail, rfl, by simp [step, hw, hpr]⟩
    | .w2 i => exact ⟨.wWrFail, rfl, by simp [step, hw, hpr]⟩
    | .wEnd => exact ⟨.wWrFail, rfl, by simp [step, hw, hpr]⟩
    | .closeP ok => exact ⟨.wCloseP, rfl, by simp [step, hw]⟩
    | .closed ok => exact ⟨.wClosed, rfl, by cases ok <;> simp [step, hw]⟩
    | .cancelC => exact ⟨.wCancelC, rfl, by simp [step, hw]⟩
    | .pwClose b => exact ⟨.wPwClose, rfl, by simp [step, hw]⟩
  | .ret =>
    have hpr : s.prClosed = true := hb.prClosed_iff.mpr (Or.inr (Or.inr ht))
    match hw : s.w with
    | .done => simp [final, ht, hw] at hnf
    | .opening => exact ⟨.wOpenOk, rfl, by simp [step, hw]⟩
    | .check => exact ⟨.wCheck, rfl, by by_cases h : s.sctx = true <;> simp [step, hw, h]⟩
    | .inEmit =>
      have := hb.cursor_le
      by_cases h : s.cursor < cfg.n
      · exact ⟨.wEmitVal, rfl, by simp [step, hw, h]⟩
      · exact ⟨.wEmitEof, rfl, by simp [step, hw]; omega⟩
    | .w1 i => exact ⟨.wWrFail, rfl, by simp [step, hw, hpr]⟩
    | .w2 i => exact ⟨.wWrFail, rfl, by simp [step, hw, hpr]⟩
    | .wEnd => exact ⟨.wWrFail, rfl, by simp [step, hw, hpr]⟩
    | .closeP ok => exact ⟨.wCloseP, rfl, by simp [step, hw]⟩
    | .closed ok => exact ⟨.wClosed, rfl, by cases ok <;> simp [step, hw]⟩
    | .cancelC => exact ⟨.wCancelC, rfl, by simp [step, hw]⟩
    | .pwClose b => exact ⟨.wPwClose, rfl, by simp [step, hw]⟩

end ShpanVerif.Proofs.JsonPipe
