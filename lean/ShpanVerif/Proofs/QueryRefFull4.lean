/-
C11 helper (full reference equality, part 4): the join datasource against the relational joins of the reference
(`joinMetasRef`, `joinTables`), through the list-level specification of C09 (`innerJoinN`, `leftJoinN`, `fullJoinN`).
-/
import ShpanVerif.Proofs.QueryRefFull2
import ShpanVerif.Proofs.QueryRefFull3
import ShpanVerif.Props.C11

namespace ShpanVerif.Proofs.Query
open ShpanVerif.Model.Query ShpanVerif.Model.Query.Ref ShpanVerif.Model.JoinSpec ShpanVerif.Props.C10 List

variable {D : Type}

/-! ## metadata -/

theorem joinMetasOne_err (nb : Bool) : ∀ {fms : List FieldMeta} {seen : List String} {e : PlanErr},
    joinMetasOne nb fms seen = .error e → (∀ m ∈ fms, m.urn ≠ "" ∧ m.dt.valid = true) →
    ¬ ((fms.map (·.urn)).Nodup ∧ ∀ m ∈ fms, m.urn ∉ seen)
  | [], _, _, h, _ => by simp [joinMetasOne] at h
  | m :: ms, seen, e, h, hv => by
    simp only [joinMetasOne] at h
    split at h
    · rename_i hs
      intro hc
      exact hc.2 m (by simp) (by simpa using hs)
    · have hm := hv m (by simp)
      have hok : ∃ m', (if (nb && m.required) = true then newFieldMeta m.urn m.dt false m.unit m.custom
          else Except.ok m) = .ok m' := by
        split
        · simp [newFieldMeta, hm.1, hm.2]
        · exact ⟨m, rfl⟩
      obtain ⟨m', hm'⟩ := hok
      rw [hm'] at h
      simp only at h
      split at h
      · rename_i e' hrec
        have ih := joinMetasOne_err nb hrec (fun x hx => hv x (mem_cons_of_mem _ hx))
        intro hc
        apply ih
        have hnd := nodup_cons.mp (by simpa using hc.1 : (m.urn :: ms.map (·.urn)).Nodup)
        refine ⟨hnd.2, fun x hx hmem => ?_⟩
        rcases mem_cons.mp hmem with heq | hmem
        · exact hnd.1 (mem_map.mpr ⟨x, hx, heq⟩)
        · exact hc.2 x (mem_cons_of_mem _ hx) hmem
      · simp at h

theorem joinMetas_err (jt : JoinType) (n : Nat) : ∀ (idx : Nat) (lists : List (List FieldMeta)) (seen : List String)
    (e : PlanErr), joinMetas jt n idx lists seen = .error e →
    (∀ l ∈ lists, ∀ m ∈ l, m.urn ≠ "" ∧ m.dt.valid = true) →
    ¬ ((lists.flatten.map (·.urn)).Nodup ∧ ∀ u ∈ lists.flatten.map (·.urn), u ∉ seen)
  | _, [], _, _, h, _ => by simp [joinMetas] at h
  | idx, fms :: rest, seen, e, h, hv => by
    simp only [joinMetas] at h
    split at h
    · rename_i e1 h1
      have := joinMetasOne_err _ h1 (hv fms (by simp))
      intro hc
      apply this
      simp only [flatten_cons, map_append] at hc
      refine ⟨(nodup_append.mp hc.1).1, fun m hm => hc.2 m.urn (mem_append_left _ (mem_map.mpr ⟨m, hm, rfl⟩))⟩
    · rename_i o1 seen1 h1
      split at h
      · rename_i e2 h2
        obtain ⟨_, hs1, _, _⟩ := joinMetasOne_ok _ h1
        have ih := joinMetas_err jt n (idx + 1) rest seen1 e2 h2 (fun l hl => hv l (mem_cons_of_mem _ hl))
        intro hc
        apply ih
        simp only [flatten_cons, map_append] at hc
        have hna := nodup_append.mp hc.1
        refine ⟨hna.2.1, fun u hu hmem => ?_⟩
        rcases (hs1 u).mp hmem with hmem | hmem
        · exact hc.2 u (mem_append_right _ hu) hmem
        · exact hna.2.2 u hmem u hu rfl
      · simp at h

theorem relax_true (m : FieldMeta) : relax true m = { m with required := false } := by
  simp only [relax, Bool.true_and]
  split
  · rfl
  · rename_i h
    have : m.required = false := by simpa using h
    cases m
    simp_all

theorem relax_false (m : FieldMeta) : relax false m = m := by simp [relax]

theorem relaxB_zipIdx (jt : JoinType) (n : Nat) : ∀ (lists : List (List FieldMeta)) (idx : Nat),
    ((lists.zipIdx idx).map fun p =>
      if ((jt == .full && decide (n > 1)) || (jt == .left && decide (p.2 > 0))) = true
      then p.1.map fun m => { m with required := false } else p.1) =
    relaxB (flagsFrom jt n idx lists.length) lists
  | [], _ => rfl
  | l :: lists, idx => by
    simp only [zipIdx_cons, map_cons, length_cons, flagsFrom, relaxB]
    congr 1
    · simp only [nullableAt]
      split
      · rename_i h
        rw [h]
        exact map_congr_left fun m _ => (relax_true m).symm
      · rename_i h
        have : ((jt == JoinType.full && decide (n > 1)) || (jt == JoinType.left && decide (idx > 0))) = false := by
          simpa using h
        rw [this, show (relax false : FieldMeta → FieldMeta) = id from funext relax_false, map_id]
    · exact relaxB_zipIdx jt n lists (idx + 1)

/-- `joinMetas` against `joinMetasRef`, for valid source metadata -/
theorem joinMetas_ref (jt : JoinType) (lists : List (List FieldMeta))
    (hv : ∀ l ∈ lists, ∀ m ∈ l, m.urn ≠ "" ∧ m.dt.valid = true) :
    match joinMetas jt lists.length 0 lists [] with
    | .ok metas => joinMetasRef jt lists = some metas
    | .error _ => joinMetasRef jt lists = none := by
  cases hj : joinMetas jt lists.length 0 lists [] with
  | error e =>
    have := joinMetas_err jt lists.length 0 lists [] e hj hv
    have hnd : ¬ (lists.flatten.map (·.urn)).Nodup := fun h => this ⟨h, by simp⟩
    simp only [joinMetasRef, hnd, decide_false, Bool.not_false, if_true]
  | ok metas =>
    obtain ⟨rfl, hnd, _⟩ := joinMetas_ok jt lists.length 0 _ [] metas hj
    rw [relaxB_urns _ _ (by simp [flagsFrom_length])] at hnd
    simp only [joinMetasRef, hnd, decide_true, Bool.not_true, Bool.false_eq_true, if_false, Option.some.injEq]
    rw [relaxB_zipIdx jt lists.length lists 0]

/-! ## rows -/

theorem collect_some_eq {α : Type} : ∀ {s : List (Option α)} {l : List α}, collect s = some l → s = l.map some
  | [], l, h => by simp [collect] at h; subst h; rfl
  | none :: _, _, h => by simp [collect] at h
  | some a :: s, l, h => by
    simp only [collect, Option.map_eq_some_iff] at h
    obtain ⟨l', hl', rfl⟩ := h
    rw [collect_some_eq hl']
    rfl

theorem collect_map_some_map {α β : Type} (f : α → β) (l : List α) :
    collect ((l.map some).map fun e => e.map f) = some (l.map f) := by
  rw [collect_map_map, collect_map_some]
  rfl

abbrev rts : Row D → Int := fun r => r.ts

theorem lookupTs_eq (t : Int) (rows : List (Row D)) : lookupTs t rows = lookupKey rts t rows := rfl

theorem allSome_cases {β : Type} : ∀ (xs : List (Option β)),
    (allSome xs = none ∧ xs.all Option.isSome = false) ∨ ∃ ys, allSome xs = some ys ∧ xs = ys.map some
  | [] => Or.inr ⟨[], rfl, rfl⟩
  | none :: _ => Or.inl ⟨rfl, by simp⟩
  | some a :: xs => by
    rcases allSome_cases xs with ⟨h1, h2⟩ | ⟨ys, h1, h2⟩
    · exact Or.inl ⟨by simp [allSome, h1], by simp [h2]⟩
    · exact Or.inr ⟨a :: ys, by simp [allSome, h1], by simp [h2]⟩

theorem padded_of_some (t : Int) : ∀ (others : List (List FieldMeta × List (Row D))) (ys : List (Row D)),
    others.map (fun o => lookupTs t o.2) = ys.map some →
    others.map (fun o => padded o.1.length (lookupTs t o.2)) = ys.map (·.vals)
  | [], [], _ => rfl
  | [], _ :: _, h => by simp at h
  | _ :: _, [], h => by simp at h
  | o :: others, y :: ys, h => by
    simp only [map_cons, cons.injEq] at h
    rw [map_cons, map_cons, padded_of_some t others ys h.2, h.1]
    rfl

theorem padVals_padded (t : Int) : ∀ (others : List (List FieldMeta × List (Row D))),
    ((others.map fun o => lookupTs t o.2).zip (others.map (·.1.length))).map padVals =
      others.map fun o => padded o.1.length (lookupTs t o.2)
  | [] => rfl
  | o :: others => by
    simp only [map_cons, zip_cons_cons, padVals_padded t others, cons.injEq, and_true]
    cases lookupTs t o.2 <;> rfl

theorem insertSorted_eq : ∀ (t : Int) (l : List Int), insertSorted t l = insertKey t l
  | _, [] => rfl
  | t, a :: r => by
    simp only [insertSorted, insertKey, insertSorted_eq t r]

theorem foldl_insert_spec : ∀ (ts acc : List Int), acc.Pairwise (· < ·) →
    (ts.foldl (fun acc t => insertSorted t acc) acc).Pairwise (· < ·) ∧
    ∀ k, k ∈ ts.foldl (fun acc t => insertSorted t acc) acc ↔ k ∈ ts ∨ k ∈ acc
  | [], acc, h => ⟨h, by simp⟩
  | t :: ts, acc, h => by
    simp only [foldl_cons]
    obtain ⟨h1, h2⟩ := foldl_insert_spec ts (insertSorted t acc) (by
      rw [insertSorted_eq]; exact Join.strict_insertKey t acc h)
    refine ⟨h1, fun k => ?_⟩
    rw [h2 k, insertSorted_eq, Join.mem_insertKey, mem_cons]
    constructor
    · rintro (h | h | h)
      · exact Or.inl (Or.inr h)
      · exact Or.inl (Or.inl h)
      · exact Or.inr h
    · rintro ((h | h) | h)
      · exact Or.inr (Or.inl h)
      · exact Or.inl h
      · exact Or.inr (Or.inr h)

theorem unionTs_eq (ls : List (List (Row D))) : unionTs ls = keysUnion rts ls := by
  obtain ⟨h1, h2⟩ := foldl_insert_spec ((ls.map fun l => l.map (·.ts)).flatten) [] Pairwise.nil
  apply Join.strict_ext _ _ h1 (Join.strict_keysUnion rts ls)
  intro k
  rw [h2 k, Join.mem_keysUnion]
  simp only [not_mem_nil, or_false, mem_flatten, mem_map]
  constructor
  · rintro ⟨l', ⟨l, hl, rfl⟩, hk⟩
    obtain ⟨a, ha, rfl⟩ := mem_map.mp hk
    exact ⟨l, hl, a, ha, rfl⟩
  · rintro ⟨l, hl, a, ha, rfl⟩
    exact ⟨l.map (·.ts), ⟨l, hl, rfl⟩, mem_map.mpr ⟨a, ha, rfl⟩⟩

/-- the row a full join builds for the key `k` carries the timestamp `k` -/
theorem full_ts (k : Int) (ls : List (List (Row D))) (hk : ∃ l ∈ ls, ∃ a ∈ l, a.ts = k) :
    ((((ls.map (lookupKey rts k)).filterMap id).head?.map (·.ts)).getD 0) = k := by
  have hall : ∀ r ∈ (ls.map (lookupKey rts k)).filterMap id, r.ts = k := by
    intro r hr
    simp only [mem_filterMap, mem_map, id_eq] at hr
    obtain ⟨_, ⟨l, _, rfl⟩, hl⟩ := hr
    have := find?_some hl
    simpa using this
  have hne : (ls.map (lookupKey rts k)).filterMap id ≠ [] := by
    obtain ⟨l, hl, a, ha, hak⟩ := hk
    have : (lookupKey rts k l).isSome := by
      simp only [lookupKey, find?_isSome]
      exact ⟨a, ha, by simpa using hak⟩
    obtain ⟨r, hr⟩ := Option.isSome_iff_exists.mp this
    intro hnil
    have : r ∈ (ls.map (lookupKey rts k)).filterMap id := by
      simp only [mem_filterMap, mem_map, id_eq]
      exact ⟨some r, ⟨l, hl, hr⟩, rfl⟩
    rw [hnil] at this
    simp at this
  cases hf : (ls.map (lookupKey rts k)).filterMap id with
  | nil => exact absurd hf hne
  | cons r rest =>
    have := hall r (by rw [hf]; simp)
    simp [this]

/-- the joined stream of failure-free, strictly increasing sources is the relational join of the reference -/
theorem joinStreams_pure (jt : JoinType) (tables : List (List FieldMeta × List (Row D)))
    (hs : ∀ t ∈ tables, StrictInc rts t.2) :
    collect (joinStreams jt (tables.map fun t => (t.1, t.2.map some))) = some (joinTables jt tables) := by
  have hsrcs : (tables.map fun t => ((t.1, t.2.map some) : RResult D)).map (·.2) =
      (tables.map (·.2)).map (·.map some) := by
    simp [map_map, Function.comp_def]
  have hwidths : (tables.map fun t => ((t.1, t.2.map some) : RResult D)).map (·.1.length) =
      tables.map (·.1.length) := by
    simp [map_map, Function.comp_def]
  have hs' : ∀ l ∈ tables.map (·.2), StrictInc rts l := by
    intro l hl
    obtain ⟨t, ht, rfl⟩ := mem_map.mp hl
    exact hs t ht
  cases jt with
  | inner =>
    simp only [joinStreams, hsrcs]
    rw [show (fun r : Row D => r.ts) = rts from rfl, innerJoin_pure rts _ hs', collect_map_some_map]
    congr 1
    cases tables with
    | nil => rfl
    | cons first others =>
      simp only [map_cons, innerJoinN, joinTables, map_filterMap]
      apply Join.filterMap_congr'
      intro r _
      have hmm : (others.map (·.2)).map (lookupKey rts (rts r)) = others.map fun o => lookupTs r.ts o.2 := by
        rw [map_map]; rfl
      rw [hmm]
      rcases allSome_cases (others.map fun o => lookupTs r.ts o.2) with ⟨h1, h2⟩ | ⟨ys, h1, h2⟩
      · have : others.all (fun o => (lookupTs r.ts o.2).isSome) = false := by
          rw [← h2, all_map]; rfl
        simp [h1, this]
      · have : others.all (fun o => (lookupTs r.ts o.2).isSome) = true := by
          have : (others.map fun o => lookupTs r.ts o.2).all Option.isSome = true := by
            rw [h2]; simp
          rw [all_map] at this
          exact this
        simp only [h1, Option.map_some, this, if_true, head?_cons, Option.getD_some, map_cons, flatten_cons,
          Option.some.injEq]
        rw [padded_of_some r.ts others ys h2]
  | left =>
    simp only [joinStreams, hsrcs, hwidths]
    rw [show (fun r : Row D => r.ts) = rts from rfl, leftJoin_pure rts _ hs', collect_map_some_map]
    congr 1
    cases tables with
    | nil => rfl
    | cons first others =>
      simp only [map_cons, leftJoinN, joinTables, map_map, drop_one, tail_cons]
      apply map_congr_left
      intro r _
      simp only [Function.comp_apply]
      congr 3
      exact padVals_padded r.ts others
  | full =>
    simp only [joinStreams, hsrcs, hwidths]
    rw [show (fun r : Row D => r.ts) = rts from rfl, fullJoin_pure rts _ hs', collect_map_some_map]
    congr 1
    cases tables with
    | nil => simp [fullJoinN, fullJoinNK, keysUnion, joinTables]
    | cons first others =>
      rw [Join.fullJoinN_eq]
      simp only [joinTables, unionTs_eq, map_map]
      apply map_congr_left
      intro k hk
      simp only [Function.comp_apply]
      have hk' := (Join.mem_keysUnion rts _ k).mp hk
      congr 1
      · have := full_ts k _ hk'
        rw [map_map] at this
        exact this
      · congr 1
        exact padVals_padded k (first :: others)

end ShpanVerif.Proofs.Query
