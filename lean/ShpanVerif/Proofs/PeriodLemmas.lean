/-
Helper lemmas for C12 (alignment periods): the proleptic Gregorian calendar functions of
Model/Period.lean are consistent (`monthIdx_spec`, `monthStart_lt_succ`, …), the tiling laws
(`TilesOn`), day grids, well-behaved local midnights (`MidOK`), the generic tiling theorem
(`tiles_of_grid`), the model's calendar kinds in grid form, fixed-offset zones, floor arithmetic of
the fixed period, and the timestamp generator.  Core Lean only.
-/
import ShpanVerif.Model.Period
namespace ShpanVerif.Proofs.Period
open ShpanVerif.Model.Period

theorem yearStart_succ (y : Int) : 365 ≤ yearStart (y + 1) - yearStart y ∧ yearStart (y + 1) - yearStart y ≤ 366 := by
  unfold yearStart; omega

theorem monthOff_lt_succ (mp : Int) : monthOff mp < monthOff (mp + 1) := by
  unfold monthOff; omega

theorem monthOff_zero : monthOff 0 = 0 := by decide
theorem monthOff_eleven : monthOff 11 = 337 := by decide

theorem monthStartK_lt_succ (K : Int) : monthStartK K < monthStartK (K + 1) := by
  unfold monthStartK
  by_cases h : K % 12 = 11
  · have h1 : (K + 1) / 12 = K / 12 + 1 := by omega
    have h2 : (K + 1) % 12 = 0 := by omega
    rw [h1, h2, h, monthOff_zero, monthOff_eleven]
    have := yearStart_succ (K / 12)
    omega
  · have h1 : (K + 1) / 12 = K / 12 := by omega
    have h2 : (K + 1) % 12 = K % 12 + 1 := by omega
    rw [h1, h2]
    have := monthOff_lt_succ (K % 12)
    omega

theorem monthStart_lt_succ (M : Int) : monthStart M < monthStart (M + 1) := by
  unfold monthStart
  have := monthStartK_lt_succ (M - 2)
  have e : M + 1 - 2 = M - 2 + 1 := by omega
  rw [e]; exact this

theorem yearOfZ_spec (zd : Int) : yearStart (yearOfZ zd) ≤ zd ∧ zd < yearStart (yearOfZ zd + 1) := by
  unfold yearOfZ
  simp only
  split
  · rename_i h
    refine ⟨?_, by simpa using h⟩
    unfold yearStart at *; omega
  · split
    · rename_i h1 h2
      refine ⟨h2, ?_⟩
      unfold yearStart at *; omega
    · rename_i h1 h2
      exact ⟨by omega, by omega⟩

/-- the month found for day `L` contains `L` -/
theorem monthIdx_spec (L : Int) : monthStart (monthIdx L) ≤ L ∧ L < monthStart (monthIdx L + 1) := by
  obtain ⟨h1, h2⟩ := yearOfZ_spec (L + 719468)
  have hy := yearStart_succ (yearOfZ (L + 719468))
  unfold monthIdx monthStart
  simp only
  generalize yearOfZ (L + 719468) = y at *
  generalize hdoy : L + 719468 - yearStart y = doy
  have hd0 : 0 ≤ doy := by omega
  have hd1 : doy ≤ 365 := by omega
  generalize hmp : (5 * doy + 2) / 153 = mp
  have hm0 : 0 ≤ mp := by omega
  have hm1 : mp ≤ 11 := by omega
  have e1 : 12 * y + mp + 2 - 2 = 12 * y + mp := by omega
  have e2 : 12 * y + mp + 2 + 1 - 2 = 12 * y + mp + 1 := by omega
  rw [e1, e2]
  unfold monthStartK
  have e3 : (12 * y + mp) / 12 = y := by omega
  have e4 : (12 * y + mp) % 12 = mp := by omega
  rw [e3, e4]
  constructor
  · unfold monthOff; omega
  · by_cases h11 : mp = 11
    · have e5 : (12 * y + mp + 1) / 12 = y + 1 := by omega
      have e6 : (12 * y + mp + 1) % 12 = 0 := by omega
      rw [e5, e6, monthOff_zero]; omega
    · have e5 : (12 * y + mp + 1) / 12 = y := by omega
      have e6 : (12 * y + mp + 1) % 12 = mp + 1 := by omega
      rw [e5, e6]; unfold monthOff; omega

theorem monthStart_lt_add (M : Int) (n : Nat) : monthStart M < monthStart (M + (n + 1 : Nat)) := by
  induction n with
  | zero => simpa using monthStart_lt_succ M
  | succ n ih =>
    have := monthStart_lt_succ (M + (n + 1 : Nat))
    have e : M + ((n + 1 + 1 : Nat) : Int) = M + ((n + 1 : Nat) : Int) + 1 := by omega
    rw [e]; omega

theorem monthStart_strictMono {M M' : Int} (h : M < M') : monthStart M < monthStart M' := by
  have := monthStart_lt_add M ((M' - M - 1).toNat)
  have e : M + (((M' - M - 1).toNat + 1 : Nat) : Int) = M' := by omega
  rw [e] at this; exact this

theorem monthStart_mono {M M' : Int} (h : M ≤ M') : monthStart M ≤ monthStart M' := by
  rcases Int.lt_or_eq_of_le h with h | h
  · exact Int.le_of_lt (monthStart_strictMono h)
  · rw [h]; exact Int.le_refl _

theorem monthStart_lt_iff {M M' : Int} : monthStart M < monthStart M' ↔ M < M' := by
  constructor
  · intro h
    by_cases h' : M < M'
    · exact h'
    · have := monthStart_mono (show M' ≤ M by omega); omega
  · exact monthStart_strictMono

theorem monthStart_le_iff {M M' : Int} : monthStart M ≤ monthStart M' ↔ M ≤ M' := by
  have := @monthStart_lt_iff M' M
  constructor
  · intro h; by_cases h' : M ≤ M'
    · exact h'
    · have := monthStart_strictMono (show M' < M by omega); omega
  · exact monthStart_mono

/-- `monthIdx L = M` exactly when `L` lies in month `M` -/
theorem monthIdx_eq_iff (L M : Int) : monthIdx L = M ↔ monthStart M ≤ L ∧ L < monthStart (M + 1) := by
  constructor
  · intro h; rw [← h]; exact monthIdx_spec L
  · intro ⟨h1, h2⟩
    obtain ⟨g1, g2⟩ := monthIdx_spec L
    have a : monthStart M < monthStart (monthIdx L + 1) := by omega
    have b : monthStart (monthIdx L) < monthStart (M + 1) := by omega
    rw [monthStart_lt_iff] at a b
    omega

theorem monthIdx_monthStart (M : Int) : monthIdx (monthStart M) = M :=
  (monthIdx_eq_iff _ _).2 ⟨Int.le_refl _, monthStart_lt_succ M⟩

theorem monthIdx_mono {L L' : Int} (h : L ≤ L') : monthIdx L ≤ monthIdx L' := by
  obtain ⟨g1, _⟩ := monthIdx_spec L
  obtain ⟨_, g2'⟩ := monthIdx_spec L'
  have : monthStart (monthIdx L) < monthStart (monthIdx L' + 1) := by omega
  rw [monthStart_lt_iff] at this; omega

/-- `monthStart M ≤ L ↔ M ≤ monthIdx L` (Galois connection) -/
theorem monthStart_le_iff_le_monthIdx (M L : Int) : monthStart M ≤ L ↔ M ≤ monthIdx L := by
  obtain ⟨g1, g2⟩ := monthIdx_spec L
  constructor
  · intro h
    have : monthStart M < monthStart (monthIdx L + 1) := by omega
    rw [monthStart_lt_iff] at this; omega
  · intro h
    have := monthStart_mono h; omega

/-- `Date()` then `Date(y, m, d)` gives the day back -/
theorem civilDays_civil (L : Int) : (match civil L with | (y, m, d) => civilDays y m d) = L := by
  unfold civil civilDays
  simp only
  have e : 12 * (monthIdx L / 12) + (monthIdx L % 12 + 1 - 1) = monthIdx L := by omega
  rw [e]; omega

/-- civil fields are in range -/
theorem civil_range (L : Int) : 1 ≤ (civil L).2.1 ∧ (civil L).2.1 ≤ 12 ∧ 1 ≤ (civil L).2.2 ∧ (civil L).2.2 ≤ 31 := by
  obtain ⟨g1, g2⟩ := monthIdx_spec L
  unfold civil; simp only
  refine ⟨by omega, by omega, by omega, ?_⟩
  -- month length ≤ 31
  have : monthStart (monthIdx L + 1) - monthStart (monthIdx L) ≤ 31 := by
    generalize monthIdx L = M
    unfold monthStart monthStartK
    have e : M + 1 - 2 = M - 2 + 1 := by omega
    rw [e]
    generalize M - 2 = K
    by_cases h : K % 12 = 11
    · have h1 : (K + 1) / 12 = K / 12 + 1 := by omega
      have h2 : (K + 1) % 12 = 0 := by omega
      rw [h1, h2, h, monthOff_zero, monthOff_eleven]
      have := yearStart_succ (K / 12)
      omega
    · have h1 : (K + 1) / 12 = K / 12 := by omega
      have h2 : (K + 1) % 12 = K % 12 + 1 := by omega
      rw [h1, h2]; unfold monthOff; omega
  omega

/-- The tiling laws of property C12 for a pair of functions on instants, relative to a set `R` of instants. -/
structure TilesOn (R : Int → Prop) (S E : Int → Int) : Prop where
  le : ∀ t, R t → S t ≤ t
  lt : ∀ t, R t → t < E t
  idem : ∀ t, R t → S (S t) = S t
  endStart : ∀ t, R t → S (E t) = E t
  mono : ∀ t t', R t → R t' → t ≤ t' → S t ≤ S t'
  same : ∀ t u, R t → R u → S t ≤ u → u < E t → S u = S t

/-- The tiling laws for every instant. -/
abbrev Tiles (S E : Int → Int) : Prop := TilesOn (fun _ => True) S E

/-! ## day grids -/

structure GridLaws (g : DayGrid) : Prop where
  le : ∀ L, g.gs L ≤ L
  lt : ∀ L, L < g.gn (g.gs L)
  idem : ∀ L, g.gs (g.gs L) = g.gs L
  nextStart : ∀ L, g.gs (g.gn (g.gs L)) = g.gn (g.gs L)
  mono : ∀ L L', L ≤ L' → g.gs L ≤ g.gs L'
  same : ∀ L L', g.gs L ≤ L' → L' < g.gn (g.gs L) → g.gs L' = g.gs L

/-- Local midnight of day `D` is well behaved in zone `z`: `time.Date` returns an instant whose wall clock is
exactly `D 00:00:00`, and that instant is the first one of local day `D` or later
(the local date never reaches `D` before it and never falls below `D` after it). -/
def MidOK (z : Zone) (D : Int) : Prop :=
  localSecs z (mid z D) = D * 86400 ∧ ∀ s, D ≤ localDay z s ↔ mid z D ≤ s

theorem MidOK.localDay_mid {z : Zone} {D : Int} (h : MidOK z D) : localDay z (mid z D) = D := by
  unfold localDay; rw [h.1]; omega

theorem MidOK.secOfDay_mid {z : Zone} {D : Int} (h : MidOK z D) : secOfDay z (mid z D) = 0 := by
  unfold secOfDay; rw [h.1]; omega

/-- Seconds-level tiling from a lawful day grid whose period-start midnights are well behaved. -/
theorem tiles_of_grid (g : DayGrid) (hg : GridLaws g) (z : Zone)
    (hm : ∀ P, g.gs P = P → MidOK z P) :
    Tiles (fun s => mid z (g.gs (localDay z s))) (fun s => mid z (g.gn (g.gs (localDay z s)))) := by
  have hP : ∀ L, MidOK z (g.gs L) := fun L => hm _ (hg.idem L)
  have hN : ∀ L, MidOK z (g.gn (g.gs L)) := fun L => hm _ (hg.nextStart L)
  refine ⟨?_, ?_, ?_, ?_, ?_, ?_⟩
  · intro s _
    exact ((hP (localDay z s)).2 s).1 (hg.le _)
  · intro s _
    have := ((hN (localDay z s)).2 s)
    have h2 := hg.lt (localDay z s)
    by_cases h : mid z (g.gn (g.gs (localDay z s))) ≤ s
    · have := this.2 h; omega
    · omega
  · intro s _
    rw [(hP (localDay z s)).localDay_mid, hg.idem]
  · intro s _
    rw [(hN (localDay z s)).localDay_mid, hg.nextStart]
  · intro s s' _ _ hss
    generalize hL : localDay z s = L
    generalize hL' : localDay z s' = L'
    by_cases hc : g.gs L ≤ g.gs L'
    · -- mid P ≤ mid P' because the local day at mid P' is P' ≥ P
      have := ((hP L).2 (mid z (g.gs L'))).1 (by rw [(hP L').localDay_mid]; exact hc)
      exact this
    · exfalso
      -- P' < P: the period after P' starts at or before P, so s (local day ≥ P) is not before it; s ≤ s'
      have hlt : g.gs L' < g.gs L := by omega
      have hN' : g.gn (g.gs L') ≤ g.gs L := by
        by_cases h : g.gn (g.gs L') ≤ g.gs L
        · exact h
        · have := hg.same L' (g.gs L) (by omega) (by omega)
          rw [hg.idem] at this; omega
      have h1 : g.gn (g.gs L') ≤ localDay z s := by rw [hL]; have := hg.le L; omega
      have h2 := ((hN L').2 s).1 h1
      have h3 := ((hN L').2 s').2 (by omega)
      have h4 := hg.lt L'
      omega
  · intro s u _ _ h1 h2
    have a := ((hP (localDay z s)).2 u).2 h1
    have b : localDay z u < g.gn (g.gs (localDay z s)) := by
      by_cases h : g.gn (g.gs (localDay z s)) ≤ localDay z u
      · have := ((hN (localDay z s)).2 u).1 h; omega
      · omega
    rw [hg.same (localDay z s) (localDay z u) a b]

/-- Lifting a seconds-level tiling to nanoseconds (`s = t / NS`, results `* NS`). -/
theorem tiles_lift_ns {S E : Int → Int} (h : Tiles S E) :
    Tiles (fun t => S (t / NS) * NS) (fun t => E (t / NS) * NS) := by
  have hdiv : ∀ x : Int, x * NS / NS = x := by intro x; unfold NS; omega
  refine ⟨?_, ?_, ?_, ?_, ?_, ?_⟩
  · intro t _
    have := h.le (t / NS) trivial
    unfold NS at *; omega
  · intro t _
    have := h.lt (t / NS) trivial
    unfold NS at *; omega
  · intro t _
    rw [hdiv, h.idem _ trivial]
  · intro t _
    rw [hdiv, h.endStart _ trivial]
  · intro t t' _ _ htt
    have := h.mono (t / NS) (t' / NS) trivial trivial (by unfold NS; omega)
    unfold NS at *; omega
  · intro t u _ _ h1 h2
    have := h.same (t / NS) (u / NS) trivial trivial (by unfold NS at *; omega) (by unfold NS at *; omega)
    rw [this]


/-! ## the grids of the calendar kinds -/

theorem dayGrid_laws : GridLaws dayGrid := by
  refine ⟨?_, ?_, ?_, ?_, ?_, ?_⟩ <;> intros <;> simp only [dayGrid] at * <;> omega

theorem weekGrid_laws : GridLaws weekGrid := by
  refine ⟨?_, ?_, ?_, ?_, ?_, ?_⟩ <;> intros <;> simp only [weekGrid] at * <;> omega

theorem monthsGrid_laws (k : Int) (hk : k = 1 ∨ k = 3 ∨ k = 6 ∨ k = 12) : GridLaws (monthsGrid k) := by
  refine ⟨?_, ?_, ?_, ?_, ?_, ?_⟩
  · intro L
    have h := monthIdx_spec L
    have : monthStart (k * (monthIdx L / k)) ≤ monthStart (monthIdx L) :=
      monthStart_mono (by rcases hk with rfl | rfl | rfl | rfl <;> omega)
    simp only [monthsGrid]; omega
  · intro L
    have h := monthIdx_spec L
    simp only [monthsGrid, monthIdx_monthStart]
    have : monthStart (monthIdx L + 1) ≤ monthStart (k * (monthIdx L / k) + k) :=
      monthStart_mono (by rcases hk with rfl | rfl | rfl | rfl <;> omega)
    omega
  · intro L
    simp only [monthsGrid, monthIdx_monthStart]
    congr 1
    rcases hk with rfl | rfl | rfl | rfl <;> omega
  · intro L
    simp only [monthsGrid, monthIdx_monthStart]
    congr 1
    rcases hk with rfl | rfl | rfl | rfl <;> omega
  · intro L L' h
    have := monthIdx_mono h
    simp only [monthsGrid]
    exact monthStart_mono (by rcases hk with rfl | rfl | rfl | rfl <;> omega)
  · intro L L' h1 h2
    simp only [monthsGrid, monthIdx_monthStart] at *
    rw [monthStart_le_iff_le_monthIdx] at h1
    have h3 : ¬ (k * (monthIdx L / k) + k ≤ monthIdx L') := by
      intro h; have := (monthStart_le_iff_le_monthIdx _ _).2 h; omega
    congr 1
    rcases hk with rfl | rfl | rfl | rfl <;> omega

/-! ## the model's calendar kinds in grid form -/

theorem civilDays_add_day (y m d k : Int) : civilDays y m (d + k) = civilDays y m d + k := by
  unfold civilDays; omega

/-- `time.Date(Y, M, D of day L, 0:00)` is `mid z L` -/
theorem dateMidnight_civil (z : Zone) (L : Int) :
    (match civil L with | (y, m, d) => dateMidnight z y m d) = mid z L := by
  have h := civilDays_civil L
  unfold dateMidnight mid
  generalize civil L = c at *
  obtain ⟨y, m, d⟩ := c
  simp only at h ⊢
  rw [h]

theorem dayStartSec_eq (z : Zone) (s : Int) : dayStartSec z s = mid z (dayGrid.gs (localDay z s)) := by
  unfold dayStartSec; exact dateMidnight_civil z _

/-- `AddDate` applied to a well-behaved local midnight -/
theorem addDate_mid {z : Zone} {D : Int} (h : MidOK z D) (dy dm dd : Int) :
    addDate z (mid z D) dy dm dd =
      goDateSec z ((match civil D with | (y, m, d) => civilDays (y + dy) (m + dm) (d + dd)) * 86400) := by
  unfold addDate
  rw [h.localDay_mid, h.secOfDay_mid]
  generalize civil D = c
  obtain ⟨y, m, d⟩ := c
  simp only [Int.add_zero]

theorem addDate_mid_days {z : Zone} {D : Int} (h : MidOK z D) (dd : Int) :
    addDate z (mid z D) 0 0 dd = mid z (D + dd) := by
  rw [addDate_mid h]
  have hc := civilDays_civil D
  unfold mid
  generalize civil D = c at *
  obtain ⟨y, m, d⟩ := c
  simp only [Int.add_zero] at hc ⊢
  rw [civilDays_add_day, hc]

theorem dayEndSec_eq {z : Zone} {s : Int} (h : MidOK z (localDay z s)) :
    dayEndSec z s = mid z (dayGrid.gn (dayGrid.gs (localDay z s))) := by
  unfold dayEndSec
  rw [dayStartSec_eq]
  exact addDate_mid_days h 1

/-- The week period's intermediate `t.AddDate(0, 0, -weekday+1)` keeps the calendar day it asks for:
resolving any wall clock of a Monday gives an instant of that Monday. -/
def WeekInterOK (z : Zone) : Prop :=
  ∀ P c, weekGrid.gs P = P → 0 ≤ c → c < 86400 → localDay z (goDateSec z (P * 86400 + c)) = P

/-- pointwise form: only the intermediate of this instant has to stay on its Monday -/
theorem weekStartSec_eq_at {z : Zone} {s : Int}
    (hw : localDay z (goDateSec z (weekGrid.gs (localDay z s) * 86400 + secOfDay z s)) = weekGrid.gs (localDay z s)) :
    weekStartSec z s = mid z (weekGrid.gs (localDay z s)) := by
  unfold weekStartSec
  simp only
  have hinter : localDay z (addDate z s 0 0 (-(if weekday (localDay z s) = 0 then 7 else weekday (localDay z s)) + 1))
      = weekGrid.gs (localDay z s) := by
    unfold addDate
    have hc := civilDays_civil (localDay z s)
    generalize hL : localDay z s = L at *
    generalize civil L = c at *
    obtain ⟨y, m, d⟩ := c
    simp only [Int.add_zero] at hc ⊢
    rw [civilDays_add_day, hc]
    have e : L + (-(if weekday L = 0 then 7 else weekday L) + 1) = weekGrid.gs L := by
      unfold weekday; simp only [weekGrid]; split <;> omega
    rw [e]
    exact hw
  rw [hinter]
  exact dateMidnight_civil z _

theorem weekStartSec_eq {z : Zone} (hw : WeekInterOK z) (s : Int) :
    weekStartSec z s = mid z (weekGrid.gs (localDay z s)) := by
  apply weekStartSec_eq_at
  apply hw
  · exact weekGrid_laws.idem _
  · unfold secOfDay; omega
  · unfold secOfDay; omega

/-- at a well-behaved Monday midnight the intermediate is that midnight itself -/
theorem week_inter_at_mid {z : Zone} {P : Int} (hP : weekGrid.gs P = P) (h : MidOK z P) :
    localDay z (goDateSec z (weekGrid.gs (localDay z (mid z P)) * 86400 + secOfDay z (mid z P)))
      = weekGrid.gs (localDay z (mid z P)) := by
  rw [h.localDay_mid, h.secOfDay_mid, hP, Int.add_zero]
  exact h.localDay_mid

theorem weekEndSec_eq_at {z : Zone} {s : Int}
    (hw : localDay z (goDateSec z (weekGrid.gs (localDay z s) * 86400 + secOfDay z s)) = weekGrid.gs (localDay z s))
    (h : MidOK z (weekGrid.gs (localDay z s))) :
    weekEndSec z s = mid z (weekGrid.gn (weekGrid.gs (localDay z s))) := by
  unfold weekEndSec
  rw [weekStartSec_eq_at hw]
  exact addDate_mid_days h 7

theorem weekEndSec_eq {z : Zone} (hw : WeekInterOK z) {s : Int} (h : MidOK z (weekGrid.gs (localDay z s))) :
    weekEndSec z s = mid z (weekGrid.gn (weekGrid.gs (localDay z s))) := by
  unfold weekEndSec
  rw [weekStartSec_eq hw]
  exact addDate_mid_days h 7

theorem civil_monthStart (a : Int) : civil (monthStart a) = (a / 12, a % 12 + 1, 1) := by
  unfold civil; simp only [monthIdx_monthStart]; congr 2; omega

theorem dateMidnight_first (z : Zone) (y m : Int) :
    dateMidnight z y m 1 = mid z (monthStart (12 * y + (m - 1))) := by
  unfold dateMidnight mid civilDays
  simp only [Int.sub_self, Int.add_zero]

theorem monthStartSec_eq (z : Zone) (s : Int) : monthStartSec z s = mid z ((monthsGrid 1).gs (localDay z s)) := by
  unfold monthStartSec civil
  simp only [dateMidnight_first, monthsGrid]
  congr 2; omega

theorem quarterStartSec_eq (z : Zone) (s : Int) : quarterStartSec z s = mid z ((monthsGrid 3).gs (localDay z s)) := by
  unfold quarterStartSec civil
  simp only [dateMidnight_first, monthsGrid]
  congr 2; omega

theorem halfStartSec_eq (z : Zone) (s : Int) : halfStartSec z s = mid z ((monthsGrid 6).gs (localDay z s)) := by
  unfold halfStartSec civil
  simp only [dateMidnight_first, monthsGrid]
  congr 2; split <;> omega

theorem yearStartSec_eq (z : Zone) (s : Int) : yearStartSec z s = mid z ((monthsGrid 12).gs (localDay z s)) := by
  unfold yearStartSec civil
  simp only [dateMidnight_first, monthsGrid]
  congr 2; omega

theorem addDate_mid_months {z : Zone} {a : Int} (h : MidOK z (monthStart a)) (dy dm : Int) :
    addDate z (mid z (monthStart a)) dy dm 0 = mid z (monthStart (a + 12 * dy + dm)) := by
  rw [addDate_mid h, civil_monthStart]
  unfold mid civilDays
  simp only [Int.add_zero, Int.sub_self]
  congr 3; omega

theorem monthEndSec_eq {z : Zone} {s : Int} (h : MidOK z ((monthsGrid 1).gs (localDay z s))) :
    monthEndSec z s = mid z ((monthsGrid 1).gn ((monthsGrid 1).gs (localDay z s))) := by
  unfold monthEndSec
  rw [monthStartSec_eq]
  simp only [monthsGrid, monthIdx_monthStart] at h ⊢
  rw [addDate_mid_months h]; congr 2; omega

theorem quarterEndSec_eq {z : Zone} {s : Int} (h : MidOK z ((monthsGrid 3).gs (localDay z s))) :
    quarterEndSec z s = mid z ((monthsGrid 3).gn ((monthsGrid 3).gs (localDay z s))) := by
  unfold quarterEndSec
  rw [quarterStartSec_eq]
  simp only [monthsGrid, monthIdx_monthStart] at h ⊢
  rw [addDate_mid_months h]; congr 2; omega

theorem halfEndSec_eq {z : Zone} {s : Int} (h : MidOK z ((monthsGrid 6).gs (localDay z s))) :
    halfEndSec z s = mid z ((monthsGrid 6).gn ((monthsGrid 6).gs (localDay z s))) := by
  unfold halfEndSec
  rw [halfStartSec_eq]
  simp only [monthsGrid, monthIdx_monthStart] at h ⊢
  rw [addDate_mid_months h]; congr 2; omega

theorem yearEndSec_eq {z : Zone} {s : Int} (h : MidOK z ((monthsGrid 12).gs (localDay z s))) :
    yearEndSec z s = mid z ((monthsGrid 12).gn ((monthsGrid 12).gs (localDay z s))) := by
  unfold yearEndSec
  rw [yearStartSec_eq]
  simp only [monthsGrid, monthIdx_monthStart] at h ⊢
  rw [addDate_mid_months h]; congr 2; omega


/-! ## fixed-offset zones (UTC, time.FixedZone, Etc/GMT±h) -/

theorem fixed_lookup (o : Int) (s : Int) : (Zone.mk o []).lookup s = (o, alpha, omega) := rfl
theorem fixed_offsetAt (o : Int) (s : Int) : (Zone.mk o []).offsetAt s = o := rfl
theorem fixed_localSecs (o : Int) (s : Int) : localSecs (Zone.mk o []) s = s + o := rfl

theorem fixed_goDateSec (o : Int) (u : Int) : goDateSec (Zone.mk o []) u = u - o := by
  unfold goDateSec
  rw [fixed_lookup]
  simp only [fixed_offsetAt]
  split
  · split <;> rfl
  · rename_i h; simp at h; omega

theorem fixed_MidOK (o D : Int) : MidOK (Zone.mk o []) D := by
  unfold MidOK mid localDay
  simp only [fixed_goDateSec, fixed_localSecs]
  refine ⟨by omega, fun s => by omega⟩

theorem fixed_WeekInterOK (o : Int) : WeekInterOK (Zone.mk o []) := by
  intro P c _ h0 h1
  unfold localDay
  simp only [fixed_goDateSec, fixed_localSecs]
  omega

/-! ## floor arithmetic of the fixed period -/

/-- `x` rounded down to a multiple of `d` -/
def floorTo (d x : Int) : Int := x / d * d

theorem floorTo_le {d : Int} (hd : 0 < d) (x : Int) : floorTo d x ≤ x :=
  Int.ediv_mul_le x (by omega)

theorem lt_floorTo_add {d : Int} (hd : 0 < d) (x : Int) : x < floorTo d x + d := by
  have := Int.lt_ediv_add_one_mul_self x hd
  rw [Int.add_mul, Int.one_mul] at this
  exact this

theorem floorTo_floorTo {d : Int} (hd : 0 < d) (x : Int) : floorTo d (floorTo d x) = floorTo d x := by
  unfold floorTo; rw [Int.mul_ediv_cancel _ (by omega)]

theorem floorTo_add_self {d : Int} (hd : 0 < d) (x : Int) : floorTo d (floorTo d x + d) = floorTo d x + d := by
  unfold floorTo
  have e : x / d * d + d = (x / d + 1) * d := by rw [Int.add_mul, Int.one_mul]
  rw [e, Int.mul_ediv_cancel _ (by omega)]

theorem floorTo_mono {d : Int} (hd : 0 < d) {x y : Int} (h : x ≤ y) : floorTo d x ≤ floorTo d y := by
  unfold floorTo
  exact Int.mul_le_mul_of_nonneg_right (Int.ediv_le_ediv hd h) (by omega)

theorem floorTo_eq_of_between {d : Int} (hd : 0 < d) {x u : Int} (h1 : floorTo d x ≤ u) (h2 : u < floorTo d x + d) :
    floorTo d u = floorTo d x := by
  unfold floorTo at *
  have a : x / d ≤ u / d := (Int.le_ediv_iff_mul_le hd).2 h1
  have b : u / d < x / d + 1 := (Int.ediv_lt_iff_lt_mul hd).2 (by rw [Int.add_mul, Int.one_mul]; exact h2)
  have : u / d = x / d := by omega
  rw [this]

/-- Go's `since - since % d` (truncated `%`) followed by the round-down correction is `floorTo`. -/
theorem trunc_fix_eq_floor {d : Int} (hd : 0 < d) (x : Int) :
    (if x - Int.tmod x d > x then x - Int.tmod x d - d else x - Int.tmod x d) = floorTo d x := by
  unfold floorTo
  by_cases hx : 0 ≤ x
  · rw [Int.tmod_eq_emod_of_nonneg hx]
    have h1 := Int.emod_nonneg x (show d ≠ 0 by omega)
    have h2 := Int.emod_def x d
    rw [if_neg (by omega)]
    rw [Int.mul_comm] at h2; omega
  · have ht : Int.tmod x d = -((-x) % d) := by
      rw [← Int.tmod_eq_emod_of_nonneg (by omega : 0 ≤ -x), Int.neg_tmod]; omega
    rw [ht]
    have h1 := Int.emod_nonneg (-x) (show d ≠ 0 by omega)
    have h3 := Int.emod_lt_of_pos (-x) hd
    have h2 := Int.emod_def (-x) d
    generalize hr : (-x) % d = r at *
    generalize hq : (-x) / d = q at *
    by_cases hr0 : r = 0
    · subst hr0
      rw [if_neg (by omega)]
      have : x / d = -q := by
        have := (Int.ediv_emod_unique (a := x) (r := 0) (q := -q) hd).2 ⟨by rw [Int.mul_neg]; omega, by omega, hd⟩
        exact this.1
      rw [this, Int.neg_mul, Int.mul_comm]; omega
    · rw [if_pos (by omega)]
      have : x / d = -q - 1 := by
        have := (Int.ediv_emod_unique (a := x) (r := d - r) (q := -q - 1) hd).2
          ⟨by rw [Int.mul_sub, Int.mul_neg, Int.mul_one]; omega, by omega, by omega⟩
        exact this.1
      rw [this, Int.sub_mul, Int.neg_mul, Int.one_mul, Int.mul_comm]; omega

theorem wrap64_id {x : Int} (h1 : minI64 ≤ x) (h2 : x ≤ maxI64) : wrap64 x = x := by
  unfold wrap64; unfold minI64 maxI64 at *; omega

theorem satSub_id {t e : Int} (h1 : minI64 ≤ t - e) (h2 : t - e ≤ maxI64) : satSub t e = t - e := by
  unfold satSub; simp only
  rw [if_neg (by omega), if_neg (by omega)]

/-- Closed form of the fixed period start while `t.Sub(epoch)` does not saturate and the correction does not wrap. -/
theorem fixedStart_eq {z : Zone} {d t : Int} (hd : 0 < d)
    (h1 : minI64 + d ≤ t - fixedEpoch z) (h2 : t - fixedEpoch z ≤ maxI64) :
    fixedStart z d t = fixedEpoch z + floorTo d (t - fixedEpoch z) := by
  unfold fixedStart
  simp only
  generalize fixedEpoch z = e at *
  rw [satSub_id (by omega) h2]
  have hf := trunc_fix_eq_floor hd (t - e)
  have hle := floorTo_le hd (t - e)
  have hlt := lt_floorTo_add hd (t - e)
  by_cases hc : t - e - Int.tmod (t - e) d > t - e
  · rw [if_pos hc] at hf ⊢
    rw [wrap64_id (by omega) (by omega), hf]
  · rw [if_neg hc] at hf ⊢
    rw [hf]



/-! ## the timestamp generator -/

/-- Invariant-based specification of the generator loop started at a period start `cur`. -/
theorem alignedFrom_spec {R : Int → Prop} {S E : Int → Int} (h : TilesOn R S E) (to : Int) :
    ∀ (fuel : Nat) (cur : Int), S cur = cur → (∀ t, cur ≤ t → t < to → R t) → (to - cur).toNat ≤ fuel →
      (alignedFrom E to fuel cur).Pairwise (· < ·) ∧
      (∀ x, x ∈ alignedFrom E to fuel cur ↔ (S x = x ∧ cur ≤ x ∧ x < to)) := by
  intro fuel
  induction fuel with
  | zero =>
    intro cur _ _ hf
    simp only [alignedFrom]
    refine ⟨List.Pairwise.nil, fun x => ?_⟩
    constructor
    · intro hx; cases hx
    · intro ⟨_, h1, h2⟩; omega
  | succ fuel ih =>
    intro cur hfix hR hf
    unfold alignedFrom
    by_cases hc : cur < to
    · rw [if_pos hc]
      have hRc : R cur := hR cur (Int.le_refl _) hc
      have hlt : cur < E cur := by have := h.lt cur hRc; omega
      have hEfix : S (E cur) = E cur := h.endStart cur hRc
      obtain ⟨ihp, ihm⟩ := ih (E cur) hEfix (fun t a b => hR t (by omega) b) (by omega)
      constructor
      · refine List.Pairwise.cons ?_ ihp
        intro x hx
        have := (ihm x).1 hx; omega
      · intro x
        rw [List.mem_cons, ihm]
        constructor
        · rintro (rfl | ⟨a, b, c⟩)
          · exact ⟨hfix, Int.le_refl _, hc⟩
          · exact ⟨a, by omega, c⟩
        · intro ⟨a, b, c⟩
          by_cases hx : x = cur
          · exact Or.inl hx
          · refine Or.inr ⟨a, ?_, c⟩
            by_cases hE : E cur ≤ x
            · exact hE
            · exfalso
              have := h.same cur x hRc (hR x b c) (by omega) (by omega)
              omega
    · rw [if_neg hc]
      refine ⟨List.Pairwise.nil, fun x => ?_⟩
      constructor
      · intro hx; cases hx
      · intro ⟨_, h1, h2⟩; omega

/-- With at least `to - cur` fuel the fuel is never exhausted: the result does not depend on it. -/
theorem alignedFrom_fuel_irrel {R : Int → Prop} {S E : Int → Int} (h : TilesOn R S E) (to : Int) :
    ∀ (fuel fuel' : Nat) (cur : Int), S cur = cur → (∀ t, cur ≤ t → t < to → R t) →
      (to - cur).toNat ≤ fuel → (to - cur).toNat ≤ fuel' →
      alignedFrom E to fuel cur = alignedFrom E to fuel' cur := by
  intro fuel
  induction fuel with
  | zero =>
    intro fuel' cur _ _ hf _
    cases fuel' with
    | zero => rfl
    | succ n => simp only [alignedFrom]; rw [if_neg (by omega)]
  | succ fuel ih =>
    intro fuel' cur hfix hR hf hf'
    cases fuel' with
    | zero => simp only [alignedFrom]; rw [if_neg (by omega)]
    | succ n =>
      simp only [alignedFrom]
      by_cases hc : cur < to
      · rw [if_pos hc, if_pos hc]
        have hRc : R cur := hR cur (Int.le_refl _) hc
        have hlt : cur < E cur := by have := h.lt cur hRc; omega
        rw [ih n (E cur) (h.endStart cur hRc) (fun t a b => hR t (by omega) b) (by omega) (by omega)]
      · rw [if_neg hc, if_neg hc]



/-! ## sorted zone tables: `time.Date` only depends on the offset function -/

/-- transition instants are non-decreasing and not below `lo` -/
def sortedFrom (lo : Int) : List (Int × Int) → Prop
  | [] => True
  | (w, _) :: rest => lo ≤ w ∧ sortedFrom w rest

/-- the zone table is sorted (as Go's loader guarantees for `tx`) -/
def ZoneSorted (z : Zone) : Prop := sortedFrom alpha z.trans

theorem lookupFrom_start_ge : ∀ (l : List (Int × Int)) (off start u : Int), sortedFrom start l →
    start ≤ (lookupFrom off start l u).2.1
  | [], _, _, _, _ => Int.le_refl _
  | (w, o) :: rest, off, start, u, h => by
    unfold lookupFrom
    split
    · exact Int.le_refl _
    · have := lookupFrom_start_ge rest o w u h.2
      have := h.1; omega

/-- every instant inside the segment returned by `lookup` has the returned offset -/
theorem lookupFrom_seg : ∀ (l : List (Int × Int)) (off start u : Int), sortedFrom start l →
    ∀ v, (lookupFrom off start l u).2.1 ≤ v → v < (lookupFrom off start l u).2.2 →
      (lookupFrom off start l v).1 = (lookupFrom off start l u).1
  | [], _, _, _, _ => fun _ _ _ => rfl
  | (w, o) :: rest, off, start, u, h => by
    intro v
    unfold lookupFrom
    by_cases hu : u < w
    · rw [if_pos hu]
      intro _ h2
      rw [if_pos h2]
    · rw [if_neg hu]
      intro h1 h2
      have hge := lookupFrom_start_ge rest o w u h.2
      rw [if_neg (by omega)]
      exact lookupFrom_seg rest o w u h.2 v h1 h2

/-- The zone resolution of `time.Date` written with the offset function only: the start/end bookkeeping of the two
lookups is an optimisation.  (Hence boundaries reported by `ZoneBounds` at which the offset does not change
are irrelevant for the model.) -/
theorem goDateSec_eq_offsets (z : Zone) (hz : ZoneSorted z) (u : Int) :
    goDateSec z u = u - z.offsetAt (u - z.offsetAt u) := by
  unfold goDateSec Zone.offsetAt
  have hseg := lookupFrom_seg z.trans z.init alpha u hz
  unfold Zone.lookup at *
  generalize hlk : lookupFrom z.init alpha z.trans u = r at *
  obtain ⟨offset, start, end_⟩ := r
  simp only at hseg ⊢
  by_cases h0 : offset = 0
  · subst h0
    simp only [ne_eq, not_true_eq_false, if_false, Int.sub_zero]
    rw [hlk]; simp
  · rw [if_pos h0]
    by_cases hout : u - offset < start ∨ u - offset ≥ end_
    · rw [if_pos hout]
    · rw [if_neg hout]
      rw [hseg (u - offset) (by omega) (by omega)]

/-! ## soundness of the executable midnight check -/

theorem segAgree_sound {m c off : Int} {lo hi : Option Int} (h : segAgree m c off lo hi = true) (s : Int)
    (hlo : ∀ l, lo = some l → l ≤ s) (hhi : ∀ u, hi = some u → s < u) :
    (m ≤ s + off ↔ c ≤ s) := by
  unfold segAgree at h
  simp only [Bool.or_eq_true, beq_iff_eq] at h
  rcases h with (h | h) | h
  · omega
  · cases lo with
    | none => simp at h
    | some l =>
      simp only [Bool.and_eq_true, decide_eq_true_eq] at h
      have := hlo l rfl; omega
  · cases hi with
    | none => simp at h
    | some u =>
      simp only [Bool.and_eq_true, decide_eq_true_eq] at h
      have := hhi u rfl; omega

theorem iffOKFrom_sound {m c : Int} : ∀ (l : List (Int × Int)) (off start : Int) (lo : Option Int),
    iffOKFrom m c off lo l = true → ∀ s, (∀ b, lo = some b → b ≤ s) →
      (m ≤ s + (lookupFrom off start l s).1 ↔ c ≤ s)
  | [], off, start, lo, h, s, hlo => by
    unfold iffOKFrom at h
    unfold lookupFrom
    exact segAgree_sound h s hlo (fun u hu => by cases hu)
  | (w, o) :: rest, off, start, lo, h, s, hlo => by
    unfold iffOKFrom at h
    simp only [Bool.and_eq_true] at h
    unfold lookupFrom
    by_cases hs : s < w
    · rw [if_pos hs]
      exact segAgree_sound h.1 s hlo (fun u hu => by cases hu; exact hs)
    · rw [if_neg hs]
      exact iffOKFrom_sound rest o w (some w) h.2 s (fun b hb => by cases hb; omega)

theorem checkMid_sound {z : Zone} {D : Int} (h : checkMid z D = true) : MidOK z D := by
  unfold checkMid at h
  simp only [Bool.and_eq_true, beq_iff_eq] at h
  refine ⟨h.1, fun s => ?_⟩
  have := iffOKFrom_sound z.trans z.init alpha none h.2 s (fun b hb => by cases hb)
  unfold localDay localSecs Zone.offsetAt Zone.lookup
  rw [← this]; omega


end ShpanVerif.Proofs.Period
