/-
Helper lemmas for C12 (alignment periods): the proleptic Gregorian calendar functions of
Model/Period.lean are consistent (`monthIdx_spec`, `monthStart_lt_succ`, …), the tiling laws
(`TilesOn`), day grids, well-behaved local midnights (`MidOK`), the generic tiling theorem
(`tiles_of_grid`), the model's calendar kinds in grid form, fixed-offset zones, floor arithmetic of
the fixed period, and the timestamp generator.  Core Lean only.
-/
import ShpanVerif.Model.Period
namespace ShpanVerif.Proofs.Period
open ShpanVerif.Model.Period

theorem yearStart_succ (y : Int) : 365 ≤ yearStart (y + 1) - yearStart y ∧ yearStart (y + 1) - yearStart y ≤ 366 := by
  unfold yearStart; omega

theorem monthOff_lt_succ (mp : Int) : monthOff mp < monthOff (mp + 1) := by
  unfold monthOff; omega

theorem monthOff_zero : monthOff 0 = 0 := by decide
theorem monthOff_eleven : monthOff 11 = 337 := by decide

theorem monthStartK_lt_succ (K : Int) : monthStartK K < monthStartK (K + 1) := by
  unfold monthStartK
  by_cases h : K % 12 = 11
  · have h1 : (K + 1) / 12 = K / 12 + 1 := by omega
    have h2 : (K + 1) % 12 = 0 := by omega
    rw [h1, h2, h, monthOff_zero, monthOff_eleven]
    have := yearStart_succ (K / 12)
    omega
  · have h1 : (K + 1) / 12 = K / 12 := by omega
    have h2 : (K + 1) % 12 = K % 12 + 1 := by omega
    rw [h1, h2]
    have := monthOff_lt_succ (K % 12)
    omega

theorem monthStart_lt_succ (M : Int) : monthStart M < monthStart (M + 1) := by
  unfold monthStart
  have := monthStartK_lt_succ (M - 2)
  have e : M + 1 - 2 = M - 2 + 1 := by omega
  rw [e]; exact this

theorem yearOfZ_spec (zd : Int) : yearStart (yearOfZ zd) ≤ zd ∧ zd < yearStart (yearOfZ zd + 1) := by
  unfold yearOfZ
  simp only
  split
  · rename_i h
    refine ⟨?_, by simpa using h⟩
    unfold yearStart at *; omega
  · split
    · rename_i h1 h2
      refine ⟨h2, ?_⟩
      unfold yearStart at *; omega
    · rename_i h1 h2
      exact ⟨by omega, by omega⟩

/-- the month found for day `L` contains `L` -/
theorem monthIdx_spec (L : Int) : monthStart (monthIdx L) ≤ L ∧ L < monthStart (monthIdx L + 1) := by
  obtain ⟨h1, h2⟩ := yearOfZ_spec (L + 719468)
  have hy := yearStart_succ (yearOfZ (L + 719468))
  unfold monthIdx monthStart
  simp only
  generalize yearOfZ (L + 719468) = y at *
  generalize hdoy : L + 719468 - yearStart y = doy
  have hd0 : 0 ≤ doy := by omega
  have hd1 : doy ≤ 365 := by omega
  generalize hmp : (5 * doy + 2) / 153 = mp
  have hm0 : 0 ≤ mp := by omega
  have hm1 : mp ≤ 11 := by omega
  have e1 : 12 * y + mp + 2 - 2 = 12 * y + mp := by omega
  have e2 : 12 * y + mp + 2 + 1 - 2 = 12 * y + mp + 1 := by omega
  rw [e1, e2]
  unfold monthStartK
  have e3 : (12 * y + mp) / 12 = y := by omega
  have e4 : (12 * y + mp) % 12 = mp := by omega
  rw [e3, e4]
  constructor
  · unfold monthOff; omega
  · by_cases h11 : mp = 11
    · have e5 : (12 * y + mp + 1) / 12 = y + 1 := by omega
      have e6 : (12 * y + mp + 1) % 12 = 0 := by omega
      rw [e5, e6, monthOff_zero]; omega
    · have e5 : (12 * y + mp + 1) / 12 = y := by omega
      have e6 : (12 * y + mp + 1) % 12 = mp + 1 := by omega
      rw [e5, e6]; unfold monthOff; omega

theorem monthStart_lt_add (M : Int) (n : Nat) : monthStart M < monthStart (M + (n + 1 : Nat)) := by
  induction n with
  | zero => simpa using monthStart_lt_succ M
  | succ n ih =>
    have := monthStart_lt_succ (M + (n + 1 : Nat))
    have e : M + ((n + 1 + 1 : Nat) : Int) = M + ((n + 1 : Nat) : Int) + 1 := by omega
    rw [e]; omega

theorem monthStart_strictMono {M M' : Int} (h : M < M') : monthStart M < monthStart M' := by
  have := monthStart_lt_add M ((M' - M - 1).toNat)
  have e : M + (((M' - M - 1).toNat + 1 : Nat) : Int) = M' := by omega
  rw [e] at this; exact this

theorem monthStart_mono {M M' : Int} (h : M ≤ M') : monthStart M ≤ monthStart M' := by
  rcases Int.lt_or_eq_of_le h with h | h
  · exact Int.le_of_lt (monthStart_strictMono h)
  · rw [h]; exact Int.le_refl _

theorem monthStart_lt_iff {M M' : Int} : monthStart M < monthStart M' ↔ M < M' := by
  constructor
  · intro h
    by_cases h' : M < M'
    · exact h'
    · have := monthStart_mono (show M' ≤ M by omega); omega
  · exact monthStart_strictMono

theorem monthStart_le_iff {M M' : Int} : monthStart M ≤ monthStart M' ↔ M ≤ M' := by
  have := @monthStart_lt_iff M' M
  constructor
  · intro h; by_cases h' : M ≤ M'
    · exact h'
    · have := monthStart_strictMono (show M' < M by omega); omega
  · exact monthStart_mono

/-- `monthIdx L = M` exactly when `L` lies in month `M` -/
theorem monthIdx_eq_iff (L M : Int) : monthIdx L = M ↔ monthStart M ≤ L ∧ L < monthStart (M + 1) := by
  constructor
  · intro h; rw [← h]; exact monthIdx_spec L
  · intro ⟨h1, h2⟩
    obtain ⟨g1, g2⟩ := monthIdx_spec L
    have a : monthStart M < monthStart (monthIdx L + 1) := by omega
    have b : monthStart (monthIdx L) < monthStart (M + 1) := by omega
    rw [monthStart_lt_iff] at a b
    omega

theorem monthIdx_monthStart (M : Int) : monthIdx (monthStart M) = M :=
  (monthIdx_eq_iff _ _).2 ⟨Int.le_refl _, monthStart_lt_succ M⟩

theorem monthIdx_mono {L L' : Int} (h : L ≤ L') : monthIdx L ≤ monthIdx L' := by
  obtain ⟨g1, _⟩ := monthIdx_spec L
  obtain ⟨_, g2'⟩ := monthIdx_spec L'
  have : monthStart (monthIdx L) < monthStart (monthIdx L' + 1) := by omega
  rw [monthStart_lt_iff] at this; omega

/-- `monthStart M ≤ L ↔ M ≤ monthIdx L` (Galois connection) -/
theorem monthStart_le_iff_le_monthIdx (M L : Int) : monthStart M ≤ L ↔ M ≤ monthIdx L := by
  obtain ⟨g1, g2⟩ := monthIdx_spec L
  constructor
  · intro h
    have : monthStart M < monthStart (monthIdx L + 1) := by omega
    rw [monthStart_lt_iff] at this; omega
  · intro h
    have := monthStart_mono h; omega

/-- `Date()` then `Date(y, m, d)` gives the day back -/
theorem civilDays_civil (L : Int) : (match civil L with | (y, m, d) => civilDays y m d) = L := by
  unfold civil civilDays
  simp only
  have e : 12 * (monthIdx L / 12) + (monthIdx L % 12 + 1 - 1) = monthIdx L := by omega
  rw [e]; omega

/-- civil fields are in range -/
theorem civil_range (L : Int) : 1 ≤ (civil L).2.1 ∧ (civil L).2.1 ≤ 12 ∧ 1 ≤ (civil L).2.2 ∧ (civil L).2.2 ≤ 31 := by
  obtain ⟨g1, g2⟩ := monthIdx_spec L
  unfold civil; simp only
  refine ⟨by omega, by omega, by omega, ?_⟩
  -- month length ≤ 31
  have : monthStart (monthIdx L + 1) - monthStart (monthIdx L) ≤ 31 := by
    generalize monthIdx L = M
    unfold monthStart monthStartK
    have e : M + 1 - 2 = M - 2 + 1 := by omega
    rw [e]
    generalize M - 2 = K
    by_cases h : K % 12 = 11
    · have h1 : (K + 1) / 12 = K / 12 + 1 := by omega
      have h2 : (K + 1) % 12 = 0 := by omega
      rw [h1, h2, h, monthOff_zero, monthOff_eleven]
      have := yearStart_succ (K / 12)
      omega
    · have h1 : (K + 1) / 12 = K / 12 := by omega
      have h2 : (K + 1) % 12 = K % 12 + 1 := by omega
      rw [h1, h2]; unfold monthOff; omega
  omega

/-- The tiling laws of property C12 for a pair of functions on instants, relative to a set `R` of instants. -/
structure TilesOn (R : Int → Prop) (S E : Int → Int) : Prop where
  le : ∀ t, R t → S t ≤ t
  lt : ∀ t, R t → t < E t
  idem : ∀ t, R t → S (S t) = S t
  endStart : ∀ t, R t → S (E t) = E t
  mono : ∀ t t', R t → R t' → t ≤ t' → S t ≤ S t'
  same : ∀ t u, R t → R u → S t ≤ u → u < E t → S u = S t

/-- The tiling laws for every instant. -/
abbrev Tiles (S E : Int → Int) : Prop := TilesOn (fun _ => True) S E

/-! ## day grids -/

/-- A partition of the day numbers into periods: `gs L` = first day of the period containing day `L`,
`gn P` = first day of the period following the one that starts on `P`. -/
structure DayGrid where
  gs : Int → Int
  gn : Int → Int

structure DayGrid.Laws (g : DayGrid) : Prop where
  le : ∀ L, g.gs L ≤ L
  lt : ∀ L, L < g.gn (g.gs L)
  idem : ∀ L, g.gs (g.gs L) = g.gs L
  nextStart : ∀ L, g.gs (g.gn (g.gs L)) = g.gn (g.gs L)
  mono : ∀ L L', L ≤ L' → g.gs L ≤ g.gs L'
  same : ∀ L L', g.gs L ≤ L' → L' < g.gn (g.gs L) → g.gs L' = g.gs L

/-- `time.Date(<day D>, 00:00:00, loc)` as unix seconds -/
def mid (z : Zone) (D : Int) : Int := goDateSec z (D * 86400)

/-- Local midnight of day `D` is well behaved in zone `z`: `time.Date` returns an instant whose wall clock is
exactly `D 00:00:00`, and that instant is the first one of local day `D` or later
(the local date never reaches `D` before it and never falls below `D` after it). -/
def MidOK (z : Zone) (D : Int) : Prop :=
  localSecs z (mid z D) = D * 86400 ∧ ∀ s, D ≤ localDay z s ↔ mid z D ≤ s

theorem MidOK.localDay_mid {z : Zone} {D : Int} (h : MidOK z D) : localDay z (mid z D) = D := by
  unfold localDay; rw [h.1]; omega

theorem MidOK.secOfDay_mid {z : Zone} {D : Int} (h : MidOK z D) : secOfDay z (mid z D) = 0 := by
  unfold secOfDay; rw [h.1]; omega

/-- Seconds-level tiling from a lawful day grid whose period-start midnights are well behaved. -/
theorem tiles_of_grid (g : DayGrid) (hg : g.Laws) (z : Zone)
    (hm : ∀ P, g.gs P = P → MidOK z P) :
    Tiles (fun s => mid z (g.gs (localDay z s))) (fun s => mid z (g.gn (g.gs (localDay z s)))) := by
  have hP : ∀ L, MidOK z (g.gs L) := fun L => hm _ (hg.idem L)
  have hN : ∀ L, MidOK z (g.gn (g.gs L)) := fun L => hm _ (hg.nextStart L)
  refine ⟨?_, ?_, ?_, ?_, ?_, ?_⟩
  · intro s _
    exact ((hP (localDay z s)).2 s).1 (hg.le _)
  · intro s _
    have := ((hN (localDay z s)).2 s)
    have h2 := hg.lt (localDay z s)
    by_cases h : mid z (g.gn (g.gs (localDay z s))) ≤ s
    · have := this.2 h; omega
    · omega
  · intro s _
    rw [(hP (localDay z s)).localDay_mid, hg.idem]
  · intro s _
    rw [(hN (localDay z s)).localDay_mid, hg.nextStart]
  · intro s s' _ _ hss
    generalize hL : localDay z s = L
    generalize hL' : localDay z s' = L'
    by_cases hc : g.gs L ≤ g.gs L'
    · -- mid P ≤ mid P' because the local day at mid P' is P' ≥ P
      have := ((hP L).2 (mid z (g.gs L'))).1 (by rw [(hP L').localDay_mid]; exact hc)
      exact this
    · exfalso
      -- P' < P: the period after P' starts at or before P, so s (local day ≥ P) is not before it; s ≤ s'
      have hlt : g.gs L' < g.gs L := by omega
      have hN' : g.gn (g.gs L') ≤ g.gs L := by
        by_cases h : g.gn (g.gs L') ≤ g.gs L
        · exact h
        · have := hg.same L' (g.gs L) (by omega) (by omega)
          rw [hg.idem] at this; omega
      have h1 : g.gn (g.gs L') ≤ localDay z s := by rw [hL]; have := hg.le L; omega
      have h2 := ((hN L').2 s).1 h1
      have h3 := ((hN L').2 s').2 (by omega)
      have h4 := hg.lt L'
      omega
  · intro s u _ _ h1 h2
    have a := ((hP (localDay z s)).2 u).2 h1
    have b : localDay z u < g.gn (g.gs (localDay z s)) := by
      by_cases h : g.gn (g.gs (localDay z s)) ≤ localDay z u
      · have := ((hN (localDay z s)).2 u).1 h; omega
      · omega
    rw [hg.same (localDay z s) (localDay z u) a b]

/-- Lifting a seconds-level tiling to nanoseconds (`s = t / NS`, results `* NS`). -/
theorem tiles_lift_ns {S E : Int → Int} (h : Tiles S E) :
    Tiles (fun t => S (t / NS) * NS) (fun t => E (t / NS) * NS) := by
  have hdiv : ∀ x : Int, x * NS / NS = x := by intro x; unfold NS; omega
  refine ⟨?_, ?_, ?_, ?_, ?_, ?_⟩
  · intro t _
    have := h.le (t / NS) trivial
    unfold NS at *; omega
  · intro t _
    have := h.lt (t / NS) trivial
    unfold NS at *; omega
  · intro t _
    rw [hdiv, h.idem _ trivial]
  · intro t _
    rw [hdiv, h.endStart _ trivial]
  · intro t t' _ _ htt
    have := h.mono (t / NS) (t' / NS) trivial trivial (by unfold NS; omega)
    unfold NS at *; omega
  · intro t u _ _ h1 h2
    have := h.same (t / NS) (u / NS) trivial trivial (by unfold NS at *; omega) (by unfold NS at *; omega)
    rw [this]


/-! ## the grids of the calendar kinds -/

def dayGrid : DayGrid := ⟨fun L => L, fun P => P + 1⟩
def weekGrid : DayGrid := ⟨fun L => L - (L + 3) % 7, fun P => P + 7⟩
/-- periods of `k` months starting at month indices divisible by `k` (k = 1, 3, 6, 12) -/
def monthsGrid (k : Int) : DayGrid :=
  ⟨fun L => monthStart (k * (monthIdx L / k)), fun P => monthStart (monthIdx P + k)⟩

theorem dayGrid_laws : dayGrid.Laws := by
  refine ⟨?_, ?_, ?_, ?_, ?_, ?_⟩ <;> intros <;> simp only [dayGrid] at * <;> omega

theorem weekGrid_laws : weekGrid.Laws := by
  refine ⟨?_, ?_, ?_, ?_, ?_, ?_⟩ <;> intros <;> simp only [weekGrid] at * <;> omega

theorem monthsGrid_laws (k : Int) (hk : k = 1 ∨ k = 3 ∨ k = 6 ∨ k = 12) : (monthsGrid k).Laws := by
  refine ⟨?_, ?_, ?_, ?_, ?_, ?_⟩
  · intro L
    have h := monthIdx_spec L
    have : monthStart (k * (monthIdx L / k)) ≤ monthStart (monthIdx L) :=
      monthStart_mono (by rcases hk with rfl | rfl | rfl | rfl <;> omega)
    simp only [monthsGrid]; omega
  · intro L
    have h := monthIdx_spec L
    simp only [monthsGrid, monthIdx_monthStart]
    have : monthStart (monthIdx L + 1) ≤ monthStart (k * (monthIdx L / k) + k) :=
      monthStart_mono (by rcases hk with rfl | rfl | rfl | rfl <;> omega)
    omega
  · intro L
    simp only [monthsGrid, monthIdx_monthStart]
    congr 1
    rcases hk with rfl | rfl | rfl | rfl <;> omega
  · intro L
    simp only [monthsGrid, monthIdx_monthStart]
    congr 1
    rcases hk with rfl | rfl | rfl | rfl <;> omega
  · intro L L' h
    have := monthIdx_mono h
    simp only [monthsGrid]
    exact monthStart_mono (by rcases hk with rfl | rfl | rfl | rfl <;> omega)
  · intro L L' h1 h2
    simp only [monthsGrid, monthIdx_monthStart] at *
    rw [monthStart_le_iff_le_monthIdx] at h1
    have h3 : ¬ (k * (monthIdx L / k) + k ≤ monthIdx L') := by
      intro h; have := (monthStart_le_iff_le_monthIdx _ _).2 h; omega
    congr 1
    rcases hk with rfl | rfl | rfl | rfl <;> omega

/-! ## the model's calendar kinds in grid form -/

theorem civilDays_add_day (y m d k : Int) : civilDays y m (d + k) = civilDays y m d + k := by
  unfold civilDays; omega

/-- `time.Date(Y, M, D of day L, 0:00)` is `mid z L` -/
theorem dateMidnight_civil (z : Zone) (L : Int) :
    (match civil L with | (y, m, d) => dateMidnight z y m d) = mid z L := by
  have h := civilDays_civil L
  unfold dateMidnight mid
  generalize civil L = c at *
  obtain ⟨y, m, d⟩ := c
  simp only at h ⊢
  rw [h]

theorem dayStartSec_eq (z : Zone) (s : Int) : dayStartSec z s = mid z (dayGrid.gs (localDay z s)) := by
  unfold dayStartSec; exact dateMidnight_civil z _

/-- `AddDate` applied to a well-behaved local midnight -/
theorem addDate_mid {z : Zone} {D : Int} (h : MidOK z D) (dy dm dd : Int) :
    addDate z (mid z D) dy dm dd =
      goDateSec z ((match civil D with | (y, m, d) => civilDays (y + dy) (m + dm) (d + dd)) * 86400) := by
  unfold addDate
  rw [h.localDay_mid, h.secOfDay_mid]
  generalize civil D = c
  obtain ⟨y, m, d⟩ := c
  simp only [Int.add_zero]

theorem addDate_mid_days {z : Zone} {D : Int} (h : MidOK z D) (dd : Int) :
    addDate z (mid z D) 0 0 dd = mid z (D + dd) := by
  rw [addDate_mid h]
  have hc := civilDays_civil D
  unfold mid
  generalize civil D = c at *
  obtain ⟨y, m, d⟩ := c
  simp only [Int.add_zero] at hc ⊢
  rw [civilDays_add_day, hc]

theorem dayEndSec_eq {z : Zone} {s : Int} (h : MidOK z (localDay z s)) :
    dayEndSec z s = mid z (dayGrid.gn (dayGrid.gs (localDay z s))) := by
  unfold dayEndSec
  rw [dayStartSec_eq]
  exact addDate_mid_days h 1

/-- The week period's intermediate `t.AddDate(0, 0, -weekday+1)` keeps the calendar day it asks for:
resolving any wall clock of a Monday gives an instant of that Monday. -/
def WeekInterOK (z : Zone) : Prop :=
  ∀ P c, weekGrid.gs P = P → 0 ≤ c → c < 86400 → localDay z (goDateSec z (P * 86400 + c)) = P

theorem weekStartSec_eq {z : Zone} (hw : WeekInterOK z) (s : Int) :
    weekStartSec z s = mid z (weekGrid.gs (localDay z s)) := by
  unfold weekStartSec
  simp only
  have hinter : localDay z (addDate z s 0 0 (-(if weekday (localDay z s) = 0 then 7 else weekday (localDay z s)) + 1))
      = weekGrid.gs (localDay z s) := by
    unfold addDate
    have hc := civilDays_civil (localDay z s)
    generalize hL : localDay z s = L at *
    generalize civil L = c at *
    obtain ⟨y, m, d⟩ := c
    simp only [Int.add_zero] at hc ⊢
    rw [civilDays_add_day, hc]
    have e : L + (-(if weekday L = 0 then 7 else weekday L) + 1) = weekGrid.gs L := by
      unfold weekday; simp only [weekGrid]; split <;> omega
    rw [e]
    apply hw
    · exact weekGrid_laws.idem L
    · unfold secOfDay; omega
    · unfold secOfDay; omega
  rw [hinter]
  exact dateMidnight_civil z _

theorem weekEndSec_eq {z : Zone} (hw : WeekInterOK z) {s : Int} (h : MidOK z (weekGrid.gs (localDay z s))) :
    weekEndSec z s = mid z (weekGrid.gn (weekGrid.gs (localDay z s))) := by
  unfold weekEndSec
  rw [weekStartSec_eq hw]
  exact addDate_mid_days h 7

theorem civil_monthStart (a : Int) : civil (monthStart a) = (a / 12, a % 12 + 1, 1) := by
  unfold civil; simp only [monthIdx_monthStart]; congr 2; omega

theorem dateMidnight_first (z : Zone) (y m : Int) :
    dateMidnight z y m 1 = mid z (monthStart (12 * y + (m - 1))) := by
  unfold dateMidnight mid civilDays
  simp only [Int.sub_self, Int.add_zero]

theorem monthStartSec_eq (z : Zone) (s : Int) : monthStartSec z s = mid z ((monthsGrid 1).gs (localDay z s)) := by
  unfold monthStartSec civil
  simp only [dateMidnight_first, monthsGrid]
  congr 2; omega

theorem quarterStartSec_eq (z : Zone) (s : Int) : quarterStartSec z s = mid z ((monthsGrid 3).gs (localDay z s)) := by
  unfold quarterStartSec civil
  simp only [dateMidnight_first, monthsGrid]
  congr 2; omega

theorem halfStartSec_eq (z : Zone) (s : Int) : halfStartSec z s = mid z ((monthsGrid 6).gs (localDay z s)) := by
  unfold halfStartSec civil
  simp only [dateMidnight_first, monthsGrid]
  congr 2; split <;> omega

theorem yearStartSec_eq (z : Zone) (s : Int) : yearStartSec z s = mid z ((monthsGrid 12).gs (localDay z s)) := by
  unfold yearStartSec civil
  simp only [dateMidnight_first, monthsGrid]
  congr 2; omega

theorem addDate_mid_months {z : Zone} {a : Int} (h : MidOK z (monthStart a)) (dy dm : Int) :
    addDate z (mid z (monthStart a)) dy dm 0 = mid z (monthStart (a + 12 * dy + dm)) := by
  rw [addDate_mid h, civil_monthStart]
  unfold mid civilDays
  simp only [Int.add_zero, Int.sub_self]
  congr 3; omega

theorem monthEndSec_eq {z : Zone} {s : Int} (h : MidOK z ((monthsGrid 1).gs (localDay z s))) :
    monthEndSec z s = mid z ((monthsGrid 1).gn ((monthsGrid 1).gs (localDay z s))) := by
  unfold monthEndSec
  rw [monthStartSec_eq]
  simp only [monthsGrid, monthIdx_monthStart] at h ⊢
  rw [addDate_mid_months h]; congr 2; omega

theorem quarterEndSec_eq {z : Zone} {s : Int} (h : MidOK z ((monthsGrid 3).gs (localDay z s))) :
    quarterEndSec z s = mid z ((monthsGrid 3).gn ((monthsGrid 3).gs (localDay z s))) := by
  unfold quarterEndSec
  rw [quarterStartSec_eq]
  simp only [monthsGrid, monthIdx_monthStart] at h ⊢
  rw [addDate_mid_months h]; congr 2; omega

theorem halfEndSec_eq {z : Zone} {s : Int} (h : MidOK z ((monthsGrid 6).gs (localDay z s))) :
    halfEndSec z s = mid z ((monthsGrid 6).gn ((monthsGrid 6).gs (localDay z s))) := by
  unfold halfEndSec
  rw [halfStartSec_eq]
  simp only [monthsGrid, monthIdx_monthStart] at h ⊢
  rw [addDate_mid_months h]; congr 2; omega

theorem yearEndSec_eq {z : Zone} {s : Int} (h : MidOK z ((monthsGrid 12).gs (localDay z s))) :
    yearEndSec z s = mid z ((monthsGrid 12).gn ((monthsGrid 12).gs (localDay z s))) := by
  unfold yearEndSec
  rw [yearStartSec_eq]
  simp only [monthsGrid, monthIdx_monthStart] at h ⊢
  rw [addDate_mid_months h]; congr 2; omega

end ShpanVerif.Proofs.Period
