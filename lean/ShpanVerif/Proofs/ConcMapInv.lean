/-
Inductive invariants of the concurrent-map transition system (`Model/ConcMap.lean`), over ALL labels
(every schedule, every environment behaviour) unless a hypothesis says otherwise.
-/
import ShpanVerif.Model.ConcMap

namespace ShpanVerif.Proofs.ConcMap
open ShpanVerif.Model.Conc ShpanVerif.Model.ConcMap

/-- One-step case analysis: split the step function on the label and on every guard. -/
macro "step_cases" hs:ident : tactic =>
  `(tactic| (cases ‹Label› <;> simp only [step] at $hs:ident <;> (repeat' split at $hs:ident) <;>
      (try (simp at $hs:ident)) <;> (try (subst $hs:ident))))

/-- Structural invariants: worker accounting, channel bounds, producer phases, context links. -/
structure Basic (cfg : Cfg) (s : St) : Prop where
  workers : s.wIdle + s.wMap.length + s.wHold.length + s.wExit = cfg.c
  srcCap : s.srcChan.length ≤ cfg.c
  tgtCap : s.tgtChan.length ≤ cfg.c
  cursor_le : s.cursor ≤ cfg.n
  emitting_eq : s.emitting = if s.prod = .inEmit then 1 else 0
  eof_cursor : s.eof = true → s.cursor = cfg.n ∧
    (s.prod = .stopping ∨ s.prod = .closing ∨ s.prod = .waiting ∨ s.prod = .done)
  srcCh : s.srcChClosed = true ↔ (s.prod = .waiting ∨ s.prod = .done)
  pStop_iff : s.pStopped = true ↔ (s.prod = .closing ∨ s.prod = .waiting ∨ s.prod = .done)
  pcancel_fix : s.pcancel = true → cfg.fix5 = true
  pcancel_cons : s.pcancel = true →
    (s.cons = .closeW ∨ s.cons = .closeP ∨ s.cons = .close1 ∨ s.cons = .close2 ∨ s.cons = .ret)
  cons_pcancel : cfg.fix5 = true →
    (s.cons = .closeW ∨ s.cons = .closeP ∨ s.cons = .close1 ∨ s.cons = .close2 ∨ s.cons = .ret) → s.pcancel = true
  closeW_fix : cfg.fix5 = false → s.cons ≠ .closeW
  joined : cfg.fix5 = true → (s.cons = .closeP ∨ s.cons = .close1 ∨ s.cons = .close2 ∨ s.cons = .ret) →
    s.pStopped = true
  tgtCl : s.tgtClosed = true ↔ s.prod = .done
  done_exit : s.prod = .done → s.wExit = cfg.c
  exit_why : 0 < s.wExit → s.ctx1 = true ∨ s.srcChClosed = true
  ret_term : s.cons = .ret ↔ s.term1 = true
  res_iff : s.res = none ↔ (s.cons = .check ∨ s.cons = .sel ∨ s.cons = .got)
  closed_iff : s.srcClosed = true ↔ (s.cons = .close1 ∨ s.cons = .close2 ∨ s.cons = .ret)
  stopped_cons : s.stopped = true → s.res ≠ none
  drained_done : s.drained = true → s.prod = .done ∧ s.res ≠ none
  closes_eq : s.closes = if s.srcClosed then 1 else 0

theorem basic_init (cfg : Cfg) : Basic cfg (init cfg) := by
  constructor <;> simp [init, St.ctx1, St.pctx]

set_option maxHeartbeats 2000000 in
theorem basic_step {cfg : Cfg} {s s' : St} {l : Label} (h : Basic cfg s) (hs : step cfg s l = some s') :
    Basic cfg s' := by
  obtain ⟨h1, h2, h3, h4, h5, h6, h7, h8, h9, h10, h11, h12, h13, h14, h15, h16, h17, h18, h19, h20, h21, h22⟩ := h
  step_cases hs <;>
    (constructor <;> (try (simp_all [List.length_erase_of_mem, St.ctx1, St.pctx])) <;> (try grind [List.length_pos_of_mem]))

theorem basic {cfg : Cfg} {s : St} (hr : Reachable (sys cfg) s) : Basic cfg s :=
  invariant (sys := sys cfg) (basic_init cfg) (fun _ _ _ h hs => basic_step h hs) s hr

/-- The code as it is (`fix5`): no Emit ever starts outside the open window and Close never overlaps an Emit. -/
def NoBad (s : St) : Prop := s.badWindow = false ∧ s.badOverlap = false

theorem noBad_step {cfg : Cfg} {s s' : St} {l : Label} (hfix : cfg.fix5 = true) (hb : Basic cfg s) (h : NoBad s)
    (hs : step cfg s l = some s') : NoBad s' := by
  obtain ⟨w1, w2⟩ := h
  unfold NoBad
  by_cases hl : l = .pTop
  · subst hl
    simp only [step] at hs
    split at hs
    · split at hs
      · simp at hs; subst hs; exact ⟨w1, w2⟩
      · rename_i hp hctx
        simp only [Option.some.injEq] at hs
        subst hs
        refine ⟨?_, w2⟩
        -- producerCtx is live, so cancelProducer was not called, so Close was not called
        have hpc : s.pcancel = false := by
          cases h : s.pcancel
          · rfl
          · simp [St.pctx, h] at hctx
        have hcl : s.srcClosed = false := by
          cases h : s.srcClosed
          · rfl
          · have hc := hb.closed_iff.mp h
            have := hb.cons_pcancel hfix (by rcases hc with h | h | h <;> simp [h])
            simp [hpc] at this
        simp [w1, hcl]
    · simp at hs
  · by_cases hl2 : l = .cCloseP
    · subst hl2
      simp only [step] at hs
      split at hs
      · rename_i hc
        simp only [Option.some.injEq] at hs
        subst hs
        refine ⟨w1, ?_⟩
        have hst := hb.joined hfix (Or.inl hc)
        have hp := hb.pStop_iff.mp hst
        have he := hb.emitting_eq
        have : s.emitting = 0 := by rcases hp with h | h | h <;> simpa [h] using he
        simp [w2, this]
      · simp at hs
    · step_cases hs <;> (first | exact absurd rfl hl | exact absurd rfl hl2 | exact ⟨w1, w2⟩)

theorem noBad {cfg : Cfg} {s : St} (hfix : cfg.fix5 = true) (hr : Reachable (sys cfg) s) : NoBad s := by
  have : Basic cfg s ∧ NoBad s := by
    refine invariant (sys := sys cfg) (P := fun s => Basic cfg s ∧ NoBad s) ?_ ?_ s hr
    · exact ⟨basic_init cfg, by simp [NoBad, sys, init]⟩
    · intro s l s' h hs
      exact ⟨basic_step h.1 hs, noBad_step hfix h.1 h.2 hs⟩
  exact this.2

@[simp] theorem cntItems_nil (i : Nat) : cntItems i [] = 0 := rfl
theorem cntItems_cons (i : Nat) (it : Item) (l : List Item) :
    cntItems i (it :: l) = cntItems i l + (if Item.isVal i it then 1 else 0) := by
  simp [cntItems, List.countP_cons]
@[simp] theorem cntItems_append (i : Nat) (l l' : List Item) : cntItems i (l ++ l') = cntItems i l + cntItems i l' := by
  simp [cntItems]
theorem cntItems_erase (i : Nat) (it : Item) (l : List Item) (h : it ∈ l) :
    cntItems i (l.erase it) + (if Item.isVal i it then 1 else 0) = cntItems i l := by
  induction l with
  | nil => simp at h
  | cons x xs ih =>
    by_cases hx : x = it
    · subst hx; simp [cntItems_cons]
    · have : it ∈ xs := by
        cases h with
        | head => exact absurd rfl hx
        | tail _ h => exact h
      have hne : (x == it) = false := by simpa using hx
      rw [List.erase_cons, hne]
      simp only [Bool.false_eq_true, ↓reduceIte, cntItems_cons]
      have := ih this
      omega

theorem count_erase_add (i j : Nat) (l : List Nat) (h : j ∈ l) :
    (l.erase j).count i + (if i = j then 1 else 0) = l.count i := by
  rw [List.count_erase]
  have := List.count_pos_iff.mpr h
  by_cases hij : i = j
  · subst hij; simp; omega
  · have : (j == i) = false := by simpa using (fun h => hij h.symm)
    simp [hij, this]

/-- Failure-free history: no cancellation, no injected failure, the downstream never stopped early. -/
def FF (s : St) : Prop := s.ctx0 = false ∧ s.faulted = false ∧ s.stopped = false

structure Exact (cfg : Cfg) (s : St) : Prop where
  cons : ∀ i, cnt i s = if i < s.cursor then 1 else 0
  mapped : ∀ i, s.mapCalls.count i = s.wMap.count i + cntItems i s.wHold + cntItems i s.tgtChan + s.delivered.count i
  noErrSrc : Item.err ∉ s.srcChan
  noErrHold : Item.err ∉ s.wHold
  noErrTgt : Item.err ∉ s.tgtChan
  noErrHand : s.prod ≠ .have .err
  exit_closed : 0 < s.wExit → s.srcChClosed = true ∧ s.srcChan = []
  prod_eof : (s.prod = .stopping ∨ s.prod = .closing ∨ s.prod = .waiting ∨ s.prod = .done) → s.eof = true
  closing_done : s.res ≠ none → s.prod = .done ∧ s.tgtChan = [] ∧ s.res = some .ok

set_option maxHeartbeats 4000000 in
theorem exact_step {cfg : Cfg} {s s' : St} {l : Label} (hb : Basic cfg s) (h : FF s → Exact cfg s)
    (hs : step cfg s l = some s') : FF s' → Exact cfg s' := by
  intro hff
  obtain ⟨b1, b2, b3, b4, b5, b6, b7, b8, b9, b10, b11, b12, b13, b14, b15, b16, b17, b18, b19, b20, b21⟩ := hb
  step_cases hs <;> simp only [FF] at hff <;> (try (simp at hff; done)) <;>
    (obtain ⟨e1, e0, e2, e3, e4, e5, e6, e7, e8⟩ := h (by simpa [FF] using hff)) <;>
    (constructor <;> (try intro i) <;> (try have hi := e1 i) <;> (try have hj := e0 i) <;> simp_all [cnt, inHand, cntItems_cons, St.ctx1, St.pctx] <;>
      grind [cntItems_erase, count_erase_add, Item.isVal, List.mem_of_mem_erase])


/-- No element is duplicated or invented, under every schedule, fault and cancellation. -/
structure AtMostOnce (s : St) : Prop where
  le : ∀ i, cnt i s ≤ if i < s.cursor then 1 else 0
  /-- the mapper is never invoked twice for an element, nor for an invented one -/
  mapped : ∀ i, inHand i s.prod + cntItems i s.srcChan + s.mapCalls.count i ≤ if i < s.cursor then 1 else 0

set_option maxHeartbeats 2000000 in
theorem atMostOnce_step {cfg : Cfg} {s s' : St} {l : Label} (h : AtMostOnce s) (hs : step cfg s l = some s') :
    AtMostOnce s' := by
  obtain ⟨a1, a2⟩ := h
  step_cases hs <;> (constructor <;> intro i <;> have hi := a1 i <;> have hj := a2 i <;>
    simp_all [cnt, inHand, cntItems_cons] <;> grind [cntItems_erase, count_erase_add, Item.isVal])


theorem atMostOnce {cfg : Cfg} {s : St} (hr : Reachable (sys cfg) s) : AtMostOnce s :=
  invariant (sys := sys cfg) (P := AtMostOnce) (by constructor <;> intro i <;> simp [sys, init, cnt, inHand])
    (fun _ _ _ h hs => atMostOnce_step h hs) s hr

theorem exact {cfg : Cfg} {s : St} (hr : Reachable (sys cfg) s) : FF s → Exact cfg s := by
  have : Basic cfg s ∧ (FF s → Exact cfg s) := by
    refine invariant (sys := sys cfg) (P := fun s => Basic cfg s ∧ (FF s → Exact cfg s)) ?_ ?_ s hr
    · refine ⟨basic_init cfg, fun _ => ?_⟩
      constructor <;> simp [sys, init, cnt, inHand]
    · intro s l s' h hs
      exact ⟨basic_step h.1 hs, exact_step h.1 h.2 hs⟩
  exact this.2

end ShpanVerif.Proofs.ConcMap
