/-
FlatMap model (`Model/PipeDyn.lean`), C05: how often the outer probe source is pulled.  In a fault-free world the number of
`Emit` calls the outer source receives is exactly the list-level demand `needPulls` (pulls needed to deliver the next n
elements: the elements' producers, the filtered-out and empty-stream producers before them, and the pull that answers EOF
or produces an `Error` stream when the stream ends first).
-/
import ShpanVerif.Proofs.PipeDynInv

namespace ShpanVerif.Proofs.PipeDyn
open ShpanVerif.Model.Pipe ShpanVerif.Model.PipeDyn

/-- number of Emit calls resource `r0` has received so far -/
def P (r0 : Nat) (w : World) : Nat := pulls w.trace r0

theorem P_call (r0 : Nat) (w : World) : P r0 (w.call).2 = P r0 w := by
  unfold World.call P pulls
  split
  · split
    · split <;> simp
    · simp
  · simp

theorem P_userCall (r0 : Nat) (w : World) : P r0 (userCall w).2 = P r0 w := P_call r0 w

theorem P_emitRes (r0 r : Nat) (w : World) : P r0 (emitRes r w).2 = P r0 w + (if r = r0 then 1 else 0) := by
  have := P_call r0 w
  unfold emitRes
  generalize w.call = x at *
  obtain ⟨h, w'⟩ := x
  unfold P pulls at *
  simp only [List.count_append, this]
  by_cases e : r = r0 <;> simp [e]

theorem P_openRes (r0 r : Nat) (w : World) : P r0 (openRes r w).2 = P r0 w := by
  have := P_call r0 w
  unfold openRes
  generalize w.call = x at *
  obtain ⟨h, w'⟩ := x
  unfold P pulls at *
  cases h <;> simp [List.count_append, this]

theorem P_closeRes (r0 r : Nat) (w : World) : P r0 (closeRes r w) = P r0 w := by
  unfold closeRes P pulls; simp [List.count_append]

theorem applyOps_P (r0 : Nat) : ∀ (ops : List OOp) (v : V) (w : World), P r0 (applyOps ops v w).2 = P r0 w
  | [], v, w => rfl
  | .peek :: ops, v, w => by
      have hu := P_userCall r0 w
      simp only [applyOps]
      generalize userCall w = x at *
      obtain ⟨hit, w'⟩ := x
      have ih := applyOps_P r0 ops v w'
      cases hit <;> simp_all
  | .map f :: ops, v, w => by
      have hu := P_userCall r0 w
      simp only [applyOps]
      generalize userCall w = x at *
      obtain ⟨hit, w'⟩ := x
      have ih := applyOps_P r0 ops (f.app v) w'
      cases hit <;> simp_all
  | .filter p :: ops, v, w => by
      have hu := P_userCall r0 w
      simp only [applyOps]
      generalize userCall w = x at *
      obtain ⟨hit, w'⟩ := x
      have ih := applyOps_P r0 ops v w'
      cases hit <;> by_cases hp : p.app v <;> simp_all

/-- in a clean world the outer stream costs one pull per source element it goes through, plus one for EOF -/
theorem emitRest_P (r0 : Nat) (ops : List OOp) : ∀ (rest : List Int) (w : World), w.Clean →
    match nextOuter ops rest with
    | some (_, rest') => P r0 (emitRest r0 ops rest w).2.2 + rest'.length = P r0 w + rest.length
    | none => P r0 (emitRest r0 ops rest w).2.2 = P r0 w + rest.length + 1
  | [], w, h => by
      have he := emitRes_clean r0 h
      have hp := P_emitRes r0 r0 w
      simp only [emitRest, nextOuter]
      generalize emitRes r0 w = x at *
      obtain ⟨hit, w'⟩ := x
      simp_all
  | x :: rest, w, h => by
      have he := emitRes_clean r0 h
      have hp := P_emitRes r0 r0 w
      have ha := applyOps_clean ops (.int x) (emitRes r0 w).2 he.2
      have hpa := applyOps_P r0 ops (.int x) (emitRes r0 w).2
      have ih := emitRest_P r0 ops rest (applyOps ops (.int x) (emitRes r0 w).2).2 ha.2
      simp only [emitRest, nextOuter]
      generalize emitRes r0 w = y at *
      obtain ⟨hit, w'⟩ := y
      simp only at he ha ih hp hpa
      obtain ⟨rfl, hc⟩ := he
      simp only []
      generalize applyOps ops (.int x) w' = z at *
      obtain ⟨res, w''⟩ := z
      simp only at ha ih hpa
      obtain ⟨rfl, hc'⟩ := ha
      cases hx : opsPure ops (.int x) with
      | some v => simp [hpa, hp]; omega
      | none =>
          simp only []
          cases hn : nextOuter ops rest with
          | none => rw [hn] at ih; simp only at ih ⊢; simp [ih, hpa, hp]; omega
          | some q => rw [hn] at ih; simp only at ih ⊢; simp [hpa, hp] at ih ⊢; omega

theorem needPulls_none {ops : List OOp} {g : V → Inner} (n : Nat) : ∀ {rest : List Int}, nextOuter ops rest = none →
    needPulls ops g n rest = rest.length + 1
  | [], _ => rfl
  | x :: rest, h => by
      simp only [nextOuter] at h
      split at h
      · simp at h
      · rename_i hx
        simp only [needPulls, hx]
        rw [needPulls_none n h]; simp; omega

theorem needPulls_some {ops : List OOp} {g : V → Inner} (n : Nat) : ∀ {rest : List Int} {v : V} {rest' : List Int},
    nextOuter ops rest = some (v, rest') →
    needPulls ops g n rest + rest'.length = rest.length +
      (if (g v).isError then 0 else if n ≤ (g v).elems.length then 0 else needPulls ops g (n - (g v).elems.length) rest')
  | [], _, _, h => by simp [nextOuter] at h
  | x :: rest, v, rest', h => by
      simp only [nextOuter] at h
      split at h
      · rename_i u hx
        simp at h
        obtain ⟨rfl, rfl⟩ := h
        simp only [needPulls, hx]
        split
        · simp; omega
        · split
          · simp; omega
          · simp; omega
      · rename_i hx
        have := needPulls_some (g := g) n h
        simp only [needPulls, hx, List.length_cons]
        omega

theorem needPulls_le (ops : List OOp) (g : V → Inner) : ∀ (n : Nat) (rest : List Int), needPulls ops g n rest ≤ rest.length + 1
  | _, [] => by simp [needPulls]
  | n, x :: rest => by
      simp only [needPulls]
      split
      · have := needPulls_le ops g n rest; simp; omega
      · rename_i v hv
        split
        · simp
        · split
          · simp
          · have := needPulls_le ops g (n - (g v).elems.length) rest; simp; omega

/-! ### inner streams never pull the outer source -/

theorem openI_P (r0 : Nat) (s : InnerS) (w : World) : P r0 (openI s w).2.2 = P r0 w := by
  cases s with
  | probe r ys rest =>
      have := P_openRes r0 r w
      simp only [openI]
      generalize openRes r w = x at *
      obtain ⟨res, w'⟩ := x
      cases res <;> simpa using this
  | _ => rfl

theorem iterStep_P (r0 r : Nat) (ys rest : List V) (w : World) : P r0 (iterStep r ys rest w).2.2 = P r0 w := by
  cases rest with
  | nil => exact P_closeRes r0 r w
  | cons y rest => rfl

theorem emitI_P (r0 : Nat) (s : InnerS) (w : World) (h : sres s ≠ some r0) : P r0 (emitI s w).2.2 = P r0 w := by
  cases s with
  | probe r ys rest =>
      have hr : r ≠ r0 := by intro e; apply h; simp [sres, e]
      have := P_emitRes r0 r w
      simp only [emitI]
      generalize emitRes r w = x at *
      obtain ⟨hit, w'⟩ := x
      simp only [hr, if_false, Nat.add_zero] at this
      cases hit with
      | none => cases rest <;> simpa using this
      | err => simpa using this
      | panic b => simpa using this
  | just ys rest =>
      simp only [emitI]
      split
      · rfl
      · cases rest <;> rfl
  | empty => rfl
  | error => rfl
  | iter r ys st =>
      simp only [emitI]
      split
      · rfl
      · cases st with
        | fresh =>
            have := P_openRes r0 r w
            simp only []
            generalize openRes r w = x at *
            obtain ⟨res, w'⟩ := x
            simp only at this
            cases res with
            | val u => simp only []; rw [iterStep_P]; exact this
            | _ => simpa using this
        | running rest => exact iterStep_P r0 r ys rest w
        | done => rfl

theorem closeI_P (r0 : Nat) (s : InnerS) (w : World) : P r0 (closeI s w).2 = P r0 w := by
  cases s with
  | probe r ys rest => exact P_closeRes r0 r w
  | iter r ys st => cases st <;> first | rfl | exact P_closeRes r0 r w
  | _ => rfl

theorem closeFunc_P (r0 : Nat) (c : Obj) (w : World) : P r0 (closeFunc c w).2 = P r0 w := by
  rw [closeFunc_eq]
  have h1 : P r0 (closeCur c w).2 = P r0 w := by
    unfold closeCur
    cases c.curOpen <;> cases c.cur <;> first | rfl | exact closeI_P r0 _ w
  unfold closeOut
  split
  · rw [P_closeRes]; exact h1
  · exact h1

theorem pullOuter_P (c : Obj) {w : World} (h : w.Clean) :
    match nextOuter c.ops c.rest with
    | some (_, rest') => P c.r0 (pullOuter c w).2.2 + rest'.length = P c.r0 w + c.rest.length
    | none => P c.r0 (pullOuter c w).2.2 = P c.r0 w + c.rest.length + 1 := by
  have he := emitRest_clean c.r0 c.ops c.rest w h
  have hp := emitRest_P c.r0 c.ops c.rest w h
  simp only [pullOuter]
  generalize emitRest c.r0 c.ops c.rest w = x at *
  obtain ⟨res, rest1, w1⟩ := x
  simp only at he hp
  obtain ⟨hc, hm⟩ := he
  cases hn : nextOuter c.ops c.rest with
  | none =>
      rw [hn] at hm hp; simp only at hm hp; obtain ⟨rfl, rfl⟩ := hm
      simpa using hp
  | some q =>
      obtain ⟨v, rest'⟩ := q
      rw [hn] at hm hp; simp only at hm hp; obtain ⟨rfl, rfl⟩ := hm
      have hu := P_userCall c.r0 w1
      simp only []
      generalize userCall w1 = y at *
      obtain ⟨hit, w2⟩ := y
      simp only at hu
      cases hit <;> (simp only []; rw [hu]; exact hp)

theorem openNext_P (r0 : Nat) (c : Obj) (i : Inner) (w : World) : P r0 (openNext c i w).2.2 = P r0 w := by
  have := openI_P r0 i.init w
  simp only [openNext]
  generalize openI i.init w = x at *
  obtain ⟨res, s, w'⟩ := x
  cases res <;> simpa using this

/-! ### the concatenation -/

/-- pulls of the outer source needed to deliver `n` more elements from state `c` -/
def demandFrom (c : Obj) (n : Nat) : Nat :=
  match c.cur with
  | none => 0
  | some s => if n ≤ (remaining s).length then 0 else needPulls c.ops c.g (n - (remaining s).length) c.rest

/-- the current inner stream does not work on the outer source's resource -/
def NoR0 (c : Obj) : Prop := ∀ s, c.cur = some s → sres s ≠ some c.r0

theorem sres_emitI (s : InnerS) (w : World) : sres (emitI s w).2.1 = sres s := by
  cases s with
  | probe r ys rest =>
      simp only [emitI]
      generalize emitRes r w = x
      obtain ⟨hit, w'⟩ := x
      cases hit <;> cases rest <;> rfl
  | just ys rest => simp only [emitI]; split <;> cases rest <;> rfl
  | empty => rfl
  | error => rfl
  | iter r ys st =>
      simp only [emitI]
      split
      · rfl
      · cases st with
        | fresh =>
            simp only []
            generalize openRes r w = x
            obtain ⟨res, w'⟩ := x
            cases res with
            | val u => cases ys <;> rfl
            | _ => rfl
        | running rest => cases rest <;> rfl
        | done => rfl

theorem sres_openI (i : Inner) (w : World) : sres (openI i.init w).2.1 = ires i := by
  cases i with
  | probe r ys =>
      simp only [Inner.init, openI]
      generalize openRes r w = x
      obtain ⟨res, w'⟩ := x
      cases res <;> rfl
  | _ => rfl

theorem openNext_cur (c : Obj) (i : Inner) (w : World) (s : InnerS) (h : (openNext c i w).2.1.cur = some s) :
    c.cur = some s ∨ sres s = ires i := by
  have hso := sres_openI i w
  simp only [openNext] at h
  generalize openI i.init w = x at *
  obtain ⟨res, s1, w'⟩ := x
  cases res with
  | val u => simp at h; subst h; exact Or.inr hso
  | panic b => exact Or.inl h
  | eof => simp at h
  | fail e => simp at h
  | oof => simp at h

theorem openNext_cur_val (c : Obj) (i : Inner) (w : World) (s : InnerS) (hv : (openNext c i w).1 = .val ())
    (h : (openNext c i w).2.1.cur = some s) : sres s = ires i := by
  have hso := sres_openI i w
  simp only [openNext] at h hv
  generalize openI i.init w = x at *
  obtain ⟨res, s1, w'⟩ := x
  cases res with
  | val u => simp at h; subst h; exact hso
  | panic b => simp at hv
  | eof => simp at hv
  | fail e => simp at hv
  | oof => simp at hv

theorem demandFrom_zero (c : Obj) : demandFrom c 0 = 0 := by
  unfold demandFrom; cases c.cur <;> simp

theorem emitC_P : ∀ (fuel : Nat) (c : Obj) (w : World), w.Clean → c.rest.length < fuel → WF c → NoR0 c → Distinct c →
    ∀ n, 1 ≤ n →
    match (rem c).1 with
    | _ :: _ => P c.r0 (emitC fuel c w).2.2 + demandFrom (emitC fuel c w).2.1 (n - 1) = P c.r0 w + demandFrom c n ∧
        NoR0 (emitC fuel c w).2.1
    | [] => P c.r0 (emitC fuel c w).2.2 = P c.r0 w + demandFrom c n := by
  intro fuel
  induction fuel with
  | zero => intro c w _ hf; omega
  | succ k ih =>
    intro c w hclean hfuel hwf hno hdist n hn
    have hcan := hclean.2
    simp only [emitC, hcan, Bool.false_eq_true, if_false]
    cases hcur : c.cur with
    | none => simp [rem, hcur, demandFrom]
    | some s =>
      obtain ⟨hl, hopen⟩ := hwf s hcur
      have hs0 := hno s hcur
      have hi := emitI_clean s hclean hl
      have hpi := emitI_P c.r0 s w hs0
      have hsr := sres_emitI s w
      simp only []
      generalize emitI s w = x at *
      obtain ⟨res, s1, w1⟩ := x
      simp only at hi hpi hsr
      obtain ⟨hc1, hl1, hm⟩ := hi
      cases hr : remaining s with
      | cons v d =>
          rw [hr] at hm; simp only at hm; obtain ⟨rfl, hd⟩ := hm
          simp only [rem, hcur, hr, List.cons_append]
          refine ⟨?_, ?_⟩
          · simp only [demandFrom, hcur, hr, hd, hpi, List.length_cons]
            split <;> split <;> first | omega | (congr 2; omega) | skip
            all_goals (first | omega | (congr 2; omega))
          · intro s' hs'; simp at hs'; subst hs'; rw [hsr]; exact hs0
      | nil =>
          rw [hr] at hm; simp only at hm; obtain ⟨rfl, hd⟩ := hm
          simp only [hopen, if_true]
          have hcl := closeI_clean s1 hc1
          have hpc := closeI_P c.r0 s1 w1
          generalize closeI s1 w1 = y at *
          obtain ⟨s2, w2⟩ := y
          simp only at hcl hpc ⊢
          simp only [hcl.2, Bool.false_eq_true, if_false]
          have hp := pullOuter_clean { c with cur := none, curOpen := false } hcl
          have hpp := pullOuter_P { c with cur := none, curOpen := false } hcl
          generalize pullOuter { c with cur := none, curOpen := false } w2 = z at *
          obtain ⟨res3, c3, w3⟩ := z
          simp only at hp hpp
          obtain ⟨hc3, hm3⟩ := hp
          have hdem : demandFrom c n = needPulls c.ops c.g n c.rest := by
            simp only [demandFrom, hcur, hr, List.length_nil, Nat.sub_zero]
            rw [if_neg (by omega)]
          cases hnx : nextOuter c.ops c.rest with
          | none =>
              rw [hnx] at hm3 hpp; simp only at hm3 hpp; obtain ⟨rfl, rfl⟩ := hm3
              have hden := nextOuter_none hnx
              simp only [rem, hcur, hr, hden, flatSpec, List.append_nil]
              rw [hdem, needPulls_none n hnx, hpp, hpc, hpi]; omega
          | some q =>
              obtain ⟨v, rest'⟩ := q
              rw [hnx] at hm3 hpp; simp only at hm3 hpp; obtain ⟨rfl, rfl⟩ := hm3
              obtain ⟨hden, hlen⟩ := nextOuter_some hnx
              have hns := needPulls_some (g := c.g) n hnx
              have ho := openNext_clean { c with cur := none, curOpen := false, rest := rest' } (c.g v) hc3
              have hpo := openNext_P c.r0 { c with cur := none, curOpen := false, rest := rest' } (c.g v) w3
              have hso := openNext_cur { c with cur := none, curOpen := false, rest := rest' } (c.g v) w3
              simp only []
              generalize openNext { c with cur := none, curOpen := false, rest := rest' } (c.g v) w3 = u at *
              obtain ⟨res4, c4, w4⟩ := u
              simp only at ho hpo hso
              obtain ⟨hc4, hm4⟩ := ho
              by_cases herr : (c.g v).isError
              · simp only [herr, if_true] at hm4 hns
                subst hm4
                simp only [rem, hcur, hr, hden, flatSpec_cons_err herr, List.nil_append]
                rw [hdem, hpo]; omega
              · simp only [herr] at hm4
                have herr' : (c.g v).isError = false := by simpa using herr
                simp only [herr', Bool.false_eq_true, if_false] at hns
                obtain ⟨rfl, s5, rfl, hrem5, hl5⟩ := hm4
                simp only []
                have hwf4 : WF { c with cur := some s5, curOpen := true, rest := rest' } := by
                  intro s' hs'; simp at hs'; subst hs'; exact ⟨hl5, rfl⟩
                have hno4 : NoR0 { c with cur := some s5, curOpen := true, rest := rest' } := by
                  intro s' hs'; simp at hs'; subst hs'
                  rcases hso s5 rfl with h0 | h0
                  · simp at h0
                  · rw [h0]; exact hdist v
                have hih := ih { c with cur := some s5, curOpen := true, rest := rest' } w4 hc4 (by simp; omega) hwf4 hno4 hdist n hn
                have hrem : rem { c with cur := some s5, curOpen := true, rest := rest' } = rem c := by
                  simp only [rem, hcur, hr, hden, hrem5, List.nil_append]
                  rw [flatSpec_cons_ok (by simpa using herr)]
                have hd4 : demandFrom { c with cur := some s5, curOpen := true, rest := rest' } n =
                    (if n ≤ (c.g v).elems.length then 0 else needPulls c.ops c.g (n - (c.g v).elems.length) rest') := by
                  simp only [demandFrom, hrem5]
                rw [hrem] at hih
                split <;> rename_i heq <;> rw [heq] at hih <;> simp only at hih
                · refine ⟨?_, hih.2⟩
                  rw [hih.1, hdem, hpo, hd4]; omega
                · rw [hih, hdem, hpo, hd4]; omega

/-- total demand of a pull loop that may still deliver `a` elements (`none`: no Limit on top — everything) -/
def demandTot (c : Obj) (a : Option Nat) : Nat :=
  match a with
  | some m => demandFrom c m
  | none => demandFrom c ((rem c).1.length + 1)

theorem Distinct_same {c c' : Obj} (h : Same c c') (hd : Distinct c) : Distinct c' := by
  intro v; rw [h.2.2.2, h.1]; exact hd v

theorem pullLoop_P : ∀ (fuel : Nat) (kc : Consumer) (lim : Option Int) (consumed : Int) (c : Obj) (acc : List V)
    (w : World), w.Clean → WF c → NoR0 c → Distinct c → (rem c).1.length + c.rest.length + 2 ≤ fuel →
    P c.r0 (Model.PipeDyn.pullLoop fuel kc lim consumed c acc w).2.2.2 =
      P c.r0 w + demandTot c (allowance lim consumed) := by
  intro fuel
  induction fuel with
  | zero => intro kc lim consumed c acc w _ _ _ _ hf; omega
  | succ k ih =>
    intro kc lim consumed c acc w hclean hwf hno hdist hfuel
    have hcan := hclean.2
    simp only [Model.PipeDyn.pullLoop, hcan, Bool.false_eq_true, if_false]
    by_cases hstop : ∃ m, lim = some m ∧ consumed > m
    · obtain ⟨m, rfl, hm⟩ := hstop
      have ha : allowance (some m) consumed = some 0 := by simp [allowance]; omega
      simp [emitT, hm, ha, demandTot, demandFrom_zero]
    · have hT : emitT k lim consumed c w = emitC k c w := by
        cases lim with
        | none => rfl
        | some m => simp only [emitT]; rw [if_neg]; intro h; exact hstop ⟨m, rfl, h⟩
      rw [hT]
      -- the number of elements the loop still wants: at least one
      obtain ⟨n, hn1, hn, hnext⟩ : ∃ n, 1 ≤ n ∧ demandTot c (allowance lim consumed) = demandFrom c n ∧
          ∀ c1 : Obj, (rem c1).1.length + 1 = (rem c).1.length →
            demandTot c1 (allowance lim (consumed + 1)) = demandFrom c1 (n - 1) := by
        cases lim with
        | none =>
            refine ⟨(rem c).1.length + 1, by omega, rfl, ?_⟩
            intro c1 h1; simp only [allowance, Option.map, demandTot]; congr 1
        | some m =>
            have : ¬ consumed > m := fun h => hstop ⟨m, rfl, h⟩
            refine ⟨(m - consumed + 1).toNat, by omega, rfl, ?_⟩
            intro c1 _; simp only [allowance, Option.map, demandTot]; (try congr 1); (try omega)
      have he := emitC_clean k c w hclean (by omega) hwf
      have hp := emitC_P k c w hclean (by omega) hwf hno hdist n hn1
      generalize emitC k c w = x at *
      obtain ⟨res, c1, w1⟩ := x
      simp only at he hp
      obtain ⟨hc1, hm⟩ := he
      rcases hrem : rem c with ⟨l, e⟩
      rw [hrem] at hm hfuel hp
      cases l with
      | cons v d =>
          simp only at hm hp
          obtain ⟨rfl, hrem1, hwf1, hsame, hlen⟩ := hm
          obtain ⟨hp1, hno1⟩ := hp
          have hr0 : c1.r0 = c.r0 := hsame.1
          have hdist1 := Distinct_same hsame hdist
          have hfuel1 : (rem c1).1.length + c1.rest.length + 2 ≤ k := by
            rw [hrem1]; simp at hfuel ⊢; omega
          have hnx := hnext c1 (by rw [hrem1, hrem]; simp)
          cases kc with
          | collect =>
              simp only []
              have := ih .collect lim (consumed + 1) c1 (v :: acc) w1 hc1 hwf1 hno1 hdist1 hfuel1
              rw [hr0] at this
              rw [this, hnx, hn]; omega
          | user =>
              have hu := userCall_clean hc1
              have hpu := P_userCall c.r0 w1
              simp only []
              generalize userCall w1 = y at *
              obtain ⟨hit, w2⟩ := y
              simp only at hu hpu
              obtain ⟨rfl, hc2⟩ := hu
              simp only []
              have := ih .user lim (consumed + 1) c1 (v :: acc) w2 hc2 hwf1 hno1 hdist1 hfuel1
              rw [hr0] at this
              rw [this, hnx, hn, hpu]; omega
      | nil =>
          simp only at hp
          cases e with
          | false => simp only at hm; subst hm; simp only []; rw [hp, hn]
          | true => simp only at hm; subst hm; simp only [castRes]; rw [hp, hn]

theorem openC_P (c : Obj) {w : World} (h : w.Clean) (hdist : Distinct c) (n : Nat) (hn : 1 ≤ n) :
    ((openC c w).1 = .val () ∧ NoR0 (openC c w).2.1 ∧ Same c (openC c w).2.1 ∧
        P c.r0 (openC c w).2.2 + demandFrom (openC c w).2.1 n = P c.r0 w + needPulls c.ops c.g n c.xs) ∨
    ((openC c w).1 = .fail dslError ∧ P c.r0 (openC c w).2.2 = P c.r0 w + needPulls c.ops c.g n c.xs) := by
  have ho := openRes_clean c.r0 h
  have hpo := P_openRes c.r0 c.r0 w
  simp only [openC, cpOpen, openOuter]
  generalize openRes c.r0 w = x at *
  obtain ⟨res, w1⟩ := x
  simp only at ho hpo
  obtain ⟨rfl, hc1⟩ := ho
  simp only []
  have hp := pullOuter_clean { c with cur := none, rest := c.xs, outerOpen := true } hc1
  have hpp := pullOuter_P { c with cur := none, rest := c.xs, outerOpen := true } hc1
  generalize pullOuter { c with cur := none, rest := c.xs, outerOpen := true } w1 = z at *
  obtain ⟨res2, c2, w2⟩ := z
  simp only at hp hpp
  obtain ⟨hc2, hm2⟩ := hp
  cases hnx : nextOuter c.ops c.xs with
  | none =>
      rw [hnx] at hm2 hpp; simp only at hm2 hpp; obtain ⟨rfl, rfl⟩ := hm2
      left
      simp only []
      refine ⟨trivial, ?_, ⟨rfl, rfl, rfl, rfl⟩, ?_⟩
      · intro s hs'; simp at hs'
      · simp only [demandFrom]; rw [needPulls_none n hnx, hpp, hpo]; omega
  | some q =>
      obtain ⟨v, rest'⟩ := q
      rw [hnx] at hm2 hpp; simp only at hm2 hpp; obtain ⟨rfl, rfl⟩ := hm2
      obtain ⟨hden, hlen⟩ := nextOuter_some hnx
      have hns := needPulls_some (g := c.g) n hnx
      have ho := openNext_clean { c with cur := none, rest := rest', outerOpen := true } (c.g v) hc2
      have hpn := openNext_P c.r0 { c with cur := none, rest := rest', outerOpen := true } (c.g v) w2
      have hso := openNext_cur_val { c with cur := none, rest := rest', outerOpen := true } (c.g v) w2
      simp only []
      generalize openNext { c with cur := none, rest := rest', outerOpen := true } (c.g v) w2 = u at *
      obtain ⟨res4, c4, w4⟩ := u
      simp only at ho hpn hso
      obtain ⟨hc4, hm4⟩ := ho
      by_cases herr : (c.g v).isError
      · simp only [herr, if_true] at hm4 hns
        subst hm4
        right
        simp only []
        refine ⟨trivial, ?_⟩
        rw [closeFunc_P, hpn]; omega
      · simp only [herr] at hm4
        have herr' : (c.g v).isError = false := by simpa using herr
        simp only [herr', Bool.false_eq_true, if_false] at hns
        obtain ⟨rfl, s5, rfl, hrem5, hl5⟩ := hm4
        left
        simp only []
        refine ⟨trivial, ?_, ⟨rfl, rfl, rfl, rfl⟩, ?_⟩
        · intro s' hs'; simp at hs'; subst hs'
          rw [hso s5 rfl rfl]; exact hdist v
        · simp only [demandFrom, hrem5]; rw [hpn]; omega

/-- list-level demand of one materialisation: pulls of the outer source needed for the first `n` elements (`Limit(n)`),
    for everything (no Limit), none at all for `Limit(n ≤ 0)` -/
def demand (lim : Option Int) (c : Obj) : Nat :=
  match lim with
  | some n => if n ≤ 0 then 0 else needPulls c.ops c.g n.toNat c.xs
  | none => needPulls c.ops c.g ((flatSpec c.g (outerDen c.ops c.xs)).1.length + 1) c.xs

/-- **exact demand**: a fault-free materialisation pulls the outer source exactly `demand` times -/
theorem consume_P (fuel : Nat) (kc : Consumer) (lim : Option Int) (c : Obj) (w : World)
    (h : w.Clean) (hdist : Distinct c) (hf : fuelNeed c ≤ fuel) :
    P c.r0 (Model.PipeDyn.consume fuel kc lim c w).2.2 = P c.r0 w + demand lim c := by
  simp only [Model.PipeDyn.consume]
  by_cases hoff : limOff lim
  · simp only [hoff, if_true]
    cases lim with
    | none => simp [limOff] at hoff
    | some n =>
      simp only [limOff, decide_eq_true_eq] at hoff
      simp [demand, hoff]
  · simp only [hoff]
    -- the number of elements this materialisation wants
    obtain ⟨n, hn1, hdem, hall⟩ : ∃ n, 1 ≤ n ∧ demand lim c = needPulls c.ops c.g n c.xs ∧
        ∀ c1 : Obj, rem c1 = flatSpec c.g (outerDen c.ops c.xs) → demandTot c1 (allowance lim 1) = demandFrom c1 n := by
      cases lim with
      | none =>
          refine ⟨_, by omega, rfl, ?_⟩
          intro c1 h1; simp only [allowance, Option.map, demandTot, h1]
      | some m =>
          simp only [limOff, decide_eq_true_eq] at hoff
          refine ⟨m.toNat, by omega, by simp [demand, hoff], ?_⟩
          intro c1 _; simp only [allowance, Option.map, demandTot]; congr 1; omega
    have ho := openC_clean c h
    have hp := openC_P c h hdist n hn1
    generalize openC c w = x at *
    obtain ⟨res, c1, w1⟩ := x
    simp only at ho hp
    obtain ⟨hc1, hcase⟩ := ho
    rcases hcase with ⟨rfl, hwf, hrem, hlen⟩ | ⟨rfl, hspec⟩
    · rcases hp with ⟨-, hno, hsame, hpe⟩ | ⟨hbad, -⟩
      · simp only [Bool.false_eq_true, if_false]
        have hr0 : c1.r0 = c.r0 := hsame.1
        have hpl := pullLoop_P fuel kc lim 1 c1 [] w1 hc1 hwf hno (Distinct_same hsame hdist)
          (by rw [hrem]; unfold fuelNeed at hf; omega)
        rw [hr0, hall c1 hrem] at hpl
        generalize Model.PipeDyn.pullLoop fuel kc lim 1 c1 [] w1 = y at *
        obtain ⟨res2, acc, c2, w2⟩ := y
        simp only at hpl
        have hfin : P c.r0 (closeFunc c2 w2).2 = P c.r0 w + demand lim c := by
          rw [closeFunc_P, hpl, hdem]; omega
        cases res2 <;> first | exact hfin | (simp only []; rw [hpl, hdem]; omega)
      · simp at hbad
    · rcases hp with ⟨hbad, -⟩ | ⟨-, hpe⟩
      · simp at hbad
      · simp only [Bool.false_eq_true, if_false]
        rw [hpe, hdem]

end ShpanVerif.Proofs.PipeDyn
