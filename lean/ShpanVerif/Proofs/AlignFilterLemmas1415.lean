/-
C14 helper lemmas: the tsquery aligner filter (cluster machine with a `FindFirst` factory) on a
time-sorted, well-typed numeric series under a tiling period: never fails, emits strictly increasing
period starts, keeps the declared type.
-/
import ShpanVerif.Model.Reduce

namespace ShpanVerif.Proofs.AF1415
open List ShpanVerif.Model.TsB ShpanVerif.Model.Reduce

variable {δ : Type}

abbrev R (δ : Type) := Rec (Val δ)

def TimeSortedV (xs : List (R δ)) : Prop := xs.Pairwise (fun a b => a.ts.inst ≤ b.ts.inst)

theorem start_mono {p : Period} (hT : Tiles p) {u t : Int} (h : u ≤ t) : p.start u ≤ p.start t := by
  by_cases hlt : p.start u ≤ p.start t
  · exact hlt
  · have h1 := hT.start_le u
    have := hT.same_start t u (by omega) h
    omega

/-- the cluster factory of the aligner succeeds and keeps the declared type -/
theorem alignFactory_ok (D : Dec δ) {p : Period} (hT : Tiles p) (dt : DType) (hnum : dt.isNumeric = true)
    (x : R δ) (hx : x.v.dtype = dt) (lp : Option (R δ))
    (hlp : ∀ l, lp = some l → l.ts.inst ≤ x.ts.inst ∧ p.start l.ts.inst < p.start x.ts.inst ∧ l.v.dtype = dt) :
    ∃ v, alignFactory D p dt (p.start x.ts.inst) x lp = .ok ⟨⟨p.start x.ts.inst, p.loc⟩, v⟩ ∧ v.dtype = dt := by
  cases lp with
  | none => exact ⟨x.v, rfl, hx⟩
  | some l =>
    obtain ⟨h1, h2, h3⟩ := hlp l rfl
    simp only [alignFactory]
    split
    · exact ⟨x.v, rfl, hx⟩
    · have hne : l.ts.inst ≠ x.ts.inst := by intro h; rw [h] at h2; omega
      have hlt : l.ts.inst < p.start x.ts.inst := by
        by_cases hc : l.ts.inst < p.start x.ts.inst
        · exact hc
        · have := hT.same_start x.ts.inst l.ts.inst (by omega) h1
          omega
      have hle := hT.start_le x.ts.inst
      have c1 : (l.ts.inst == x.ts.inst) = false := by simpa using hne
      have c2 : (decide (p.start x.ts.inst < l.ts.inst) || decide (x.ts.inst < p.start x.ts.inst)) = false := by
        simp only [Bool.or_eq_false_iff, decide_eq_false_iff_not]; omega
      simp only [twaVal, c1, c2, Bool.false_eq_true, if_false]
      cases dt <;> simp [DType.isNumeric] at hnum
      · cases hv1 : l.v <;> simp [hv1, Val.dtype] at h3
        cases hv2 : x.v <;> simp [hv2, Val.dtype] at hx
        simp [toFloat64, fromFloat64, bind, Except.bind, pure, Except.pure, Val.dtype]
      · cases hv1 : l.v <;> simp [hv1, Val.dtype] at h3
        cases hv2 : x.v <;> simp [hv2, Val.dtype] at hx
        simp [toFloat64, fromFloat64, bind, Except.bind, pure, Except.pure, Val.dtype]

/-- the skipping loop never reports "not sorted" on a time-sorted series -/
theorem skipRun_ok {p : Period} (hT : Tiles p) (c : Int) :
    ∀ (ys : List (R δ)) (cur : R δ) (lp : Option (R δ)), TimeSortedV (cur :: ys) → p.start cur.ts.inst = c →
      (∃ lp', skipRun (fun (r : R δ) => p.start r.ts.inst) c cur ys lp = .ok (none, [], lp')) ∨
      ∃ z zs w, skipRun (fun (r : R δ) => p.start r.ts.inst) c cur ys lp = .ok (some z, zs, some w) ∧
        w ∈ cur :: ys ∧ (∀ y ∈ z :: zs, y ∈ ys) ∧ TimeSortedV (z :: zs) ∧ w.ts.inst ≤ z.ts.inst ∧
        p.start w.ts.inst = c ∧ c < p.start z.ts.inst ∧ (z :: zs).length ≤ ys.length := by
  intro ys
  induction ys with
  | nil => intro cur lp _ _; exact Or.inl ⟨lp, rfl⟩
  | cons y ys ih =>
    intro cur lp hs hc
    obtain ⟨hcur, hrest⟩ := pairwise_cons.mp hs
    have hge : c ≤ p.start y.ts.inst := by rw [← hc]; exact start_mono hT (hcur y (by simp))
    simp only [skipRun]
    rw [if_neg (by omega)]
    by_cases heq : p.start y.ts.inst = c
    · simp only [heq, beq_self_eq_true, if_true]
      rcases ih y (some cur) hrest heq with ⟨lp', h⟩ | ⟨z, zs, w, h, hw, hz, hsz, hwz, hkw, hkz, hlen⟩
      · exact Or.inl ⟨lp', h⟩
      · refine Or.inr ⟨z, zs, w, h, by simp [hw], ?_, hsz, hwz, hkw, hkz, by simp at hlen ⊢; omega⟩
        intro t ht; simp [hz t ht]
    · have hne : (p.start y.ts.inst == c) = false := by simpa using heq
      simp only [hne, Bool.false_eq_true, if_false]
      exact Or.inr ⟨y, ys, cur, rfl, by simp, fun t ht => ht, hrest, hcur y (by simp), hc, by omega, by simp⟩

/-- **The aligner filter on a time-sorted well-typed series.** -/
theorem collectFirst_sorted (D : Dec δ) {p : Period} (hT : Tiles p) (dt : DType) (hnum : dt.isNumeric = true) :
    ∀ (fuel : Nat) (x : R δ) (rest : List (R δ)) (lp : Option (R δ)), (x :: rest).length ≤ fuel →
      TimeSortedV (x :: rest) → (∀ y ∈ x :: rest, y.v.dtype = dt) →
      (∀ l, lp = some l → l.ts.inst ≤ x.ts.inst ∧ p.start l.ts.inst < p.start x.ts.inst ∧ l.v.dtype = dt) →
      ∃ r0 a, collectFirst (fun (r : R δ) => p.start r.ts.inst) (alignFactory D p dt) fuel
            ⟨some x, rest, lp, p.start x.ts.inst⟩ = (r0 :: a, none) ∧
        r0.ts.inst = p.start x.ts.inst ∧
        (r0 :: a).Pairwise (fun u v => u.ts.inst < v.ts.inst) ∧
        (∀ r ∈ r0 :: a, r.v.dtype = dt ∧ ∃ y ∈ x :: rest, r.ts.inst = p.start y.ts.inst) := by
  intro fuel
  induction fuel with
  | zero => intro x rest lp h; simp at h
  | succ fuel ih =>
    intro x rest lp hlen hs hty hlp
    obtain ⟨v, hf, hv⟩ := alignFactory_ok D hT dt hnum x (hty x (by simp)) lp hlp
    simp only [collectFirst, hf]
    obtain ⟨hx, hrest⟩ := pairwise_cons.mp hs
    -- what a recursive call on a later cluster contributes
    have hrec : ∀ (z : R δ) (zs : List (R δ)) (w : R δ), (z :: zs).length ≤ fuel → TimeSortedV (z :: zs) →
        (∀ y ∈ z :: zs, y ∈ rest) → w.ts.inst ≤ z.ts.inst → p.start w.ts.inst = p.start x.ts.inst →
        p.start x.ts.inst < p.start z.ts.inst → w.v.dtype = dt →
        ∃ (r1 : R δ) (a1 : List (R δ)), collectFirst (fun (r : R δ) => p.start r.ts.inst) (alignFactory D p dt) fuel
              ⟨some z, zs, some w, p.start z.ts.inst⟩ = (r1 :: a1, none) ∧
          ((⟨⟨p.start x.ts.inst, p.loc⟩, v⟩ : R δ) :: r1 :: a1).Pairwise (fun u v => u.ts.inst < v.ts.inst) ∧
          (∀ r ∈ (⟨⟨p.start x.ts.inst, p.loc⟩, v⟩ : R δ) :: r1 :: a1,
            r.v.dtype = dt ∧ ∃ y ∈ x :: rest, r.ts.inst = p.start y.ts.inst) := by
      intro z zs w hl hsz hsub hwz hkw hkz hwt
      obtain ⟨r1, a1, h1, h2, h3, h4⟩ := ih z zs (some w) hl hsz
        (fun y hy => hty y (by simp [hsub y hy]))
        (fun l hl' => by simp only [Option.some.injEq] at hl'; subst hl'; exact ⟨hwz, by omega, hwt⟩)
      refine ⟨r1, a1, h1, ?_, ?_⟩
      · rw [pairwise_cons]
        refine ⟨?_, h3⟩
        intro r hr
        rcases mem_cons.mp hr with rfl | hr
        · simp only; omega
        · have := (pairwise_cons.mp h3).1 r hr; simp only; omega
      · intro r hr
        rcases mem_cons.mp hr with rfl | hr
        · exact ⟨hv, x, by simp, rfl⟩
        · obtain ⟨t1, y, hy, t2⟩ := h4 r hr
          exact ⟨t1, y, by simp [hsub y hy], t2⟩
    cases rest with
    | nil =>
      refine ⟨⟨⟨p.start x.ts.inst, p.loc⟩, v⟩, [], rfl, rfl, by simp, ?_⟩
      intro r hr; simp at hr; subst hr; exact ⟨hv, x, by simp, rfl⟩
    | cons y ys =>
      simp only
      by_cases hk : p.start y.ts.inst = p.start x.ts.inst
      · have hk' : (p.start y.ts.inst != p.start x.ts.inst) = false := by simp [hk]
        simp only [hk', Bool.false_eq_true, if_false]
        rcases skipRun_ok hT (p.start x.ts.inst) ys y (some x) hrest hk with ⟨lp', h⟩ | ⟨z, zs, w, h, hw, hz, hsz, hwz, hkw, hkz, hl⟩
        · simp only [h]
          refine ⟨⟨⟨p.start x.ts.inst, p.loc⟩, v⟩, [], rfl, rfl, by simp, ?_⟩
          intro r hr; simp at hr; subst hr; exact ⟨hv, x, by simp, rfl⟩
        · simp only [h]
          obtain ⟨r1, a1, e1, e2, e3⟩ := hrec z zs w (by simp at hlen hl ⊢; omega) hsz
            (fun t ht => by simp [hz t ht]) hwz hkw hkz (hty w (by simp [hw]))
          exact ⟨⟨⟨p.start x.ts.inst, p.loc⟩, v⟩, r1 :: a1, by simp [e1], rfl, e2, e3⟩
      · have hk' : (p.start y.ts.inst != p.start x.ts.inst) = true := by simp [hk]
        simp only [hk', if_true]
        have hge : p.start x.ts.inst ≤ p.start y.ts.inst := start_mono hT (hx y (by simp))
        obtain ⟨r1, a1, e1, e2, e3⟩ := hrec y ys x (by simp at hlen ⊢; omega) hrest (fun t ht => ht)
          (hx y (by simp)) rfl (by omega) (hty x (by simp))
        exact ⟨⟨⟨p.start x.ts.inst, p.loc⟩, v⟩, r1 :: a1, by simp [e1], rfl, e2, e3⟩

theorem alignFilter_sorted (D : Dec δ) {p : Period} (hT : Tiles p) (dt : DType) (hnum : dt.isNumeric = true)
    (xs : List (R δ)) (hs : TimeSortedV xs) (hty : ∀ y ∈ xs, y.v.dtype = dt) :
    ∃ a, alignFilter D p dt xs = (a, none) ∧ a.Pairwise (fun u v => u.ts.inst < v.ts.inst) ∧
      ∀ r ∈ a, r.v.dtype = dt ∧ ∃ y ∈ xs, r.ts.inst = p.start y.ts.inst := by
  cases xs with
  | nil => exact ⟨[], by simp [alignFilter, clustersFirst, cOpen, collectFirst], by simp, by simp⟩
  | cons x rest =>
    obtain ⟨r0, a, h1, _, h3, h4⟩ := collectFirst_sorted D hT dt hnum ((x :: rest).length + 1) x rest none
      (by simp) hs hty (by simp)
    exact ⟨r0 :: a, by simpa [alignFilter, clustersFirst, cOpen] using h1, h3, h4⟩

end ShpanVerif.Proofs.AF1415
