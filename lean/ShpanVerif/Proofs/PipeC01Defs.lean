/-
C01 proof vocabulary (helper file of Props/C01.lean).

The invariant of the bracket proof is a relation between the *operator object* and the *open set*
`o = w.isOpen` of the probe world:

  `Cl p o`  — the object holds nothing (`Closed p`) and every resource of `p` is closed in `o`;
  `Op p o`  — the object is in "opened" state and the resources it holds (according to its own flags:
              `curOpen`/`next` of concat, `opened` of zip/merge, `subOpen` of window/cluster, the `n ≤ 0`
              short cut of Limit) are exactly the resources of `p` that are open in `o`;
  `St ps f o` — list version: sub stream `j` is `Op` if `f j` and `Cl` otherwise.

Both only look at `o` on `ids p` (`Op_congr`), which is what makes sibling sub streams independent once
`(ids p).Nodup` is known.  `Keep l w w'` is the frame part: a step that works on the resources `l` keeps
`bad = false` and does not touch `isOpen` outside `l`.
-/
import ShpanVerif.Model.PipeWF

namespace ShpanVerif.Proofs.PipeC01
open ShpanVerif.Model.Pipe

/-! ### state predicates -/

def Cl (p : Pipe) (o : Nat → Bool) : Prop := Closed p ∧ ∀ r ∈ ids p, o r = false
def ClL (ps : PipeList) (o : Nat → Bool) : Prop := ClosedList ps ∧ ∀ r ∈ idsList ps, o r = false

mutual
def Op : Pipe → (Nat → Bool) → Prop
  | .src r _ _, o => o r = true
  | .lc r p, o => Op p o ∧ o r = true
  | .map _ p, o => Op p o
  | .filter _ p, o => Op p o
  | .limit n _ p, o => if n ≤ 0 then Cl p o else Op p o
  | .skip _ _ p, o => Op p o
  | .concat ps next curOpen _, o => St ps (fun j => curOpen && j == next - 1) o
  | .zip ps opened, o => opened = ps.length ∧ St ps (fun _ => true) o
  | .merge ps opened _, o => opened = ps.length ∧ St ps (fun _ => true) o
  | .window _ _ _ _ _ subOpen p, o => subOpen = true ∧ Op p o
  | .cluster _ _ _ _ _ subOpen p, o => subOpen = true ∧ Op p o
def St : PipeList → (Nat → Bool) → (Nat → Bool) → Prop
  | .nil, _, _ => True
  | .cons p ps, f, o => (if f 0 = true then Op p o else Cl p o) ∧ St ps (fun j => f (j+1)) o
end

/-! ### congruence: only `o` on the pipeline's own ids matters -/

theorem Cl_congr {p : Pipe} {o o' : Nat → Bool} (h : ∀ x ∈ ids p, o' x = o x) : Cl p o → Cl p o' := by
  intro ⟨hc, hz⟩
  exact ⟨hc, fun r hr => by rw [h r hr]; exact hz r hr⟩

theorem ClL_congr {ps : PipeList} {o o' : Nat → Bool} (h : ∀ x ∈ idsList ps, o' x = o x) : ClL ps o → ClL ps o' := by
  intro ⟨hc, hz⟩
  exact ⟨hc, fun r hr => by rw [h r hr]; exact hz r hr⟩

mutual
theorem Op_congr : ∀ (p : Pipe) {o o' : Nat → Bool}, (∀ x ∈ ids p, o' x = o x) → Op p o → Op p o'
  | .src r _ _, o, o', h, hp => by
    simp only [Op] at *; rw [h r (by simp [ids])]; exact hp
  | .lc r p, o, o', h, hp => by
    simp only [Op] at *
    refine ⟨Op_congr p (fun x hx => h x (by simp [ids, hx])) hp.1, ?_⟩
    rw [h r (by simp [ids])]; exact hp.2
  | .map _ p, o, o', h, hp => by
    simp only [Op] at *; exact Op_congr p (fun x hx => h x (by simpa [ids] using hx)) hp
  | .filter _ p, o, o', h, hp => by
    simp only [Op] at *; exact Op_congr p (fun x hx => h x (by simpa [ids] using hx)) hp
  | .limit n _ p, o, o', h, hp => by
    simp only [Op] at *
    split
    · rename_i hn; rw [if_pos hn] at hp; exact Cl_congr (fun x hx => h x (by simpa [ids] using hx)) hp
    · rename_i hn; rw [if_neg hn] at hp; exact Op_congr p (fun x hx => h x (by simpa [ids] using hx)) hp
  | .skip _ _ p, o, o', h, hp => by
    simp only [Op] at *; exact Op_congr p (fun x hx => h x (by simpa [ids] using hx)) hp
  | .concat ps _ _ _, o, o', h, hp => by
    simp only [Op] at *; exact St_congr ps (fun x hx => h x (by simpa [ids] using hx)) hp
  | .zip ps _, o, o', h, hp => by
    simp only [Op] at *; exact ⟨hp.1, St_congr ps (fun x hx => h x (by simpa [ids] using hx)) hp.2⟩
  | .merge ps _ _, o, o', h, hp => by
    simp only [Op] at *; exact ⟨hp.1, St_congr ps (fun x hx => h x (by simpa [ids] using hx)) hp.2⟩
  | .window _ _ _ _ _ _ p, o, o', h, hp => by
    simp only [Op] at *; exact ⟨hp.1, Op_congr p (fun x hx => h x (by simpa [ids] using hx)) hp.2⟩
  | .cluster _ _ _ _ _ _ p, o, o', h, hp => by
    simp only [Op] at *; exact ⟨hp.1, Op_congr p (fun x hx => h x (by simpa [ids] using hx)) hp.2⟩
theorem St_congr : ∀ (ps : PipeList) {f : Nat → Bool} {o o' : Nat → Bool},
    (∀ x ∈ idsList ps, o' x = o x) → St ps f o → St ps f o'
  | .nil, _, _, _, _, _ => by simp only [St]
  | .cons p ps, f, o, o', h, hp => by
    simp only [St] at *
    refine ⟨?_, St_congr ps (fun x hx => h x (by simp [idsList, hx])) hp.2⟩
    split
    · rename_i hf; rw [if_pos hf] at hp; exact Op_congr p (fun x hx => h x (by simp [idsList, hx])) hp.1
    · rename_i hf; rw [if_neg hf] at hp; exact Cl_congr (fun x hx => h x (by simp [idsList, hx])) hp.1
end

/-! ### `PipeList` index lemmas -/

theorem length_set : ∀ (ps : PipeList) (i : Nat) (q : Pipe), (ps.set i q).length = ps.length
  | .nil, _, _ => rfl
  | .cons _ _, 0, _ => rfl
  | .cons _ ps, i+1, q => by simp only [PipeList.set, PipeList.length, length_set ps i q]

theorem get?_none : ∀ (ps : PipeList) (i : Nat), ps.get? i = none → ps.length ≤ i
  | .nil, _, _ => by simp [PipeList.length]
  | .cons _ _, 0, h => by simp [PipeList.get?] at h
  | .cons _ ps, i+1, h => by
    simp only [PipeList.get?] at h
    have := get?_none ps i h
    simp only [PipeList.length]; omega

theorem get?_set_self : ∀ (ps : PipeList) (i : Nat) (p q : Pipe), ps.get? i = some p → (ps.set i q).get? i = some q
  | .nil, _, _, _, h => by simp [PipeList.get?] at h
  | .cons _ _, 0, _, _, _ => rfl
  | .cons _ ps, i+1, p, q, h => by
    simp only [PipeList.get?, PipeList.set] at *; exact get?_set_self ps i p q h

theorem idsList_set : ∀ (ps : PipeList) (i : Nat) (p q : Pipe), ps.get? i = some p → ids q = ids p →
    idsList (ps.set i q) = idsList ps
  | .nil, _, _, _, h, _ => by simp [PipeList.get?] at h
  | .cons _ _, 0, p, q, h, hq => by
    simp only [PipeList.get?, Option.some.injEq] at h; subst h
    simp only [PipeList.set, idsList, hq]
  | .cons _ ps, i+1, p, q, h, hq => by
    simp only [PipeList.get?] at h
    simp only [PipeList.set, idsList, idsList_set ps i p q h hq]

theorem mem_idsList_of_get : ∀ (ps : PipeList) (i : Nat) (p : Pipe), ps.get? i = some p →
    ∀ x ∈ ids p, x ∈ idsList ps
  | .nil, _, _, h, _, _ => by simp [PipeList.get?] at h
  | .cons _ _, 0, p, h, x, hx => by
    simp only [PipeList.get?, Option.some.injEq] at h; subst h
    simp [idsList, hx]
  | .cons _ ps, i+1, p, h, x, hx => by
    simp only [PipeList.get?] at h
    simp [idsList, mem_idsList_of_get ps i p h x hx]

theorem nodup_of_get : ∀ (ps : PipeList) (i : Nat) (p : Pipe), ps.get? i = some p →
    (idsList ps).Nodup → (ids p).Nodup
  | .nil, _, _, h, _ => by simp [PipeList.get?] at h
  | .cons _ _, 0, p, h, hn => by
    simp only [PipeList.get?, Option.some.injEq] at h; subst h
    simp only [idsList] at hn; exact (List.nodup_append.mp hn).1
  | .cons _ ps, i+1, p, h, hn => by
    simp only [PipeList.get?] at h
    simp only [idsList] at hn
    exact nodup_of_get ps i p h (List.nodup_append.mp hn).2.1

/-! ### `St` lemmas -/

/-- only the values of the status function below `ps.length` matter -/
theorem St_congr_f : ∀ (ps : PipeList) {f g : Nat → Bool} {o : Nat → Bool},
    (∀ j, j < ps.length → g j = f j) → St ps f o → St ps g o
  | .nil, _, _, _, _, _ => by simp only [St]
  | .cons p ps, f, g, o, h, hp => by
    simp only [St] at *
    rw [h 0 (by simp [PipeList.length])]
    exact ⟨hp.1, St_congr_f ps (fun j hj => h (j+1) (by simp [PipeList.length]; omega)) hp.2⟩

theorem St_false : ∀ (ps : PipeList) {f : Nat → Bool} {o : Nat → Bool},
    (∀ j, j < ps.length → f j = false) → (St ps f o ↔ ClL ps o)
  | .nil, _, _, _ => by simp [St, ClL, ClosedList, idsList]
  | .cons p ps, f, o, h => by
    have h0 : f 0 = false := h 0 (by simp [PipeList.length])
    have ih := St_false ps (f := fun j => f (j+1)) (o := o)
      (fun j hj => h (j+1) (by simp [PipeList.length]; omega))
    simp only [St, h0, Bool.false_eq_true, if_false, ih, ClL, Cl, ClosedList, idsList, List.mem_append]
    constructor
    · rintro ⟨⟨a, b⟩, c, d⟩
      exact ⟨⟨a, c⟩, fun r hr => hr.elim (b r) (d r)⟩
    · rintro ⟨⟨a, c⟩, e⟩
      exact ⟨⟨a, fun r hr => e r (Or.inl hr)⟩, c, fun r hr => e r (Or.inr hr)⟩

theorem St_get : ∀ (ps : PipeList) {f : Nat → Bool} {o : Nat → Bool} (i : Nat) (p : Pipe),
    St ps f o → ps.get? i = some p → (if f i = true then Op p o else Cl p o)
  | .nil, _, _, _, _, _, h => by simp [PipeList.get?] at h
  | .cons _ _, f, o, 0, p, hs, h => by
    simp only [PipeList.get?, Option.some.injEq] at h; subst h
    simp only [St] at hs; exact hs.1
  | .cons _ ps, f, o, i+1, p, hs, h => by
    simp only [PipeList.get?] at h
    simp only [St] at hs
    exact St_get ps (f := fun j => f (j+1)) i p hs.2 h

theorem St_get_op {ps : PipeList} {f : Nat → Bool} {o : Nat → Bool} {i : Nat} {p : Pipe}
    (hs : St ps f o) (h : ps.get? i = some p) (hf : f i = true) : Op p o := by
  have := St_get ps i p hs h; rwa [if_pos hf] at this

theorem St_get_cl {ps : PipeList} {f : Nat → Bool} {o : Nat → Bool} {i : Nat} {p : Pipe}
    (hs : St ps f o) (h : ps.get? i = some p) (hf : f i = false) : Cl p o := by
  have := St_get ps i p hs h; rwa [if_neg (by simp [hf])] at this

/-- The central list step: sub stream `i` moves from `p` (world `o`) to `p'` (world `o'`), touching only its
own resources; every other sub stream keeps its status. -/
theorem St_set : ∀ (ps : PipeList) {f g : Nat → Bool} {o o' : Nat → Bool} (i : Nat) (p p' : Pipe),
    St ps f o → ps.get? i = some p → (idsList ps).Nodup →
    (∀ x, x ∉ ids p → o' x = o x) → ids p' = ids p →
    (if g i = true then Op p' o' else Cl p' o') →
    (∀ j, j ≠ i → g j = f j) → St (ps.set i p') g o'
  | .nil, _, _, _, _, _, _, _, _, h, _, _, _, _, _ => by simp [PipeList.get?] at h
  | .cons q qs, f, g, o, o', 0, p, p', hs, h, hn, hfr, _, hp', hg => by
    simp only [PipeList.get?, Option.some.injEq] at h; subst h
    simp only [St, PipeList.set] at *
    refine ⟨hp', ?_⟩
    simp only [idsList] at hn
    have hdis := (List.nodup_append.mp hn).2.2
    have : St qs (fun j => g (j+1)) o :=
      St_congr_f qs (fun j _ => hg (j+1) (by omega)) hs.2
    exact St_congr qs (fun x hx => hfr x (fun hxq => hdis x hxq x hx rfl)) this
  | .cons q qs, f, g, o, o', i+1, p, p', hs, h, hn, hfr, hid, hp', hg => by
    simp only [PipeList.get?] at h
    simp only [St, PipeList.set] at *
    simp only [idsList] at hn
    have hdis := (List.nodup_append.mp hn).2.2
    have hsub := mem_idsList_of_get qs i p h
    refine ⟨?_, St_set qs (f := fun j => f (j+1)) (g := fun j => g (j+1)) i p p' hs.2 h
      (List.nodup_append.mp hn).2.1 hfr hid hp' (fun j hj => hg (j+1) (by omega))⟩
    have hq : ∀ x ∈ ids q, o' x = o x := fun x hx => hfr x (fun hxp => hdis x hx x (hsub x hxp) rfl)
    rw [hg 0 (by omega)]
    split
    · rename_i hf; have := hs.1; rw [if_pos hf] at this; exact Op_congr q hq this
    · rename_i hf; have := hs.1; rw [if_neg hf] at this; exact Cl_congr hq this

theorem St_set_op {ps : PipeList} {f g : Nat → Bool} {o o' : Nat → Bool} {i : Nat} {p p' : Pipe}
    (hs : St ps f o) (h : ps.get? i = some p) (hn : (idsList ps).Nodup)
    (hfr : ∀ x, x ∉ ids p → o' x = o x) (hid : ids p' = ids p) (hp' : Op p' o')
    (hgi : g i = true) (hg : ∀ j, j ≠ i → g j = f j) : St (ps.set i p') g o' :=
  St_set ps i p p' hs h hn hfr hid (by rw [if_pos hgi]; exact hp') hg

theorem St_set_cl {ps : PipeList} {f g : Nat → Bool} {o o' : Nat → Bool} {i : Nat} {p p' : Pipe}
    (hs : St ps f o) (h : ps.get? i = some p) (hn : (idsList ps).Nodup)
    (hfr : ∀ x, x ∉ ids p → o' x = o x) (hid : ids p' = ids p) (hp' : Cl p' o')
    (hgi : g i = false) (hg : ∀ j, j ≠ i → g j = f j) : St (ps.set i p') g o' :=
  St_set ps i p p' hs h hn hfr hid (by rw [if_neg (by simp [hgi])]; exact hp') hg

/-! ### frame -/

/-- a step over the resources `l`: `bad` stays off, nothing outside `l` is touched -/
structure Keep (l : List Nat) (w w' : World) : Prop where
  bad : w'.bad = false
  frame : ∀ x, x ∉ l → w'.isOpen x = w.isOpen x

theorem Keep.refl {l : List Nat} {w : World} (h : w.bad = false) : Keep l w w := ⟨h, fun _ _ => rfl⟩

theorem Keep.same {l : List Nat} {w w' : World} (hb : w'.bad = false) (ho : w'.isOpen = w.isOpen) :
    Keep l w w' := ⟨hb, fun _ _ => by rw [ho]⟩

theorem Keep.trans {l : List Nat} {w w' w'' : World} (h1 : Keep l w w') (h2 : Keep l w' w'') : Keep l w w'' :=
  ⟨h2.bad, fun x hx => by rw [h2.frame x hx, h1.frame x hx]⟩

theorem Keep.mono {l l' : List Nat} {w w' : World} (h : Keep l w w') (hs : ∀ x ∈ l, x ∈ l') : Keep l' w w' :=
  ⟨h.bad, fun x hx => h.frame x (fun hxl => hx (hs x hxl))⟩

theorem Keep.cast {l l' : List Nat} {w w' : World} (h : Keep l w w') (hs : l = l') : Keep l' w w' := hs ▸ h

/-! ### the probe primitives -/

theorem call_isOpen (w : World) : w.call.2.isOpen = w.isOpen := by
  unfold World.call; split <;> (try split) <;> (try split) <;> rfl

theorem call_bad (w : World) : w.call.2.bad = w.bad := by
  unfold World.call; split <;> (try split) <;> (try split) <;> rfl

theorem userCall_isOpen (w : World) : (userCall w).2.isOpen = w.isOpen := call_isOpen w
theorem userCall_bad (w : World) : (userCall w).2.bad = w.bad := call_bad w

theorem emitRes_isOpen (r : Nat) (w : World) : (emitRes r w).2.isOpen = w.isOpen := by
  simp only [emitRes]; exact call_isOpen w

theorem emitRes_bad (r : Nat) (w : World) : (emitRes r w).2.bad = (w.bad || !w.isOpen r) := by
  simp only [emitRes, call_isOpen, call_bad]

theorem closeRes_isOpen (r : Nat) (w : World) : (closeRes r w).isOpen = upd w.isOpen r false := rfl
theorem closeRes_bad (r : Nat) (w : World) : (closeRes r w).bad = (w.bad || !w.isOpen r) := rfl

/-- `openRes` never answers `eof`/`oof`; on success the resource is marked open (and `bad` records a
double open), on failure nothing changes. -/
theorem openRes_cases (r : Nat) (w : World) :
    ((openRes r w).1 = .val () ∧ (openRes r w).2.isOpen = upd w.isOpen r true ∧
        (openRes r w).2.bad = (w.bad || w.isOpen r)) ∨
    (((∃ e, (openRes r w).1 = .fail e) ∨ (∃ b, (openRes r w).1 = .panic b)) ∧
        (openRes r w).2.isOpen = w.isOpen ∧ (openRes r w).2.bad = w.bad) := by
  have h1 := call_isOpen w
  have h2 := call_bad w
  unfold openRes
  generalize w.call = x at h1 h2
  obtain ⟨h, w1⟩ := x
  simp only at h1 h2
  cases h with
  | none => left; simp [h1, h2]
  | err => right; simp [h1, h2]
  | panic b => right; simp [h1, h2]

def _root_.ShpanVerif.Model.Pipe.Res.isOof {α : Type} : Res α → Bool
  | .oof => true
  | _ => false

def _root_.ShpanVerif.Model.Pipe.Res.isVal {α : Type} : Res α → Bool
  | .val _ => true
  | _ => false

end ShpanVerif.Proofs.PipeC01
