/-
C20 helper: the byte-level predicate `JsonText.isJsonText` decides EXACTLY the grammar: it accepts `render t` for every
well-formed tree `t` (completeness; soundness is `JsonScan.isJsonText_sound`).  So "`e` is a well-formed JSON text"
(`∃ t, t.wf ∧ render t = e`) is a decidable predicate on bytes, and the hypotheses `isJsonText (enc x) = true` of the C20
theorems exclude nothing of the grammar.

The witness parser attributes white space in one fixed way (`norm`: the white space after an opening bracket and the
leading white space of the first item are one run); it returns `norm t`, which renders to the same bytes.
-/
import ShpanVerif.Proofs.JsonScanLemmas

set_option autoImplicit false
namespace ShpanVerif.Proofs.JsonParse
open List ShpanVerif.Model.JsonFrame ShpanVerif.Model.JsonText ShpanVerif.Proofs.JsonLex ShpanVerif.Proofs.JsonScan

/-! ## the token helpers of the parser -/

/-- empty, or starting with a byte that is no white space -/
def StartsNonWs (x : Bytes) : Prop := x = [] ∨ ∃ c tl, x = c :: tl ∧ isWs c = false

/-- empty, or starting with a byte that ends a scalar -/
def EndCtx (x : Bytes) : Prop := x = [] ∨ ∃ c tl, x = c :: tl ∧ isScalarEnd c = true

theorem takeWs_append : ∀ (w x : Bytes), allWs w = true → StartsNonWs x → takeWs (w ++ x) = (w, x)
  | [], x, _, hx => by
    rcases hx with rfl | ⟨c, tl, rfl, hc⟩
    · rfl
    · simp [takeWs, hc]
  | b :: w, x, h, hx => by
    simp only [allWs, all_cons, Bool.and_eq_true] at h
    simp only [cons_append, takeWs, h.1, if_true]
    rw [takeWs_append w x (by simpa [allWs] using h.2) hx]

theorem takeStr_quote (rest : Bytes) : takeStr (bQuote :: rest) = some ([], rest) := by
  unfold takeStr; simp

theorem takeStr_spec : ∀ (n : Nat) (s : Bytes), s.length ≤ n → strScanOk s = true → ∀ (rest : Bytes),
    takeStr (s ++ bQuote :: rest) = some (s, rest)
  | _, [], _, _, rest => takeStr_quote rest
  | 0, _ :: _, hl, _, _ => by simp at hl
  | n + 1, [b], _, h, rest => by
    obtain ⟨h1, h2⟩ := plain_facts (by simpa [strScanOk] using h)
    simp only [cons_append, nil_append]
    rw [takeStr]
    simp [h1, h2, takeStr_quote]
  | n + 1, b :: c :: r, hl, h, rest => by
    rw [strScanOk] at h
    by_cases hb : (b == bBackslash) = true
    · have hq : (b == bQuote) = false := by
        have : b = bBackslash := by simpa using hb
        subst this; decide
      simp only [hb, if_true] at h
      have ih := takeStr_spec n r (by simp at hl; omega) h rest
      simp only [cons_append]
      rw [takeStr]
      simp only [hb, hq, Bool.false_eq_true, if_false, if_true, ih]
    · simp only [hb, Bool.false_eq_true, if_false, Bool.and_eq_true, bne_iff_ne, ne_eq] at h
      have hq : (b == bQuote) = false := by simpa using h.1
      have ih := takeStr_spec n (c :: r) (by simp at hl; omega) h.2 rest
      simp only [cons_append] at ih ⊢
      rw [takeStr]
      simp only [hb, hq, Bool.false_eq_true, if_false, ih]

theorem takeScalar_spec : ∀ (e : Bytes), (∀ b ∈ e, isScalarEnd b = false) → ∀ (rest : Bytes), EndCtx rest →
    takeScalar (e ++ rest) = (e, rest)
  | [], _, rest, hr => by
    rcases hr with rfl | ⟨c, tl, rfl, hc⟩
    · rfl
    · simp [takeScalar, hc]
  | b :: e, h, rest, hr => by
    simp only [cons_append, takeScalar, h b (by simp), Bool.false_eq_true, if_false]
    rw [takeScalar_spec e (fun b' hb' => h b' (by simp [hb'])) rest hr]

theorem scalarElem_not_end {e : Bytes} (h : ScalarElem e) : ∀ b ∈ e, isScalarEnd b = false :=
  fun b hb => (scalarByte_facts (h.2 b hb)).1

theorem scalarOf_number {tok : Bytes} (h : isNumber tok = true) : scalarOf tok = .num tok := by
  have h1 : tok ≠ nullLit := by rintro rfl; revert h; decide
  have h2 : tok ≠ trueLit := by rintro rfl; revert h; decide
  have h3 : tok ≠ falseLit := by rintro rfl; revert h; decide
  simp [scalarOf, h1, h2, h3]

/-! ## the parser's attribution of white space -/

mutual
def norm : JT → JT
  | .arr w0 .nil => .arr w0 .nil
  | .arr w0 (.cons l v t rest) => .arr (w0 ++ l) (.cons [] (norm v) t (normItems rest))
  | .obj w0 .nil => .obj w0 .nil
  | .obj w0 (.cons l k m c v t rest) => .obj (w0 ++ l) (.cons [] k m c (norm v) t (normEnts rest))
  | .null => .null
  | .bool b => .bool b
  | .num tok => .num tok
  | .str body => .str body
def normItems : JItems → JItems
  | .nil => .nil
  | .cons l v t rest => .cons l (norm v) t (normItems rest)
def normEnts : JEnts → JEnts
  | .nil => .nil
  | .cons l k m c v t rest => .cons l k m c (norm v) t (normEnts rest)
end

theorem normItems_isNil : ∀ (is : JItems), (normItems is).isNil = is.isNil
  | .nil => rfl
  | .cons .. => by simp [normItems, JItems.isNil]

theorem normEnts_isNil : ∀ (es : JEnts), (normEnts es).isNil = es.isNil
  | .nil => rfl
  | .cons .. => by simp [normEnts, JEnts.isNil]

mutual
theorem render_norm : ∀ (t : JT), render (norm t) = render t
  | .null => rfl
  | .bool _ => rfl
  | .num _ => rfl
  | .str _ => rfl
  | .arr w0 .nil => rfl
  | .arr w0 (.cons l v t rest) => by
    simp [norm, render, renderItems, render_norm v, renderItems_norm rest, normItems_isNil]
  | .obj w0 .nil => rfl
  | .obj w0 (.cons l k m c v t rest) => by
    simp [norm, render, renderEnts, render_norm v, renderEnts_norm rest, normEnts_isNil]
theorem renderItems_norm : ∀ (is : JItems), renderItems (normItems is) = renderItems is
  | .nil => rfl
  | .cons l v t rest => by
    simp [normItems, renderItems, render_norm v, renderItems_norm rest, normItems_isNil]
theorem renderEnts_norm : ∀ (es : JEnts), renderEnts (normEnts es) = renderEnts es
  | .nil => rfl
  | .cons l k m c v t rest => by
    simp [normEnts, renderEnts, render_norm v, renderEnts_norm rest, normEnts_isNil]
end

theorem allWs_append {a b : Bytes} (ha : allWs a = true) (hb : allWs b = true) : allWs (a ++ b) = true := by
  simp only [allWs, all_append, Bool.and_eq_true] at *; exact ⟨ha, hb⟩

mutual
theorem wf_norm : ∀ (t : JT), t.wf = true → (norm t).wf = true
  | .null, _ => rfl
  | .bool _, _ => rfl
  | .num _, h => by simpa [norm] using h
  | .str _, h => by simpa [norm] using h
  | .arr w0 .nil, h => by simpa [norm] using h
  | .arr w0 (.cons l v t rest), h => by
    simp only [JT.wf, JItems.wf, Bool.and_eq_true] at h
    obtain ⟨h0, ⟨⟨hl, hv⟩, ht⟩, hr⟩ := h
    simp only [norm, JT.wf, JItems.wf, Bool.and_eq_true]
    exact ⟨allWs_append h0 hl, ⟨⟨rfl, wf_norm v hv⟩, ht⟩, wfItems_norm rest hr⟩
  | .obj w0 .nil, h => by simpa [norm] using h
  | .obj w0 (.cons l k m c v t rest), h => by
    simp only [JT.wf, JEnts.wf, Bool.and_eq_true] at h
    obtain ⟨h0, ⟨⟨⟨⟨⟨hl, hk⟩, hm⟩, hc⟩, hv⟩, ht⟩, hr⟩ := h
    simp only [norm, JT.wf, JEnts.wf, Bool.and_eq_true]
    exact ⟨allWs_append h0 hl, ⟨⟨⟨⟨⟨rfl, hk⟩, hm⟩, hc⟩, wf_norm v hv⟩, ht⟩, wfEnts_norm rest hr⟩
theorem wfItems_norm : ∀ (is : JItems), is.wf = true → (normItems is).wf = true
  | .nil, _ => rfl
  | .cons l v t rest, h => by
    simp only [JItems.wf, Bool.and_eq_true] at h
    obtain ⟨⟨⟨hl, hv⟩, ht⟩, hr⟩ := h
    simp only [normItems, JItems.wf, Bool.and_eq_true]
    exact ⟨⟨⟨hl, wf_norm v hv⟩, ht⟩, wfItems_norm rest hr⟩
theorem wfEnts_norm : ∀ (es : JEnts), es.wf = true → (normEnts es).wf = true
  | .nil, _ => rfl
  | .cons l k m c v t rest, h => by
    simp only [JEnts.wf, Bool.and_eq_true] at h
    obtain ⟨⟨⟨⟨⟨⟨hl, hk⟩, hm⟩, hc⟩, hv⟩, ht⟩, hr⟩ := h
    simp only [normEnts, JEnts.wf, Bool.and_eq_true]
    exact ⟨⟨⟨⟨⟨⟨hl, hk⟩, hm⟩, hc⟩, wf_norm v hv⟩, ht⟩, wfEnts_norm rest hr⟩
end

/-! ## fuel -/

mutual
/-- the fuel `parseV` needs -/
def needV : JT → Nat
  | .arr _ is => 1 + needItems is
  | .obj _ es => 1 + needEnts es
  | _ => 1
def needItems : JItems → Nat
  | .nil => 0
  | .cons _ v _ rest => 1 + max (needV v) (needItems rest)
def needEnts : JEnts → Nat
  | .nil => 0
  | .cons _ _ _ _ v _ rest => 1 + max (needV v) (needEnts rest)
end

theorem render_length_pos (v : JT) (h : v.wf = true) : 1 ≤ (render v).length := by
  obtain ⟨c, tl, hrv, _⟩ := render_head v h
  rw [hrv]; simp

mutual
theorem needV_le : ∀ (t : JT), t.wf = true → needV t ≤ (render t).length
  | .null, _ => by simp [needV, render, nullLit]
  | .bool b, _ => by cases b <;> simp [needV, render, trueLit, falseLit]
  | .num tok, h => by simpa [needV] using render_length_pos (.num tok) h
  | .str body, _ => by simp [needV, render]
  | .arr w0 is, h => by
    simp only [JT.wf, Bool.and_eq_true] at h
    have := needItems_le is h.2
    simp only [needV, render, length_cons, length_append, length_nil]
    omega
  | .obj w0 es, h => by
    simp only [JT.wf, Bool.and_eq_true] at h
    have := needEnts_le es h.2
    simp only [needV, render, length_cons, length_append, length_nil]
    omega
theorem needItems_le : ∀ (is : JItems), is.wf = true → needItems is ≤ (renderItems is).length + 1
  | .nil, _ => by simp [needItems]
  | .cons l v t .nil, h => by
    simp only [JItems.wf, Bool.and_eq_true] at h
    have := needV_le v h.1.1.2
    simp only [needItems, renderItems, length_append]
    omega
  | .cons l v t (.cons l2 v2 t2 rest), h => by
    have hr : (JItems.cons l2 v2 t2 rest).wf = true := by
      simp only [JItems.wf, Bool.and_eq_true] at h ⊢; exact h.2
    simp only [JItems.wf, Bool.and_eq_true] at h
    have h1 := needV_le v h.1.1.2
    have h2 := needItems_le (.cons l2 v2 t2 rest) hr
    have h3 := render_length_pos v h.1.1.2
    rw [needItems, renderItems]
    simp only [JItems.isNil, sepOf, Bool.false_eq_true, if_false, length_append, length_cons, length_nil]
    omega
theorem needEnts_le : ∀ (es : JEnts), es.wf = true → needEnts es ≤ (renderEnts es).length + 1
  | .nil, _ => by simp [needEnts]
  | .cons l k m c v t .nil, h => by
    simp only [JEnts.wf, Bool.and_eq_true] at h
    have := needV_le v h.1.1.2
    simp only [needEnts, renderEnts, length_append, length_cons]
    omega
  | .cons l k m c v t (.cons l2 k2 m2 c2 v2 t2 rest), h => by
    have hr : (JEnts.cons l2 k2 m2 c2 v2 t2 rest).wf = true := by
      simp only [JEnts.wf, Bool.and_eq_true] at h ⊢; exact h.2
    simp only [JEnts.wf, Bool.and_eq_true] at h
    have h1 := needV_le v h.1.1.2
    have h2 := needEnts_le (.cons l2 k2 m2 c2 v2 t2 rest) hr
    rw [needEnts, renderEnts]
    simp only [JEnts.isNil, sepOf, Bool.false_eq_true, if_false, length_append, length_cons, length_nil]
    omega
end

/-! ## one step of the parser -/

theorem startsNonWs_render (v : JT) (h : v.wf = true) (Y : Bytes) : StartsNonWs (render v ++ Y) := by
  obtain ⟨c, tl, hrv, hc1, _⟩ := render_head v h
  exact Or.inr ⟨c, tl ++ Y, by rw [hrv]; rfl, (scalarEnd_false_facts hc1).1⟩

theorem startsNonWs_cons {c : UInt8} (h : isWs c = false) (tl : Bytes) : StartsNonWs (c :: tl) :=
  Or.inr ⟨c, tl, rfl, h⟩

theorem endCtx_ws_then {t : Bytes} (ht : allWs t = true) {x : UInt8} (hx : isScalarEnd x = true) (xs : Bytes) :
    EndCtx (t ++ x :: xs) := by
  obtain ⟨c', tl', h, hc'⟩ := ws_then_end t ht x xs hx
  exact Or.inr ⟨c', tl', h, hc'⟩

theorem parseV_scalar (e : Bytes) (he : ScalarElem e) (f : Nat) (rest : Bytes) (hr : EndCtx rest) :
    parseV (f + 1) (e ++ rest) = some (scalarOf e, rest) := by
  obtain ⟨hne, hall⟩ := he
  cases e with
  | nil => exact absurd rfl hne
  | cons c e =>
    obtain ⟨_, _, _, _, _, h6, h7, h8, _⟩ := scalarByte_facts (hall c (by simp))
    have hts := takeScalar_spec (c :: e) (scalarElem_not_end ⟨hne, hall⟩) rest hr
    simp only [cons_append] at hts ⊢
    rw [parseV]
    simp only [h6, h7, h8, Bool.false_eq_true, if_false, hts]

theorem parseV_string (body : Bytes) (h : strBodyOk body = true) (f : Nat) (rest : Bytes) :
    parseV (f + 1) (bQuote :: body ++ [bQuote] ++ rest) = some (.str body, rest) := by
  have := takeStr_spec body.length body (Nat.le_refl _) (strScanOk_of_body h) rest
  simp only [cons_append, append_assoc, nil_append]
  rw [parseV]
  simp only [beq_self_eq_true, if_true, this]

theorem parseV_emptyArr (w0 : Bytes) (h : allWs w0 = true) (f : Nat) (rest : Bytes) :
    parseV (f + 1) (bLBr :: w0 ++ [bRBr] ++ rest) = some (.arr w0 .nil, rest) := by
  have h1 : (bLBr == bQuote) = false := by decide
  have hw : isWs bRBr = false := by decide
  have := takeWs_append w0 (bRBr :: rest) h (startsNonWs_cons hw rest)
  simp only [cons_append, append_assoc, nil_append]
  rw [parseV]
  simp only [h1, Bool.false_eq_true, if_false, beq_self_eq_true, if_true, this]

theorem parseV_emptyObj (w0 : Bytes) (h : allWs w0 = true) (f : Nat) (rest : Bytes) :
    parseV (f + 1) (bLBc :: w0 ++ [bRBc] ++ rest) = some (.obj w0 .nil, rest) := by
  have h1 : (bLBc == bQuote) = false := by decide
  have h2 : (bLBc == bLBr) = false := by decide
  have hw : isWs bRBc = false := by decide
  have := takeWs_append w0 (bRBc :: rest) h (startsNonWs_cons hw rest)
  simp only [cons_append, append_assoc, nil_append]
  rw [parseV]
  simp only [h1, h2, Bool.false_eq_true, if_false, beq_self_eq_true, if_true, this]

/-- "[" white space, then a first item that starts with a value -/
theorem parseV_arr (w : Bytes) (hw : allWs w = true) (v : JT) (hv : v.wf = true) (Y : Bytes) (f : Nat)
    (is : JItems) (rest : Bytes) (hrec : parseItems f (render v ++ Y) = some (is, rest)) :
    parseV (f + 1) (bLBr :: (w ++ (render v ++ Y))) = some (.arr w is, rest) := by
  have h1 : (bLBr == bQuote) = false := by decide
  have htw := takeWs_append w (render v ++ Y) hw (startsNonWs_render v hv Y)
  obtain ⟨c, tl, hrv, hc1, _⟩ := render_head v hv
  obtain ⟨_, _, hcr, _⟩ := scalarEnd_false_facts hc1
  rw [parseV]
  simp only [h1, Bool.false_eq_true, if_false, beq_self_eq_true, if_true, htw]
  rw [hrv] at hrec ⊢
  simp only [cons_append] at hrec ⊢
  simp only [hcr, Bool.false_eq_true, if_false, hrec]

theorem parseV_obj (w : Bytes) (hw : allWs w = true) (Y : Bytes) (f : Nat)
    (es : JEnts) (rest : Bytes) (hrec : parseEnts f (bQuote :: Y) = some (es, rest)) :
    parseV (f + 1) (bLBc :: (w ++ bQuote :: Y)) = some (.obj w es, rest) := by
  have h1 : (bLBc == bQuote) = false := by decide
  have h2 : (bLBc == bLBr) = false := by decide
  have hq : isWs bQuote = false := by decide
  have hq2 : (bQuote == bRBc) = false := by decide
  have htw := takeWs_append w (bQuote :: Y) hw (startsNonWs_cons hq Y)
  rw [parseV]
  simp only [h1, h2, Bool.false_eq_true, if_false, beq_self_eq_true, if_true, htw, hq2, hrec]

theorem parseItems_last (f : Nat) (l' : Bytes) (v v' : JT) (t post : Bytes) (hl : allWs l' = true)
    (hv : v.wf = true) (ht : allWs t = true)
    (hpv : parseV f (render v ++ (t ++ bRBr :: post)) = some (v', t ++ bRBr :: post)) :
    parseItems (f + 1) (l' ++ (render v ++ (t ++ bRBr :: post))) = some (.cons l' v' t .nil, post) := by
  have hw : isWs bRBr = false := by decide
  have h1 := takeWs_append l' _ hl (startsNonWs_render v hv (t ++ bRBr :: post))
  have h2 := takeWs_append t (bRBr :: post) ht (startsNonWs_cons hw post)
  rw [parseItems]
  simp only [h1, hpv, h2, beq_self_eq_true, if_true]

theorem parseItems_more (f : Nat) (l' : Bytes) (v v' : JT) (t r4 : Bytes) (s : JItems) (post : Bytes)
    (hl : allWs l' = true) (hv : v.wf = true) (ht : allWs t = true)
    (hpv : parseV f (render v ++ (t ++ bComma :: r4)) = some (v', t ++ bComma :: r4))
    (hrec : parseItems f r4 = some (s, post)) :
    parseItems (f + 1) (l' ++ (render v ++ (t ++ bComma :: r4))) = some (.cons l' v' t s, post) := by
  have hw : isWs bComma = false := by decide
  have hc : (bComma == bRBr) = false := by decide
  have h1 := takeWs_append l' _ hl (startsNonWs_render v hv (t ++ bComma :: r4))
  have h2 := takeWs_append t (bComma :: r4) ht (startsNonWs_cons hw r4)
  rw [parseItems]
  simp only [h1, hpv, h2, hc, Bool.false_eq_true, if_false, beq_self_eq_true, if_true, hrec]

/-- l "key" m ":" c value t — the common prefix of both entry steps -/
theorem parseEnts_last (f : Nat) (l' k m c : Bytes) (v v' : JT) (t post : Bytes) (hl : allWs l' = true)
    (hk : strBodyOk k = true) (hm : allWs m = true) (hc : allWs c = true) (hv : v.wf = true) (ht : allWs t = true)
    (hpv : parseV f (render v ++ (t ++ bRBc :: post)) = some (v', t ++ bRBc :: post)) :
    parseEnts (f + 1) (l' ++ (bQuote :: (k ++ bQuote :: (m ++ bColon :: (c ++ (render v ++ (t ++ bRBc :: post))))))) =
      some (.cons l' k m c v' t .nil, post) := by
  have hq : isWs bQuote = false := by decide
  have hcol : isWs bColon = false := by decide
  have hw : isWs bRBc = false := by decide
  have h1 := takeWs_append l' _ hl (startsNonWs_cons hq (k ++ bQuote :: (m ++ bColon :: (c ++ (render v ++ (t ++ bRBc :: post))))))
  have h2 := takeStr_spec k.length k (Nat.le_refl _) (strScanOk_of_body hk) (m ++ bColon :: (c ++ (render v ++ (t ++ bRBc :: post))))
  have h3 := takeWs_append m _ hm (startsNonWs_cons hcol (c ++ (render v ++ (t ++ bRBc :: post))))
  have h4 := takeWs_append c _ hc (startsNonWs_render v hv (t ++ bRBc :: post))
  have h5 := takeWs_append t (bRBc :: post) ht (startsNonWs_cons hw post)
  rw [parseEnts]
  simp only [h1, h2, h3, h4, hpv, h5, beq_self_eq_true, if_true]

theorem parseEnts_more (f : Nat) (l' k m c : Bytes) (v v' : JT) (t r5 : Bytes) (s : JEnts) (post : Bytes)
    (hl : allWs l' = true) (hk : strBodyOk k = true) (hm : allWs m = true) (hc : allWs c = true) (hv : v.wf = true)
    (ht : allWs t = true)
    (hpv : parseV f (render v ++ (t ++ bComma :: r5)) = some (v', t ++ bComma :: r5))
    (hrec : parseEnts f r5 = some (s, post)) :
    parseEnts (f + 1) (l' ++ (bQuote :: (k ++ bQuote :: (m ++ bColon :: (c ++ (render v ++ (t ++ bComma :: r5))))))) =
      some (.cons l' k m c v' t s, post) := by
  have hq : isWs bQuote = false := by decide
  have hcol : isWs bColon = false := by decide
  have hw : isWs bComma = false := by decide
  have hcc : (bComma == bRBc) = false := by decide
  have h1 := takeWs_append l' _ hl (startsNonWs_cons hq (k ++ bQuote :: (m ++ bColon :: (c ++ (render v ++ (t ++ bComma :: r5))))))
  have h2 := takeStr_spec k.length k (Nat.le_refl _) (strScanOk_of_body hk) (m ++ bColon :: (c ++ (render v ++ (t ++ bComma :: r5))))
  have h3 := takeWs_append m _ hm (startsNonWs_cons hcol (c ++ (render v ++ (t ++ bComma :: r5))))
  have h4 := takeWs_append c _ hc (startsNonWs_render v hv (t ++ bComma :: r5))
  have h5 := takeWs_append t (bComma :: r5) ht (startsNonWs_cons hw r5)
  rw [parseEnts]
  simp only [h1, h2, h3, h4, hpv, h5, hcc, Bool.false_eq_true, if_false, beq_self_eq_true, if_true, hrec]

/-! ## the parser returns `norm t` on `render t` -/

/-- the text of non-empty items without the leading white space of the first one -/
def itemsBody : JItems → Bytes
  | .nil => []
  | .cons _ v t rest => render v ++ (t ++ (sepOf rest.isNil ++ renderItems rest))

def withLead (l' : Bytes) : JItems → JItems
  | .nil => .nil
  | .cons _ v t rest => .cons l' v t rest

def entsBody : JEnts → Bytes
  | .nil => []
  | .cons _ k m c v t rest =>
    bQuote :: (k ++ bQuote :: (m ++ bColon :: (c ++ (render v ++ (t ++ (sepOf rest.isNil ++ renderEnts rest))))))

def withLeadE (l' : Bytes) : JEnts → JEnts
  | .nil => .nil
  | .cons _ k m c v t rest => .cons l' k m c v t rest

theorem isScalarEnd_comma' : isScalarEnd bComma = true := by decide

mutual
theorem parseV_render : ∀ (t : JT), t.wf = true → ∀ (f : Nat) (rest : Bytes), needV t ≤ f → EndCtx rest →
    parseV f (render t ++ rest) = some (norm t, rest)
  | .null, _, f, rest, hf, hr => by
    obtain ⟨f, rfl⟩ : ∃ k, f = k + 1 := ⟨f - 1, by simp only [needV] at hf; omega⟩
    have := parseV_scalar nullLit nullLit_scalarElem f rest hr
    simpa [render, norm, scalarOf] using this
  | .bool true, _, f, rest, hf, hr => by
    obtain ⟨f, rfl⟩ : ∃ k, f = k + 1 := ⟨f - 1, by simp only [needV] at hf; omega⟩
    have := parseV_scalar trueLit trueLit_scalarElem f rest hr
    have hs : scalarOf trueLit = .bool true := by simp [scalarOf, trueLit, nullLit]
    simpa [render, norm, hs] using this
  | .bool false, _, f, rest, hf, hr => by
    obtain ⟨f, rfl⟩ : ∃ k, f = k + 1 := ⟨f - 1, by simp only [needV] at hf; omega⟩
    have := parseV_scalar falseLit falseLit_scalarElem f rest hr
    have hs : scalarOf falseLit = .bool false := by simp [scalarOf, falseLit, trueLit, nullLit]
    simpa [render, norm, hs] using this
  | .num tok, h, f, rest, hf, hr => by
    obtain ⟨f, rfl⟩ : ∃ k, f = k + 1 := ⟨f - 1, by simp only [needV] at hf; omega⟩
    have h : isNumber tok = true := by simpa [JT.wf] using h
    have := parseV_scalar tok (isNumber_scalarElem h) f rest hr
    simpa [render, norm, scalarOf_number h] using this
  | .str body, h, f, rest, hf, _ => by
    obtain ⟨f, rfl⟩ : ∃ k, f = k + 1 := ⟨f - 1, by simp only [needV] at hf; omega⟩
    have h : strBodyOk body = true := by simpa [JT.wf] using h
    simpa [render, norm] using parseV_string body h f rest
  | .arr w0 .nil, h, f, rest, hf, _ => by
    obtain ⟨f, rfl⟩ : ∃ k, f = k + 1 := ⟨f - 1, by simp only [needV] at hf; omega⟩
    simp only [JT.wf, Bool.and_eq_true] at h
    simpa [render, renderItems, norm] using parseV_emptyArr w0 h.1 f rest
  | .arr w0 (.cons l v t rs), h, f, rest, hf, _ => by
    simp only [JT.wf, Bool.and_eq_true] at h
    obtain ⟨h0, hi⟩ := h
    have hi' := hi
    simp only [JItems.wf, Bool.and_eq_true] at hi'
    obtain ⟨⟨⟨hl, hv⟩, _⟩, _⟩ := hi'
    obtain ⟨f, rfl⟩ : ∃ k, f = k + 1 := ⟨f - 1, by simp only [needV] at hf; omega⟩
    have ih := parseItems_render (.cons l v t rs) hi rfl f [] rest rfl (by simp only [needV] at hf; omega)
    have := parseV_arr (w0 ++ l) (allWs_append h0 hl) v hv
      (t ++ (sepOf rs.isNil ++ renderItems rs) ++ bRBr :: rest) f _ rest
      (by simpa [itemsBody, append_assoc] using ih)
    simpa [render, renderItems, norm, normItems, withLead, append_assoc] using this
  | .obj w0 .nil, h, f, rest, hf, _ => by
    obtain ⟨f, rfl⟩ : ∃ k, f = k + 1 := ⟨f - 1, by simp only [needV] at hf; omega⟩
    simp only [JT.wf, Bool.and_eq_true] at h
    simpa [render, renderEnts, norm] using parseV_emptyObj w0 h.1 f rest
  | .obj w0 (.cons l k m c v t rs), h, f, rest, hf, _ => by
    simp only [JT.wf, Bool.and_eq_true] at h
    obtain ⟨h0, hi⟩ := h
    have hi' := hi
    simp only [JEnts.wf, Bool.and_eq_true] at hi'
    obtain ⟨⟨⟨⟨⟨⟨hl, _⟩, _⟩, _⟩, _⟩, _⟩, _⟩ := hi'
    obtain ⟨f, rfl⟩ : ∃ k, f = k + 1 := ⟨f - 1, by simp only [needV] at hf; omega⟩
    have ih := parseEnts_render (.cons l k m c v t rs) hi rfl f [] rest rfl (by simp only [needV] at hf; omega)
    have := parseV_obj (w0 ++ l) (allWs_append h0 hl)
      (k ++ bQuote :: (m ++ bColon :: (c ++ (render v ++ (t ++ (sepOf rs.isNil ++ renderEnts rs))))) ++ bRBc :: rest)
      f _ rest (by simpa [entsBody, append_assoc] using ih)
    simpa [render, renderEnts, norm, normEnts, withLeadE, append_assoc] using this
theorem parseItems_render : ∀ (is : JItems), is.wf = true → is.isNil = false → ∀ (f : Nat) (l' post : Bytes),
    allWs l' = true → needItems is ≤ f →
    parseItems f (l' ++ (itemsBody is ++ bRBr :: post)) = some (withLead l' (normItems is), post)
  | .nil, _, hn, _, _, _, _, _ => by simp [JItems.isNil] at hn
  | .cons l v t .nil, h, _, f, l', post, hl', hf => by
    simp only [JItems.wf, Bool.and_eq_true] at h
    obtain ⟨⟨⟨_, hv⟩, ht⟩, _⟩ := h
    simp only [needItems] at hf
    obtain ⟨f, rfl⟩ : ∃ k, f = k + 1 := ⟨f - 1, by omega⟩
    have hpv := parseV_render v hv f (t ++ bRBr :: post) (by omega) (endCtx_ws_then ht isScalarEnd_rbr post)
    have := parseItems_last f l' v (norm v) t post hl' hv ht hpv
    simpa [itemsBody, renderItems, JItems.isNil, sepOf, normItems, withLead] using this
  | .cons l v t (.cons l2 v2 t2 rs), h, _, f, l', post, hl', hf => by
    have hr : (JItems.cons l2 v2 t2 rs).wf = true := by
      simp only [JItems.wf, Bool.and_eq_true] at h ⊢; exact h.2
    have hl2 : allWs l2 = true := by
      simp only [JItems.wf, Bool.and_eq_true] at hr; exact hr.1.1.1
    simp only [JItems.wf, Bool.and_eq_true] at h
    obtain ⟨⟨⟨_, hv⟩, ht⟩, _⟩ := h
    rw [needItems] at hf
    obtain ⟨f, rfl⟩ : ∃ k, f = k + 1 := ⟨f - 1, by omega⟩
    have hpv := parseV_render v hv f (t ++ bComma :: (renderItems (.cons l2 v2 t2 rs) ++ bRBr :: post)) (by omega)
      (endCtx_ws_then ht isScalarEnd_comma' _)
    have ih := parseItems_render (.cons l2 v2 t2 rs) hr rfl f l2 post hl2 (by omega)
    have hrec : parseItems f (renderItems (.cons l2 v2 t2 rs) ++ bRBr :: post) =
        some (normItems (.cons l2 v2 t2 rs), post) := by
      simpa [renderItems, itemsBody, normItems, withLead, append_assoc] using ih
    have := parseItems_more f l' v (norm v) t _ _ post hl' hv ht hpv hrec
    rw [itemsBody]
    simp only [JItems.isNil, sepOf, Bool.false_eq_true, if_false, append_assoc, cons_append, nil_append]
    rw [this]
    simp [normItems, withLead]
theorem parseEnts_render : ∀ (es : JEnts), es.wf = true → es.isNil = false → ∀ (f : Nat) (l' post : Bytes),
    allWs l' = true → needEnts es ≤ f →
    parseEnts f (l' ++ (entsBody es ++ bRBc :: post)) = some (withLeadE l' (normEnts es), post)
  | .nil, _, hn, _, _, _, _, _ => by simp [JEnts.isNil] at hn
  | .cons l k m c v t .nil, h, _, f, l', post, hl', hf => by
    simp only [JEnts.wf, Bool.and_eq_true] at h
    obtain ⟨⟨⟨⟨⟨⟨_, hk⟩, hm⟩, hc⟩, hv⟩, ht⟩, _⟩ := h
    simp only [needEnts] at hf
    obtain ⟨f, rfl⟩ : ∃ k, f = k + 1 := ⟨f - 1, by omega⟩
    have hpv := parseV_render v hv f (t ++ bRBc :: post) (by omega) (endCtx_ws_then ht isScalarEnd_rbc post)
    have := parseEnts_last f l' k m c v (norm v) t post hl' hk hm hc hv ht hpv
    simpa [entsBody, renderEnts, JEnts.isNil, sepOf, normEnts, withLeadE] using this
  | .cons l k m c v t (.cons l2 k2 m2 c2 v2 t2 rs), h, _, f, l', post, hl', hf => by
    have hr : (JEnts.cons l2 k2 m2 c2 v2 t2 rs).wf = true := by
      simp only [JEnts.wf, Bool.and_eq_true] at h ⊢; exact h.2
    have hl2 : allWs l2 = true := by
      simp only [JEnts.wf, Bool.and_eq_true] at hr; exact hr.1.1.1.1.1.1
    simp only [JEnts.wf, Bool.and_eq_true] at h
    obtain ⟨⟨⟨⟨⟨⟨_, hk⟩, hm⟩, hc⟩, hv⟩, ht⟩, _⟩ := h
    rw [needEnts] at hf
    obtain ⟨f, rfl⟩ : ∃ k, f = k + 1 := ⟨f - 1, by omega⟩
    have hpv := parseV_render v hv f (t ++ bComma :: (renderEnts (.cons l2 k2 m2 c2 v2 t2 rs) ++ bRBc :: post))
      (by omega) (endCtx_ws_then ht isScalarEnd_comma' _)
    have ih := parseEnts_render (.cons l2 k2 m2 c2 v2 t2 rs) hr rfl f l2 post hl2 (by omega)
    have hrec : parseEnts f (renderEnts (.cons l2 k2 m2 c2 v2 t2 rs) ++ bRBc :: post) =
        some (normEnts (.cons l2 k2 m2 c2 v2 t2 rs), post) := by
      simpa [renderEnts, entsBody, normEnts, withLeadE, append_assoc] using ih
    have := parseEnts_more f l' k m c v (norm v) t _ _ post hl' hk hm hc hv ht hpv hrec
    rw [entsBody]
    simp only [JEnts.isNil, sepOf, Bool.false_eq_true, if_false, append_assoc, cons_append, nil_append]
    rw [this]
    simp [normEnts, withLeadE]
end

/-- **Completeness of the byte-level predicate**: every rendering of a well-formed tree is accepted. -/
theorem isJsonText_complete (t : JT) (h : t.wf = true) : isJsonText (render t) = true := by
  have hp := parseV_render t h ((render t).length + 1) [] (by have := needV_le t h; omega) (Or.inl rfl)
  simp only [append_nil] at hp
  simp [isJsonText, witness, hp, wf_norm t h, render_norm t]

/-- **`isJsonText` decides the grammar**: a byte string is accepted iff it is the text of a well-formed tree. -/
theorem isJsonText_iff (e : Bytes) : isJsonText e = true ↔ ∃ t : JT, t.wf = true ∧ render t = e :=
  ⟨isJsonText_sound, fun ⟨t, ht, hr⟩ => hr ▸ isJsonText_complete t ht⟩

instance (e : Bytes) : Decidable (∃ t : JT, t.wf = true ∧ render t = e) :=
  decidable_of_iff _ (isJsonText_iff e)

end ShpanVerif.Proofs.JsonParse
