/-
The interpreter never changes the shape (description) of a pipeline: only operator state.
-/
import ShpanVerif.Model.PipeShape

namespace ShpanVerif.Proofs.PipeShape
open ShpanVerif.Model.Pipe

theorem shapeList_set : ∀ (ps : PipeList) (i : Nat) (q p : Pipe),
    ps.get? i = some p → shape q = shape p → shapeList (ps.set i q) = shapeList ps
  | .nil, _, _, _, h, _ => by simp [PipeList.get?] at h
  | .cons a ps, 0, q, p, h, hq => by
      simp only [PipeList.get?, Option.some.injEq] at h; subst h
      simp [PipeList.set, shapeList, hq]
  | .cons a ps, i+1, q, p, h, hq => by
      simp only [PipeList.get?] at h
      simp [PipeList.set, shapeList, shapeList_set ps i q p h hq]

mutual
theorem closeP_shape : ∀ (p : Pipe) (w : World), shape (closeP p w).1 = shape p
  | .src r xs i, w => by simp [closeP, shape]
  | .lc r p, w => by simp [closeP, shape, closeP_shape p w]
  | .map f p, w => by simp [closeP, shape, closeP_shape p w]
  | .filter g p, w => by simp [closeP, shape, closeP_shape p w]
  | .limit n c p, w => by
      simp only [closeP]; split <;> simp [shape, closeP_shape p w]
  | .skip n d p, w => by simp [closeP, shape, closeP_shape p w]
  | .concat ps next curOpen o, w => by
      simp only [closeP]; split <;> simp [shape, closeAt_shape ps (next-1) w]
  | .zip ps k, w => by simp [closeP, shape, closeFirst_shape ps k w]
  | .merge ps k s, w => by simp [closeP, shape, closeFirst_shape ps k w]
  | .window s st o buf d so p, w => by
      simp only [closeP]; split <;> simp [shape, closeP_shape p w]
  | .cluster k fac nxt cls last so p, w => by
      simp only [closeP]; split <;> simp [shape, closeP_shape p w]
theorem closeFirst_shape : ∀ (ps : PipeList) (k : Nat) (w : World), shapeList (closeFirst ps k w).1 = shapeList ps
  | .nil, k, w => by simp [closeFirst]
  | .cons p ps, 0, w => by simp [closeFirst]
  | .cons p ps, k+1, w => by
      simp [closeFirst, shapeList, closeFirst_shape ps k w, closeP_shape p]
theorem closeAt_shape : ∀ (ps : PipeList) (i : Nat) (w : World), shapeList (closeAt ps i w).1 = shapeList ps
  | .nil, i, w => by simp [closeAt]
  | .cons p ps, 0, w => by simp [closeAt, shapeList, closeP_shape p w]
  | .cons p ps, i+1, w => by simp [closeAt, shapeList, closeAt_shape ps i w]
end

end ShpanVerif.Proofs.PipeShape
