/-
C04 termination, part 3: ZipN, merge and cluster preserve `Term`.
-/
import ShpanVerif.Proofs.PipeC04TermOps
import ShpanVerif.Proofs.PipeC04Merge

namespace ShpanVerif.Proofs.PipeC04
open ShpanVerif.Model.Pipe ShpanVerif

/-! ### ZipN -/

/-- all sub streams are open and bounded; the first one by `m` -/
def ZipInv (G L : Nat) (ps : PipeList) (m : Nat) : Prop :=
  ps.length = L ∧ (∀ j c, ps.get? j = some c → ∃ mj, Term G c mj) ∧ (∀ c, ps.get? 0 = some c → Term G c m)

def ZRowT (G L : Nat) (r : Res (List Int) × PipeList × World) (i m : Nat) : Prop :=
  match r with
  | (.val _, ps', w') => w'.Clean ∧
      if i = 0 then (∃ m', m' < m ∧ ZipInv G L ps' m') ∨ (L = 0 ∧ ZipInv G L ps' m) else ZipInv G L ps' m
  | (.eof, ps', w') => w'.Clean ∧ ZipInv G L ps' m
  | (.fail _, _, _) => True
  | (.panic _, _, _) => False
  | (.oof, _, _) => False

theorem zipInv_set {G L : Nat} {ps : PipeList} {m : Nat} (h : ZipInv G L ps m) {i : Nat} {p p' : Pipe}
    (hget : ps.get? i = some p) {mi : Nat} (ht : Term G p' mi) (h0 : i = 0 → mi ≤ m) :
    ZipInv G L (ps.set i p') m := by
  obtain ⟨hL, hall, h0'⟩ := h
  refine ⟨by rw [length_set]; exact hL, ?_, ?_⟩
  · intro j c hc
    by_cases hij : i = j
    · subst hij; rw [get?_set_self ps hget] at hc; cases hc; exact ⟨mi, ht⟩
    · rw [get?_set_ne ps hij] at hc; exact hall j c hc
  · intro c hc
    by_cases hi : i = 0
    · subst hi; rw [get?_set_self ps hget] at hc; cases hc; exact ht.mono_n (h0 rfl)
    · rw [get?_set_ne ps hi] at hc; exact h0' c hc

theorem zipRow_term {G L : Nat} : ∀ (k : Nat) (ps : PipeList) (i : Nat) (acc : List Int) (m : Nat) (w : World)
    (fuel : Nat), L - i = k → ZipInv G L ps m → w.Clean → G + k + 1 ≤ fuel →
    ZRowT G L (zipRow fuel ps i acc w) i m
  | k, ps, i, acc, m, w, fuel, hk, hinv, hw, hf => by
    obtain ⟨f, rfl, hf'⟩ := fuel_succ (F := G + k) (fuel := fuel) (by omega)
    rw [zipRow]
    cases hg : ps.get? i with
    | none =>
      simp only [ZRowT]
      refine ⟨hw, ?_⟩
      split
      · rename_i hi; subst hi
        refine Or.inr ⟨?_, hinv⟩
        rw [get?_toList] at hg
        have := List.getElem?_eq_none_iff.mp hg
        rw [length_toList] at this; have := hinv.1; omega
      · exact hinv
    | some p =>
      simp only
      have hilt := get?_lt_length hg
      obtain ⟨mi, hmi, hmi0⟩ : ∃ mi, Term G p mi ∧ (i = 0 → mi = m) := by
        by_cases hi : i = 0
        · subst hi; exact ⟨m, hinv.2.2 p hg, fun _ => rfl⟩
        · obtain ⟨mi, h⟩ := hinv.2.1 i p hg; exact ⟨mi, h, fun h0 => absurd h0 hi⟩
      have := hmi.step w hw f (by omega)
      rcases he : emitP f p w with ⟨res, p', w'⟩
      rw [he] at this
      cases res <;> simp only [TRes, ZRowT] at this ⊢
      · rename_i v
        obtain ⟨hc, m', hm', ht⟩ := this
        cases k with
        | zero => have := hinv.1; omega
        | succ k' =>
          by_cases hi : i = 0
          · subst hi
            have hm0 := hmi0 rfl; subst hm0
            -- the first sub stream advanced: its new bound is m'
            have hinv' : ZipInv G L (ps.set 0 p') m' := by
              obtain ⟨hL, hall, _⟩ := hinv
              refine ⟨by rw [length_set]; exact hL, ?_, ?_⟩
              · intro j c hc
                by_cases hij : 0 = j
                · subst hij; rw [get?_set_self ps hg] at hc; cases hc; exact ⟨m', ht⟩
                · rw [get?_set_ne ps hij] at hc; exact hall j c hc
              · intro c hc; rw [get?_set_self ps hg] at hc; cases hc; exact ht
            have ih := zipRow_term k' (ps.set 0 p') 1 (acc ++ v.flat) m' w' f (by omega) hinv' hc (by omega)
            rcases hz : zipRow f (ps.set 0 p') (0 + 1) (acc ++ v.flat) w' with ⟨res2, ps2, w2⟩
            rw [hz] at ih
            cases res2 <;> simp only [ZRowT] at ih ⊢
            · simp only [Nat.add_one_ne_zero, if_false] at ih
              simp only [if_true]
              exact ⟨ih.1, Or.inl ⟨m', hm', ih.2⟩⟩
            · obtain ⟨hc2, hL2, hall2, h02⟩ := ih
              exact ⟨hc2, hL2, hall2, fun c hc' => (h02 c hc').mono_n (by omega)⟩
          · have hinv' : ZipInv G L (ps.set i p') m := zipInv_set hinv hg ht (fun h0 => absurd h0 hi)
            have ih := zipRow_term k' (ps.set i p') (i+1) (acc ++ v.flat) m w' f (by omega) hinv' hc (by omega)
            rcases hz : zipRow f (ps.set i p') (i + 1) (acc ++ v.flat) w' with ⟨res2, ps2, w2⟩
            rw [hz] at ih
            cases res2 <;> simp only [ZRowT] at ih ⊢
            · simp only [Nat.add_one_ne_zero, if_false] at ih
              simp only [if_neg hi]
              exact ih
            · exact ih
      · obtain ⟨hc, ht⟩ := this
        exact ⟨hc, zipInv_set hinv hg ht (fun h0 => by rw [hmi0 h0]; exact Nat.le_refl _)⟩

theorem term_zip {G : Nat} (ps : PipeList) (opened : Nat) (m : Nat) (h : ZipInv G ps.length ps m) :
    Term (G + ps.length + 2) (.zip ps opened) m := by
  refine Term.intro (fun q m => ∃ ps' opened, q = .zip ps' opened ∧ ZipInv G ps.length ps' m) ?_ ⟨ps, opened, rfl, h⟩
  rintro q m ⟨ps', opened, rfl, hinv⟩ w hw fuel hf
  obtain ⟨f, rfl, hf'⟩ := fuel_succ (F := G + ps.length + 1) (fuel := fuel) (by omega)
  rw [emitP]
  by_cases hz : ps'.length = 0
  · rw [if_pos hz]
    exact ⟨hw, ps', opened, rfl, hinv⟩
  · rw [if_neg hz]
    have hr := zipRow_term (L := ps.length) (ps.length - 0) ps' 0 [] m w f rfl hinv hw (by omega)
    rcases hze : zipRow f ps' 0 [] w with ⟨res, ps2, w2⟩
    rw [hze] at hr
    cases res <;> simp only [ZRowT, TRes] at hr ⊢
    · simp only [if_true] at hr
      obtain ⟨hc, ⟨m', hm', hinv'⟩ | ⟨hL0, _⟩⟩ := hr
      · exact ⟨hc, m', hm', ps2, opened, rfl, hinv'⟩
      · have := hinv.1; omega
    · exact ⟨hr.1, ps2, opened, rfl, hr.2⟩

/-! ### merge -/

/-- 1 if look-ahead slot `j` holds a value -/
def filled (s : List (Option V)) (j : Nat) : Nat :=
  match s[j]? with
  | some (some _) => 1
  | _ => 0

/-- `ws[j]` bounds what input `j` can still contribute: its look-ahead slot plus what it can still emit -/
def MInv (G L : Nat) (ps : PipeList) (s : List (Option V)) (ws : List Nat) : Prop :=
  ps.length = L ∧ s.length = L ∧ ws.length = L ∧
    ∀ j c, ps.get? j = some c → ∃ mj, Term G c mj ∧ mj + filled s j ≤ ws[j]?.getD 0

def MRefT (G L : Nat) (r : Res (List (Option V)) × PipeList × World) (ws : List Nat) : Prop :=
  match r with
  | (.val s1, ps', w') => w'.Clean ∧ MInv G L ps' s1 ws
  | (.eof, _, _) => False
  | (.fail _, _, _) => True
  | (.panic _, _, _) => False
  | (.oof, _, _) => False

theorem filled_set_ne (s : List (Option V)) {i j : Nat} (h : i ≠ j) (x : Option V) :
    filled (s.set i x) j = filled s j := by
  simp only [filled, List.getElem?_set_ne h]

theorem mergeRefill_term {G L : Nat} : ∀ (k : Nat) (ps : PipeList) (i : Nat) (s : List (Option V)) (ws : List Nat)
    (w : World) (fuel : Nat), L - i = k → MInv G L ps s ws → w.Clean → G + k + 1 ≤ fuel →
    MRefT G L (mergeRefill fuel ps i s w) ws
  | k, ps, i, s, ws, w, fuel, hk, hinv, hw, hf => by
    obtain ⟨f, rfl, hf'⟩ := fuel_succ (F := G + k) (fuel := fuel) (by omega)
    rw [mergeRefill]
    cases hg : ps.get? i with
    | none => exact ⟨hw, hinv⟩
    | some p =>
      simp only
      have hilt := get?_lt_length hg
      obtain ⟨hL, hsL, hwL, hall⟩ := hinv
      cases k with
      | zero => omega
      | succ k' =>
        have hskip : ∀ (w0 : World), w0.Clean →
            MRefT G L (mergeRefill f ps (i+1) s w0) ws :=
          fun w0 hw0 => mergeRefill_term k' ps (i+1) s ws w0 f (by omega) ⟨hL, hsL, hwL, hall⟩ hw0 (by omega)
        have hpull : filled s i = 0 →
            MRefT G L (if w.cancelled = true then (Res.fail Root.ctx, ps, w) else
              match emitP f p w with
              | (.val v, p, w) => mergeRefill f (ps.set i p) (i+1) (s.set i (some v)) w
              | (.eof, p, w) => mergeRefill f (ps.set i p) (i+1) s w
              | (.fail e, p, w) => (.fail e, ps.set i p, w)
              | (.panic b, p, w) => (.panic b, ps.set i p, w)
              | (.oof, p, w) => (.oof, ps.set i p, w)) ws := by
          intro hfi
          rw [if_neg (not_cancelled hw)]
          obtain ⟨mi, hmi, hmile⟩ := hall i p hg
          have := hmi.step w hw f (by omega)
          rcases he : emitP f p w with ⟨res, p', w'⟩
          rw [he] at this
          cases res <;> simp only [TRes, MRefT] at this ⊢
          · rename_i v
            obtain ⟨hc, m', hm', ht⟩ := this
            apply mergeRefill_term k' (ps.set i p') (i+1) (s.set i (some v)) ws w' f (by omega) _ hc (by omega)
            refine ⟨by rw [length_set]; exact hL, by rw [List.length_set]; exact hsL, hwL, ?_⟩
            intro j c hc'
            by_cases hij : i = j
            · subst hij
              rw [get?_set_self ps hg] at hc'; cases hc'
              refine ⟨m', ht, ?_⟩
              have : filled (s.set i (some v)) i ≤ 1 := by
                simp only [filled]; split <;> omega
              omega
            · rw [get?_set_ne ps hij] at hc'
              rw [filled_set_ne s hij]
              exact hall j c hc'
          · obtain ⟨hc, ht⟩ := this
            apply mergeRefill_term k' (ps.set i p') (i+1) s ws w' f (by omega) _ hc (by omega)
            refine ⟨by rw [length_set]; exact hL, hsL, hwL, ?_⟩
            intro j c hc'
            by_cases hij : i = j
            · subst hij
              rw [get?_set_self ps hg] at hc'; cases hc'
              exact ⟨mi, ht, hmile⟩
            · rw [get?_set_ne ps hij] at hc'
              exact hall j c hc'
        cases hsi : s[i]? with
        | none => simp only; exact hpull (by simp [filled, hsi])
        | some x =>
          cases x with
          | none => simp only; exact hpull (by simp [filled, hsi])
          | some v => simp only; exact hskip w hw

theorem scanMin_mem : ∀ (s : List (Option V)) (i : Nat) (acc : Option (Nat × V)) (j : Nat) (v : V),
    Model.Pipe.scanMin i s acc = some (j, v) → acc = some (j, v) ∨ (i ≤ j ∧ s[j - i]? = some (some v))
  | [], _, acc, j, v, h => by simp only [Model.Pipe.scanMin] at h; exact Or.inl h
  | none :: s, i, acc, j, v, h => by
    simp only [Model.Pipe.scanMin] at h
    rcases scanMin_mem s (i+1) acc j v h with h | ⟨h1, h2⟩
    · exact Or.inl h
    · refine Or.inr ⟨by omega, ?_⟩
      have : j - i = (j - (i+1)) + 1 := by omega
      rw [this, List.getElem?_cons_succ]; exact h2
  | some x :: s, i, none, j, v, h => by
    simp only [Model.Pipe.scanMin] at h
    rcases scanMin_mem s (i+1) _ j v h with h | ⟨h1, h2⟩
    · simp only [Option.some.injEq, Prod.mk.injEq] at h
      obtain ⟨rfl, rfl⟩ := h
      exact Or.inr ⟨Nat.le_refl _, by simp⟩
    · refine Or.inr ⟨by omega, ?_⟩
      have : j - i = (j - (i+1)) + 1 := by omega
      rw [this, List.getElem?_cons_succ]; exact h2
  | some x :: s, i, some (j0, m0), j, v, h => by
    simp only [Model.Pipe.scanMin] at h
    rcases scanMin_mem s (i+1) _ j v h with h | ⟨h1, h2⟩
    · split at h
      · simp only [Option.some.injEq, Prod.mk.injEq] at h
        obtain ⟨rfl, rfl⟩ := h
        exact Or.inr ⟨Nat.le_refl _, by simp⟩
      · exact Or.inl h
    · refine Or.inr ⟨by omega, ?_⟩
      have : j - i = (j - (i+1)) + 1 := by omega
      rw [this, List.getElem?_cons_succ]; exact h2

theorem sum_set_pred : ∀ (ws : List Nat) (j : Nat), j < ws.length → 1 ≤ ws[j]?.getD 0 →
    (ws.set j (ws[j]?.getD 0 - 1)).sum + 1 = ws.sum
  | [], _, h, _ => by simp at h
  | a :: ws, 0, _, h1 => by
    simp only [List.getElem?_cons_zero, Option.getD_some] at h1
    simp only [List.set_cons_zero, List.getElem?_cons_zero, Option.getD_some, List.sum_cons]; omega
  | a :: ws, j+1, h, h1 => by
    simp only [List.getElem?_cons_succ] at h1
    simp only [List.set_cons_succ, List.getElem?_cons_succ, List.sum_cons]
    have := sum_set_pred ws j (by simpa using h) h1
    omega

/-- states of a merge over `L > 0` opened inputs -/
def MergeR (G L : Nat) (q : Pipe) (m : Nat) : Prop :=
  ∃ ps opened slots ws, q = .merge ps opened slots ∧
    MInv G L ps (slots.getD (List.replicate L none)) ws ∧ ws.sum ≤ m

theorem term_merge {G : Nat} (ps : PipeList) (opened : Nat) (slots : Option (List (Option V))) (ws : List Nat)
    (hL : ps.length ≠ 0) (h : MInv G ps.length ps (slots.getD (List.replicate ps.length none)) ws) :
    Term (G + ps.length + 2) (.merge ps opened slots) ws.sum := by
  refine Term.intro (MergeR G ps.length) ?_ ⟨ps, opened, slots, ws, rfl, h, Nat.le_refl _⟩
  rintro q m ⟨ps', opened, slots, ws, rfl, hinv, hsum⟩ w hw fuel hf
  obtain ⟨f, rfl, hf'⟩ := fuel_succ (F := G + ps.length + 1) (fuel := fuel) (by omega)
  have hL' : ps'.length = ps.length := hinv.1
  rw [emitP_merge_eq, if_neg (by omega), hL']
  have hr := mergeRefill_term (L := ps.length) (ps.length - 0) ps' 0 _ ws w f rfl hinv hw (by omega)
  rcases hre : mergeRefill f ps' 0 (slots.getD (List.replicate ps.length none)) w with ⟨res, ps2, w2⟩
  rw [hre] at hr
  cases res <;> simp only [MRefT, TRes] at hr ⊢
  rename_i s1
  obtain ⟨hc, hinv2⟩ := hr
  cases hscan : Model.Pipe.scanMin 0 s1 none with
  | none =>
    simp only
    exact ⟨hc, ps2, opened, some s1, ws, rfl, hinv2, hsum⟩
  | some jm =>
    obtain ⟨j, v⟩ := jm
    simp only
    rcases scanMin_mem s1 0 none j v hscan with h | ⟨_, hj⟩
    · cases h
    · simp only [Nat.sub_zero] at hj
      obtain ⟨hL2, hsL, hwL, hall⟩ := hinv2
      have hjlt : j < ps.length := by
        have := (List.getElem?_eq_some_iff.mp hj).1; omega
      have hfj : filled s1 j = 1 := by simp [filled, hj]
      have hcj : ∃ c, ps2.get? j = some c := by
        rw [get?_toList]
        exact ⟨_, List.getElem?_eq_getElem (by rw [length_toList]; omega)⟩
      obtain ⟨c, hc'⟩ := hcj
      obtain ⟨mj, htj, hmj⟩ := hall j c hc'
      have hw1 : 1 ≤ ws[j]?.getD 0 := by omega
      have hsum' := sum_set_pred ws j (by omega) hw1
      refine ⟨hc, (ws.set j (ws[j]?.getD 0 - 1)).sum, by omega, ps2, opened, some (s1.set j none),
        ws.set j (ws[j]?.getD 0 - 1), rfl, ⟨hL2, by simp only [Option.getD_some, List.length_set]; exact hsL,
          by rw [List.length_set]; exact hwL, ?_⟩, Nat.le_refl _⟩
      intro j' c' hc''
      simp only [Option.getD_some]
      by_cases hjj : j = j'
      · subst hjj
        rw [hc'] at hc''; cases hc''
        refine ⟨mj, htj, ?_⟩
        have : filled (s1.set j none) j = 0 := by
          simp only [filled, List.getElem?_set]
          split <;> simp_all
        rw [this, List.getElem?_set]
        simp only [if_true, hwL, hjlt, Option.getD_some]
        omega
      · rw [filled_set_ne s1 hjj, List.getElem?_set_ne hjj]
        exact hall j' c' hc''

theorem term_merge_empty (ps : PipeList) (opened : Nat) (slots : Option (List (Option V))) (h : ps.length = 0) :
    Term 1 (.merge ps opened slots) 0 := by
  refine Term.intro (fun q _ => q = .merge ps opened slots) ?_ rfl
  rintro q m rfl w hw fuel hf
  obtain ⟨f, rfl, _⟩ := fuel_succ hf
  rw [emitP_merge_eq, if_pos h]
  exact ⟨hw, rfl⟩

end ShpanVerif.Proofs.PipeC04
