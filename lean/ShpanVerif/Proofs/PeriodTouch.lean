/-
C12, the class lemma behind `MidnightsOK`: zones none of whose offset changes touches a local midnight.

For an offset change at instant `w` from offset `x` to offset `y` the local wall clock jumps from `w + x` to `w + y`:
the local times of `[w + x, w + y)` are SKIPPED when `y > x`, those of `[w + y, w + x)` are REPEATED when `y < x`.
`NoTouch z` says that no such half-open interval `[min, max)` contains a local midnight `L * 86400` (for any day `L`).

Results (core Lean only):
  * `local_picture`   : with consecutive transitions at least `2B` apart, inside any window `[v - B, v + B)` the zone
                        is a two-offset zone (at most one transition is visible);
  * `localDay_mono`   : under `NoTouch` (+ spacing) the local date is monotone in the instant (`localDay_ge_mono`: per
                        day `D`, from `NoTouchAt z D` alone);
  * `noTouchAt_MidOK` : `ZoneSorted z → Spaced B z → NoTouchAt z D → MidOK z D` (Go's two-lookup `time.Date` finds the
                        unique first instant of local day `D`); `noTouch_MidOK` : the same for all days from `NoTouch`;
  * `noTouchStarts_sound` : executable check that no change touches a period-start midnight of a day grid;
  * `noSpill_WeekInterOK` : `ZoneSorted z → Spaced B z → (no Monday midnight touched) → NoSpill z → WeekInterOK z` (wall clocks inside a
                        skipped interval resolve `Δ` later or earlier; `NoSpill`: on Mondays that stays on the Monday).
The spacing hypothesis `Spaced B z` (every offset strictly between `-B` and `B`, consecutive transitions `≥ 2B` apart)
is needed: see `Props/C12Touch.lean` for zones that satisfy `NoTouch` and violate `MidOK` / `WeekInterOK` without it.
-/
import ShpanVerif.Model.Period
import ShpanVerif.Proofs.PeriodLemmas
namespace ShpanVerif.Proofs.Period
open ShpanVerif.Model.Period

/-! ## definitions -/

/-- the offset in effect at `s`, scanning the table (first component of `lookupFrom`) -/
def offFrom (off : Int) : List (Int × Int) → Int → Int
  | [], _ => off
  | (w, o) :: rest, s => if s < w then off else offFrom o rest s

/-- the offset changes of a table as triples `(instant, offset before, offset after)` -/
def transFrom (off : Int) : List (Int × Int) → List (Int × Int × Int)
  | [] => []
  | (w, o) :: rest => (w, off, o) :: transFrom o rest

/-- all offset changes of a zone: `(w, x, y)` = at instant `w` the offset changes from `x` to `y` -/
def transitions (z : Zone) : List (Int × Int × Int) := transFrom z.init z.trans

/-- The skipped/repeated local interval `[min (w+x) (w+y), max (w+x) (w+y))` of the change contains no local midnight
(multiple of 86400).  Equivalent arithmetic form, see `noTouchTr_iff`. -/
def noTouchTr (t : Int × Int × Int) : Bool :=
  match t with
  | (w, x, y) => (w + x - 1) / 86400 == (w + y - 1) / 86400

/-- executable: no offset change of the zone touches a local midnight (of any day) -/
def noTouch (z : Zone) : Bool := (transitions z).all noTouchTr

/-- **No offset change's skipped/repeated local interval contains a local midnight.** -/
def NoTouch (z : Zone) : Prop := noTouch z = true

instance (z : Zone) : Decidable (NoTouch z) := by unfold NoTouch; infer_instance

/-- For a SKIP (`y > x`, `Δ = y - x`) whose skipped interval `[w + x, w + y)` begins on a MONDAY: the skipped wall
clocks that `time.Date` resolves forward (those `v ≥ w`, they exist iff `y ≥ 1`; the answer shows `v + Δ`) stay on that
Monday, and so do those it resolves backward (`v < w`, they exist iff `x < 0`; the answer shows `v - Δ`).  It is enough
to test the largest forward one (`w + y - 1`) and the smallest backward one (`w + x`), see `noSpillTr_iff`. -/
def noSpillTr (t : Int × Int × Int) : Bool :=
  match t with
  | (w, x, y) =>
    decide (y ≤ x) || decide (((w + x) / 86400 + 3) % 7 ≠ 0) ||
      (decide (y ≤ 0 ∨ (w + 2 * y - x - 1) / 86400 = (w + x) / 86400) &&
       decide (0 ≤ x ∨ (w + 2 * x - y) / 86400 = (w + x) / 86400))

def noSpill (z : Zone) : Bool := (transitions z).all noSpillTr

/-- **Resolving a skipped wall clock of a Monday never leaves that Monday** (only needed for the week kind: the
intermediate `t.AddDate(0, 0, -weekday+1)` of alignment_period.go:134 may ask for a skipped wall clock). -/
def NoSpill (z : Zone) : Prop := noSpill z = true

instance (z : Zone) : Decidable (NoSpill z) := by unfold NoSpill; infer_instance

/-- consecutive transition instants are at least `2 * B` apart (`prev` = the previous transition instant) -/
def gapsFrom (B prev : Int) : List (Int × Int) → Bool
  | [] => true
  | (w, _) :: rest => decide (prev + 2 * B ≤ w) && gapsFrom B w rest

def gapsOK (B : Int) : List (Int × Int) → Bool
  | [] => true
  | (w, _) :: rest => gapsFrom B w rest

/-- every offset of the zone lies strictly between `-B` and `B` -/
def offsBounded (B : Int) (z : Zone) : Bool :=
  decide (-B < z.init ∧ z.init < B) && z.trans.all (fun p => decide (-B < p.2 ∧ p.2 < B))

def spaced (B : Int) (z : Zone) : Bool := offsBounded B z && gapsOK B z.trans

/-- **Separation hypothesis**: every offset is strictly between `-B` and `B` seconds and consecutive transitions are at
least `2 * B` seconds apart.  With `B = 86400`: offsets below 24 h, transitions at least 48 h apart. -/
def Spaced (B : Int) (z : Zone) : Prop := spaced B z = true

instance (B : Int) (z : Zone) : Decidable (Spaced B z) := by unfold Spaced; infer_instance

/-! ## the predicates, spelled out -/

/-- `noTouchTr` is exactly: no day `L` whose local midnight lies in `[min, max)` of the two local readings of `w`. -/
theorem noTouchTr_iff (w x y : Int) :
    noTouchTr (w, x, y) = true ↔ ¬ ∃ L : Int, min (w + x) (w + y) ≤ L * 86400 ∧ L * 86400 < max (w + x) (w + y) := by
  unfold noTouchTr
  simp only [beq_iff_eq]
  constructor
  · rintro h ⟨L, h1, h2⟩
    omega
  · intro h
    apply Classical.byContradiction
    intro hne
    apply h
    by_cases hxy : x ≤ y
    · exact ⟨(w + y - 1) / 86400, by omega, by omega⟩
    · exact ⟨(w + x - 1) / 86400, by omega, by omega⟩

/-- `noSpillTr` spelled out: for a skip (`x < y`) beginning on a Monday (`(D + 3) % 7 = 0`, day 0 = Thursday), every
skipped wall clock `v` — resolved by `time.Date` to an instant showing `v + (y - x)` when `w ≤ v` and `v - (y - x)` when
`v < w` (see `noSpill_WeekInterOK`) — is shown on that same Monday. -/
theorem noSpillTr_iff (w x y : Int) :
    noSpillTr (w, x, y) = true ↔
      (x < y → ((w + x) / 86400 + 3) % 7 = 0 → ∀ v, w + x ≤ v → v < w + y →
        (w ≤ v → (v + (y - x)) / 86400 = (w + x) / 86400) ∧ (v < w → (v - (y - x)) / 86400 = (w + x) / 86400)) := by
  unfold noSpillTr
  simp only [Bool.or_eq_true, Bool.and_eq_true, decide_eq_true_eq]
  constructor
  · intro h hxy hmon v h1 h2
    constructor
    · intro hv; omega
    · intro hv; omega
  · intro h
    by_cases hxy : y ≤ x
    · exact Or.inl (Or.inl hxy)
    · by_cases hmon : ((w + x) / 86400 + 3) % 7 = 0
      · refine Or.inr ⟨?_, ?_⟩
        · by_cases hy : y ≤ 0
          · exact Or.inl hy
          · have := (h (by omega) hmon (w + y - 1) (by omega) (by omega)).1 (by omega)
            refine Or.inr ?_
            rw [← this]; congr 1; omega
        · by_cases hx : 0 ≤ x
          · exact Or.inl hx
          · have := (h (by omega) hmon (w + x) (by omega) (by omega)).2 (by omega)
            refine Or.inr ?_
            rw [← this]; congr 1; omega
      · exact Or.inl (Or.inr hmon)

theorem NoTouch.mem {z : Zone} (h : NoTouch z) {w x y : Int} (hm : (w, x, y) ∈ transitions z) :
    (w + x - 1) / 86400 = (w + y - 1) / 86400 := by
  unfold NoTouch noTouch at h
  have := List.all_eq_true.1 h _ hm
  simpa [noTouchTr] using this

theorem NoSpill.mem {z : Zone} (h : NoSpill z) {w x y : Int} (hm : (w, x, y) ∈ transitions z) :
    (y ≤ x ∨ ((w + x) / 86400 + 3) % 7 ≠ 0) ∨
      ((y ≤ 0 ∨ (w + 2 * y - x - 1) / 86400 = (w + x) / 86400) ∧
       (0 ≤ x ∨ (w + 2 * x - y) / 86400 = (w + x) / 86400)) := by
  unfold NoSpill noSpill at h
  have := List.all_eq_true.1 h _ hm
  simpa [noSpillTr] using this

/-! ## the table scan -/

theorem lookupFrom_fst : ∀ (l : List (Int × Int)) (off start s : Int), (lookupFrom off start l s).1 = offFrom off l s
  | [], _, _, _ => rfl
  | (w, o) :: rest, off, start, s => by
    unfold lookupFrom offFrom
    split
    · rfl
    · exact lookupFrom_fst rest o w s

theorem offsetAt_eq (z : Zone) (s : Int) : z.offsetAt s = offFrom z.init z.trans s :=
  lookupFrom_fst _ _ _ _

theorem offFrom_bounded {B : Int} : ∀ (l : List (Int × Int)) (off s : Int), -B < off → off < B →
    (l.all (fun p => decide (-B < p.2 ∧ p.2 < B)) = true) → -B < offFrom off l s ∧ offFrom off l s < B
  | [], _, _, h1, h2, _ => ⟨h1, h2⟩
  | (w, o) :: rest, off, s, h1, h2, h => by
    unfold offFrom
    simp only [List.all_cons, Bool.and_eq_true, decide_eq_true_eq] at h
    split
    · exact ⟨h1, h2⟩
    · exact offFrom_bounded rest o s h.1.1 h.1.2 h.2

theorem Spaced.offsetAt_bounded {B : Int} {z : Zone} (h : Spaced B z) (s : Int) :
    -B < z.offsetAt s ∧ z.offsetAt s < B := by
  unfold Spaced spaced offsBounded at h
  simp only [Bool.and_eq_true, decide_eq_true_eq] at h
  rw [offsetAt_eq]
  exact offFrom_bounded z.trans z.init s h.1.1.1 h.1.1.2 h.1.2

theorem gapsFrom_gapsOK {B prev : Int} : ∀ {l : List (Int × Int)}, gapsFrom B prev l = true → gapsOK B l = true
  | [], _ => rfl
  | (w, o) :: rest, h => by
    unfold gapsFrom at h
    simp only [Bool.and_eq_true] at h
    exact h.2

/-- **Local picture.**  With consecutive transitions at least `2B` apart, inside the window `[v - B, v + B)` the zone
looks like a zone with at most one offset change `(w, x, y)`, which is a genuine change of the table unless `x = y`. -/
theorem local_picture {B : Int} : ∀ (l : List (Int × Int)) (off : Int), gapsOK B l = true → ∀ v : Int,
    ∃ w x y, (x = y ∨ (w, x, y) ∈ transFrom off l) ∧
      ∀ s, v - B ≤ s → s < v + B → offFrom off l s = if s < w then x else y
  | [], off, _, v => ⟨0, off, off, Or.inl rfl, fun s _ _ => by simp [offFrom]⟩
  | (w₁, o₁) :: rest, off, h, v => by
    by_cases c1 : v + B ≤ w₁
    · refine ⟨w₁, off, off, Or.inl rfl, fun s _ h2 => ?_⟩
      unfold offFrom
      rw [if_pos (by omega)]; simp
    · by_cases c2 : w₁ ≤ v - B
      · obtain ⟨w, x, y, hm, hp⟩ := local_picture rest o₁ (gapsFrom_gapsOK h) v
        refine ⟨w, x, y, ?_, fun s h1 h2 => ?_⟩
        · rcases hm with hm | hm
          · exact Or.inl hm
          · exact Or.inr (by unfold transFrom; exact List.mem_cons_of_mem _ hm)
        · rw [← hp s h1 h2]
          conv => lhs; unfold offFrom
          rw [if_neg (by omega)]
      · refine ⟨w₁, off, o₁, Or.inr (by unfold transFrom; exact List.mem_cons_self), fun s h1 h2 => ?_⟩
        conv => lhs; unfold offFrom
        by_cases hs : s < w₁
        · rw [if_pos hs, if_pos hs]
        · rw [if_neg hs, if_neg hs]
          cases rest with
          | nil => rfl
          | cons p rest' =>
            obtain ⟨w₂, o₂⟩ := p
            unfold gapsOK gapsFrom at h
            simp only [Bool.and_eq_true, decide_eq_true_eq] at h
            unfold offFrom
            rw [if_pos (by omega)]

/-- the local picture of a spaced zone around `v`, in terms of `offsetAt` -/
theorem Spaced.picture {B : Int} {z : Zone} (h : Spaced B z) (v : Int) :
    ∃ w x y, (x = y ∨ (w, x, y) ∈ transitions z) ∧
      ∀ s, v - B ≤ s → s < v + B → z.offsetAt s = if s < w then x else y := by
  have hg : gapsOK B z.trans = true := by
    unfold Spaced spaced at h
    simp only [Bool.and_eq_true] at h
    exact h.2
  obtain ⟨w, x, y, hm, hp⟩ := local_picture z.trans z.init hg v
  exact ⟨w, x, y, hm, fun s h1 h2 => by rw [offsetAt_eq]; exact hp s h1 h2⟩

/-! ## touching the midnight of one given day -/

/-- the skipped/repeated local interval `[min, max)` of the change contains the local midnight of day `D` -/
def touchesAt (t : Int × Int × Int) (D : Int) : Bool :=
  match t with
  | (w, x, y) => decide (min (w + x) (w + y) ≤ D * 86400 ∧ D * 86400 < max (w + x) (w + y))

/-- **No offset change's skipped/repeated local interval contains the local midnight of day `D`.** -/
def NoTouchAt (z : Zone) (D : Int) : Prop := ∀ t ∈ transitions z, touchesAt t D = false

instance (z : Zone) (D : Int) : Decidable (NoTouchAt z D) := by unfold NoTouchAt; infer_instance

theorem NoTouchAt.mem {z : Zone} {D : Int} (h : NoTouchAt z D) {w x y : Int} (hm : (w, x, y) ∈ transitions z) :
    ¬ (min (w + x) (w + y) ≤ D * 86400 ∧ D * 86400 < max (w + x) (w + y)) := by
  have := h _ hm
  simpa [touchesAt] using this

/-- `NoTouch` is `NoTouchAt` for every day. -/
theorem NoTouch.at {z : Zone} (h : NoTouch z) (D : Int) : NoTouchAt z D := by
  intro t ht
  obtain ⟨w, x, y⟩ := t
  have h1 : noTouchTr (w, x, y) = true := by
    unfold NoTouch noTouch at h
    exact List.all_eq_true.1 h _ ht
  have h2 := (noTouchTr_iff w x y).1 h1
  unfold touchesAt
  simp only [decide_eq_false_iff_not]
  exact fun hc => h2 ⟨D, hc⟩

theorem noTouch_iff_forall_at (z : Zone) : NoTouch z ↔ ∀ D, NoTouchAt z D := by
  refine ⟨fun h D => h.at D, fun h => ?_⟩
  unfold NoTouch noTouch
  rw [List.all_eq_true]
  intro t ht
  obtain ⟨w, x, y⟩ := t
  rw [noTouchTr_iff]
  rintro ⟨L, hL⟩
  exact (h L).mem ht hL

/-! ## the local date does not fall back below `D` -/

theorem localDay_ge_step {B : Int} {z : Zone} {D : Int} (hsp : Spaced B z) (hn : NoTouchAt z D) (s : Int)
    (h : D ≤ localDay z s) : D ≤ localDay z (s + 1) := by
  obtain ⟨w, x, y, hm, hp⟩ := hsp.picture (s + 1)
  have hb := hsp.offsetAt_bounded s
  have h0 := hp s (by omega) (by omega)
  have h1 := hp (s + 1) (by omega) (by omega)
  have hnt : x = y ∨ ¬ (min (w + x) (w + y) ≤ D * 86400 ∧ D * 86400 < max (w + x) (w + y)) := by
    rcases hm with hm | hm
    · exact Or.inl hm
    · exact Or.inr (hn.mem hm)
  unfold localDay localSecs at *
  generalize z.offsetAt s = a at *
  generalize z.offsetAt (s + 1) = a' at *
  split at h0 <;> split at h1 <;> rcases hnt with hnt | hnt <;> omega

/-- If no offset change touches the midnight of day `D`, then once the local date has reached `D` it stays `≥ D`
(the wall clock jumps at a transition, but never back across that midnight). -/
theorem localDay_ge_mono {B : Int} {z : Zone} {D : Int} (hsp : Spaced B z) (hn : NoTouchAt z D) {s s' : Int}
    (h : s ≤ s') (hD : D ≤ localDay z s) : D ≤ localDay z s' := by
  have key : ∀ n : Nat, D ≤ localDay z (s + n) := by
    intro n
    induction n with
    | zero => simpa using hD
    | succ n ih =>
      have := localDay_ge_step hsp hn (s + n) ih
      have e : s + ((n + 1 : Nat) : Int) = s + (n : Int) + 1 := by omega
      rw [e]; exact this
  have := key (s' - s).toNat
  have e : s + ((s' - s).toNat : Int) = s' := by omega
  rw [e] at this; exact this

/-- **Under `NoTouch` the local date never goes back.** -/
theorem localDay_mono {B : Int} {z : Zone} (hsp : Spaced B z) (hn : NoTouch z) {s s' : Int} (h : s ≤ s') :
    localDay z s ≤ localDay z s' :=
  localDay_ge_mono hsp (hn.at _) h (Int.le_refl _)

/-! ## `time.Date` finds the first instant of local day `D` -/

/-- In a sorted, spaced zone in which no offset change touches the midnight of day `D`, `time.Date(day D, 00:00:00)` is
an instant showing exactly that wall clock, and the instant before shows an earlier one.  (Both lookups of Go's rule
see the zone as a two-offset zone; the two candidate offsets put the local reading of the transition on the same side
of the midnight, so whichever the first lookup returns, the second one returns the offset in effect at the answer.) -/
theorem noTouchAt_mid_exact {B : Int} {z : Zone} {D : Int} (hs : ZoneSorted z) (hsp : Spaced B z)
    (hn : NoTouchAt z D) : localSecs z (mid z D) = D * 86400 ∧ localSecs z (mid z D - 1) < D * 86400 := by
  unfold mid
  rw [goDateSec_eq_offsets z hs]
  unfold localSecs
  obtain ⟨w, x, y, hmem, hp⟩ := hsp.picture (D * 86400)
  have hnt : x = y ∨ ¬ (min (w + x) (w + y) ≤ D * 86400 ∧ D * 86400 < max (w + x) (w + y)) := by
    rcases hmem with hmem | hmem
    · exact Or.inl hmem
    · exact Or.inr (hn.mem hmem)
  generalize D * 86400 = m at *
  have ba := hsp.offsetAt_bounded m
  have ha := hp m (by omega) (by omega)
  generalize z.offsetAt m = a at *
  have bb := hsp.offsetAt_bounded (m - a)
  have hb := hp (m - a) (by omega) (by omega)
  generalize z.offsetAt (m - a) = b at *
  have he := hp (m - b) (by omega) (by omega)
  have he' := hp (m - b - 1) (by omega) (by omega)
  generalize z.offsetAt (m - b) = e at *
  generalize z.offsetAt (m - b - 1) = e' at *
  split at ha <;> split at hb <;> split at he <;> split at he' <;> rcases hnt with hnt | hnt <;>
    (constructor <;> omega)

/-- **The local midnight of day `D` is well behaved** in a sorted, spaced zone none of whose offset changes touches
it. -/
theorem noTouchAt_MidOK {B : Int} {z : Zone} {D : Int} (hs : ZoneSorted z) (hsp : Spaced B z) (hn : NoTouchAt z D) :
    MidOK z D := by
  obtain ⟨h1, h2⟩ := noTouchAt_mid_exact hs hsp hn
  have hmidday : D ≤ localDay z (mid z D) := by unfold localDay; rw [h1]; omega
  refine ⟨h1, fun s => ⟨fun hD => ?_, fun hr => ?_⟩⟩
  · apply Classical.byContradiction
    intro hlt
    have := localDay_ge_mono hsp hn (show s ≤ mid z D - 1 by omega) hD
    unfold localDay at this
    omega
  · exact localDay_ge_mono hsp hn hr hmidday

/-- **Every local midnight is well behaved** in a sorted, spaced zone none of whose offset changes touches a local
midnight. -/
theorem noTouch_MidOK {B : Int} {z : Zone} (hs : ZoneSorted z) (hsp : Spaced B z) (hn : NoTouch z) (D : Int) :
    MidOK z D :=
  noTouchAt_MidOK hs hsp (hn.at D)

/-! ## the week intermediate -/

/-- In a sorted, spaced zone where no offset change touches a MONDAY midnight and with `NoSpill`, resolving any wall
clock `c` of a Monday `P` gives an instant of that Monday: a wall clock that exists is resolved to an instant showing it;
a skipped one (`w + x ≤ v < w + y`) is resolved to `v - x` (showing `v + Δ`) when `w ≤ v` and to `v - y` (showing
`v - Δ`) when `v < w`. -/
theorem noSpill_WeekInterOK {B : Int} {z : Zone} (hs : ZoneSorted z) (hsp : Spaced B z)
    (hn : ∀ P, weekGrid.gs P = P → NoTouchAt z P) (hsl : NoSpill z) : WeekInterOK z := by
  intro P c hP h0 h1
  have hnP := hn P hP
  simp only [weekGrid] at hP
  rw [goDateSec_eq_offsets z hs]
  unfold localDay localSecs
  generalize hv : P * 86400 + c = v
  obtain ⟨w, x, y, hmem, hp⟩ := hsp.picture v
  have hnt : x = y ∨ (¬ (min (w + x) (w + y) ≤ P * 86400 ∧ P * 86400 < max (w + x) (w + y)) ∧
      ((y ≤ x ∨ ((w + x) / 86400 + 3) % 7 ≠ 0) ∨
        ((y ≤ 0 ∨ (w + 2 * y - x - 1) / 86400 = (w + x) / 86400) ∧
         (0 ≤ x ∨ (w + 2 * x - y) / 86400 = (w + x) / 86400)))) := by
    rcases hmem with hmem | hmem
    · exact Or.inl hmem
    · exact Or.inr ⟨hnP.mem hmem, hsl.mem hmem⟩
  have ba := hsp.offsetAt_bounded v
  have ha := hp v (by omega) (by omega)
  generalize z.offsetAt v = a at *
  have bb := hsp.offsetAt_bounded (v - a)
  have hb := hp (v - a) (by omega) (by omega)
  generalize z.offsetAt (v - a) = b at *
  have he := hp (v - b) (by omega) (by omega)
  generalize z.offsetAt (v - b) = e at *
  split at ha <;> split at hb <;> split at he <;> rcases hnt with hnt | ⟨hnt, hsp'⟩ <;> omega

/-! ## executable check: no offset change touches a period-start midnight of a given grid -/

/-- no day of `[L0, L0 + n)` is a period start of grid `g` -/
def noStartIn (g : DayGrid) (L0 : Int) (n : Nat) : Bool := (List.range n).all (fun i => g.gs (L0 + i) != L0 + i)

/-- none of the local midnights inside the change's skipped/repeated interval `[min, max)` starts a period of `g` -/
def startTouchFree (g : DayGrid) (t : Int × Int × Int) : Bool :=
  match t with
  | (w, x, y) =>
    let L0 := (min (w + x) (w + y) + 86399) / 86400
    let L1 := (max (w + x) (w + y) - 1) / 86400
    noStartIn g L0 (L1 - L0 + 1).toNat

def noTouchStarts (g : DayGrid) (z : Zone) : Bool := (transitions z).all (startTouchFree g)

theorem noTouchStarts_sound {g : DayGrid} {z : Zone} (h : noTouchStarts g z = true) (P : Int) (hP : g.gs P = P) :
    NoTouchAt z P := by
  intro t ht
  obtain ⟨w, x, y⟩ := t
  unfold noTouchStarts at h
  have h1 := List.all_eq_true.1 h _ ht
  unfold startTouchFree noStartIn at h1
  simp only at h1
  unfold touchesAt
  simp only [decide_eq_false_iff_not]
  intro hc
  have h2 := List.all_eq_true.1 h1 (P - (min (w + x) (w + y) + 86399) / 86400).toNat
    (List.mem_range.2 (by omega))
  have e : (min (w + x) (w + y) + 86399) / 86400 +
      ((P - (min (w + x) (w + y) + 86399) / 86400).toNat : Int) = P := by omega
  rw [e] at h2
  simp [hP] at h2

end ShpanVerif.Proofs.Period
