/-
C14 helper lemmas: the inner join machine of Model/Reduce.lean (`joinCollect`) computes `commonRows`
for inputs with strictly increasing keys.
-/
import ShpanVerif.Model.Reduce

namespace ShpanVerif.Proofs.Join1415
open List ShpanVerif.Model.TsB ShpanVerif.Model.Reduce

variable {α : Type}

/-- Keys strictly increase along the list. -/
def StrictKeys (key : α → Int) (l : List α) : Prop := l.Pairwise (fun a b => key a < key b)

/-- what `jAdvance` does to a view -/
def adv (key : α → Int) (m : Int) : List α → List α
  | [] => []
  | h :: t => if key h < m then t else h :: t

theorem filterMap_ext_mem {β : Type} (f g : α → Option β) (l : List α) (h : ∀ x ∈ l, f x = g x) :
    l.filterMap f = l.filterMap g := by
  induction l with
  | nil => rfl
  | cons a l ih =>
    simp only [filterMap_cons, h a (by simp)]
    rw [ih (fun x hx => h x (by simp [hx]))]

/-! #### lookups -/

theorem lookups_heads (key : α → Int) (m : Int) :
    ∀ (rest : List (List α)) (hr : List α), rest.mapM head? = some hr → (∀ h ∈ hr, key h = m) →
      lookups key m rest = some hr := by
  intro rest
  induction rest with
  | nil => intro hr h _; simp at h; subst h; rfl
  | cons t ts ih =>
    intro hr h hk
    cases t with
    | nil => simp at h
    | cons a tl =>
      simp only [mapM_cons, head?_cons, Option.pure_def, Option.bind_eq_bind, Option.bind_some] at h
      cases hts : ts.mapM head? with
      | none => simp [hts] at h
      | some hr' =>
        simp only [hts, Option.bind_some, Option.some.injEq] at h
        subst h
        have ha : key a = m := hk a (by simp)
        simp [lookups, ha, ih hr' hts (fun x hx => hk x (by simp [hx]))]

theorem lookups_tail (key : α → Int) (m k : Int) (hkm : k ≠ m) :
    ∀ (rest : List (List α)) (hr : List α), rest.mapM head? = some hr → (∀ h ∈ hr, key h = m) →
      lookups key k (rest.map tail) = lookups key k rest := by
  intro rest
  induction rest with
  | nil => intro _ _ _; rfl
  | cons t ts ih =>
    intro hr h hk
    cases t with
    | nil => simp at h
    | cons a tl =>
      simp only [mapM_cons, head?_cons, Option.pure_def, Option.bind_eq_bind, Option.bind_some] at h
      cases hts : ts.mapM head? with
      | none => simp [hts] at h
      | some hr' =>
        simp only [hts, Option.bind_some, Option.some.injEq] at h
        subst h
        have ha : key a = m := hk a (by simp)
        have hne : (key a == k) = false := by simp only [beq_eq_false_iff_ne, ne_eq]; omega
        simp only [map_cons, tail_cons, lookups, find?_cons, hne]
        rw [ih hr' hts (fun x hx => hk x (by simp [hx]))]

theorem lookups_adv (key : α → Int) (m k : Int) (hkm : m ≤ k) :
    ∀ (rest : List (List α)), lookups key k (rest.map (adv key m)) = lookups key k rest := by
  intro rest
  induction rest with
  | nil => rfl
  | cons t ts ih =>
    cases t with
    | nil => simp only [map_cons, lookups, ih, adv]
    | cons a tl =>
      by_cases ha : key a < m
      · have hne : (key a == k) = false := by simp only [beq_eq_false_iff_ne, ne_eq]; omega
        simp only [map_cons, lookups, ih, adv, ha, if_true, find?_cons, hne]
      · simp only [map_cons, lookups, ih, adv, ha, if_false]

theorem lookups_none (key : α → Int) (m k : Int) (hkm : k < m) :
    ∀ (rest : List (List α)), (∃ t ∈ rest, ∀ y ∈ t, m ≤ key y) → lookups key k rest = none := by
  intro rest
  induction rest with
  | nil => intro h; simp at h
  | cons t ts ih =>
    intro h
    obtain ⟨t', ht', hall⟩ := h
    rcases mem_cons.mp ht' with rfl | ht'
    · have : t'.find? (fun y => key y == k) = none := by
        rw [find?_eq_none]
        intro y hy
        have := hall y hy
        simp only [beq_iff_eq]; omega
      simp [lookups, this]
    · have := ih ⟨t', ht', hall⟩
      simp only [lookups, this]
      split <;> simp_all

theorem adv_subset (key : α → Int) (m : Int) (t : List α) : ∀ y ∈ adv key m t, y ∈ t := by
  cases t with
  | nil => simp [adv]
  | cons a tl =>
    simp only [adv]
    split
    · intro y hy; simp [hy]
    · intro y hy; exact hy

/-! #### commonRows under the three kinds of step -/

/-- step 1: an exhausted input ends the join. -/
theorem commonRows_of_nil (key : α → Int) (views : List (List α)) (h : [] ∈ views) :
    commonRows key views = [] := by
  cases views with
  | nil => simp at h
  | cons s rest =>
    rcases mem_cons.mp h with hs | hr
    · subst hs; rfl
    · simp only [commonRows]
      rw [filterMap_eq_nil_iff]
      intro x _
      have : ∀ (rest : List (List α)), [] ∈ rest → lookups key (key x) rest = none := by
        intro rest
        induction rest with
        | nil => intro h; simp at h
        | cons t ts ih =>
          intro h
          rcases mem_cons.mp h with ht | ht
          · subst ht; simp [lookups]
          · simp only [lookups, ih ht]; split <;> simp_all
      simp [this rest hr]

/-- a match: all heads carry the same key `m`. -/
theorem commonRows_match (key : α → Int) (m : Int) (views : List (List α)) (hs : List α)
    (hh : views.mapM head? = some hs) (hne : views ≠ []) (hk : ∀ h ∈ hs, key h = m)
    (hsorted : ∀ v ∈ views, StrictKeys key v) :
    commonRows key views = hs :: commonRows key (views.map tail) := by
  cases views with
  | nil => exact absurd rfl hne
  | cons v0 rest =>
    cases v0 with
    | nil => simp at hh
    | cons h0 t0 =>
      simp only [mapM_cons, head?_cons, Option.pure_def, Option.bind_eq_bind, Option.bind_some] at hh
      cases hts : rest.mapM head? with
      | none => simp [hts] at hh
      | some hr =>
        simp only [hts, Option.bind_some, Option.some.injEq] at hh
        subst hh
        have hk0 : key h0 = m := hk h0 (by simp)
        have hkr : ∀ h ∈ hr, key h = m := fun x hx => hk x (by simp [hx])
        simp only [commonRows, filterMap_cons, map_cons, tail_cons]
        rw [hk0, lookups_heads key m rest hr hts hkr]
        simp only [Option.map_some]
        congr 1
        apply filterMap_ext_mem
        intro x hx
        have hs0 : StrictKeys key (h0 :: t0) := hsorted _ (by simp)
        have hlt : key h0 < key x := (pairwise_cons.mp hs0).1 x hx
        rw [lookups_tail key m (key x) (by omega) rest hr hts hkr]

/-- an advance: `m` is the largest head key; inputs whose head is behind `m` drop it. -/
theorem commonRows_adv (key : α → Int) (m : Int) (views : List (List α)) (hs : List α)
    (hh : views.mapM head? = some hs) (hle : ∀ h ∈ hs, key h ≤ m) (hex : ∃ h ∈ hs, key h = m)
    (hsorted : ∀ v ∈ views, StrictKeys key v) :
    commonRows key (views.map (adv key m)) = commonRows key views := by
  cases views with
  | nil => rfl
  | cons v0 rest =>
    cases v0 with
    | nil => simp at hh
    | cons h0 t0 =>
      simp only [mapM_cons, head?_cons, Option.pure_def, Option.bind_eq_bind, Option.bind_some] at hh
      cases hts : rest.mapM head? with
      | none => simp [hts] at hh
      | some hr =>
        simp only [hts, Option.bind_some, Option.some.injEq] at hh
        subst hh
        have hs0 : StrictKeys key (h0 :: t0) := hsorted _ (by simp)
        have hgt : ∀ x ∈ t0, key h0 < key x := (pairwise_cons.mp hs0).1
        by_cases hk0 : key h0 < m
        · -- the first input advances; the maximal key sits on another input
          have hwit : ∃ t ∈ rest, ∀ y ∈ t, m ≤ key y := by
            obtain ⟨h, hmem, hkey⟩ := hex
            rcases mem_cons.mp hmem with rfl | hmem
            · omega
            · -- find the view whose head is h
              have : ∀ (rest : List (List α)) (hr : List α), rest.mapM head? = some hr → h ∈ hr →
                  ∃ t ∈ rest, t.head? = some h := by
                intro rest
                induction rest with
                | nil => intro hr h1 h2; simp at h1; subst h1; simp at h2
                | cons t ts ih =>
                  intro hr h1 h2
                  cases t with
                  | nil => simp at h1
                  | cons a tl =>
                    simp only [mapM_cons, head?_cons, Option.pure_def, Option.bind_eq_bind, Option.bind_some] at h1
                    cases hts' : ts.mapM head? with
                    | none => simp [hts'] at h1
                    | some hr' =>
                      simp only [hts', Option.bind_some, Option.some.injEq] at h1
                      subst h1
                      rcases mem_cons.mp h2 with rfl | h2
                      · exact ⟨h :: tl, by simp, rfl⟩
                      · obtain ⟨t, ht, hth⟩ := ih hr' hts' h2
                        exact ⟨t, by simp [ht], hth⟩
              obtain ⟨t, ht, hth⟩ := this rest hr hts hmem
              refine ⟨t, ht, ?_⟩
              cases t with
              | nil => simp at hth
              | cons a tl =>
                simp only [head?_cons, Option.some.injEq] at hth
                subst hth
                have hst : StrictKeys key (a :: tl) := hsorted _ (by simp [ht])
                intro y hy
                rcases mem_cons.mp hy with rfl | hy
                · omega
                · have := (pairwise_cons.mp hst).1 y hy; omega
          have hwit' : ∃ t ∈ rest.map (adv key m), ∀ y ∈ t, m ≤ key y := by
            obtain ⟨t, ht, hall⟩ := hwit
            exact ⟨adv key m t, mem_map.mpr ⟨t, ht, rfl⟩, fun y hy => hall y (adv_subset key m t y hy)⟩
          simp only [map_cons, adv, hk0, if_true, commonRows, filterMap_cons]
          rw [lookups_none key m (key h0) hk0 rest hwit]
          simp only [Option.map_none]
          apply filterMap_ext_mem
          intro x hx
          by_cases hxm : m ≤ key x
          · rw [lookups_adv key m (key x) hxm]
          · rw [lookups_none key m (key x) (by omega) rest hwit,
              lookups_none key m (key x) (by omega) _ hwit']
        · -- the first input stays
          have hk0' : key h0 = m := by have := hle h0 (by simp); omega
          simp only [map_cons, adv, hk0, if_false, commonRows]
          apply filterMap_ext_mem
          intro x hx
          have hxm : m ≤ key x := by
            rcases mem_cons.mp hx with rfl | hx
            · omega
            · have := hgt x hx; omega
          rw [lookups_adv key m (key x) hxm]

/-! #### the machine -/

/-- Invariant of the join state: views strictly sorted, and above the remembered last key. -/
def JInv (key : α → Int) (st : List (JIn α)) : Prop :=
  ∀ s ∈ st, StrictKeys key s.view ∧ ∀ k, s.lastKey = some k → ∀ y ∈ s.view, k < key y

def total (st : List (JIn α)) : Nat := (st.map (fun s => s.view.length)).sum

theorem jHeads_eq (st : List (JIn α)) : jHeads st = (st.map (·.view)).mapM head? := by
  unfold jHeads
  induction st with
  | nil => rfl
  | cons s st ih => simp only [mapM_cons, map_cons, ih]

theorem jTake_view (key : α → Int) (s : JIn α) : (jTake key s).view = s.view.tail := by
  unfold jTake; cases h : s.view <;> simp [h]

theorem jAdvance_view (key : α → Int) (m : Int) (s : JIn α) : (jAdvance key m s).view = adv key m s.view := by
  unfold jAdvance; cases h : s.view with
  | nil => simp [h, adv]
  | cons a tl => simp only [adv]; split <;> simp [h]

theorem jUnsorted_false (key : α → Int) (st : List (JIn α)) (hinv : JInv key st) : jUnsorted key st = false := by
  unfold jUnsorted
  rw [any_eq_false]
  intro s hs
  obtain ⟨_, hk⟩ := hinv s hs
  split
  · rename_i k h tl hl hv
    have := hk k hl h (by rw [hv]; simp)
    simp only [decide_eq_true_eq]; omega
  · simp

theorem jInv_take (key : α → Int) (st : List (JIn α)) (hinv : JInv key st) : JInv key (st.map (jTake key)) := by
  intro s' hs'
  obtain ⟨s, hs, rfl⟩ := mem_map.mp hs'
  obtain ⟨hsort, hk⟩ := hinv s hs
  unfold jTake
  cases hv : s.view with
  | nil => exact ⟨hsort, hk⟩
  | cons a tl =>
    rw [hv] at hsort
    obtain ⟨ha, htl⟩ := pairwise_cons.mp hsort
    exact ⟨htl, fun k hk' y hy => by simp only [Option.some.injEq] at hk'; subst hk'; exact ha y hy⟩

theorem jInv_adv (key : α → Int) (m : Int) (st : List (JIn α)) (hinv : JInv key st) :
    JInv key (st.map (jAdvance key m)) := by
  intro s' hs'
  obtain ⟨s, hs, rfl⟩ := mem_map.mp hs'
  obtain ⟨hsort, hk⟩ := hinv s hs
  unfold jAdvance
  cases hv : s.view with
  | nil => exact ⟨hsort, hk⟩
  | cons a tl =>
    simp only
    split
    · rw [hv] at hsort
      obtain ⟨ha, htl⟩ := pairwise_cons.mp hsort
      exact ⟨htl, fun k hk' y hy => by simp only [Option.some.injEq] at hk'; subst hk'; exact ha y hy⟩
    · exact ⟨hsort, hk⟩

theorem sum_map_le {β : Type} (f g : β → Nat) (l : List β) (h : ∀ s ∈ l, f s ≤ g s) :
    (l.map f).sum ≤ (l.map g).sum := by
  induction l with
  | nil => simp
  | cons a l ih =>
    simp only [map_cons, sum_cons]
    have := h a (by simp)
    have := ih (fun s hs => h s (by simp [hs]))
    omega

theorem sum_map_lt {β : Type} (f g : β → Nat) (l : List β) (h : ∀ s ∈ l, f s ≤ g s)
    (hex : ∃ s ∈ l, f s < g s) : (l.map f).sum < (l.map g).sum := by
  induction l with
  | nil => obtain ⟨s, hs, _⟩ := hex; simp at hs
  | cons a l ih =>
    simp only [map_cons, sum_cons]
    have ha := h a (by simp)
    have hl := sum_map_le f g l (fun s hs => h s (by simp [hs]))
    obtain ⟨s, hs, hlt⟩ := hex
    rcases mem_cons.mp hs with rfl | hs
    · omega
    · have := ih (fun s hs => h s (by simp [hs])) ⟨s, hs, hlt⟩
      omega

theorem jMaxKey_fold (key : α → Int) (tl : List α) (init : Int) :
    let M := tl.foldl (fun m x => if key x > m then key x else m) init
    init ≤ M ∧ (∀ x ∈ tl, key x ≤ M) ∧ (M = init ∨ ∃ x ∈ tl, key x = M) := by
  induction tl generalizing init with
  | nil => simp
  | cons a tl ih =>
    simp only [foldl_cons]
    by_cases hgt : key a > init
    · simp only [hgt, if_true]
      obtain ⟨h1, h2, h3⟩ := ih (key a)
      refine ⟨by omega, ?_, ?_⟩
      · intro x hx
        rcases mem_cons.mp hx with rfl | hx
        · exact h1
        · exact h2 x hx
      · rcases h3 with h3 | ⟨x, hx, hxm⟩
        · exact Or.inr ⟨a, by simp, h3.symm⟩
        · exact Or.inr ⟨x, by simp [hx], hxm⟩
    · simp only [hgt, if_false]
      obtain ⟨h1, h2, h3⟩ := ih init
      refine ⟨h1, ?_, ?_⟩
      · intro x hx
        rcases mem_cons.mp hx with rfl | hx
        · omega
        · exact h2 x hx
      · rcases h3 with h3 | ⟨x, hx, hxm⟩
        · exact Or.inl h3
        · exact Or.inr ⟨x, by simp [hx], hxm⟩

theorem jMaxKey_spec (key : α → Int) (h : α) (tl : List α) :
    (∀ x ∈ h :: tl, key x ≤ jMaxKey key (h :: tl)) ∧ ∃ x ∈ h :: tl, key x = jMaxKey key (h :: tl) := by
  obtain ⟨h1, h2, h3⟩ := jMaxKey_fold key tl (key h)
  simp only [jMaxKey]
  refine ⟨?_, ?_⟩
  · intro x hx
    rcases mem_cons.mp hx with rfl | hx
    · exact h1
    · exact h2 x hx
  · rcases h3 with h3 | ⟨x, hx, hxm⟩
    · exact ⟨h, by simp, h3.symm⟩
    · exact ⟨x, by simp [hx], hxm⟩

/-- heads of the views, when all are non-empty: view = head :: tail, position by position. -/
theorem heads_mem (st : List (JIn α)) (hs : List α) (hh : jHeads st = some hs) :
    (∀ s ∈ st, ∃ h ∈ hs, s.view.head? = some h) ∧ (∀ h ∈ hs, ∃ s ∈ st, s.view.head? = some h) ∧ hs.length = st.length := by
  unfold jHeads at hh
  induction st generalizing hs with
  | nil => simp at hh; subst hh; simp
  | cons s st ih =>
    simp only [mapM_cons, Option.pure_def, Option.bind_eq_bind] at hh
    cases hv : s.view.head? with
    | none => simp [hv] at hh
    | some a =>
      cases hts : st.mapM (fun s => s.view.head?) with
      | none => simp [hv, hts] at hh
      | some hr =>
        simp only [hv, hts, Option.bind_some, Option.some.injEq] at hh
        subst hh
        obtain ⟨i1, i2, i3⟩ := ih hr hts
        refine ⟨?_, ?_, by simp [i3]⟩
        · intro s' hs'
          rcases mem_cons.mp hs' with rfl | hs'
          · exact ⟨a, by simp, hv⟩
          · obtain ⟨h, hh, hv'⟩ := i1 s' hs'
            exact ⟨h, by simp [hh], hv'⟩
        · intro h hh
          rcases mem_cons.mp hh with rfl | hh
          · exact ⟨s, by simp, hv⟩
          · obtain ⟨s', hs', hv'⟩ := i2 h hh
            exact ⟨s', by simp [hs'], hv'⟩

/-- **The join machine computes `commonRows`** on inputs with strictly increasing keys, and ends with EOF. -/
theorem joinCollect_spec (key : α → Int) :
    ∀ (fuel : Nat) (st : List (JIn α)), st ≠ [] → JInv key st → total st < fuel →
      joinCollect key fuel st = (commonRows key (st.map (·.view)), none) := by
  intro fuel
  induction fuel with
  | zero => intro st _ _ h; simp at h
  | succ fuel ih =>
    intro st hne hinv hfuel
    simp only [joinCollect]
    cases hh : jHeads st with
    | none =>
      -- some view is empty
      simp only
      have : [] ∈ st.map (·.view) := by
        rw [jHeads_eq] at hh
        generalize st.map (·.view) = views at hh
        induction views with
        | nil => simp at hh
        | cons v vs ihv =>
          cases v with
          | nil => simp
          | cons a tl =>
            simp only [mapM_cons, head?_cons, Option.pure_def, Option.bind_eq_bind, Option.bind_some] at hh
            cases hvs : vs.mapM head? with
            | none => simp [ihv hvs]
            | some x => simp [hvs] at hh
      rw [commonRows_of_nil key _ this]
    | some hs =>
      simp only [jUnsorted_false key st hinv, Bool.false_eq_true, if_false]
      obtain ⟨hm1, hm2, hlen⟩ := heads_mem st hs hh
      have hsne : hs ≠ [] := by
        intro h; subst h; simp at hlen
        exact hne (length_eq_zero_iff.mp hlen.symm)
      obtain ⟨h0, htl, rfl⟩ := exists_cons_of_ne_nil hsne
      obtain ⟨hle, hex⟩ := jMaxKey_spec key h0 htl
      have hsorted : ∀ v ∈ st.map (·.view), StrictKeys key v := by
        intro v hv
        obtain ⟨s, hs, rfl⟩ := mem_map.mp hv
        exact (hinv s hs).1
      have hh' : (st.map (·.view)).mapM head? = some (h0 :: htl) := by rw [← jHeads_eq]; exact hh
      split
      · -- all heads carry the maximal key: a row
        rename_i hall
        have hk : ∀ h ∈ h0 :: htl, key h = jMaxKey key (h0 :: htl) := by
          intro h hh; have := all_eq_true.mp hall h hh; simpa using this
        have hviews : (st.map (jTake key)).map (·.view) = (st.map (·.view)).map tail := by
          simp only [map_map]; apply map_congr_left; intro s _; exact jTake_view key s
        have hdec : total (st.map (jTake key)) < total st := by
          unfold total
          simp only [map_map]
          apply sum_map_lt
          · intro s _; simp only [Function.comp, jTake_view, length_tail]; omega
          · obtain ⟨s, hs⟩ := exists_mem_of_ne_nil _ hne
            obtain ⟨h, _, hv⟩ := hm1 s hs
            refine ⟨s, hs, ?_⟩
            simp only [Function.comp, jTake_view, length_tail]
            cases hvw : s.view with
            | nil => simp [hvw] at hv
            | cons a tl => simp
        rw [ih _ (by simpa using hne) (jInv_take key st hinv) (by omega), hviews,
          commonRows_match key _ _ _ hh' (by simpa using hne) hk hsorted]
      · -- advance the inputs that are behind
        rename_i hall
        have hviews : (st.map (jAdvance key (jMaxKey key (h0 :: htl)))).map (·.view)
            = (st.map (·.view)).map (adv key (jMaxKey key (h0 :: htl))) := by
          simp only [map_map]; apply map_congr_left; intro s _; exact jAdvance_view key _ s
        have hbehind : ∃ h ∈ h0 :: htl, key h < jMaxKey key (h0 :: htl) := by
          simp only [Bool.not_eq_true, all_eq_false, beq_iff_eq] at hall
          obtain ⟨h, hh, hne'⟩ := hall
          exact ⟨h, hh, by have := hle h hh; omega⟩
        have hdec : total (st.map (jAdvance key (jMaxKey key (h0 :: htl)))) < total st := by
          unfold total
          simp only [map_map]
          apply sum_map_lt
          · intro s _
            simp only [Function.comp, jAdvance_view]
            cases s.view with
            | nil => simp [adv]
            | cons a tl => simp only [adv]; split <;> simp
          · obtain ⟨h, hh, hlt⟩ := hbehind
            obtain ⟨s, hs, hv⟩ := hm2 h hh
            refine ⟨s, hs, ?_⟩
            simp only [Function.comp, jAdvance_view]
            cases hvw : s.view with
            | nil => simp [hvw] at hv
            | cons a tl =>
              simp only [hvw, head?_cons, Option.some.injEq] at hv
              subst hv
              simp [adv, hlt]
        rw [ih _ (by simpa using hne) (jInv_adv key _ st hinv) (by omega), hviews,
          commonRows_adv key _ _ _ hh' hle hex hsorted]

/-- `JoinMultipleSortedStreams(...).Collect()` over inputs with strictly increasing keys. -/
theorem joinStreams_spec (key : α → Int) (ss : List (List α)) (hne : ss ≠ [])
    (hsorted : ∀ s ∈ ss, StrictKeys key s) :
    joinStreams key ss = (commonRows key ss, none) := by
  unfold joinStreams
  have : ss.isEmpty = false := by cases ss <;> simp_all
  simp only [this, Bool.false_eq_true, if_false]
  rw [joinCollect_spec key _ _ (by simpa using hne)]
  · simp [map_map, Function.comp_def]
  · intro s hs
    obtain ⟨v, hv, rfl⟩ := mem_map.mp hs
    exact ⟨hsorted v hv, by simp⟩
  · unfold total; simp [map_map, Function.comp_def]

end ShpanVerif.Proofs.Join1415
