/-
C04 proof vocabulary, part 1 (helper file of Props/C04.lean): facts that do not mention the
denotation relation.

* the probe world in a fault-free run (`World.Clean`): calls never hit, `closeP` keeps it clean;
* `PipeList` ↔ `List Pipe` index lemmas, the pointwise relation `All2`;
* list-level facts about the reference semantics `Spec.windows`, `Spec.zipRows`, `Spec.runs`,
  `Spec.sortedBy` that turn their closed-form definitions into "first element / rest" recursions.
-/
import ShpanVerif.Model.PipeWF
import ShpanVerif.Spec.PipeSpec

namespace ShpanVerif.Proofs.PipeC04
open ShpanVerif.Model.Pipe ShpanVerif

/-! ### the clean world -/

theorem call_clean {w : World} (h : w.Clean) : ∃ w', w.call = (.none, w') ∧ w'.Clean := by
  obtain ⟨h1, h2⟩ := h
  unfold World.call
  rw [h1]
  exact ⟨_, rfl, rfl, h2⟩

theorem userCall_clean {w : World} (h : w.Clean) : ∃ w', userCall w = (.none, w') ∧ w'.Clean :=
  call_clean h

theorem emitRes_clean (r : Nat) {w : World} (h : w.Clean) : ∃ w', emitRes r w = (.none, w') ∧ w'.Clean := by
  obtain ⟨w', h1, h2⟩ := call_clean h
  unfold emitRes
  rw [h1]
  exact ⟨_, rfl, h2.1, h2.2⟩

theorem openRes_clean (r : Nat) {w : World} (h : w.Clean) : ∃ w', openRes r w = (.val (), w') ∧ w'.Clean := by
  obtain ⟨w', h1, h2⟩ := call_clean h
  unfold openRes
  rw [h1]
  exact ⟨_, rfl, h2.1, h2.2⟩

theorem closeRes_clean (r : Nat) {w : World} (h : w.Clean) : (closeRes r w).Clean := ⟨h.1, h.2⟩

mutual
theorem closeP_clean : ∀ (p : Pipe) {w : World}, w.Clean → (closeP p w).2.Clean
  | .src r xs _, w, h => by rw [closeP]; exact closeRes_clean r h
  | .lc r p, w, h => by rw [closeP]; exact closeRes_clean r (closeP_clean p h)
  | .map _ p, w, h => by rw [closeP]; exact closeP_clean p h
  | .filter _ p, w, h => by rw [closeP]; exact closeP_clean p h
  | .limit n _ p, w, h => by
    rw [closeP]; split
    · exact h
    · exact closeP_clean p h
  | .skip _ _ p, w, h => by rw [closeP]; exact closeP_clean p h
  | .concat ps next curOpen _, w, h => by
    rw [closeP]; split
    · exact closeAt_clean ps (next - 1) h
    · exact h
  | .zip ps opened, w, h => by rw [closeP]; exact closeFirst_clean ps opened h
  | .merge ps opened _, w, h => by rw [closeP]; exact closeFirst_clean ps opened h
  | .window _ _ _ _ _ subOpen p, w, h => by
    rw [closeP]; split
    · exact closeP_clean p h
    · exact h
  | .cluster _ _ _ _ _ subOpen p, w, h => by
    rw [closeP]; split
    · exact closeP_clean p h
    · exact h
theorem closeFirst_clean : ∀ (ps : PipeList) (k : Nat) {w : World}, w.Clean → (closeFirst ps k w).2.Clean
  | .nil, _, w, h => by rw [closeFirst]; exact h
  | .cons _ _, 0, w, h => by simp only [closeFirst]; exact h
  | .cons p ps, k+1, w, h => by
    rw [closeFirst]; exact closeP_clean p (closeFirst_clean ps k h)
theorem closeAt_clean : ∀ (ps : PipeList) (i : Nat) {w : World}, w.Clean → (closeAt ps i w).2.Clean
  | .nil, _, w, h => by rw [closeAt]; exact h
  | .cons p _, 0, w, h => by rw [closeAt]; exact closeP_clean p h
  | .cons _ ps, i+1, w, h => by rw [closeAt]; exact closeAt_clean ps i h
end

/-! ### `PipeList` as a list -/

theorem length_toList : ∀ (ps : PipeList), ps.toList.length = ps.length
  | .nil => rfl
  | .cons _ ps => by simp [PipeList.toList, PipeList.length, length_toList ps]

theorem get?_toList : ∀ (ps : PipeList) (i : Nat), ps.get? i = ps.toList[i]?
  | .nil, _ => by simp [PipeList.get?, PipeList.toList]
  | .cons _ _, 0 => by simp [PipeList.get?, PipeList.toList]
  | .cons _ ps, i+1 => by simp [PipeList.get?, PipeList.toList, get?_toList ps i]

theorem toList_set : ∀ (ps : PipeList) (i : Nat) (q : Pipe), (ps.set i q).toList = ps.toList.set i q
  | .nil, _, _ => by simp [PipeList.set, PipeList.toList]
  | .cons _ _, 0, _ => by simp [PipeList.set, PipeList.toList]
  | .cons _ ps, i+1, q => by simp [PipeList.set, PipeList.toList, toList_set ps i q]

theorem length_set (ps : PipeList) (i : Nat) (q : Pipe) : (ps.set i q).length = ps.length := by
  rw [← length_toList, toList_set, List.length_set, length_toList]

/-- pointwise relation between two lists of the same length -/
def All2 {α β : Type} (R : α → β → Prop) (as : List α) (bs : List β) : Prop :=
  as.length = bs.length ∧ ∀ (i : Nat) a b, as[i]? = some a → bs[i]? = some b → R a b

theorem All2.nil {α β : Type} {R : α → β → Prop} : All2 R [] [] := ⟨rfl, by simp⟩

theorem All2.cons_iff {α β : Type} {R : α → β → Prop} {a : α} {b : β} {as : List α} {bs : List β} :
    All2 R (a :: as) (b :: bs) ↔ R a b ∧ All2 R as bs := by
  constructor
  · intro ⟨hl, h⟩
    refine ⟨h 0 a b rfl rfl, by simpa using hl, fun i x y hx hy => h (i+1) x y (by simpa using hx) (by simpa using hy)⟩
  · intro ⟨h0, hl, h⟩
    refine ⟨by simp [hl], fun i x y hx hy => ?_⟩
    cases i with
    | zero => simp at hx hy; subst hx; subst hy; exact h0
    | succ i => exact h i x y (by simpa using hx) (by simpa using hy)

theorem All2.nil_left {α β : Type} {R : α → β → Prop} {bs : List β} (h : All2 R [] bs) : bs = [] := by
  have := h.1; simp at this; exact List.eq_nil_of_length_eq_zero this.symm

theorem All2.get {α β : Type} {R : α → β → Prop} {as : List α} {bs : List β} (h : All2 R as bs)
    {i : Nat} {a : α} (ha : as[i]? = some a) : ∃ b, bs[i]? = some b ∧ R a b := by
  have hi : i < as.length := by
    rcases Nat.lt_or_ge i as.length with h' | h'
    · exact h'
    · rw [List.getElem?_eq_none h'] at ha; cases ha
  have hi' : i < bs.length := h.1 ▸ hi
  exact ⟨bs[i], List.getElem?_eq_getElem hi', h.2 i a bs[i] ha (List.getElem?_eq_getElem hi')⟩

theorem All2.set {α β : Type} {R : α → β → Prop} {as : List α} {bs : List β} (h : All2 R as bs)
    (i : Nat) {a : α} {b : β} (hab : R a b) : All2 R (as.set i a) (bs.set i b) := by
  refine ⟨by simp [h.1], fun j x y hx hy => ?_⟩
  rw [List.getElem?_set] at hx hy
  by_cases hij : i = j
  · subst hij
    simp only [if_true] at hx hy
    split at hx
    · split at hy
      · cases hx; cases hy; exact hab
      · cases hy
    · cases hx
  · simp only [if_neg hij] at hx hy
    exact h.2 j x y hx hy

theorem All2.mono {α β : Type} {R S : α → β → Prop} {as : List α} {bs : List β} (h : All2 R as bs)
    (hrs : ∀ a b, R a b → S a b) : All2 S as bs :=
  ⟨h.1, fun i a b ha hb => hrs a b (h.2 i a b ha hb)⟩

/-! ### `Spec.windows` -/

section windows
variable {α : Type}

/-- the fuel of `Spec.windows` is irrelevant once it exceeds the length (for a positive step and size) -/
theorem windows_fuel (size step : Nat) (o : Bool) (hs : 0 < size) (hst : 0 < step) :
    ∀ (n m : Nat) (l : List α), l.length < n → l.length < m →
      Spec.windows size step o n l = Spec.windows size step o m l
  | 0, _, _, h, _ => by omega
  | _, 0, _, _, h => by omega
  | n+1, m+1, l, hn, hm => by
    simp only [Spec.windows]
    split
    · rename_i hl
      have hd : (l.drop step).length < l.length := by simp only [List.length_drop]; omega
      rw [windows_fuel size step o hs hst n m (l.drop step) (by omega) (by omega)]
    · rfl

/-- a full window is available -/
theorem windows_full (size step : Nat) (o : Bool) (hs : 0 < size) (hst : 0 < step) (l : List α)
    (hl : size ≤ l.length) :
    Spec.windows size step o (l.length + 1) l =
      l.take size :: Spec.windows size step o ((l.drop step).length + 1) (l.drop step) := by
  rw [show Spec.windows size step o (l.length + 1) l =
    (if l.length ≥ size then l.take size :: Spec.windows size step o l.length (l.drop step)
     else if (!l.isEmpty && !o && step != 1) = true then [l] else []) from rfl]
  rw [if_pos hl]
  have hd : (l.drop step).length < l.length := by simp only [List.length_drop]; omega
  rw [windows_fuel size step o hs hst l.length ((l.drop step).length + 1) (l.drop step) hd (by omega)]

/-- fewer than `size` elements are left -/
theorem windows_short (size step : Nat) (o : Bool) (l : List α) (hl : l.length < size) :
    Spec.windows size step o (l.length + 1) l =
      if (!l.isEmpty && !o && step != 1) = true then [l] else [] := by
  simp only [Spec.windows]
  rw [if_neg (by omega)]

end windows

/-- what `Window(size, step, omitLast)` emits for the source list `l` -/
def winOut (size step : Nat) (o : Bool) (l : List V) : List V :=
  (Spec.windows size step o (l.length + 1) l).map (fun w => V.arr (w.flatMap V.flat))

theorem winOut_full (size step : Nat) (o : Bool) (hs : 0 < size) (hst : 0 < step) (l : List V)
    (hl : size ≤ l.length) :
    winOut size step o l = V.arr ((l.take size).flatMap V.flat) :: winOut size step o (l.drop step) := by
  unfold winOut
  rw [windows_full size step o hs hst l hl]; rfl

theorem winOut_short (size step : Nat) (o : Bool) (l : List V) (hl : l.length < size) :
    winOut size step o l =
      if (!l.isEmpty && !o && step != 1) = true then [V.arr (l.flatMap V.flat)] else [] := by
  unfold winOut
  rw [windows_short size step o l hl]
  split <;> rfl

/-! ### `Spec.zipRows` -/

/-- the `foldl min` of `Spec.zipRows` -/
def minLen (a : Nat) (ls : List (List V)) : Nat := (ls.map List.length).foldl min a

theorem minLen_nil (a : Nat) : minLen a [] = a := rfl

theorem minLen_cons (a : Nat) (l : List V) (ls : List (List V)) :
    minLen a (l :: ls) = minLen (min a l.length) ls := rfl

theorem minLen_le (a : Nat) (ls : List (List V)) : minLen a ls ≤ a := by
  induction ls generalizing a with
  | nil => simp [minLen_nil]
  | cons l ls ih =>
    rw [minLen_cons]
    exact Nat.le_trans (ih _) (Nat.min_le_left _ _)

theorem minLen_zero (ls : List (List V)) : minLen 0 ls = 0 :=
  Nat.le_zero.mp (minLen_le 0 ls)

theorem minLen_of_nil_mem (a : Nat) (ls : List (List V)) (h : [] ∈ ls) : minLen a ls = 0 := by
  induction ls generalizing a with
  | nil => simp at h
  | cons l ls ih =>
    rw [minLen_cons]
    rcases List.mem_cons.mp h with h | h
    · subst h; simp [minLen_zero]
    · exact ih _ h

theorem minLen_tails (a : Nat) (ls : List (List V)) (h : ∀ l ∈ ls, l ≠ []) :
    minLen (a + 1) ls = minLen a (ls.map List.tail) + 1 := by
  induction ls generalizing a with
  | nil => simp [minLen_nil]
  | cons l ls ih =>
    rw [List.map_cons, minLen_cons, minLen_cons]
    have hl : l ≠ [] := h l (by simp)
    obtain ⟨x, xs, rfl⟩ := List.exists_cons_of_ne_nil hl
    have : min (a + 1) (x :: xs).length = min a (List.tail (x :: xs)).length + 1 := by
      simp only [List.length_cons, List.tail_cons]; omega
    rw [this]
    exact ih _ (fun l hl => h l (by simp [hl]))

theorem zipRows_of_nil_mem (ls : List (List V)) (h : [] ∈ ls) : Spec.zipRows ls = [] := by
  cases ls with
  | nil => rfl
  | cons l ls =>
    simp only [Spec.zipRows]
    have : (List.map List.length (l :: ls)).foldl min ((l :: ls).headD []).length = 0 :=
      minLen_of_nil_mem _ _ h
    rw [this]; rfl

/-- the heads of all inputs, flattened: one ZipN row -/
def headRow (ls : List (List V)) : List Int :=
  (ls.map (fun l => (l.head?.map V.flat).getD [])).flatten

theorem zipRows_cons (ls : List (List V)) (hne : ls ≠ []) (h : ∀ l ∈ ls, l ≠ []) :
    Spec.zipRows ls = V.arr (headRow ls) :: Spec.zipRows (ls.map List.tail) := by
  obtain ⟨l0, ls0, rfl⟩ := List.exists_cons_of_ne_nil hne
  have hl0 : l0 ≠ [] := h l0 (by simp)
  obtain ⟨x, xs, rfl⟩ := List.exists_cons_of_ne_nil hl0
  simp only [Spec.zipRows, List.map_cons]
  have e1 : (List.length (x :: xs) :: List.map List.length ls0).foldl min
      (((x :: xs) :: ls0).headD []).length = minLen (xs.length + 1) ((x :: xs) :: ls0) := rfl
  have e2 : (List.length (List.tail (x :: xs)) :: List.map List.length (List.map List.tail ls0)).foldl min
      ((List.tail (x :: xs) :: List.map List.tail ls0).headD []).length =
      minLen xs.length (((x :: xs) :: ls0).map List.tail) := rfl
  rw [e1, e2, minLen_tails _ _ h, List.range_succ_eq_map, List.map_cons, List.map_map]
  congr 1
  · simp [headRow, List.head?_eq_getElem?]
  · apply List.map_congr_left
    intro i _
    simp only [Function.comp, Nat.succ_eq_add_one, List.getElem?_cons_succ, List.tail_cons, List.map_map]
    congr 3
    apply List.map_congr_left
    intro l hl
    have hl' : l ≠ [] := h l (by simp [hl])
    obtain ⟨y, ys, rfl⟩ := List.exists_cons_of_ne_nil hl'
    simp

/-! ### `Spec.sortedBy` -/

theorem sortedBy_cons (f : V → Int) (a : V) (l : List V) :
    Spec.sortedBy f (a :: l) = true ↔ (∀ b ∈ l, f a ≤ f b) ∧ Spec.sortedBy f l = true := by
  induction l generalizing a with
  | nil => simp [Spec.sortedBy]
  | cons b l ih =>
    simp only [Spec.sortedBy, Bool.and_eq_true, decide_eq_true_eq, List.mem_cons, forall_eq_or_imp]
    rw [ih b]
    constructor
    · intro ⟨h1, h2, h3⟩
      exact ⟨⟨h1, fun c hc => Int.le_trans h1 (h2 c hc)⟩, h2, h3⟩
    · intro ⟨⟨h1, _⟩, h2, h3⟩
      exact ⟨h1, h2, h3⟩

theorem sortedBy_pairwise (f : V → Int) (l : List V) (h : Spec.sortedBy f l = true) :
    l.Pairwise (fun a b => f a ≤ f b) := by
  induction l with
  | nil => exact List.Pairwise.nil
  | cons a l ih =>
    rw [sortedBy_cons] at h
    exact List.Pairwise.cons h.1 (ih h.2)

/-! ### `Spec.runs` -/

section runs
variable {α : Type} (R : α → α → Bool)

theorem splitBy_loop_acc : ∀ (l : List α) (ag : α) (g : List α) (gs : List (List α)),
    List.splitBy.loop R l ag g gs = gs.reverse ++ List.splitBy.loop R l ag g []
  | [], ag, g, gs => by simp [List.splitBy.loop]
  | a :: as, ag, g, gs => by
    rw [List.splitBy.loop, List.splitBy.loop]
    cases R ag a
    · simp only
      rw [splitBy_loop_acc as a [] ((ag :: g).reverse :: gs), splitBy_loop_acc as a [] [(ag :: g).reverse]]
      simp
    · simp only
      exact splitBy_loop_acc as a (ag :: g) gs

end runs

theorem splitBy_loop_class {α : Type} (c : α → Int) : ∀ (l : List α) (ag : α) (g : List α),
    List.splitBy.loop (fun a b => c a == c b) l ag g [] =
      (g.reverse ++ ag :: l.takeWhile (fun b => c b == c ag)) ::
        List.splitBy (fun a b => c a == c b) (l.dropWhile (fun b => c b == c ag))
  | [], ag, g => by simp [List.splitBy.loop, List.splitBy]
  | a :: as, ag, g => by
    rw [List.splitBy.loop]
    by_cases h : c ag = c a
    · have h1 : (c ag == c a) = true := by simp [h]
      have h2 : (c a == c ag) = true := by simp [h]
      simp only [h1, List.takeWhile_cons, h2, if_true, List.dropWhile_cons]
      rw [splitBy_loop_class c as a (ag :: g)]
      simp [h]
    · have h1 : (c ag == c a) = false := by simp [h]
      have h2 : (c a == c ag) = false := by simp [Ne.symm h]
      simp only [h1, List.takeWhile_cons, h2, List.dropWhile_cons]
      rw [splitBy_loop_acc]
      simp [List.splitBy]

theorem runs_nil (k : Int) : Spec.runs k [] = [] := rfl

/-- first run / remaining runs -/
theorem runs_cons (k : Int) (a : V) (l : List V) :
    Spec.runs k (a :: l) =
      (a :: l.takeWhile (fun b => classify k b == classify k a)) ::
        Spec.runs k (l.dropWhile (fun b => classify k b == classify k a)) := by
  unfold Spec.runs
  rw [List.splitBy, splitBy_loop_class (classify k) l a []]
  simp

end ShpanVerif.Proofs.PipeC04
