/-
Join lifecycle model (`Model/JoinLife.lean`) against the C09 model (`Model/Join.lean`), list level, N-way INNER join: over
plain lists the program `joinN` (JoinMultipleSortedStreams' `emitJoin` written as a tree of its effects, index loops over
`nextBuffer` / `lastKeys`) does, call by call, what `Join.emitInnerN` does (structural recursion over per-input records
`Src`) — same rows, same buffers, same `lastKeys`, same read positions, same errors — for ALL inputs, sorted or not, any
number of inputs.

The two models bound their `for` loop differently (`F` here, `totalRest + 1` there); both bounds are never reached because
every round that does not return pulls at least one element (`advanceBehind_measure`), so the tie is stated for any two
bounds above the number of elements still unread.
-/
import ShpanVerif.Proofs.JoinLifeTie
import ShpanVerif.Proofs.JoinLemmas

namespace ShpanVerif.Proofs.JoinLife
open ShpanVerif.Model.JoinLife
open ShpanVerif.Model.Join (JErr Src NState totalRest)

variable (kf : Int → Int)

/-- the captured variables (`nextBuffer`, `lastKeys`) for a list of per-input records -/
def nsOf (ss : List (Src Int)) : NS := { inited := true, bufs := ss.map (·.buf), lasts := ss.map (·.last) }
/-- what the inputs have left -/
def lsOf (ss : List (Src Int)) : List (List Int) := ss.map (·.rest)

/-! ### index arithmetic -/

theorem getD_mid {γ δ : Type} (f : γ → δ) (pre : List γ) (s : γ) (post : List γ) (d : δ) :
    ((pre ++ s :: post).map f).getD pre.length d = f s := by
  simp [List.getD_eq_getElem?_getD]

theorem getElem?_mid {γ δ : Type} (f : γ → δ) (pre : List γ) (s : γ) (post : List γ) :
    ((pre ++ s :: post).map f)[pre.length]? = some (f s) := by
  simp

theorem set_mid {γ δ : Type} (f : γ → δ) (pre : List γ) (s s' : γ) (post : List γ) :
    ((pre ++ s :: post).map f).set pre.length (f s') = (pre ++ s' :: post).map f := by
  simp [List.set_append_right]

theorem snoc_append {γ : Type} (pre : List γ) (s : γ) (post : List γ) : pre ++ s :: post = (pre ++ [s]) ++ post := by
  simp

/-! ### the measure: elements still unread -/

theorem totalRest_cons (s : Src Int) (ss : List (Src Int)) : totalRest (s :: ss) = s.rest.length + totalRest ss := by
  simp [totalRest]

theorem refillOrEof_measure : ∀ (ss ss' : List (Src Int)), Model.Join.refillOrEof ss = some ss' →
    ss'.length = ss.length ∧ totalRest ss' ≤ totalRest ss
  | [], ss', h => by simp [Model.Join.refillOrEof] at h; subst h; simp
  | s :: ss, ss', h => by
    unfold Model.Join.refillOrEof at h
    split at h
    · simp at h
    · cases hr : Model.Join.refillOrEof ss with
      | none => simp [hr] at h
      | some t =>
        simp [hr] at h
        subst h
        have ih := refillOrEof_measure ss t hr
        have : (Model.Join.fill s).rest.length ≤ s.rest.length := by
          rcases s with ⟨buf, last, rest⟩
          cases buf <;> cases rest <;> simp [Model.Join.fill]
        simp only [totalRest_cons, List.length_cons]
        omega

theorem advanceBehind_measure (m : Int) : ∀ (ss ss' : List (Src Int)), Model.Join.advanceBehind kf m ss = some ss' →
    ss'.length = ss.length ∧ totalRest ss' ≤ totalRest ss ∧
    ((∃ s ∈ ss, ∃ b, s.buf = some b ∧ kf b < m) → totalRest ss' < totalRest ss)
  | [], ss', h => by
    simp [Model.Join.advanceBehind] at h; subst h
    refine ⟨rfl, Nat.le_refl _, ?_⟩
    rintro ⟨s, hs, _⟩; simp at hs
  | ⟨buf, last, rest⟩ :: ss, ss', h => by
    cases hr : Model.Join.advanceBehind kf m ss with
    | none =>
      unfold Model.Join.advanceBehind at h
      cases buf with
      | none => simp [hr] at h
      | some b =>
        simp only [hr] at h
        split at h
        · split at h <;> simp at h
        · simp at h
    | some t =>
      have ih := advanceBehind_measure m ss t hr
      unfold Model.Join.advanceBehind at h
      cases buf with
      | none =>
        simp [hr] at h; subst h
        refine ⟨by simp [ih.1], by simp only [totalRest_cons]; omega, ?_⟩
        rintro ⟨s, hs, b, hb, hlt⟩
        rcases List.mem_cons.mp hs with rfl | hs
        · simp at hb
        · have := ih.2.2 ⟨s, hs, b, hb, hlt⟩
          simp only [totalRest_cons]; omega
      | some b =>
        simp only [hr] at h
        by_cases hlt : kf b < m
        · simp only [hlt, if_true] at h
          cases rest with
          | nil => simp at h
          | cons x xs =>
            simp at h; subst h
            refine ⟨by simp [ih.1], by simp only [totalRest_cons, List.length_cons]; omega, ?_⟩
            intro _
            simp only [totalRest_cons, List.length_cons]; omega
        · simp only [hlt, if_false] at h
          simp at h; subst h
          refine ⟨by simp [ih.1], by simp only [totalRest_cons]; omega, ?_⟩
          rintro ⟨s, hs, b', hb', hlt'⟩
          rcases List.mem_cons.mp hs with rfl | hs
          · simp at hb'; subst hb'; exact absurd hlt' hlt
          · have := ih.2.2 ⟨s, hs, b', hb', hlt'⟩
            simp only [totalRest_cons]; omega

/-! ### the index loops against the structural recursions -/

/-- join_multiple_streams.go:63-78: `refill` from index `|pre|` on = `refillOrEof` of the inputs from there on -/
theorem refill_runL (k : NS → Prog NS) : ∀ (post pre : List (Src Int)),
    (∀ post', Model.Join.refillOrEof post = some post' →
      runL (refill k post.length pre.length (nsOf (pre ++ post))) (lsOf (pre ++ post)) =
        runL (k (nsOf (pre ++ post'))) (lsOf (pre ++ post'))) ∧
    (Model.Join.refillOrEof post = none →
      ∃ s ls, runL (refill k post.length pre.length (nsOf (pre ++ post))) (lsOf (pre ++ post)) = .eof s ls)
  | [], pre => by
    refine ⟨?_, ?_⟩
    · intro post' h
      simp [Model.Join.refillOrEof] at h; subst h
      rfl
    · intro h; simp [Model.Join.refillOrEof] at h
  | ⟨buf, last, rest⟩ :: ss, pre => by
    have hlen : (pre ++ [(⟨buf, last, rest⟩ : Src Int)]).length = pre.length + 1 := by simp
    cases buf with
    | some b =>
      have ih := refill_runL k ss (pre ++ [⟨some b, last, rest⟩])
      rw [hlen, ← snoc_append] at ih
      have hstep : runL (refill k (ss.length + 1) pre.length (nsOf (pre ++ ⟨some b, last, rest⟩ :: ss)))
            (lsOf (pre ++ ⟨some b, last, rest⟩ :: ss)) =
          runL (refill k ss.length (pre.length + 1) (nsOf (pre ++ ⟨some b, last, rest⟩ :: ss)))
            (lsOf (pre ++ ⟨some b, last, rest⟩ :: ss)) := by
        rw [refill]
        simp only [nsOf, getD_mid]
      simp only [List.length_cons]
      rw [hstep]
      refine ⟨?_, ?_⟩
      · intro post' h
        simp only [Model.Join.refillOrEof, Model.Join.fill] at h
        cases hr : Model.Join.refillOrEof ss with
        | none => simp [hr] at h
        | some t =>
          simp [hr] at h; subst h
          have := ih.1 t hr
          rw [← snoc_append] at this
          exact this
      · intro h
        simp only [Model.Join.refillOrEof, Model.Join.fill] at h
        cases hr : Model.Join.refillOrEof ss with
        | none => exact ih.2 hr
        | some t => simp [hr] at h
    | none =>
      cases rest with
      | nil =>
        refine ⟨?_, ?_⟩
        · intro post' h
          simp [Model.Join.refillOrEof, Model.Join.fill] at h
        · intro _
          simp only [List.length_cons]
          rw [refill]
          simp only [nsOf, getD_mid, runL, lsOf, getElem?_mid]
          exact ⟨_, _, rfl⟩
      | cons x xs =>
        have ih := refill_runL k ss (pre ++ [⟨some x, last, xs⟩])
        have hlen' : (pre ++ [(⟨some x, last, xs⟩ : Src Int)]).length = pre.length + 1 := by simp
        rw [hlen', ← snoc_append] at ih
        have hstep : runL (refill k (ss.length + 1) pre.length (nsOf (pre ++ ⟨none, last, x :: xs⟩ :: ss)))
              (lsOf (pre ++ ⟨none, last, x :: xs⟩ :: ss)) =
            runL (refill k ss.length (pre.length + 1) (nsOf (pre ++ ⟨some x, last, xs⟩ :: ss)))
              (lsOf (pre ++ ⟨some x, last, xs⟩ :: ss)) := by
          rw [refill]
          simp only [nsOf, getD_mid, runL, lsOf, getElem?_mid]
          have h1 := set_mid (fun s : Src Int => s.buf) pre ⟨none, last, x :: xs⟩ ⟨some x, last, xs⟩ ss
          have h2 := set_mid (fun s : Src Int => s.rest) pre ⟨none, last, x :: xs⟩ ⟨some x, last, xs⟩ ss
          simp only at h1 h2
          rw [h1, h2]
          simp
        simp only [List.length_cons]
        rw [hstep]
        refine ⟨?_, ?_⟩
        · intro post' h
          simp only [Model.Join.refillOrEof, Model.Join.fill] at h
          cases hr : Model.Join.refillOrEof ss with
          | none => simp [hr] at h
          | some t =>
            simp [hr] at h; subst h
            have := ih.1 t hr
            rw [← snoc_append] at this
            exact this
        · intro h
          simp only [Model.Join.refillOrEof, Model.Join.fill] at h
          cases hr : Model.Join.refillOrEof ss with
          | none => exact ih.2 hr
          | some t => simp [hr] at h

/-- join_multiple_streams.go:126-143: `advance` from index `|pre|` on = `advanceBehind` of the inputs from there on -/
theorem advance_runL (mx : Int) (k : NS → Prog NS) : ∀ (post pre : List (Src Int)),
    (∀ post', Model.Join.advanceBehind kf mx post = some post' →
      runL (advance kf mx k post.length pre.length (nsOf (pre ++ post))) (lsOf (pre ++ post)) =
        runL (k (nsOf (pre ++ post'))) (lsOf (pre ++ post'))) ∧
    (Model.Join.advanceBehind kf mx post = none →
      ∃ s ls, runL (advance kf mx k post.length pre.length (nsOf (pre ++ post))) (lsOf (pre ++ post)) = .eof s ls)
  | [], pre => by
    refine ⟨?_, ?_⟩
    · intro post' h
      simp [Model.Join.advanceBehind] at h; subst h
      rfl
    · intro h; simp [Model.Join.advanceBehind] at h
  | ⟨buf, last, rest⟩ :: ss, pre => by
    -- the cases where input `|pre|` is left as it is
    have keep : (runL (advance kf mx k (ss.length + 1) pre.length (nsOf (pre ++ ⟨buf, last, rest⟩ :: ss)))
            (lsOf (pre ++ ⟨buf, last, rest⟩ :: ss)) =
          runL (advance kf mx k ss.length (pre.length + 1) (nsOf (pre ++ ⟨buf, last, rest⟩ :: ss)))
            (lsOf (pre ++ ⟨buf, last, rest⟩ :: ss))) →
        Model.Join.advanceBehind kf mx (⟨buf, last, rest⟩ :: ss) =
          (Model.Join.advanceBehind kf mx ss).map (⟨buf, last, rest⟩ :: ·) →
        (∀ post', Model.Join.advanceBehind kf mx (⟨buf, last, rest⟩ :: ss) = some post' →
          runL (advance kf mx k (ss.length + 1) pre.length (nsOf (pre ++ ⟨buf, last, rest⟩ :: ss)))
              (lsOf (pre ++ ⟨buf, last, rest⟩ :: ss)) =
            runL (k (nsOf (pre ++ post'))) (lsOf (pre ++ post'))) ∧
        (Model.Join.advanceBehind kf mx (⟨buf, last, rest⟩ :: ss) = none →
          ∃ s ls, runL (advance kf mx k (ss.length + 1) pre.length (nsOf (pre ++ ⟨buf, last, rest⟩ :: ss)))
              (lsOf (pre ++ ⟨buf, last, rest⟩ :: ss)) = .eof s ls) := by
      intro hstep hm
      have ih := advance_runL mx k ss (pre ++ [⟨buf, last, rest⟩])
      have hlen : (pre ++ [(⟨buf, last, rest⟩ : Src Int)]).length = pre.length + 1 := by simp
      rw [hlen, ← snoc_append] at ih
      rw [hstep, hm]
      refine ⟨?_, ?_⟩
      · intro post' h
        cases hr : Model.Join.advanceBehind kf mx ss with
        | none => simp [hr] at h
        | some t =>
          simp [hr] at h; subst h
          have := ih.1 t hr
          rw [← snoc_append] at this
          exact this
      · intro h
        cases hr : Model.Join.advanceBehind kf mx ss with
        | none => exact ih.2 hr
        | some t => simp [hr] at h
    simp only [List.length_cons]
    cases buf with
    | none =>
      exact keep (by rw [advance]; simp only [nsOf, getD_mid]) (by simp [Model.Join.advanceBehind])
    | some b =>
      by_cases hlt : kf b < mx
      · cases rest with
        | nil =>
          refine ⟨?_, ?_⟩
          · intro post' h
            simp [Model.Join.advanceBehind, hlt] at h
          · intro _
            rw [advance]
            simp only [nsOf, getD_mid, hlt, if_true, runL, lsOf, getElem?_mid]
            exact ⟨_, _, rfl⟩
        | cons x xs =>
          have ih := advance_runL mx k ss (pre ++ [⟨some x, some b, xs⟩])
          have hlen' : (pre ++ [(⟨some x, some b, xs⟩ : Src Int)]).length = pre.length + 1 := by simp
          rw [hlen', ← snoc_append] at ih
          have hstep : runL (advance kf mx k (ss.length + 1) pre.length (nsOf (pre ++ ⟨some b, last, x :: xs⟩ :: ss)))
                (lsOf (pre ++ ⟨some b, last, x :: xs⟩ :: ss)) =
              runL (advance kf mx k ss.length (pre.length + 1) (nsOf (pre ++ ⟨some x, some b, xs⟩ :: ss)))
                (lsOf (pre ++ ⟨some x, some b, xs⟩ :: ss)) := by
            rw [advance]
            simp only [nsOf, getD_mid, hlt, if_true, runL, lsOf, getElem?_mid]
            have h1 := set_mid (fun s : Src Int => s.buf) pre ⟨some b, last, x :: xs⟩ ⟨some x, some b, xs⟩ ss
            have h2 := set_mid (fun s : Src Int => s.rest) pre ⟨some b, last, x :: xs⟩ ⟨some x, some b, xs⟩ ss
            have h3 := set_mid (fun s : Src Int => s.last) pre ⟨some b, last, x :: xs⟩ ⟨some x, some b, xs⟩ ss
            simp only at h1 h2 h3
            rw [h1, h2, h3]
          rw [hstep]
          refine ⟨?_, ?_⟩
          · intro post' h
            simp only [Model.Join.advanceBehind, hlt, if_true] at h
            cases hr : Model.Join.advanceBehind kf mx ss with
            | none => simp [hr] at h
            | some t =>
              simp [hr] at h; subst h
              have := ih.1 t hr
              rw [← snoc_append] at this
              exact this
          · intro h
            simp only [Model.Join.advanceBehind, hlt, if_true] at h
            cases hr : Model.Join.advanceBehind kf mx ss with
            | none => exact ih.2 hr
            | some t => simp [hr] at h
      · exact keep (by rw [advance]; simp only [nsOf, getD_mid, hlt, if_false])
          (by simp [Model.Join.advanceBehind, hlt])

/-- join_multiple_streams.go:45-56: the first call's loop = `fill` of every input (all slots empty before) -/
theorem initLoop_runL (k : NS → Prog NS) : ∀ (post pre : List (Src Int)), (∀ s ∈ post, s.buf = none) →
    runL (initLoop k post.length pre.length (nsOf (pre ++ post))) (lsOf (pre ++ post)) =
      runL (k (nsOf (pre ++ post.map Model.Join.fill))) (lsOf (pre ++ post.map Model.Join.fill))
  | [], pre, _ => rfl
  | ⟨buf, last, rest⟩ :: ss, pre, hb => by
    have hbuf : buf = none := hb ⟨buf, last, rest⟩ (by simp)
    subst hbuf
    simp only [List.length_cons, List.map_cons]
    cases rest with
    | nil =>
      have ih := initLoop_runL k ss (pre ++ [⟨none, last, []⟩]) (fun s hs => hb s (by simp [hs]))
      have hlen : (pre ++ [(⟨none, last, []⟩ : Src Int)]).length = pre.length + 1 := by simp
      rw [hlen, ← snoc_append, ← snoc_append] at ih
      rw [initLoop]
      simp only [nsOf, runL, lsOf, getElem?_mid]
      exact ih
    | cons x xs =>
      have ih := initLoop_runL k ss (pre ++ [⟨some x, last, xs⟩]) (fun s hs => hb s (by simp [hs]))
      have hlen : (pre ++ [(⟨some x, last, xs⟩ : Src Int)]).length = pre.length + 1 := by simp
      rw [hlen, ← snoc_append, ← snoc_append] at ih
      rw [initLoop]
      simp only [nsOf, runL, lsOf, getElem?_mid]
      have h1 := set_mid (fun s : Src Int => s.buf) pre ⟨none, last, x :: xs⟩ ⟨some x, last, xs⟩ ss
      have h2 := set_mid (fun s : Src Int => s.rest) pre ⟨none, last, x :: xs⟩ ⟨some x, last, xs⟩ ss
      simp only at h1 h2
      rw [h1, h2]
      have h3 : (pre ++ (⟨none, last, x :: xs⟩ : Src Int) :: ss).map (·.last) =
          (pre ++ (⟨some x, last, xs⟩ : Src Int) :: ss).map (·.last) := by simp
      rw [h3]
      exact ih

/-- join_multiple_streams.go:86-92 -/
theorem firstUnsorted_eq : ∀ (ss : List (Src Int)) (i : Nat),
    firstUnsorted kf i (ss.map (·.buf)) (ss.map (·.last)) = Model.Join.firstUnsorted kf i ss
  | [], i => by simp [firstUnsorted, Model.Join.firstUnsorted]
  | ⟨buf, last, rest⟩ :: ss, i => by
    have ih := firstUnsorted_eq ss (i + 1)
    cases buf <;> cases last <;> simp [firstUnsorted, Model.Join.firstUnsorted, ih]

theorem vals_eq (ss : List (Src Int)) : (ss.map (·.buf)).filterMap id = ss.filterMap (·.buf) := by
  simp [List.filterMap_map]

theorem headKeys_eq (ss : List (Src Int)) : (ss.filterMap (·.buf)).map kf = Model.Join.headKeys kf ss := by
  simp [Model.Join.headKeys, List.map_filterMap]

/-! ### one call -/

/-- one call of `joinN` over plain lists against one call of `Join.emitInnerN`; `N` = number of inputs, `B` = bound on
    what is left unread afterwards -/
def SimN (N B : Nat) (x : LRes NS) : Model.Join.Step (NState Int) (List Int) → Prop
  | .eof => ∃ s ls, x = .eof s ls
  | .err e => e ≠ .fuel ∧ ∃ s ls, x = .err e s ls
  | .row v st => ∃ ss', x = .row (v.map some) (nsOf ss') (lsOf ss') ∧
      st = { inited := true, lastLeftKey := none, srcs := ss' } ∧ ss'.length = N ∧ totalRest ss' ≤ B

theorem SimN.mono {N B B' : Nat} {x : LRes NS} {st : Model.Join.Step (NState Int) (List Int)} (h : SimN N B x st)
    (hb : B ≤ B') : SimN N B' x st := by
  cases st with
  | eof => exact h
  | err e => exact h
  | row v st =>
    obtain ⟨ss', h1, h2, h3, h4⟩ := h
    exact ⟨ss', h1, h2, h3, by omega⟩

/-- some input is strictly behind the maximum when not all buffered keys are equal to it -/
theorem behind_of_not_all (ss : List (Src Int)) (mx : Int) (hm : Model.Join.maxKey (Model.Join.headKeys kf ss) = some mx)
    (hall : ((Model.Join.headKeys kf ss).all fun k => k == mx) = false) :
    ∃ s ∈ ss, ∃ b, s.buf = some b ∧ kf b < mx := by
  have hne : Model.Join.headKeys kf ss ≠ [] := by
    intro h; rw [h] at hm; simp [Model.Join.maxKey] at hm
  obtain ⟨M, hmax, _, hle⟩ := Proofs.Join.maxKey_spec _ hne
  rw [hm] at hmax
  have : M = mx := by simpa using hmax.symm
  subst this
  have : ∃ k ∈ Model.Join.headKeys kf ss, (k == M) = false := by
    simpa [List.all_eq_false] using hall
  obtain ⟨k, hk, hkM⟩ := this
  obtain ⟨s, hs, b, hb, rfl⟩ := (Proofs.Join.mem_headKeys kf _ _).mp hk
  have h1 := hle _ hk
  have h2 : kf b ≠ M := by simpa using hkM
  exact ⟨s, hs, b, hb, by omega⟩

/-- join_multiple_streams.go:81-143: one round of the `for` loop after the refill; `again` = the next round -/
def roundK (N : Nat) (again : NS → Prog NS) (s : NS) : Prog NS :=
  .ctx s (
    match firstUnsorted kf 0 s.bufs s.lasts with
    | some i => .fail (.streamUnsorted i) s
    | none =>
      match Model.Join.maxKey ((s.bufs.filterMap id).map kf) with
      | none => .eof s
      | some mx =>
        if ((s.bufs.filterMap id).map kf).all (fun k => k == mx) then
          .call { s with lasts := s.bufs, bufs := s.bufs.map (fun _ => none) }
            (.ret ((s.bufs.filterMap id).map some) { s with lasts := s.bufs, bufs := s.bufs.map (fun _ => none) })
        else advance kf mx again N 0 s)

theorem mainLoop_succ (N f : Nat) (s : NS) :
    mainLoop kf N (f + 1) s = refill (roundK kf N (mainLoop kf N f)) N 0 s := rfl

/-- join_multiple_streams.go:61-144: the `for` loop, for any two loop bounds above the number of unread elements -/
theorem mainLoop_runL : ∀ (f g : Nat) (ss : List (Src Int)), totalRest ss < f → totalRest ss < g →
    SimN ss.length (totalRest ss) (runL (mainLoop kf ss.length f (nsOf ss)) (lsOf ss)) (Model.Join.innerLoop kf g ss)
  | 0, _, _, hf, _ => by omega
  | _+1, 0, _, _, hg => by omega
  | f+1, g+1, ss, hf, hg => by
    rw [mainLoop_succ, Model.Join.innerLoop]
    have hre := refill_runL (roundK kf ss.length (mainLoop kf ss.length f)) ss []
    simp only [List.nil_append, List.length_nil] at hre
    cases hr : Model.Join.refillOrEof ss with
    | none =>
      obtain ⟨s, ls, h⟩ := hre.2 hr
      rw [h]
      exact ⟨_, _, rfl⟩
    | some ss1 =>
      rw [hre.1 ss1 hr]
      obtain ⟨hlen1, hrest1⟩ := refillOrEof_measure ss ss1 hr
      simp only [roundK, runL, nsOf, firstUnsorted_eq, vals_eq, headKeys_eq]
      cases hu : Model.Join.firstUnsorted kf 0 ss1 with
      | some i => exact ⟨by simp, _, _, rfl⟩
      | none =>
        simp only []
        cases hm : Model.Join.maxKey (Model.Join.headKeys kf ss1) with
        | none => exact ⟨_, _, rfl⟩
        | some mx =>
          simp only []
          cases hall : (Model.Join.headKeys kf ss1).all (fun k => k == mx) with
          | true =>
            simp only [if_true, runL]
            refine ⟨ss1.map Model.Join.takeBuf, ?_, rfl, by simp [hlen1], ?_⟩
            · simp [nsOf, lsOf, Model.Join.takeBuf, Function.comp_def]
            · have : totalRest (ss1.map Model.Join.takeBuf) = totalRest ss1 := by
                simp [totalRest, Model.Join.takeBuf, Function.comp_def]
              omega
          | false =>
            simp only [Bool.false_eq_true, if_false]
            have had := advance_runL kf mx (mainLoop kf ss.length f) ss1 []
            simp only [List.nil_append, List.length_nil, nsOf, hlen1] at had
            cases ha : Model.Join.advanceBehind kf mx ss1 with
            | none =>
              obtain ⟨s, ls, h⟩ := had.2 ha
              rw [h]
              exact ⟨_, _, rfl⟩
            | some ss2 =>
              rw [had.1 ss2 ha]
              obtain ⟨hlen2, _, hlt2⟩ := advanceBehind_measure kf mx ss1 ss2 ha
              have hlt := hlt2 (behind_of_not_all kf ss1 mx hm hall)
              have ih := mainLoop_runL f g ss2 (by omega) (by omega)
              rw [hlen2, hlen1] at ih
              exact ih.mono (by omega)

/-- the provider struct of the C09 model after the first call -/
def stOf (ss : List (Src Int)) : NState Int := { inited := true, lastLeftKey := none, srcs := ss }

/-- the inputs before the first call: nothing buffered, nothing remembered -/
def srcs0 (ls : List (List Int)) : List (Src Int) := ls.map (fun l => { buf := none, last := none, rest := l })

theorem totalRest_srcs0 (ls : List (List Int)) : totalRest (srcs0 ls) = Model.Join.total ls := by
  simp [totalRest, srcs0, Model.Join.total, Function.comp_def]

theorem totalRest_map_fill_le : ∀ (ss : List (Src Int)), totalRest (ss.map Model.Join.fill) ≤ totalRest ss
  | [] => Nat.le_refl _
  | s :: ss => by
    have ih := totalRest_map_fill_le ss
    have : (Model.Join.fill s).rest.length ≤ s.rest.length := by
      rcases s with ⟨buf, last, rest⟩
      cases buf <;> cases rest <;> simp [Model.Join.fill]
    simp only [List.map_cons, totalRest_cons]
    omega

/-- **`joinN` over plain lists = `Join.emitInnerN`**, any call but the first -/
theorem joinN_emitInnerN (F : Nat) (ss : List (Src Int)) (hF : totalRest ss < F) :
    SimN ss.length (totalRest ss) (runL (joinN kf ss.length F (nsOf ss)) (lsOf ss)) (Model.Join.emitInnerN kf (stOf ss)) := by
  have := mainLoop_runL kf F (totalRest ss + 1) ss hF (by omega)
  simpa [joinN, nsOf, Model.Join.emitInnerN, Model.Join.initBufs, stOf] using this

/-- **`joinN` over plain lists = `Join.emitInnerN`**, the first call (captured variables as declared) -/
theorem joinN_emitInnerN_first (F : Nat) (ls : List (List Int)) (hF : Model.Join.total ls < F) :
    SimN ls.length (Model.Join.total ls) (runL (joinN kf ls.length F ({} : NS)) ls)
      (Model.Join.emitInnerN kf (Model.Join.initN ls)) := by
  have hinit := initLoop_runL (mainLoop kf ls.length F) (srcs0 ls) [] (by simp [srcs0])
  have hle := totalRest_map_fill_le (srcs0 ls)
  rw [totalRest_srcs0] at hle
  have hm := mainLoop_runL kf F (totalRest ((srcs0 ls).map Model.Join.fill) + 1) ((srcs0 ls).map Model.Join.fill)
    (by omega) (by omega)
  have hlen : (srcs0 ls).length = ls.length := by simp [srcs0]
  have hns : nsOf (srcs0 ls) =
      { inited := true, bufs := List.replicate ls.length none, lasts := List.replicate ls.length none } := by
    simp [nsOf, srcs0, Function.comp_def, List.map_const']
  have hls : lsOf (srcs0 ls) = ls := by simp [lsOf, srcs0, Function.comp_def]
  simp only [List.nil_append, List.length_nil, hlen, hns, hls] at hinit
  have hj : runL (joinN kf ls.length F ({} : NS)) ls =
      runL (mainLoop kf ls.length F (nsOf ((srcs0 ls).map Model.Join.fill))) (lsOf ((srcs0 ls).map Model.Join.fill)) := by
    rw [← hinit]
    simp [joinN]
  have he : Model.Join.emitInnerN kf (Model.Join.initN ls) =
      Model.Join.innerLoop kf (totalRest ((srcs0 ls).map Model.Join.fill) + 1) ((srcs0 ls).map Model.Join.fill) := by
    simp [Model.Join.emitInnerN, Model.Join.initBufs, Model.Join.initN, srcs0]
  rw [hj, he]
  simp only [List.length_map, hlen] at hm
  exact hm.mono hle

/-! ### the whole run -/

/-- a run of the C09 model of the N-way inner join as a run over plain lists -/
def mapOutN (o : Model.Join.Out (List Int)) : List Row × LEnd :=
  (o.1.map (fun row => row.map some),
   match o.2 with
   | none => .eof
   | some .fuel => .oof
   | some e => .err e)

/-- what the terminal returns for a run of the C09 model of the N-way inner join -/
def outcomeJN (o : Model.Join.Out (List Int)) : JOutcome := outcomeL (mapOutN o)

theorem collectL_joinN_aux (F : Nat) : ∀ (n : Nat) (ss : List (Src Int)), totalRest ss < F →
    collectL (joinN kf ss.length F) n (nsOf ss) (lsOf ss) =
      mapOutN (Model.Join.collect (Model.Join.emitInnerN kf) n (stOf ss)) := by
  intro n
  induction n with
  | zero => intro ss _; rfl
  | succ m ih =>
    intro ss hF
    have h := joinN_emitInnerN kf F ss hF
    simp only [collectL, Model.Join.collect]
    generalize Model.Join.emitInnerN kf (stOf ss) = b at h
    cases b with
    | eof => obtain ⟨s', ls, h⟩ := h; rw [h]; rfl
    | err e =>
      obtain ⟨he, s', ls, h⟩ := h
      rw [h]
      cases e <;> first | rfl | exact absurd rfl he
    | row v st =>
      obtain ⟨ss', h1, h2, h3, h4⟩ := h
      rw [h1]
      simp only []
      have := ih ss' (by omega)
      rw [h3] at this
      rw [this, h2]
      rfl

theorem collectL_joinN (F n : Nat) (ls : List (List Int)) (hF : Model.Join.total ls < F) :
    outcomeL (collectL (joinN kf ls.length F) n ({} : NS) ls) =
      outcomeJN (Model.Join.collect (Model.Join.emitInnerN kf) n (Model.Join.initN ls)) := by
  unfold outcomeJN
  congr 1
  cases n with
  | zero => rfl
  | succ m =>
    have h := joinN_emitInnerN_first kf F ls hF
    simp only [collectL, Model.Join.collect]
    generalize Model.Join.emitInnerN kf (Model.Join.initN ls) = b at h
    cases b with
    | eof => obtain ⟨s', ls', h⟩ := h; rw [h]; rfl
    | err e =>
      obtain ⟨he, s', ls', h⟩ := h
      rw [h]
      cases e <;> first | rfl | exact absurd rfl he
    | row v st =>
      obtain ⟨ss', h1, h2, h3, h4⟩ := h
      rw [h1]
      simp only []
      have := collectL_joinN_aux kf F m ss' (by omega)
      rw [h3] at this
      rw [this, h2]
      rfl

end ShpanVerif.Proofs.JoinLife
