/-
C05 (general pull bound), part 2: one provider call pays for its pulls out of the potential (`PullStep`),
operator by operator.  The functional facts (which branch is taken, what the new state denotes, the world stays
clean) are those of C04 (`emitOK_all`, `skipLoop_ok`, `windowFill_ok`, `zipRow_ok`, `mergeRefill_ok`,
`clusterRead_ok`, `clusterSkip_ok`); here only the pulls are counted.
-/
import ShpanVerif.Proofs.PipeC05Defs

namespace ShpanVerif.Proofs.PipeC05
open ShpanVerif.Model.Pipe ShpanVerif ShpanVerif.Proofs.PipeC04

variable {r : Nat}

theorem PullStep.trans {res : Res V × Pipe × World} {w1 w : World} {n k1 k : Nat}
    (h : PullStep r res w1 n k1) (hle : pulls w1.trace r + k1 ≤ pulls w.trace r + k) :
    PullStep r res w n k := by
  rcases res with ⟨res, p', w'⟩
  cases res <;> simp only [PullStep, Pot] at h ⊢
  · obtain ⟨k', hs, hp⟩ := h; exact ⟨k', hs, by omega⟩
  · obtain ⟨k', hs, hp⟩ := h; exact ⟨k', hs, by omega⟩

/-! ### the operators without sub-loops -/

theorem pull_src {fuel : Nat} (x : Nat) (xs : List Int) (idx : Nat) (w : World) (n k : Nat)
    (hs : SD r (.src x xs idx) (n+1) k) (hw : w.Clean) :
    PullStep r (emitP (fuel+1) (.src x xs idx) w) w n k := by
  rw [SD] at hs
  rw [emitP]
  obtain ⟨w', he, hc, hp⟩ := emitRes_pulls x hw
  rw [he]
  simp only
  have key : ∀ idx', Pot r (.src x xs idx') w' w n k := by
    intro idx'
    refine ⟨if r = x then n else 0, by rw [SD]; exact Nat.le_refl _, ?_⟩
    rw [hp r]
    by_cases hr : r = x <;> simp [hr] at hs ⊢ <;> omega
  cases xs[idx]? with
  | none => exact key _
  | some v => exact key _

theorem pull_lc {fuel : Nat} (ih : PullOK r fuel) (x : Nat) (p : Pipe) (l : List V) (w : World) (n k : Nat)
    (hd : Den (.lc x p) l) (hs : SD r (.lc x p) (n+1) k) (hw : w.Clean) :
    PullStep r (emitP (fuel+1) (.lc x p) w) w n k := by
  rw [Den] at hd
  rw [SD] at hs
  have h := ih p l w n k hd hs hw
  rw [emitP]
  rcases he : emitP fuel p w with ⟨res, p', w'⟩
  rw [he] at h
  cases res <;> simp only [PullStep, Pot] at h ⊢
  · obtain ⟨k', hs', hp⟩ := h; exact ⟨k', by rw [SD]; exact hs', hp⟩
  · obtain ⟨k', hs', hp⟩ := h; exact ⟨k', by rw [SD]; exact hs', hp⟩

theorem pull_map {fuel : Nat} (ih : PullOK r fuel) (f : Fn) (p : Pipe) (l : List V) (w : World) (n k : Nat)
    (hd : Den (.map f p) l) (hs : SD r (.map f p) (n+1) k) (hw : w.Clean) :
    PullStep r (emitP (fuel+1) (.map f p) w) w n k := by
  rw [Den] at hd
  obtain ⟨l0, hd0, _⟩ := hd
  rw [SD] at hs
  have hok := emitOK_all fuel p l0 w hd0 hw
  have h := ih p l0 w n k hd0 hs hw
  rw [emitP]
  rcases he : emitP fuel p w with ⟨res, p', w'⟩
  rw [he] at h hok
  cases res <;> simp only [PullStep, StepOK, Pot] at h hok ⊢
  · obtain ⟨xs, _, h2, _⟩ := hok
    obtain ⟨w'', hu, _, hpu⟩ := userCall_pulls h2
    rw [hu]
    simp only
    obtain ⟨k', hs', hp⟩ := h
    exact ⟨k', by rw [SD]; exact hs', by rw [hpu r]; exact hp⟩
  · obtain ⟨k', hs', hp⟩ := h; exact ⟨k', by rw [SD]; exact hs', hp⟩

theorem filterCalls_succ (g : V → Bool) (l : List V) (n : Nat) :
    ∃ N, Spec.filterCalls g l (n+1) = N + 1 := by
  cases l with
  | nil => exact ⟨n, filterCalls_nil g (n+1)⟩
  | cons x xs => exact ⟨_, by rw [filterCalls_cons]; exact Nat.add_comm _ _⟩

theorem pull_filter {fuel : Nat} (ih : PullOK r fuel) (g : Pred) (p : Pipe) (w : World) (n k : Nat)
    (hs : SD r (.filter g p) (n+1) k) (hw : w.Clean) :
    PullStep r (emitP (fuel+1) (.filter g p) w) w n k := by
  rw [SD] at hs
  obtain ⟨l0, hd0, hs⟩ := hs
  obtain ⟨N, hN⟩ := filterCalls_succ g.app l0 n
  rw [hN] at hs
  have hok := emitOK_all fuel p l0 w hd0 hw
  have h := ih p l0 w N k hd0 hs hw
  rw [emitP]
  rcases he : emitP fuel p w with ⟨res, p', w'⟩
  rw [he] at h hok
  cases res <;> simp only [PullStep, StepOK, Pot] at h hok ⊢
  · rename_i x
    obtain ⟨xs, rfl, h2, h3⟩ := hok
    obtain ⟨w'', hu, hc, hpu⟩ := userCall_pulls h2
    rw [hu]
    simp only
    obtain ⟨k', hs', hp⟩ := h
    rw [filterCalls_cons] at hN
    by_cases hg : g.app x = true
    · rw [if_pos hg] at hN ⊢
      simp only
      refine ⟨k', ?_, by rw [hpu r]; exact hp⟩
      rw [SD]
      exact ⟨xs, h3, by rw [show Spec.filterCalls g.app xs n = N by omega]; exact hs'⟩
    · rw [if_neg hg] at hN ⊢
      have hsf : SD r (.filter g p') (n+1) k' := by
        rw [SD]
        exact ⟨xs, h3, by rw [show Spec.filterCalls g.app xs (n+1) = N by omega]; exact hs'⟩
      have hdf : Den (.filter g p') (xs.filter g.app) := by rw [Den]; exact ⟨xs, h3, rfl⟩
      exact (ih _ _ _ n k' hdf hsf hc).trans (by rw [hpu r]; exact hp)
  · obtain ⟨rfl, _, h3⟩ := hok
    obtain ⟨k', hs', hp⟩ := h
    rw [filterCalls_nil] at hN
    refine ⟨k', ?_, hp⟩
    rw [SD]
    exact ⟨[], h3, by rw [filterCalls_nil, show n = N by omega]; exact hs'⟩

theorem pull_limit {fuel : Nat} (ih : PullOK r fuel) (m c : Int) (p : Pipe) (w : World) (n k : Nat)
    (hs : SD r (.limit m c p) (n+1) k) (hw : w.Clean) :
    PullStep r (emitP (fuel+1) (.limit m c p) w) w n k := by
  rw [emitP]
  by_cases hm : m ≤ 0
  · rw [if_pos hm]
    exact ⟨k, by rw [SD]; exact Or.inl hm, Nat.le_refl _⟩
  · rw [if_neg hm]
    rw [SD] at hs
    rcases hs with h0 | ⟨l0, hd0, hs⟩
    · exact absurd h0 hm
    by_cases hc : c > m
    · rw [if_pos hc]
      refine ⟨k, ?_, Nat.le_refl _⟩
      rw [SD]
      exact Or.inr ⟨l0, hd0, sd_mono r p k (limCalls_mono _ _ (Nat.le_succ n)) hs⟩
    · rw [if_neg hc]
      have hb : 1 ≤ (m + 1 - c).toNat := by omega
      obtain ⟨N, hN⟩ : ∃ N, limCalls (m + 1 - c).toNat l0.length (n+1) = N + 1 :=
        ⟨limCalls (m + 1 - c).toNat l0.length (n+1) - 1, by unfold limCalls; split <;> (try split) <;> omega⟩
      rw [hN] at hs
      have hok := emitOK_all fuel p l0 w hd0 hw
      have h := ih p l0 w N k hd0 hs hw
      rcases he : emitP fuel p w with ⟨res, p', w'⟩
      rw [he] at h hok
      cases res <;> simp only [PullStep, StepOK, Pot] at h hok ⊢
      · obtain ⟨xs, rfl, _, h3⟩ := hok
        obtain ⟨k', hs', hp⟩ := h
        refine ⟨k', ?_, hp⟩
        rw [SD]
        refine Or.inr ⟨xs, h3, sd_mono r p' k' ?_ hs'⟩
        have e : (m + 1 - (c + 1)).toNat = (m + 1 - c).toNat - 1 := by omega
        rw [e]
        simp only [List.length_cons] at hN
        unfold limCalls at hN ⊢
        generalize (m + 1 - c).toNat = b at *
        split at hN <;> (try split at hN) <;> split <;> (try split) <;> omega
      · obtain ⟨rfl, _, h3⟩ := hok
        obtain ⟨k', hs', hp⟩ := h
        refine ⟨k', ?_, hp⟩
        rw [SD]
        refine Or.inr ⟨[], h3, sd_mono r p' k' ?_ hs'⟩
        simp only [List.length_nil] at hN ⊢
        unfold limCalls at hN ⊢
        generalize (m + 1 - c).toNat = b at *
        split at hN <;> (try split at hN) <;> split <;> (try split) <;> omega

/-! ### Skip -/

/-- result of a sub-loop over one child: potential for `M` calls left -/
def LoopStep {α : Type} (r : Nat) (res : Res α × Pipe × World) (w : World) (M k : Nat) : Prop :=
  match res with
  | (.oof, _, _) => True
  | (.val _, p', w') => Pot r p' w' w M k
  | (.eof, p', w') => Pot r p' w' w M k
  | (.fail _, _, _) => True
  | (.panic _, _, _) => True

theorem LoopStep.trans {α : Type} {res : Res α × Pipe × World} {w1 w : World} {n k1 k : Nat}
    (h : LoopStep r res w1 n k1) (hle : pulls w1.trace r + k1 ≤ pulls w.trace r + k) :
    LoopStep r res w n k := by
  rcases res with ⟨res, p', w'⟩
  cases res <;> simp only [LoopStep, Pot] at h ⊢
  · obtain ⟨k', hs, hp⟩ := h; exact ⟨k', hs, by omega⟩
  · obtain ⟨k', hs, hp⟩ := h; exact ⟨k', hs, by omega⟩

theorem skipLoop_pull {F : Nat} (hP : PBelow r F) : ∀ fuel, fuel ≤ F →
    ∀ (j : Nat) (p : Pipe) (l0 : List V) (w : World) (M k : Nat),
      Den p l0 → SD r p (j + M) k → w.Clean → LoopStep r (skipLoop fuel j p w) w M k
  | 0, _, _, _, _, _, _, _, _, _, _ => by rw [skipLoop]; trivial
  | fuel+1, _, 0, p, l0, w, M, k, hd, hs, hw => by
    rw [skipLoop]; exact ⟨k, by simpa using hs, Nat.le_refl _⟩
  | fuel+1, hf, j+1, p, l0, w, M, k, hd, hs, hw => by
    rw [skipLoop]
    have hs' : SD r p ((j + M) + 1) k := by rw [show j + M + 1 = j + 1 + M by omega]; exact hs
    have hok := emitOK_all fuel p l0 w hd hw
    have h := (hP fuel (by omega)).1 p l0 w (j + M) k hd hs' hw
    rcases he : emitP fuel p w with ⟨res, p', w'⟩
    rw [he] at h hok
    cases res <;> simp only [PullStep, StepOK, LoopStep, Pot] at h hok ⊢
    · obtain ⟨xs, rfl, h2, h3⟩ := hok
      obtain ⟨k', hs1, hp⟩ := h
      exact (skipLoop_pull hP fuel (by omega) j p' xs w' M k' h3 hs1 h2).trans hp
    · obtain ⟨k', hs1, hp⟩ := h
      exact ⟨k', sd_mono r p' k' (by omega) hs1, hp⟩

theorem pull_skip {fuel : Nat} (hP : PBelow r (fuel+1)) (m : Nat) (d : Bool) (p : Pipe) (l : List V) (w : World)
    (n k : Nat) (hd : Den (.skip m d p) l) (hs : SD r (.skip m d p) (n+1) k) (hw : w.Clean) :
    PullStep r (emitP (fuel+1) (.skip m d p) w) w n k := by
  rw [Den] at hd
  obtain ⟨l0, hd0, _⟩ := hd
  rw [SD] at hs
  rw [emitP, if_neg (not_cancelled hw)]
  have ih := (hP fuel (by omega)).1
  cases d with
  | true =>
    simp only [if_true]
    rcases hs with ⟨_, hs⟩ | ⟨hd', _⟩
    · have h := ih p l0 w n k hd0 hs hw
      rcases he : emitP fuel p w with ⟨res, p', w'⟩
      rw [he] at h
      cases res <;> simp only [PullStep, Pot] at h ⊢
      · obtain ⟨k', hs', hp⟩ := h; exact ⟨k', by rw [SD]; exact Or.inl ⟨rfl, hs'⟩, hp⟩
      · obtain ⟨k', hs', hp⟩ := h; exact ⟨k', by rw [SD]; exact Or.inl ⟨rfl, hs'⟩, hp⟩
    · cases hd'
  | false =>
    simp only [Bool.false_eq_true, if_false]
    rcases hs with ⟨hd', _⟩ | ⟨_, hs⟩
    · cases hd'
    rcases hs with h0 | hs
    · omega
    have hs' : SD r p (m + (n + 1)) k := by rw [show m + (n + 1) = n + 1 + m by omega]; exact hs
    have hsk := skipLoop_ok (hB fuel) fuel (Nat.le_refl _) m p l0 w hd0 hw
    have hsp := skipLoop_pull (hP.mono (Nat.le_succ _)) fuel (Nat.le_refl _) m p l0 w (n+1) k hd0 hs' hw
    rcases hse : skipLoop fuel m p w with ⟨res, p', w'⟩
    rw [hse] at hsk hsp
    cases res <;> simp only [SkipOK, LoopStep, PullStep, Pot] at hsk hsp ⊢
    · obtain ⟨_, h2, h3⟩ := hsk
      obtain ⟨k', hs1, hp⟩ := hsp
      have h := ih p' (l0.drop m) w' n k' h3 hs1 h2
      rcases he : emitP fuel p' w' with ⟨res2, p'', w''⟩
      rw [he] at h
      cases res2 <;> simp only [PullStep, Pot] at h ⊢
      · obtain ⟨k'', hs2, hp2⟩ := h
        exact ⟨k'', by rw [SD]; exact Or.inl ⟨rfl, hs2⟩, by omega⟩
      · obtain ⟨k'', hs2, hp2⟩ := h
        exact ⟨k'', by rw [SD]; exact Or.inl ⟨rfl, hs2⟩, by omega⟩
    · obtain ⟨k', hs1, hp⟩ := hsp
      exact ⟨k', by rw [SD]; exact Or.inl ⟨rfl, sd_mono r p' k' (Nat.le_succ n) hs1⟩, hp⟩

/-! ### Window -/

theorem windowFill_pull {F : Nat} (hP : PBelow r F) (s st : Nat) (o : Bool) (so : Bool)
    (hp : windowParamsOk s st = true) :
    ∀ fuel, fuel ≤ F → ∀ (buf : List V) (p : Pipe) (l0 : List V) (w : World) (n k : Nat),
      Den p l0 → SD r p ((s - buf.length) + n * st) k → w.Clean →
      PullStep r (windowFill fuel s st o buf so p w) w n k
  | 0, _, _, _, _, _, _, _, _, _, _ => by rw [windowFill]; trivial
  | fuel+1, hf, buf, p, l0, w, n, k, hd, hs, hw => by
    obtain ⟨hs0, hst, hle⟩ := (windowParamsOk_iff s st).mp hp
    rw [windowFill]
    by_cases hlen : buf.length < s
    · rw [if_pos hlen, if_neg (not_cancelled hw)]
      have hs' : SD r p (((s - (buf.length + 1)) + n * st) + 1) k := by
        rw [show s - (buf.length + 1) + n * st + 1 = s - buf.length + n * st by omega]; exact hs
      have hok := emitOK_all fuel p l0 w hd hw
      have h := (hP fuel (by omega)).1 p l0 w _ k hd hs' hw
      rcases he : emitP fuel p w with ⟨res, p', w'⟩
      rw [he] at h hok
      cases res <;> simp only [PullStep, StepOK, Pot] at h hok ⊢
      · rename_i x
        obtain ⟨xs, rfl, h2, h3⟩ := hok
        obtain ⟨k', hs1, hp1⟩ := h
        have hs1' : SD r p' ((s - (buf ++ [x]).length) + n * st) k' := by
          simpa using hs1
        exact (windowFill_pull hP s st o so hp fuel (by omega) (buf ++ [x]) p' xs w' n k' h3 hs1' h2).trans hp1
      · obtain ⟨k', hs1, hp1⟩ := h
        by_cases hcond : (decide (buf.length > 0) && !o && st != 1) = true
        · rw [if_pos hcond]
          exact ⟨k', by rw [SD]; exact Or.inl rfl, hp1⟩
        · rw [if_neg hcond]
          refine ⟨k', ?_, hp1⟩
          rw [SD]
          cases n with
          | zero => exact Or.inr (Or.inl rfl)
          | succ n' =>
            refine Or.inr (Or.inr (sd_mono r p' k' ?_ hs1))
            rw [Nat.succ_mul]
            simp only [Nat.add_sub_cancel]
            omega
    · rw [if_neg hlen]
      simp only [PullStep, Pot]
      refine ⟨k, ?_, Nat.le_refl _⟩
      rw [SD]
      cases n with
      | zero => exact Or.inr (Or.inl rfl)
      | succ n' =>
        refine Or.inr (Or.inr (sd_mono r p k ?_ hs))
        have hl : (if st ≥ buf.length then [] else buf.drop st).length = buf.length - st := by
          split
          · simp only [List.length_nil]; omega
          · simp
        rw [hl, Nat.succ_mul]
        simp only [Nat.add_sub_cancel]
        omega

theorem pull_window {fuel : Nat} (hP : PBelow r (fuel+1)) (s st : Nat) (o : Bool) (buf : List V) (d so : Bool)
    (p : Pipe) (l : List V) (w : World) (n k : Nat)
    (hd : Den (.window s st o buf d so p) l) (hs : SD r (.window s st o buf d so p) (n+1) k) (hw : w.Clean) :
    PullStep r (emitP (fuel+1) (.window s st o buf d so p) w) w n k := by
  rw [emitP]
  rw [Den] at hd
  obtain ⟨hp, ⟨rfl, rfl⟩ | ⟨rfl, l0, hd0, rfl⟩⟩ := hd
  · simp only [if_true, PullStep, Pot]
    exact ⟨k, by rw [SD]; exact Or.inl rfl, Nat.le_refl _⟩
  · simp only [Bool.false_eq_true, if_false]
    rw [SD] at hs
    rcases hs with h | h | hs
    · cases h
    · omega
    · exact windowFill_pull (hP.mono (Nat.le_succ _)) s st o so hp fuel (Nat.le_refl _) buf p l0 w n k hd0
        (by simpa using hs) hw

/-! ### Concat -/

theorem concatCalls_head_pos (len : Nat) (ls : List Nat) (n : Nat) :
    1 ≤ (Spec.concatCalls (len :: ls) (n+1)).getD 0 0 := by
  rw [concatCalls_cons]
  simp only [List.getD_cons_zero]
  split <;> (try split) <;> omega

theorem pull_concat {fuel : Nat} (hP : PBelow r (fuel+1)) (ps : PipeList) (next : Nat) (curOpen outerOpen : Bool)
    (w : World) (n k : Nat)
    (hs : SD r (.concat ps next curOpen outerOpen) (n+1) k) (hw : w.Clean) :
    PullStep r (emitP (fuel+1) (.concat ps next curOpen outerOpen) w) w n k := by
  have hsn : SD r (.concat ps next curOpen outerOpen) n k := sd_mono r _ k (Nat.le_succ n) hs
  rw [emitP]
  by_cases hz : ps.length = 0
  · rw [if_pos hz]; exact ⟨k, hsn, Nat.le_refl _⟩
  rw [if_neg hz, if_neg (not_cancelled hw)]
  cases curOpen with
  | false =>
    simp only [Bool.not_false, if_true, PullStep, Pot]
    exact ⟨k, hsn, Nat.le_refl _⟩
  | true =>
    simp only [Bool.not_true, Bool.false_eq_true, if_false]
    rw [SD] at hs
    rcases hs with h | ⟨hnext, l0, ls, cf, hat, hrest, hcf, k1, k2, hsat, hrdl, hk⟩
    · cases h
    obtain ⟨cur, hget, hcur⟩ := (denAt_iff ps (next-1) l0).mp hat
    obtain ⟨cur2, hget2, hscur⟩ := (sdAt_iff r ps (next-1) _ _).mp hsat
    rw [hget] at hget2; cases hget2
    rw [hget]
    simp only
    have hcf0 := hcf 0
    have hpos := concatCalls_head_pos l0.length (ls.map List.length) n
    obtain ⟨N, hN⟩ : ∃ N, cf 0 = N + 1 := ⟨cf 0 - 1, by omega⟩
    rw [hN] at hscur
    have hok := emitOK_all fuel cur l0 w hcur hw
    have h := (hP fuel (by omega)).1 cur l0 w N k1 hcur hscur hw
    rcases he : emitP fuel cur w with ⟨res, cur', w'⟩
    rw [he] at h hok
    cases res <;> simp only [PullStep, StepOK, Pot] at h hok ⊢
    · rename_i x
      obtain ⟨xs, rfl, h2, h3⟩ := hok
      obtain ⟨k1', hs1, hp1⟩ := h
      refine ⟨k1' + k2, ?_, by omega⟩
      rw [SD]
      refine Or.inr ⟨hnext, xs, ls, fun j => if j = 0 then N else cf j, ?_, ?_, ?_, k1', k2, ?_, ?_, Nat.le_refl _⟩
      · exact (denAt_iff _ _ _).mpr ⟨cur', get?_set_self ps hget cur', h3⟩
      · rw [toList_set, List.drop_set_of_lt (by omega)]; exact hrest
      · intro j
        have hj := hcf j
        rw [concatCalls_cons] at hj ⊢
        cases j with
        | zero =>
          simp only [List.getD_cons_zero, List.length_cons, if_true] at hj ⊢
          split at hj
          · omega
          · split at hj <;> split <;> (try split) <;> omega
        | succ j =>
          simp only [List.getD_cons_succ] at hj ⊢
          rw [if_neg (Nat.succ_ne_zero j)]
          have e : (if n ≤ xs.length then 0 else n - xs.length) =
              (if n + 1 ≤ (x :: xs).length then 0 else n + 1 - (x :: xs).length) := by
            simp only [List.length_cons]; split <;> split <;> omega
          rw [e]; exact hj
      · simp only [if_true]
        exact (sdAt_iff _ _ _ _ _).mpr ⟨cur', get?_set_self ps hget cur', hs1⟩
      · rw [toList_set, List.drop_set_of_lt (by omega)]
        simpa using hrdl
    · obtain ⟨rfl, h2, h3⟩ := hok
      obtain ⟨k1', hs1, hp1⟩ := h
      rcases hcl : closeP cur' w' with ⟨cur'', w''⟩
      have hc2 : w''.Clean := by
        have := closeP_clean cur' h2; rw [hcl] at this; exact this
      have hpc : pulls w''.trace r = pulls w'.trace r := by
        have := Props.C05.closeP_pulls r cur' w'; rw [hcl] at this; exact this
      simp only
      rw [if_neg (not_cancelled hc2)]
      have hne : next - 1 ≠ next := by omega
      rw [get?_set_ne ps hne]
      cases hnx : ps.get? next with
      | none =>
        simp only
        exact ⟨0, by rw [SD]; exact Or.inl rfl, by omega⟩
      | some nx =>
        simp only
        have hnx' : ps.toList[next]? = some nx := by rw [← get?_toList]; exact hnx
        obtain ⟨l1, ls', rfl, hre, hrest'⟩ := all2_drop_cons hrest hnx'
        have hlt : next < ps.toList.length := (List.getElem?_eq_some_iff.mp hnx').1
        have hdrop : ps.toList.drop next = nx :: ps.toList.drop (next+1) := by
          rw [List.drop_eq_getElem_cons hlt]; congr 1
          exact (List.getElem?_eq_some_iff.mp hnx').2
        rw [hdrop, RDL] at hrdl
        obtain ⟨ka, kb, hrd, hrdl', hkab⟩ := hrdl
        have hcfs : ∀ j, (Spec.concatCalls (l1.length :: ls'.map List.length) (n+1)).getD j 0 ≤ cf (j+1) := by
          intro j
          have hj := hcf (j+1)
          rw [concatCalls_cons] at hj
          simp only [List.getD_cons_succ, List.length_nil, List.map_cons] at hj
          have e : (if n + 1 ≤ 0 then 0 else n + 1 - 0) = n + 1 := by split <;> omega
          rw [e] at hj; exact hj
        have hpos1 := concatCalls_head_pos l1.length (ls'.map List.length) n
        have hcf1 : _ ≤ cf 1 := hcfs 0
        obtain ⟨N1, hN1⟩ : ∃ N1, cf 1 = N1 + 1 := ⟨cf 1 - 1, by omega⟩
        have hrd' : RD r nx (N1 + 1) ka := by
          have := hrd; simp only [Nat.zero_add] at this; rw [hN1] at this; exact this
        have hoo := openOK_all fuel nx l1 w'' hre hc2
        have hop := (hP fuel (by omega)).2 nx l1 w'' N1 ka hre hrd' hc2
        rcases hoe : openP fuel nx w'' with ⟨res2, nx', w3⟩
        rw [hoe] at hoo hop
        cases res2 <;> simp only [OpenStepOK, OpenPullStep, Pot] at hoo hop ⊢
        obtain ⟨hc3, hdn⟩ := hoo
        obtain ⟨ka', hsn', hpo⟩ := hop
        have hgetn : (ps.set (next - 1) cur'').get? next = some nx := by rw [get?_set_ne ps hne]; exact hnx
        refine ((hP fuel (by omega)).1 _ (l1 ++ ls'.flatten) w3 n (ka' + kb) ?_ ?_ hc3).trans (by omega)
        · rw [Den]
          refine Or.inr ⟨rfl, by omega, l1, ls', ?_, ?_, by simp⟩
          · exact (denAt_iff _ _ _).mpr ⟨nx', by simpa using get?_set_self _ hgetn nx', hdn⟩
          · rw [toList_set, toList_set, List.drop_set_of_lt (by omega), List.drop_set_of_lt (by omega)]
            exact hrest'
        · rw [SD]
          refine Or.inr ⟨by omega, l1, ls', fun j => cf (j+1), ?_, ?_, hcfs, ka', kb, ?_, ?_, Nat.le_refl _⟩
          · exact (denAt_iff _ _ _).mpr ⟨nx', by simpa using get?_set_self _ hgetn nx', hdn⟩
          · rw [toList_set, toList_set, List.drop_set_of_lt (by omega), List.drop_set_of_lt (by omega)]
            exact hrest'
          · refine (sdAt_iff _ _ _ _ _).mpr ⟨nx', by simpa using get?_set_self _ hgetn nx', ?_⟩
            simp only [Nat.zero_add]; rw [hN1]; exact hsn'
          · rw [toList_set, toList_set, List.drop_set_of_lt (by omega), List.drop_set_of_lt (by omega)]
            exact hrdl'

/-! ### ZipN and merge: one round over the sub streams -/

/-- the sub streams `ps'` have potential `ks'` for `n` calls each; the pulls are paid from `ks` -/
def LPot (r len : Nat) (ps' : PipeList) (w' w : World) (n : Nat) (ks : Nat → Nat) : Prop :=
  ps'.length = len ∧ ∃ ks' : Nat → Nat, (∀ j p, ps'.get? j = some p → SD r p n (ks' j)) ∧
    pulls w'.trace r + sumTo len ks' ≤ pulls w.trace r + sumTo len ks

def ListStep {α : Type} (r len : Nat) (res : Res α × PipeList × World) (w : World) (n : Nat) (ks : Nat → Nat) : Prop :=
  match res with
  | (.oof, _, _) => True
  | (.val _, ps', w') => LPot r len ps' w' w n ks
  | (.eof, ps', w') => LPot r len ps' w' w n ks
  | (.fail _, _, _) => True
  | (.panic _, _, _) => True

theorem ListStep.trans {α : Type} {len : Nat} {res : Res α × PipeList × World} {w1 w : World} {n : Nat}
    {ks1 ks : Nat → Nat} (h : ListStep r len res w1 n ks1)
    (hle : pulls w1.trace r + sumTo len ks1 ≤ pulls w.trace r + sumTo len ks) :
    ListStep r len res w n ks := by
  rcases res with ⟨res, ps', w'⟩
  cases res <;> simp only [ListStep, LPot] at h ⊢
  · obtain ⟨hl, ks', hs, hp⟩ := h; exact ⟨hl, ks', hs, by omega⟩
  · obtain ⟨hl, ks', hs, hp⟩ := h; exact ⟨hl, ks', hs, by omega⟩

theorem get?_lt_length {ps : PipeList} {i : Nat} {p : Pipe} (h : ps.get? i = some p) : i < ps.length := by
  rw [get?_toList] at h
  have := (List.getElem?_eq_some_iff.mp h).1
  rwa [length_toList] at this

theorem length_le_of_get?_none {ps : PipeList} {i : Nat} (h : ps.get? i = none) : ps.length ≤ i := by
  rw [get?_toList] at h
  have := List.getElem?_eq_none_iff.mp h
  rwa [length_toList] at this

/-- after sub stream `i` moved to `p'` with potential `k'`: the round continues at `i+1` -/
theorem round_advance {ps : PipeList} {i n : Nat} {ks : Nat → Nat} {p p' : Pipe} {k' : Nat}
    (hg : ps.get? i = some p)
    (hks : ∀ j q, ps.get? j = some q → SD r q (if j < i then n else n+1) (ks j))
    (hs' : SD r p' n k') :
    ∀ j q, (ps.set i p').get? j = some q →
      SD r q (if j < i+1 then n else n+1) ((fun j => if j = i then k' else ks j) j) := by
  intro j q hq
  by_cases hji : j = i
  · subst hji
    rw [get?_set_self ps hg] at hq
    cases hq
    simp only [if_true, Nat.lt_succ_self]
    exact hs'
  · rw [get?_set_ne ps (Ne.symm hji)] at hq
    have := hks j q hq
    simp only [if_neg hji]
    by_cases hlt : j < i
    · rw [if_pos hlt] at this; rw [if_pos (by omega)]; exact this
    · rw [if_neg hlt] at this; rw [if_neg (by omega)]; exact this

/-- the round is over (or was cut short): everybody has potential for `n` more calls -/
theorem round_done {ps : PipeList} {i n : Nat} {ks : Nat → Nat}
    (hks : ∀ j q, ps.get? j = some q → SD r q (if j < i then n else n+1) (ks j)) :
    ∀ j q, ps.get? j = some q → SD r q n (ks j) := by
  intro j q hq
  have := hks j q hq
  split at this
  · exact this
  · exact sd_mono r q _ (Nat.le_succ n) this

theorem zipRow_pull {F : Nat} (hP : PBelow r F) (len n : Nat) : ∀ fuel, fuel ≤ F →
    ∀ (ps : PipeList) (ls : List (List V)) (i : Nat) (acc : List Int) (w : World) (ks : Nat → Nat),
      ps.length = len → All2 Den ps.toList ls →
      (∀ j p, ps.get? j = some p → SD r p (if j < i then n else n+1) (ks j)) → w.Clean →
      ListStep r len (zipRow fuel ps i acc w) w n ks
  | 0, _, _, _, _, _, _, _, _, _, _, _ => by rw [zipRow]; trivial
  | fuel+1, hf, ps, ls, i, acc, w, ks, hlen, hd, hks, hw => by
    rw [zipRow]
    cases hg : ps.get? i with
    | none =>
      simp only [ListStep, LPot]
      exact ⟨hlen, ks, round_done hks, Nat.le_refl _⟩
    | some p =>
      simp only
      have hg' : ps.toList[i]? = some p := by rw [← get?_toList]; exact hg
      obtain ⟨li, hli, hdp⟩ := hd.get hg'
      have hilt : i < len := hlen ▸ get?_lt_length hg
      have hsp : SD r p (n+1) (ks i) := by
        have := hks i p hg; rw [if_neg (Nat.lt_irrefl i)] at this; exact this
      have hok := emitOK_all fuel p li w hdp hw
      have h := (hP fuel (by omega)).1 p li w n (ks i) hdp hsp hw
      rcases he : emitP fuel p w with ⟨res, p', w'⟩
      rw [he] at h hok
      cases res <;> simp only [PullStep, StepOK, ListStep, Pot] at h hok ⊢
      · rename_i x
        obtain ⟨xs, rfl, h2, h3⟩ := hok
        obtain ⟨k', hs1, hp1⟩ := h
        have hd' : All2 Den (ps.set i p').toList (ls.set i xs) := by
          rw [toList_set]; exact hd.set i h3
        have hsum := sumTo_upd ks i k' len hilt
        exact (zipRow_pull hP len n fuel (by omega) (ps.set i p') (ls.set i xs) (i+1) (acc ++ x.flat) w' _
          (by rw [length_set]; exact hlen) hd' (round_advance hg hks hs1) h2).trans (by omega)
      · obtain ⟨k', hs1, hp1⟩ := h
        have hsum := sumTo_upd ks i k' len hilt
        exact ⟨by rw [length_set]; exact hlen, _, round_done (round_advance hg hks hs1), by omega⟩

theorem pull_zip {fuel : Nat} (hP : PBelow r (fuel+1)) (ps : PipeList) (opened : Nat) (l : List V) (w : World)
    (n k : Nat) (hd : Den (.zip ps opened) l) (hs : SD r (.zip ps opened) (n+1) k) (hw : w.Clean) :
    PullStep r (emitP (fuel+1) (.zip ps opened) w) w n k := by
  have hsn : SD r (.zip ps opened) n k := sd_mono r _ k (Nat.le_succ n) hs
  rw [emitP]
  rw [Den] at hd
  obtain ⟨ls, hdl, _⟩ := hd
  have hall := (denList_iff ps ls).mp hdl
  by_cases hlen : ps.length = 0
  · rw [if_pos hlen]; exact ⟨k, hsn, Nat.le_refl _⟩
  · rw [if_neg hlen]
    rw [SD] at hs
    obtain ⟨ks, hsl, hk⟩ := hs
    have hks : ∀ j p, ps.get? j = some p → SD r p (if j < 0 then n else n+1) (ks j) := by
      intro j p hp
      rw [if_neg (Nat.not_lt_zero j)]
      exact (sdl_iff r ps _ ks).mp hsl j p hp
    have hz := zipRow_pull (hP.mono (Nat.le_succ _)) ps.length n fuel (Nat.le_refl _) ps ls 0 [] w ks rfl hall hks hw
    rcases hze : zipRow fuel ps 0 [] w with ⟨res, ps', w'⟩
    rw [hze] at hz
    cases res <;> simp only [ListStep, LPot, PullStep, Pot] at hz ⊢
    · obtain ⟨hl, ks', hs', hp⟩ := hz
      refine ⟨sumTo ps.length ks', ?_, by omega⟩
      rw [SD]
      exact ⟨ks', (sdl_iff r ps' _ ks').mpr hs', by rw [hl]; exact Nat.le_refl _⟩
    · obtain ⟨hl, ks', hs', hp⟩ := hz
      refine ⟨sumTo ps.length ks', ?_, by omega⟩
      rw [SD]
      exact ⟨ks', (sdl_iff r ps' _ ks').mpr hs', by rw [hl]; exact Nat.le_refl _⟩

open ShpanVerif.Model.Merge (Input) in
theorem mergeRefill_pull {F : Nat} (hP : PBelow r F) (len n : Nat) : ∀ fuel, fuel ≤ F →
    ∀ (ps : PipeList) (st : List (Input V)) (i : Nat) (w : World) (ks : Nat → Nat),
      ps.length = len → All2 Den ps.toList (st.map Prod.snd) →
      (∀ j p, ps.get? j = some p → SD r p (if j < i then n else n+1) (ks j)) → w.Clean →
      ListStep r len (mergeRefill fuel ps i (st.map Prod.fst) w) w n ks
  | 0, _, _, _, _, _, _, _, _, _, _ => by rw [mergeRefill]; trivial
  | fuel+1, hf, ps, st, i, w, ks, hlen, hd, hks, hw => by
    rw [mergeRefill]
    have hlen' : ps.toList.length = st.length := by have := hd.1; simpa using this
    cases hg : ps.get? i with
    | none =>
      simp only [ListStep, LPot]
      exact ⟨hlen, ks, round_done hks, Nat.le_refl _⟩
    | some p =>
      simp only
      have hg' : ps.toList[i]? = some p := by rw [← get?_toList]; exact hg
      have hilt : i < st.length := by rw [← hlen']; exact (List.getElem?_eq_some_iff.mp hg').1
      have hilt' : i < len := hlen ▸ get?_lt_length hg
      obtain ⟨li, hli, hdp⟩ := hd.get hg'
      have hsti : st[i]? = some (st[i]) := List.getElem?_eq_getElem hilt
      have hsp : SD r p (n+1) (ks i) := by
        have := hks i p hg; rw [if_neg (Nat.lt_irrefl i)] at this; exact this
      cases hslot : (st[i]).1 with
      | some v =>
        have hs : (st.map Prod.fst)[i]? = some (some v) := by rw [List.getElem?_map, hsti]; simp [hslot]
        rw [hs]
        simp only
        refine mergeRefill_pull hP len n fuel (by omega) ps st (i+1) w ks hlen hd ?_ hw
        intro j q hq
        have := hks j q hq
        by_cases hji : j = i
        · subst hji
          rw [hg] at hq; cases hq
          rw [if_pos (Nat.lt_succ_self _)]
          exact sd_mono r _ _ (Nat.le_succ n) hsp
        · by_cases hlt : j < i
          · rw [if_pos hlt] at this; rw [if_pos (by omega)]; exact this
          · rw [if_neg hlt] at this; rw [if_neg (by omega)]; exact this
      | none =>
        have hs : (st.map Prod.fst)[i]? = some none := by rw [List.getElem?_map, hsti]; simp [hslot]
        rw [hs]
        simp only
        rw [if_neg (not_cancelled hw)]
        have hok := emitOK_all fuel p li w hdp hw
        have h := (hP fuel (by omega)).1 p li w n (ks i) hdp hsp hw
        rcases he : emitP fuel p w with ⟨res, p', w'⟩
        rw [he] at h hok
        cases res <;> simp only [PullStep, StepOK, ListStep, Pot] at h hok ⊢
        · rename_i x
          obtain ⟨xs, rfl, h2, h3⟩ := hok
          obtain ⟨k', hs1, hp1⟩ := h
          have e1 : (st.map Prod.fst).set i (some x) = (st.set i (some x, xs)).map Prod.fst := by
            rw [List.map_set]
          have hd' : All2 Den (ps.set i p').toList ((st.set i (some x, xs)).map Prod.snd) := by
            rw [toList_set, List.map_set]; exact hd.set i h3
          have hsum := sumTo_upd ks i k' len hilt'
          rw [e1]
          exact (mergeRefill_pull hP len n fuel (by omega) (ps.set i p') (st.set i (some x, xs)) (i+1) w' _
            (by rw [length_set]; exact hlen) hd' (round_advance hg hks hs1) h2).trans (by omega)
        · obtain ⟨rfl, h2, h3⟩ := hok
          obtain ⟨k', hs1, hp1⟩ := h
          have hd' : All2 Den (ps.set i p').toList (st.map Prod.snd) := by
            have := hd.set i h3
            rw [set_eq_self hli] at this
            rw [toList_set]; exact this
          have hsum := sumTo_upd ks i k' len hilt'
          exact (mergeRefill_pull hP len n fuel (by omega) (ps.set i p') st (i+1) w' _
            (by rw [length_set]; exact hlen) hd' (round_advance hg hks hs1) h2).trans (by omega)

theorem pull_merge {fuel : Nat} (hP : PBelow r (fuel+1)) (ps : PipeList) (opened : Nat)
    (slots : Option (List (Option V))) (l : List V) (w : World) (n k : Nat)
    (hd : Den (.merge ps opened slots) l) (hs : SD r (.merge ps opened slots) (n+1) k) (hw : w.Clean) :
    PullStep r (emitP (fuel+1) (.merge ps opened slots) w) w n k := by
  have hsn : SD r (.merge ps opened slots) n k := sd_mono r _ k (Nat.le_succ n) hs
  rw [emitP_merge_eq]
  by_cases hz : ps.length = 0
  · rw [if_pos hz]; exact ⟨k, hsn, Nat.le_refl _⟩
  rw [if_neg hz]
  rw [Den] at hd
  rcases hd with ⟨hz', _⟩ | ⟨st, hdl, hsl, _, _⟩
  · exact absurd hz' hz
  have hall := (denList_iff ps _).mp hdl
  rw [hsl]
  rw [SD] at hs
  obtain ⟨ks, hsdl, hk⟩ := hs
  have hks : ∀ j p, ps.get? j = some p → SD r p (if j < 0 then n else n+1) (ks j) := by
    intro j p hp
    rw [if_neg (Nat.not_lt_zero j)]
    exact (sdl_iff r ps _ ks).mp hsdl j p hp
  have hr := mergeRefill_pull (hP.mono (Nat.le_succ _)) ps.length n fuel (Nat.le_refl _) ps st 0 w ks rfl hall hks hw
  rcases hre : mergeRefill fuel ps 0 (st.map Prod.fst) w with ⟨res, ps', w'⟩
  rw [hre] at hr
  cases res <;> simp only [ListStep, LPot, PullStep, Pot] at hr ⊢
  · obtain ⟨hl, ks', hs', hp⟩ := hr
    have hsd : ∀ sl, SD r (.merge ps' opened sl) n (sumTo ps.length ks') := by
      intro sl; rw [SD]
      exact ⟨ks', (sdl_iff r ps' _ ks').mpr hs', by rw [hl]; exact Nat.le_refl _⟩
    rename_i slots1
    cases hsc : Model.Pipe.scanMin 0 slots1 none with
    | none => exact ⟨_, hsd _, by omega⟩
    | some jm =>
      obtain ⟨j, m⟩ := jm
      exact ⟨_, hsd _, by omega⟩

end ShpanVerif.Proofs.PipeC05
