/-
Shape preservation for the fuel-recursive part of the interpreter (openP, emitP and all loop helpers),
by induction on fuel over one conjunction (`ShapeInv`), then `pullLoop` and `consume`.
-/
import ShpanVerif.Proofs.PipeShapeLemmas

namespace ShpanVerif.Proofs.PipeShape
open ShpanVerif.Model.Pipe

structure ShapeInv (fuel : Nat) : Prop where
  h_openP : ∀ p w, shape (openP fuel p w).2.1 = shape p
  h_openList : ∀ ps i w, shapeList (openList fuel ps i w).2.1 = shapeList ps
  h_emitP : ∀ p w, shape (emitP fuel p w).2.1 = shape p
  h_skipLoop : ∀ n p w, shape (skipLoop fuel n p w).2.1 = shape p
  h_zipRow : ∀ ps i acc w, shapeList (zipRow fuel ps i acc w).2.1 = shapeList ps
  h_mergeRefill : ∀ ps i sl w, shapeList (mergeRefill fuel ps i sl w).2.1 = shapeList ps
  h_windowFill : ∀ s st o buf so p w,
    shape (windowFill fuel s st o buf so p w).2.1 = shape (.window s st o buf false so p)
  h_clusterRead : ∀ k cls want acc nxt last p w,
    shape (clusterRead fuel k cls want acc nxt last p w).2.2.2.1 = shape p
  h_clusterSkip : ∀ k cls nxt last p w, shape (clusterSkip fuel k cls nxt last p w).2.2.2.1 = shape p
  h_clusterSkipLoop : ∀ k cls nc nxt last p w,
    shape (clusterSkipLoop fuel k cls nc nxt last p w).2.2.2.1 = shape p

theorem shapeInv_zero : ShapeInv 0 := by
  constructor <;> intros <;> simp [openP, openList, emitP, skipLoop, zipRow, mergeRefill, windowFill,
    clusterRead, clusterSkip, clusterSkipLoop, shape]

section
variable {fuel : Nat} (ih : ShapeInv fuel)
include ih

theorem ShapeInv.openP' {p w r p' w'} (h : openP fuel p w = (r, p', w')) : shape p' = shape p := by
  have := ih.h_openP p w; rw [h] at this; exact this
theorem ShapeInv.openList' {ps i w r ps' w'} (h : openList fuel ps i w = (r, ps', w')) :
    shapeList ps' = shapeList ps := by
  have := ih.h_openList ps i w; rw [h] at this; exact this
theorem ShapeInv.emitP' {p w r p' w'} (h : emitP fuel p w = (r, p', w')) : shape p' = shape p := by
  have := ih.h_emitP p w; rw [h] at this; exact this
theorem ShapeInv.skipLoop' {n p w r p' w'} (h : skipLoop fuel n p w = (r, p', w')) : shape p' = shape p := by
  have := ih.h_skipLoop n p w; rw [h] at this; exact this
theorem ShapeInv.zipRow' {ps i acc w r ps' w'} (h : zipRow fuel ps i acc w = (r, ps', w')) :
    shapeList ps' = shapeList ps := by
  have := ih.h_zipRow ps i acc w; rw [h] at this; exact this
theorem ShapeInv.mergeRefill' {ps i sl w r ps' w'} (h : mergeRefill fuel ps i sl w = (r, ps', w')) :
    shapeList ps' = shapeList ps := by
  have := ih.h_mergeRefill ps i sl w; rw [h] at this; exact this
theorem ShapeInv.clusterRead' {k cls want acc nxt last p w r n' l' p' w'}
    (h : clusterRead fuel k cls want acc nxt last p w = (r, n', l', p', w')) : shape p' = shape p := by
  have := ih.h_clusterRead k cls want acc nxt last p w; rw [h] at this; exact this
theorem ShapeInv.clusterSkip' {k cls nxt last p w r n' l' p' w'}
    (h : clusterSkip fuel k cls nxt last p w = (r, n', l', p', w')) : shape p' = shape p := by
  have := ih.h_clusterSkip k cls nxt last p w; rw [h] at this; exact this
theorem ShapeInv.clusterSkipLoop' {k cls nc nxt last p w r n' l' p' w'}
    (h : clusterSkipLoop fuel k cls nc nxt last p w = (r, n', l', p', w')) : shape p' = shape p := by
  have := ih.h_clusterSkipLoop k cls nc nxt last p w; rw [h] at this; exact this

theorem openP_succ : ∀ p w, shape (openP (fuel+1) p w).2.1 = shape p := by
  intro p w
  cases p with
  | src r xs idx => simp only [openP]; split <;> simp [shape]
  | lc r p =>
    simp only [openP]
    split <;> rename_i h <;> have h1 := ih.openP' h
    · split <;> simp_all [shape, closeP_shape]
    · simp_all [shape]
  | map f p => simp [openP, shape, ih.h_openP p w]
  | filter g p => simp [openP, shape, ih.h_openP p w]
  | limit n c p => simp only [openP]; split <;> simp [shape, ih.h_openP p w]
  | skip n d p => simp [openP, shape, ih.h_openP p w]
  | concat ps next curOpen outerOpen =>
    simp only [openP]
    split
    · simp [shape]
    · split
      · simp [shape]
      · split
        · simp [shape]
        · rename_i p0 hget
          split <;> rename_i h <;> have h1 := ih.openP' h <;>
            simp [shape, shapeList_set ps 0 _ p0 hget h1]
  | zip ps opened =>
    simp only [openP]
    split
    · simp [shape]
    · split <;> rename_i h <;> have h1 := ih.openList' h <;> simp [shape, h1]
  | merge ps opened slots =>
    simp only [openP]
    split
    · simp [shape]
    · split <;> rename_i h <;> have h1 := ih.openList' h <;> simp [shape, h1]
  | window s st o buf d so p =>
    simp only [openP]
    split
    · simp [shape]
    · split <;> rename_i h <;> have h1 := ih.openP' h <;> simp [shape, h1]
  | cluster k fac nxt cls last so p =>
    simp only [openP]
    split <;> rename_i h <;> have h1 := ih.openP' h
    · split <;> rename_i h' <;> have h2 := ih.emitP' h' <;> simp_all [shape, closeP_shape]
    · simp_all [shape]

theorem openList_succ : ∀ ps i w, shapeList (openList (fuel+1) ps i w).2.1 = shapeList ps := by
  intro ps i w
  simp only [openList]
  split
  · rfl
  · rename_i p hget
    split <;> rename_i h <;> have h1 := ih.openP' h
    · rw [ih.h_openList]; exact shapeList_set ps i _ p hget h1
    · exact shapeList_set ps i _ p hget h1
    · simp only [closeFirst_shape]; exact shapeList_set ps i _ p hget h1

theorem skipLoop_succ : ∀ n p w, shape (skipLoop (fuel+1) n p w).2.1 = shape p := by
  intro n p w
  cases n with
  | zero => simp [skipLoop]
  | succ n =>
    simp only [skipLoop]
    split <;> rename_i h <;> have h1 := ih.emitP' h
    · rw [ih.h_skipLoop]; exact h1
    all_goals exact h1

theorem zipRow_succ : ∀ ps i acc w, shapeList (zipRow (fuel+1) ps i acc w).2.1 = shapeList ps := by
  intro ps i acc w
  simp only [zipRow]
  split
  · rfl
  · rename_i p hget
    split <;> rename_i h <;> have h1 := ih.emitP' h
    · rw [ih.h_zipRow]; exact shapeList_set ps i _ p hget h1
    all_goals exact shapeList_set ps i _ p hget h1

theorem mergeRefill_succ : ∀ ps i sl w, shapeList (mergeRefill (fuel+1) ps i sl w).2.1 = shapeList ps := by
  intro ps i sl w
  simp only [mergeRefill]
  split
  · rfl
  · rename_i p hget
    split
    · rw [ih.h_mergeRefill]
    · split
      · rfl
      · split <;> rename_i h <;> have h1 := ih.emitP' h
        · rw [ih.h_mergeRefill]; exact shapeList_set ps i _ p hget h1
        · rw [ih.h_mergeRefill]; exact shapeList_set ps i _ p hget h1
        all_goals exact shapeList_set ps i _ p hget h1

theorem windowFill_succ : ∀ s st o buf so p w,
    shape (windowFill (fuel+1) s st o buf so p w).2.1 = shape (.window s st o buf false so p) := by
  intro s st o buf so p w
  simp only [windowFill]
  split
  · split
    · rfl
    · split <;> rename_i h <;> have h1 := ih.emitP' h
      · rw [ih.h_windowFill]; simp [shape, h1]
      · split <;> simp [shape, h1]
      all_goals simp [shape, h1]
  · simp [shape]

theorem clusterRead_succ : ∀ k cls want acc nxt last p w,
    shape (clusterRead (fuel+1) k cls want acc nxt last p w).2.2.2.1 = shape p := by
  intro k cls want acc nxt last p w
  unfold clusterRead
  split
  · split <;> rfl
  · split
    · rfl
    · split
      · rfl
      · split
        · rfl
        · split <;> rename_i h <;> have h1 := ih.emitP' h
          · rw [ih.h_clusterRead]; exact h1
          · rw [ih.h_clusterRead]; exact h1
          all_goals exact h1

theorem clusterSkipLoop_succ : ∀ k cls nc nxt last p w,
    shape (clusterSkipLoop (fuel+1) k cls nc nxt last p w).2.2.2.1 = shape p := by
  intro k cls nc nxt last p w
  unfold clusterSkipLoop
  split
  · rfl
  · split
    · rfl
    · split <;> rename_i h <;> have h1 := ih.emitP' h
      · exact h1
      · dsimp only
        split
        · exact h1
        · rw [ih.h_clusterSkipLoop]; exact h1
      all_goals exact h1

theorem clusterSkip_succ : ∀ k cls nxt last p w,
    shape (clusterSkip (fuel+1) k cls nxt last p w).2.2.2.1 = shape p := by
  intro k cls nxt last p w
  unfold clusterSkip
  split
  · rfl
  · rw [ih.h_clusterSkipLoop]

theorem emitP_succ : ∀ p w, shape (emitP (fuel+1) p w).2.1 = shape p := by
  intro p w
  cases p with
  | src r xs idx => simp only [emitP]; repeat' split <;> simp [shape]
  | lc r p => simp [emitP, shape, ih.h_emitP p w]
  | map f p =>
    simp only [emitP]
    split <;> rename_i h <;> have := ih.emitP' h
    · split <;> simp_all [shape]
    all_goals simp_all [shape]
  | filter g p =>
    simp only [emitP]
    split <;> rename_i h <;> have := ih.emitP' h
    · split
      · split
        · simp_all [shape]
        · rw [ih.h_emitP]; simp_all [shape]
      all_goals simp_all [shape]
    all_goals simp_all [shape]
  | limit n c p =>
    simp only [emitP]
    split
    · rfl
    · split
      · rfl
      · split <;> rename_i h <;> have := ih.emitP' h <;> simp_all [shape]
  | skip n d p =>
    simp only [emitP]
    split
    · rfl
    · split
      · simp [shape, ih.h_emitP p w]
      · split <;> rename_i h <;> have h1 := ih.skipLoop' h
        · simp [shape, ih.h_emitP, h1]
        all_goals simp [shape, h1]
  | concat ps next curOpen outerOpen =>
    simp only [emitP]
    split
    · rfl
    split
    · rfl
    · split
      · rfl
      · split
        · rfl
        · rename_i cur hget
          split <;> rename_i h <;> have h1 := ih.emitP' h
          · simp [shape, shapeList_set ps _ _ cur hget h1]
          · simp [shape, shapeList_set ps _ _ cur hget h1]
          · simp [shape, shapeList_set ps _ _ cur hget h1]
          · simp [shape, shapeList_set ps _ _ cur hget h1]
          · -- inner stream done: closed, next one opened
            rename_i cur' w'
            have hs : shapeList (ps.set (next-1) (closeP cur' w').1) = shapeList ps :=
              shapeList_set ps (next-1) _ cur hget ((closeP_shape _ _).trans h1)
            split
            · simp [shape, hs]
            · split
              · simp [shape, hs]
              · rename_i nx hget2
                split <;> rename_i h' <;> have h2 := ih.openP' h'
                · rw [ih.h_emitP]; simp [shape, shapeList_set _ next _ nx hget2 h2, hs]
                all_goals simp [shape, shapeList_set _ next _ nx hget2 h2, hs]
  | zip ps opened =>
    simp only [emitP]
    split
    · rfl
    · split <;> rename_i h <;> have h1 := ih.zipRow' h <;> simp [shape, h1]
  | merge ps opened slots =>
    cases slots <;> simp only [emitP] <;> split
    · rfl
    · split <;> rename_i h <;> have h1 := ih.mergeRefill' h
      · split <;> simp [shape, h1]
      all_goals simp [shape, h1]
    · rfl
    · split <;> rename_i h <;> have h1 := ih.mergeRefill' h
      · split <;> simp [shape, h1]
      all_goals simp [shape, h1]
  | window s st o buf d so p =>
    cases d
    · simp only [emitP, Bool.false_eq_true, if_false]
      rw [ih.h_windowFill]
    · simp [emitP]
  | cluster k fac nxt cls last so p =>
    cases nxt
    · simp [emitP]
    · simp only [emitP]
      split
      · rfl
      · rfl
      · split
        · rename_i p' w' h
          have h1 : shape p' = shape p := by
            split at h
            · simp only [Prod.mk.injEq] at h; obtain ⟨_, _, _, rfl, _⟩ := h; rfl
            · exact ih.clusterRead' h
          split <;> rename_i h' <;> have h2 := ih.clusterSkip' h' <;> simp [shape, h2, h1]
        all_goals
          rename_i p' w' h
          have h1 : shape p' = shape p := by
            split at h
            · simp only [Prod.mk.injEq] at h; obtain ⟨_, _, _, rfl, _⟩ := h; rfl
            · exact ih.clusterRead' h
          simp [shape, h1]

end

theorem shapeInv : ∀ fuel, ShapeInv fuel
  | 0 => shapeInv_zero
  | fuel+1 =>
    have ih := shapeInv fuel
    { h_openP := openP_succ ih, h_openList := openList_succ ih, h_emitP := emitP_succ ih,
      h_skipLoop := skipLoop_succ ih, h_zipRow := zipRow_succ ih, h_mergeRefill := mergeRefill_succ ih,
      h_windowFill := windowFill_succ ih, h_clusterRead := clusterRead_succ ih,
      h_clusterSkip := clusterSkip_succ ih, h_clusterSkipLoop := clusterSkipLoop_succ ih }

theorem emitP_shape (fuel p w) : shape (emitP fuel p w).2.1 = shape p := (shapeInv fuel).h_emitP p w
theorem openP_shape (fuel p w) : shape (openP fuel p w).2.1 = shape p := (shapeInv fuel).h_openP p w

theorem pullLoop_shape : ∀ fuel c p acc w, shape (pullLoop fuel c p acc w).2.2.1 = shape p
  | 0, c, p, acc, w => by simp [pullLoop]
  | fuel+1, c, p, acc, w => by
    simp only [pullLoop]
    split
    · rfl
    · split <;> rename_i h <;> have h1 : shape _ = shape p := (shapeInv fuel).emitP' h
      · cases c with
        | collect => simp only; rw [pullLoop_shape]; exact h1
        | user =>
          simp only
          split
          · rw [pullLoop_shape]; exact h1
          all_goals exact h1
      all_goals exact h1

theorem pullLoop_shape' {fuel c p acc w r acc' p' w'} (h : pullLoop fuel c p acc w = (r, acc', p', w')) :
    shape p' = shape p := by
  have := pullLoop_shape fuel c p acc w; rw [h] at this; exact this

/-- a terminal operation never changes the description of the stream -/
theorem consume_shape (fuel c p w) : shape (consume fuel c p w).2.1 = shape p := by
  simp only [consume]
  split <;> rename_i h <;> have h1 : shape _ = shape p := (shapeInv fuel).openP' h
  · split <;> rename_i h' <;> have h2 := pullLoop_shape' h' <;> simp [closeP_shape, h2, h1]
  all_goals simp [h1]

end ShpanVerif.Proofs.PipeShape
