/-
C10: the join datasource preserves the soundness invariant (metadata: unique URNs, nullable sides optional;
rows: concatenation of conforming rows / nil padding only under optional fields; timestamps strictly increasing).
-/
import ShpanVerif.Proofs.QueryJoin

namespace ShpanVerif.Proofs.Query
open ShpanVerif.Model.Query List

variable {D : Type}

/-! ## metadata of the joined result -/

/-- what join_datasource.go:62-71 does to a field of a nullable side -/
def relax (nb : Bool) (m : FieldMeta) : FieldMeta := if nb && m.required then { m with required := false } else m

theorem relax_urn (nb : Bool) (m : FieldMeta) : (relax nb m).urn = m.urn := by
  simp only [relax]; split <;> rfl

theorem relax_dt (nb : Bool) (m : FieldMeta) : (relax nb m).dt = m.dt := by
  simp only [relax]; split <;> rfl

theorem relax_true_required (m : FieldMeta) : (relax true m).required = false := by
  simp only [relax, Bool.true_and]
  split
  · rfl
  · rename_i h; simpa using h

theorem tagOk_relaxed {nb : Bool} {m : FieldMeta} {v : Val D} (h : tagOk m.dt m.required v) :
    tagOk (relax nb m).dt (relax nb m).required v := by
  simp only [relax]
  split
  · exact tagOk_relax h
  · exact h

theorem Conforms.relaxed (nb : Bool) : ∀ {fms : List FieldMeta} {vs : List (Val D)}, Conforms fms vs →
    Conforms (fms.map (relax nb)) vs
  | [], [], _ => trivial
  | _ :: ms, _ :: vs, h => ⟨tagOk_relaxed h.1, Conforms.relaxed nb (fms := ms) h.2⟩
  | [], _ :: _, h => by simp [Conforms] at h
  | _ :: _, [], h => by simp [Conforms] at h

theorem Conforms.nils_relaxed : ∀ (fms : List FieldMeta),
    Conforms (D := D) (fms.map (relax true)) (Model.Query.nils fms.length)
  | [] => trivial
  | m :: ms => ⟨by simp [relax_true_required, tagOk], by simpa [Model.Query.nils] using Conforms.nils_relaxed ms⟩

theorem joinMetasOne_ok (nb : Bool) : ∀ {fms : List FieldMeta} {seen : List String} {out : List FieldMeta}
    {seen' : List String}, joinMetasOne nb fms seen = .ok (out, seen') →
    out = fms.map (relax nb) ∧ (∀ u, u ∈ seen' ↔ u ∈ seen ∨ u ∈ fms.map (·.urn)) ∧
      (fms.map (·.urn)).Nodup ∧ ∀ m ∈ fms, m.urn ∉ seen
  | [], seen, out, seen', h => by
    simp only [joinMetasOne, Except.ok.injEq, Prod.mk.injEq] at h
    obtain ⟨rfl, rfl⟩ := h
    simp
  | m :: ms, seen, out, seen', h => by
    simp only [joinMetasOne] at h
    split at h
    · simp at h
    · rename_i hns
      have hns' : m.urn ∉ seen := by simpa using hns
      split at h
      · simp at h
      · rename_i m' hm'
        split at h
        · simp at h
        · rename_i out' seen2 hrec
          simp only [Except.ok.injEq, Prod.mk.injEq] at h
          obtain ⟨rfl, rfl⟩ := h
          obtain ⟨h1, h2, h3, h4⟩ := joinMetasOne_ok nb hrec
          have hm'' : m' = relax nb m := by
            simp only [relax]
            split at hm'
            · rename_i hc
              obtain ⟨rfl, _, _⟩ := newFieldMeta_ok hm'
              simp [hc]
            · rename_i hc
              simp only [Except.ok.injEq] at hm'
              subst hm'
              rw [if_neg hc]
          refine ⟨by simp [h1, hm''], ?_, ?_, ?_⟩
          · intro u
            rw [h2 u]
            simp only [mem_cons, map_cons]
            constructor
            · rintro ((rfl | h) | h)
              · exact Or.inr (Or.inl rfl)
              · exact Or.inl h
              · exact Or.inr (Or.inr h)
            · rintro (h | rfl | h)
              · exact Or.inl (Or.inr h)
              · exact Or.inl (Or.inl rfl)
              · exact Or.inr h
          · simp only [map_cons, nodup_cons]
            refine ⟨?_, h3⟩
            intro hmem
            simp only [mem_map] at hmem
            obtain ⟨m2, hm2, he⟩ := hmem
            exact h4 m2 hm2 (by simp [he])
          · intro m2 hm2
            rcases mem_cons.mp hm2 with rfl | hm2
            · exact hns'
            · exact fun hs => h4 m2 hm2 (mem_cons_of_mem _ hs)

def nullableAt (jt : JoinType) (n idx : Nat) : Bool := (jt == .full && n > 1) || (jt == .left && idx > 0)

def flagsFrom (jt : JoinType) (n : Nat) : Nat → Nat → List Bool
  | _, 0 => []
  | idx, k + 1 => nullableAt jt n idx :: flagsFrom jt n (idx + 1) k

def relaxB : List Bool → List (List FieldMeta) → List (List FieldMeta)
  | nb :: nbs, f :: fs => f.map (relax nb) :: relaxB nbs fs
  | _, _ => []

theorem joinMetas_ok (jt : JoinType) (n : Nat) : ∀ (idx : Nat) (lists : List (List FieldMeta)) (seen : List String)
    (out : List FieldMeta), joinMetas jt n idx lists seen = .ok out →
    out = (relaxB (flagsFrom jt n idx lists.length) lists).flatten ∧ (out.map (·.urn)).Nodup ∧
      ∀ u ∈ out.map (·.urn), u ∉ seen
  | idx, [], seen, out, h => by
    simp only [joinMetas, Except.ok.injEq] at h; subst h; simp [flagsFrom, relaxB]
  | idx, fms :: rest, seen, out, h => by
    simp only [joinMetas] at h
    split at h
    · simp at h
    · rename_i o1 seen1 h1
      split at h
      · simp at h
      · rename_i o2 h2
        simp only [Except.ok.injEq] at h; subst h
        obtain ⟨e1, hs1, nd1, ns1⟩ := joinMetasOne_ok _ h1
        obtain ⟨e2, nd2, ns2⟩ := joinMetas_ok jt n (idx + 1) rest seen1 o2 h2
        have hu1 : o1.map (·.urn) = fms.map (·.urn) := by
          rw [e1, map_map]; exact map_congr_left fun m _ => relax_urn _ m
        refine ⟨?_, ?_, ?_⟩
        · simp only [length_cons, flagsFrom, relaxB, flatten_cons]
          rw [← e2]
          congr 1
        · simp only [map_append]
          refine nodup_append.mpr ⟨hu1 ▸ nd1, nd2, ?_⟩
          intro a ha b hb hab
          subst hab
          exact ns2 a hb ((hs1 a).mpr (Or.inr (hu1 ▸ ha)))
        · intro u hu
          simp only [map_append, mem_append] at hu
          rcases hu with hu | hu
          · rw [hu1] at hu
            simp only [mem_map] at hu
            obtain ⟨m, hm, rfl⟩ := hu
            exact ns1 m hm
          · exact fun hs => ns2 u hu ((hs1 u).mpr (Or.inl hs))

theorem relaxB_valid : ∀ (nbs : List Bool) (lists : List (List FieldMeta)),
    (∀ l ∈ lists, ∀ m ∈ l, m.urn ≠ "" ∧ m.dt.valid = true) →
    ∀ m ∈ (relaxB nbs lists).flatten, m.urn ≠ "" ∧ m.dt.valid = true
  | [], _, _, m, hm => by simp [relaxB] at hm
  | _ :: _, [], _, m, hm => by simp [relaxB] at hm
  | nb :: nbs, f :: fs, h, m, hm => by
    simp only [relaxB, flatten_cons, mem_append] at hm
    rcases hm with hm | hm
    · simp only [mem_map] at hm
      obtain ⟨m0, hm0, rfl⟩ := hm
      rw [relax_urn, relax_dt]
      exact h f (by simp) m0 hm0
    · exact relaxB_valid nbs fs (fun l hl => h l (mem_cons_of_mem _ hl)) m hm

/-! ## rows -/

/-- positionally: a present row conforms to its source's schema; an absent one only on a nullable side -/
def PadOk : List Bool → List (List FieldMeta) → List (Option (Row D)) → Prop
  | [], [], [] => True
  | nb :: nbs, fms :: ms, o :: os =>
    (match o with
      | some r => Conforms fms r.vals
      | none => nb = true) ∧ PadOk nbs ms os
  | _, _, _ => False

theorem PadOk.conforms : ∀ {nbs : List Bool} {ms : List (List FieldMeta)} {os : List (Option (Row D))},
    PadOk nbs ms os →
    Conforms (relaxB nbs ms).flatten ((os.zip (ms.map length)).map padVals).flatten
  | [], [], [], _ => trivial
  | nb :: nbs, fms :: ms, o :: os, h => by
    simp only [relaxB, flatten_cons, map_cons, zip_cons_cons]
    refine Conforms.append ?_ (PadOk.conforms h.2)
    cases o with
    | some r => exact Conforms.relaxed nb h.1
    | none =>
      have : nb = true := h.1
      subst this
      exact Conforms.nils_relaxed fms
  | [], [], _ :: _, h => by simp [PadOk] at h
  | [], _ :: _, _, h => by simp [PadOk] at h
  | _ :: _, [], _, h => by simp [PadOk] at h
  | _ :: _, _ :: _, [], h => by simp [PadOk] at h

/-- the per-source conformance predicates -/
def confQs (ms : List (List FieldMeta)) : List (Row D → Prop) := ms.map fun fms r => Conforms fms r.vals

theorem PadOk_of_all_true : ∀ {nbs : List Bool} {ms : List (List FieldMeta)} {os : List (Option (Row D))},
    AllQ (confQs ms) (os.map Option.toList) → (∀ nb ∈ nbs, nb = true) → nbs.length = os.length → PadOk nbs ms os
  | [], [], [], _, _, _ => trivial
  | nb :: nbs, fms :: ms, o :: os, h, ht, hl => by
    simp only [confQs, map_cons, AllQ] at h
    refine ⟨?_, PadOk_of_all_true h.2 (fun b hb => ht b (mem_cons_of_mem _ hb)) (by simpa using hl)⟩
    cases o with
    | some r => exact h.1 r (by simp)
    | none => exact ht nb (by simp)
  | [], _, _ :: _, _, _, hl => by simp at hl
  | _ :: _, _, [], _, _, hl => by simp at hl
  | [], _ :: _, [], h, _, _ => by simp [confQs, AllQ] at h
  | _ :: _, [], _ :: _, h, _, _ => by simp [confQs, AllQ] at h

theorem PadOk_of_all_some : ∀ {nbs : List Bool} {ms : List (List FieldMeta)} {rows : List (Row D)},
    AllQ (confQs ms) (rows.map fun r => [r]) → nbs.length = rows.length → PadOk nbs ms (rows.map some)
  | [], [], [], _, _ => trivial
  | nb :: nbs, fms :: ms, r :: rows, h, hl => by
    simp only [confQs, map_cons, AllQ] at h
    exact ⟨h.1 r (by simp), PadOk_of_all_some h.2 (by simpa using hl)⟩
  | [], _, _ :: _, _, hl => by simp at hl
  | _ :: _, _, [], _, hl => by simp at hl
  | [], _ :: _, [], h, _ => by simp [confQs, AllQ] at h
  | _ :: _, [], _ :: _, h, _ => by simp [confQs, AllQ] at h

theorem zip_some_padVals : ∀ (rows : List (Row D)) (ws : List Nat), rows.length = ws.length →
    ((rows.map some).zip ws).map padVals = rows.map (·.vals)
  | [], [], _ => rfl
  | r :: rows, w :: ws, h => by
    simp only [map_cons, zip_cons_cons, padVals, cons.injEq, true_and]
    exact zip_some_padVals rows ws (by simpa using h)
  | [], _ :: _, h => by simp at h
  | _ :: _, [], h => by simp at h

theorem flagsFrom_length (jt : JoinType) (n : Nat) : ∀ (idx k : Nat), (flagsFrom jt n idx k).length = k
  | _, 0 => rfl
  | idx, k + 1 => by simp [flagsFrom, flagsFrom_length jt n (idx + 1) k]

theorem flagsFrom_left_true (n : Nat) : ∀ (idx k : Nat), idx > 0 → ∀ nb ∈ flagsFrom .left n idx k, nb = true
  | _, 0, _, nb, h => by simp [flagsFrom] at h
  | idx, k + 1, hidx, nb, h => by
    simp only [flagsFrom, mem_cons] at h
    rcases h with rfl | h
    · simp [nullableAt, hidx]
    · exact flagsFrom_left_true n (idx + 1) k (by omega) nb h

theorem flagsFrom_full_true (n : Nat) (hn : n > 1) : ∀ (idx k : Nat), ∀ nb ∈ flagsFrom .full n idx k, nb = true
  | _, 0, nb, h => by simp [flagsFrom] at h
  | idx, k + 1, nb, h => by
    simp only [flagsFrom, mem_cons] at h
    rcases h with rfl | h
    · simp [nullableAt, hn]
    · exact flagsFrom_full_true n hn (idx + 1) k nb h

/-- the sources' delivered rows satisfy the per-source conformance predicates -/
theorem allQ_sources : ∀ (results : List (RResult D)), (∀ r ∈ results, RSound r) →
    AllQ (confQs (results.map (·.1))) ((results.map (·.2)).map okRows)
  | [], _ => trivial
  | r :: rs, h => ⟨fun a ha => (h r (by simp)).rows a ha, allQ_sources rs fun r' hr' => h r' (mem_cons_of_mem _ hr')⟩

theorem srt_sources (results : List (RResult D)) (h : ∀ r ∈ results, RSound r) :
    Srt (fun r : Row D => r.ts) ((results.map (·.2)).map okRows) := by
  intro l hl
  simp only [map_map, mem_map, Function.comp] at hl
  obtain ⟨r, hr, rfl⟩ := hl
  exact (h r hr).incr

/-- a bound below every key of finitely many lists -/
def lowKey {α : Type} (key : α → Int) : List (List α) → Int
  | [] => 0
  | l :: ls => l.foldl (fun m a => min m (key a - 1)) (lowKey key ls)

theorem foldl_min_le {α : Type} (key : α → Int) : ∀ (l : List α) (m : Int),
    l.foldl (fun m a => min m (key a - 1)) m ≤ m ∧ ∀ a ∈ l, l.foldl (fun m a => min m (key a - 1)) m < key a
  | [], m => by simp
  | a :: l, m => by
    simp only [foldl_cons]
    obtain ⟨h1, h2⟩ := foldl_min_le key l (min m (key a - 1))
    refine ⟨by omega, fun x hx => ?_⟩
    rcases mem_cons.mp hx with rfl | hx
    · omega
    · exact h2 x hx

theorem lowKey_LB {α : Type} (key : α → Int) : ∀ (ls : List (List α)), LB key (lowKey key ls) ls ∧
    ∀ b, b ≤ lowKey key ls → LB key b ls
  | [] => by simp [LB]
  | l :: ls => by
    have hfold := foldl_min_le key l (lowKey key ls)
    have ih := (lowKey_LB key ls).2
    have main : ∀ b, b ≤ lowKey key (l :: ls) → LB key b (l :: ls) := by
      intro b hb l' hl' a ha
      simp only [lowKey] at hb
      rcases mem_cons.mp hl' with rfl | hl'
      · have := hfold.2 a ha; omega
      · exact ih b (by omega) l' hl' a ha
    exact ⟨main _ (Int.le_refl _), main⟩


theorem mem_okRows {α : Type} {s : List (Option α)} {a : α} : a ∈ okRows s ↔ some a ∈ s := by
  simp [okRows, mem_filterMap]

/-- a full join of a single source never pads -/
theorem fullLoop_single {α : Type} (key : α → Int) : ∀ (fuel : Nat) (s : Src α) (vals : List (Option α)),
    some vals ∈ fullLoop key fuel [s] → ∃ a, vals = [some a]
  | 0, _, _, h => by simp [fullLoop] at h
  | fuel + 1, s, vals, h => by
    simp only [fullLoop] at h
    cases hr : refillFull [s] with
    | none => simp [hr] at h
    | some st1 =>
      have hlen : st1.length = 1 := by
        have := congrArg length (refillFull_some hr).1
        simpa using this
      match st1, hlen with
      | [s1], _ =>
        simp only [hr] at h
        cases hb : s1.1 with
        | none => simp [hb] at h
        | some hd =>
          simp only [filterMap_cons, hb, filterMap_nil, minKey, map_cons, map_nil] at h
          rcases mem_cons.mp h with h | h
          · simp only [Option.some.injEq] at h; subst h
            exact ⟨hd, by simp [matchBuf, hb]⟩
          · exact fullLoop_single key fuel _ vals h

theorem pairwise_tail {b : Int} {l : List Int} (h : (b :: l).Pairwise (· < ·)) : l.Pairwise (· < ·) :=
  (pairwise_cons.mp h).2

/-- join_datasource.go: the joined result is sound when every source result is -/
theorem join_sound {jt : JoinType} {results : List (RResult D)} {metas : List FieldMeta}
    (hall : ∀ r ∈ results, RSound r)
    (hm : joinMetas jt results.length 0 (results.map (·.1)) [] = .ok metas) :
    RSound (metas, joinStreams jt results) := by
  obtain ⟨rfl, hnd, _⟩ := joinMetas_ok jt results.length 0 _ [] metas hm
  have hvalid := relaxB_valid (flagsFrom jt results.length 0 (results.map (·.1)).length) (results.map (·.1))
    (by
      intro l hl m hm'
      simp only [mem_map] at hl
      obtain ⟨r, hr, rfl⟩ := hl
      exact (hall r hr).valid m hm')
  have hQ := allQ_sources results hall
  have hS := srt_sources results hall
  have hflen : (flagsFrom jt results.length 0 (results.map (·.1)).length).length = results.length := by
    simp [flagsFrom_length]
  refine ⟨hnd, hvalid, ?_, ?_⟩
  · -- rows conform
    intro row hrow
    cases jt with
    | inner =>
      simp only [joinStreams, okRows_map_map, mem_map] at hrow
      obtain ⟨tup, htup, rfl⟩ := hrow
      simp only [innerJoin] at htup
      split at htup
      · simp [okRows] at htup
      · cases hi : initSrcs (results.map (·.2)) with
        | none => simp [hi, okRows] at htup
        | some st =>
          simp only [hi] at htup
          have hsub := innerLoop_from _ _ st tup (mem_okRows.mp htup)
          rw [initSrcs_elems hi] at hsub
          have hq := AllQ.mono hsub hQ
          have hl : tup.length = results.length := by
            have := hsub.length_eq; simpa using this
          have hp := PadOk_of_all_some (nbs := flagsFrom .inner results.length 0 (results.map (·.1)).length) hq
            (by rw [hflen, hl])
          have := hp.conforms
          rwa [zip_some_padVals _ _ (by simp [hl])] at this
    | left =>
      simp only [joinStreams, okRows_map_map, mem_map] at hrow
      obtain ⟨e, he, rfl⟩ := hrow
      simp only [leftJoin] at he
      split at he
      · simp [okRows] at he
      · cases hi : initSrcs (results.map (·.2)) with
        | none => simp [hi, okRows] at he
        | some st =>
          simp only [hi] at he
          have hel := initSrcs_elems hi
          match results, st, hel, hQ, hflen, he with
          | [], st, hel, _, _, he =>
            have : st = [] := by simpa using hel
            subst this
            simp [leftLoop, okRows] at he
          | r0 :: rest, [], hel, _, _, _ => simp at hel
          | r0 :: rest, s0 :: others, hel, hQ, hflen, he =>
            simp only [map_cons, cons.injEq] at hel
            obtain ⟨h0, hothers⟩ := leftLoop_from _ _ s0 others e (mem_okRows.mp he)
            rw [hel.1] at h0
            rw [hel.2] at hothers
            simp only [map_cons, confQs, AllQ] at hQ
            have hq := AllQ.mono hothers hQ.2
            have hl : e.2.length = rest.length := by
              have := hothers.length_eq; simpa using this
            have hp : PadOk (flagsFrom .left (r0 :: rest).length 0 ((r0 :: rest).map (·.1)).length)
                ((r0 :: rest).map (·.1)) (some e.1 :: e.2) := by
              simp only [map_cons, length_cons, flagsFrom, PadOk]
              refine ⟨hQ.1 e.1 h0, PadOk_of_all_true hq ?_ ?_⟩
              · exact flagsFrom_left_true _ 1 _ (by omega)
              · simp [flagsFrom_length, hl]
            have := hp.conforms
            simpa [padVals, Function.comp_def] using this
    | full =>
      simp only [joinStreams, okRows_map_map, mem_map] at hrow
      obtain ⟨vals, hv, rfl⟩ := hrow
      simp only [fullJoin] at hv
      split at hv
      · simp [okRows] at hv
      · cases hi : initSrcs (results.map (·.2)) with
        | none => simp [hi, okRows] at hv
        | some st =>
          simp only [hi] at hv
          have hel := initSrcs_elems hi
          have hsub := fullLoop_from _ _ st vals (mem_okRows.mp hv)
          rw [hel] at hsub
          have hq := AllQ.mono hsub hQ
          have hl : vals.length = results.length := by
            have := hsub.length_eq; simpa using this
          by_cases hn : results.length > 1
          · have hp := PadOk_of_all_true (nbs := flagsFrom .full results.length 0 (results.map (·.1)).length) hq
              (flagsFrom_full_true _ hn _ _) (by rw [hflen, hl])
            simpa [Function.comp_def] using hp.conforms
          · -- at most one source: no padding happens
            match results, st, hel, hq, hl, hv, hn with
            | [], _, _, _, hl, _, _ =>
              have : vals = [] := by simpa using hl
              subst this; trivial
            | [r0], [s0], _, hq, _, hv, _ =>
              obtain ⟨a, rfl⟩ := fullLoop_single _ _ s0 vals (mem_okRows.mp hv)
              simp only [map_cons, map_nil, confQs, AllQ, Option.toList_some, mem_cons, not_mem_nil, or_false,
                forall_eq, and_true] at hq
              have hp : PadOk (flagsFrom .full [r0].length 0 ([r0].map (·.1)).length) ([r0].map (·.1)) [some a] := by
                simp only [map_cons, map_nil, length_cons, length_nil, flagsFrom, PadOk, and_true]
                exact hq
              simpa [Function.comp_def] using hp.conforms
            | [r0], [], hel, _, _, _, _ => simp at hel
            | [r0], _ :: _ :: _, hel, _, _, _, _ => simp at hel
            | _ :: _ :: _, _, _, _, _, _, hn => simp at hn
  · -- timestamps strictly increasing
    cases jt with
    | inner =>
      simp only [joinStreams, okRows_map_map, map_map]
      simp only [innerJoin]
      split
      · simp [okRows]
      · cases hi : initSrcs (results.map (·.2)) with
        | none => simp [okRows]
        | some st =>
          simp only
          have hel := initSrcs_elems hi
          have := innerLoop_incr (fun r : Row D => r.ts) (2 * totalLen (results.map (·.2)) + 2) st
            (lowKey (fun r : Row D => r.ts) (st.map elems)) (hel ▸ hS) (lowKey_LB _ _).1
          exact pairwise_tail this
    | left =>
      simp only [joinStreams, okRows_map_map, map_map]
      simp only [leftJoin]
      split
      · simp [okRows]
      · cases hi : initSrcs (results.map (·.2)) with
        | none => simp [okRows]
        | some st =>
          simp only
          have hel := initSrcs_elems hi
          match st, hel with
          | [], _ => simp [leftLoop, okRows]
          | s0 :: others, hel =>
            have hs0 : ((elems s0).map fun r : Row D => r.ts).Pairwise (· < ·) := by
              have := hS (elems s0) (by rw [← hel]; simp)
              exact this
            have hb := (lowKey_LB (fun r : Row D => r.ts) [elems s0]).1
            have := leftLoop_incr (fun r : Row D => r.ts) (totalLen (results.map (·.2)) + 2) s0 others
              (lowKey (fun r : Row D => r.ts) [elems s0])
              (pairwise_cons.mpr ⟨by
                intro x hx
                simp only [mem_map] at hx
                obtain ⟨a, ha, rfl⟩ := hx
                exact hb _ (by simp) a ha, hs0⟩)
            exact pairwise_tail this
    | full =>
      simp only [joinStreams, okRows_map_map, map_map]
      simp only [fullJoin]
      split
      · simp [okRows]
      · cases hi : initSrcs (results.map (·.2)) with
        | none => simp [okRows]
        | some st =>
          simp only
          have hel := initSrcs_elems hi
          have := fullLoop_incr (fun r : Row D => r.ts) (totalLen (results.map (·.2)) + 2) st
            (lowKey (fun r : Row D => r.ts) (st.map elems)) (hel ▸ hS) (lowKey_LB _ _).1
          exact pairwise_tail this

end ShpanVerif.Proofs.Query
