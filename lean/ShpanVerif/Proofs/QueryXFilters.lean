/-
C10 helper lemmas for the stream filters of tsquery (Model/QueryExec.lean, section `xfilters`):
aligner (both packages, with and without fill mode), delta and rate filter.
* the gap filler preserves a record invariant and emits strictly increasing timestamps (`gapFillStream_sound`);
* `timeWeightedAverageArr` yields conforming rows; the report aligner is sound (`alignRF_sound`);
* the memo mapper of delta / rate is sound (`memoStream_sound`), hence `deltaF_sound`, `rateF_sound`, `alignDF_sound`;
* `applyRXF_sound`, `applyDXF_sound`;
* `execR_chainR`, `execD_chainD`: the tree built for a mixed filter list executes the filters one after the other.
-/
import ShpanVerif.Proofs.QueryReduce

namespace ShpanVerif.Proofs.Query
open ShpanVerif.Model.Query List

variable {D : Type} (O : Ops D)

/-! ## the gap filler -/

theorem periodEnd_gt {p : Int} (hp : 0 < p) (e : Int) : e < periodStart p e + p := by
  simp only [periodStart]
  have := Int.emod_lt_of_pos e hp
  omega

section gapfill
variable {α β : Type} (ts : α → Int) (val : α → β) (mk : Int → β → α) {P : α → Prop}

theorem fillAdvance_spec (e : Int) : ∀ (prev next : Option α) (src : List (Option α))
    {prev' next' : Option α} {src' : List (Option α)},
    fillAdvance ts e prev next src = some (prev', next', src') →
    (∀ r, prev = some r → P r) → (∀ r, next = some r → P r) → (∀ r ∈ okRows src, P r) →
    (∀ r, prev' = some r → P r) ∧ (∀ r, next' = some r → P r) ∧ (∀ r ∈ okRows src', P r)
  | prev, none, src, prev', next', src', h, hp, hn, hs => by
    simp only [fillAdvance, Option.some.injEq, Prod.mk.injEq] at h
    obtain ⟨rfl, rfl, rfl⟩ := h
    exact ⟨hp, hn, hs⟩
  | prev, some n, [], prev', next', src', h, hp, hn, hs => by
    simp only [fillAdvance] at h
    split at h
    · simp only [Option.some.injEq, Prod.mk.injEq] at h
      obtain ⟨rfl, rfl, rfl⟩ := h
      exact ⟨hn, by simp, hs⟩
    · simp only [Option.some.injEq, Prod.mk.injEq] at h
      obtain ⟨rfl, rfl, rfl⟩ := h
      exact ⟨hp, hn, hs⟩
  | prev, some n, none :: t, prev', next', src', h, hp, hn, hs => by
    simp only [fillAdvance] at h
    split at h
    · simp at h
    · simp only [Option.some.injEq, Prod.mk.injEq] at h
      obtain ⟨rfl, rfl, rfl⟩ := h
      exact ⟨hp, hn, hs⟩
  | prev, some n, some x :: t, prev', next', src', h, hp, hn, hs => by
    simp only [fillAdvance] at h
    split at h
    · refine fillAdvance_spec e (some n) (some x) t h hn ?_ ?_
      · intro r hr
        simp only [Option.some.injEq] at hr; subst hr
        exact hs _ (by simp [okRows])
      · intro r hr
        exact hs r (by simp only [okRows, filterMap_cons, id_eq, mem_cons]; exact Or.inr hr)
    · simp only [Option.some.injEq, Prod.mk.injEq] at h
      obtain ⟨rfl, rfl, rfl⟩ := h
      exact ⟨hp, hn, hs⟩

theorem fillLoop_sound {E : Int → Int} (hE : ∀ t, t < E t) {mode : FillMode} {interp : Int → Int → β → Int → β → Option β}
    (hts : ∀ t v, ts (mk t v) = t)
    (hcopy : ∀ t a, P a → P (mk t (val a)))
    (hinterp : ∀ e a b v, P a → P b → interp e (ts a) (val a) (ts b) (val b) = some v → P (mk e v)) :
    ∀ (fuel : Nat) (prev next : Option α) (e : Int) (src : List (Option α)) (b : Int),
    (∀ r, prev = some r → P r) → (∀ r, next = some r → P r) → (∀ r ∈ okRows src, P r) → b < e →
    (∀ r ∈ okRows (fillLoop ts val mk E mode interp fuel prev next e src), P r) ∧
      (b :: (okRows (fillLoop ts val mk E mode interp fuel prev next e src)).map ts).Pairwise (· < ·)
  | 0, _, _, _, _, _, _, _, _, _ => by simp [fillLoop, okRows]
  | fuel + 1, prev, next, e, src, b, hpv, hnx, hsrc, hb => by
    simp only [fillLoop]
    cases hadv : fillAdvance ts e prev next src with
    | none => simp [okRows]
    | some tr =>
      obtain ⟨prev', next', src'⟩ := tr
      obtain ⟨hp', hn', hs'⟩ := fillAdvance_spec ts (P := P) e prev next src hadv hpv hnx hsrc
      have he' : e < E e := hE e
      have ih := fillLoop_sound hE (mode := mode) hts hcopy hinterp fuel prev' next' (E e) src' e hp' hn' hs' he'
      -- one emitted record stamped `e`, followed by the rest of the loop
      have emit : ∀ (x : α), P x → ts x = e →
          (∀ r ∈ okRows (some x :: fillLoop ts val mk E mode interp fuel prev' next' (E e) src'), P r) ∧
          (b :: (okRows (some x :: fillLoop ts val mk E mode interp fuel prev' next' (E e) src')).map
            ts).Pairwise (· < ·) := by
        intro x hx hxe
        simp only [okRows, filterMap_cons, id_eq, mem_cons, forall_eq_or_imp, map_cons]
        refine ⟨⟨hx, ih.1⟩, ?_⟩
        rw [hxe]
        exact pairwise_cons_lt hb ih.2
      have single : ∀ (x : α), P x → ts x = e →
          (∀ r ∈ okRows [some x], P r) ∧ (b :: (okRows [some x]).map ts).Pairwise (· < ·) := by
        intro x hx hxe
        simp [okRows, hx, hxe, hb]
      simp only
      cases prev' with
      | none => simp [okRows]
      | some pp =>
        have hpp : P pp := hp' pp rfl
        simp only
        split
        · -- exact match
          cases next' with
          | none => exact single _ (hcopy e pp hpp) (hts _ _)
          | some n => exact emit _ (hcopy e pp hpp) (hts _ _)
        · cases next' with
          | none => simp [okRows]
          | some n =>
            have hn : P n := hn' n rfl
            simp only
            cases mode with
            | linear =>
              simp only
              cases hi : interp e (ts pp) (val pp) (ts n) (val n) with
              | none => simp [okRows]
              | some v => exact emit _ (hinterp e pp n v hpp hn hi) (hts _ _)
            | forwardFill => exact emit _ (hcopy e pp hpp) (hts _ _)
            | other => simp [okRows]

/-- `NewTsGapFillerStream` preserves the record invariant and emits strictly increasing timestamps — for EVERY period
whose `GetEndTime` (`E`) lies after its argument (`t < E t`; nothing else is needed of the period, and nothing of the
step budget `steps`) -/
theorem gapFillStream_sound {E : Int → Int} (hE : ∀ t, t < E t) {steps : Int → Nat} {mode : FillMode} {interp : Int → Int → β → Int → β → Option β}
    (hts : ∀ t v, ts (mk t v) = t)
    (hcopy : ∀ t a, P a → P (mk t (val a)))
    (hinterp : ∀ e a b v, P a → P b → interp e (ts a) (val a) (ts b) (val b) = some v → P (mk e v))
    {s : List (Option α)} (hrows : ∀ r ∈ okRows s, P r) :
    (∀ r ∈ okRows (gapFillStream ts val mk E steps mode interp s), P r) ∧
      ((okRows (gapFillStream ts val mk E steps mode interp s)).map ts).Pairwise (· < ·) := by
  cases s with
  | nil => simp [gapFillStream, okRows]
  | cons e t =>
    cases e with
    | none => simp [gapFillStream, okRows]
    | some first =>
      simp only [gapFillStream]
      have := fillLoop_sound ts val mk (P := P) hE (mode := mode) hts hcopy hinterp
        (steps (maxTs ts t (ts first) - ts first) + (some first :: t).length + 3) none (some first) (ts first) t
        (ts first - 1) (by simp)
        (by intro r hr; simp only [Option.some.injEq] at hr; subst hr; exact hrows _ (by simp [okRows]))
        (by intro r hr; exact hrows r (by simp only [okRows, filterMap_cons, id_eq, mem_cons]; exact Or.inr hr))
        (by omega)
      exact ⟨this.1, pairwise_tail this.2⟩

end gapfill

/-! ## the datasource aligner filter -/

theorem fillStream_sound {m : FieldMeta} {s : DStream D} {p : PeriodK} (hp : p.ok) (fill : Option FillMode)
    (hs : DSound (m, s)) : DSound (m, fillStream O m.dt p fill s) := by
  cases fill with
  | none => exact hs
  | some mode =>
    have := gapFillStream_sound (fun r : DRec D => r.ts) (fun r => r.val) (fun t v => ({ ts := t, val := v } : DRec D))
      (P := fun r => tagOk m.dt m.required r.val) (PeriodK.ok_laws hp).lt (steps := p.steps) (mode := mode)
      (interp := timeWeightedAverage O m.dt)
      (fun _ _ => rfl) (fun _ _ h => h)
      (fun e a b v ha _ h => timeWeightedAverage_tag O h ha) hs.rows
    exact ⟨hs.valid, this.1, this.2⟩

/-- `datasource.AlignerFilter.Filter` (aligner_filter.go), with or without fill mode -/
theorem alignDF_sound {p : PeriodK} {fill : Option FillMode} {res res' : DResult D} (hp : p.ok) (hs : DSound res)
    (h : alignDF O p fill res = .ok res') : DSound res' := by
  obtain ⟨m, s⟩ := res
  simp only [alignDF] at h
  split at h
  · simp at h
  · simp only [Except.ok.injEq] at h; subst h
    exact fillStream_sound O hp fill (alignStream_sound O hp hs)

/-! ## the report aligner filter -/

theorem twaCells_conforms (w : D) : ∀ {fms : List FieldMeta} {v1 v2 out : List (Val D)},
    Conforms fms v1 → twaCells O w (fms.map (·.dt)) v1 v2 = some out → Conforms fms out
  | [], [], _, out, _, h => by
    simp only [map_nil, twaCells, Option.some.injEq] at h; subst h; trivial
  | m :: ms, a :: as, [], out, _, h => by simp [twaCells] at h
  | m :: ms, a :: as, b :: bs, out, hc, h => by
    simp only [map_cons, twaCells] at h
    split at h
    · rename_i f1 f2 _ _
      simp only [Option.bind_eq_some_iff, Option.map_eq_some_iff] at h
      obtain ⟨x, hx, rest, hrest, rfl⟩ := h
      exact ⟨tagOk_weaken (fromFloat64_tag O hx), twaCells_conforms w hc.2 hrest⟩
    · simp at h
  | [], _ :: _, _, _, hc, _ => by simp [Conforms] at hc
  | _ :: _, [], _, _, hc, _ => by simp [Conforms] at hc

theorem timeWeightedAverageArr_conforms {fms : List FieldMeta} {target t1 t2 : Int} {v1 v2 out : List (Val D)}
    (hc : Conforms fms v1) (h : timeWeightedAverageArr O (fms.map (·.dt)) target t1 v1 t2 v2 = some out) :
    Conforms fms out := by
  simp only [timeWeightedAverageArr] at h
  split at h
  · split at h
    · simp only [Option.some.injEq] at h; subst h; exact hc
    · simp at h
  · split at h
    · simp at h
    · exact twaCells_conforms O _ hc h

theorem alignRowValue_conforms {fms : List FieldMeta} {start : Int} {prev : Option (Row D)} {first out : Row D}
    (h : alignRowValue O (fms.map (·.dt)) start prev first = some out) (hf : Conforms fms first.vals)
    (hp : ∀ r, prev = some r → Conforms fms r.vals) : out.ts = start ∧ Conforms fms out.vals := by
  cases prev with
  | none => simp only [alignRowValue, Option.some.injEq] at h; subst h; exact ⟨rfl, hf⟩
  | some pr =>
    simp only [alignRowValue] at h
    split at h
    · simp only [Option.some.injEq] at h; subst h; exact ⟨rfl, hf⟩
    · simp only [Option.map_eq_some_iff] at h
      obtain ⟨v, hv, rfl⟩ := h
      exact ⟨rfl, timeWeightedAverageArr_conforms O (hp pr rfl) hv⟩

/-- `report.AlignerFilter.Filter` (aligner_report_filter.go), with or without fill mode -/
theorem alignRF_sound {p : PeriodK} {fill : Option FillMode} {res res' : RResult D} (hp : p.ok) (hs : RSound res)
    (h : alignRF O p fill res = .ok res') : RSound res' := by
  obtain ⟨fms, s⟩ := res
  simp only [alignRF] at h
  split at h
  · simp at h
  · simp only [Except.ok.injEq] at h; subst h
    have hal := alignStreamG_sound (fun r : Row D => r.ts) (P := fun r => Conforms fms r.vals) (PeriodK.ok_laws hp).mono
      (mk := alignRowValue O (fms.map (·.dt)))
      (fun start prev first out h hf hpv => alignRowValue_conforms O h hf hpv) hs.rows hs.incr
    cases fill with
    | none => exact ⟨hs.nodup, hs.valid, hal.1, hal.2⟩
    | some mode =>
      have := gapFillStream_sound (fun r : Row D => r.ts) (fun r => r.vals)
        (fun t v => ({ ts := t, vals := v } : Row D)) (P := fun r => Conforms fms r.vals) (PeriodK.ok_laws hp).lt
        (steps := p.steps) (mode := mode)
        (interp := timeWeightedAverageArr O (fms.map (·.dt))) (fun _ _ => rfl) (fun _ _ h => h)
        (fun e a b v ha _ h => timeWeightedAverageArr_conforms O ha h) hal.1
      exact ⟨hs.nodup, hs.valid, this.1, this.2⟩

/-- the report aligner demands that every field is numeric -/
theorem alignRF_ok_numeric {p : PeriodK} {fill : Option FillMode} {res res' : RResult D}
    (h : alignRF O p fill res = .ok res') : res'.1 = res.1 ∧ ∀ m ∈ res.1, m.dt.isNumeric = true := by
  simp only [alignRF] at h
  split at h
  · simp at h
  · rename_i hany
    simp only [Except.ok.injEq] at h; subst h
    refine ⟨rfl, fun m hm => ?_⟩
    cases hn : m.dt.isNumeric with
    | true => rfl
    | false =>
      exfalso
      apply hany
      simp only [any_eq_true]
      exact ⟨m, hm, by simp [hn]⟩

/-! ## delta and rate -/

/-- the memo mapper: outputs satisfy `P`, carry the timestamp of the item they were computed from (hence increasing) -/
theorem memoStream_spec {Q P : DRec D → Prop} {step : DRec D → DRec D → Option (Option (DRec D) × DRec D)}
    (hstep : ∀ pr x out pr', Q pr → Q x → step pr x = some (out, pr') →
      Q pr' ∧ ∀ o, out = some o → P o ∧ o.ts = x.ts) :
    ∀ (prev : Option (DRec D)) (s : DStream D), (∀ r, prev = some r → Q r) → (∀ r ∈ okRows s, Q r) →
    (∀ r ∈ okRows (memoStream step prev s), P r) ∧
      ((okRows (memoStream step prev s)).map (·.ts)) <+ ((okRows s).map (·.ts))
  | _, [], _, _ => by simp [memoStream, okRows]
  | prev, none :: t, hp, hs => by
    have ih := memoStream_spec hstep prev t hp (fun r hr => hs r (by simpa [okRows] using hr))
    simpa [memoStream, okRows] using ih
  | none, some x :: t, _, hs => by
    have ih := memoStream_spec hstep (some x) t
      (by intro r hr; simp only [Option.some.injEq] at hr; subst hr; exact hs _ (by simp [okRows]))
      (fun r hr => hs r (by simp only [okRows, filterMap_cons, id_eq, mem_cons]; exact Or.inr hr))
    simp only [memoStream, okRows, filterMap_cons, id_eq, map_cons]
    exact ⟨ih.1, ih.2.cons _⟩
  | some pr, some x :: t, hp, hs => by
    have hx : Q x := hs _ (by simp [okRows])
    have hpr : Q pr := hp pr rfl
    have hst : ∀ r ∈ okRows t, Q r := fun r hr =>
      hs r (by simp only [okRows, filterMap_cons, id_eq, mem_cons]; exact Or.inr hr)
    simp only [memoStream]
    cases hstp : step pr x with
    | none =>
      have ih := memoStream_spec hstep (some pr) t hp hst
      simp only [okRows, filterMap_cons, id_eq, map_cons]
      exact ⟨ih.1, ih.2.cons _⟩
    | some q =>
      obtain ⟨out, pr'⟩ := q
      obtain ⟨hq', hout⟩ := hstep pr x out pr' hpr hx hstp
      have ih := memoStream_spec hstep (some pr') t
        (by intro r hr; simp only [Option.some.injEq] at hr; subst hr; exact hq') hst
      cases out with
      | none =>
        simp only [okRows, filterMap_cons, id_eq, map_cons]
        exact ⟨ih.1, ih.2.cons _⟩
      | some o =>
        obtain ⟨ho, hts⟩ := hout o rfl
        simp only [okRows, filterMap_cons, id_eq, map_cons, mem_cons, forall_eq_or_imp]
        refine ⟨⟨ho, ih.1⟩, ?_⟩
        rw [hts]
        exact ih.2.cons_cons _

theorem binFunc_sub_numeric {dt : DataType} (h : dt.isNumeric = true) : ∃ f, binFunc O .sub dt = some f := by
  cases dt <;> simp_all [DataType.isNumeric, binFunc, binInt, binDec]

/-- `DeltaFilter.Filter` (delta_filter.go): same metadata, every emitted value has the declared numeric type -/
theorem deltaF_sound {nn : Bool} {maxC : D} {res res' : DResult D} (hs : DSound res)
    (h : deltaF O nn maxC res = .ok res') : DSound res' := by
  obtain ⟨m, s⟩ := res
  simp only [deltaF] at h
  split at h
  · simp at h
  · split at h
    · simp at h
    · rename_i hreq
      simp only [Bool.not_eq_true] at hreq
      split at h
      · simp at h
      · rename_i sub hsub
        simp only [Except.ok.injEq] at h; subst h
        have := memoStream_spec (Q := fun r : DRec D => tagOk m.dt m.required r.val)
          (P := fun r : DRec D => tagOk m.dt m.required r.val) (step := deltaStep O m.dt sub nn maxC)
          (by
            intro pr x out pr' hpr hx hst
            simp only [deltaStep] at hst
            -- every emitting branch yields a non-nil value of type m.dt stamped x.ts and stores x
            have emitSub : ∀ {q : Option (Option (DRec D) × DRec D)},
                q = (sub x.val pr.val).map (fun d => (some ({ ts := x.ts, val := d } : DRec D), x)) →
                q = some (out, pr') →
                tagOk m.dt m.required pr'.val ∧ ∀ o, out = some o → tagOk m.dt m.required o.val ∧ o.ts = x.ts := by
              intro q hq hq'
              rw [hq] at hq'
              simp only [Option.map_eq_some_iff, Prod.mk.injEq] at hq'
              obtain ⟨d, hd, rfl, rfl⟩ := hq'
              refine ⟨hx, fun o ho => ?_⟩
              simp only [Option.some.injEq] at ho; subst ho
              exact ⟨tagOk_weaken (binFunc_tag O hsub hd), rfl⟩
            split at hst
            · split at hst
              · simp at hst
              · split at hst
                · simp at hst
                · split at hst
                  · simp only [Option.some.injEq, Prod.mk.injEq] at hst
                    obtain ⟨rfl, rfl⟩ := hst
                    exact ⟨hpr, fun o ho => by simp at ho⟩
                  · split at hst
                    · simp only [Option.map_eq_some_iff, Prod.mk.injEq] at hst
                      obtain ⟨c, hc, rfl, rfl⟩ := hst
                      refine ⟨hx, fun o ho => ?_⟩
                      simp only [Option.some.injEq] at ho; subst ho
                      exact ⟨tagOk_weaken (fromFloat64_tag O hc), rfl⟩
                    · exact emitSub rfl hst
            · exact emitSub rfl hst)
          none s (by simp) hs.rows
        exact ⟨hs.valid, this.1, hs.incr.sublist this.2⟩

/-- `RateFilter.Filter` (rate_filter.go): a required decimal field, every emitted value is a float64 -/
theorem rateF_sound {unit : String} {ps : Int} {nn : Bool} {maxC : D} {res res' : DResult D} (hs : DSound res)
    (h : rateF O unit ps nn maxC res = .ok res') : DSound res' := by
  obtain ⟨m, s⟩ := res
  simp only [rateF] at h
  split at h
  · simp at h
  · split at h
    · simp at h
    · split at h
      · simp at h
      · rename_i fm hfm
        simp only [Except.ok.injEq] at h; subst h
        obtain ⟨rfl, hne, hv⟩ := newFieldMeta_ok hfm
        have := memoStream_spec (Q := fun _ : DRec D => True)
          (P := fun r : DRec D => tagOk .decimal true r.val)
          (step := rateStep O m.dt (if ps ≤ 0 then 1 else ps) nn maxC)
          (by
            intro pr x out pr' _ _ hst
            refine ⟨trivial, fun o ho => ?_⟩
            subst ho
            simp only [rateStep] at hst
            repeat' split at hst
            all_goals first
              | (simp at hst; done)
              | (simp only [Option.some.injEq, Prod.mk.injEq] at hst
                 obtain ⟨rfl, _⟩ := hst
                 exact ⟨rfl, rfl⟩))
          none s (by simp) (fun _ _ => trivial)
        exact ⟨⟨hne, hv⟩, this.1, hs.incr.sublist this.2⟩

/-- what an accepted rate filter declares: same urn and custom metadata, decimal, required, the override unit -/
theorem rateF_ok_meta {unit : String} {ps : Int} {nn : Bool} {maxC : D} {res res' : DResult D}
    (h : rateF O unit ps nn maxC res = .ok res') :
    res'.1 = { urn := res.1.urn, dt := .decimal, unit := unit, required := true, custom := res.1.custom } ∧
      res.1.dt.isNumeric = true ∧ res.1.required = true := by
  simp only [rateF] at h
  split at h
  · simp at h
  · rename_i hnum
    split at h
    · simp at h
    · rename_i hreq
      split at h
      · simp at h
      · rename_i fm hfm
        simp only [Except.ok.injEq] at h; subst h
        exact ⟨(newFieldMeta_ok hfm).1, by simpa using hnum, by simpa using hreq⟩

/-- what an accepted delta filter declares: the metadata is unchanged; the field was numeric and required -/
theorem deltaF_ok_meta {nn : Bool} {maxC : D} {res res' : DResult D} (h : deltaF O nn maxC res = .ok res') :
    res'.1 = res.1 ∧ res.1.dt.isNumeric = true ∧ res.1.required = true := by
  simp only [deltaF] at h
  split at h
  · simp at h
  · rename_i hnum
    split at h
    · simp at h
    · rename_i hreq
      split at h
      · simp at h
      · simp only [Except.ok.injEq] at h; subst h
        exact ⟨rfl, by simpa using hnum, by simpa using hreq⟩

/-! ## every stream filter -/

theorem applyRXF_sound {f : RXFilter} {res res' : RResult D} (hok : f.periodOk) (hs : RSound res)
    (h : applyRXF O f res = .ok res') : RSound res' := by
  cases f with
  | align p fill => exact alignRF_sound O hok hs h

theorem applyDXF_sound {f : DXFilter D} {res res' : DResult D} (hok : f.periodOk) (hs : DSound res)
    (h : applyDXF O f res = .ok res') : DSound res' := by
  cases f with
  | align p fill => exact alignDF_sound O hok hs h
  | delta nn maxC => exact deltaF_sound O hs h
  | rate unit ps nn maxC => exact rateF_sound O hs h

/-! ## `NewFilteredDataSource(ds, f1, …, fn)` for a mixed filter list = the filters applied one after the other -/

theorem execR_chainR (fix : Bool) (from_ to : Int) : ∀ (stages : List (RStage D)) (ds : RDs D),
    execR O fix from_ to (chainR ds stages) = execR O fix from_ to ds >>= applyRStages O fix stages
  | [], ds => by
    simp only [chainR, applyRStages, bind, Except.bind]
    cases execR O fix from_ to ds <;> rfl
  | .plain f :: r, ds => by
    rw [chainR, execR_chainR fix from_ to r]
    simp only [execR, applyRStages, applyRStage, applyRFs, bind, Except.bind]
    cases execR O fix from_ to ds with
    | error e => rfl
    | ok res =>
      simp only
      cases applyRF O fix f res <;> rfl
  | .x f :: r, ds => by
    rw [chainR, execR_chainR fix from_ to r]
    simp only [execR, applyRStages, applyRStage, bind, Except.bind]
    cases execR O fix from_ to ds with
    | error e => rfl
    | ok res => rfl

theorem execD_chainD (fix : Bool) (from_ to : Int) : ∀ (stages : List (DStage D)) (ds : DDs D),
    execD O fix from_ to (chainD ds stages) = execD O fix from_ to ds >>= applyDStages O stages
  | [], ds => by
    simp only [chainD, applyDStages, bind, Except.bind]
    cases execD O fix from_ to ds <;> rfl
  | .plain f :: r, ds => by
    rw [chainD, execD_chainD fix from_ to r]
    simp only [execD, applyDStages, applyDStage, applyDFs, bind, Except.bind]
    cases execD O fix from_ to ds with
    | error e => rfl
    | ok res =>
      simp only
      cases applyDF O f res <;> rfl
  | .x f :: r, ds => by
    rw [chainD, execD_chainD fix from_ to r]
    simp only [execD, applyDStages, applyDStage, bind, Except.bind]
    cases execD O fix from_ to ds with
    | error e => rfl
    | ok res => rfl

/-- a list of row-wise filters only: the chain is the ordinary filtered datasource -/
theorem execR_chainR_plain (fix : Bool) (from_ to : Int) (fs : List (RFilter D)) (ds : RDs D) :
    execR O fix from_ to (chainR ds (fs.map .plain)) = execR O fix from_ to (.filtered ds fs) := by
  rw [execR_chainR]
  simp only [execR, bind, Except.bind]
  cases execR O fix from_ to ds with
  | error e => rfl
  | ok res =>
    simp only
    induction fs generalizing res with
    | nil => rfl
    | cons f fs ih =>
      simp only [map_cons, applyRStages, applyRStage, applyRFs, bind, Except.bind]
      cases applyRF O fix f res with
      | error e => rfl
      | ok r1 => exact ih r1

theorem execD_chainD_plain (fix : Bool) (from_ to : Int) (fs : List (DFilter D)) (ds : DDs D) :
    execD O fix from_ to (chainD ds (fs.map .plain)) = execD O fix from_ to (.filtered ds fs) := by
  rw [execD_chainD]
  simp only [execD, bind, Except.bind]
  cases execD O fix from_ to ds with
  | error e => rfl
  | ok res =>
    simp only
    induction fs generalizing res with
    | nil => rfl
    | cons f fs ih =>
      simp only [map_cons, applyDStages, applyDStage, applyDFs, bind, Except.bind]
      cases applyDF O f res with
      | error e => rfl
      | ok r1 => exact ih r1

end ShpanVerif.Proofs.Query
