/-
The buffer invariant of the reverse scanner (C20) and the refinement of `Scan` / the Emit loop to `revSpec`.

`LI f M D s P w`: the scanner state `s` over the file `f` represents "`P` = the prefix of the file not read
yet (`rOffset = |P|`), `w` = the pending bytes `buf[start:stop)`", with room for the next read
(`start ≤ |P|`).  `P ++ w` is the part of the file that has not been turned into tokens yet.
-/
import ShpanVerif.Proofs.FileScanLemmas


set_option autoImplicit false
namespace ShpanVerif.Proofs.FileScan
open List ShpanVerif.Model.FileScan

/-- Every stretch of `g` without '\n' is (with one more byte) shorter than half the maximal token size. -/
def ShortRuns (M : Nat) (g : Bytes) : Prop :=
  ∀ x r y, g = x ++ r ++ y → NL ∉ r → r.length + 1 < M / 2

theorem ShortRuns.of_prefix {M : Nat} {g a c : Bytes} (h : ShortRuns M g) (e : g = a ++ c) : ShortRuns M a := by
  intro x r y hxy hr
  exact h x r (y ++ c) (by rw [e, hxy]; simp) hr

structure LI (f : Bytes) (M D : Nat) (s : RS) (P w : Bytes) : Prop where
  mt : s.maxTokenSize = M
  db : s.defBuf = D
  nt : s.trimAll = false        -- the code as it is (token function `trimLine`)
  notDone : s.done = false
  noErr : s.err = none
  pre : ∃ rest, f = P ++ rest
  roff : s.rOffset = P.length
  le1 : s.start ≤ s.stop
  le2 : s.stop ≤ s.bufSize
  buflen : s.buf.length = s.bufSize ∨ (s.buf = [] ∧ s.start = s.stop ∧ 0 < s.start)
  data : (s.buf.drop s.start).take (s.stop - s.start) = w
  room : s.start ≤ P.length
  bpos : P ≠ [] → 0 < s.bufSize

theorem LI.wlen {f M D s P w} (h : LI f M D s P w) : w.length = s.stop - s.start := by
  rw [← h.data, length_take, length_drop]
  rcases h.buflen with hb | ⟨_, he, _⟩
  · have := h.le2; omega
  · omega

/-- the buffer `fill` writes into: allocated on first use -/
def buf0 (s : RS) : Bytes := if (s.buf.length == 0) = true then replicate s.bufSize 0 else s.buf

/-- The read (`fill`): the last `start` bytes of `P` are put in front of the pending data. -/
theorem fill_spec {f M D s P w} (h : LI f M D s P w) :
    LI f M D (fill f s) (P.take (P.length - s.start)) (P.drop (P.length - s.start) ++ w) ∧
    (fill f s).start = 0 ∧ (fill f s).buf.length = (fill f s).bufSize ∧
    (fill f s).bufSize = s.bufSize ∧ (fill f s).stop = s.stop := by
  by_cases hs : s.start > 0
  · obtain ⟨rest, hf⟩ := h.pre
    have hroom := h.room
    have hroff := h.roff
    have hoff : s.rOffset - s.start + s.start ≤ f.length := by rw [hf, hroff]; simp; omega
    have hread : (f.drop (s.rOffset - s.start)).take s.start = P.drop (P.length - s.start) := by
      rw [hf, hroff, drop_append_of_le_length (by omega)]
      rw [take_append_of_le_length (by simp; omega)]
      exact take_of_length_le (by simp; omega)
    -- the (possibly freshly allocated) buffer
    have hbuf0 : (buf0 s).length = s.bufSize ∧ ((buf0 s).drop s.start).take (s.stop - s.start) = w := by
      unfold buf0
      rcases h.buflen with hb | ⟨hnil, he, _⟩
      · by_cases hz : s.buf.length = 0
        · have hbs : s.bufSize = 0 := by omega
          have := h.le1; have := h.le2
          omega
        · have : ¬ (s.buf.length == 0) = true := by simpa using hz
          simp only [this]
          exact ⟨hb, h.data⟩
      · have hw : w = [] := by rw [← h.data, he]; simp
        rw [hnil]; simp [hw, he]
    obtain ⟨hl0, hd0⟩ := hbuf0
    have hle1 := h.le1; have hle2 := h.le2
    have hfill : fill f s =
        { s with rOffset := s.rOffset - s.start, buf := P.drop (P.length - s.start) ++ (buf0 s).drop s.start, start := 0 } := by
      unfold fill readAt buf0
      simp only [hs, if_true, hoff, hread]
    rw [hfill]
    refine ⟨⟨h.mt, h.db, h.nt, h.notDone, h.noErr, ⟨P.drop (P.length - s.start) ++ rest, ?_⟩, ?_, ?_, hle2, ?_, ?_, ?_, ?_⟩,
      rfl, ?_, rfl, rfl⟩
    · rw [← append_assoc, take_append_drop]; exact hf
    · simp [hroff]
    · simp
    · left; simp [hl0]; omega
    · simp only [drop_zero, Nat.sub_zero]
      have hlen : (P.drop (P.length - s.start)).length = s.start := by simp; omega
      rw [take_append, hlen, take_of_length_le (by omega), hd0]
    · simp
    · intro hne
      apply h.bpos
      intro hp; simp [hp] at hne
    · simp [hl0]; omega
  · have hs0 : s.start = 0 := by omega
    have hfill : fill f s = s := by unfold fill; simp [hs0]
    have e1 : P.take (P.length - s.start) = P := by rw [hs0]; simp
    have e2 : P.drop (P.length - s.start) ++ w = w := by rw [hs0]; simp
    rw [hfill, e1, e2]
    refine ⟨h, hs0, ?_, rfl, rfl⟩
    rcases h.buflen with hb | ⟨_, _, hp⟩
    · exact hb
    · omega

theorem take_drop_mid (A w C : Bytes) : ((A ++ w ++ C).drop A.length).take w.length = w := by
  rw [append_assoc, drop_left, take_left]

theorem take_drop_mid' {A w C : Bytes} {d n : Nat} (hA : A.length = d) (hn : n = w.length) :
    ((A ++ w ++ C).drop d).take n = w := by
  subst hA; subst hn; exact take_drop_mid A w C

/-- Making room (shift, else grow) when more of the file has to be read: the pending data is kept, at least one
byte of room appears before it, never more than what is left to read. No `ErrTooLong` while the pending data is
shorter than half the maximal token size. -/
theorem makeRoom_spec {f M D s P w} (h : LI f M D s P w) (h0 : s.start = 0) (hb : s.buf.length = s.bufSize)
    (hP : P ≠ []) (hw : w.length < M / 2) :
    ∃ s2, grow (shift s) = some s2 ∧ LI f M D s2 P w ∧ 1 ≤ s2.start := by
  have hwl : w.length = s.stop := by rw [h.wlen, h0]; simp
  have hdata : s.buf.take s.stop = w := by have := h.data; rw [h0] at this; simpa using this
  have hPl : 1 ≤ P.length := by cases P with | nil => exact absurd rfl hP | cons _ _ => simp
  have hbs : 0 < s.bufSize := h.bpos hP
  have hle2 := h.le2
  have hroff := h.roff
  by_cases hsh : s.stop < s.bufSize / 2
  · -- shift
    obtain ⟨d, hd⟩ : ∃ d, d = (if s.rOffset < s.bufSize - s.stop then s.rOffset else s.bufSize - s.stop) := ⟨_, rfl⟩
    have hd1 : 1 ≤ d := by rw [hd]; split <;> omega
    have hd2 : d ≤ P.length := by rw [hd]; split <;> omega
    have hd3 : s.stop + d ≤ s.bufSize := by rw [hd]; split <;> omega
    have hshift : shift s =
        { s with buf := s.buf.take d ++ w ++ s.buf.drop (s.stop + d), start := d, stop := s.stop + d } := by
      unfold shift
      simp only [hsh, if_true, h0, Nat.zero_add, drop_zero, Nat.sub_zero, hdata, ← hd]
    have hd0 : (d == 0) = false := by simp; omega
    refine ⟨{ s with buf := s.buf.take d ++ w ++ s.buf.drop (s.stop + d), start := d, stop := s.stop + d }, ?_,
      ⟨h.mt, h.db, h.nt, h.notDone, h.noErr, h.pre, h.roff, ?_, ?_, ?_, ?_, hd2, h.bpos⟩, hd1⟩
    · rw [hshift]; unfold grow; simp only [hd0]; rfl
    · simp
    · simpa using hd3
    · left; simp [hb, hwl]; omega
    · simp only
      have hl : (s.buf.take d).length = d := by simp [hb]; omega
      exact take_drop_mid' hl (by omega)
  · -- grow
    have hshift : shift s = s := by unfold shift; simp [hsh]
    have hlt : s.bufSize < s.maxTokenSize := by rw [h.mt]; omega
    obtain ⟨n, hn⟩ : ∃ n, n = (if s.bufSize * 2 > s.maxTokenSize then s.maxTokenSize else s.bufSize * 2) := ⟨_, rfl⟩
    have hn1 : s.bufSize < n := by rw [hn]; split <;> omega
    obtain ⟨d, hd⟩ : ∃ d, d = (if n - s.stop > s.rOffset then s.rOffset else n - s.stop) := ⟨_, rfl⟩
    have hd1 : 1 ≤ d := by rw [hd]; split <;> omega
    have hd2 : d ≤ P.length := by rw [hd]; split <;> omega
    have hd3 : d + s.stop ≤ n := by rw [hd]; split <;> omega
    have hgrow : grow s = some
        { s with buf := replicate d 0 ++ w ++ replicate (n - (d + s.stop)) 0, start := d, stop := d + s.stop, bufSize := n } := by
      unfold grow
      have h2 : ¬ (s.bufSize * 2 == 0) = true := by simp; omega
      have h3 : ¬ s.bufSize ≥ s.maxTokenSize := by omega
      simp only [h0, beq_self_eq_true, if_true, h3, if_false, h2, Bool.false_eq_true, Nat.sub_zero, drop_zero, hdata, ← hn, ← hd]
    refine ⟨{ s with buf := replicate d 0 ++ w ++ replicate (n - (d + s.stop)) 0, start := d, stop := d + s.stop, bufSize := n },
      by rw [hshift]; exact hgrow, ⟨h.mt, h.db, h.nt, h.notDone, h.noErr, h.pre, h.roff, ?_, ?_, ?_, ?_, hd2, ?_⟩, hd1⟩
    · simp
    · simpa using hd3
    · left; simp [hwl]; omega
    · simp only
      exact take_drop_mid' (by simp) (by omega)
    · intro _; simp; omega

theorem LI.setToken {f M D s P w} (h : LI f M D s P w) (t : Bytes) : LI f M D { s with token := t } P w :=
  ⟨h.mt, h.db, h.nt, h.notDone, h.noErr, h.pre, h.roff, h.le1, h.le2, h.buflen, h.data, h.room, h.bpos⟩

theorem scanLines_of_last {a b : Bytes} (hb : NL ∉ b) : scanLines false (a ++ NL :: b) = (a.length, dropCR b) := by
  unfold scanLines
  cases h : lastIdxNL (a ++ NL :: b) with
  | none => exact absurd (lastIdxNL_none.mp h) (by simp)
  | some i =>
    obtain ⟨a2, b2, he, hl, hb2⟩ := lastIdxNL_some h
    obtain ⟨rfl, rfl⟩ := lastNL_unique he hb hb2
    simp only [← hl, drop_left, lineToken_false, trimLine_NL_cons]

theorem scanLines_noNL {w : Bytes} (h : NL ∉ w) : scanLines false w = (0, []) := by
  unfold scanLines; rw [lastIdxNL_none.mpr h]

/-- No token can be cut from `w` yet: no '\n' at all, or only the very first byte is one and what follows is
empty or a single '\r' (`advance = 0 ∧ token = nil`). -/
def Unusable (w : Bytes) : Prop := NL ∉ w ∨ ∃ b, w = NL :: b ∧ NL ∉ b ∧ dropCR b = []

theorem scanLines_unusable {w : Bytes} (h : Unusable w) : scanLines false w = (0, []) := by
  rcases h with h | ⟨b, rfl, hb, ht⟩
  · exact scanLines_noNL h
  · have := scanLines_of_last (a := []) hb
    simpa [ht] using this

/-- Either a token can be cut at the last '\n', or not. -/
theorem usable_or (w : Bytes) :
    (∃ a b, w = a ++ NL :: b ∧ NL ∉ b ∧ (a ≠ [] ∨ dropCR b ≠ [])) ∨ Unusable w := by
  cases h : lastIdxNL w with
  | none => exact Or.inr (Or.inl (lastIdxNL_none.mp h))
  | some i =>
    obtain ⟨a, b, he, _, hb⟩ := lastIdxNL_some h
    by_cases hu : a ≠ [] ∨ dropCR b ≠ []
    · exact Or.inl ⟨a, b, he, hb, hu⟩
    · have ha : a = [] := by
        by_cases ha : a = []
        · exact ha
        · exact absurd (Or.inl ha) hu
      have ht : dropCR b = [] := by
        by_cases ht : dropCR b = []
        · exact ht
        · exact absurd (Or.inr ht) hu
      exact Or.inr (Or.inr ⟨b, by rw [he, ha]; rfl, hb, ht⟩)

/-- `Safe`: either the pending read takes in all the rest of the file (so no room will ever have to be made),
or all '\n'-free stretches are short. -/
def Safe (M : Nat) (s : RS) (P w : Bytes) : Prop := P.length ≤ s.start ∨ ShortRuns M (P ++ w)

/-- One iteration when a token can be cut from the pending data. -/
theorem scanLoop_ret {f : Bytes} {fuel : Nat} {s s1 : RS} {a b : Bytes}
    (hs1 : fill f s = s1) (hnt : s1.trimAll = false) (hnoerr : s1.err = none) (hst0 : s1.start = 0)
    (hdata : (s1.buf.drop s1.start).take (s1.stop - s1.start) = a ++ NL :: b) (hb : NL ∉ b)
    (hu : a ≠ [] ∨ dropCR b ≠ []) :
    scanLoop f (fuel + 1) s = ({ s1 with token := dropCR b, stop := a.length }, true) := by
  have hc : (a.length > 0 || !(dropCR b).isEmpty) = true := by
    rcases hu with h | h
    · have : 0 < a.length := length_pos_iff.mpr h
      simp [this]
    · simp [h]
  rw [hst0] at hdata
  simp only [scanLoop, hs1, hnt, lineToken_false, hnoerr, Option.isSome_none, Bool.false_eq_true, if_false, hdata, scanLines_of_last hb, hc,
    if_true, hst0, Nat.zero_add]

/-- One iteration when no token can be cut and the whole file has been read. -/
theorem scanLoop_tail {f : Bytes} {fuel : Nat} {s s1 : RS} {w : Bytes}
    (hs1 : fill f s = s1) (hnt : s1.trimAll = false) (hnoerr : s1.err = none) (hst0 : s1.start = 0)
    (hdata : (s1.buf.drop s1.start).take (s1.stop - s1.start) = w) (hu : Unusable w) (hr : s1.rOffset = 0) :
    scanLoop f (fuel + 1) s =
      if 0 < s1.stop then ({ s1 with token := trimLine w, done := true }, true)
      else ({ s1 with token := [], done := true }, false) := by
  rw [hst0] at hdata
  simp only [scanLoop, hs1, hnt, lineToken_false, hnoerr, Option.isSome_none, Bool.false_eq_true, if_false, hdata, scanLines_unusable hu,
    Nat.lt_irrefl, gt_iff_lt, decide_false, isEmpty_nil, Bool.not_true, Bool.or_self, hr, beq_self_eq_true, if_true, hst0]

/-- One iteration when no token can be cut and more of the file is left. -/
theorem scanLoop_more {f : Bytes} {fuel : Nat} {s s1 s2 : RS} {w : Bytes}
    (hs1 : fill f s = s1) (hnt : s1.trimAll = false) (hnoerr : s1.err = none)
    (hdata : (s1.buf.drop s1.start).take (s1.stop - s1.start) = w) (hu : Unusable w) (hr : s1.rOffset ≠ 0)
    (hg : grow (shift { s1 with token := [] }) = some s2) :
    scanLoop f (fuel + 1) s = scanLoop f fuel s2 := by
  have hr' : (s1.rOffset == 0) = false := by simpa using hr
  obtain ⟨mt, db, ta, tok, buf, bs, st, sp, ro, er, dn⟩ := s1
  simp only at hnt hnoerr hdata hr' hg
  subst hnoerr; subst hnt
  simp only [scanLoop, hs1, Option.isSome_none, Bool.false_eq_true, if_false, hdata, scanLines_unusable hu,
    Nat.lt_irrefl, gt_iff_lt, decide_false, isEmpty_nil, Bool.not_true, Bool.or_self, hr', hg]

/-- **The loop of `Scan`** from a state satisfying the invariant, in terms of the not yet tokenised part
`g = P ++ w` of the file:
* if `g` can be cut at its last '\n' into `a ++ '\n' :: b` (with `a ≠ []` or a non-empty token), `Scan` returns
  `true` with token `dropCR b`, and the invariant holds again with `a` left;
* otherwise, if `g ≠ []`, `Scan` returns `true` with token `trimLine g` and is done;
* if `g = []`, `Scan` returns `false` and is done. -/
theorem scanLoop_spec {f : Bytes} {M D : Nat} : ∀ (fuel : Nat) (s : RS) (P w : Bytes),
    LI f M D s P w → Safe M s P w → P.length - s.start < fuel →
    (∀ a b, P ++ w = a ++ NL :: b → NL ∉ b → (a ≠ [] ∨ dropCR b ≠ []) →
      ∃ s' P' w', scanLoop f fuel s = (s', true) ∧ s'.token = dropCR b ∧ LI f M D s' P' w' ∧ s'.start = 0 ∧
        P' ++ w' = a ∧ Safe M s' P' w') ∧
    (Unusable (P ++ w) → P ++ w ≠ [] →
      ∃ s', scanLoop f fuel s = (s', true) ∧ s'.token = trimLine (P ++ w) ∧ s'.done = true ∧ s'.err = none) ∧
    (P ++ w = [] → ∃ s', scanLoop f fuel s = (s', false) ∧ s'.done = true ∧ s'.err = none) := by
  intro fuel
  induction fuel with
  | zero => intro s P w _ _ hf; omega
  | succ fuel ih =>
    intro s P w hli hsafe hfuel
    obtain ⟨hli1, hst0, hbl, hbsz, hstop⟩ := fill_spec hli
    generalize hs1 : fill f s = s1 at hli1 hst0 hbl hbsz hstop
    generalize hP1 : P.take (P.length - s.start) = P1 at hli1
    generalize hw1 : P.drop (P.length - s.start) ++ w = w1 at hli1
    have hg : P1 ++ w1 = P ++ w := by rw [← hP1, ← hw1, ← append_assoc, take_append_drop]
    have hP1len : P1.length = P.length - s.start := by rw [← hP1, length_take]; omega
    have hdata := hli1.data
    have hnoerr := hli1.noErr
    have hnt1 := hli1.nt
    have hw1len : w1.length = s1.stop := by rw [hli1.wlen, hst0]; simp
    have hsafe1 : P1 = [] ∨ ShortRuns M (P ++ w) := by
      rcases hsafe with h | h
      · left; apply eq_nil_of_length_eq_zero; omega
      · right; exact h
    rw [← hg]
    rcases usable_or w1 with ⟨a', b', hw1e, hb', hu'⟩ | hun
    · -- a token is cut from the pending data
      have hret := scanLoop_ret (fuel := fuel) hs1 hnt1 hnoerr hst0 (by rw [hdata, hw1e]) hb' hu'
      have hale : a'.length ≤ s1.stop := by rw [← hw1len, hw1e]; simp
      have hlia : LI f M D { s1 with token := dropCR b', stop := a'.length } P1 a' := by
        refine ⟨hli1.mt, hli1.db, hli1.nt, hli1.notDone, hli1.noErr, hli1.pre, hli1.roff, ?_, ?_, Or.inl hbl, ?_, hli1.room, hli1.bpos⟩
        · simp [hst0]
        · have := hli1.le2; simp only; omega
        · simp only
          have : (s1.buf.drop s1.start).take (a'.length - s1.start) =
              ((s1.buf.drop s1.start).take (s1.stop - s1.start)).take (a'.length - s1.start) := by
            rw [take_take, Nat.min_eq_left (by omega)]
          rw [this, hdata, hw1e, hst0]; simp
      have hsafea : Safe M { s1 with token := dropCR b', stop := a'.length } P1 a' := by
        rcases hsafe1 with h | h
        · left; simp [h]
        · right; exact h.of_prefix (c := NL :: b') (by rw [← hg, hw1e]; simp)
      refine ⟨?_, ?_, ?_⟩
      · intro a b he hb hu
        have he' : (P1 ++ a') ++ NL :: b' = a ++ NL :: b := by rw [← he, hw1e]; simp
        obtain ⟨rfl, rfl⟩ := lastNL_unique he' hb' hb
        exact ⟨_, P1, a', hret, rfl, hlia, hst0, rfl, hsafea⟩
      · intro hun2 _
        exfalso
        rcases hun2 with h | ⟨b, he, hb, ht⟩
        · apply h; rw [hw1e]; simp
        · have he' : (P1 ++ a') ++ NL :: b' = [] ++ NL :: b := by rw [hw1e] at he; simpa using he
          obtain ⟨hnil, rfl⟩ := lastNL_unique he' hb' hb
          have ha' : a' = [] := (append_eq_nil_iff.mp hnil).2
          rcases hu' with h | h
          · exact h ha'
          · exact h ht
      · intro he; rw [hw1e] at he; simp at he
    · by_cases hP1e : P1 = []
      · -- the whole file has been read
        have hr : s1.rOffset = 0 := by rw [hli1.roff, hP1e]; rfl
        have htail := scanLoop_tail (fuel := fuel) hs1 hnt1 hnoerr hst0 hdata hun hr
        subst hP1e; simp only [nil_append]
        refine ⟨?_, ?_, ?_⟩
        · intro a b he hb hu
          exfalso
          rcases hun with h | ⟨b2, he2, hb2, ht2⟩
          · apply h; rw [he]; simp
          · have : [] ++ NL :: b2 = a ++ NL :: b := by rw [← he, he2]; rfl
            obtain ⟨rfl, rfl⟩ := lastNL_unique this hb2 hb
            rcases hu with h | h
            · exact h rfl
            · exact h ht2
        · intro _ hne
          have : 0 < s1.stop := by rw [← hw1len]; exact length_pos_iff.mpr hne
          rw [htail, if_pos this]
          exact ⟨_, rfl, rfl, rfl, hnoerr⟩
        · intro he
          have : ¬ 0 < s1.stop := by rw [← hw1len, he]; simp
          rw [htail, if_neg this]
          exact ⟨_, rfl, rfl, hnoerr⟩
      · -- more of the file is left: make room, loop
        have hsr : ShortRuns M (P ++ w) := by
          rcases hsafe1 with h | h
          · exact absurd h hP1e
          · exact h
        have hwlt : w1.length < M / 2 := by
          rcases hun with h | ⟨b, he, hb, _⟩
          · have := hsr P1 w1 [] (by rw [← hg]; simp) h; omega
          · have := hsr (P1 ++ [NL]) b [] (by rw [← hg, he]; simp) hb
            rw [he]; simp; omega
        obtain ⟨s2, hgrow, hli2, hst2⟩ := makeRoom_spec (hli1.setToken []) hst0 hbl hP1e hwlt
        have hro : s1.rOffset ≠ 0 := by
          rw [hli1.roff]; intro h; exact hP1e (eq_nil_of_length_eq_zero h)
        have hmore := scanLoop_more (fuel := fuel) hs1 hnt1 hnoerr hdata hun hro hgrow
        rw [hmore]
        have hP1pos : 0 < P1.length := length_pos_iff.mpr hP1e
        exact ih s2 P1 w1 hli2 (Or.inr (by rw [hg]; exact hsr)) (by omega)

/-! ### the Emit loop -/

theorem scan_eq_loop {f : Bytes} {fuel : Nat} {s : RS} (hd : s.done = false) (he : s.err = none) :
    scan f fuel s = scanLoop f fuel s := by
  unfold scan; simp [hd, he]

theorem scan_done {f : Bytes} {fuel : Nat} {s : RS} (hd : s.done = true) :
    scan f fuel s = ({ s with token := [], start := s.bufSize, stop := s.bufSize }, false) := by
  unfold scan; simp [hd]

theorem collect_true {f : Bytes} {fuel n : Nat} {s s' : RS} (h : scan f fuel s = (s', true)) :
    collect f fuel (n + 1) s = (s'.token :: (collect f fuel n s').1, (collect f fuel n s').2) := by
  simp only [collect, h]

theorem collect_false {f : Bytes} {fuel n : Nat} {s s' : RS} (h : scan f fuel s = (s', false)) (he : s'.err = none) :
    collect f fuel (n + 1) s = ([], none) := by
  simp [collect, h, he]

theorem LI.plen {f M D s P w} (h : LI f M D s P w) : P.length ≤ f.length := by
  obtain ⟨rest, hf⟩ := h.pre; rw [hf]; simp

/-- The Emit loop from a state satisfying the invariant yields `revSpec` of the not yet tokenised part. -/
theorem collect_spec {f : Bytes} {M D : Nat} (fuel : Nat) (hfuel : f.length < fuel) :
    ∀ (n : Nat) (s : RS) (P w : Bytes), LI f M D s P w → s.start = 0 → Safe M s P w →
      (P ++ w).length + 2 ≤ n → collect f fuel n s = (revSpec (P ++ w), none) := by
  intro n
  induction n with
  | zero => intro s P w _ _ _ h; omega
  | succ n ih =>
    intro s P w hli hst hsafe hn
    have hpl := hli.plen
    obtain ⟨h1, h2, h3⟩ := scanLoop_spec fuel s P w hli hsafe (by omega)
    have hscan := scan_eq_loop (f := f) (fuel := fuel) hli.notDone hli.noErr
    rcases usable_or (P ++ w) with ⟨a, b, he, hb, hu⟩ | hun
    · obtain ⟨s', P', w', hs', htok, hli', hst', hpw, hsafe'⟩ := h1 a b he hb hu
      rw [collect_true (hscan.trans hs'), htok]
      have hlen : (P' ++ w').length + 2 ≤ n := by
        rw [hpw]; have : (P ++ w).length = (a ++ NL :: b).length := by rw [he]
        simp at this; simp at hn; omega
      rw [ih s' P' w' hli' hst' hsafe' hlen, hpw, he, revSpec_snoc hb]
    · by_cases hne : P ++ w = []
      · obtain ⟨s', hs', _, herr⟩ := h3 hne
        rw [collect_false (hscan.trans hs') herr, hne, revSpec_nil]
      · obtain ⟨s', hs', htok, hdone, herr⟩ := h2 hun hne
        rw [collect_true (hscan.trans hs'), htok]
        have hn1 : ∃ m, n = m + 1 := by
          have : 0 < (P ++ w).length := length_pos_iff.mpr hne
          exact ⟨n - 1, by omega⟩
        obtain ⟨m, rfl⟩ := hn1
        rw [collect_false (scan_done hdone) (by simpa using herr)]
        have hrs : revSpec (P ++ w) = [trimLine (P ++ w)] := by
          rcases hun with h | ⟨b, he, hb, _⟩
          · rw [revSpec_noNL h, if_neg hne, trimLine_of_noNL h]
          · rw [he]
            have := revSpec_snoc (a := []) hb
            simp only [nil_append] at this
            rw [this, revSpec_nil, trimLine_NL_cons]
        rw [hrs]

end ShpanVerif.Proofs.FileScan
