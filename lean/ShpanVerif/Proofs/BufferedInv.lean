/-
Inductive invariants, completeness of a successful result, decreasing measure and deadlock freedom of the
Buffered transition system (`Model/Buffered.lean`), over ALL labels.
-/
import ShpanVerif.Model.Buffered

namespace ShpanVerif.Proofs.Buffered
open ShpanVerif.Model.Conc ShpanVerif.Model.Buffered

macro "step_cases" hs:ident : tactic =>
  `(tactic| (cases ‹Label› <;> simp only [step] at $hs:ident <;> (repeat' split at $hs:ident) <;>
      (try (simp at $hs:ident)) <;> (try (subst $hs:ident))))

/-- pcs at which the filler holds P open -/
def pOpenPc : FPc → Bool
  | .check | .inEmit | .cb _ | .closeP _ => true
  | _ => false
/-- pcs on the way to sending the EOF marker -/
def okPc : FPc → Bool
  | .closeP true | .closed true | .sendFin .marker => true
  | _ => false
def livePc : FPc → Bool
  | .inEmit | .cb _ => true
  | _ => false
/-- pcs after the inner terminal is over (P was closed, or never opened) -/
def postPc : FPc → Bool
  | .closed _ | .sendFin _ | .closeCh | .done => true
  | _ => false
def finishedPc : FPc → Bool
  | .closeCh | .done => true
  | _ => false

structure Basic (cfg : Cfg) (s : St) : Prop where
  cap : s.chLen ≤ cfg.cap
  cursor_le : s.cursor ≤ cfg.n
  emitting_eq : s.emitting = if s.f = .inEmit then 1 else 0
  opened : pOpenPc s.f = true → s.pOpened = true ∧ s.pClosed = false
  noBadW : s.badWindow = false
  noBadO : s.badOverlap = false
  fin_pc : s.fin ≠ none → finishedPc s.f = true
  chCl : s.chClosed = true ↔ s.f = .done
  fin_or : finishedPc s.f = true → s.fin ≠ none ∨ s.res ≠ none ∨ s.ctx1 = true
  ret_term : (s.cons = .join ∨ s.cons = .ret) ↔ s.term1 = true
  /-- fix B2: the terminal returns only after the filler goroutine is gone -/
  ret_done : cfg.fixJoin = true → s.cons = .ret → s.f = .done
  join_fix : s.cons = .join → cfg.fixJoin = true
  res_iff : s.res = none ↔ (s.cons = .check ∨ s.cons = .sel ∨ s.cons = .got)
  stopped_res : s.stopped = true → s.res ≠ none
  dropped_ctx : s.dropped = true → s.ctx1 = true
  dropped_pc : s.dropped = true → livePc s.f = false ∧ okPc s.f = false ∧ s.fin ≠ some .marker
  marker_cursor : (okPc s.f = true ∨ s.fin = some .marker) → s.cursor = cfg.n
  not_yet : s.f = .opening → s.pOpened = false ∧ s.pClosed = false
  closes_eq : s.closes = if s.pClosed then 1 else 0
  post : postPc s.f = true → s.pOpened = s.pClosed

theorem basic_init (cfg : Cfg) : Basic cfg (init cfg) := by
  constructor <;> simp [init, St.ctx1, St.chLen, pOpenPc, okPc, livePc, finishedPc, postPc]

set_option maxHeartbeats 4000000 in
theorem basic_step {cfg : Cfg} {s s' : St} {l : Label} (h : Basic cfg s) (hs : step cfg s l = some s') :
    Basic cfg s' := by
  obtain ⟨h1, h2, h3, h4, h5, h6, h7, h8, h9, h10, h10', h10'', h11, h12, h13, h14, h15, h16, h17, h18⟩ := h
  step_cases hs <;>
    (constructor <;> (try (simp_all [St.ctx1, St.chLen, pOpenPc, okPc, livePc, finishedPc, postPc])) <;> (try grind))

theorem basic {cfg : Cfg} {s : St} (hr : Reachable (sys cfg) s) : Basic cfg s :=
  invariant (sys := sys cfg) (basic_init cfg) (fun _ _ _ h hs => basic_step h hs) s hr

theorem count_append_single (i j : Nat) (l : List Nat) : (l ++ [j]).count i = l.count i + (if i = j then 1 else 0) := by
  simp only [List.count_append, List.count_cons, List.count_nil, beq_iff_eq]
  grind

/-- No element is duplicated or invented (every history); nothing is lost unless the callback dropped one. -/
structure Conserve (s : St) : Prop where
  le : ∀ i, cnt i s ≤ if i < s.cursor then 1 else 0
  eq : s.dropped = false → ∀ i, cnt i s = if i < s.cursor then 1 else 0

set_option maxHeartbeats 2000000 in
theorem conserve_step {cfg : Cfg} {s s' : St} {l : Label} (h : Conserve s) (hs : step cfg s l = some s') :
    Conserve s' := by
  obtain ⟨a1, a2⟩ := h
  step_cases hs <;> (refine ⟨fun i => ?_, fun hd i => ?_⟩ <;> have hi := a1 i <;>
    (try have hj := a2 (by simpa using hd) i) <;> clear a1 a2 <;>
    simp_all [cnt, inHand, count_append_single, List.count_cons] <;> grind)

theorem conserve {cfg : Cfg} {s : St} (hr : Reachable (sys cfg) s) : Conserve s :=
  invariant (sys := sys cfg) (P := Conserve) (by refine ⟨fun i => ?_, fun _ i => ?_⟩ <;> simp [sys, init, cnt, inHand])
    (fun _ _ _ h hs => conserve_step h hs) s hr

/-- `nil` from the terminal means: the downstream stopped by itself, or every source element was delivered. -/
def OkComplete (cfg : Cfg) (s : St) : Prop :=
  s.res = some .ok → s.stopped = true ∨ ∀ i, i < cfg.n → s.delivered.count i = 1

set_option maxHeartbeats 2000000 in
theorem okComplete_step {cfg : Cfg} {s s' : St} {l : Label} (hfix : cfg.fix7 = true)
    (hb : Basic cfg s) (hc : Conserve s) (h : OkComplete cfg s) (hs : step cfg s l = some s') :
    OkComplete cfg s' := by
  obtain ⟨h1, h2, h3, h4, h5, h6, h7, h8, h9, h10, h10', h10'', h11, h12, h13, h14, h15, h16, h17, h18⟩ := hb
  have hmark : s.fin = some .marker → s.ch = [] → ∀ i, i < cfg.n → s.delivered.count i = 1 := by
    intro hf hch i hi
    have hnd : s.dropped = false := by
      cases hd : s.dropped
      · rfl
      · exact absurd hf (h14 hd).2.2
    have hfin := h7 (by simp [hf])
    have hcur := h15 (Or.inr hf)
    have := hc.eq hnd i
    simp only [cnt, hch, List.count_nil, hcur, hi, ↓reduceIte] at this
    cases hfpc : s.f <;> simp_all [finishedPc, inHand]
  unfold OkComplete at *
  step_cases hs <;> (first | (simp_all [St.ctx1, finishedPc]; done) | (simp_all [St.ctx1, finishedPc]; grind))

theorem okComplete {cfg : Cfg} {s : St} (hfix : cfg.fix7 = true) (hr : Reachable (sys cfg) s) : OkComplete cfg s := by
  have : Basic cfg s ∧ Conserve s ∧ OkComplete cfg s := by
    refine invariant (sys := sys cfg) (P := fun s => Basic cfg s ∧ Conserve s ∧ OkComplete cfg s) ?_ ?_ s hr
    · exact ⟨basic_init cfg, by refine ⟨fun i => ?_, fun _ i => ?_⟩ <;> simp [sys, init, cnt, inHand],
        by simp [OkComplete, sys, init]⟩
    · intro s l s' h hs
      exact ⟨basic_step h.1 hs, conserve_step h.2.1 hs, okComplete_step hfix h.1 h.2.1 h.2.2 hs⟩
  exact this.2.2

end ShpanVerif.Proofs.Buffered
