/-
Lemmas about the gap-filler model (`Model/GapFill.lean`): the list-level specification `fillSpec`, step
lemmas of the state machine, and the refinement `gapFill = fillSpec` for sparse aligned inputs.  Core only.
-/
import ShpanVerif.Model.GapFill
import ShpanVerif.Proofs.AlignLemmas

namespace ShpanVerif.Proofs.GapFill
open List ShpanVerif.Model.Align ShpanVerif.Model.GapFill

variable {β : Type}

/-! ## Hypotheses on the period and on the input -/

/-- Periods partition the time line: an instant inside the period of `t` has the same period start.
(The four `Tiles` laws alone do not imply this: `start = id`, `stop t = t + 2` satisfies them, and on that
"period" the gap filler skips data.  C12's concrete periods all satisfy it.) -/
def NoStartInside (P : Period) : Prop := ∀ t u, P.start t ≤ u → u < P.stop t → P.start u = P.start t

/-- Every timestamp is a period start (the series is aligned). -/
def OnGrid (P : Period) (xs : List (Pt β)) : Prop := ∀ x ∈ xs, P.start x.1 = x.1

/-- Strictly increasing timestamps (sparse: at most one point per period). -/
def StrictInc (xs : List (Pt β)) : Prop := xs.Pairwise (fun a b => a.1 < b.1)

/-- The next period start after a period start `a` is `stop a`. -/
theorem stop_le_of_start_lt {P : Period} (_T : Tiles P) (N : NoStartInside P) {a b : Int}
    (ha : P.start a = a) (hb : P.start b = b) (hab : a < b) : P.stop a ≤ b := by
  apply Classical.byContradiction
  intro hc
  have := N a b (by omega) (by omega)
  omega

/-! ## List-level specification -/

/-- The period starts from `t` on, strictly below `b` (fuel bounds the number of periods). -/
def between (P : Period) : Nat → Int → Int → List Int
  | 0, _, _ => []
  | n+1, t, b => if t < b then t :: between P n (P.stop t) b else []

section spec
variable (mode : FillMode) (interp : Int → Int → β → Int → β → Except Err β) (copy : β → β)

/-- The value of a filled period `t` between the data points `p` and `n`. -/
def fillAt (p n : Pt β) (t : Int) : Except Err β :=
  match mode with
  | .linear => interp t p.1 p.2 n.1 n.2
  | .forwardFill => .ok (copy p.2)
  | .other => .error .badMode

def fillSeg (p n : Pt β) : List Int → Except Err (List (Pt β))
  | [] => .ok []
  | t :: ts =>
    match fillAt mode interp copy p n t with
    | .error e => .error e
    | .ok v =>
      match fillSeg p n ts with
      | .error e => .error e
      | .ok rest => .ok ((t, v) :: rest)

/-- The gap-filled series: every data point, and between two adjacent data points one filled record
per period start strictly between them. -/
def fillSpec (P : Period) : List (Pt β) → Except Err (List (Pt β))
  | [] => .ok []
  | [x] => .ok [x]
  | x :: y :: rest =>
    match fillSeg mode interp copy x y (between P (y.1 - x.1).toNat (P.stop x.1) y.1) with
    | .error e => .error e
    | .ok seg =>
      match fillSpec P (y :: rest) with
      | .error e => .error e
      | .ok tail => .ok (x :: (seg ++ tail))

end spec

/-! ## Runs of the machine -/

/-- `RunTo s l s'`: pulling `l.length` times from state `s` yields exactly `l` and leaves state `s'`. -/
inductive RunTo {S O : Type} (emit : S → Option (Except Err O) × S) : S → List O → S → Prop
  | nil (s : S) : RunTo emit s [] s
  | cons {s s' s'' : S} {o : O} {l : List O} :
      emit s = (some (.ok o), s') → RunTo emit s' l s'' → RunTo emit s (o :: l) s''

theorem RunTo.append {S O : Type} {emit : S → Option (Except Err O) × S} {s s' s'' : S} {l1 l2 : List O}
    (h1 : RunTo emit s l1 s') (h2 : RunTo emit s' l2 s'') : RunTo emit s (l1 ++ l2) s'' := by
  induction h1 with
  | nil s => exact h2
  | cons he _ ih => exact RunTo.cons he (ih h2)

section machine
variable (P : Period) (mode : FillMode) (interp : Int → Int → β → Int → β → Except Err β) (copy : β → β)

/-- A run that ends in a state answering EOF is what `Collect` returns, for every budget above its length. -/
theorem gcollect_of_runTo {s s' : GState β} {L : List (Pt β)}
    (h : RunTo (gemit P mode interp copy) s L s') (hd : (gemit P mode interp copy s').1 = none) :
    ∀ fuel, L.length < fuel → gcollect P mode interp copy fuel s = .ok (L, true) := by
  induction h with
  | nil s =>
    intro fuel hf
    cases fuel with
    | zero => simp at hf
    | succ f =>
      unfold gcollect
      rcases hg : gemit P mode interp copy s with ⟨o, s2⟩
      rw [hg] at hd
      simp only at hd
      subst hd
      rfl
  | cons he _ ih =>
    intro fuel hf
    cases fuel with
    | zero => simp at hf
    | succ f =>
      unfold gcollect
      rw [he]
      simp only
      rw [ih hd f (by simp at hf; omega)]

/-- Under a budget not above its length the run is cut: `Limit(budget)` reached (runaway flag). -/
theorem gcollect_cut {s s' : GState β} {L : List (Pt β)}
    (h : RunTo (gemit P mode interp copy) s L s') :
    gcollect P mode interp copy L.length s = .ok (L, false) := by
  induction h with
  | nil s => rfl
  | cons he _ ih =>
    simp only [length_cons, gcollect, he, ih]

/-- the machine between the data points `x` and `y`, about to look at period `t` -/
def midState (x y : Pt β) (t : Int) (rest : List (Pt β)) : GState β :=
  ⟨some x, some y, t, true, false, rest⟩

/-- the machine after the last data point `y` -/
def endState (y : Pt β) (t : Int) : GState β := ⟨some y, none, t, true, true, []⟩

theorem advance_stay (e : Int) (x y : Pt β) (rest : List (Pt β)) (h : e < y.1) :
    advance e (some x) (some y) rest = (some x, some y, rest) := by
  unfold advance
  have : ¬ y.1 ≤ e := by omega
  simp [this]

/-- G1: a period strictly between two data points is filled. -/
theorem gemit_fill (x y : Pt β) (t : Int) (rest : List (Pt β)) (v : β)
    (h1 : x.1 < t) (h2 : t < y.1) (hv : fillAt mode interp copy x y t = .ok v) :
    gemit P mode interp copy (midState x y t rest) = (some (.ok (t, v)), midState x y (P.stop t) rest) := by
  have hne : ¬ x.1 = t := by omega
  unfold gemit midState
  simp only [if_true, Bool.false_eq_true, if_false, advance_stay t x y rest h2, hne]
  unfold fillAt at hv
  cases mode with
  | linear => simp only at hv ⊢; rw [hv]
  | forwardFill => simp only at hv ⊢; rw [Except.ok.inj hv]
  | other => simp at hv

/-- G2: a data point that is followed by another one is emitted unchanged. -/
theorem gemit_data_more (x y z : Pt β) (rest : List (Pt β)) (hyz : y.1 < z.1) :
    gemit P mode interp copy (midState x y y.1 (z :: rest)) =
      (some (.ok (y.1, y.2)), midState y z (P.stop y.1) rest) := by
  unfold gemit midState
  have hadv : advance y.1 (some x) (some y) (z :: rest) = (some y, some z, rest) := by
    unfold advance
    simp only [Int.le_refl, if_true]
    exact advance_stay y.1 y z rest hyz
  simp [hadv]

/-- G3: the last data point is emitted unchanged and the machine becomes exhausted. -/
theorem gemit_data_last (x y : Pt β) :
    gemit P mode interp copy (midState x y y.1 []) = (some (.ok (y.1, y.2)), endState y (P.stop y.1)) := by
  unfold gemit midState endState
  have hadv : advance y.1 (some x) (some y) ([] : List (Pt β)) = (some y, none, []) := by
    unfold advance; simp
  simp [hadv]

/-- G4: an exhausted machine answers EOF. -/
theorem gemit_end (y : Pt β) (t : Int) : (gemit P mode interp copy (endState y t)).1 = none := by
  simp [gemit, endState]

/-- G0: the first pull. -/
theorem gemit_init_single (x : Pt β) :
    gemit P mode interp copy (ginit [x]) = (some (.ok (x.1, x.2)), endState x (P.stop x.1)) := by
  unfold gemit ginit endState
  have hadv : advance x.1 (none : Option (Pt β)) (some x) [] = (some x, none, []) := by
    unfold advance; simp
  simp [hadv]

theorem gemit_init_more (x z : Pt β) (rest : List (Pt β)) (hxz : x.1 < z.1) :
    gemit P mode interp copy (ginit (x :: z :: rest)) =
      (some (.ok (x.1, x.2)), midState x z (P.stop x.1) rest) := by
  unfold gemit ginit midState
  have hadv : advance x.1 (none : Option (Pt β)) (some x) (z :: rest) = (some x, some z, rest) := by
    unfold advance
    simp only [Int.le_refl, if_true]
    exact advance_stay x.1 x z rest hxz
  simp [hadv]

theorem gemit_init_empty : (gemit P mode interp copy (ginit ([] : List (Pt β)))).1 = none := by
  simp [gemit, ginit]

variable {P}

/-- L1: from "about to look at period `t`" the machine emits exactly the fills of the periods from `t`
up to (excluding) the next data point and arrives at that data point's period. -/
theorem run_segment (T : Tiles P) (N : NoStartInside P) (x y : Pt β) (rest : List (Pt β))
    (hy : P.start y.1 = y.1) :
    ∀ (n : Nat) (t : Int) (seg : List (Pt β)), P.start t = t → x.1 < t → t ≤ y.1 → (y.1 - t).toNat ≤ n →
      fillSeg mode interp copy x y (between P n t y.1) = .ok seg →
      RunTo (gemit P mode interp copy) (midState x y t rest) seg (midState x y y.1 rest) := by
  intro n
  induction n with
  | zero =>
    intro t seg ht hxt hty hn hseg
    have : t = y.1 := by omega
    subst this
    simp only [between, fillSeg, Except.ok.injEq] at hseg
    subst hseg
    exact RunTo.nil _
  | succ n ih =>
    intro t seg ht hxt hty hn hseg
    by_cases hlt : t < y.1
    · simp only [between, hlt, if_true, fillSeg] at hseg
      cases hv : fillAt mode interp copy x y t with
      | error e => simp [hv] at hseg
      | ok v =>
        cases hr : fillSeg mode interp copy x y (between P n (P.stop t) y.1) with
        | error e => simp [hv, hr] at hseg
        | ok rest' =>
          simp only [hv, hr, Except.ok.injEq] at hseg
          subst hseg
          have hstop := stop_le_of_start_lt T N ht hy hlt
          have hlt' := T.lt_stop t
          refine RunTo.cons (gemit_fill P mode interp copy x y t rest v hxt hlt hv) ?_
          exact ih (P.stop t) rest' (T.start_stop t) (by omega) hstop (by omega) hr
    · have : t = y.1 := by omega
      subst this
      simp only [between, Int.lt_irrefl, if_false, fillSeg, Except.ok.injEq] at hseg
      subst hseg
      exact RunTo.nil _

/-- `fillSpec` of a non-empty list starts with the first data point. -/
theorem fillSpec_head (x : Pt β) (rest : List (Pt β)) (L : List (Pt β))
    (h : fillSpec mode interp copy P (x :: rest) = .ok L) : ∃ L', L = x :: L' := by
  cases rest with
  | nil => simp only [fillSpec, Except.ok.injEq] at h; exact ⟨[], h.symm⟩
  | cons y rest =>
    simp only [fillSpec] at h
    cases hs : fillSeg mode interp copy x y (between P (y.1 - x.1).toNat (P.stop x.1) y.1) with
    | error e => simp [hs] at h
    | ok seg =>
      cases ht : fillSpec mode interp copy P (y :: rest) with
      | error e => simp [hs, ht] at h
      | ok tail => simp only [hs, ht, Except.ok.injEq] at h; exact ⟨_, h.symm⟩

/-- L2: after the data point `x`, with `y` the next one, the machine emits the rest of the spec and ends. -/
theorem run_rest (T : Tiles P) (N : NoStartInside P) :
    ∀ (rest : List (Pt β)) (x y : Pt β) (L' : List (Pt β)),
      OnGrid P (x :: y :: rest) → StrictInc (x :: y :: rest) →
      fillSpec mode interp copy P (x :: y :: rest) = .ok (x :: L') →
      ∃ s', RunTo (gemit P mode interp copy) (midState x y (P.stop x.1) rest) L' s' ∧
        (gemit P mode interp copy s').1 = none := by
  intro rest
  induction rest with
  | nil =>
    intro x y L' hg hs h
    simp only [fillSpec] at h
    cases hseg : fillSeg mode interp copy x y (between P (y.1 - x.1).toNat (P.stop x.1) y.1) with
    | error e => simp [hseg] at h
    | ok seg =>
      simp only [hseg, Except.ok.injEq, cons.injEq, true_and] at h
      subst h
      have hx : P.start x.1 = x.1 := hg x (by simp)
      have hy : P.start y.1 = y.1 := hg y (by simp)
      have hxy : x.1 < y.1 := (pairwise_cons.1 hs).1 y (by simp)
      have h1 := run_segment mode interp copy T N x y [] hy (y.1 - x.1).toNat (P.stop x.1) seg
        (T.start_stop _) (T.lt_stop _) (stop_le_of_start_lt T N hx hy hxy)
        (by have := T.lt_stop x.1; omega) hseg
      refine ⟨endState y (P.stop y.1), ?_, gemit_end P mode interp copy _ _⟩
      exact h1.append (RunTo.cons (gemit_data_last P mode interp copy x y) (RunTo.nil _))
  | cons z rest ih =>
    intro x y L' hg hs h
    rw [fillSpec] at h
    cases hseg : fillSeg mode interp copy x y (between P (y.1 - x.1).toNat (P.stop x.1) y.1) with
    | error e => simp [hseg] at h
    | ok seg =>
      cases htail : fillSpec mode interp copy P (y :: z :: rest) with
      | error e => simp [hseg, htail] at h
      | ok tail =>
        obtain ⟨L'', hL''⟩ := fillSpec_head mode interp copy y (z :: rest) tail htail
        subst hL''
        simp only [hseg, htail, Except.ok.injEq, cons.injEq, true_and] at h
        subst h
        have hx : P.start x.1 = x.1 := hg x (by simp)
        have hy : P.start y.1 = y.1 := hg y (by simp)
        have hxy : x.1 < y.1 := (pairwise_cons.1 hs).1 y (by simp)
        have hs' : StrictInc (y :: z :: rest) := (pairwise_cons.1 hs).2
        have hyz : y.1 < z.1 := (pairwise_cons.1 hs').1 z (by simp)
        have hg' : OnGrid P (y :: z :: rest) := fun w hw => hg w (mem_cons_of_mem _ hw)
        have h1 := run_segment mode interp copy T N x y (z :: rest) hy (y.1 - x.1).toNat (P.stop x.1) seg
          (T.start_stop _) (T.lt_stop _) (stop_le_of_start_lt T N hx hy hxy)
          (by have := T.lt_stop x.1; omega) hseg
        obtain ⟨s', h2, h3⟩ := ih y z L'' hg' hs' htail
        refine ⟨s', ?_, h3⟩
        exact h1.append (RunTo.cons (gemit_data_more P mode interp copy x y z rest hyz) h2)

/-- **Refinement (runs)**: on a sparse aligned series the machine emits exactly `fillSpec` and then EOF. -/
theorem run_spec (T : Tiles P) (N : NoStartInside P) (xs L : List (Pt β))
    (hg : OnGrid P xs) (hs : StrictInc xs) (h : fillSpec mode interp copy P xs = .ok L) :
    ∃ s', RunTo (gemit P mode interp copy) (ginit xs) L s' ∧ (gemit P mode interp copy s').1 = none := by
  cases xs with
  | nil =>
    simp only [fillSpec, Except.ok.injEq] at h
    subst h
    exact ⟨_, RunTo.nil _, gemit_init_empty P mode interp copy⟩
  | cons x rest =>
    cases rest with
    | nil =>
      simp only [fillSpec, Except.ok.injEq] at h
      subst h
      exact ⟨_, RunTo.cons (gemit_init_single P mode interp copy x) (RunTo.nil _), gemit_end P mode interp copy _ _⟩
    | cons y rest =>
      obtain ⟨L', hL'⟩ := fillSpec_head mode interp copy x (y :: rest) L h
      subst hL'
      have hxy : x.1 < y.1 := (pairwise_cons.1 hs).1 y (by simp)
      obtain ⟨s', h2, h3⟩ := run_rest mode interp copy T N rest x y L' hg hs h
      exact ⟨s', RunTo.cons (gemit_init_more P mode interp copy x y rest hxy) h2, h3⟩

end machine

end ShpanVerif.Proofs.GapFill
