/-
Join lifecycle model (`Model/JoinLife.lean`), C01: the frame (`openIns` / `closeIns` / `openC` / `closeFunc` / `pullLoopJ` /
`consumeJ`) brackets the inputs' resources around ANY emit program, in every world.

* `Shape a b`   : same resource rids and same contents, position by position (only the read positions may differ);
* `EOK l w w'`  : what an emit program may do to the world: the open set is untouched, and when every resource of `l` is
                  open, `bad` is untouched (a pull of an open source is fine);
* `openIns_spec`, `closeIns_spec` : the open set after opening / closing the first `n` inputs, pointwise;
* `consumeJ_spec` : from rest to rest.
* `consume_prim` : every world predicate kept by the four probe primitives is kept by the terminal (for the trace reading).
-/
import ShpanVerif.Model.JoinLife
import ShpanVerif.Proofs.PipeC01Trace

namespace ShpanVerif.Proofs.JoinLife
open ShpanVerif.Model.Pipe ShpanVerif.Model.JoinLife
open ShpanVerif.Model.PipeDyn (hitRes castRes noErr limOff)

/-- resource rids of the inputs, in order -/
def rids (ins : List Inp) : List Nat := ins.map (·.r)

/-- same rids, same contents -/
def Shape (a b : List Inp) : Prop := b.map (·.r) = a.map (·.r) ∧ b.map (·.xs) = a.map (·.xs)

theorem Shape.refl (a : List Inp) : Shape a a := ⟨rfl, rfl⟩
theorem Shape.trans {a b c : List Inp} (h1 : Shape a b) (h2 : Shape b c) : Shape a c :=
  ⟨h2.1.trans h1.1, h2.2.trans h1.2⟩
theorem Shape.rids {a b : List Inp} (h : Shape a b) : rids b = rids a := h.1
theorem Shape.length {a b : List Inp} (h : Shape a b) : b.length = a.length := by
  have := congrArg List.length h.1; simpa using this

/-- every input is rewound -/
def AtRest (ins : List Inp) : Prop := ∀ p ∈ ins, p.rest = p.xs

/-- what an emit program may do to the world -/
def EOK (l : List Nat) (w w' : World) : Prop :=
  w'.isOpen = w.isOpen ∧ ((∀ r ∈ l, w.isOpen r = true) → w'.bad = w.bad)

theorem EOK.refl (l : List Nat) (w : World) : EOK l w w := ⟨rfl, fun _ => rfl⟩
theorem EOK.trans {l : List Nat} {a b c : World} (h1 : EOK l a b) (h2 : EOK l b c) : EOK l a c :=
  ⟨h2.1.trans h1.1, fun h => (h2.2 (by rw [h1.1]; exact h)).trans (h1.2 h)⟩

theorem call_io (w : World) : w.call.2.isOpen = w.isOpen ∧ w.call.2.bad = w.bad := by
  unfold World.call
  split
  · split
    · split <;> exact ⟨rfl, rfl⟩
    · exact ⟨rfl, rfl⟩
  · exact ⟨rfl, rfl⟩

theorem userCall_eok (l : List Nat) (w : World) : EOK l w (userCall w).2 :=
  ⟨(call_io w).1, fun _ => (call_io w).2⟩

theorem emitRes_eok (l : List Nat) (r : Nat) (hr : r ∈ l) (w : World) : EOK l w (emitRes r w).2 := by
  have h := call_io w
  unfold emitRes
  generalize w.call = x at h
  obtain ⟨hit, w1⟩ := x
  obtain ⟨h1, h2⟩ := h
  simp only at h1 h2
  refine ⟨h1, fun ho => ?_⟩
  show (w1.bad || !w1.isOpen r) = w.bad
  rw [h1, h2, ho r hr]; simp

theorem set_shape (ins : List Inp) (i : Nat) (p : Inp) (rest : List Int) (h : ins[i]? = some p) :
    Shape ins (ins.set i { p with rest := rest }) := by
  obtain ⟨hi, rfl⟩ := List.getElem?_eq_some_iff.mp h
  constructor <;>
  · apply List.ext_getElem?
    intro j
    simp only [List.map_set, List.getElem?_set, List.length_map]
    split
    · subst_vars; simp [hi]
    · rfl

theorem pullAt_spec (i : Nat) (ins : List Inp) (w : World) :
    Shape ins (pullAt i ins w).2.1 ∧ EOK (rids ins) w (pullAt i ins w).2.2 := by
  unfold pullAt
  cases hg : ins[i]? with
  | none => exact ⟨Shape.refl _, EOK.refl _ _⟩
  | some p =>
    have hm : p.r ∈ rids ins := by
      obtain ⟨hi, rfl⟩ := List.getElem?_eq_some_iff.mp hg
      exact List.mem_map.mpr ⟨_, List.getElem_mem hi, rfl⟩
    have he := emitRes_eok (rids ins) p.r hm w
    simp only []
    generalize emitRes p.r w = x at he
    obtain ⟨hit, w1⟩ := x
    cases hit with
    | none =>
      cases hr : p.rest with
      | nil => exact ⟨Shape.refl _, he⟩
      | cons y rest => exact ⟨set_shape ins i p rest hg, he⟩
    | err => exact ⟨Shape.refl _, he⟩
    | panic b => exact ⟨Shape.refl _, he⟩

/-- an emit program keeps the shape of the inputs and does to the world only what `EOK` allows — any program -/
theorem runW_spec {σ : Type} (p : Prog σ) : ∀ (ins : List Inp) (w : World),
    Shape ins (runW p ins w).2.2.1 ∧ EOK (rids ins) w (runW p ins w).2.2.2 := by
  induction p with
  | ret row s => intro ins w; exact ⟨Shape.refl _, EOK.refl _ _⟩
  | eof s => intro ins w; exact ⟨Shape.refl _, EOK.refl _ _⟩
  | fail e s => intro ins w; exact ⟨Shape.refl _, EOK.refl _ _⟩
  | oof s => intro ins w; exact ⟨Shape.refl _, EOK.refl _ _⟩
  | ctx s k ih =>
      intro ins w
      simp only [runW]
      split
      · exact ⟨Shape.refl _, EOK.refl _ _⟩
      · exact ih ins w
  | pull i s k ih =>
      intro ins w
      have hp := pullAt_spec i ins w
      simp only [runW]
      generalize pullAt i ins w = x at hp
      obtain ⟨res, ins1, w1⟩ := x
      have step : ∀ o, Shape ins (runW (k o) ins1 w1).2.2.1 ∧ EOK (rids ins) w (runW (k o) ins1 w1).2.2.2 := by
        intro o
        have h2 := ih o ins1 w1
        rw [hp.1.rids] at h2
        exact ⟨hp.1.trans h2.1, hp.2.trans h2.2⟩
      cases res with
      | val v => exact step _
      | eof => exact step _
      | fail e => exact hp
      | panic b => exact hp
      | oof => exact hp
  | call s k ih =>
      intro ins w
      have hu := userCall_eok (rids ins) w
      simp only [runW]
      generalize userCall w = x at hu
      obtain ⟨hit, w1⟩ := x
      cases hit with
      | none =>
        have h2 := ih ins w1
        exact ⟨h2.1, hu.trans h2.2⟩
      | err => exact ⟨Shape.refl _, hu⟩
      | panic b => exact ⟨Shape.refl _, hu⟩

/-! ### opening and closing the inputs -/

theorem openRes_io (r : Nat) (w : World) :
    (∃ u, (openRes r w).1 = .val u ∧ (openRes r w).2.isOpen = upd w.isOpen r true ∧
      (openRes r w).2.bad = (w.bad || w.isOpen r)) ∨
    ((∀ u, (openRes r w).1 ≠ .val u) ∧ (openRes r w).1 ≠ .eof ∧ (openRes r w).1 ≠ .oof ∧
      (openRes r w).2.isOpen = w.isOpen ∧ (openRes r w).2.bad = w.bad) := by
  have h := call_io w
  unfold openRes
  generalize w.call = x at h
  obtain ⟨hit, w1⟩ := x
  obtain ⟨h1, h2⟩ := h
  simp only at h1 h2
  cases hit with
  | none => left; exact ⟨(), rfl, by simp [h1], by simp [h1, h2]⟩
  | err => right; simp [h1, h2]
  | panic b => right; simp [h1, h2]

/-- a result that is neither a value nor EOF / out of fuel -/
def IsFail {α : Type} : Res α → Prop
  | .fail _ => True
  | .panic _ => True
  | _ => False

theorem castRes_isFail {α β : Type} (r : Res α) (h : IsFail r) : IsFail (castRes r : Res β) := by
  cases r <;> simp_all [IsFail, castRes]

/-- the open set after `openIns`: the first `n` inputs were opened (in order), nothing else is touched; `n` is all of
    them iff the result is a value; the opened ones are rewound, the others untouched -/
theorem openIns_spec : ∀ (ps : List Inp) (w : World), (rids ps).Nodup → (∀ r ∈ rids ps, w.isOpen r = false) →
    w.bad = false →
    Shape ps (openIns ps w).2.1 ∧ (openIns ps w).2.2.1 ≤ ps.length ∧ (openIns ps w).2.2.2.bad = false ∧
    (∀ r, (openIns ps w).2.2.2.isOpen r = (decide (r ∈ (rids ps).take (openIns ps w).2.2.1) || w.isOpen r)) ∧
    ((∃ u, (openIns ps w).1 = .val u) ∧ (openIns ps w).2.2.1 = ps.length ∨ IsFail (openIns ps w).1) ∧
    (AtRest ps → AtRest (openIns ps w).2.1)
  | [], w, _, _, hb => by
      simp only [openIns]
      exact ⟨Shape.refl _, Nat.le_refl _, hb, by simp [rids], Or.inl ⟨⟨(), by simp⟩, rfl⟩, fun h => h⟩
  | p :: ps, w, hn, hc, hb => by
      have hn' : p.r ∉ rids ps ∧ (rids ps).Nodup := by simpa [rids] using hn
      have ho := openRes_io p.r w
      rcases hx : openRes p.r w with ⟨res, w1⟩
      rw [hx] at ho
      simp only [openIns, hx]
      rcases ho with ⟨u, h1, h2, h3⟩ | ⟨h1, h1e, h1o, h2, h3⟩
      · simp only at h1 h2 h3
        subst h1
        have hc1 : ∀ r ∈ rids ps, w1.isOpen r = false := by
          intro r hr
          rw [h2]; unfold upd
          have : r ≠ p.r := fun e => hn'.1 (e ▸ hr)
          simp [this, hc r (by simp [rids] at hr ⊢; right; exact hr)]
        have hb1 : w1.bad = false := by rw [h3, hb, hc p.r (by simp [rids])]; rfl
        have ih := openIns_spec ps w1 hn'.2 hc1 hb1
        rcases hy : openIns ps w1 with ⟨res2, ps2, n, w2⟩
        simp only [hy] at ih ⊢
        obtain ⟨i1, i2, i3, i4, i5, i6⟩ := ih
        refine ⟨?_, by simp; omega, i3, ?_, ?_, ?_⟩
        · exact ⟨by simp [i1.1], by simp [i1.2]⟩
        · intro r
          rw [i4 r, h2]
          simp only [rids, List.map_cons, List.take_succ_cons, List.mem_cons, upd]
          by_cases e : r = p.r <;> simp [e] <;> rfl
        · rcases i5 with ⟨i5, i5'⟩ | i5
          · left; exact ⟨i5, by simp [i5']⟩
          · right; exact i5
        · intro ha q hq
          simp only [List.mem_cons] at hq
          rcases hq with rfl | hq
          · rfl
          · exact i6 (fun q hq => ha q (by simp [hq])) q hq
      · simp only at h1 h2 h3 h1e h1o
        cases res with
        | val u => exact absurd rfl (h1 u)
        | eof => exact absurd rfl h1e
        | oof => exact absurd rfl h1o
        | fail e =>
          exact ⟨Shape.refl _, by simp, by simp only [h3]; exact hb, by intro r; simp [h2], Or.inr (by simp [castRes, IsFail]),
            fun h => h⟩
        | panic b =>
          exact ⟨Shape.refl _, by simp, by simp only [h3]; exact hb, by intro r; simp [h2], Or.inr (by simp [castRes, IsFail]),
            fun h => h⟩

/-- the open set after `closeIns n`: the first `n` inputs (open before) are closed, nothing else is touched -/
theorem closeIns_spec : ∀ (n : Nat) (ps : List Inp) (w : World), (rids ps).Nodup →
    (∀ r ∈ (rids ps).take n, w.isOpen r = true) → w.bad = false →
    Shape ps (closeIns n ps w).1 ∧ (closeIns n ps w).2.bad = false ∧
    (∀ r, (closeIns n ps w).2.isOpen r = (!decide (r ∈ (rids ps).take n) && w.isOpen r)) ∧
    (AtRest (ps.drop n) → AtRest (closeIns n ps w).1)
  | 0, ps, w, _, _, hb => by
      simp only [closeIns]
      exact ⟨Shape.refl _, hb, by simp, by simp⟩
  | n+1, [], w, _, _, hb => by
      simp only [closeIns]
      exact ⟨Shape.refl _, hb, by simp [rids], by simp [AtRest]⟩
  | n+1, p :: ps, w, hn, ho, hb => by
      have hn' : p.r ∉ rids ps ∧ (rids ps).Nodup := by simpa [rids] using hn
      have ho' : ∀ r ∈ (rids ps).take n, w.isOpen r = true := by
        intro r hr; exact ho r (by simp [rids] at hr ⊢; right; exact hr)
      have ih := closeIns_spec n ps w hn'.2 ho' hb
      simp only [closeIns]
      generalize closeIns n ps w = y at ih
      obtain ⟨ps2, w2⟩ := y
      simp only at ih ⊢
      obtain ⟨i1, i2, i3, i4⟩ := ih
      have hp : w2.isOpen p.r = true := by
        rw [i3 p.r]
        have : p.r ∉ (rids ps).take n := fun h => hn'.1 (List.mem_of_mem_take h)
        simp [this, ho p.r (by simp [rids])]
      refine ⟨⟨by simp [i1.1], by simp [i1.2]⟩, by simp [closeRes, i2, hp], ?_, ?_⟩
      · intro r
        simp only [closeRes, upd, rids, List.map_cons, List.take_succ_cons, List.mem_cons]
        by_cases e : r = p.r
        · simp [e]
        · simp [e, i3 r]; rfl
      · intro ha q hq
        simp only [List.mem_cons] at hq
        rcases hq with rfl | hq
        · rfl
        · exact i4 (by simpa using ha) q hq

/-! ### the terminal -/

/-- the materialisation is running: every input open, `bad` off -/
def Live {σ : Type} (c : Obj σ) (w : World) : Prop :=
  c.opened = c.ins.length ∧ (∀ r ∈ rids c.ins, w.isOpen r = true) ∧ w.bad = false

theorem emitJ_spec {σ : Type} (prog : σ → Prog σ) (c : Obj σ) (w : World) (h : Live c w) :
    Live (emitJ prog c w).2.1 (emitJ prog c w).2.2 ∧ (emitJ prog c w).2.2.isOpen = w.isOpen ∧
    Shape c.ins (emitJ prog c w).2.1.ins := by
  have hr := runW_spec (prog c.js) c.ins w
  simp only [emitJ]
  generalize runW (prog c.js) c.ins w = x at hr
  obtain ⟨res, s, ins, w1⟩ := x
  obtain ⟨h1, h2, h3⟩ := h
  refine ⟨⟨by simp [h1, hr.1.length], ?_, by rw [hr.2.2 h2]; exact h3⟩, hr.2.1, hr.1⟩
  intro r hr'
  rw [hr.2.1]
  exact h2 r (by rw [← hr.1.rids]; exact hr')

theorem emitT_spec {σ : Type} (prog : σ → Prog σ) (lim : Option Int) (n : Int) (c : Obj σ) (w : World) (h : Live c w) :
    Live (emitT prog lim n c w).2.1 (emitT prog lim n c w).2.2 ∧ (emitT prog lim n c w).2.2.isOpen = w.isOpen ∧
    Shape c.ins (emitT prog lim n c w).2.1.ins := by
  unfold emitT
  cases lim with
  | none => exact emitJ_spec prog c w h
  | some m =>
    simp only []
    split
    · exact ⟨h, rfl, Shape.refl _⟩
    · exact emitJ_spec prog c w h

theorem pullLoopJ_spec {σ : Type} (prog : σ → Prog σ) : ∀ (fuel : Nat) (k : Consumer) (lim : Option Int) (n : Int)
    (c : Obj σ) (acc : List Row) (w : World), Live c w →
    Live (pullLoopJ prog fuel k lim n c acc w).2.2.1 (pullLoopJ prog fuel k lim n c acc w).2.2.2 ∧
    (pullLoopJ prog fuel k lim n c acc w).2.2.2.isOpen = w.isOpen ∧
    Shape c.ins (pullLoopJ prog fuel k lim n c acc w).2.2.1.ins := by
  intro fuel
  induction fuel with
  | zero => intro k lim n c acc w h; exact ⟨h, rfl, Shape.refl _⟩
  | succ f ih =>
    intro k lim n c acc w h
    simp only [pullLoopJ]
    split
    · exact ⟨h, rfl, Shape.refl _⟩
    · have he := emitT_spec prog lim n c w h
      generalize emitT prog lim n c w = x at he
      obtain ⟨res, c1, w1⟩ := x
      simp only at he
      cases res with
      | val v =>
        cases k with
        | collect =>
          have := ih .collect lim (n + 1) c1 (v :: acc) w1 he.1
          exact ⟨this.1, this.2.1.trans he.2.1, he.2.2.trans this.2.2⟩
        | user =>
          simp only []
          have hu := userCall_eok (rids c1.ins) w1
          generalize userCall w1 = y at hu
          obtain ⟨hit, w2⟩ := y
          have hl2 : Live c1 w2 := ⟨he.1.1, by intro r hr; rw [hu.1]; exact he.1.2.1 r hr, by rw [hu.2 he.1.2.1]; exact he.1.2.2⟩
          cases hit with
          | none =>
            have := ih .user lim (n + 1) c1 (v :: acc) w2 hl2
            exact ⟨this.1, this.2.1.trans (hu.1.trans he.2.1), he.2.2.trans this.2.2⟩
          | err => exact ⟨hl2, hu.1.trans he.2.1, he.2.2⟩
          | panic b => exact ⟨hl2, hu.1.trans he.2.1, he.2.2⟩
      | eof => exact he
      | fail e => exact he
      | panic b => exact he
      | oof => exact he

/-- the operator object is at rest: nothing opened, every input rewound, distinct resources -/
def Rested {σ : Type} (c : Obj σ) : Prop := c.opened = 0 ∧ AtRest c.ins ∧ (rids c.ins).Nodup

/-- **C01 for the frame**: from rest to rest, in every world, around any emit program -/
theorem consumeJ_spec {σ : Type} (prog : σ → Prog σ) (fuel : Nat) (k : Consumer) (lim : Option Int) (c : Obj σ)
    (w : World) (hr : Rested c) (hc : ∀ r ∈ rids c.ins, w.isOpen r = false) (hb : w.bad = false) :
    (consumeJ prog fuel k lim c w).1 = .oof ∨
    ((consumeJ prog fuel k lim c w).2.2.bad = false ∧
     (∀ r, (consumeJ prog fuel k lim c w).2.2.isOpen r = w.isOpen r) ∧
     Rested (consumeJ prog fuel k lim c w).2.1 ∧ Shape c.ins (consumeJ prog fuel k lim c w).2.1.ins) := by
  obtain ⟨h0, hrest, hn⟩ := hr
  unfold consumeJ
  split
  · right; split <;> exact ⟨hb, fun _ => rfl, ⟨h0, hrest, hn⟩, Shape.refl _⟩
  · have ho := openIns_spec c.ins w hn hc hb
    unfold openC
    generalize openIns c.ins w = x at ho
    obtain ⟨res, ins1, n, w1⟩ := x
    simp only at ho
    obtain ⟨o1, o2, o3, o4, o5, o6⟩ := ho
    have hn1 : (rids ins1).Nodup := by rw [o1.rids]; exact hn
    -- closing the first `n` of `ins1` from `w1` brings the open set back
    have hcl := closeIns_spec n ins1 w1 hn1
      (by intro r hr; rw [o4 r, ← o1.rids]; simp [hr]) o3
    have back : ∀ r, (closeIns n ins1 w1).2.isOpen r = w.isOpen r := by
      intro r
      rw [hcl.2.2.1 r, o4 r, o1.rids]
      by_cases hm : r ∈ (rids c.ins).take n
      · simp [hm, hc r (List.mem_of_mem_take hm)]
      · simp [hm]
    have rest1 : AtRest (closeIns n ins1 w1).1 :=
      hcl.2.2.2 (fun p hp => o6 hrest p (List.mem_of_mem_drop hp))
    have nd1 : (rids (closeIns n ins1 w1).1).Nodup := by rw [hcl.1.rids]; exact hn1
    cases res with
    | val u =>
      simp only []
      rcases o5 with ⟨_, o5⟩ | o5
      · have htake : (rids c.ins).take n = rids c.ins := List.take_of_length_le (by simp [rids, o5])
        have hl : Live ({ c with ins := ins1, opened := n } : Obj σ) w1 :=
          ⟨by simp [o5, o1.length], by
            intro r hr
            simp only at hr
            rw [o4 r, htake, ← o1.rids]; simp [hr], o3⟩
        have hp := pullLoopJ_spec prog fuel k lim 1 _ [] w1 hl
        generalize pullLoopJ prog fuel k lim 1 ({ c with ins := ins1, opened := n } : Obj σ) [] w1 = y at hp
        obtain ⟨res2, acc, c2, w2⟩ := y
        simp only at hp
        obtain ⟨⟨l1, l2, l3⟩, p2, p3⟩ := hp
        have hn2 : (rids c2.ins).Nodup := by rw [p3.rids]; exact hn1
        have hcl2 := closeIns_spec c2.opened c2.ins w2 hn2 (fun r hr => l2 r (List.mem_of_mem_take hr)) l3
        have fin : (closeFunc c2 w2).2.bad = false ∧ (∀ r, (closeFunc c2 w2).2.isOpen r = w.isOpen r) ∧
            Rested (closeFunc c2 w2).1 ∧ Shape c.ins (closeFunc c2 w2).1.ins := by
          unfold closeFunc
          generalize closeIns c2.opened c2.ins w2 = z at hcl2
          obtain ⟨ins3, w3⟩ := z
          simp only at hcl2 ⊢
          refine ⟨hcl2.2.1, ?_, ⟨rfl, hcl2.2.2.2 (by rw [l1]; simp [AtRest]), by rw [hcl2.1.rids]; exact hn2⟩,
            o1.trans (p3.trans hcl2.1)⟩
          intro r
          have htake2 : (rids c2.ins).take c2.opened = rids c.ins := by
            rw [p3.rids, o1.rids]; exact List.take_of_length_le (by simp [rids, l1, p3.length, o1.length])
          rw [hcl2.2.2.1 r, htake2, p2, o4 r, htake]
          by_cases hm : r ∈ rids c.ins
          · simp [hm, hc r hm]
          · simp [hm]
        cases res2 with
        | oof => left; rfl
        | val u => right; exact fin
        | eof => right; exact fin
        | fail e => right; exact fin
        | panic b => right; exact fin
      · simp [IsFail] at o5
    | fail e =>
      right
      simp only []
      generalize closeIns n ins1 w1 = z at hcl back rest1 nd1
      obtain ⟨ins3, w3⟩ := z
      exact ⟨hcl.2.1, back, ⟨rfl, rest1, nd1⟩, o1.trans hcl.1⟩
    | panic b =>
      right
      simp only []
      generalize closeIns n ins1 w1 = z at hcl back rest1 nd1
      obtain ⟨ins3, w3⟩ := z
      exact ⟨hcl.2.1, back, ⟨rfl, rest1, nd1⟩, o1.trans hcl.1⟩
    | eof => left; simp only []
    | oof => left; simp only []

/-! ### every world predicate kept by the probe primitives is kept by the terminal (trace reading) -/

section prim
open ShpanVerif.Proofs.PipeC01 (PrimInv)
variable {I : World → Prop}

theorem pullAt_prim (hI : PrimInv I) (i : Nat) (ins : List Inp) (w : World) (h : I w) : I (pullAt i ins w).2.2 := by
  unfold pullAt
  cases ins[i]? with
  | none => exact h
  | some p =>
    have he := hI.emitRes p.r w h
    simp only []
    generalize emitRes p.r w = x at he
    obtain ⟨hit, w1⟩ := x
    cases hit with
    | none => cases p.rest <;> exact he
    | err => exact he
    | panic b => exact he

theorem runW_prim {σ : Type} (hI : PrimInv I) (p : Prog σ) : ∀ (ins : List Inp) (w : World), I w →
    I (runW p ins w).2.2.2 := by
  induction p with
  | ret row s => intro ins w h; exact h
  | eof s => intro ins w h; exact h
  | fail e s => intro ins w h; exact h
  | oof s => intro ins w h; exact h
  | ctx s k ih =>
      intro ins w h
      simp only [runW]
      split
      · exact h
      · exact ih ins w h
  | pull i s k ih =>
      intro ins w h
      have hp := pullAt_prim hI i ins w h
      simp only [runW]
      generalize pullAt i ins w = x at hp
      obtain ⟨res, ins1, w1⟩ := x
      cases res with
      | val v => exact ih _ ins1 w1 hp
      | eof => exact ih _ ins1 w1 hp
      | fail e => exact hp
      | panic b => exact hp
      | oof => exact hp
  | call s k ih =>
      intro ins w h
      have hu := hI.call w h
      simp only [runW]
      generalize userCall w = x at hu
      obtain ⟨hit, w1⟩ := x
      cases hit with
      | none => exact ih ins w1 hu
      | err => exact hu
      | panic b => exact hu

theorem openIns_prim (hI : PrimInv I) : ∀ (ps : List Inp) (w : World), I w → I (openIns ps w).2.2.2
  | [], w, h => h
  | p :: ps, w, h => by
      have ho := hI.openRes p.r w h
      rcases hx : openRes p.r w with ⟨res, w1⟩
      rw [hx] at ho
      simp only [openIns, hx]
      cases res with
      | val u => exact openIns_prim hI ps w1 ho
      | eof => exact ho
      | fail e => exact ho
      | panic b => exact ho
      | oof => exact ho

theorem closeIns_prim (hI : PrimInv I) : ∀ (n : Nat) (ps : List Inp) (w : World), I w → I (closeIns n ps w).2
  | 0, ps, w, h => h
  | n+1, [], w, h => h
  | n+1, p :: ps, w, h => by
      simp only [closeIns]
      exact hI.closeRes p.r _ (closeIns_prim hI n ps w h)

theorem emitT_prim {σ : Type} (hI : PrimInv I) (prog : σ → Prog σ) (lim : Option Int) (n : Int) (c : Obj σ) (w : World)
    (h : I w) : I (emitT prog lim n c w).2.2 := by
  have := runW_prim hI (prog c.js) c.ins w h
  unfold emitT emitJ
  cases lim with
  | none => exact this
  | some m =>
    simp only []
    split
    · exact h
    · exact this

theorem pullLoopJ_prim {σ : Type} (hI : PrimInv I) (prog : σ → Prog σ) : ∀ (fuel : Nat) (k : Consumer) (lim : Option Int)
    (n : Int) (c : Obj σ) (acc : List Row) (w : World), I w → I (pullLoopJ prog fuel k lim n c acc w).2.2.2 := by
  intro fuel
  induction fuel with
  | zero => intro k lim n c acc w h; exact h
  | succ f ih =>
    intro k lim n c acc w h
    simp only [pullLoopJ]
    split
    · exact h
    · have he := emitT_prim hI prog lim n c w h
      generalize emitT prog lim n c w = x at he
      obtain ⟨res, c1, w1⟩ := x
      simp only at he
      cases res with
      | val v =>
        cases k with
        | collect => exact ih .collect lim (n + 1) c1 (v :: acc) w1 he
        | user =>
          simp only []
          have hu := hI.call w1 he
          generalize userCall w1 = y at hu
          obtain ⟨hit, w2⟩ := y
          cases hit with
          | none => exact ih .user lim (n + 1) c1 (v :: acc) w2 hu
          | err => exact hu
          | panic b => exact hu
      | eof => exact he
      | fail e => exact he
      | panic b => exact he
      | oof => exact he

theorem consumeJ_prim {σ : Type} (hI : PrimInv I) (prog : σ → Prog σ) (fuel : Nat) (k : Consumer) (lim : Option Int)
    (c : Obj σ) (w : World) (h : I w) : I (consumeJ prog fuel k lim c w).2.2 := by
  unfold consumeJ
  split
  · split <;> exact h
  · have ho := openIns_prim hI c.ins w h
    unfold openC
    generalize openIns c.ins w = x at ho
    obtain ⟨res, ins1, n, w1⟩ := x
    simp only at ho
    have hc := closeIns_prim hI n ins1 w1 ho
    cases res with
    | val u =>
      simp only []
      have hp := pullLoopJ_prim hI prog fuel k lim 1 ({ c with ins := ins1, opened := n } : Obj σ) [] w1 ho
      generalize pullLoopJ prog fuel k lim 1 ({ c with ins := ins1, opened := n } : Obj σ) [] w1 = y at hp
      obtain ⟨res2, acc, c2, w2⟩ := y
      simp only at hp
      have hc2 := closeIns_prim hI c2.opened c2.ins w2 hp
      cases res2 <;> first | exact hp | exact hc2
    | fail e => exact hc
    | panic b => exact hc
    | eof => exact hc
    | oof => exact hc

end prim

end ShpanVerif.Proofs.JoinLife
