/-
Helper lemmas for C20 (file part): splitting on '\n', `lastIdxNL`, `trimLine`, and the list-level specification
`revSpec` of what the reverse scanner still has to yield from an unconsumed prefix of the file.
-/
import ShpanVerif.Model.FileScan


set_option autoImplicit false
namespace ShpanVerif.Proofs.FileScan
open List ShpanVerif.Model.FileScan

/-! ### splitNL -/

theorem splitNL_nil : splitNL [] = [[]] := rfl

theorem splitNL_cons (x : UInt8) (xs : Bytes) : splitNL (x :: xs) = splitStep x (splitNL xs) := by
  simp [splitNL]

theorem splitNL_ne_nil (l : Bytes) : splitNL l ≠ [] := by
  induction l with
  | nil => simp [splitNL_nil]
  | cons x xs ih =>
    rw [splitNL_cons]; unfold splitStep
    split
    · simp
    · split <;> simp

theorem splitStep_append (x : UInt8) (l1 l2 : List Bytes) (h : l1 ≠ []) :
    splitStep x (l1 ++ l2) = splitStep x l1 ++ l2 := by
  cases l1 with
  | nil => exact absurd rfl h
  | cons s ss => unfold splitStep; split <;> simp

theorem splitNL_append_NL (a b : Bytes) : splitNL (a ++ NL :: b) = splitNL a ++ splitNL b := by
  induction a with
  | nil => simp [splitNL_cons, splitNL_nil, splitStep]
  | cons x a ih =>
    simp only [cons_append, splitNL_cons, ih]
    exact splitStep_append x _ _ (splitNL_ne_nil a)

theorem splitNL_noNL {l : Bytes} (h : NL ∉ l) : splitNL l = [l] := by
  induction l with
  | nil => rfl
  | cons x xs ih =>
    have hx : ¬ (x == NL) = true := by
      intro hx; have : x = NL := by simpa using hx
      exact h (by simp [this])
    have hxs : NL ∉ xs := fun hm => h (mem_cons_of_mem _ hm)
    rw [splitNL_cons, ih hxs]; simp [splitStep, hx]

theorem splitNL_snoc {a b : Bytes} (h : NL ∉ b) : splitNL (a ++ NL :: b) = splitNL a ++ [b] := by
  rw [splitNL_append_NL, splitNL_noNL h]

/-- The first segment is empty exactly for the empty input or an input that starts with '\n'. -/
theorem splitNL_head_cons {x : UInt8} {xs : Bytes} (hx : x ≠ NL) :
    ∃ s ss, splitNL (x :: xs) = (x :: s) :: ss := by
  have hx' : ¬ (x == NL) = true := by simpa using hx
  rw [splitNL_cons]
  cases h : splitNL xs with
  | nil => exact absurd h (splitNL_ne_nil xs)
  | cons s ss => exact ⟨s, ss, by simp [splitStep, hx']⟩

/-! ### lastIdxNL -/

theorem lastIdxNL_nil : lastIdxNL [] = none := rfl

theorem lastIdxNL_cons (x : UInt8) (xs : Bytes) : lastIdxNL (x :: xs) = lastIdxStep x (lastIdxNL xs) := by
  simp [lastIdxNL]

theorem lastIdxNL_none {l : Bytes} : lastIdxNL l = none ↔ NL ∉ l := by
  induction l with
  | nil => simp [lastIdxNL_nil]
  | cons x xs ih =>
    rw [lastIdxNL_cons]; unfold lastIdxStep
    cases h : lastIdxNL xs with
    | some i =>
      have : ¬ NL ∉ xs := fun hn => by rw [ih.mpr hn] at h; cases h
      simp only [reduceCtorEq, false_iff, mem_cons, not_or, not_and, Decidable.not_not]
      intro _; exact Decidable.of_not_not this
    | none =>
      have hn := ih.mp h
      by_cases hx : x = NL
      · simp [hx]
      · have : ¬ (x == NL) = true := by simpa using hx
        simp only [this, Bool.false_eq_true, if_false, mem_cons, not_or, true_iff]
        exact ⟨fun e => hx e.symm, hn⟩

theorem lastIdxNL_some {l : Bytes} {i : Nat} (h : lastIdxNL l = some i) :
    ∃ a b, l = a ++ NL :: b ∧ a.length = i ∧ NL ∉ b := by
  induction l generalizing i with
  | nil => simp [lastIdxNL_nil] at h
  | cons x xs ih =>
    rw [lastIdxNL_cons] at h; unfold lastIdxStep at h
    cases hx : lastIdxNL xs with
    | some j =>
      rw [hx] at h; simp only [Option.some.injEq] at h
      obtain ⟨a, b, rfl, hl, hb⟩ := ih hx
      exact ⟨x :: a, b, by simp, by simp [hl, h], hb⟩
    | none =>
      rw [hx] at h
      by_cases hxe : (x == NL) = true
      · simp only [hxe, if_true, Option.some.injEq] at h
        have : x = NL := by simpa using hxe
        exact ⟨[], xs, by simp [this], by simp [← h], lastIdxNL_none.mp hx⟩
      · simp [hxe] at h

/-- Decomposition at the last '\n' is unique. -/
theorem lastNL_unique {a b a' b' : Bytes} (h : a ++ NL :: b = a' ++ NL :: b') (hb : NL ∉ b) (hb' : NL ∉ b') :
    a = a' ∧ b = b' := by
  induction a generalizing a' with
  | nil =>
    cases a' with
    | nil => simpa using h
    | cons y a' =>
      simp only [nil_append, cons_append, cons.injEq] at h
      exact absurd (h.2 ▸ (by simp : NL ∈ a' ++ NL :: b')) hb
  | cons x a ih =>
    cases a' with
    | nil =>
      simp only [nil_append, cons_append, cons.injEq] at h
      exact absurd (h.2 ▸ (by simp : NL ∈ a ++ NL :: b)) hb'
    | cons y a' =>
      simp only [cons_append, cons.injEq] at h
      obtain ⟨rfl, e⟩ := ih h.2
      exact ⟨by rw [h.1], e⟩

/-! ### trimLine (the token function) -/

/-- The data handed to `trimLine` by `ScanLines` starts with the '\n' of the previous line: what is left is the raw
line without one trailing '\r'. -/
theorem trimLine_NL_cons (b : Bytes) : trimLine (NL :: b) = dropCR b := by
  simp [trimLine]

/-- Data without any '\n' (the first line of the file in the `rOffset == 0` branch). -/
theorem trimLine_of_noNL {b : Bytes} (h : NL ∉ b) : trimLine b = dropCR b := by
  cases b with
  | nil => rfl
  | cons c r =>
    have hc : ¬ (c == NL) = true := by
      intro hc; have : c = NL := by simpa using hc
      exact h (by simp [this])
    simp [trimLine, hc]

theorem lineToken_false (d : Bytes) : lineToken false d = trimLine d := rfl

/-! ### what the reverse scanner yields from an unconsumed prefix `g` of the file -/

/-- From right to left: the segments without one trailing '\r' each, except that an empty first segment is not
yielded (this is where a leading empty line gets lost). -/
def revSpec (g : Bytes) : List Bytes :=
  match splitNL g with
  | [] => []
  | h :: t => t.reverse.map dropCR ++ (if h = [] then [] else [dropCR h])

theorem revSpec_noNL {g : Bytes} (h : NL ∉ g) : revSpec g = if g = [] then [] else [dropCR g] := by
  unfold revSpec; rw [splitNL_noNL h]; simp

theorem revSpec_snoc {a b : Bytes} (h : NL ∉ b) : revSpec (a ++ NL :: b) = dropCR b :: revSpec a := by
  unfold revSpec; rw [splitNL_snoc h]
  cases hs : splitNL a with
  | nil => exact absurd hs (splitNL_ne_nil a)
  | cons s ss => simp

theorem revSpec_nil : revSpec [] = [] := by simp [revSpec, splitNL_nil]

/-- If the first segment is not empty nothing is lost: all segments, right to left. -/
theorem revSpec_of_head {x : UInt8} {xs : Bytes} (hx : x ≠ NL) :
    revSpec (x :: xs) = (splitNL (x :: xs)).reverse.map dropCR := by
  obtain ⟨s, ss, h⟩ := splitNL_head_cons (xs := xs) hx
  unfold revSpec; rw [h]; simp

end ShpanVerif.Proofs.FileScan
