/-
Helper lemmas for C10/C11: dynamic tags of the values produced by the operator tables of Model/Query.lean.
-/
import ShpanVerif.Model.Query

namespace ShpanVerif.Proofs.Query
open ShpanVerif.Model.Query

variable {D : Type}

/-- the value has the Go type of `dt`; `nil` only if not required -/
def tagOk (dt : DataType) (req : Bool) : Val D → Prop
  | .nil => req = false
  | .int _ => dt = .integer
  | .dec _ => dt = .decimal
  | .str _ => dt = .string
  | .bool _ => dt = .boolean
  | .ts _ => dt = .timestamp

/-- non-nil value of type `dt` -/
abbrev hasTag (dt : DataType) (v : Val D) : Prop := tagOk dt true v

theorem tagOk_weaken {dt : DataType} {r : Bool} {v : Val D} (h : hasTag dt v) : tagOk dt r v := by
  cases v <;> simp_all [tagOk]

theorem hasTag_not_nil {dt : DataType} {v : Val D} (h : hasTag dt v) : v.isNil = false := by
  cases v <;> simp_all [tagOk, Val.isNil]

theorem tagOk_nil (dt : DataType) : tagOk (D := D) dt false .nil := rfl

/-- a value that is allowed by `(dt, req)` and is not nil has tag `dt` -/
theorem hasTag_of_tagOk {dt : DataType} {r : Bool} {v : Val D} (h : tagOk dt r v) (hn : v.isNil = false) :
    hasTag dt v := by
  cases v <;> simp_all [tagOk, Val.isNil]

theorem hasTag_of_required {dt : DataType} {r : Bool} {v : Val D} (h : tagOk dt r v) (hr : r = true) :
    hasTag dt v := by subst hr; exact h

variable (O : Ops D)

theorem binFunc_tag {op : BinOp} {dt : DataType} {f : Val D → Val D → Option (Val D)}
    (hf : binFunc O op dt = some f) {a b x : Val D} (hx : f a b = some x) : hasTag dt x := by
  cases dt <;> simp only [binFunc, Option.map_eq_some_iff, reduceCtorEq] at hf
  · obtain ⟨g, _, rfl⟩ := hf
    cases a <;> cases b <;> simp at hx
    obtain ⟨y, _, rfl⟩ := hx
    rfl
  · obtain ⟨g, _, rfl⟩ := hf
    cases a <;> cases b <;> simp at hx
    subst hx
    rfl

theorem binFunc_numeric {op : BinOp} {dt : DataType} {f : Val D → Val D → Option (Val D)}
    (hf : binFunc O op dt = some f) : dt.isNumeric = true := by
  cases dt <;> simp_all [binFunc, DataType.isNumeric]

theorem unFunc_tag {op : UnOp} {dt : DataType} {f : Val D → Option (Val D)}
    (hf : unFunc O op dt = some f) {a x : Val D} (hx : f a = some x) : hasTag dt x := by
  cases dt <;> simp only [unFunc, Option.map_eq_some_iff, reduceCtorEq] at hf
  · obtain ⟨g, _, rfl⟩ := hf
    cases a <;> simp at hx
    subst hx
    rfl
  · split at hf
    · simp at hf
    · simp only [Option.some.injEq] at hf
      subst hf
      cases a <;> simp at hx
      subst hx
      rfl

theorem logicFunc_tag {op : LogicOp} {f : Val D → Val D → Option (Val D)}
    (hf : logicFunc op = some f) {a b x : Val D} (hx : f a b = some x) : hasTag .boolean x := by
  cases op <;> simp only [logicFunc, Option.some.injEq, reduceCtorEq] at hf
  · subst hf
    cases a with
    | bool ba =>
      cases ba
      · simp at hx; subst hx; rfl
      · cases b <;> simp at hx
        subst hx; rfl
    | _ => simp at hx
  · subst hf
    cases a with
    | bool ba =>
      cases ba
      · cases b <;> simp at hx
        subst hx; rfl
      · simp at hx; subst hx; rfl
    | _ => simp at hx

theorem castFunc_tag {src tgt : DataType} {cf : Val D → Option (Val D)}
    (hf : castFunc O src tgt = some cf) {v x : Val D} (hv : hasTag src v) (hx : cf v = some x) : hasTag tgt x := by
  unfold castFunc at hf
  split at hf
  · -- identity
    rename_i heq
    simp only [Option.some.injEq] at hf
    subst hf; subst heq
    simp only [Option.some.injEq] at hx
    subst hx; exact hv
  · split at hf
    · simp at hf
    · split at hf
      · simp at hf
      · split at hf <;> simp only [Option.some.injEq, reduceCtorEq] at hf <;> subst hf <;> cases v <;> simp at hx
        · subst hx; rfl
        · subst hx; rfl
        · subst hx; rfl
        · subst hx; rfl
        · obtain ⟨y, _, rfl⟩ := hx; rfl
        · obtain ⟨y, _, rfl⟩ := hx; rfl

theorem forceCast_tag {dt : DataType} {v x : Val D} (h : forceCast O dt v = some x) : hasTag dt x := by
  cases dt <;> cases v <;> simp only [forceCast, Option.some.injEq, Option.map_eq_some_iff, reduceCtorEq] at h <;>
    first
    | (subst h; rfl)
    | (obtain ⟨y, _, rfl⟩ := h; rfl)

theorem allInts_some {vs : List (Val D)} {l : List Int} (h : allInts vs = some l) : l.length = vs.length := by
  induction vs generalizing l with
  | nil => simp [allInts] at h; subst h; rfl
  | cons v vs ih =>
    cases v <;> simp [allInts] at h
    obtain ⟨l', hl, rfl⟩ := h
    simp [ih hl]

theorem redFunc_tag {rt : RedType} {dt : DataType} {rf : List (Val D) → Option (Val D)}
    (hnum : dt.isNumeric = true) (hf : redFunc O rt dt = some rf) {vs : List (Val D)} {x : Val D}
    (hx : rf vs = some x) : hasTag (redResultType rt dt) x := by
  have hdt : dt = .integer ∨ dt = .decimal := by
    cases dt <;> simp_all [DataType.isNumeric]
  cases rt <;> simp only [redFunc, Option.some.injEq, reduceCtorEq] at hf <;> subst hf
  all_goals
    rcases hdt with rfl | rfl
    all_goals
      simp only [reduceCtorEq, ↓reduceIte, Option.map_eq_some_iff, Option.bind_eq_some_iff,
        Option.some.injEq] at hx
      first
      | (obtain ⟨l, _, rfl⟩ := hx; rfl)
      | (obtain ⟨l, _, hx⟩ := hx
         cases l <;> simp at hx
         subst hx; rfl)
      | (subst hx; rfl)

end ShpanVerif.Proofs.Query
