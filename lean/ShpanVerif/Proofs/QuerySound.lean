/-
C10 helper lemmas, value level: every `…K` combinator of Model/Query.lean preserves "the evaluated value has the
declared tag, nil only if declared optional"; `Conforms` and its list lemmas.
-/
import ShpanVerif.Model.QueryExec
import ShpanVerif.Proofs.QueryTags

namespace ShpanVerif.Proofs.Query
open ShpanVerif.Model.Query

variable {D : Type}

/-- a row's cells match the declared schema: one cell per field, nil only where not required, tag = declared type -/
def Conforms : List FieldMeta → List (Val D) → Prop
  | [], [] => True
  | m :: ms, v :: vs => tagOk m.dt m.required v ∧ Conforms ms vs
  | _, _ => False

theorem Conforms.length_eq : ∀ {fms : List FieldMeta} {vs : List (Val D)}, Conforms fms vs → vs.length = fms.length
  | [], [], _ => rfl
  | _ :: ms, _ :: vs, h => by simp [Conforms.length_eq (fms := ms) (vs := vs) h.2]
  | [], _ :: _, h => by simp [Conforms] at h
  | _ :: _, [], h => by simp [Conforms] at h

theorem Conforms.get : ∀ {fms : List FieldMeta} {vs : List (Val D)}, Conforms fms vs →
    ∀ {i : Nat} {m : FieldMeta}, fms[i]? = some m → ∃ v, vs[i]? = some v ∧ tagOk m.dt m.required v
  | [], [], _, i, m, hm => by simp at hm
  | m0 :: ms, v :: vs, h, 0, m, hm => by
      simp at hm; subst hm; exact ⟨v, rfl, h.1⟩
  | m0 :: ms, v :: vs, h, i + 1, m, hm => by
      simp at hm
      simpa using Conforms.get (fms := ms) (vs := vs) h.2 hm
  | [], _ :: _, h, _, _, _ => by simp [Conforms] at h
  | _ :: _, [], h, _, _, _ => by simp [Conforms] at h

theorem Conforms.append : ∀ {f1 f2 : List FieldMeta} {v1 v2 : List (Val D)},
    Conforms f1 v1 → Conforms f2 v2 → Conforms (f1 ++ f2) (v1 ++ v2)
  | [], _, [], _, _, h2 => by simpa using h2
  | m :: ms, _, v :: vs, _, h1, h2 => ⟨h1.1, Conforms.append (f1 := ms) (v1 := vs) h1.2 h2⟩
  | [], _, _ :: _, _, h1, _ => by simp [Conforms] at h1
  | _ :: _, _, [], _, h1, _ => by simp [Conforms] at h1

theorem Conforms.single {m : FieldMeta} {v : Val D} (h : tagOk m.dt m.required v) : Conforms [m] [v] :=
  ⟨h, trivial⟩

theorem Conforms.set : ∀ {fms : List FieldMeta} {vs : List (Val D)} {i : Nat} {m : FieldMeta} {v : Val D},
    Conforms fms vs → tagOk m.dt m.required v → Conforms (fms.set i m) (vs.set i v)
  | [], [], _, _, _, h, _ => by simpa using h
  | _ :: ms, _ :: vs, 0, _, _, h, hv => ⟨hv, h.2⟩
  | _ :: ms, _ :: vs, i + 1, _, _, h, hv => ⟨h.1, Conforms.set (fms := ms) (vs := vs) h.2 hv⟩
  | [], _ :: _, _, _, _, h, _ => by simp [Conforms] at h
  | _ :: _, [], _, _, _, h, _ => by simp [Conforms] at h

/-- the suffix of a conforming row conforms to the suffix of the schema -/
theorem Conforms.drop_append : ∀ {f1 f2 : List FieldMeta} {vs : List (Val D)},
    Conforms (f1 ++ f2) vs → Conforms f2 (vs.drop f1.length)
  | [], _, _, h => by simpa using h
  | _ :: ms, _, _ :: vs, h => by simpa using Conforms.drop_append (f1 := ms) h.2
  | _ :: _, _, [], h => by simp [Conforms] at h

theorem Conforms.nils : ∀ {fms : List FieldMeta}, (∀ m ∈ fms, m.required = false) →
    Conforms (D := D) fms (List.replicate fms.length .nil)
  | [], _ => trivial
  | m :: ms, h => ⟨h m (by simp), by
      simpa using Conforms.nils (fms := ms) (fun m' hm' => h m' (by simp [hm']))⟩

/-- relaxing `required` keeps conformance -/
theorem tagOk_relax {dt : DataType} {r : Bool} {v : Val D} (h : tagOk dt r v) : tagOk dt false v := by
  cases v <;> simp_all [tagOk]

/-! ## value combinators -/

/-- every value a planned field value yields on an admissible row has the declared tag -/
def SoundP {ρ : Type} (P : ρ → Prop) (p : Planned ρ D) : Prop :=
  ∀ row, P row → ∀ x, p.2 row = some x → tagOk p.1.dt p.1.required x

variable (O : Ops D) {ρ : Type} {P : ρ → Prop}

theorem constK_sound {vm : ValueMeta} {v : Val D} {p : Planned ρ D} (h : constK O vm v = .ok p) : SoundP P p := by
  intro row _ x hx
  cases v with
  | nil =>
    simp only [constK] at h
    split at h
    · simp at h
    · simp only [Except.ok.injEq] at h; subst h
      simp only [Option.some.injEq] at hx; subst hx
      rename_i hr
      simp only [Bool.not_eq_true] at hr
      simp [tagOk, hr]
  | int _ | dec _ | str _ | bool _ | ts _ =>
    simp only [constK] at h
    split at h
    · simp at h
    · rename_i v' hv'
      simp only [Except.ok.injEq] at h; subst h
      simp only [Option.some.injEq] at hx; subst hx
      exact tagOk_weaken (forceCast_tag O hv')

theorem castK_sound {t : DataType} {s p : Planned ρ D} (hs : SoundP P s) (h : castK O t s = .ok p) : SoundP P p := by
  intro row hrow x hx
  simp only [castK] at h
  split at h
  · simp at h
  · rename_i cf hcf
    simp only [Except.ok.injEq] at h; subst h
    simp only [Option.bind_eq_some_iff] at hx
    obtain ⟨v, hv, hx⟩ := hx
    have hv' := hs row hrow v hv
    by_cases hr : s.1.required = true
    · simp only [hr, if_true] at hx
      rw [hr] at hv'
      simpa [hr] using castFunc_tag O hcf hv' hx
    · simp only [hr] at hx
      simp only [Bool.not_eq_true] at hr
      cases v with
      | nil => simp [nilWrap1] at hx; subst hx; simp [tagOk, hr]
      | int _ | dec _ | str _ | bool _ | ts _ =>
        simp only [Bool.false_eq_true, ↓reduceIte, nilWrap1] at hx
        exact tagOk_weaken (castFunc_tag O hcf (hasTag_of_tagOk hv' rfl) hx)

theorem condK_sound {op : CondOp} {a b p : Planned ρ D} (h : condK O op a b = .ok p) : SoundP P p := by
  intro row _ x hx
  simp only [condK] at h
  split at h
  · simp at h
  · split at h
    · simp at h
    · simp only [Except.ok.injEq] at h; subst h
      simp only [Option.bind_eq_some_iff, Option.map_eq_some_iff] at hx
      obtain ⟨_, _, _, _, _, _, rfl⟩ := hx
      rfl

theorem numK_sound {op : BinOp} {a b p : Planned ρ D} (h : numK O op a b = .ok p) : SoundP P p := by
  intro row _ x hx
  simp only [numK] at h
  repeat (split at h; · simp at h)
  rename_i f hf
  simp only [Except.ok.injEq] at h; subst h
  simp only [Option.bind_eq_some_iff] at hx
  obtain ⟨va, _, vb, _, hx⟩ := hx
  by_cases hr : (a.1.required && b.1.required) = true
  · simp only [hr, Bool.not_true, Bool.false_eq_true, ↓reduceIte] at hx
    exact tagOk_weaken (binFunc_tag O hf hx)
  · simp only [hr, Bool.not_false, ↓reduceIte] at hx
    simp only [Bool.not_eq_true] at hr
    simp only [nilWrap2] at hx
    split at hx
    · simp only [Option.some.injEq] at hx; subst hx; simp [tagOk, hr]
    · exact tagOk_weaken (binFunc_tag O hf hx)

theorem unK_sound {op : UnOp} {a p : Planned ρ D} (h : unK O op a = .ok p) : SoundP P p := by
  intro row _ x hx
  simp only [unK] at h
  repeat (split at h; · simp at h)
  rename_i f hf
  simp only [Except.ok.injEq] at h; subst h
  simp only [Option.bind_eq_some_iff] at hx
  obtain ⟨va, _, hx⟩ := hx
  by_cases hr : a.1.required = true
  · simp only [hr, Bool.not_true, Bool.false_eq_true, ↓reduceIte] at hx
    exact tagOk_weaken (unFunc_tag O hf hx)
  · simp only [hr, Bool.not_false, ↓reduceIte] at hx
    simp only [Bool.not_eq_true] at hr
    cases va with
    | nil => simp [nilWrap1] at hx; subst hx; simp [tagOk, hr]
    | int _ | dec _ | str _ | bool _ | ts _ =>
      simp only [nilWrap1] at hx
      exact tagOk_weaken (unFunc_tag O hf hx)

theorem logicK_sound {op : LogicOp} {a b p : Planned ρ D} (h : logicK op a b = .ok p) : SoundP P p := by
  intro row _ x hx
  simp only [logicK] at h
  repeat (split at h; · simp at h)
  rename_i f hf
  simp only [Except.ok.injEq] at h; subst h
  simp only [Option.bind_eq_some_iff] at hx
  obtain ⟨va, _, vb, _, hx⟩ := hx
  exact tagOk_weaken (logicFunc_tag hf hx)

theorem nvlK_sound {s alt p : Planned ρ D} (hs : SoundP P s) (ha : SoundP P alt) (h : nvlK s alt = .ok p) :
    SoundP P p := by
  intro row hrow x hx
  simp only [nvlK] at h
  split at h
  · simp at h
  · rename_i hdt
    split at h
    · simp at h
    · rename_i hreq
      have hreq : alt.1.required = true := by cases h' : alt.1.required <;> simp_all
      simp only [ne_eq, Decidable.not_not] at hdt
      simp only [Except.ok.injEq] at h; subst h
      simp only at hx ⊢
      split at hx
      · rename_i hsr
        have := hs row hrow x hx
        rw [hsr] at this
        exact this
      · split at hx
        · simp at hx
        · have := ha row hrow x hx
          rw [hreq, ← hdt] at this
          exact this
        · rename_i v hnn hv
          simp only [Option.some.injEq] at hx; subst hx
          have := hs row hrow _ hv
          refine hasTag_of_tagOk this ?_
          cases v <;> simp_all [Val.isNil]

theorem selK_sound {c t f p : Planned ρ D} (ht : SoundP P t) (hf : SoundP P f) (h : selK c t f = .ok p) :
    SoundP P p := by
  intro row hrow x hx
  simp only [selK] at h
  repeat (split at h; · simp at h)
  rename_i _ _ hdt hunit hreq
  simp only [ne_eq, Decidable.not_not] at hdt hreq
  simp only [Except.ok.injEq] at h; subst h
  simp only at hx ⊢
  split at hx
  · exact ht row hrow x hx
  · have := hf row hrow x hx
    rw [← hdt, ← hreq] at this
    exact this
  · simp at hx


/-! ## refs, reduce, and whole values -/

theorem findField_spec {urn : String} : ∀ {fms : List FieldMeta} {m : FieldMeta} {i : Nat},
    findField urn fms = some (m, i) → fms[i]? = some m ∧ m.urn = urn
  | [], _, _, h => by simp [findField] at h
  | m0 :: ms, m, i, h => by
    simp only [findField] at h
    split at h
    · simp only [Option.some.injEq, Prod.mk.injEq] at h
      obtain ⟨rfl, rfl⟩ := h
      simp_all
    · simp only [Option.map_eq_some_iff] at h
      obtain ⟨⟨m', j⟩, hj, heq⟩ := h
      simp only [Prod.mk.injEq] at heq
      obtain ⟨rfl, rfl⟩ := heq
      simpa using findField_spec hj

theorem findField_none {urn : String} : ∀ {fms : List FieldMeta},
    findField urn fms = none → ∀ m ∈ fms, m.urn ≠ urn
  | [], _ => by simp
  | m0 :: ms, h => by
    simp only [findField] at h
    split at h
    · simp at h
    · rename_i hne
      simp only [Option.map_eq_none_iff] at h
      intro m hm
      rcases List.mem_cons.mp hm with rfl | hm
      · exact hne
      · exact findField_none h m hm

theorem hasField_iff {fms : List FieldMeta} {urn : String} : hasField fms urn = true ↔ ∃ m ∈ fms, m.urn = urn := by
  simp [hasField]

theorem refR_sound {urn : String} {fms : List FieldMeta} {p : Planned (List (Val D)) D}
    (h : refR urn fms = .ok p) : SoundP (Conforms fms) p := by
  intro row hrow x hx
  simp only [refR] at h
  split at h
  · simp at h
  · rename_i m idx hf
    simp only [Except.ok.injEq] at h; subst h
    obtain ⟨hm, _⟩ := findField_spec hf
    obtain ⟨v, hv, htag⟩ := hrow.get hm
    simp only at hx
    rw [hv] at hx
    simp only [Option.some.injEq] at hx; subst hx
    exact htag

theorem refD_sound {fm : FieldMeta} {p : Planned (Val D) D} (h : refD fm = .ok p) :
    SoundP (fun x => tagOk fm.dt fm.required x) p := by
  intro row hrow x hx
  simp only [refD, Except.ok.injEq] at h; subst h
  simp only [Option.some.injEq] at hx; subst hx
  exact hrow

/-- shape of a successfully planned reduce value -/
theorem reduceR_ok {rt : RedType} {urns : Option (List String)} {fms : List FieldMeta}
    {p : Planned (List (Val D)) D} (h : reduceR O rt urns fms = .ok p) :
    ∃ m0 i0 rest rf unit, reducePick urns fms = (m0, i0) :: rest ∧ m0.dt.isNumeric = true ∧ m0.required = true ∧
      reduceCheckRest m0.dt (rest.map (·.1)) = .ok () ∧ redFunc O rt m0.dt = some rf ∧
      p = ({ dt := redResultType rt m0.dt, unit := unit, required := true, custom := none },
           fun row => ((reducePick urns fms).mapM fun q => row[q.2]?).bind rf) := by
  unfold reduceR at h
  simp only at h
  split at h
  · simp at h
  · split at h
    · simp at h
    · rename_i m0 i0 rest hpick
      split at h
      · simp at h
      · rename_i hnum
        split at h
        · simp at h
        · rename_i hreq
          split at h
          · simp at h
          · rename_i hrest
            split at h
            · simp at h
            · rename_i rf hrf
              simp only [Except.ok.injEq] at h
              refine ⟨m0, i0, rest, rf,
                (if allSameUnit m0.unit (List.map (fun x => x.fst) rest) = true then m0.unit else ""),
                hpick, ?_, ?_, hrest, hrf, ?_⟩
              · cases h' : m0.dt.isNumeric <;> simp_all
              · cases h' : m0.required <;> simp_all
              · rw [← h]

theorem reduceR_sound {rt : RedType} {urns : Option (List String)} {fms : List FieldMeta}
    {p : Planned (List (Val D)) D} {P : List (Val D) → Prop} (h : reduceR O rt urns fms = .ok p) : SoundP P p := by
  intro row _ x hx
  obtain ⟨m0, i0, rest, rf, unit, _, hnum, _, _, hrf, rfl⟩ := reduceR_ok O h
  simp only [Option.bind_eq_some_iff] at hx
  obtain ⟨vs, _, hx⟩ := hx
  exact tagOk_weaken (redFunc_tag O hnum hrf hx)

theorem planRVal_sound : ∀ (v : RVal D) {fms : List FieldMeta} {p : Planned (List (Val D)) D},
    planRVal O v fms = .ok p → SoundP (Conforms fms) p
  | .const vm c, _, _, h => constK_sound O (by simpa [planRVal] using h)
  | .ref urn, _, _, h => refR_sound (by simpa [planRVal] using h)
  | .cast s t, fms, p, h => by
    simp only [planRVal, bind, Except.bind] at h
    split at h
    · simp at h
    · rename_i ps hs
      exact castK_sound O (planRVal_sound s hs) h
  | .cond op a b, fms, p, h => by
    simp only [planRVal, bind, Except.bind] at h
    split at h
    · simp at h
    · split at h
      · simp at h
      · exact condK_sound O h
  | .num op a b, fms, p, h => by
    simp only [planRVal, bind, Except.bind] at h
    split at h
    · simp at h
    · split at h
      · simp at h
      · exact numK_sound O h
  | .un op a, fms, p, h => by
    simp only [planRVal, bind, Except.bind] at h
    split at h
    · simp at h
    · exact unK_sound O h
  | .logic op a b, fms, p, h => by
    simp only [planRVal, bind, Except.bind] at h
    split at h
    · simp at h
    · split at h
      · simp at h
      · exact logicK_sound h
  | .nvl s alt, fms, p, h => by
    simp only [planRVal, bind, Except.bind] at h
    split at h
    · simp at h
    · rename_i ps hs
      split at h
      · simp at h
      · rename_i pa ha
        exact nvlK_sound (planRVal_sound s hs) (planRVal_sound alt ha) h
  | .sel c t f, fms, p, h => by
    simp only [planRVal, bind, Except.bind] at h
    split at h
    · simp at h
    · split at h
      · simp at h
      · rename_i pt ht
        split at h
        · simp at h
        · rename_i pf hf
          exact selK_sound (planRVal_sound t ht) (planRVal_sound f hf) h
  | .reduce rt urns, _, _, h => reduceR_sound O (by simpa [planRVal] using h)

theorem planDVal_sound : ∀ (v : DVal D) {fm : FieldMeta} {p : Planned (Val D) D},
    planDVal O v fm = .ok p → SoundP (fun x => tagOk fm.dt fm.required x) p
  | .const vm c, _, _, h => constK_sound O (by simpa [planDVal] using h)
  | .ref, _, _, h => refD_sound (by simpa [planDVal] using h)
  | .cast s t, fm, p, h => by
    simp only [planDVal, bind, Except.bind] at h
    split at h
    · simp at h
    · rename_i ps hs
      exact castK_sound O (planDVal_sound s hs) h
  | .cond op a b, fm, p, h => by
    simp only [planDVal, bind, Except.bind] at h
    split at h
    · simp at h
    · split at h
      · simp at h
      · exact condK_sound O h
  | .num op a b, fm, p, h => by
    simp only [planDVal, bind, Except.bind] at h
    split at h
    · simp at h
    · split at h
      · simp at h
      · exact numK_sound O h
  | .un op a, fm, p, h => by
    simp only [planDVal, bind, Except.bind] at h
    split at h
    · simp at h
    · exact unK_sound O h
  | .logic op a b, fm, p, h => by
    simp only [planDVal, bind, Except.bind] at h
    split at h
    · simp at h
    · split at h
      · simp at h
      · exact logicK_sound h
  | .nvl s alt, fm, p, h => by
    simp only [planDVal, bind, Except.bind] at h
    split at h
    · simp at h
    · rename_i ps hs
      split at h
      · simp at h
      · rename_i pa ha
        exact nvlK_sound (planDVal_sound s hs) (planDVal_sound alt ha) h
  | .sel c t f, fm, p, h => by
    simp only [planDVal, bind, Except.bind] at h
    split at h
    · simp at h
    · split at h
      · simp at h
      · rename_i pt ht
        split at h
        · simp at h
        · rename_i pf hf
          exact selK_sound (planDVal_sound t ht) (planDVal_sound f hf) h

/-- `newFieldMeta` only yields valid metadata -/
theorem newFieldMeta_ok {urn : String} {dt : DataType} {req : Bool} {unit : String} {cm : CustomMeta} {fm : FieldMeta}
    (h : newFieldMeta urn dt req unit cm = .ok fm) :
    fm = { urn := urn, dt := dt, unit := unit, required := req, custom := cm } ∧ urn ≠ "" ∧ dt.valid = true := by
  simp only [newFieldMeta] at h
  split at h
  · simp at h
  · split at h
    · simp at h
    · simp only [Except.ok.injEq] at h
      refine ⟨h.symm, by assumption, ?_⟩
      cases hv : dt.valid <;> simp_all

/-- `PrepareField`: the new field's type/required are those of the value; urn is the requested one, non-empty, type valid -/
theorem prepareK_ok {afm : AddFieldMeta} {p : Planned ρ D} {fm : FieldMeta} {fn : RowFn ρ D}
    (h : prepareK afm p = .ok (fm, fn)) :
    fn = p.2 ∧ fm.urn = afm.urn ∧ fm.dt = p.1.dt ∧ fm.required = p.1.required ∧ fm.urn ≠ "" ∧ fm.dt.valid = true := by
  simp only [prepareK] at h
  split at h
  · simp at h
  · rename_i fm' hfm
    simp only [Except.ok.injEq, Prod.mk.injEq] at h
    obtain ⟨rfl, rfl⟩ := h
    obtain ⟨rfl, h1, h2⟩ := newFieldMeta_ok hfm
    exact ⟨rfl, rfl, rfl, rfl, h1, h2⟩

end ShpanVerif.Proofs.Query
