/-
C10 helper lemmas: the three sorted-stream join machines of Model/QueryExec.lean.
Every machine step only moves a record from the not-yet-pulled part of a source into its look-ahead buffer, or
discards records: the records still "in" a source after a step are a sublist of those before (`Subl2`).  From that
single fact follow (1) provenance — every joined tuple takes its i-th component from the i-th source — and
(2) order — joined timestamps are strictly increasing when every source is.
-/
import ShpanVerif.Proofs.QueryDs

namespace ShpanVerif.Proofs.Query
open ShpanVerif.Model.Query List

variable {α : Type}

/-- the records a source can still contribute: its buffer, then its delivered future pulls -/
def elems (s : Src α) : List α := s.1.toList ++ okRows s.2

/-- positional sublist of lists of lists -/
def Subl2 : List (List α) → List (List α) → Prop
  | [], [] => True
  | x :: xs, y :: ys => x <+ y ∧ Subl2 xs ys
  | _, _ => False

theorem Subl2.refl : ∀ (xs : List (List α)), Subl2 xs xs
  | [] => trivial
  | x :: xs => ⟨Sublist.refl x, Subl2.refl xs⟩

theorem Subl2.trans : ∀ {xs ys zs : List (List α)}, Subl2 xs ys → Subl2 ys zs → Subl2 xs zs
  | [], [], [], _, _ => trivial
  | _ :: _, _ :: _, _ :: _, h1, h2 => ⟨h1.1.trans h2.1, Subl2.trans h1.2 h2.2⟩
  | [], [], _ :: _, _, h2 => by simp [Subl2] at h2
  | [], _ :: _, _, h1, _ => by simp [Subl2] at h1
  | _ :: _, [], _, h1, _ => by simp [Subl2] at h1
  | _ :: _, _ :: _, [], _, h2 => by simp [Subl2] at h2

theorem Subl2.length_eq : ∀ {xs ys : List (List α)}, Subl2 xs ys → xs.length = ys.length
  | [], [], _ => rfl
  | _ :: _, _ :: _, h => by simp [Subl2.length_eq h.2]
  | [], _ :: _, h => by simp [Subl2] at h
  | _ :: _, [], h => by simp [Subl2] at h

theorem Subl2.exists : ∀ {xs ys : List (List α)}, Subl2 xs ys → ∀ x ∈ xs, ∃ y ∈ ys, x <+ y
  | [], [], _, x, hx => by simp at hx
  | x0 :: xs, y0 :: ys, h, x, hx => by
    rcases mem_cons.mp hx with rfl | hx
    · exact ⟨y0, by simp, h.1⟩
    · obtain ⟨y, hy, hs⟩ := Subl2.exists h.2 x hx
      exact ⟨y, mem_cons_of_mem _ hy, hs⟩
  | [], _ :: _, h, _, _ => by simp [Subl2] at h
  | _ :: _, [], h, _, _ => by simp [Subl2] at h

/-- positional predicates: every record of the i-th list satisfies the i-th predicate -/
def AllQ : List (α → Prop) → List (List α) → Prop
  | [], [] => True
  | Q :: Qs, l :: ls => (∀ a ∈ l, Q a) ∧ AllQ Qs ls
  | _, _ => False

theorem AllQ.mono : ∀ {Qs : List (α → Prop)} {xs ys : List (List α)}, Subl2 xs ys → AllQ Qs ys → AllQ Qs xs
  | [], [], [], _, _ => trivial
  | Q :: Qs, x :: xs, y :: ys, h, hq => ⟨fun a ha => hq.1 a (h.1.subset ha), AllQ.mono h.2 hq.2⟩
  | [], _ :: _, _ :: _, _, hq => by simp [AllQ] at hq
  | _, [], _ :: _, h, _ => by simp [Subl2] at h
  | _, _ :: _, [], h, _ => by simp [Subl2] at h
  | _ :: _, [], [], _, hq => by simp [AllQ] at hq

theorem AllQ.length_eq : ∀ {Qs : List (α → Prop)} {xs : List (List α)}, AllQ Qs xs → xs.length = Qs.length
  | [], [], _ => rfl
  | _ :: _, _ :: _, h => by simp [AllQ.length_eq h.2]
  | [], _ :: _, h => by simp [AllQ] at h
  | _ :: _, [], h => by simp [AllQ] at h

/-! ## the shared first call -/

theorem initSrcs_elems : ∀ {srcs : List (List (Option α))} {st : List (Src α)}, initSrcs srcs = some st →
    st.map elems = srcs.map okRows
  | [], st, h => by simp [initSrcs] at h; subst h; rfl
  | [] :: ss, st, h => by
    simp only [initSrcs, Option.map_eq_some_iff] at h
    obtain ⟨st', h', rfl⟩ := h
    simp [initSrcs_elems h', elems, okRows]
  | (some a :: t) :: ss, st, h => by
    simp only [initSrcs, Option.map_eq_some_iff] at h
    obtain ⟨st', h', rfl⟩ := h
    simp [initSrcs_elems h', elems, okRows]
  | (none :: _) :: _, st, h => by simp [initSrcs] at h

/-! ## inner join -/

theorem refillInner_next : ∀ {st st' : List (Src α)}, refillInner st = .next st' →
    st'.map elems = st.map elems ∧ ∀ s ∈ st', s.1.isSome = true
  | [], st', h => by simp [refillInner] at h; subst h; simp
  | (some a, r) :: ss, st', h => by
    simp only [refillInner] at h
    cases hr : refillInner ss with
    | done => simp [hr, Step.map] at h
    | fail => simp [hr, Step.map] at h
    | next s2 =>
      simp only [hr, Step.map, Step.next.injEq] at h; subst h
      obtain ⟨h1, h2⟩ := refillInner_next hr
      refine ⟨by simp [h1], ?_⟩
      intro s hs
      rcases mem_cons.mp hs with rfl | hs
      · rfl
      · exact h2 s hs
  | (none, []) :: _, st', h => by simp [refillInner] at h
  | (none, some a :: t) :: ss, st', h => by
    simp only [refillInner] at h
    cases hr : refillInner ss with
    | done => simp [hr, Step.map] at h
    | fail => simp [hr, Step.map] at h
    | next s2 =>
      simp only [hr, Step.map, Step.next.injEq] at h; subst h
      obtain ⟨h1, h2⟩ := refillInner_next hr
      refine ⟨by simp [h1, elems, okRows], ?_⟩
      intro s hs
      rcases mem_cons.mp hs with rfl | hs
      · rfl
      · exact h2 s hs
  | (none, none :: _) :: _, st', h => by simp [refillInner] at h

variable (key : α → Int)

theorem advanceBehind_next (mx : Int) : ∀ {st st' : List (Src α)}, advanceBehind key mx st = .next st' →
    Subl2 (st'.map elems) (st.map elems)
  | [], st', h => by simp [advanceBehind] at h; subst h; trivial
  | (some a, r) :: ss, st', h => by
    simp only [advanceBehind] at h
    split at h
    · -- behind: one pull
      cases r with
      | nil => simp at h
      | cons p t =>
        cases p with
        | none => simp at h
        | some b =>
          simp only at h
          cases hr : advanceBehind key mx ss with
          | done => simp [hr, Step.map] at h
          | fail => simp [hr, Step.map] at h
          | next s2 =>
            simp only [hr, Step.map, Step.next.injEq] at h; subst h
            refine ⟨?_, advanceBehind_next mx hr⟩
            simp [elems, okRows]
    · cases hr : advanceBehind key mx ss with
      | done => simp [hr, Step.map] at h
      | fail => simp [hr, Step.map] at h
      | next s2 =>
        simp only [hr, Step.map, Step.next.injEq] at h; subst h
        exact ⟨Sublist.refl _, advanceBehind_next mx hr⟩
  | (none, r) :: ss, st', h => by
    simp only [advanceBehind] at h
    cases hr : advanceBehind key mx ss with
    | done => simp [hr, Step.map] at h
    | fail => simp [hr, Step.map] at h
    | next s2 =>
      simp only [hr, Step.map, Step.next.injEq] at h; subst h
      exact ⟨Sublist.refl _, advanceBehind_next mx hr⟩

theorem clear_subl2 : ∀ (st : List (Src α)), Subl2 ((st.map fun s => ((none : Option α), s.2)).map elems) (st.map elems)
  | [] => trivial
  | s :: st => ⟨by simp [elems], clear_subl2 st⟩

/-- when every buffer is filled, the tuple of buffers is positionally inside the sources -/
theorem heads_subl2 : ∀ (st : List (Src α)), (∀ s ∈ st, s.1.isSome = true) →
    Subl2 ((st.filterMap (·.1)).map fun a => [a]) (st.map elems)
  | [], _ => trivial
  | (none, r) :: _, h => by simpa using h (none, r) (by simp)
  | (some a, r) :: st, h => by
    simp only [filterMap_cons, map_cons]
    exact ⟨by simp [elems], heads_subl2 st fun s hs => h s (mem_cons_of_mem _ hs)⟩

/-- provenance of the inner join: every joined tuple is positionally inside the state's sources -/
theorem innerLoop_from : ∀ (fuel : Nat) (st : List (Src α)) (tup : List α),
    some tup ∈ innerLoop key fuel st → Subl2 (tup.map fun a => [a]) (st.map elems)
  | 0, _, _, h => by simp [innerLoop] at h
  | fuel + 1, st, tup, h => by
    simp only [innerLoop] at h
    cases hr : refillInner st with
    | done => simp [hr] at h
    | fail => simp [hr] at h
    | next st1 =>
      obtain ⟨he, hsome⟩ := refillInner_next hr
      simp only [hr] at h
      cases hh : st1.filterMap (·.1) with
      | nil => simp [hh] at h
      | cons hd hs =>
        simp only [hh] at h
        split at h
        · rcases mem_cons.mp h with h | h
          · simp only [Option.some.injEq] at h; subst h
            rw [← he, ← hh]
            exact heads_subl2 st1 hsome
          · have := innerLoop_from fuel _ tup h
            rw [← he]
            exact this.trans (clear_subl2 st1)
        · cases ha : advanceBehind key (maxKey key hs (key hd)) st1 with
          | done => simp [ha] at h
          | fail => simp [ha] at h
          | next st2 =>
            simp only [ha] at h
            have := innerLoop_from fuel _ tup h
            rw [← he]
            exact this.trans (advanceBehind_next key _ ha)


/-! ## order -/

/-- every source still is strictly increasing in the key -/
def Srt (ls : List (List α)) : Prop := ∀ l ∈ ls, (l.map key).Pairwise (· < ·)
/-- every record still in a source is above `b` -/
def LB (b : Int) (ls : List (List α)) : Prop := ∀ l ∈ ls, ∀ a ∈ l, b < key a

theorem Srt.mono {xs ys : List (List α)} (h : Subl2 xs ys) (hs : Srt key ys) : Srt key xs := by
  intro x hx
  obtain ⟨y, hy, hsub⟩ := h.exists x hx
  exact (hs y hy).sublist (hsub.map _)

theorem LB.mono {b : Int} {xs ys : List (List α)} (h : Subl2 xs ys) (hs : LB key b ys) : LB key b xs := by
  intro x hx a ha
  obtain ⟨y, hy, hsub⟩ := h.exists x hx
  exact hs y hy a (hsub.subset ha)

theorem pairwise_cons_lt {b m : Int} {l : List Int} (hb : b < m) (h : (m :: l).Pairwise (· < ·)) :
    (b :: m :: l).Pairwise (· < ·) := by
  refine pairwise_cons.mpr ⟨?_, h⟩
  intro x hx
  rcases mem_cons.mp hx with rfl | hx
  · exact hb
  · exact Int.lt_trans hb ((pairwise_cons.mp h).1 x hx)

/-- key of a joined tuple: the timestamp of its first record -/
def tkey (t : List α) : Int := (t.head?.map key).getD 0

theorem innerLoop_incr : ∀ (fuel : Nat) (st : List (Src α)) (b : Int),
    Srt key (st.map elems) → LB key b (st.map elems) →
    (b :: (okRows (innerLoop key fuel st)).map (tkey key)).Pairwise (· < ·)
  | 0, _, _, _, _ => by simp [innerLoop, okRows]
  | fuel + 1, st, b, hs, hb => by
    simp only [innerLoop]
    cases hr : refillInner st with
    | done => simp [okRows]
    | fail => simp [okRows]
    | next st1 =>
      obtain ⟨he, hsome⟩ := refillInner_next hr
      rw [← he] at hs hb
      simp only
      cases hh : st1.filterMap (·.1) with
      | nil => simp [okRows]
      | cons hd hs' =>
        simp only
        split
        · rename_i hall
          -- a match: all buffered keys equal the maximum
          have hkeys : ∀ a ∈ hd :: hs', key a = maxKey key hs' (key hd) := by
            intro a ha
            have := (all_eq_true.mp hall) a ha
            simpa using this
          have hmx : key hd = maxKey key hs' (key hd) := hkeys hd (by simp)
          have hbmx : b < maxKey key hs' (key hd) := by
            rw [← hmx]
            have hsub := heads_subl2 st1 hsome
            rw [hh] at hsub
            obtain ⟨y, hy, hsy⟩ := hsub.exists [hd] (by simp)
            exact hb y hy hd (hsy.subset (by simp))
          have hs1 : Srt key ((st1.map fun s => ((none : Option α), s.2)).map elems) := hs.mono key (clear_subl2 st1)
          have hb1 : LB key (maxKey key hs' (key hd)) ((st1.map fun s => ((none : Option α), s.2)).map elems) := by
            intro l hl a ha
            simp only [map_map, mem_map, Function.comp] at hl
            obtain ⟨s, hs0, rfl⟩ := hl
            simp only [elems, Option.toList_none, nil_append] at ha
            have hsb := hsome s hs0
            obtain ⟨h', hh'⟩ := Option.isSome_iff_exists.mp hsb
            have hmem : h' ∈ hd :: hs' := by
              rw [← hh]; exact mem_filterMap.mpr ⟨s, hs0, hh'⟩
            rw [← hkeys h' hmem]
            have hsrt := hs (elems s) (mem_map.mpr ⟨s, hs0, rfl⟩)
            simp only [elems, hh', Option.toList_some, singleton_append, map_cons, pairwise_cons] at hsrt
            exact hsrt.1 (key a) (mem_map.mpr ⟨a, ha, rfl⟩)
          have ih := innerLoop_incr fuel _ _ hs1 hb1
          simp only [okRows, filterMap_cons, id_eq, map_cons] at ih ⊢
          have htk : tkey key (hd :: hs') = maxKey key hs' (key hd) := by simp [tkey, hmx.symm]
          rw [htk]
          exact pairwise_cons_lt hbmx ih
        · cases ha : advanceBehind key (maxKey key hs' (key hd)) st1 with
          | done => simp [okRows]
          | fail => simp [okRows]
          | next st2 =>
            have hsub := advanceBehind_next key _ ha
            exact innerLoop_incr fuel st2 b (hs.mono key hsub) (hb.mono key hsub)


/-! ## left join -/

theorem advanceTo_sub (k : Int) : ∀ (b : α) (r : List (Option α)) {s : Src α}, advanceTo key k b r = some s →
    elems s <+ b :: okRows r
  | b, [], s, h => by
    simp only [advanceTo] at h
    split at h <;> simp only [Option.some.injEq] at h <;> subst h <;> simp [elems, okRows]
  | b, p :: t, s, h => by
    simp only [advanceTo] at h
    split at h
    · cases p with
      | none => simp at h
      | some v =>
        simp only at h
        have := advanceTo_sub k v t h
        simp only [okRows, filterMap_cons, id_eq] at this ⊢
        exact this.cons _
    · simp only [Option.some.injEq] at h; subst h
      simp [elems]

theorem leftOthers_sub (k : Int) : ∀ {others others' : List (Src α)}, leftOthers key k others = some others' →
    Subl2 (others'.map elems) (others.map elems)
  | [], o', h => by simp [leftOthers] at h; subst h; trivial
  | (none, r) :: ss, o', h => by
    simp only [leftOthers, Option.map_eq_some_iff] at h
    obtain ⟨o2, h2, rfl⟩ := h
    exact ⟨Sublist.refl _, leftOthers_sub k h2⟩
  | (some b, r) :: ss, o', h => by
    simp only [leftOthers] at h
    split at h
    · simp at h
    · rename_i s hs
      simp only [Option.map_eq_some_iff] at h
      obtain ⟨o2, h2, rfl⟩ := h
      refine ⟨?_, leftOthers_sub k h2⟩
      simpa [elems] using advanceTo_sub key k b r hs

/-- the buffers that match the key `k`, positionally inside the sources -/
theorem matches_subl2 (k : Int) : ∀ (st : List (Src α)),
    Subl2 ((st.map (matchBuf key k)).map Option.toList) (st.map elems)
  | [] => trivial
  | (none, r) :: st => ⟨by simp [matchBuf], matches_subl2 k st⟩
  | (some b, r) :: st => by
    refine ⟨?_, matches_subl2 k st⟩
    simp only [elems, matchBuf, Option.toList_some]
    split <;> simp

/-- provenance through one `leftEmit`, for any continuation that keeps provenance -/
theorem leftEmit_from {loop : List (Src α) → List (Option (α × List (Option α)))} {left : α}
    {r0' : List (Option α)} {others : List (Src α)} {e : α × List (Option α)}
    (hloop : ∀ others', some e ∈ loop ((none, r0') :: others') →
      e.1 ∈ elems ((none : Option α), r0') ∧ Subl2 (e.2.map Option.toList) (others'.map elems))
    (h : some e ∈ leftEmit key loop left r0' others) :
    (e.1 = left ∨ e.1 ∈ okRows r0') ∧ Subl2 (e.2.map Option.toList) (others.map elems) := by
  simp only [leftEmit] at h
  cases ho : leftOthers key (key left) others with
  | none => simp [ho] at h
  | some others' =>
    simp only [ho] at h
    have hos := leftOthers_sub key _ ho
    rcases mem_cons.mp h with hm | hm
    · simp only [Option.some.injEq] at hm; subst hm
      exact ⟨Or.inl rfl, (matches_subl2 key _ others').trans hos⟩
    · obtain ⟨h1, h2⟩ := hloop others' hm
      exact ⟨Or.inr (by simpa [elems] using h1), h2.trans hos⟩

theorem leftLoop_from : ∀ (fuel : Nat) (s0 : Src α) (others : List (Src α)) (e : α × List (Option α)),
    some e ∈ leftLoop key fuel (s0 :: others) →
    e.1 ∈ elems s0 ∧ Subl2 (e.2.map Option.toList) (others.map elems)
  | 0, _, _, _, h => by simp [leftLoop] at h
  | fuel + 1, (some a, r0), others, e, h => by
    simp only [leftLoop] at h
    obtain ⟨h1, h2⟩ := leftEmit_from key (fun o' => leftLoop_from fuel _ o' e) h
    refine ⟨?_, h2⟩
    rcases h1 with h1 | h1 <;> simp [elems, h1]
  | fuel + 1, (none, []), others, e, h => by simp [leftLoop] at h
  | fuel + 1, (none, some a :: t), others, e, h => by
    simp only [leftLoop] at h
    obtain ⟨h1, h2⟩ := leftEmit_from key (fun o' => leftLoop_from fuel _ o' e) h
    refine ⟨?_, h2⟩
    rcases h1 with h1 | h1 <;> simp [elems, okRows, h1]
    right; simpa [okRows] using h1
  | fuel + 1, (none, none :: _), others, e, h => by simp [leftLoop] at h

theorem leftEmit_incr {loop : List (Src α) → List (Option (α × List (Option α)))} {left : α}
    {r0' : List (Option α)} {others : List (Src α)} {b : Int}
    (hloop : ∀ others', ((key left) :: (okRows (loop ((none, r0') :: others'))).map fun e => key e.1).Pairwise (· < ·))
    (hb : b < key left) :
    (b :: (okRows (leftEmit key loop left r0' others)).map fun e => key e.1).Pairwise (· < ·) := by
  simp only [leftEmit]
  cases ho : leftOthers key (key left) others with
  | none => simp [okRows]
  | some others' =>
    simp only [okRows, filterMap_cons, id_eq, map_cons]
    exact pairwise_cons_lt hb (hloop others')

theorem leftLoop_incr : ∀ (fuel : Nat) (s0 : Src α) (others : List (Src α)) (b : Int),
    (b :: (elems s0).map key).Pairwise (· < ·) →
    (b :: (okRows (leftLoop key fuel (s0 :: others))).map fun e => key e.1).Pairwise (· < ·)
  | 0, _, _, _, _ => by simp [leftLoop, okRows]
  | fuel + 1, (some a, r0), others, b, hp => by
    simp only [leftLoop]
    simp only [elems, Option.toList_some, singleton_append, map_cons] at hp
    refine leftEmit_incr key (fun o' => leftLoop_incr fuel _ o' _ ?_) ((pairwise_cons.mp hp).1 _ (by simp))
    simpa [elems] using (pairwise_cons.mp hp).2
  | fuel + 1, (none, []), others, b, hp => by simp [leftLoop, okRows]
  | fuel + 1, (none, some a :: t), others, b, hp => by
    simp only [leftLoop]
    simp only [elems, okRows, Option.toList_none, nil_append, filterMap_cons, id_eq, map_cons] at hp
    refine leftEmit_incr key (fun o' => leftLoop_incr fuel _ o' _ ?_) ((pairwise_cons.mp hp).1 _ (by simp))
    simpa [elems, okRows] using (pairwise_cons.mp hp).2
  | fuel + 1, (none, none :: _), others, b, hp => by simp [leftLoop, okRows]

/-- the number of optional partners in every left-join row is the number of other sources -/
theorem leftLoop_length : ∀ (fuel : Nat) (s0 : Src α) (others : List (Src α)) (e : α × List (Option α)),
    some e ∈ leftLoop key fuel (s0 :: others) → e.2.length = others.length := by
  intro fuel s0 others e h
  have := (leftLoop_from key fuel s0 others e h).2.length_eq
  simpa using this

/-! ## full join -/

theorem refillFull_some : ∀ {st st' : List (Src α)}, refillFull st = some st' →
    st'.map elems = st.map elems ∧ ∀ s ∈ st', s.1 = none → s.2 = []
  | [], st', h => by simp [refillFull] at h; subst h; simp
  | (some a, r) :: ss, st', h => by
    simp only [refillFull, Option.map_eq_some_iff] at h
    obtain ⟨s2, h2, rfl⟩ := h
    obtain ⟨e1, e2⟩ := refillFull_some h2
    refine ⟨by simp [e1], ?_⟩
    intro s hs hn
    rcases mem_cons.mp hs with rfl | hs
    · simp at hn
    · exact e2 s hs hn
  | (none, []) :: ss, st', h => by
    simp only [refillFull, Option.map_eq_some_iff] at h
    obtain ⟨s2, h2, rfl⟩ := h
    obtain ⟨e1, e2⟩ := refillFull_some h2
    refine ⟨by simp [e1], ?_⟩
    intro s hs hn
    rcases mem_cons.mp hs with rfl | hs
    · rfl
    · exact e2 s hs hn
  | (none, some a :: t) :: ss, st', h => by
    simp only [refillFull, Option.map_eq_some_iff] at h
    obtain ⟨s2, h2, rfl⟩ := h
    obtain ⟨e1, e2⟩ := refillFull_some h2
    refine ⟨by simp [e1, elems, okRows], ?_⟩
    intro s hs hn
    rcases mem_cons.mp hs with rfl | hs
    · simp at hn
    · exact e2 s hs hn
  | (none, none :: _) :: _, st', h => by simp [refillFull] at h

theorem clearMatched_subl2 (k : Int) : ∀ (st : List (Src α)),
    Subl2 ((st.map (clearMatched key k)).map elems) (st.map elems)
  | [] => trivial
  | (none, r) :: st => ⟨by simp [clearMatched], clearMatched_subl2 k st⟩
  | (some b, r) :: st => by
    refine ⟨?_, clearMatched_subl2 k st⟩
    simp only [clearMatched]
    split <;> simp [elems]

theorem fullLoop_from : ∀ (fuel : Nat) (st : List (Src α)) (vals : List (Option α)),
    some vals ∈ fullLoop key fuel st → Subl2 (vals.map Option.toList) (st.map elems)
  | 0, _, _, h => by simp [fullLoop] at h
  | fuel + 1, st, vals, h => by
    simp only [fullLoop] at h
    cases hr : refillFull st with
    | none => simp [hr] at h
    | some st1 =>
      obtain ⟨he, _⟩ := refillFull_some hr
      simp only [hr] at h
      cases hh : st1.filterMap (·.1) with
      | nil => simp [hh] at h
      | cons hd hs =>
        simp only [hh] at h
        rw [← he]
        rcases mem_cons.mp h with h | h
        · simp only [Option.some.injEq] at h; subst h
          exact matches_subl2 key _ st1
        · exact (fullLoop_from fuel _ vals h).trans (clearMatched_subl2 key _ st1)

theorem minKey_le : ∀ (l : List α) (m : Int), minKey key l m ≤ m ∧ ∀ a ∈ l, minKey key l m ≤ key a
  | [], m => by simp [minKey]
  | a :: l, m => by
    simp only [minKey]
    by_cases hc : key a < m
    · simp only [hc, if_true]
      obtain ⟨h1, h2⟩ := minKey_le l (key a)
      refine ⟨by omega, fun x hx => ?_⟩
      rcases mem_cons.mp hx with rfl | hx
      · exact h1
      · exact h2 x hx
    · simp only [hc, if_false]
      obtain ⟨h1, h2⟩ := minKey_le l m
      refine ⟨h1, fun x hx => ?_⟩
      rcases mem_cons.mp hx with rfl | hx
      · omega
      · exact h2 x hx

theorem minKey_mem : ∀ (l : List α) (m : Int), minKey key l m = m ∨ ∃ a ∈ l, key a = minKey key l m
  | [], m => by simp [minKey]
  | a :: l, m => by
    simp only [minKey]
    by_cases hc : key a < m
    · simp only [hc, if_true]
      rcases minKey_mem l (key a) with h | ⟨x, hx, hk⟩
      · exact Or.inr ⟨a, by simp, h.symm⟩
      · exact Or.inr ⟨x, mem_cons_of_mem _ hx, hk⟩
    · simp only [hc, if_false]
      rcases minKey_mem l m with h | ⟨x, hx, hk⟩
      · exact Or.inl h
      · exact Or.inr ⟨x, mem_cons_of_mem _ hx, hk⟩

/-- key of a full-join tuple: the timestamp of its first present record -/
def okey (vals : List (Option α)) : Int := ((vals.filterMap id).head?.map key).getD 0

theorem okey_matches (k : Int) : ∀ (st : List (Src α)), (∃ s ∈ st, ∃ b, s.1 = some b ∧ key b = k) →
    okey key (st.map (matchBuf key k)) = k
  | [], h => by simp at h
  | (none, r) :: st, h => by
    obtain ⟨s, hs, b, hb, hk⟩ := h
    rcases mem_cons.mp hs with rfl | hs
    · simp at hb
    · have := okey_matches k st ⟨s, hs, b, hb, hk⟩
      simpa [okey, matchBuf] using this
  | (some b0, r) :: st, h => by
    by_cases hk0 : key b0 = k
    · simp [okey, matchBuf, hk0]
    · obtain ⟨s, hs, b, hb, hk⟩ := h
      rcases mem_cons.mp hs with rfl | hs
      · simp only [Option.some.injEq] at hb; subst hb; exact absurd hk hk0
      · have := okey_matches k st ⟨s, hs, b, hb, hk⟩
        simpa [okey, matchBuf, hk0] using this

theorem fullLoop_incr : ∀ (fuel : Nat) (st : List (Src α)) (b : Int),
    Srt key (st.map elems) → LB key b (st.map elems) →
    (b :: (okRows (fullLoop key fuel st)).map (okey key)).Pairwise (· < ·)
  | 0, _, _, _, _ => by simp [fullLoop, okRows]
  | fuel + 1, st, b, hs, hb => by
    simp only [fullLoop]
    cases hr : refillFull st with
    | none => simp [okRows]
    | some st1 =>
      obtain ⟨he, hnone⟩ := refillFull_some hr
      rw [← he] at hs hb
      simp only
      cases hh : st1.filterMap (·.1) with
      | nil => simp [okRows]
      | cons hd hs' =>
        simp only
        have hle := minKey_le key hs' (key hd)
        -- the minimum is attained by some buffered record
        have hatt : ∃ a ∈ hd :: hs', key a = minKey key hs' (key hd) := by
          rcases minKey_mem key hs' (key hd) with h | ⟨a, ha, hk⟩
          · exact ⟨hd, by simp, h.symm⟩
          · exact ⟨a, mem_cons_of_mem _ ha, hk⟩
        obtain ⟨am, ham, hkm⟩ := hatt
        rw [← hh] at ham
        obtain ⟨sm, hsm, hbm⟩ := mem_filterMap.mp ham
        have hbmn : b < minKey key hs' (key hd) := by
          rw [← hkm]
          exact hb (elems sm) (mem_map.mpr ⟨sm, hsm, rfl⟩) am (by simp [elems, hbm])
        have hs1 : Srt key ((st1.map (clearMatched key (minKey key hs' (key hd)))).map elems) :=
          hs.mono key (clearMatched_subl2 key _ st1)
        have hb1 : LB key (minKey key hs' (key hd)) ((st1.map (clearMatched key (minKey key hs' (key hd)))).map elems) := by
          intro l hl a ha
          simp only [map_map, mem_map, Function.comp] at hl
          obtain ⟨s, hs0, rfl⟩ := hl
          have hsrt := hs (elems s) (mem_map.mpr ⟨s, hs0, rfl⟩)
          cases hs1' : s.1 with
          | none =>
            have := hnone s hs0 hs1'
            simp [clearMatched, hs1', elems, this, okRows] at ha
          | some bb =>
            have hbb : bb ∈ hd :: hs' := by rw [← hh]; exact mem_filterMap.mpr ⟨s, hs0, hs1'⟩
            have hge : minKey key hs' (key hd) ≤ key bb := by
              rcases mem_cons.mp hbb with rfl | hbb
              · exact hle.1
              · exact hle.2 bb hbb
            simp only [elems, hs1', Option.toList_some, singleton_append, map_cons, pairwise_cons] at hsrt
            by_cases hkb : key bb = minKey key hs' (key hd)
            · simp only [clearMatched, hs1', hkb, beq_self_eq_true, ↓reduceIte, elems, Option.toList_none,
                nil_append] at ha
              rw [← hkb]
              exact hsrt.1 (key a) (mem_map.mpr ⟨a, ha, rfl⟩)
            · have hne : (key bb == minKey key hs' (key hd)) = false := by simpa using hkb
              simp only [clearMatched, hs1', hne, Bool.false_eq_true, ↓reduceIte, elems, Option.toList_some,
                singleton_append, mem_cons] at ha
              rcases ha with rfl | ha
              · omega
              · have := hsrt.1 (key a) (mem_map.mpr ⟨a, ha, rfl⟩)
                omega
        have ih := fullLoop_incr fuel _ _ hs1 hb1
        simp only [okRows, filterMap_cons, id_eq, map_cons] at ih ⊢
        rw [okey_matches key _ st1 ⟨sm, hsm, am, hbm, hkm⟩]
        exact pairwise_cons_lt hbmn ih

end ShpanVerif.Proofs.Query
