/-
FlatMap model (`Model/PipeDyn.lean`), fault-free worlds: every layer computes its list-level meaning.
`emitRest` = first element of `outerDen`, `emitI` = head of the stream's remaining elements, `emitC` = head of `rem`
(the remaining elements of the whole concatenation), `pullLoop` = all of them / the allowance of the Limit on top.
Fuel bounds are explicit, so the same lemmas give termination.
-/
import ShpanVerif.Model.PipeDyn

namespace ShpanVerif.Proofs.PipeDyn
open ShpanVerif.Model.Pipe ShpanVerif.Model.PipeDyn

/-! ### the probe primitives in a clean world -/

theorem call_clean {w : World} (h : w.Clean) : (w.call).1 = .none ∧ (w.call).2.Clean := by
  obtain ⟨h1, h2⟩ := h
  unfold World.call World.Clean
  simp [h1, h2]

theorem userCall_clean {w : World} (h : w.Clean) : (userCall w).1 = .none ∧ (userCall w).2.Clean := call_clean h

theorem emitRes_clean (r : Nat) {w : World} (h : w.Clean) : (emitRes r w).1 = .none ∧ (emitRes r w).2.Clean := by
  have := call_clean h
  unfold emitRes
  generalize w.call = x at *
  obtain ⟨hit, w'⟩ := x
  unfold World.Clean at *
  simp_all

theorem openRes_clean (r : Nat) {w : World} (h : w.Clean) : (openRes r w).1 = .val () ∧ (openRes r w).2.Clean := by
  have := call_clean h
  unfold openRes
  generalize w.call = x at *
  obtain ⟨hit, w'⟩ := x
  unfold World.Clean at *
  simp_all

theorem closeRes_clean (r : Nat) {w : World} (h : w.Clean) : (closeRes r w).Clean := by
  unfold World.Clean closeRes at *; simp_all

theorem clean_not_cancelled {w : World} (h : w.Clean) : w.cancelled = false := h.2

/-! ### the outer stream -/

theorem applyOps_clean : ∀ (ops : List OOp) (v : V) (w : World), w.Clean →
    (applyOps ops v w).1 = .val (opsPure ops v) ∧ (applyOps ops v w).2.Clean
  | [], v, w, h => by simp [applyOps, opsPure, h]
  | .peek :: ops, v, w, h => by
      have hu := userCall_clean h
      have ih := applyOps_clean ops v (userCall w).2 hu.2
      simp only [applyOps, opsPure]
      generalize userCall w = x at *
      obtain ⟨hit, w'⟩ := x
      simp_all
  | .map f :: ops, v, w, h => by
      have hu := userCall_clean h
      have ih := applyOps_clean ops (f.app v) (userCall w).2 hu.2
      simp only [applyOps, opsPure]
      generalize userCall w = x at *
      obtain ⟨hit, w'⟩ := x
      simp_all
  | .filter p :: ops, v, w, h => by
      have hu := userCall_clean h
      have ih := applyOps_clean ops v (userCall w).2 hu.2
      simp only [applyOps, opsPure]
      generalize userCall w = x at *
      obtain ⟨hit, w'⟩ := x
      by_cases hp : p.app v <;> simp_all

/-- the first element of the outer stream that passes the callbacks, and what the probe source has left then -/
def nextOuter (ops : List OOp) : List Int → Option (V × List Int)
  | [] => none
  | x :: rest =>
    match opsPure ops (.int x) with
    | some v => some (v, rest)
    | none => nextOuter ops rest

theorem nextOuter_none {ops : List OOp} : ∀ {rest : List Int}, nextOuter ops rest = none → outerDen ops rest = []
  | [], _ => rfl
  | x :: rest, h => by
      simp only [nextOuter] at h
      split at h
      · simp at h
      · rename_i hx
        simp [outerDen, hx]
        have := nextOuter_none h
        simpa [outerDen] using this

theorem nextOuter_some {ops : List OOp} : ∀ {rest : List Int} {v : V} {rest' : List Int},
    nextOuter ops rest = some (v, rest') → outerDen ops rest = v :: outerDen ops rest' ∧ rest'.length < rest.length
  | [], _, _, h => by simp [nextOuter] at h
  | x :: rest, v, rest', h => by
      simp only [nextOuter] at h
      split at h
      · rename_i u hx
        simp at h
        obtain ⟨rfl, rfl⟩ := h
        simp [outerDen, hx]
      · rename_i hx
        have := nextOuter_some h
        simp [outerDen, hx]
        constructor
        · simpa [outerDen] using this.1
        · omega

theorem emitRest_clean (r0 : Nat) (ops : List OOp) : ∀ (rest : List Int) (w : World), w.Clean →
    (emitRest r0 ops rest w).2.2.Clean ∧
    match nextOuter ops rest with
    | some (v, rest') => (emitRest r0 ops rest w).1 = .val v ∧ (emitRest r0 ops rest w).2.1 = rest'
    | none => (emitRest r0 ops rest w).1 = .eof ∧ (emitRest r0 ops rest w).2.1 = []
  | [], w, h => by
      have he := emitRes_clean r0 h
      simp only [emitRest, nextOuter]
      generalize emitRes r0 w = x at *
      obtain ⟨hit, w'⟩ := x
      simp_all
  | x :: rest, w, h => by
      have he := emitRes_clean r0 h
      have ha := applyOps_clean ops (.int x) (emitRes r0 w).2 he.2
      have ih := emitRest_clean r0 ops rest (applyOps ops (.int x) (emitRes r0 w).2).2 ha.2
      simp only [emitRest, nextOuter]
      generalize emitRes r0 w = y at *
      obtain ⟨hit, w'⟩ := y
      simp only at he ha ih
      obtain ⟨rfl, hc⟩ := he
      simp only []
      generalize applyOps ops (.int x) w' = z at *
      obtain ⟨res, w''⟩ := z
      simp only at ha ih
      obtain ⟨rfl, hc'⟩ := ha
      cases hx : opsPure ops (.int x) with
      | some v => simp [hc']
      | none => simpa using ih

/-! ### inner streams -/

/-- the elements an inner stream object still has to deliver -/
def remaining : InnerS → List V
  | .probe _ _ rest => rest
  | .just _ rest => rest
  | .empty => []
  | .error => []
  | .iter _ ys .fresh => ys
  | .iter _ _ (.running rest) => rest
  | .iter _ _ .done => []

@[simp] theorem remaining_probe (r ys rest) : remaining (.probe r ys rest) = rest := rfl
@[simp] theorem remaining_just (ys rest) : remaining (.just ys rest) = rest := rfl
@[simp] theorem remaining_fresh (r ys) : remaining (.iter r ys .fresh) = ys := rfl
@[simp] theorem remaining_running (r ys rest) : remaining (.iter r ys (.running rest)) = rest := rfl
@[simp] theorem remaining_done (r ys) : remaining (.iter r ys .done) = [] := rfl

/-- the current stream of a concatenation is never the `Error` stream (its Open fails) -/
def Live (s : InnerS) : Prop := s ≠ .error

theorem openI_clean (i : Inner) {w : World} (h : w.Clean) :
    (openI i.init w).2.2.Clean ∧
    (if i.isError then (openI i.init w).1 = .fail dslError
     else (openI i.init w).1 = .val () ∧ remaining (openI i.init w).2.1 = i.elems ∧ Live (openI i.init w).2.1) := by
  cases i with
  | probe r ys =>
      have ho := openRes_clean r h
      simp only [Inner.init, openI, Inner.isError, Inner.elems]
      generalize openRes r w = x at *
      obtain ⟨res, w'⟩ := x
      simp only at ho
      obtain ⟨rfl, hc⟩ := ho
      simp [remaining, Live, hc]
  | just ys => simp [Inner.init, openI, Inner.isError, Inner.elems, remaining, Live, h]
  | empty => simp [Inner.init, openI, Inner.isError, Inner.elems, remaining, Live, h]
  | error => simp [Inner.init, openI, Inner.isError, h]
  | iter r ys => simp [Inner.init, openI, Inner.isError, Inner.elems, remaining, Live, h]

theorem iterStep_clean (r : Nat) (ys rest : List V) {w : World} (h : w.Clean) :
    (iterStep r ys rest w).2.2.Clean ∧ Live (iterStep r ys rest w).2.1 ∧
    match rest with
    | v :: d => (iterStep r ys rest w).1 = .val v ∧ remaining (iterStep r ys rest w).2.1 = d
    | [] => (iterStep r ys rest w).1 = .eof ∧ remaining (iterStep r ys rest w).2.1 = [] := by
  cases rest <;> simp [iterStep, remaining, Live, h, closeRes_clean]

theorem emitI_clean (s : InnerS) {w : World} (h : w.Clean) (hl : Live s) :
    (emitI s w).2.2.Clean ∧ Live (emitI s w).2.1 ∧
    match remaining s with
    | v :: d => (emitI s w).1 = .val v ∧ remaining (emitI s w).2.1 = d
    | [] => (emitI s w).1 = .eof ∧ remaining (emitI s w).2.1 = [] := by
  have hcan := h.2
  cases s with
  | probe r ys rest =>
      have he := emitRes_clean r h
      simp only [emitI, remaining]
      generalize emitRes r w = x at *
      obtain ⟨hit, w'⟩ := x
      simp only at he
      obtain ⟨rfl, hc⟩ := he
      cases rest <;> simp [remaining, Live, hc]
  | just ys rest => cases rest <;> simp [emitI, remaining, Live, h, hcan]
  | empty => simp [emitI, remaining, Live, h]
  | error => exact absurd rfl hl
  | iter r ys st =>
      cases st with
      | fresh =>
          have ho := openRes_clean r h
          have hi := iterStep_clean r ys ys ho.2
          simp only [emitI, remaining_fresh, hcan, Bool.false_eq_true, if_false]
          generalize openRes r w = x at *
          obtain ⟨res, w'⟩ := x
          simp only at ho hi
          obtain ⟨rfl, hc⟩ := ho
          simpa using hi
      | running rest =>
          have hi := iterStep_clean r ys rest h
          simpa only [emitI, remaining_running, hcan, Bool.false_eq_true, if_false] using hi
      | done => simp [emitI, remaining, Live, h, hcan]

theorem closeI_clean (s : InnerS) {w : World} (h : w.Clean) : (closeI s w).2.Clean := by
  cases s with
  | iter r ys st => cases st <;> simp [closeI, h, closeRes_clean]
  | _ => simp [closeI, h, closeRes_clean]

/-! ### the concatenation -/

/-- what the concatenation still has to deliver: elements, and whether an `Error` stream ends them -/
def rem (c : Obj) : List V × Bool :=
  match c.cur with
  | none => ([], false)
  | some s => (remaining s ++ (flatSpec c.g (outerDen c.ops c.rest)).1, (flatSpec c.g (outerDen c.ops c.rest)).2)

/-- inside a materialisation: the current stream is not the `Error` stream and the builder holds it open -/
def WF (c : Obj) : Prop := ∀ s, c.cur = some s → Live s ∧ c.curOpen = true

/-- same description -/
def Same (c c' : Obj) : Prop := c'.r0 = c.r0 ∧ c'.xs = c.xs ∧ c'.ops = c.ops ∧ c'.g = c.g

theorem pullOuter_clean (c : Obj) {w : World} (h : w.Clean) :
    (pullOuter c w).2.2.Clean ∧
    match nextOuter c.ops c.rest with
    | some (v, rest') => (pullOuter c w).1 = .val (c.g v) ∧ (pullOuter c w).2.1 = { c with rest := rest' }
    | none => (pullOuter c w).1 = .eof ∧ (pullOuter c w).2.1 = { c with rest := [] } := by
  have he := emitRest_clean c.r0 c.ops c.rest w h
  simp only [pullOuter]
  generalize emitRest c.r0 c.ops c.rest w = x at *
  obtain ⟨res, rest1, w1⟩ := x
  simp only at he
  obtain ⟨hc, hm⟩ := he
  cases hn : nextOuter c.ops c.rest with
  | none =>
      rw [hn] at hm; simp only at hm; obtain ⟨rfl, rfl⟩ := hm
      simp [castRes, hc]
  | some p =>
      obtain ⟨v, rest'⟩ := p
      rw [hn] at hm; simp only at hm; obtain ⟨rfl, rfl⟩ := hm
      have hu := userCall_clean hc
      simp only []
      generalize userCall w1 = y at *
      obtain ⟨hit, w2⟩ := y
      simp only at hu
      obtain ⟨rfl, hc2⟩ := hu
      simp [hc2]

theorem openNext_clean (c : Obj) (i : Inner) {w : World} (h : w.Clean) :
    (openNext c i w).2.2.Clean ∧
    (if i.isError then (openNext c i w).1 = .fail dslError
     else (openNext c i w).1 = .val () ∧
       ∃ s, (openNext c i w).2.1 = { c with cur := some s, curOpen := true } ∧ remaining s = i.elems ∧ Live s) := by
  have ho := openI_clean i h
  simp only [openNext]
  generalize openI i.init w = x at *
  obtain ⟨res, s1, w1⟩ := x
  simp only at ho
  obtain ⟨hc, hm⟩ := ho
  by_cases hi : i.isError
  · simp only [hi, if_true] at hm ⊢
    subst hm
    simp [hc]
  · simp only [hi] at hm ⊢
    obtain ⟨rfl, hr, hl⟩ := hm
    simp [hc, hr, hl]

theorem flatSpec_cons_ok {g : V → Inner} {v : V} {vs : List V} (h : (g v).isError = false) :
    flatSpec g (v :: vs) = ((g v).elems ++ (flatSpec g vs).1, (flatSpec g vs).2) := by
  simp [flatSpec, h]

theorem flatSpec_cons_err {g : V → Inner} {v : V} {vs : List V} (h : (g v).isError = true) :
    flatSpec g (v :: vs) = ([], true) := by
  simp [flatSpec, h]

/-- `concatProvider.emit` in a clean world returns the head of `rem` (EOF / the `Error` stream's error when there is none) -/
theorem emitC_clean : ∀ (fuel : Nat) (c : Obj) (w : World), w.Clean → c.rest.length < fuel → WF c →
    (emitC fuel c w).2.2.Clean ∧
    match rem c with
    | (v :: d, e) => (emitC fuel c w).1 = .val v ∧ rem (emitC fuel c w).2.1 = (d, e) ∧ WF (emitC fuel c w).2.1 ∧
        Same c (emitC fuel c w).2.1 ∧ (emitC fuel c w).2.1.rest.length ≤ c.rest.length
    | ([], false) => (emitC fuel c w).1 = .eof
    | ([], true) => (emitC fuel c w).1 = .fail dslError := by
  intro fuel
  induction fuel with
  | zero => intro c w _ hf; omega
  | succ n ih =>
    intro c w hclean hfuel hwf
    have hcan := hclean.2
    simp only [emitC, hcan, Bool.false_eq_true, if_false]
    cases hcur : c.cur with
    | none => simp [rem, hcur, hclean]
    | some s =>
      obtain ⟨hl, hopen⟩ := hwf s hcur
      have hi := emitI_clean s hclean hl
      simp only []
      generalize emitI s w = x at *
      obtain ⟨res, s1, w1⟩ := x
      simp only at hi
      obtain ⟨hc1, hl1, hm⟩ := hi
      cases hr : remaining s with
      | cons v d =>
          rw [hr] at hm; simp only at hm; obtain ⟨rfl, hd⟩ := hm
          simp only [rem, hcur, hr, List.cons_append]
          refine ⟨hc1, trivial, ?_, ?_, ?_, ?_⟩
          · simp [hd]
          · intro s' hs'; simp at hs'; subst hs'; exact ⟨hl1, hopen⟩
          · simp [Same]
          · simp
      | nil =>
          rw [hr] at hm; simp only at hm; obtain ⟨rfl, hd⟩ := hm
          simp only [hopen, if_true]
          have hcl := closeI_clean s1 hc1
          generalize closeI s1 w1 = y at *
          obtain ⟨s2, w2⟩ := y
          simp only at hcl ⊢
          simp only [hcl.2, Bool.false_eq_true, if_false]
          have hp := pullOuter_clean { c with cur := none, curOpen := false } hcl
          generalize pullOuter { c with cur := none, curOpen := false } w2 = z at *
          obtain ⟨res3, c3, w3⟩ := z
          simp only at hp
          obtain ⟨hc3, hm3⟩ := hp
          cases hn : nextOuter c.ops c.rest with
          | none =>
              rw [hn] at hm3; simp only at hm3; obtain ⟨rfl, rfl⟩ := hm3
              have hden := nextOuter_none hn
              simp only [rem, hcur, hr, hden, flatSpec, List.append_nil, castRes]
              exact ⟨hc3, trivial⟩
          | some p =>
              obtain ⟨v, rest'⟩ := p
              rw [hn] at hm3; simp only at hm3; obtain ⟨rfl, rfl⟩ := hm3
              obtain ⟨hden, hlen⟩ := nextOuter_some hn
              have ho := openNext_clean { c with cur := none, curOpen := false, rest := rest' } (c.g v) hc3
              simp only []
              generalize openNext { c with cur := none, curOpen := false, rest := rest' } (c.g v) w3 = u at *
              obtain ⟨res4, c4, w4⟩ := u
              simp only at ho
              obtain ⟨hc4, hm4⟩ := ho
              by_cases herr : (c.g v).isError
              · simp only [herr, if_true] at hm4
                subst hm4
                simp only [rem, hcur, hr, hden, flatSpec_cons_err herr, List.nil_append, castRes]
                exact ⟨hc4, trivial⟩
              · simp only [herr] at hm4
                obtain ⟨rfl, s5, rfl, hrem5, hl5⟩ := hm4
                simp only []
                have hwf4 : WF { c with cur := some s5, curOpen := true, rest := rest' } := by
                  intro s' hs'; simp at hs'; subst hs'; exact ⟨hl5, rfl⟩
                have := ih { c with cur := some s5, curOpen := true, rest := rest' } w4 hc4 (by simp; omega) hwf4
                have hrem : rem { c with cur := some s5, curOpen := true, rest := rest' } = rem c := by
                  simp only [rem, hcur, hr, hden, hrem5, List.nil_append]
                  rw [flatSpec_cons_ok (by simpa using herr)]
                rw [hrem] at this
                obtain ⟨h1, h2⟩ := this
                refine ⟨h1, ?_⟩
                split <;> rename_i heq <;> rw [heq] at h2 <;> simp only at h2
                · obtain ⟨a1, a2, a3, a4, a5⟩ := h2
                  refine ⟨a1, a2, a3, ?_, ?_⟩
                  · simpa [Same] using a4
                  · have a5' : _ ≤ rest'.length := a5
                    omega
                · exact h2
                · exact h2

/-! ### the terminal -/

/-- what a materialisation that may still deliver `m` elements (`none` = no Limit) returns on `d` -/
def specOut (m : Option Nat) (d : List V × Bool) : Outcome :=
  match m with
  | none => if d.2 then .err dslError d.1 else .ok d.1
  | some m => if m ≤ d.1.length then .ok (d.1.take m) else if d.2 then .err dslError d.1 else .ok d.1

def prepend (acc : List V) : Outcome → Outcome
  | .ok d => .ok (acc ++ d)
  | .err e d => .err e (acc ++ d)
  | .oof => .oof

/-- how many elements the Limit on top still lets through -/
def allowance (lim : Option Int) (consumed : Int) : Option Nat := lim.map (fun n => (n - consumed + 1).toNat)

theorem specOut_eq_specOutcome (lim : Option Int) (d : List V × Bool) :
    specOut (allowance lim 1) d = specOutcome lim d := by
  cases lim <;> simp [specOut, allowance, specOutcome]

theorem specOut_cons_some (a : Nat) (v : V) (d : List V) (e : Bool) :
    specOut (some (a+1)) (v :: d, e) = prepend [v] (specOut (some a) (d, e)) := by
  simp only [specOut, List.length_cons, Nat.add_le_add_iff_right, List.take_succ_cons]
  split
  · rfl
  · split <;> rfl

theorem specOut_cons_none (v : V) (d : List V) (e : Bool) :
    specOut none (v :: d, e) = prepend [v] (specOut none (d, e)) := by
  simp only [specOut]; split <;> rfl

theorem prepend_prepend (a b : List V) (o : Outcome) : prepend a (prepend b o) = prepend (a ++ b) o := by
  cases o <;> simp [prepend]

theorem pullLoop_clean : ∀ (fuel : Nat) (k : Consumer) (lim : Option Int) (consumed : Int) (c : Obj) (acc : List V)
    (w : World), w.Clean → WF c → (rem c).1.length + c.rest.length + 2 ≤ fuel →
    outcomeOf (pullLoop fuel k lim consumed c acc w).1 (pullLoop fuel k lim consumed c acc w).2.1 =
      prepend acc.reverse (specOut (allowance lim consumed) (rem c)) := by
  intro fuel
  induction fuel with
  | zero => intro k lim consumed c acc w _ _ hf; omega
  | succ n ih =>
    intro k lim consumed c acc w hclean hwf hfuel
    have hcan := hclean.2
    simp only [Model.PipeDyn.pullLoop, hcan, Bool.false_eq_true, if_false]
    -- the Limit on top answers by itself once its counter has passed the limit
    by_cases hstop : ∃ m, lim = some m ∧ consumed > m
    · obtain ⟨m, rfl, hm⟩ := hstop
      have ha : allowance (some m) consumed = some 0 := by simp [allowance]; omega
      simp [emitT, hm, outcomeOf, ha, specOut, prepend]
    · have hT : emitT n lim consumed c w = emitC n c w := by
        cases lim with
        | none => rfl
        | some m => simp only [emitT]; rw [if_neg]; intro h; exact hstop ⟨m, rfl, h⟩
      rw [hT]
      have he := emitC_clean n c w hclean (by omega) hwf
      generalize emitC n c w = x at *
      obtain ⟨res, c1, w1⟩ := x
      simp only at he
      obtain ⟨hc1, hm⟩ := he
      -- one more element is allowed
      have hall : ∀ v d e, specOut (allowance lim consumed) (v :: d, e) =
          prepend [v] (specOut (allowance lim (consumed + 1)) (d, e)) := by
        intro v d e
        cases lim with
        | none => exact specOut_cons_none v d e
        | some m =>
          have : ¬ consumed > m := fun h => hstop ⟨m, rfl, h⟩
          have h1 : allowance (some m) consumed = some ((m - (consumed + 1) + 1).toNat + 1) := by
            simp [allowance]; omega
          rw [h1]; exact specOut_cons_some _ v d e
      have hpos : ∀ d : List V × Bool, d.1 = [] → specOut (allowance lim consumed) d =
          (if d.2 then .err dslError [] else .ok []) := by
        intro d hd
        cases lim with
        | none => simp [allowance, specOut, hd]
        | some m =>
          have : ¬ consumed > m := fun h => hstop ⟨m, rfl, h⟩
          have h1 : allowance (some m) consumed = some ((m - (consumed + 1) + 1).toNat + 1) := by
            simp [allowance]; omega
          rw [h1]; simp [specOut, hd]
      rcases hrem : rem c with ⟨l, e⟩
      rw [hrem] at hm hfuel
      cases l with
      | cons v d =>
          simp only at hm
          obtain ⟨rfl, hrem1, hwf1, hsame, hlen⟩ := hm
          have hfuel1 : (rem c1).1.length + c1.rest.length + 2 ≤ n := by
            rw [hrem1]; simp at hfuel ⊢; omega
          rw [hall]
          cases k with
          | collect =>
              simp only []
              rw [ih .collect lim (consumed + 1) c1 (v :: acc) w1 hc1 hwf1 hfuel1, hrem1, prepend_prepend]
              simp
          | user =>
              have hu := userCall_clean hc1
              simp only []
              generalize userCall w1 = y at *
              obtain ⟨hit, w2⟩ := y
              simp only at hu
              obtain ⟨rfl, hc2⟩ := hu
              simp only []
              rw [ih .user lim (consumed + 1) c1 (v :: acc) w2 hc2 hwf1 hfuel1, hrem1, prepend_prepend]
              simp
      | nil =>
          cases e with
          | false =>
              simp only at hm; subst hm
              simp [outcomeOf, hpos, prepend]
          | true =>
              simp only at hm; subst hm
              simp [outcomeOf, castRes, hpos, prepend]

/-- the lifecycle Open in a clean world, from ANY state of the operator object (`cp.open` forgets a provider left over from
    an earlier materialisation) -/
theorem openC_clean (c : Obj) {w : World} (h : w.Clean) :
    (openC c w).2.2.Clean ∧
    (((openC c w).1 = .val () ∧ WF (openC c w).2.1 ∧ rem (openC c w).2.1 = flatSpec c.g (outerDen c.ops c.xs) ∧
        (openC c w).2.1.rest.length ≤ c.xs.length) ∨
     ((openC c w).1 = .fail dslError ∧ flatSpec c.g (outerDen c.ops c.xs) = ([], true))) := by
  have ho := openRes_clean c.r0 h
  simp only [openC, cpOpen, openOuter]
  generalize openRes c.r0 w = x at *
  obtain ⟨res, w1⟩ := x
  simp only at ho
  obtain ⟨rfl, hc1⟩ := ho
  simp only []
  have hp := pullOuter_clean { c with cur := none, rest := c.xs, outerOpen := true } hc1
  generalize pullOuter { c with cur := none, rest := c.xs, outerOpen := true } w1 = z at *
  obtain ⟨res2, c2, w2⟩ := z
  simp only at hp
  obtain ⟨hc2, hm2⟩ := hp
  cases hn : nextOuter c.ops c.xs with
  | none =>
      rw [hn] at hm2; simp only at hm2; obtain ⟨rfl, rfl⟩ := hm2
      have hden := nextOuter_none hn
      simp only []
      refine ⟨hc2, Or.inl ⟨trivial, ?_, ?_, ?_⟩⟩
      · intro s hs'; simp at hs'
      · simp [rem, hden, flatSpec]
      · simp
  | some p =>
      obtain ⟨v, rest'⟩ := p
      rw [hn] at hm2; simp only at hm2; obtain ⟨rfl, rfl⟩ := hm2
      obtain ⟨hden, hlen⟩ := nextOuter_some hn
      have ho := openNext_clean { c with cur := none, rest := rest', outerOpen := true } (c.g v) hc2
      simp only []
      generalize openNext { c with cur := none, rest := rest', outerOpen := true } (c.g v) w2 = u at *
      obtain ⟨res4, c4, w4⟩ := u
      simp only at ho
      obtain ⟨hc4, hm4⟩ := ho
      by_cases herr : (c.g v).isError
      · simp only [herr, if_true] at hm4
        subst hm4
        simp only []
        have hcf : (closeFunc c4 w4).2.Clean := by
          simp only [closeFunc]
          split <;> split <;> simp_all [closeRes_clean, closeI_clean]
        refine ⟨hcf, Or.inr ⟨trivial, ?_⟩⟩
        rw [hden, flatSpec_cons_err herr]
      · simp only [herr] at hm4
        obtain ⟨rfl, s5, rfl, hrem5, hl5⟩ := hm4
        simp only []
        refine ⟨hc4, Or.inl ⟨trivial, ?_, ?_, ?_⟩⟩
        · intro s' hs'; simp at hs'; subst hs'; exact ⟨hl5, rfl⟩
        · simp only [rem, hden, hrem5]
          rw [flatSpec_cons_ok (by simpa using herr)]
        · omega

/-- fuel that is enough for a fault-free materialisation -/
def fuelNeed (c : Obj) : Nat := (flatSpec c.g (outerDen c.ops c.xs)).1.length + c.xs.length + 2

/-- **fault-free materialisation = list-level meaning**, with an explicit fuel bound -/
theorem consume_clean (fuel : Nat) (k : Consumer) (lim : Option Int) (c : Obj) (w : World)
    (h : w.Clean) (hf : fuelNeed c ≤ fuel) :
    (Model.PipeDyn.consume fuel k lim c w).1 = specOutcome lim (flatSpec c.g (outerDen c.ops c.xs)) := by
  simp only [Model.PipeDyn.consume]
  by_cases hoff : limOff lim
  · simp only [hoff, if_true, h.2]
    cases lim with
    | none => simp [limOff] at hoff
    | some n =>
      simp only [limOff, decide_eq_true_eq] at hoff
      have : n.toNat = 0 := by omega
      simp [specOutcome, this]
  · simp only [hoff]
    have ho := openC_clean c h
    generalize openC c w = x at *
    obtain ⟨res, c1, w1⟩ := x
    simp only at ho
    obtain ⟨hc1, hcase⟩ := ho
    rcases hcase with ⟨rfl, hwf, hrem, hlen⟩ | ⟨rfl, hspec⟩
    · simp only [Bool.false_eq_true, if_false]
      have hp := pullLoop_clean fuel k lim 1 c1 [] w1 hc1 hwf (by rw [hrem]; unfold fuelNeed at hf; omega)
      generalize Model.PipeDyn.pullLoop fuel k lim 1 c1 [] w1 = y at *
      obtain ⟨res2, acc, c2, w2⟩ := y
      simp only at hp
      rw [hrem, specOut_eq_specOutcome] at hp
      have hpre : ∀ o : Outcome, prepend [].reverse o = o := by intro o; cases o <;> simp [prepend]
      rw [hpre] at hp
      cases res2 <;> exact hp
    · simp only [Bool.false_eq_true, if_false]
      rw [hspec]
      cases lim with
      | none => simp [specOutcome]
      | some n =>
        simp only [limOff, decide_eq_true_eq] at hoff
        have : ¬ n.toNat ≤ 0 := by omega
        simp [specOutcome, this]

end ShpanVerif.Proofs.PipeDyn
