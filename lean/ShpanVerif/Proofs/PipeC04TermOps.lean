/-
C04 termination, part 2: Skip, Window, Concat, ZipN preserve `Term` (with an explicit fuel bound), and the
notion `OpenT` of a sub stream whose Open terminates and establishes `Term`.
-/
import ShpanVerif.Proofs.PipeC04Term

namespace ShpanVerif.Proofs.PipeC04
open ShpanVerif.Model.Pipe ShpanVerif

theorem TRes.weaken {R : Pipe → Nat → Prop} (hR : ∀ q a b, R q a → a ≤ b → R q b)
    {r : Res V × Pipe × World} {m n : Nat} (h : TRes R r m) (hmn : m ≤ n) : TRes R r n := by
  rcases r with ⟨res, p', w'⟩
  cases res <;> simp only [TRes] at h ⊢
  · obtain ⟨hc, m', hm', ht⟩ := h; exact ⟨hc, m', by omega, ht⟩
  · exact ⟨h.1, hR _ _ _ h.2 hmn⟩

/-! ### Skip -/

def TLoop (F : Nat) (r : Res Unit × Pipe × World) (m : Nat) : Prop :=
  match r with
  | (.val _, p', w') => w'.Clean ∧ Term F p' m
  | (.eof, p', w') => w'.Clean ∧ Term F p' m
  | (.fail _, _, _) => True
  | (.panic _, _, _) => False
  | (.oof, _, _) => False

theorem skipLoop_term {F : Nat} : ∀ (k : Nat) (p : Pipe) (m : Nat) (w : World) (fuel : Nat),
    Term F p m → w.Clean → F + k + 1 ≤ fuel → TLoop F (skipLoop fuel k p w) m
  | 0, p, m, w, fuel, hp, hw, hf => by
    obtain ⟨f, rfl, _⟩ := fuel_succ (F := F) (by omega)
    rw [skipLoop]; exact ⟨hw, hp⟩
  | k+1, p, m, w, fuel, hp, hw, hf => by
    obtain ⟨f, rfl, hf'⟩ := fuel_succ (F := F + k + 1) (by omega)
    rw [skipLoop]
    have := hp.step w hw f (by omega)
    rcases he : emitP f p w with ⟨res, p', w'⟩
    rw [he] at this
    cases res <;> simp only [TRes, TLoop] at this ⊢
    · obtain ⟨hc, m', hm', ht⟩ := this
      have ih := skipLoop_term k p' m' w' f ht hc (by omega)
      rcases hs : skipLoop f k p' w' with ⟨res2, p2, w2⟩
      rw [hs] at ih
      cases res2 <;> simp only [TLoop] at ih ⊢
      · exact ⟨ih.1, ih.2.mono_n (by omega)⟩
      · exact ⟨ih.1, ih.2.mono_n (by omega)⟩
    · exact this

theorem term_skip {F : Nat} (n : Nat) (d : Bool) {p : Pipe} {m : Nat} (h : Term F p m) :
    Term (F + n + 2) (.skip n d p) m := by
  refine Term.intro (fun q m => ∃ d p, q = .skip n d p ∧ Term F p m) ?_ ⟨d, p, rfl, h⟩
  rintro q m ⟨d, p, rfl, hp⟩ w hw fuel hf
  obtain ⟨f, rfl, hf'⟩ := fuel_succ (F := F + n + 1) (by omega)
  rw [emitP, if_neg (not_cancelled hw)]
  cases d with
  | true =>
    simp only [if_true]
    have := hp.step w hw f (by omega)
    rcases he : emitP f p w with ⟨res, p', w'⟩
    rw [he] at this
    cases res <;> simp only [TRes] at this ⊢
    · obtain ⟨hc, m', hm', ht⟩ := this; exact ⟨hc, m', hm', true, p', rfl, ht⟩
    · exact ⟨this.1, true, p', rfl, this.2⟩
  | false =>
    simp only [Bool.false_eq_true, if_false]
    have hs := skipLoop_term n p m w f hp hw (by omega)
    rcases hse : skipLoop f n p w with ⟨res, p', w'⟩
    rw [hse] at hs
    cases res <;> simp only [TLoop, TRes] at hs ⊢
    · have := hs.2.step w' hs.1 f (by omega)
      rcases he : emitP f p' w' with ⟨res2, p2, w2⟩
      rw [he] at this
      cases res2 <;> simp only [TRes] at this ⊢
      · obtain ⟨hc, m', hm', ht⟩ := this; exact ⟨hc, m', hm', true, p2, rfl, ht⟩
      · exact ⟨this.1, true, p2, rfl, this.2⟩
    · exact ⟨hs.1, true, p', rfl, hs.2⟩

/-! ### Window -/

/-- states of a window operator with valid parameters -/
def WinR (F s st : Nat) (o so : Bool) (q : Pipe) (m : Nat) : Prop :=
  ∃ buf d p, q = .window s st o buf d so p ∧
    (d = true ∨ ∃ m0, Term F p m0 ∧ buf.length + m0 + 1 ≤ m)

theorem WinR.up {F s st : Nat} {o so : Bool} (q : Pipe) (a b : Nat) (h : WinR F s st o so q a) (hab : a ≤ b) :
    WinR F s st o so q b := by
  obtain ⟨buf, d, p, rfl, h⟩ := h
  refine ⟨buf, d, p, rfl, ?_⟩
  rcases h with h | ⟨m0, ht, hm⟩
  · exact Or.inl h
  · exact Or.inr ⟨m0, ht, by omega⟩

theorem windowFill_term {F s st : Nat} (o so : Bool) (hs : 0 < s) (hst : 0 < st) :
    ∀ (fuel : Nat) (buf : List V) (p : Pipe) (m0 : Nat) (w : World),
      Term F p m0 → w.Clean → F + (s - buf.length) + 1 ≤ fuel →
      TRes (WinR F s st o so) (windowFill fuel s st o buf so p w) (buf.length + m0 + 1)
  | 0, _, _, _, _, _, _, hf => by omega
  | f+1, buf, p, m0, w, hp, hw, hf => by
    rw [windowFill]
    by_cases hlen : buf.length < s
    · rw [if_pos hlen, if_neg (not_cancelled hw)]
      have := hp.step w hw f (by omega)
      rcases he : emitP f p w with ⟨res, p', w'⟩
      rw [he] at this
      cases res <;> simp only [TRes] at this ⊢
      · rename_i v
        obtain ⟨hc, m', hm', ht⟩ := this
        have ih := windowFill_term o so hs hst f (buf ++ [v]) p' m' w' ht hc
          (by simp only [List.length_append, List.length_singleton]; omega)
        refine TRes.weaken WinR.up ih ?_
        simp only [List.length_append, List.length_singleton]; omega
      · obtain ⟨hc, ht⟩ := this
        by_cases hcond : (decide (buf.length > 0) && !o && st != 1) = true
        · rw [if_pos hcond]
          exact ⟨hc, 0, by omega, [], true, p', rfl, Or.inl rfl⟩
        · rw [if_neg hcond]
          exact ⟨hc, buf, false, p', rfl, Or.inr ⟨m0, ht, Nat.le_refl _⟩⟩
    · rw [if_neg hlen]
      simp only [TRes]
      have hb : (if st ≥ buf.length then [] else buf.drop st).length < buf.length := by
        split
        · simp only [List.length_nil]; omega
        · simp only [List.length_drop]; omega
      exact ⟨hw, (if st ≥ buf.length then [] else buf.drop st).length + m0 + 1, by omega, _, false, p, rfl,
        Or.inr ⟨m0, hp, Nat.le_refl _⟩⟩

theorem term_window {F : Nat} (s st : Nat) (o : Bool) (buf : List V) (d so : Bool) (hs : 0 < s) (hst : 0 < st)
    {p : Pipe} {m0 : Nat} (h : Term F p m0) :
    Term (F + s + 2) (.window s st o buf d so p) (buf.length + m0 + 1) := by
  refine Term.intro (WinR F s st o so) ?_ ⟨buf, d, p, rfl, Or.inr ⟨m0, h, Nat.le_refl _⟩⟩
  rintro q m ⟨buf, d, p, rfl, hq⟩ w hw fuel hf
  obtain ⟨f, rfl, hf'⟩ := fuel_succ (F := F + s + 1) (by omega)
  cases d with
  | true =>
    rw [emitP]
    exact ⟨hw, buf, true, p, rfl, Or.inl rfl⟩
  | false =>
    rw [emitP]
    simp only [Bool.false_eq_true, if_false]
    rcases hq with hq | ⟨m0, ht, hm⟩
    · cases hq
    · exact TRes.weaken WinR.up (windowFill_term o so hs hst f buf p m0 w ht hw (by omega)) hm

/-! ### sub streams that are still to be opened -/

/-- Open of the (ready) sub stream `q` terminates with `G` fuel and establishes `Term G · n` (or fails) -/
def OpenT (G n : Nat) (q : Pipe) : Prop :=
  ∀ w : World, w.Clean → ∀ fuel, G ≤ fuel →
    match openP fuel q w with
    | (.val _, p', w') => w'.Clean ∧ Term G p' n
    | (.fail _, _, _) => True
    | (.eof, _, _) => False
    | (.panic _, _, _) => False
    | (.oof, _, _) => False

theorem OpenT.mono {G G' n n' : Nat} {q : Pipe} (h : OpenT G n q) (hG : G ≤ G') (hn : n ≤ n') : OpenT G' n' q := by
  intro w hw fuel hf
  have := h w hw fuel (by omega)
  rcases ho : openP fuel q w with ⟨res, p', w'⟩
  rw [ho] at this
  cases res <;> simp only at this ⊢
  exact ⟨this.1, (this.2.mono_F hG).mono_n hn⟩

/-! ### Concat -/

/-- states of a concat over `L` sub streams, each of which opens within `G` and then emits at most `n0` -/
def CatR (G n0 L : Nat) (q : Pipe) (m : Nat) : Prop :=
  ∃ ps next curOpen outerOpen, q = .concat ps next curOpen outerOpen ∧ ps.length = L ∧
    (curOpen = false ∨
      (curOpen = true ∧ 0 < next ∧ ∃ cur m0, ps.get? (next - 1) = some cur ∧ Term G cur m0 ∧
        (∀ j q, next ≤ j → ps.get? j = some q → OpenT G n0 q) ∧ m0 + n0 * (L - next) ≤ m))

theorem CatR.up {G n0 L : Nat} (q : Pipe) (a b : Nat) (h : CatR G n0 L q a) (hab : a ≤ b) : CatR G n0 L q b := by
  obtain ⟨ps, next, co, oo, rfl, hL, h⟩ := h
  refine ⟨ps, next, co, oo, rfl, hL, ?_⟩
  rcases h with h | ⟨h1, h2, cur, m0, h3, h4, h5, h6⟩
  · exact Or.inl h
  · exact Or.inr ⟨h1, h2, cur, m0, h3, h4, h5, by omega⟩

theorem get?_lt_length {ps : PipeList} {j : Nat} {q : Pipe} (h : ps.get? j = some q) : j < ps.length := by
  rw [get?_toList] at h
  have := (List.getElem?_eq_some_iff.mp h).1
  rwa [length_toList] at this

theorem concat_call {G n0 L : Nat} : ∀ (d : Nat) (ps : PipeList) (next : Nat) (oo : Bool) (cur : Pipe) (m0 : Nat)
    (w : World) (fuel : Nat),
    L - next = d → ps.length = L → 0 < next → ps.get? (next - 1) = some cur → Term G cur m0 →
    (∀ j q, next ≤ j → ps.get? j = some q → OpenT G n0 q) → w.Clean → G + d + 1 ≤ fuel →
    TRes (CatR G n0 L) (emitP fuel (.concat ps next true oo) w) (m0 + n0 * (L - next))
  | d, ps, next, oo, cur, m0, w, fuel, hd, hL, hnext, hget, hcur, hrest, hw, hf => by
    obtain ⟨f, rfl, hf'⟩ := fuel_succ (F := G + d) (by omega)
    have hLpos : ps.length ≠ 0 := by have := get?_lt_length hget; omega
    rw [emitP, if_neg hLpos, if_neg (not_cancelled hw)]
    simp only [Bool.not_true, Bool.false_eq_true, if_false]
    rw [hget]
    simp only
    have := hcur.step w hw f (by omega)
    rcases he : emitP f cur w with ⟨res, cur', w'⟩
    rw [he] at this
    cases res <;> simp only [TRes] at this ⊢
    · obtain ⟨hc, m', hm', ht⟩ := this
      refine ⟨hc, m' + n0 * (L - next), by omega, _, next, true, oo, rfl, by rw [length_set]; exact hL, Or.inr
        ⟨rfl, hnext, cur', m', get?_set_self ps hget cur', ht, ?_, Nat.le_refl _⟩⟩
      intro j q hj hq
      rw [get?_set_ne ps (by omega)] at hq
      exact hrest j q hj hq
    · obtain ⟨hc, ht⟩ := this
      rcases hcl : closeP cur' w' with ⟨cur'', w''⟩
      have hc2 : w''.Clean := by
        have := closeP_clean cur' hc; rw [hcl] at this; exact this
      simp only
      rw [if_neg (not_cancelled hc2)]
      have hne : next - 1 ≠ next := by omega
      rw [get?_set_ne ps hne]
      cases hnx : ps.get? next with
      | none =>
        simp only
        exact ⟨hc2, _, next, false, oo, rfl, by rw [length_set]; exact hL, Or.inl rfl⟩
      | some nx =>
        simp only
        have hnlt := get?_lt_length hnx
        have ho := hrest next nx (Nat.le_refl _) hnx w'' hc2 f (by omega)
        rcases hoe : openP f nx w'' with ⟨res2, nx', w3⟩
        rw [hoe] at ho
        cases res2 <;> simp only at ho ⊢
        · obtain ⟨hc3, htn⟩ := ho
          cases d with
          | zero => omega
          | succ d' =>
            have hgetn : (ps.set (next - 1) cur'').get? next = some nx := by rw [get?_set_ne ps hne]; exact hnx
            have ih := concat_call (L := L) d' ((ps.set (next - 1) cur'').set next nx') (next + 1) oo nx' n0 w3 f
              (by omega) (by rw [length_set, length_set]; exact hL) (by omega)
              (by simpa using get?_set_self _ hgetn nx') htn
              (by
                intro j q hj hq
                rw [get?_set_ne _ (by omega), get?_set_ne _ (by omega)] at hq
                exact hrest j q (by omega) hq)
              hc3 (by omega)
            refine TRes.weaken CatR.up ih ?_
            have : L - next = (L - (next + 1)) + 1 := by omega
            rw [this, Nat.mul_succ]; omega

theorem term_concat_open {G n0 : Nat} (ps : PipeList) (oo : Bool) (cur : Pipe) (m0 : Nat)
    (hget : ps.get? 0 = some cur) (hcur : Term G cur m0)
    (hrest : ∀ j q, 1 ≤ j → ps.get? j = some q → OpenT G n0 q) :
    Term (G + ps.length + 2) (.concat ps 1 true oo) (m0 + n0 * (ps.length - 1)) := by
  refine Term.intro (CatR G n0 ps.length) ?_ ⟨ps, 1, true, oo, rfl, rfl, Or.inr
    ⟨rfl, Nat.one_pos, cur, m0, hget, hcur, hrest, Nat.le_refl _⟩⟩
  rintro q m ⟨ps', next, co, oo', rfl, hL, hq⟩ w hw fuel hf
  rcases hq with rfl | ⟨rfl, hnext, cur, m0, hget, hcur, hrest, hm⟩
  · obtain ⟨f, rfl, _⟩ := fuel_succ (F := 0) (fuel := fuel) (by omega)
    rw [emitP]
    split
    · exact ⟨hw, ps', next, false, oo', rfl, hL, Or.inl rfl⟩
    · rw [if_neg (not_cancelled hw)]
      simp only [Bool.not_false, if_true, TRes]
      exact ⟨hw, ps', next, false, oo', rfl, hL, Or.inl rfl⟩
  · exact TRes.weaken CatR.up
      (concat_call (L := ps.length) (ps.length - next) ps' next oo' cur m0 w fuel rfl hL hnext hget hcur hrest hw (by omega)) hm

/-- an empty concat, or one that is not open -/
theorem term_concat_closed (ps : PipeList) (next : Nat) (oo : Bool) : Term 1 (.concat ps next false oo) 0 := by
  refine Term.intro (fun q _ => q = .concat ps next false oo) ?_ rfl
  rintro q m rfl w hw fuel hf
  obtain ⟨f, rfl, _⟩ := fuel_succ hf
  rw [emitP]
  split
  · exact ⟨hw, rfl⟩
  · rw [if_neg (not_cancelled hw)]
    exact ⟨hw, rfl⟩

end ShpanVerif.Proofs.PipeC04
