/-
C11 helper (full reference equality, part 3): the three join machines of Model/QueryExec.lean, run on failure-free
strictly increasing sources, compute the relational joins of Model/JoinSpec.lean (`innerJoinN`, `leftJoinN`,
`fullJoinN` — the list-level specification of property C09; its step lemmas in Proofs/JoinLemmas.lean are reused here).

The machines of the query model are NOT the functions of Model/Join.lean (C09): they run over streams of pull results
(`Option`, a failing pull ends the join) with fuel, without the sortedness assertions.  So the operational part is
proved again here; the specification side (`fullJoinN_step`, `innerJoinN_heads`, `innerJoinN_dropBelow`, …) is shared.
-/
import ShpanVerif.Proofs.QueryJoinSound
import ShpanVerif.Proofs.JoinLemmas

namespace ShpanVerif.Proofs.Query
open ShpanVerif.Model.Query ShpanVerif.Model.JoinSpec List

variable {α : Type}

/-- no failing pull is left in any source -/
def NoFail (st : List (Src α)) : Prop := ∀ s ∈ st, none ∉ s.2
/-- an empty buffer means the source is exhausted -/
def Filled (st : List (Src α)) : Prop := ∀ s ∈ st, s.1 = none → s.2 = []
/-- number of records still in the sources -/
def total (st : List (Src α)) : Nat := ((st.map elems).map length).sum

theorem noFail_eq : ∀ {l : List (Option α)}, none ∉ l → l = (okRows l).map some
  | [], _ => rfl
  | none :: _, h => by simp at h
  | some a :: l, h => by
    have : none ∉ l := fun hm => h (mem_cons_of_mem _ hm)
    have ih := noFail_eq this
    simp only [okRows, filterMap_cons, id_eq, map_cons] at ih ⊢
    rw [← ih]

theorem NoFail.tail {s : Src α} {st : List (Src α)} (h : NoFail (s :: st)) : NoFail st :=
  fun s' hs' => h s' (mem_cons_of_mem _ hs')

theorem NoFail.cons {s : Src α} {st : List (Src α)} (h1 : none ∉ s.2) (h2 : NoFail st) : NoFail (s :: st) := by
  intro s' hs'
  rcases mem_cons.mp hs' with rfl | hs'
  · exact h1
  · exact h2 s' hs'

theorem Filled.cons {s : Src α} {st : List (Src α)} (h1 : s.1 = none → s.2 = []) (h2 : Filled st) :
    Filled (s :: st) := by
  intro s' hs'
  rcases mem_cons.mp hs' with rfl | hs'
  · exact h1
  · exact h2 s' hs'

/-! ## the shared first call -/

theorem initSrcs_pure : ∀ (ls : List (List α)),
    ∃ st, initSrcs (ls.map (·.map some)) = some st ∧ st.map elems = ls ∧ NoFail st ∧ Filled st
  | [] => ⟨[], rfl, rfl, by simp [NoFail], by simp [Filled]⟩
  | [] :: ls => by
    obtain ⟨st, h1, h2, h3, h4⟩ := initSrcs_pure ls
    refine ⟨(none, []) :: st, by simp [initSrcs, h1], by simp [h2, elems, okRows], ?_, ?_⟩
    · exact NoFail.cons (by simp) h3
    · exact Filled.cons (fun _ => rfl) h4
  | (a :: t) :: ls => by
    obtain ⟨st, h1, h2, h3, h4⟩ := initSrcs_pure ls
    refine ⟨(some a, t.map some) :: st, by simp [initSrcs, h1], ?_, ?_, ?_⟩
    · simp [h2, elems, okRows_map_some]
    · exact NoFail.cons (by simp) h3
    · exact Filled.cons (fun h => by simp at h) h4

theorem totalLen_pure (ls : List (List α)) : totalLen (ls.map (·.map some)) = (ls.map length).sum := by
  simp only [totalLen, map_map]
  congr 1
  apply map_congr_left
  intro l _
  simp

variable (key : α → Int)

/-! ## full join -/

theorem refillFull_pure : ∀ (st : List (Src α)), NoFail st → ∃ st', refillFull st = some st' ∧ NoFail st'
  | [], _ => ⟨[], rfl, by simp [NoFail]⟩
  | (some a, r) :: ss, h => by
    obtain ⟨st', h1, h2⟩ := refillFull_pure ss h.tail
    exact ⟨(some a, r) :: st', by simp [refillFull, h1], NoFail.cons (h _ (by simp)) h2⟩
  | (none, []) :: ss, h => by
    obtain ⟨st', h1, h2⟩ := refillFull_pure ss h.tail
    exact ⟨(none, []) :: st', by simp [refillFull, h1], NoFail.cons (by simp) h2⟩
  | (none, some a :: t) :: ss, h => by
    obtain ⟨st', h1, h2⟩ := refillFull_pure ss h.tail
    have := h (none, some a :: t) (by simp)
    exact ⟨(some a, t) :: st', by simp [refillFull, h1], NoFail.cons (fun hm => this (mem_cons_of_mem _ hm)) h2⟩
  | (none, none :: t) :: ss, h => by
    have := h (none, none :: t) (by simp)
    simp at this

theorem matchBuf_headIf (k : Int) (s : Src α) (hf : s.1 = none → s.2 = []) :
    matchBuf key k s = Join.headIf key k (elems s) := by
  obtain ⟨b, r⟩ := s
  cases b with
  | none => simp at hf; subst hf; rfl
  | some b => simp [matchBuf, elems, Join.headIf]

theorem elems_clearMatched (k : Int) (s : Src α) (hf : s.1 = none → s.2 = []) :
    elems (clearMatched key k s) = Join.dropIf key k (elems s) := by
  obtain ⟨b, r⟩ := s
  cases b with
  | none => simp at hf; subst hf; rfl
  | some b =>
    simp only [clearMatched, elems, Option.toList_some, singleton_append, Join.dropIf]
    split <;> simp [elems]

theorem elems_of_buf {s : Src α} {b : α} (h : s.1 = some b) : elems s = b :: okRows s.2 := by
  simp [elems, h]

theorem elems_of_none {s : Src α} (h : s.1 = none) (hf : s.1 = none → s.2 = []) : elems s = [] := by
  simp [elems, h, hf h, okRows]

theorem total_eq {st st' : List (Src α)} (h : st'.map elems = st.map elems) : total st' = total st := by
  simp [total, h]

theorem fullLoop_spec : ∀ (fuel : Nat) (st : List (Src α)), NoFail st →
    (∀ l ∈ st.map elems, StrictInc key l) → total st + 1 ≤ fuel →
    fullLoop key fuel st = (fullJoinN key (st.map elems)).map some
  | 0, _, _, _, hf => by omega
  | fuel + 1, st, hnf, hs, hf => by
    obtain ⟨st1, hr, hnf1⟩ := refillFull_pure st hnf
    obtain ⟨he, hfilled⟩ := refillFull_some hr
    have hfilled' : ∀ s ∈ st1, s.1 = none → s.2 = [] := hfilled
    rw [← he] at hs
    rw [← total_eq he] at hf
    rw [← he]
    simp only [fullLoop, hr]
    cases hh : st1.filterMap (·.1) with
    | nil =>
      simp only
      rw [Join.fullJoinN_all_nil]
      · rfl
      · intro l hl
        obtain ⟨s, hs0, rfl⟩ := mem_map.mp hl
        have : s.1 = none := by
          cases hb : s.1 with
          | none => rfl
          | some b =>
            have : b ∈ st1.filterMap (·.1) := mem_filterMap.mpr ⟨s, hs0, hb⟩
            rw [hh] at this
            simp at this
        exact elems_of_none this (hfilled' s hs0)
    | cons hd hs' =>
      simp only
      have hle := minKey_le key hs' (key hd)
      have hm : ∀ l ∈ st1.map elems, ∀ a ∈ l, minKey key hs' (key hd) ≤ key a := by
        intro l hl a ha
        obtain ⟨s, hs0, rfl⟩ := mem_map.mp hl
        cases hb : s.1 with
        | none => rw [elems_of_none hb (hfilled' s hs0)] at ha; simp at ha
        | some b =>
          have hbm : b ∈ hd :: hs' := by rw [← hh]; exact mem_filterMap.mpr ⟨s, hs0, hb⟩
          have hge : minKey key hs' (key hd) ≤ key b := by
            rcases mem_cons.mp hbm with rfl | hbm
            · exact hle.1
            · exact hle.2 b hbm
          have hsrt := hs (elems s) (mem_map.mpr ⟨s, hs0, rfl⟩)
          rw [elems_of_buf hb] at ha hsrt
          rcases mem_cons.mp ha with rfl | ha
          · exact hge
          · have := (pairwise_cons.mp hsrt).1 a ha
            omega
      have hatt : ∃ a ∈ hd :: hs', key a = minKey key hs' (key hd) := by
        rcases minKey_mem key hs' (key hd) with h | ⟨a, ha, hk⟩
        · exact ⟨hd, by simp, h.symm⟩
        · exact ⟨a, mem_cons_of_mem _ ha, hk⟩
      obtain ⟨am, ham, hkm⟩ := hatt
      rw [← hh] at ham
      obtain ⟨sm, hsm, hbm⟩ := mem_filterMap.mp ham
      have hex : ∃ l ∈ st1.map elems, ∃ a ∈ l, key a = minKey key hs' (key hd) :=
        ⟨elems sm, mem_map.mpr ⟨sm, hsm, rfl⟩, am, by simp [elems_of_buf hbm], hkm⟩
      rw [Join.fullJoinN_step key (st1.map elems) _ hs hm hex, map_cons]
      have hrow : st1.map (matchBuf key (minKey key hs' (key hd))) =
          (st1.map elems).map (Join.headIf key (minKey key hs' (key hd))) := by
        rw [map_map]
        exact map_congr_left fun s hs0 => matchBuf_headIf key _ s (hfilled' s hs0)
      have hnext : (st1.map (clearMatched key (minKey key hs' (key hd)))).map elems =
          (st1.map elems).map (Join.dropIf key (minKey key hs' (key hd))) := by
        rw [map_map, map_map]
        exact map_congr_left fun s hs0 => elems_clearMatched key _ s (hfilled' s hs0)
      rw [hrow]
      congr 1
      rw [← hnext]
      apply fullLoop_spec fuel
      · intro s hs0
        obtain ⟨s', hs', rfl⟩ := mem_map.mp hs0
        have := hnf1 s' hs'
        simp only [clearMatched]
        split
        · split
          · exact this
          · exact this
        · exact this
      · rw [hnext]
        intro l hl
        obtain ⟨l', hl', rfl⟩ := mem_map.mp hl
        exact Join.strict_dropIf key _ l' (hs l' hl')
      · have hlt := Join.sum_length_map_lt (Join.dropIf key (minKey key hs' (key hd))) (st1.map elems)
          (fun l _ => Join.length_dropIf_le key _ l)
          ⟨elems sm, mem_map.mpr ⟨sm, hsm, rfl⟩, by
            rw [elems_of_buf hbm]
            simp [Join.dropIf, hkm]⟩
        simp only [total] at hf ⊢
        rw [hnext]
        omega

/-- `FullJoinMultipleSortedStreams` on failure-free strictly increasing sources -/
theorem fullJoin_pure (ls : List (List α)) (hs : ∀ l ∈ ls, StrictInc key l) :
    fullJoin key (ls.map (·.map some)) = (fullJoinN key ls).map some := by
  unfold fullJoin
  cases ls with
  | nil => simp [fullJoinN, fullJoinNK, keysUnion]
  | cons l0 ls' =>
    obtain ⟨st, h1, h2, h3, _⟩ := initSrcs_pure (l0 :: ls')
    simp only [map_cons, isEmpty_cons, Bool.false_eq_true, if_false]
    simp only [map_cons] at h1
    rw [h1]
    simp only
    have := fullLoop_spec key (totalLen ((l0 :: ls').map (·.map some)) + 2) st h3 (by rw [h2]; exact hs) (by
      simp only [total, h2, totalLen_pure]
      omega)
    rw [h2] at this
    simpa using this

/-! ## inner join -/

theorem maxKey_ge : ∀ (l : List α) (m : Int), m ≤ maxKey key l m ∧ ∀ a ∈ l, key a ≤ maxKey key l m
  | [], m => by simp [maxKey]
  | a :: l, m => by
    simp only [maxKey]
    by_cases hc : key a > m
    · simp only [hc, if_true]
      obtain ⟨h1, h2⟩ := maxKey_ge l (key a)
      refine ⟨by omega, fun x hx => ?_⟩
      rcases mem_cons.mp hx with rfl | hx
      · exact h1
      · exact h2 x hx
    · simp only [hc, if_false]
      obtain ⟨h1, h2⟩ := maxKey_ge l m
      refine ⟨h1, fun x hx => ?_⟩
      rcases mem_cons.mp hx with rfl | hx
      · omega
      · exact h2 x hx

theorem maxKey_mem : ∀ (l : List α) (m : Int), maxKey key l m = m ∨ ∃ a ∈ l, key a = maxKey key l m
  | [], m => by simp [maxKey]
  | a :: l, m => by
    simp only [maxKey]
    by_cases hc : key a > m
    · simp only [hc, if_true]
      rcases maxKey_mem l (key a) with h | ⟨x, hx, hk⟩
      · exact Or.inr ⟨a, by simp, h.symm⟩
      · exact Or.inr ⟨x, mem_cons_of_mem _ hx, hk⟩
    · simp only [hc, if_false]
      rcases maxKey_mem l m with h | ⟨x, hx, hk⟩
      · exact Or.inl h
      · exact Or.inr ⟨x, mem_cons_of_mem _ hx, hk⟩

theorem refillInner_pure : ∀ (st : List (Src α)), NoFail st →
    (refillInner st = .done ∧ ∃ s ∈ st, elems s = []) ∨ ∃ st', refillInner st = .next st' ∧ NoFail st'
  | [], _ => Or.inr ⟨[], rfl, by simp [NoFail]⟩
  | (some a, r) :: ss, h => by
    rcases refillInner_pure ss h.tail with ⟨h1, s, hs, he⟩ | ⟨st', h1, h2⟩
    · exact Or.inl ⟨by simp [refillInner, h1, Step.map], s, mem_cons_of_mem _ hs, he⟩
    · exact Or.inr ⟨(some a, r) :: st', by simp [refillInner, h1, Step.map], NoFail.cons (h _ (by simp)) h2⟩
  | (none, []) :: ss, _ => Or.inl ⟨rfl, (none, []), by simp, rfl⟩
  | (none, some a :: t) :: ss, h => by
    have := h (none, some a :: t) (by simp)
    rcases refillInner_pure ss h.tail with ⟨h1, s, hs, he⟩ | ⟨st', h1, h2⟩
    · exact Or.inl ⟨by simp [refillInner, h1, Step.map], s, mem_cons_of_mem _ hs, he⟩
    · exact Or.inr ⟨(some a, t) :: st', by simp [refillInner, h1, Step.map],
        NoFail.cons (fun hm => this (mem_cons_of_mem _ hm)) h2⟩
  | (none, none :: t) :: ss, h => by
    have := h (none, none :: t) (by simp)
    simp at this

theorem advanceBehind_pure (mx : Int) : ∀ (st : List (Src α)), NoFail st → (∀ s ∈ st, s.1.isSome = true) →
    (advanceBehind key mx st = .done ∧ ∃ l ∈ st.map elems, Join.dropBelow key mx l = []) ∨
    ∃ st', advanceBehind key mx st = .next st' ∧ NoFail st' ∧
      st'.map elems = (st.map elems).map (Join.dropBelow key mx)
  | [], _, _ => Or.inr ⟨[], rfl, by simp [NoFail], rfl⟩
  | (none, r) :: ss, _, hb => by
    have := hb (none, r) (by simp)
    simp at this
  | (some a, r) :: ss, h, hb => by
    have ih := advanceBehind_pure mx ss h.tail (fun s hs => hb s (mem_cons_of_mem _ hs))
    have hr := h (some a, r) (by simp)
    by_cases hlt : key a < mx
    · cases r with
      | nil =>
        exact Or.inl ⟨by simp [advanceBehind, hlt], [a], by simp [elems, okRows], by simp [Join.dropBelow, hlt]⟩
      | cons p t =>
        cases p with
        | none => simp at hr
        | some b =>
          rcases ih with ⟨h1, l, hl, he⟩ | ⟨st', h1, h2, h3⟩
          · exact Or.inl ⟨by simp [advanceBehind, hlt, h1, Step.map], l, by simp at hl ⊢; exact Or.inr hl, he⟩
          · refine Or.inr ⟨(some b, t) :: st', by simp [advanceBehind, hlt, h1, Step.map],
              NoFail.cons (fun hm => hr (mem_cons_of_mem _ hm)) h2, ?_⟩
            simp [h3, elems, okRows, Join.dropBelow, hlt]
    · rcases ih with ⟨h1, l, hl, he⟩ | ⟨st', h1, h2, h3⟩
      · exact Or.inl ⟨by simp [advanceBehind, hlt, h1, Step.map], l, by simp at hl ⊢; exact Or.inr hl, he⟩
      · refine Or.inr ⟨(some a, r) :: st', by simp [advanceBehind, hlt, h1, Step.map], NoFail.cons hr h2, ?_⟩
        simp [h3, elems, Join.dropBelow, hlt]

theorem heads_eq (st : List (Src α)) (h : ∀ s ∈ st, s.1.isSome = true) :
    (st.map elems).filterMap head? = st.filterMap (·.1) := by
  induction st with
  | nil => rfl
  | cons s st ih =>
    obtain ⟨b, r⟩ := s
    have hb := h (b, r) (by simp)
    cases b with
    | none => simp at hb
    | some b =>
      simp only [map_cons, filterMap_cons, elems, Option.toList_some, singleton_append, head?_cons]
      rw [ih fun s hs => h s (mem_cons_of_mem _ hs)]

theorem innerLoop_spec : ∀ (fuel : Nat) (st : List (Src α)), NoFail st →
    (∀ l ∈ st.map elems, StrictInc key l) → total st + 1 ≤ fuel →
    innerLoop key fuel st = (innerJoinN key (st.map elems)).map some
  | 0, _, _, _, hf => by omega
  | fuel + 1, st, hnf, hs, hf => by
    simp only [innerLoop]
    rcases refillInner_pure st hnf with ⟨hr, s, hs0, he⟩ | ⟨st1, hr, hnf1⟩
    · rw [hr]
      simp only
      rw [Join.innerJoinN_nil_mem key _ (by rw [← he]; exact mem_map.mpr ⟨s, hs0, rfl⟩)]
      rfl
    · obtain ⟨he, hsome⟩ := refillInner_next hr
      rw [← he] at hs
      rw [← total_eq he] at hf
      rw [hr, ← he]
      simp only
      cases hh : st1.filterMap (·.1) with
      | nil =>
        have : st1 = [] := by
          cases st1 with
          | nil => rfl
          | cons s0 t =>
            obtain ⟨b, hb⟩ := Option.isSome_iff_exists.mp (hsome s0 (by simp))
            have : b ∈ (s0 :: t).filterMap (·.1) := mem_filterMap.mpr ⟨s0, by simp, hb⟩
            rw [hh] at this
            simp at this
        subst this
        rfl
      | cons hd hs' =>
        simp only
        have hge := maxKey_ge key hs' (key hd)
        have hbuf : ∀ s ∈ st1, ∃ b, s.1 = some b ∧ b ∈ hd :: hs' ∧ elems s = b :: okRows s.2 := by
          intro s hs1
          obtain ⟨b, hb⟩ := Option.isSome_iff_exists.mp (hsome s hs1)
          exact ⟨b, hb, by rw [← hh]; exact mem_filterMap.mpr ⟨s, hs1, hb⟩, elems_of_buf hb⟩
        have hne : st1.map elems ≠ [] := by
          intro hnil
          have : st1 = [] := by simpa using hnil
          subst this
          simp at hh
        -- the source holding the maximum has nothing below it
        have hex : ∃ l ∈ st1.map elems, ∀ a ∈ l, maxKey key hs' (key hd) ≤ key a := by
          have hatt : ∃ a ∈ hd :: hs', key a = maxKey key hs' (key hd) := by
            rcases maxKey_mem key hs' (key hd) with h | ⟨a, ha, hk⟩
            · exact ⟨hd, by simp, h.symm⟩
            · exact ⟨a, mem_cons_of_mem _ ha, hk⟩
          obtain ⟨am, ham, hkm⟩ := hatt
          rw [← hh] at ham
          obtain ⟨sm, hsm, hbm⟩ := mem_filterMap.mp ham
          refine ⟨elems sm, mem_map.mpr ⟨sm, hsm, rfl⟩, fun a ha => ?_⟩
          have hsrt := hs (elems sm) (mem_map.mpr ⟨sm, hsm, rfl⟩)
          rw [elems_of_buf hbm] at ha hsrt
          rcases mem_cons.mp ha with rfl | ha
          · omega
          · have := (pairwise_cons.mp hsrt).1 a ha
            omega
        split
        · rename_i hall
          have hkeys : ∀ a ∈ hd :: hs', key a = maxKey key hs' (key hd) := by
            intro a ha
            have := (all_eq_true.mp hall) a ha
            simpa using this
          have hheads : ∀ l ∈ st1.map elems, ∃ h t, l = h :: t ∧ key h = maxKey key hs' (key hd) := by
            intro l hl
            obtain ⟨s, hs1, rfl⟩ := mem_map.mp hl
            obtain ⟨b, _, hbm, hel⟩ := hbuf s hs1
            exact ⟨b, _, hel, hkeys b hbm⟩
          rw [Join.innerJoinN_heads key (st1.map elems) _ hne hs hheads, map_cons, heads_eq st1 hsome, hh]
          congr 1
          have hnext : (st1.map fun s => ((none : Option α), s.2)).map elems = (st1.map elems).map tail := by
            rw [map_map, map_map]
            apply map_congr_left
            intro s hs1
            obtain ⟨b, _, _, hel⟩ := hbuf s hs1
            show elems ((none : Option α), s.2) = (elems s).tail
            rw [hel]
            simp [elems]
          rw [← hnext]
          apply innerLoop_spec fuel
          · intro s hs0
            obtain ⟨s', hs', rfl⟩ := mem_map.mp hs0
            exact hnf1 s' hs'
          · rw [hnext]
            intro l hl
            obtain ⟨l', hl', rfl⟩ := mem_map.mp hl
            have := hs l' hl'
            cases l' with
            | nil => exact this
            | cons x t => exact (pairwise_cons.mp this).2
          · have hlt := Join.sum_length_map_lt tail (st1.map elems) (fun l _ => by simp)
              (by
                cases hst : st1 with
                | nil => subst hst; simp at hne
                | cons s0 t =>
                  obtain ⟨b, _, _, hel⟩ := hbuf s0 (by rw [hst]; simp)
                  exact ⟨elems s0, by simp, by simp [hel]⟩)
            simp only [total] at hf ⊢
            rw [hnext]
            omega
        · rename_i hall
          -- some buffered key is strictly below the maximum
          have hbelow : ∃ s ∈ st1, ∃ b, s.1 = some b ∧ key b < maxKey key hs' (key hd) := by
            have : ∃ a ∈ hd :: hs', key a ≠ maxKey key hs' (key hd) :=
              Classical.byContradiction fun hno => hall (all_eq_true.mpr fun a ha => by
                have : key a = maxKey key hs' (key hd) := Classical.byContradiction fun hk => hno ⟨a, ha, hk⟩
                simpa using this)
            obtain ⟨a, ha, hk⟩ := this
            have hle : key a ≤ maxKey key hs' (key hd) := by
              rcases mem_cons.mp ha with rfl | ha
              · exact hge.1
              · exact hge.2 a ha
            rw [← hh] at ha
            obtain ⟨s, hs1, hb⟩ := mem_filterMap.mp ha
            exact ⟨s, hs1, a, hb, by omega⟩
          rw [Join.innerJoinN_dropBelow key (st1.map elems) _ hs hex]
          rcases advanceBehind_pure key (maxKey key hs' (key hd)) st1 hnf1 hsome with
            ⟨ha, l, hl, hnil⟩ | ⟨st2, ha, hnf2, he2⟩
          · rw [ha]
            simp only
            rw [Join.innerJoinN_nil_mem key _ (by rw [← hnil]; exact mem_map_of_mem hl)]
            rfl
          · rw [ha]
            simp only
            rw [← he2]
            apply innerLoop_spec fuel st2 hnf2
            · rw [he2]
              intro l hl
              obtain ⟨l', hl', rfl⟩ := mem_map.mp hl
              exact Join.strict_dropBelow key _ l' (hs l' hl')
            · obtain ⟨s, hs1, b, hb, hlt⟩ := hbelow
              have hlt' := Join.sum_length_map_lt (Join.dropBelow key (maxKey key hs' (key hd))) (st1.map elems)
                (fun l _ => Join.length_dropBelow_le key _ l)
                ⟨elems s, mem_map.mpr ⟨s, hs1, rfl⟩, by
                  rw [elems_of_buf hb]
                  simp [Join.dropBelow, hlt]⟩
              simp only [total] at hf ⊢
              rw [he2]
              omega

/-- `JoinMultipleSortedStreams` on failure-free strictly increasing sources -/
theorem innerJoin_pure (ls : List (List α)) (hs : ∀ l ∈ ls, StrictInc key l) :
    innerJoin key (ls.map (·.map some)) = (innerJoinN key ls).map some := by
  unfold innerJoin
  cases ls with
  | nil => simp [innerJoinN]
  | cons l0 ls' =>
    obtain ⟨st, h1, h2, h3, _⟩ := initSrcs_pure (l0 :: ls')
    simp only [map_cons, isEmpty_cons, Bool.false_eq_true, if_false]
    simp only [map_cons] at h1
    rw [h1]
    simp only
    have := innerLoop_spec key (2 * totalLen ((l0 :: ls').map (·.map some)) + 2) st h3 (by rw [h2]; exact hs) (by
      simp only [total, h2, totalLen_pure]
      omega)
    rw [h2] at this
    simpa using this

/-! ## left join -/

/-- the part of a source that is not below `k` -/
def fromKey (k : Int) (l : List α) : List α := l.dropWhile fun a => decide (key a < k)

theorem advanceTo_pure (k : Int) : ∀ (r : List α) (b : α),
    ∃ s', advanceTo key k b (r.map some) = some s' ∧ none ∉ s'.2 ∧ (s'.1 = none → s'.2 = []) ∧
      elems s' = fromKey key k (b :: r)
  | [], b => by
    by_cases h : key b < k
    · exact ⟨(none, []), by simp [advanceTo, h], by simp, fun _ => rfl, by simp [elems, okRows, fromKey, h]⟩
    · exact ⟨(some b, []), by simp [advanceTo, h], by simp, fun h' => by simp at h',
        by simp [elems, okRows, fromKey, h]⟩
  | x :: t, b => by
    by_cases h : key b < k
    · obtain ⟨s', h1, h2, h3, h4⟩ := advanceTo_pure k t x
      refine ⟨s', by simp [advanceTo, h, h1], h2, h3, ?_⟩
      rw [h4]
      simp [fromKey, h]
    · refine ⟨(some b, some x :: t.map some), by simp [advanceTo, h], by simp, fun h' => by simp at h', ?_⟩
      have : okRows (some x :: t.map some) = x :: t := okRows_map_some (x :: t)
      simp [elems, this, fromKey, h]

theorem leftOthers_pure (k : Int) : ∀ (others : List (Src α)), NoFail others → Filled others →
    ∃ others', leftOthers key k others = some others' ∧ NoFail others' ∧ Filled others' ∧
      others'.map elems = (others.map elems).map (fromKey key k)
  | [], _, _ => ⟨[], rfl, by simp [NoFail], by simp [Filled], rfl⟩
  | (none, r) :: ss, hn, hf => by
    obtain ⟨o', h1, h2, h3, h4⟩ := leftOthers_pure k ss hn.tail (fun s hs => hf s (mem_cons_of_mem _ hs))
    have hr : r = [] := hf (none, r) (by simp) rfl
    subst hr
    exact ⟨(none, []) :: o', by simp [leftOthers, h1], NoFail.cons (by simp) h2, Filled.cons (fun _ => rfl) h3,
      by simp [h4, elems, okRows, fromKey]⟩
  | (some b, r) :: ss, hn, hf => by
    obtain ⟨o', h1, h2, h3, h4⟩ := leftOthers_pure k ss hn.tail (fun s hs => hf s (mem_cons_of_mem _ hs))
    have hr := noFail_eq (hn (some b, r) (by simp))
    obtain ⟨s', e1, e2, e3, e4⟩ := advanceTo_pure key k (okRows r) b
    simp only at hr
    rw [← hr] at e1
    refine ⟨s' :: o', by simp [leftOthers, e1, h1], NoFail.cons e2 h2, Filled.cons e3 h3, ?_⟩
    have hel : elems ((some b, r) : Src α) = b :: okRows r := by simp [elems]
    simp only [map_cons, h4, e4, hel]

theorem lookupKey_fromKey (k k' : Int) (h : k ≤ k') : ∀ (l : List α),
    lookupKey key k' (fromKey key k l) = lookupKey key k' l
  | [] => rfl
  | a :: l => by
    by_cases ha : key a < k
    · have hne : (key a == k') = false := by simp only [beq_eq_false_iff_ne]; omega
      have ih := lookupKey_fromKey k k' h l
      simp only [fromKey, lookupKey] at ih
      simp [fromKey, lookupKey, ha, hne, ih]
    · simp [fromKey, ha]

theorem headIf_fromKey (k : Int) : ∀ (l : List α), StrictInc key l →
    Join.headIf key k (fromKey key k l) = lookupKey key k l
  | [], _ => rfl
  | a :: l, hs => by
    by_cases ha : key a < k
    · have hne : (key a == k) = false := by simp only [beq_eq_false_iff_ne]; omega
      have ih := headIf_fromKey k l (pairwise_cons.mp hs).2
      simp only [fromKey, lookupKey] at ih
      simp [fromKey, lookupKey, ha, hne, ih]
    · by_cases hk : key a = k
      · simp [fromKey, ha, Join.headIf, lookupKey, hk]
      · have hne : (key a == k) = false := by simpa using hk
        have hnone := Join.lookupKey_none_of_above key k l (fun x hx => by
          have := (pairwise_cons.mp hs).1 x hx
          omega)
        simp only [lookupKey] at hnone
        simp [fromKey, ha, Join.headIf, lookupKey, hne, hnone]

theorem strict_fromKey (k : Int) (l : List α) (hs : StrictInc key l) : StrictInc key (fromKey key k l) :=
  hs.sublist (dropWhile_sublist _)

/-- the rows of the left join for the left records `lefts` against the other sources -/
def leftRowsOf (lefts : List α) (others : List (List α)) : List (α × List (Option α)) :=
  lefts.map fun a => (a, others.map (lookupKey key (key a)))

theorem leftEmit_spec {loop : List (Src α) → List (Option (α × List (Option α)))} {left : α} {r0' : List (Option α)}
    {others : List (Src α)} (hn : NoFail others) (hf : Filled others)
    (hso : ∀ l ∈ others.map elems, StrictInc key l) (hleft : StrictInc key (left :: okRows r0'))
    (hloop : ∀ others', NoFail others' → Filled others' → (∀ l ∈ others'.map elems, StrictInc key l) →
      loop ((none, r0') :: others') = (leftRowsOf key (okRows r0') (others'.map elems)).map some) :
    leftEmit key loop left r0' others = (leftRowsOf key (left :: okRows r0') (others.map elems)).map some := by
  obtain ⟨o', h1, h2, h3, h4⟩ := leftOthers_pure key (key left) others hn hf
  have hso' : ∀ l ∈ o'.map elems, StrictInc key l := by
    rw [h4]
    intro l hl
    obtain ⟨l', hl', rfl⟩ := mem_map.mp hl
    exact strict_fromKey key _ l' (hso l' hl')
  simp only [leftEmit, h1, leftRowsOf, map_cons]
  rw [hloop o' h2 h3 hso']
  congr 1
  · -- the emitted row
    congr 2
    have : o'.map (matchBuf key (key left)) = (o'.map elems).map (Join.headIf key (key left)) := by
      rw [map_map]
      exact map_congr_left fun s hs => matchBuf_headIf key _ s (h3 s hs)
    rw [this, h4, map_map]
    apply map_congr_left
    intro l hl
    exact headIf_fromKey key _ l (hso l hl)
  · -- the later rows look up the same records
    simp only [leftRowsOf, h4]
    congr 1
    apply map_congr_left
    intro a ha
    have hlt : key left < key a := (pairwise_cons.mp hleft).1 a ha
    congr 1
    rw [map_map]
    apply map_congr_left
    intro l _
    exact lookupKey_fromKey key _ _ (by omega) l

theorem leftLoop_spec : ∀ (fuel : Nat) (s0 : Src α) (others : List (Src α)), NoFail (s0 :: others) → Filled others →
    StrictInc key (elems s0) → (∀ l ∈ others.map elems, StrictInc key l) → (elems s0).length + 1 ≤ fuel →
    leftLoop key fuel (s0 :: others) = (leftRowsOf key (elems s0) (others.map elems)).map some
  | 0, _, _, _, _, _, _, hf => by omega
  | fuel + 1, (some a, r0), others, hn, hfl, hs0, hso, hf => by
    have hr0 : none ∉ r0 := hn (some a, r0) (by simp)
    simp only [leftLoop]
    have hel : elems ((some a, r0) : Src α) = a :: okRows r0 := by simp [elems]
    rw [hel] at hs0 hf ⊢
    refine leftEmit_spec key hn.tail hfl hso hs0 fun o' h2 h3 hso' => ?_
    have := leftLoop_spec fuel (none, r0) o' (NoFail.cons hr0 h2) h3
      (by
        have : elems ((none, r0) : Src α) = okRows r0 := by simp [elems]
        rw [this]; exact (pairwise_cons.mp hs0).2) hso' (by simp [elems] at hf ⊢; omega)
    simpa [elems] using this
  | fuel + 1, (none, []), others, _, _, _, _, _ => by simp [leftLoop, elems, okRows, leftRowsOf]
  | fuel + 1, (none, some a :: t), others, hn, hfl, hs0, hso, hf => by
    have hr0 : none ∉ some a :: t := hn (none, some a :: t) (by simp)
    have ht : none ∉ t := fun hm => hr0 (mem_cons_of_mem _ hm)
    simp only [leftLoop]
    have hel : elems ((none, some a :: t) : Src α) = a :: okRows t := by simp [elems, okRows]
    rw [hel] at hs0 hf ⊢
    refine leftEmit_spec key hn.tail hfl hso hs0 fun o' h2 h3 hso' => ?_
    have := leftLoop_spec fuel (none, t) o' (NoFail.cons ht h2) h3
      (by
        have : elems ((none, t) : Src α) = okRows t := by simp [elems]
        rw [this]; exact (pairwise_cons.mp hs0).2) hso' (by simp [elems] at hf ⊢; omega)
    simpa [elems] using this
  | fuel + 1, (none, none :: t), others, hn, _, _, _, _ => by
    have := hn (none, none :: t) (by simp)
    simp at this

theorem length_le_sum {l : List α} {ls : List (List α)} (h : l ∈ ls) : l.length ≤ (ls.map length).sum := by
  induction ls with
  | nil => simp at h
  | cons x xs ih =>
    rcases mem_cons.mp h with rfl | h
    · simp
    · have := ih h
      simp only [map_cons, sum_cons]
      omega

/-- `LeftJoinMultipleSortedStreams` on failure-free strictly increasing sources -/
theorem leftJoin_pure (ls : List (List α)) (hs : ∀ l ∈ ls, StrictInc key l) :
    leftJoin key (ls.map (·.map some)) = (leftJoinN key ls).map some := by
  unfold leftJoin
  cases ls with
  | nil => simp [leftJoinN]
  | cons l0 ls' =>
    obtain ⟨st, h1, h2, h3, h4⟩ := initSrcs_pure (l0 :: ls')
    simp only [map_cons, isEmpty_cons, Bool.false_eq_true, if_false]
    simp only [map_cons] at h1
    rw [h1]
    simp only
    cases st with
    | nil => simp at h2
    | cons s0 others =>
      simp only [map_cons, cons.injEq] at h2
      obtain ⟨e0, eo⟩ := h2
      have := leftLoop_spec key (totalLen ((l0 :: ls').map (·.map some)) + 2) s0 others h3
        (fun s hs' => h4 s (mem_cons_of_mem _ hs')) (by rw [e0]; exact hs l0 (by simp))
        (by rw [eo]; exact fun l hl => hs l (mem_cons_of_mem _ hl))
        (by
          rw [e0, totalLen_pure]
          have := length_le_sum (l := l0) (ls := l0 :: ls') (by simp)
          omega)
      rw [e0, eo] at this
      simpa [leftJoinN, leftRowsOf] using this

end ShpanVerif.Proofs.Query
