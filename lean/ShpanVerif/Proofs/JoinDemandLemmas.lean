/-
Lemmas about the pull-counting copy of the N-way inner join (Model/JoinDemand.lean).

Part 1 - erasure: forgetting `out` / `orig` turns `pfill`, `prefill`, `padv`, `ptake`, `pinner` into `fill`, `refillOrEof`,
         `advanceBehind`, `takeBuf`, `innerLoop` of the operational model (Model/Join.lean).
Part 2 - the lockstep potential.  For two inputs `a`, `b` of the same join and a key `B` that bounds every key of `b`:
             e a + below B (rem a) + |rem b|          (`e a` = elements handed out by `a`, + 1 while its slot is empty)
         never grows: whenever `a` is handed a new element, either `b` gives one up in the same round (it lags too, or a
         row is emitted), or `b` sits at the maximum - then `a`'s old head was below `b`'s head, hence below `B`, and leaves
         `rem a`.  Only the last, interrupted advance round can add one, and there `b` still holds an element.
-/
import ShpanVerif.Model.JoinDemand

namespace ShpanVerif.Proofs.JoinDemand
open List ShpanVerif.Model.Join ShpanVerif.Model.JoinDemand

variable {α : Type} (key : α → Int)

/-! ## Part 1: erasure -/

theorem src_pfill (s : PS α) : (pfill s).src = fill s.src := by
  rcases s with ⟨buf, last, rest, out, orig⟩
  cases buf <;> cases rest <;> rfl

theorem buf_src (s : PS α) : s.src.buf = s.buf := rfl

theorem src_ptake (s : PS α) : (ptake s).src = takeBuf s.src := rfl

theorem prefill_cons_none (s : PS α) (ss : List (PS α)) (h : (pfill s).buf = none) :
    prefill (s :: ss) = (pfill s :: ss, false) := by
  simp [prefill, h]

theorem prefill_cons_some (s : PS α) (ss : List (PS α)) (b : α) (h : (pfill s).buf = some b) :
    prefill (s :: ss) = (pfill s :: (prefill ss).1, (prefill ss).2) := by
  simp [prefill, h]

theorem refill_cons_none (s : Src α) (ss : List (Src α)) (h : (fill s).buf = none) :
    refillOrEof (s :: ss) = none := by
  simp [refillOrEof, h]

theorem refill_cons_some (s : Src α) (ss : List (Src α)) (b : α) (h : (fill s).buf = some b) :
    refillOrEof (s :: ss) = (refillOrEof ss).map (fill s :: ·) := by
  simp [refillOrEof, h]

theorem prefill_src : ∀ ss : List (PS α),
    refillOrEof (ss.map PS.src) = if (prefill ss).2 = true then some ((prefill ss).1.map PS.src) else none
  | [] => rfl
  | s :: ss => by
    have ih := prefill_src ss
    have hb : (fill s.src).buf = (pfill s).buf := by rw [← src_pfill]; rfl
    cases h : (pfill s).buf with
    | none =>
      rw [map_cons, refill_cons_none _ _ (hb.trans h), prefill_cons_none s ss h]
      simp
    | some b =>
      rw [map_cons, refill_cons_some _ _ b (hb.trans h), prefill_cons_some s ss b h, ih]
      cases h2 : (prefill ss).2 <;> simp [src_pfill]

theorem padv_src (m : Int) : ∀ ss : List (PS α),
    advanceBehind key m (ss.map PS.src) = if (padv key m ss).2 = true then some ((padv key m ss).1.map PS.src) else none
  | [] => rfl
  | s :: ss => by
    have ih := padv_src m ss
    rcases s with ⟨buf, last, rest, out, orig⟩
    cases buf with
    | none =>
      simp only [map_cons, advanceBehind, padv, PS.src, ih]
      cases h2 : (padv key m ss).2 <;> simp
    | some b =>
      by_cases hlt : key b < m
      · cases rest with
        | nil => simp [advanceBehind, padv, PS.src, hlt]
        | cons x xs =>
          simp only [map_cons, advanceBehind, padv, PS.src, hlt, if_true, ih]
          cases h2 : (padv key m ss).2 <;> simp
      · simp only [map_cons, advanceBehind, padv, PS.src, hlt, if_false, ih]
        cases h2 : (padv key m ss).2 <;> simp

/-- forgetting the state of the ended join and the counters -/
def eraseStep : PStep α → Step (NState α) (List α)
  | .eof _ => .eof
  | .err e _ => .err e
  | .row v ss => .row v { inited := true, lastLeftKey := none, srcs := ss.map PS.src }

theorem pinner_src : ∀ (fuel : Nat) (ss : List (PS α)),
    eraseStep (pinner key fuel ss) = innerLoop key fuel (ss.map PS.src)
  | 0, ss => rfl
  | fuel+1, ss => by
    rw [pinner, innerLoop, prefill_src]
    rcases h : prefill ss with ⟨ss1, ok⟩
    cases ok with
    | false => simp [eraseStep]
    | true =>
      simp only [if_true]
      cases h1 : firstUnsorted key 0 (ss1.map PS.src) with
      | some i => simp [eraseStep]
      | none =>
        simp only []
        cases h2 : maxKey (headKeys key (ss1.map PS.src)) with
        | none => simp [eraseStep]
        | some m =>
          simp only []
          by_cases hall : ((headKeys key (ss1.map PS.src)).all fun k => k == m) = true
          · simp only [hall, if_true, eraseStep, map_map, filterMap_map]
            congr 2
          · simp only [hall, Bool.false_eq_true, if_false]
            rw [padv_src]
            rcases h3 : padv key m ss1 with ⟨ss2, ok2⟩
            cases ok2 with
            | false => simp [eraseStep]
            | true =>
              simp only [if_true]
              exact pinner_src fuel ss2

theorem emitInnerN_inited' (srcs : List (Src α)) :
    emitInnerN key { inited := true, lastLeftKey := none, srcs := srcs } = innerLoop key (totalRest srcs + 1) srcs := by
  simp [emitInnerN, initBufs]

theorem pemit_src (ss : List (PS α)) :
    eraseStep (pemit key ss) = emitInnerN key { inited := true, lastLeftKey := none, srcs := ss.map PS.src } := by
  rw [emitInnerN_inited', pemit, pinner_src]

/-- the rows of `pcollect` are the first `want` rows of the operational model's `collect` -/
theorem pcollect_src : ∀ (fuel want : Nat) (ss : List (PS α)),
    (pcollect key fuel want ss).1
      = ((collect (emitInnerN key) fuel { inited := true, lastLeftKey := none, srcs := ss.map PS.src }).1).take want
  | fuel, 0, ss => by cases fuel <;> simp [pcollect]
  | 0, want+1, ss => by simp [pcollect, collect]
  | fuel+1, want+1, ss => by
    have h := pemit_src key ss
    rw [pcollect, collect, ← h]
    cases h2 : pemit key ss with
    | eof ss' => simp [eraseStep]
    | err e ss' => simp [eraseStep]
    | row v ss' =>
      simp only [eraseStep, take_succ_cons]
      rw [pcollect_src fuel want ss']

/-! ## Part 2: the lockstep potential -/

/-- what an input still holds -/
def rem (s : PS α) : List α := s.buf.toList ++ s.rest

/-- number of elements of `l` with key below `B` -/
def below (B : Int) (l : List α) : Nat := (l.filter (fun x => decide (key x < B))).length

/-- elements handed out, plus one while the slot is empty (the pull that is due) -/
def e (s : PS α) : Nat := s.out + (if s.buf.isNone then 1 else 0)

theorem below_cons (B : Int) (h : α) (t : List α) :
    below key B (h :: t) = (if key h < B then 1 else 0) + below key B t := by
  by_cases hh : key h < B <;> simp [below, hh] <;> omega

theorem below_le_of_sub (B : Int) (h : α) (t : List α) : below key B t ≤ below key B (h :: t) := by
  rw [below_cons]; omega

/-- one input in an advance round -/
def adv1 (m : Int) (s : PS α) : PS α :=
  match s.buf, s.rest with
  | some b, x :: xs =>
    if key b < m then { s with buf := some x, last := some b, rest := xs, out := s.out + 1 } else s
  | _, _ => s

/-- per-input invariant: what it holds comes from its list -/
def W (s : PS α) : Prop := ∀ x ∈ rem s, x ∈ s.orig

/-- the pair invariant -/
def Inv (ss : List (PS α)) : Prop :=
  (∀ s ∈ ss, W s) ∧
  ∀ a ∈ ss, ∀ b ∈ ss, ∀ B : Int, (∀ x ∈ b.orig, key x ≤ B) →
    e a + below key B (rem a) + (rem b).length ≤ 1 + below key B a.orig + b.orig.length

/-- the bound itself -/
def Bound (ss : List (PS α)) : Prop :=
  ∀ a ∈ ss, ∀ b ∈ ss, ∀ B : Int, (∀ x ∈ b.orig, key x ≤ B) →
    a.out ≤ 1 + below key B a.orig + b.orig.length

theorem bound_of_inv {ss : List (PS α)} (h : Inv key ss) : Bound key ss := by
  intro a ha b hb B hB
  have := h.2 a ha b hb B hB
  unfold e at this
  omega

/-! ### single inputs -/

theorem pfill_facts (s : PS α) :
    e (pfill s) = e s ∧ rem (pfill s) = rem s ∧ (pfill s).orig = s.orig := by
  rcases s with ⟨buf, last, rest, out, orig⟩
  cases buf <;> cases rest <;> simp [pfill, e, rem]

theorem ptake_facts (s : PS α) (b : α) (hb : s.buf = some b) :
    e (ptake s) = e s + 1 ∧ rem s = b :: rem (ptake s) ∧ (ptake s).orig = s.orig := by
  rcases s with ⟨buf, last, rest, out, orig⟩
  simp only at hb; subst hb
  simp [ptake, e, rem]

theorem adv1_orig (m : Int) (s : PS α) : (adv1 key m s).orig = s.orig := by
  rcases s with ⟨buf, last, rest, out, orig⟩
  cases buf with
  | none => rfl
  | some b =>
    cases rest with
    | nil => rfl
    | cons x xs => by_cases h : key b < m <;> simp [adv1, h]

/-- an input in an advance round: it stays as it is, or it lagged and gives up its head for the next element -/
theorem adv1_cases (m : Int) (s : PS α) :
    adv1 key m s = s ∨
      ∃ b x xs, s.buf = some b ∧ key b < m ∧ s.rest = x :: xs ∧ rem s = b :: rem (adv1 key m s) ∧
        e (adv1 key m s) = e s + 1 ∧ (adv1 key m s).out = s.out + 1 ∧ (adv1 key m s).buf = some x := by
  rcases s with ⟨buf, last, rest, out, orig⟩
  cases buf with
  | none => exact Or.inl rfl
  | some b =>
    cases rest with
    | nil => exact Or.inl rfl
    | cons x xs =>
      by_cases h : key b < m
      · exact Or.inr ⟨b, x, xs, rfl, h, rfl, by simp [adv1, h, rem], by simp [adv1, h, e], by simp [adv1, h],
          by simp [adv1, h]⟩
      · exact Or.inl (by simp [adv1, h])

/-- an input that does not lag is left alone -/
theorem adv1_not_behind (m : Int) (s : PS α) (b : α) (hb : s.buf = some b) (h : ¬ key b < m) : adv1 key m s = s := by
  rcases s with ⟨buf, last, rest, out, orig⟩
  simp only at hb; subst hb
  cases rest <;> simp [adv1, h]

/-! ### the list functions -/

theorem prefill_mem : ∀ (ss : List (PS α)) (s' : PS α), s' ∈ (prefill ss).1 → ∃ s ∈ ss, s' = s ∨ s' = pfill s
  | [], s', h => by simp [prefill] at h
  | s :: ss, s', h => by
    simp only [prefill] at h
    cases hb : (pfill s).buf with
    | none =>
      simp only [hb, mem_cons] at h
      rcases h with rfl | h
      · exact ⟨s, by simp, Or.inr rfl⟩
      · exact ⟨s', by simp [h], Or.inl rfl⟩
    | some b =>
      simp only [hb, mem_cons] at h
      rcases h with rfl | h
      · exact ⟨s, by simp, Or.inr rfl⟩
      · obtain ⟨t, ht, hh⟩ := prefill_mem ss s' h
        exact ⟨t, by simp [ht], hh⟩

theorem prefill_filled : ∀ (ss : List (PS α)), (prefill ss).2 = true → ∀ s' ∈ (prefill ss).1, ∃ b, s'.buf = some b
  | [], _, s', h => by simp [prefill] at h
  | s :: ss, hok, s', h => by
    simp only [prefill] at h hok
    cases hb : (pfill s).buf with
    | none => simp [hb] at hok
    | some b =>
      simp only [hb, mem_cons] at h hok
      rcases h with rfl | h
      · exact ⟨b, hb⟩
      · exact prefill_filled ss hok s' h

theorem padv_mem (m : Int) : ∀ (ss : List (PS α)) (s' : PS α), s' ∈ (padv key m ss).1 →
    ∃ s ∈ ss, s' = s ∨ s' = adv1 key m s
  | [], s', h => by simp [padv] at h
  | s :: ss, s', h => by
    rcases s with ⟨buf, last, rest, out, orig⟩
    cases buf with
    | none =>
      simp only [padv, mem_cons] at h
      rcases h with rfl | h
      · exact ⟨_, by simp, Or.inl rfl⟩
      · obtain ⟨t, ht, hh⟩ := padv_mem m ss s' h
        exact ⟨t, by simp [ht], hh⟩
    | some b =>
      by_cases hlt : key b < m
      · cases rest with
        | nil =>
          simp only [padv, hlt, if_true, mem_cons] at h
          rcases h with rfl | h
          · exact ⟨_, by simp, Or.inl rfl⟩
          · exact ⟨s', by simp [h], Or.inl rfl⟩
        | cons x xs =>
          simp only [padv, hlt, if_true, mem_cons] at h
          rcases h with rfl | h
          · exact ⟨⟨some b, last, x :: xs, out, orig⟩, by simp, Or.inr (by simp [adv1, hlt])⟩
          · obtain ⟨t, ht, hh⟩ := padv_mem m ss s' h
            exact ⟨t, by simp [ht], hh⟩
      · simp only [padv, hlt, if_false, mem_cons] at h
        rcases h with rfl | h
        · exact ⟨_, by simp, Or.inl rfl⟩
        · obtain ⟨t, ht, hh⟩ := padv_mem m ss s' h
          exact ⟨t, by simp [ht], hh⟩

/-- a completed advance round is a map, and every lagging input had an element to give -/
theorem padv_ok (m : Int) : ∀ (ss : List (PS α)), (padv key m ss).2 = true →
    (padv key m ss).1 = ss.map (adv1 key m) ∧ ∀ s ∈ ss, ∀ b, s.buf = some b → key b < m → s.rest ≠ []
  | [], _ => by simp [padv]
  | s :: ss, hok => by
    rcases s with ⟨buf, last, rest, out, orig⟩
    cases buf with
    | none =>
      simp only [padv] at hok ⊢
      obtain ⟨h1, h2⟩ := padv_ok m ss hok
      refine ⟨by simp [h1, adv1], ?_⟩
      intro s hs b hb
      rcases mem_cons.mp hs with rfl | hs
      · simp at hb
      · exact h2 s hs b hb
    | some b0 =>
      by_cases hlt : key b0 < m
      · cases rest with
        | nil => simp [padv, hlt] at hok
        | cons x xs =>
          simp only [padv, hlt, if_true] at hok ⊢
          obtain ⟨h1, h2⟩ := padv_ok m ss hok
          refine ⟨by simp [h1, adv1, hlt], ?_⟩
          intro s hs b hb hbm
          rcases mem_cons.mp hs with rfl | hs
          · simp
          · exact h2 s hs b hb hbm
      · simp only [padv, hlt, if_false] at hok ⊢
        obtain ⟨h1, h2⟩ := padv_ok m ss hok
        refine ⟨by
          simp only [h1, map_cons, cons.injEq, and_true]
          cases rest <;> simp [adv1, hlt], ?_⟩
        intro s hs b hb hbm
        rcases mem_cons.mp hs with rfl | hs
        · simp only [Option.some.injEq] at hb; subst hb; exact absurd hbm hlt
        · exact h2 s hs b hb hbm

/-! ### the invariant through the steps -/

/-- refilling (completed or interrupted) changes neither `e` nor `rem`: the invariant is kept -/
theorem inv_prefill {ss : List (PS α)} (h : Inv key ss) : Inv key (prefill ss).1 := by
  have hfact : ∀ s' ∈ (prefill ss).1, ∃ s ∈ ss, e s' = e s ∧ rem s' = rem s ∧ s'.orig = s.orig := by
    intro s' hs'
    obtain ⟨s, hs, hh | hh⟩ := prefill_mem ss s' hs'
    · exact ⟨s, hs, by rw [hh], by rw [hh], by rw [hh]⟩
    · rw [hh]; exact ⟨s, hs, pfill_facts s⟩
  constructor
  · intro s' hs'
    obtain ⟨s, hs, _, h2, h3⟩ := hfact s' hs'
    intro x hx
    rw [h3]; rw [h2] at hx; exact h.1 s hs x hx
  · intro a' ha' b' hb' B hB
    obtain ⟨a, ha, a1, a2, a3⟩ := hfact a' ha'
    obtain ⟨b, hb, _, b2, b3⟩ := hfact b' hb'
    rw [a1, a2, a3, b2, b3]
    exact h.2 a ha b hb B (by rw [← b3]; exact hB)

/-- a row: every input gives up its head -/
theorem inv_ptake {ss : List (PS α)} (h : Inv key ss) (hf : ∀ s ∈ ss, ∃ b, s.buf = some b) :
    Inv key (ss.map ptake) := by
  constructor
  · intro s' hs'
    obtain ⟨s, hs, rfl⟩ := mem_map.mp hs'
    obtain ⟨b, hb⟩ := hf s hs
    obtain ⟨_, h2, h3⟩ := ptake_facts s b hb
    intro x hx
    rw [h3]; exact h.1 s hs x (by rw [h2]; simp [hx])
  · intro a' ha' b' hb' B hB
    obtain ⟨a, ha, rfl⟩ := mem_map.mp ha'
    obtain ⟨b, hb, rfl⟩ := mem_map.mp hb'
    obtain ⟨ba, hba⟩ := hf a ha
    obtain ⟨bb, hbb⟩ := hf b hb
    obtain ⟨a1, a2, a3⟩ := ptake_facts a ba hba
    obtain ⟨_, b2, b3⟩ := ptake_facts b bb hbb
    have := h.2 a ha b hb B (by rw [← b3]; exact hB)
    rw [a2, b2, below_cons] at this
    rw [a1, a3, b3]
    simp only [length_cons] at this
    omega

/-- a completed advance round -/
theorem inv_padv (m : Int) {ss : List (PS α)} (h : Inv key ss) (hf : ∀ s ∈ ss, ∃ b, s.buf = some b)
    (hok : (padv key m ss).2 = true) : Inv key (padv key m ss).1 := by
  obtain ⟨hmap, hrest⟩ := padv_ok key m ss hok
  rw [hmap]
  constructor
  · intro s' hs'
    obtain ⟨s, hs, rfl⟩ := mem_map.mp hs'
    intro x hx
    rw [adv1_orig]
    rcases adv1_cases key m s with heq | ⟨b, y, ys, _, _, _, hrem, _⟩
    · rw [heq] at hx; exact h.1 s hs x hx
    · exact h.1 s hs x (by rw [hrem]; simp [hx])
  · intro a' ha' b' hb' B hB
    obtain ⟨a, ha, rfl⟩ := mem_map.mp ha'
    obtain ⟨b, hb, rfl⟩ := mem_map.mp hb'
    rw [adv1_orig] at hB ⊢
    rw [adv1_orig]
    have hinv := h.2 a ha b hb B hB
    -- what `b` holds does not grow
    have hbl : (rem (adv1 key m b)).length ≤ (rem b).length := by
      rcases adv1_cases key m b with heq | ⟨_, _, _, _, _, _, hrem, _⟩
      · rw [heq]; exact Nat.le_refl _
      · rw [hrem]; simp
    rcases adv1_cases key m a with heq | ⟨ba, x, xs, hba, hlt, _, hrema, hea, _, _⟩
    · rw [heq]; omega
    · -- `a` lagged: it was handed one element
      rw [hea]
      rw [hrema, below_cons] at hinv
      obtain ⟨bb, hbb⟩ := hf b hb
      by_cases hbl2 : key bb < m
      · -- `b` lagged too: it gave one up
        have hne := hrest b hb bb hbb hbl2
        rcases adv1_cases key m b with heq | ⟨_, _, _, _, _, _, hremb, _⟩
        · -- impossible: a lagging input with a non-empty rest is advanced
          exfalso
          rcases b with ⟨buf, last, rest, out, orig⟩
          simp only at hbb hne; subst hbb
          cases rest with
          | nil => exact hne rfl
          | cons y ys =>
            have : (adv1 key m ⟨some bb, last, y :: ys, out, orig⟩).out = out + 1 := by simp [adv1, hbl2]
            rw [heq] at this
            simp at this
        · rw [hremb] at hinv
          simp only [length_cons] at hinv
          split at hinv <;> omega
      · -- `b` sits at (or above) the maximum: `a`'s old head is below `b`'s head, hence below `B`
        rw [adv1_not_behind key m b bb hbb hbl2]
        have hbbB : key bb ≤ B := hB bb (h.1 b hb bb (by simp [rem, hbb]))
        have : key ba < B := by omega
        simp only [this, if_true] at hinv
        omega

/-- an interrupted advance round (some lagging input answered EOF): the bound still holds -/
theorem bound_padv_partial (m : Int) {ss : List (PS α)} (h : Inv key ss) (hf : ∀ s ∈ ss, ∃ b, s.buf = some b) :
    Bound key (padv key m ss).1 := by
  intro a' ha' b' hb' B hB
  obtain ⟨a, ha, haa⟩ := padv_mem key m ss a' ha'
  obtain ⟨b, hb, hbb⟩ := padv_mem key m ss b' hb'
  have ho : b'.orig = b.orig := by
    rcases hbb with hh | hh
    · rw [hh]
    · rw [hh]; exact adv1_orig key m b
  rw [ho] at hB ⊢
  have hinv := h.2 a ha b hb B hB
  obtain ⟨bb, hbbuf⟩ := hf b hb
  have hlen : 1 ≤ (rem b).length := by simp [rem, hbbuf]
  obtain ⟨ba, hba⟩ := hf a ha
  have hea : e a = a.out := by simp [e, hba]
  rcases haa with hh | hh
  · rw [hh]; omega
  · rw [hh, adv1_orig]
    rcases adv1_cases key m a with heq | ⟨_, _, _, _, _, _, _, _, hout, _⟩
    · rw [heq]; omega
    · rw [hout]; omega

end ShpanVerif.Proofs.JoinDemand
