/-
C14/C15 helper lemmas: the cluster machine of Model/TsBase1415.lean (whole-cluster factories)
computes the maximal runs of equal key, each run paired with the last element of the previous run.
-/
import ShpanVerif.Model.TsBase1415

namespace ShpanVerif.Proofs.Cl1415
open List ShpanVerif.Model.TsB

variable {α : Type}

/-- List-level spec: the maximal runs of equal key, in order. -/
def runs (key : α → Int) : List α → List (Int × List α)
  | [] => []
  | x :: xs =>
    match runs key xs with
    | (k, g) :: rest => if key x = k then (k, x :: g) :: rest else (key x, [x]) :: (k, g) :: rest
    | [] => [(key x, [x])]

/-- Pair every run with the last element of the run before it (`lastItemOnPreviousCluster`). -/
def attachPrev : Option α → List (Int × List α) → List (Int × Option α × List α)
  | _, [] => []
  | lp, (k, g) :: rest => (k, lp, g) :: attachPrev g.getLast? rest

theorem runs_flatten (key : α → Int) (xs : List α) : (runs key xs).flatMap (·.2) = xs := by
  induction xs with
  | nil => rfl
  | cons x xs ih =>
    simp only [runs]
    split
    · rename_i k g rest h
      rw [h] at ih
      split <;> simp_all [flatMap_cons]
    · rename_i h
      rw [h] at ih
      simp_all [flatMap_cons]

theorem runs_ne_nil (key : α → Int) (x : α) (xs : List α) : runs key (x :: xs) ≠ [] := by
  simp only [runs]; split <;> (try split) <;> simp

/-- Every run is non-empty and all its elements have the run's key. -/
theorem runs_keys (key : α → Int) (xs : List α) :
    ∀ kg ∈ runs key xs, kg.2 ≠ [] ∧ ∀ x ∈ kg.2, key x = kg.1 := by
  induction xs with
  | nil => simp [runs]
  | cons x xs ih =>
    simp only [runs]
    split
    · rename_i k g rest h
      rw [h] at ih
      split
      · rename_i hk
        intro kg hkg
        rcases mem_cons.mp hkg with rfl | hkg
        · refine ⟨by simp, ?_⟩
          intro y hy
          rcases mem_cons.mp hy with rfl | hy
          · exact hk
          · exact (ih (k, g) (by simp)).2 y hy
        · exact ih kg (by simp [hkg])
      · intro kg hkg
        rcases mem_cons.mp hkg with rfl | hkg
        · simp
        · exact ih kg hkg
    · intro kg hkg
      simp at hkg; subst hkg; simp

/-- The first run starts with the first element. -/
theorem runs_head (key : α → Int) (x : α) (xs : List α) :
    ∃ g rest, runs key (x :: xs) = (key x, x :: g) :: rest := by
  simp only [runs]
  split
  · split
    · rename_i hk; exact ⟨_, _, by rw [hk]⟩
    · exact ⟨_, _, rfl⟩
  · exact ⟨_, _, rfl⟩

/-- Neighbouring runs have different keys (the runs are maximal). -/
theorem runs_adjacent (key : α → Int) (xs : List α) :
    ∀ pre k1 g1 k2 g2 post, runs key xs = pre ++ (k1, g1) :: (k2, g2) :: post → k1 ≠ k2 := by
  induction xs with
  | nil => intro pre k1 g1 k2 g2 post h; simp [runs] at h
  | cons x xs ih =>
    intro pre k1 g1 k2 g2 post h
    simp only [runs] at h
    split at h
    · rename_i k g rest hr
      split at h
      · rename_i hk
        cases pre with
        | nil =>
          simp only [nil_append, cons.injEq, Prod.mk.injEq] at h
          obtain ⟨⟨hk1, _⟩, hrest⟩ := h
          subst hk1
          exact ih [] _ g k2 g2 post (by rw [hr, hrest]; rfl)
        | cons p pre =>
          simp only [cons_append, cons.injEq] at h
          exact ih ((k, g) :: pre) k1 g1 k2 g2 post (by rw [hr, h.2]; rfl)
      · rename_i hk
        cases pre with
        | nil =>
          simp only [nil_append, cons.injEq, Prod.mk.injEq] at h
          obtain ⟨⟨hk1, _⟩, ⟨hk2, _⟩, _⟩ := h
          subst hk1; subst hk2
          exact hk
        | cons p pre =>
          simp only [cons_append, cons.injEq] at h
          exact ih pre k1 g1 k2 g2 post (by rw [hr, h.2])
    · cases pre with
      | nil => simp at h
      | cons p pre => simp at h

/-- Building block: a non-empty block of key `k` in front of a list that does not continue it. -/
theorem runs_block (key : α → Int) (k : Int) (g : List α) (tl : List α) (hg : g ≠ [])
    (hk : ∀ x ∈ g, key x = k) (htl : ∀ y, tl.head? = some y → key y ≠ k) :
    runs key (g ++ tl) = (k, g) :: runs key tl := by
  induction g with
  | nil => exact absurd rfl hg
  | cons x g ih =>
    have hx : key x = k := hk x (by simp)
    by_cases hgn : g = []
    · subst hgn
      simp only [cons_append, nil_append, runs]
      cases tl with
      | nil => simp [runs, hx]
      | cons y tl =>
        obtain ⟨g', rest', hr⟩ := runs_head key y tl
        have hy : key y ≠ k := htl y rfl
        rw [hr]
        simp only [hx]
        rw [if_neg (fun h => hy h.symm)]
    · have := ih hgn (fun y hy => hk y (by simp [hy]))
      simp only [cons_append, runs, this, hx, if_true]

/-- What the per-cluster stream delivers when pulled to exhaustion: the longest prefix of key `c`. -/
theorem pullRun_spec (key : α → Int) (c : Int) :
    ∀ (rest : List α) (it : α) (lp : Option α),
      ∃ g tl, it :: rest = g ++ tl ∧ (∀ x ∈ g, key x = c) ∧ (∀ y, tl.head? = some y → key y ≠ c) ∧
        pullRun key c (some it) rest lp = (g, tl.head?, tl.tail, g.getLast?.or lp) := by
  intro rest
  induction rest with
  | nil =>
    intro it lp
    by_cases h : key it = c
    · exact ⟨[it], [], rfl, by simp [h], by simp, by simp [pullRun, h]⟩
    · exact ⟨[], [it], rfl, by simp, by simp [h], by simp [pullRun, h]⟩
  | cons y ys ih =>
    intro it lp
    by_cases h : key it = c
    · obtain ⟨g, tl, hsplit, hg, htl, hrun⟩ := ih y (some it)
      refine ⟨it :: g, tl, by rw [hsplit]; rfl, ?_, htl, ?_⟩
      · intro x hx
        rcases mem_cons.mp hx with rfl | hx
        · exact h
        · exact hg x hx
      · simp only [pullRun, h, bne_self_eq_false, Bool.false_eq_true, if_false, hrun]
        cases g <;> simp [getLast?_cons]
    · exact ⟨[], it :: y :: ys, rfl, by simp, by simp [h], by simp [pullRun, h]⟩

theorem collectAll_none (key : α → Int) (fuel : Nat) (r : List α) (lp : Option α) (c : Int) :
    collectAll key fuel ⟨none, r, lp, c⟩ = [] := by
  cases fuel <;> simp [collectAll, emitAll]

/-- The machine, started on a pulled first item, delivers the runs with their predecessors. -/
theorem collectAll_spec (key : α → Int) :
    ∀ (fuel : Nat) (x : α) (rest : List α) (lp : Option α), (x :: rest).length ≤ fuel →
      collectAll key fuel ⟨some x, rest, lp, key x⟩ = attachPrev lp (runs key (x :: rest)) := by
  intro fuel
  induction fuel with
  | zero => intro x rest lp h; simp at h
  | succ fuel ih =>
    intro x rest lp hlen
    obtain ⟨g, tl, hsplit, hg, htl, hrun⟩ := pullRun_spec key (key x) rest x lp
    have hgne : g ≠ [] := by
      intro hnil
      subst hnil
      simp only [nil_append] at hsplit
      exact htl x (by rw [← hsplit]; rfl) rfl
    have hlast : g.getLast?.or lp = g.getLast? := by
      cases g with
      | nil => exact absurd rfl hgne
      | cons a g => simp [getLast?_cons]
    rw [hsplit, runs_block key (key x) g tl hgne hg htl]
    simp only [collectAll, emitAll, hrun, attachPrev, hlast]
    cases tl with
    | nil => simp [collectAll_none, runs, attachPrev]
    | cons y tl =>
      simp only [head?_cons, tail_cons]
      congr 1
      apply ih
      have : (x :: rest).length = g.length + (y :: tl).length := by rw [hsplit, length_append]
      have hpos : 0 < g.length := length_pos_iff.mpr hgne
      omega

/-- **Cluster machine = maximal runs.**  The whole-cluster factory is called once per maximal run of equal
key, in order, with the run's items and the last item of the previous run. -/
theorem clustersAll_eq_runs (key : α → Int) (xs : List α) :
    clustersAll key xs = attachPrev none (runs key xs) := by
  cases xs with
  | nil => simp [clustersAll, cOpen, collectAll, emitAll, runs, attachPrev]
  | cons x rest =>
    simp only [clustersAll, cOpen]
    exact collectAll_spec key _ x rest none (by simp)

theorem attachPrev_map_items (lp : Option α) (rs : List (Int × List α)) :
    (attachPrev lp rs).map (fun c => (c.1, c.2.2)) = rs := by
  induction rs generalizing lp with
  | nil => rfl
  | cons r rs ih => obtain ⟨k, g⟩ := r; simp [attachPrev, ih]

theorem mem_runs_of_mem (key : α → Int) (xs : List α) (y : α) (hy : y ∈ xs) :
    ∃ kg ∈ runs key xs, y ∈ kg.2 := by
  rw [← runs_flatten key xs] at hy
  simpa [mem_flatMap] using hy

theorem mem_of_mem_runs (key : α → Int) (xs : List α) (kg : Int × List α) (hkg : kg ∈ runs key xs)
    (y : α) (hy : y ∈ kg.2) : y ∈ xs := by
  rw [← runs_flatten key xs]
  exact mem_flatMap.mpr ⟨kg, hkg, hy⟩

/-- For keys that never decrease along the list (a time-sorted series under a monotone period start):
the run keys strictly increase and every run is exactly the elements of the list with its key —
each element lies in exactly one run. -/
theorem runs_sorted (key : α → Int) (xs : List α) (hs : xs.Pairwise (fun a b => key a ≤ key b)) :
    ((runs key xs).map (·.1)).Pairwise (· < ·) ∧
      ∀ kg ∈ runs key xs, kg.2 = xs.filter (fun y => key y == kg.1) := by
  induction xs with
  | nil => simp [runs]
  | cons x xs ih =>
    obtain ⟨hx, hxs⟩ := pairwise_cons.mp hs
    obtain ⟨ihk, ihf⟩ := ih hxs
    have hkeys := runs_keys key xs
    -- every key of a run of `xs` is at least `key x`
    have hge : ∀ kg ∈ runs key xs, key x ≤ kg.1 := by
      intro kg hkg
      obtain ⟨hne, hall⟩ := hkeys kg hkg
      obtain ⟨y, hy⟩ := exists_mem_of_ne_nil _ hne
      have := hx y (mem_of_mem_runs key xs kg hkg y hy)
      rw [hall y hy] at this
      exact this
    simp only [runs]
    split
    · rename_i k g rest hr
      rw [hr] at ihk ihf hge hkeys
      simp only [map_cons, pairwise_cons] at ihk
      split
      · rename_i hk
        refine ⟨by simpa using ihk, ?_⟩
        intro kg hkg
        rcases mem_cons.mp hkg with rfl | hkg
        · simp only [filter_cons, hk, beq_self_eq_true, if_true]
          rw [← ihf (k, g) (by simp)]
        · have hlt : k < kg.1 := ihk.1 kg.1 (mem_map.mpr ⟨kg, hkg, rfl⟩)
          have hne : (key x == kg.1) = false := by
            simp only [beq_eq_false_iff_ne, ne_eq]; omega
          simp only [filter_cons, hne, Bool.false_eq_true, if_false]
          exact ihf kg (by simp [hkg])
      · rename_i hk
        have hlt : ∀ kg ∈ (k, g) :: rest, key x < kg.1 := by
          intro kg hkg
          have h1 := hge kg hkg
          rcases mem_cons.mp hkg with rfl | hkg'
          · simp only at h1 ⊢; omega
          · have := ihk.1 kg.1 (mem_map.mpr ⟨kg, hkg', rfl⟩)
            have h2 := hge (k, g) (by simp)
            simp only at h2; omega
        refine ⟨?_, ?_⟩
        · simp only [map_cons, pairwise_cons]
          refine ⟨?_, ihk⟩
          intro b hb
          rcases mem_cons.mp hb with rfl | hb
          · exact hlt (b, g) (by simp)
          · obtain ⟨kg, hkg, rfl⟩ := mem_map.mp hb
            exact hlt kg (by simp [hkg])
        · intro kg hkg
          rcases mem_cons.mp hkg with rfl | hkg
          · simp only [filter_cons, beq_self_eq_true, if_true]
            congr 1
            symm
            rw [filter_eq_nil_iff]
            intro y hy
            obtain ⟨kg', hkg', hy'⟩ := mem_runs_of_mem key xs y hy
            rw [hr] at hkg'
            have := hlt kg' hkg'
            rw [← (hkeys kg' hkg').2 y hy'] at this
            simp only [beq_iff_eq]; omega
          · have hne : (key x == kg.1) = false := by
              have := hlt kg hkg
              simp only [beq_eq_false_iff_ne, ne_eq]; omega
            simp only [filter_cons, hne, Bool.false_eq_true, if_false]
            exact ihf kg hkg
    · rename_i hr
      refine ⟨by simp, ?_⟩
      intro kg hkg
      simp only [mem_singleton] at hkg
      subst hkg
      cases xs with
      | nil => simp
      | cons y ys => exact absurd hr (runs_ne_nil key y ys)

/-- The fixed-duration period used by the driver (and `NewFixedAlignmentPeriod`, rounding down) tiles the
timeline, for every positive duration. -/
theorem tiles_fixed (d : Int) (hd : 0 < d) (loc : Nat) : Tiles (fixedPeriod d loc) := by
  have hnn : ∀ t : Int, 0 ≤ t % d := fun t => Int.emod_nonneg t (by omega)
  have hlt : ∀ t : Int, t % d < d := fun t => Int.emod_lt_of_pos t hd
  refine ⟨?_, ?_, ?_⟩
  · intro t; have := hnn t; simp only [fixedPeriod]; omega
  · intro t; have := hlt t; simp only [fixedPeriod]; omega
  · intro t u h1 h2
    simp only [fixedPeriod] at *
    have e1 := Int.emod_def t d
    have e2 := Int.emod_def u d
    have q : u / d = t / d := by
      have a1 : t / d ≤ u / d := by
        rw [Int.le_ediv_iff_mul_le hd]
        have := hnn t; rw [Int.mul_comm]; omega
      have a2 : u / d < t / d + 1 := by
        rw [Int.ediv_lt_iff_lt_mul hd]
        have := hlt t
        have : (t / d + 1) * d = d * (t / d) + d := by rw [Int.add_mul, Int.mul_comm]; simp
        omega
      omega
    rw [e1, e2, q]; omega

end ShpanVerif.Proofs.Cl1415
