/-
C04 proofs, part 4: MergeSortedStreams inside a pipeline.  The state of the operator is abstracted to the
stand-alone merge model of C08 (`Model/Merge.lean`: one `Input = (look-ahead slot, rest)` per sub stream);
`mergeRefill` is `Merge.refill`, the scan is `Merge.scanMin`, and one emit removes the stable-sort minimum
(`merge_step`, extracted from the proof of `C08.collect_eq_mergeSort`).
-/
import ShpanVerif.Proofs.PipeC04Ops

namespace ShpanVerif.Proofs.PipeC04
open ShpanVerif.Model.Pipe ShpanVerif
open ShpanVerif.Model.Merge (Input refill1 refill)
open ShpanVerif.Props.C08 (views view SortedInputs leOf StrictWeak Filled AllGt AllGe scan_spec
  filled_refill sorted_refill views_refill le_trans' le_total' lt_of_lt_of_le)
open List

theorem ltK_sw : StrictWeak ltK := by
  constructor
  · intro a b h; simp only [ltK, decide_eq_true_eq, decide_eq_false_iff_not] at *; omega
  · intro a b c h1 h2; simp only [ltK, decide_eq_false_iff_not] at *; omega

theorem leOf_ltK : leOf ltK = fun (a b : V) => decide (a.key ≤ b.key) := by
  funext a b
  simp only [leOf, ltK]
  by_cases h : a.key ≤ b.key
  · simp [h]
  · simp [h]; omega

/-- the pipeline model's scan is the scan of the stand-alone merge model -/
theorem scanMin_eq : ∀ (st : List (Input V)) (i : Nat) (acc : Option (Nat × V)),
    Model.Pipe.scanMin i (st.map Prod.fst) acc = Model.Merge.scanMin ltK i st acc
  | [], _, _ => rfl
  | (none, _) :: st, i, acc => by
    simp only [map_cons, Model.Pipe.scanMin, Model.Merge.scanMin]; exact scanMin_eq st (i+1) acc
  | (some v, _) :: st, i, none => by
    simp only [map_cons, Model.Pipe.scanMin, Model.Merge.scanMin]; exact scanMin_eq st (i+1) _
  | (some v, _) :: st, i, some (j, m) => by
    simp only [map_cons, Model.Pipe.scanMin, Model.Merge.scanMin]
    rw [scanMin_eq st (i+1) _]
    simp [ltK]

/-- One emit of the merge: with refilled, sorted inputs either nothing is buffered and everything is
    exhausted, or the first minimal slot holds the head of the stable sort of everything that is left. -/
theorem merge_step {α : Type} {lt : α → α → Bool} (sw : StrictWeak lt) (st : List (Input α))
    (hF : Filled st) (hS : SortedInputs lt st) :
    (Model.Merge.scanMin lt 0 st none = none ∧ views st = []) ∨
    ∃ pre m r post, st = pre ++ (some m, r) :: post ∧
      Model.Merge.scanMin lt 0 st none = some (pre.length, m) ∧
      mergeSort (views st) (leOf lt) = m :: mergeSort (views (pre ++ (none, r) :: post)) (leOf lt) ∧
      SortedInputs lt (pre ++ (none, r) :: post) := by
  rcases (scan_spec sw st 0).1 with ⟨hnone, hall⟩ | ⟨pre, m, r, post, hst, hres, hgt, hge⟩
  · refine Or.inl ⟨hnone, ?_⟩
    simp only [views, flatMap_eq_nil_iff]
    intro x hx
    have h1 := hall x hx
    have h2 := hF x hx h1
    simp [view, h1, h2]
  · refine Or.inr ⟨pre, m, r, post, hst, by simpa using hres, ?_, ?_⟩
    · have hview : views st = views pre ++ m :: (r ++ views post) := by
        rw [hst]; simp [views, view]
      have hview' : views (pre ++ (none, r) :: post) = views pre ++ (r ++ views post) := by
        simp [views, view]
      have hpre : ∀ p ∈ views pre, leOf lt p m = false := by
        intro p hp
        simp only [views, mem_flatMap] at hp
        obtain ⟨x, hx, hpx⟩ := hp
        have hxin : x ∈ st := by rw [hst]; simp [hx]
        cases hx1 : x.1 with
        | none =>
          have := hF x hxin hx1
          simp [view, hx1, this] at hpx
        | some v =>
          have hmv := hgt x hx v hx1
          have hsx := hS x hxin
          simp only [view, hx1, Option.toList_some, singleton_append] at hpx hsx
          rcases mem_cons.mp hpx with rfl | hp'
          · simp [leOf, hmv]
          · have : leOf lt v p = true := rel_of_pairwise_cons hsx hp'
            simp only [leOf, Bool.not_eq_eq_eq_not, Bool.not_true] at this
            simp [leOf, lt_of_lt_of_le sw hmv this]
      have hpost : ∀ q ∈ r ++ views post, leOf lt m q = true := by
        intro q hq
        rcases mem_append.mp hq with hq | hq
        · have hxin : (some m, r) ∈ st := by rw [hst]; simp
          have hsx := hS _ hxin
          simp only [view, Option.toList_some, singleton_append] at hsx
          exact rel_of_pairwise_cons hsx hq
        · simp only [views, mem_flatMap] at hq
          obtain ⟨x, hx, hqx⟩ := hq
          have hxin : x ∈ st := by rw [hst]; simp [hx]
          cases hx1 : x.1 with
          | none =>
            have := hF x hxin hx1
            simp [view, hx1, this] at hqx
          | some v =>
            have hvm := hge x hx v hx1
            have hsx := hS x hxin
            simp only [view, hx1, Option.toList_some, singleton_append] at hqx hsx
            rcases mem_cons.mp hqx with rfl | hq'
            · simp [leOf, hvm]
            · have : leOf lt v q = true := rel_of_pairwise_cons hsx hq'
              exact le_trans' sw m v q (by simp [leOf, hvm]) this
      rw [hview, hview']
      exact Proofs.mergeSort_extract_min (le_trans' sw) (le_total' sw) m (views pre) (r ++ views post) hpre hpost
    · intro x hx
      rcases mem_append.mp hx with hx | hx
      · exact hS x (by rw [hst]; simp [hx])
      · rcases mem_cons.mp hx with rfl | hx
        · have := hS (some m, r) (by rw [hst]; simp)
          simp only [view, Option.toList_some, singleton_append] at this
          simpa [view] using this.tail
        · exact hS x (by rw [hst]; simp [hx])

/-! ### the refill loop -/

/-- result of merge's refill loop from input `i` on -/
def RefillOK (r : Res (List (Option V)) × PipeList × World) (st : List (Input V)) (i : Nat) : Prop :=
  match r with
  | (.oof, _, _) => True
  | (.val s1, ps', w') => w'.Clean ∧ ∃ st', s1 = st'.map Prod.fst ∧ All2 Den ps'.toList (st'.map Prod.snd) ∧
      st' = st.take i ++ (st.drop i).map refill1
  | (.eof, _, _) => False
  | (.fail _, _, _) => False
  | (.panic _, _, _) => False

theorem set_eq_self {α : Type} {l : List α} {i : Nat} {a : α} (h : l[i]? = some a) : l.set i a = l := by
  apply ext_getElem?
  intro j
  rw [getElem?_set]
  split
  · rename_i hij; subst hij
    obtain ⟨hlt, _⟩ := List.getElem?_eq_some_iff.mp h
    rw [if_pos hlt, h]
  · rfl

theorem take_append_map_drop_succ {α : Type} (f : α → α) (l : List α) (i : Nat) (a : α) (h : l[i]? = some a) :
    (l.set i (f a)).take (i+1) ++ ((l.set i (f a)).drop (i+1)).map f = l.take i ++ (l.drop i).map f := by
  have hlt : i < l.length := (List.getElem?_eq_some_iff.mp h).1
  rw [take_succ_set l i (f a) hlt, drop_set_of_lt (by omega), drop_eq_getElem_cons hlt]
  have : l[i] = a := (List.getElem?_eq_some_iff.mp h).2
  simp [this]

theorem mergeRefill_ok {F : Nat} (hB : Below F) : ∀ fuel, fuel ≤ F →
    ∀ (ps : PipeList) (st : List (Input V)) (i : Nat) (w : World),
      All2 Den ps.toList (st.map Prod.snd) → w.Clean →
      RefillOK (mergeRefill fuel ps i (st.map Prod.fst) w) st i
  | 0, _, _, _, _, _, _, _ => by rw [mergeRefill]; trivial
  | fuel+1, hf, ps, st, i, w, hd, hw => by
    rw [mergeRefill]
    have hlen : ps.toList.length = st.length := by have := hd.1; simpa using this
    cases hg : ps.get? i with
    | none =>
      simp only [RefillOK]
      rw [get?_toList] at hg
      have hle : st.length ≤ i := by rw [← hlen]; exact getElem?_eq_none_iff.mp hg
      refine ⟨hw, st, rfl, hd, ?_⟩
      rw [drop_eq_nil_iff.mpr hle, take_of_length_le hle]; simp
    | some p =>
      simp only
      have hg' : ps.toList[i]? = some p := by rw [← get?_toList]; exact hg
      have hilt : i < st.length := by rw [← hlen]; exact (List.getElem?_eq_some_iff.mp hg').1
      obtain ⟨li, hli, hdp⟩ := hd.get hg'
      have hsti : st[i]? = some (st[i]) := getElem?_eq_getElem hilt
      have hli' : (st[i]).2 = li := by
        rw [getElem?_map, hsti] at hli; simpa using hli
      cases hslot : (st[i]).1 with
      | some v =>
        have hs : (st.map Prod.fst)[i]? = some (some v) := by rw [getElem?_map, hsti]; simp [hslot]
        rw [hs]
        simp only
        have ih := mergeRefill_ok hB fuel (by omega) ps st (i+1) w hd hw
        rcases hr : mergeRefill fuel ps (i+1) (st.map Prod.fst) w with ⟨res, ps', w'⟩
        rw [hr] at ih
        cases res <;> simp only [RefillOK] at ih ⊢
        obtain ⟨hc, st', h1, h2, h3⟩ := ih
        refine ⟨hc, st', h1, h2, ?_⟩
        have : refill1 st[i] = st[i] := by
          rcases hx : st[i] with ⟨a, b⟩
          rw [hx] at hslot; simp only at hslot; subst hslot; rfl
        rw [h3, take_succ_eq_append_getElem hilt, drop_eq_getElem_cons hilt]
        simp only [List.map_cons, this, List.append_assoc, List.singleton_append]
      | none =>
        have hs : (st.map Prod.fst)[i]? = some none := by rw [getElem?_map, hsti]; simp [hslot]
        rw [hs]
        simp only
        rw [if_neg (not_cancelled hw)]
        have h := (hB fuel (by omega)).1 p li w hdp hw
        rcases he : emitP fuel p w with ⟨res, p', w'⟩
        rw [he] at h
        have hsti' : st[i] = (none, li) := by
          rcases hx : st[i] with ⟨a, b⟩
          rw [hx] at hslot hli'; simp only at hslot hli'; rw [hslot, hli']
        cases res <;> simp only [StepOK, RefillOK] at h ⊢
        · rename_i x
          obtain ⟨xs, rfl, h2, h3⟩ := h
          have e1 : (st.map Prod.fst).set i (some x) = (st.set i (some x, xs)).map Prod.fst := by
            rw [List.map_set]
          have hd' : All2 Den (ps.set i p').toList ((st.set i (some x, xs)).map Prod.snd) := by
            rw [toList_set, List.map_set]; exact hd.set i h3
          have ih := mergeRefill_ok hB fuel (by omega) (ps.set i p') (st.set i (some x, xs)) (i+1) w' hd' h2
          rw [e1]
          rcases hr : mergeRefill fuel (ps.set i p') (i+1) ((st.set i (some x, xs)).map Prod.fst) w' with ⟨res2, ps2, w2⟩
          rw [hr] at ih
          cases res2 <;> simp only [RefillOK] at ih ⊢
          obtain ⟨hc, st', h1', h2', h3'⟩ := ih
          refine ⟨hc, st', h1', h2', ?_⟩
          rw [h3']
          have : (some x, xs) = refill1 (none, x :: xs) := rfl
          rw [this]
          exact take_append_map_drop_succ refill1 st i (none, x :: xs) (by rw [hsti, hsti'])
        · obtain ⟨rfl, h2, h3⟩ := h
          have hd' : All2 Den (ps.set i p').toList (st.map Prod.snd) := by
            have := hd.set i h3
            rw [set_eq_self hli] at this
            rw [toList_set]; exact this
          have ih := mergeRefill_ok hB fuel (by omega) (ps.set i p') st (i+1) w' hd' h2
          rcases hr : mergeRefill fuel (ps.set i p') (i+1) (st.map Prod.fst) w' with ⟨res2, ps2, w2⟩
          rw [hr] at ih
          cases res2 <;> simp only [RefillOK] at ih ⊢
          obtain ⟨hc, st', h1', h2', h3'⟩ := ih
          refine ⟨hc, st', h1', h2', ?_⟩
          rw [h3', take_succ_eq_append_getElem hilt, drop_eq_getElem_cons hilt, hsti']
          simp only [List.map_cons, refill1, List.append_assoc, List.singleton_append]

/-! ### one emit -/

theorem emitP_merge_eq (fuel : Nat) (ps : PipeList) (opened : Nat) (slots : Option (List (Option V))) (w : World) :
    emitP (fuel+1) (.merge ps opened slots) w =
      if ps.length = 0 then (.eof, .merge ps opened slots, w)
      else
        match mergeRefill fuel ps 0 (slots.getD (List.replicate ps.length none)) w with
        | (.val slots1, ps', w') =>
          match Model.Pipe.scanMin 0 slots1 none with
          | none => (.eof, .merge ps' opened (some slots1), w')
          | some (j, m) => (.val m, .merge ps' opened (some (slots1.set j none)), w')
        | (.eof, ps', w') => (.oof, .merge ps' opened (some (slots.getD (List.replicate ps.length none))), w')
        | (.fail e, ps', w') => (.fail e, .merge ps' opened (some (slots.getD (List.replicate ps.length none))), w')
        | (.panic b, ps', w') => (.panic b, .merge ps' opened (some (slots.getD (List.replicate ps.length none))), w')
        | (.oof, ps', w') => (.oof, .merge ps' opened (some (slots.getD (List.replicate ps.length none))), w') := by
  cases slots <;> rw [emitP] <;> rfl

theorem map_fst_clear (pre : List (Input V)) (m : V) (r : List V) (post : List (Input V)) :
    ((pre ++ (some m, r) :: post).map Prod.fst).set pre.length none =
      (pre ++ (none, r) :: post).map Prod.fst := by
  simp

theorem emit_merge {fuel : Nat} (hB : Below (fuel+1)) (ps : PipeList) (opened : Nat)
    (slots : Option (List (Option V))) (l : List V) (w : World)
    (hd : Den (.merge ps opened slots) l) (hw : w.Clean) :
    StepOK (emitP (fuel+1) (.merge ps opened slots) w) l := by
  rw [Den] at hd
  rcases hd with ⟨hz, rfl⟩ | ⟨st, hdl, hs, hsorted, rfl⟩
  · rw [emitP_merge_eq, if_pos hz]
    exact ⟨rfl, hw, by rw [Den]; exact Or.inl ⟨hz, rfl⟩⟩
  have hall := (denList_iff ps _).mp hdl
  have hlen : ps.length = st.length := by have := hall.1; rw [length_toList] at this; simpa using this
  rw [emitP_merge_eq]
  by_cases hz : ps.length = 0
  · rw [if_pos hz]
    have : st = [] := List.eq_nil_of_length_eq_zero (by omega)
    subst this
    simp only [StepOK]
    refine ⟨by simp [views], hw, ?_⟩
    rw [Den]; exact Or.inl ⟨hz, rfl⟩
  · rw [if_neg hz, hs]
    have hr := mergeRefill_ok (hB.mono (Nat.le_succ _)) fuel (Nat.le_refl _) ps st 0 w hall hw
    rcases hre : mergeRefill fuel ps 0 (st.map Prod.fst) w with ⟨res, ps', w'⟩
    rw [hre] at hr
    cases res <;> simp only [RefillOK, StepOK] at hr ⊢
    obtain ⟨hc, st', rfl, hall', hst'⟩ := hr
    have hst'' : st' = refill st := by simpa [refill] using hst'
    have hF : Filled st' := hst'' ▸ filled_refill st
    have hS : SortedInputs ltK st' := hst'' ▸ sorted_refill hsorted
    have hV : views st' = views st := hst'' ▸ views_refill st
    have hlen' : ps'.length = st'.length := by
      have := hall'.1; rw [length_toList] at this; simpa using this
    rw [scanMin_eq]
    rcases merge_step ltK_sw st' hF hS with ⟨hnone, hv⟩ | ⟨pre, m, r, post, hsplit, hscan, hsort, hS'⟩
    · rw [hnone]
      simp only
      refine ⟨by rw [← hV, hv]; simp, hc, ?_⟩
      rw [Den]
      exact Or.inr ⟨st', (denList_iff _ _).mpr hall', rfl, hS, by rw [hv]; simp⟩
    · rw [hscan]
      simp only
      refine ⟨_, by rw [← hV]; exact hsort, hc, ?_⟩
      rw [Den]
      refine Or.inr ⟨pre ++ (none, r) :: post, (denList_iff _ _).mpr ?_, ?_, hS', rfl⟩
      · have : (pre ++ (none, r) :: post).map Prod.snd = st'.map Prod.snd := by rw [hsplit]; simp
        rw [this]; exact hall'
      · rw [hsplit]; exact map_fst_clear pre m r post

end ShpanVerif.Proofs.PipeC04
