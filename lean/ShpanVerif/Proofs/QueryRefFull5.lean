/-
C11 helper (full reference equality, part 5): every reduction-free query tree of both packages against the reference
semantics, with the lazy-failure reading of `ResRefLazy` (Props/C11.lean): rejected alike; accepted → same metadata,
and whenever the reference produces rows the terminal returns exactly those.
-/
import ShpanVerif.Proofs.QueryRefFull4

namespace ShpanVerif.Proofs.Query
open ShpanVerif.Model.Query ShpanVerif.Model.Query.Ref ShpanVerif.Model.JoinSpec ShpanVerif.Props.C10
  ShpanVerif.Props.C11 List

variable {D : Type} (O : Ops D)

/-- datasource-package result against the reference (a one-field table), lazy reading -/
def ResRefLazyD (r : Except PlanErr (DResult D)) (ref : RRes D) : Prop :=
  match r with
  | .ok (fm, s) => ∃ rows, ref = some ([fm], rows) ∧ ∀ l, rows = some l → collect (wrapStream s) = some l
  | .error _ => ref = none

/-- list of executed sources against the list of reference results -/
def LazyL : List (RResult D) → List (List FieldMeta × Option (List (Row D))) → Prop
  | [], [] => True
  | r :: rs, t :: ts => t.1 = r.1 ∧ (∀ l, t.2 = some l → collect r.2 = some l) ∧ LazyL rs ts
  | _, _ => False

theorem ResRef.lazy {r : Except PlanErr (RResult D)} {ref : RRes D} (h : ResRef r ref) : ResRefLazy r ref := by
  cases r with
  | error e => exact h
  | ok p =>
    obtain ⟨fms, s⟩ := p
    exact ⟨collect s, h, fun l hl => hl⟩

/-- a filter chain over a result whose reference rows are only known lazily -/
theorem applyRFs_lazy (fix : Bool) (fs : List (RFilter D)) {fms : List FieldMeta} {s : RStream D}
    (hs : RSound (fms, s)) {rows : Option (List (Row D))} (hl : ∀ l, rows = some l → collect s = some l) :
    ResRefLazy (applyRFs O fix fs (fms, s)) (filtersR O fix fs (fms, rows)) := by
  have h := applyRFs_refN O fix fs hs
  cases rows with
  | some l => rw [← hl l rfl]; exact h.lazy
  | none =>
    rw [filtersR_rows_none O fix fs fms (collect s)]
    cases hr : applyRFs O fix fs (fms, s) with
    | error e => rw [hr] at h; simp only [ResRef] at h; simp [ResRefLazy, h]
    | ok p =>
      obtain ⟨fms', s'⟩ := p
      rw [hr] at h
      simp only [ResRef] at h
      exact ⟨none, by simp [h], fun l hl => by simp at hl⟩

theorem LazyL.metas : ∀ {rs : List (RResult D)} {ts : List (List FieldMeta × Option (List (Row D)))}, LazyL rs ts →
    ts.map (·.1) = rs.map (·.1)
  | [], [], _ => rfl
  | _ :: _, _ :: _, h => by simp [h.1, LazyL.metas h.2.2]
  | [], _ :: _, h => by simp [LazyL] at h
  | _ :: _, [], h => by simp [LazyL] at h

/-- when every reference source has rows, the executed sources are exactly those rows, without failing pulls -/
theorem LazyL.tables : ∀ {rs : List (RResult D)} {ts : List (List FieldMeta × Option (List (Row D)))}, LazyL rs ts →
    ∀ {tables : List (List FieldMeta × List (Row D))},
      (ts.mapM fun (r : List FieldMeta × Option (List (Row D))) => r.2.map fun rows => (r.1, rows)) = some tables →
      rs = tables.map fun t => (t.1, t.2.map some)
  | [], [], _, tables, h => by simp at h; subst h; rfl
  | r :: rs, t :: ts, hl, tables, h => by
    rw [mapM_cons_opt] at h
    simp only [Option.bind_eq_some_iff, Option.map_eq_some_iff] at h
    obtain ⟨t0, ⟨rows, hrows, rfl⟩, tabs, htabs, rfl⟩ := h
    have h1 := collect_some_eq (hl.2.1 rows hrows)
    have h2 := LazyL.tables hl.2.2 htabs
    obtain ⟨fms, s⟩ := r
    simp only at h1
    simp only [map_cons, h2, hl.1, h1]
  | [], _ :: _, h, _, _ => by simp [LazyL] at h
  | _ :: _, [], h, _, _ => by simp [LazyL] at h

theorem strictInc_of_incr {l : List (Row D)} (h : (l.map (·.ts)).Pairwise (· < ·)) : StrictInc rts l :=
  pairwise_map.mp h

mutual
  theorem execR_lazy (fix : Bool) (from_ to : Int) : ∀ (q : RDs D), WfR q → NoRedR q →
      ResRefLazy (execR O fix from_ to q) (semR O fix from_ to q)
    | .static metas rows, hw, _ => (execR_ref O fix from_ to (.static metas rows) hw trivial).lazy
    | .filtered ds fs, hw, hn => by
      have ih := execR_lazy fix from_ to ds hw hn
      simp only [execR, semR, bind, Except.bind]
      cases hr : execR O fix from_ to ds with
      | error e => rw [hr] at ih; simp only [ResRefLazy] at ih; simp [ResRefLazy, ih]
      | ok r1 =>
        obtain ⟨fms, s⟩ := r1
        rw [hr] at ih
        obtain ⟨rows, href, hl⟩ := ih
        simp only [href, Option.bind_some]
        exact applyRFs_lazy O fix fs (soundR O fix from_ to ds _ hw hr) hl
    | .xfiltered _ _, _, hn => by simp [NoRedR] at hn
    | .join jt srcs, hw, hn => by
      have ih := execRL_lazy fix from_ to srcs hw hn
      simp only [execR, semR]
      cases hr : execRL O fix from_ to srcs with
      | error e => rw [hr] at ih; simp only at ih; simp [ResRefLazy, ih]
      | ok results =>
        rw [hr] at ih
        obtain ⟨refs, href, hl⟩ := ih
        have hsound := soundRL O fix from_ to srcs results hw hr
        have hmetas := hl.metas
        have hjm := joinMetas_ref jt (results.map (·.1)) (by
          intro l hl' m hm
          obtain ⟨r, hr', rfl⟩ := mem_map.mp hl'
          exact (hsound r hr').valid m hm)
        simp only [length_map] at hjm
        simp only [href, Option.bind_some, hmetas]
        cases hj : joinMetas jt results.length 0 (results.map (·.1)) [] with
        | error e => rw [hj] at hjm; simp only at hjm; simp [ResRefLazy, hjm]
        | ok metas =>
          rw [hj] at hjm
          simp only at hjm
          simp only [hjm, Option.map_some]
          refine ⟨_, rfl, fun l hl' => ?_⟩
          simp only [Option.map_eq_some_iff] at hl'
          obtain ⟨tables, htab, rfl⟩ := hl'
          have hres := hl.tables htab
          subst hres
          apply joinStreams_pure jt tables
          intro t ht
          have hs := hsound (t.1, t.2.map some) (mem_map.mpr ⟨t, ht, rfl⟩)
          have := hs.incr
          simp only [okRows_map_some] at this
          exact strictInc_of_incr this
    | .fromDs d, hw, hn => by
      have ih := execD_lazy fix from_ to d hw hn
      simp only [execR, semR]
      cases hr : execD O fix from_ to d with
      | error e => rw [hr] at ih; simp only [ResRefLazyD] at ih; simp [ResRefLazy, ih]
      | ok r1 =>
        obtain ⟨fm, s⟩ := r1
        rw [hr] at ih
        exact ih
  theorem execRL_lazy (fix : Bool) (from_ to : Int) : ∀ (l : RDsL D), WfRL l → NoRedRL l →
      match execRL O fix from_ to l with
      | .ok results => ∃ refs, semRL O fix from_ to l = some refs ∧ LazyL results refs
      | .error _ => semRL O fix from_ to l = none
    | .nil, _, _ => by simp [execRL, semRL, LazyL]
    | .cons d l, hw, hn => by
      have ih1 := execR_lazy fix from_ to d hw.1 hn.1
      have ih2 := execRL_lazy fix from_ to l hw.2 hn.2
      simp only [execRL, semRL]
      cases hr : execR O fix from_ to d with
      | error e => rw [hr] at ih1; simp only [ResRefLazy] at ih1; simp [ih1]
      | ok r =>
        obtain ⟨fms, s⟩ := r
        rw [hr] at ih1
        obtain ⟨rows, href, hl⟩ := ih1
        simp only [href, Option.bind_some]
        cases hrs : execRL O fix from_ to l with
        | error e => rw [hrs] at ih2; simp only at ih2; simp [ih2]
        | ok rs =>
          rw [hrs] at ih2
          obtain ⟨refs, hrefs, hls⟩ := ih2
          simp only [hrefs, Option.map_some]
          exact ⟨_, rfl, rfl, hl, hls⟩
  theorem execD_lazy (fix : Bool) (from_ to : Int) : ∀ (q : DDs D), WfD q → NoRedD q →
      ResRefLazyD (execD O fix from_ to q) (semD O fix from_ to q)
    | .static fm rows, hw, _ => by
      have := execD_ref O fix from_ to (.static fm rows) hw trivial
      simp only [execD] at this ⊢
      simp only [ResRefD] at this
      exact ⟨_, this, fun l hl => hl⟩
    | .filtered d fs, hw, hn => by
      have ih := execD_lazy fix from_ to d hw hn
      simp only [execD, semD, bind, Except.bind]
      cases hr : execD O fix from_ to d with
      | error e => rw [hr] at ih; simp only [ResRefLazyD] at ih; simp [ResRefLazyD, ih]
      | ok r1 =>
        obtain ⟨fm, s⟩ := r1
        rw [hr] at ih
        obtain ⟨rows, href, hl⟩ := ih
        simp only [href, Option.bind_some]
        have hsd := soundD O fix from_ to d _ hw hr
        have hw' : Wrap (fm, s) ([fm], wrapStream s) := ⟨rfl, rfl⟩
        have hlazy := applyRFs_lazy O true (liftFilters fm.urn fs) (wrap_sound hsd) hl
        rcases applyDFs_twinB O true fs (Or.inl rfl) hw' with ⟨e, e1, e2⟩ | ⟨d', r', e1, e2, hwr⟩
        · simp only at e1 e2
          rw [e1]
          rw [e2] at hlazy
          exact hlazy
        · simp only at e1 e2
          rw [e1]
          rw [e2] at hlazy
          obtain ⟨fm', s'⟩ := d'
          obtain ⟨rm, rs⟩ := r'
          obtain ⟨h1, h2⟩ := hwr
          simp only at h1 h2; subst h1; subst h2
          exact hlazy
    | .xfiltered _ _, _, hn => by simp [NoRedD] at hn
    | .reduction _ _ _ _ _, _, hn => by simp [NoRedD] at hn
    | .fromReport r urn, hw, hn => by
      have ih := execR_lazy fix from_ to r hw hn
      simp only [execD, semD]
      cases hr : execR O fix from_ to r with
      | error e => rw [hr] at ih; simp only [ResRefLazy] at ih; simp [ResRefLazyD, ih]
      | ok r1 =>
        obtain ⟨metas, s⟩ := r1
        rw [hr] at ih
        obtain ⟨rows, href, hl⟩ := ih
        simp only [href, Option.bind_some, findField_findIdx]
        cases hf : findField urn metas with
        | none => simp [ResRefLazyD]
        | some p =>
          obtain ⟨m, idx⟩ := p
          obtain ⟨hidx, _⟩ := findField_spec hf
          simp only [Option.map_some, Option.bind_some, hidx]
          refine ⟨_, rfl, fun l hl' => ?_⟩
          simp only [Option.map_eq_some_iff] at hl'
          obtain ⟨l0, rfl, rfl⟩ := hl'
          have hc := hl l0 rfl
          simp only [wrapStream, map_map]
          have : collect (s.map fun e => e.map fun row : Row D =>
              ({ ts := row.ts, vals := [(row.vals[idx]?).getD .nil] } : Row D)) =
              some (l0.map fun row => { ts := row.ts, vals := [(row.vals[idx]?).getD .nil] }) := by
            rw [collect_map_map, hc]
            rfl
          rw [← this]
          congr 1
          apply map_congr_left
          intro e _
          cases e <;> rfl
end

/-! ## join-free trees: exact equality (a reference failure IS a terminal failure) -/

mutual
  /-- no join and no reduction datasource; every filter and value kind allowed -/
  def JoinFreeR : RDs D → Prop
    | .static _ _ => True
    | .filtered ds _ => JoinFreeR ds
    | .xfiltered _ _ => False
    | .join _ _ => False
    | .fromDs d => JoinFreeD d
  def JoinFreeD : DDs D → Prop
    | .static _ _ => True
    | .filtered d _ => JoinFreeD d
    | .xfiltered _ _ => False
    | .reduction _ _ _ _ _ => False
    | .fromReport r _ => JoinFreeR r
end

mutual
  theorem execR_refN (fix : Bool) (from_ to : Int) : ∀ (q : RDs D), WfR q → JoinFreeR q →
      ResRef (execR O fix from_ to q) (semR O fix from_ to q)
    | .static metas rows, hw, _ => execR_ref O fix from_ to (.static metas rows) hw trivial
    | .filtered ds fs, hw, ht => by
      have ih := execR_refN fix from_ to ds hw ht
      simp only [execR, semR, bind, Except.bind]
      cases hr : execR O fix from_ to ds with
      | error e => rw [hr] at ih; simp only [ResRef] at ih; simp [ResRef, ih]
      | ok r1 =>
        obtain ⟨fms, s⟩ := r1
        rw [hr] at ih
        simp only [ResRef] at ih
        simp only [ih, Option.bind_some]
        exact applyRFs_refN O fix fs (soundR O fix from_ to ds _ hw hr)
    | .xfiltered _ _, _, ht => by simp [JoinFreeR] at ht
    | .join _ _, _, ht => by simp [JoinFreeR] at ht
    | .fromDs d, hw, ht => by
      have ih := execD_refN fix from_ to d hw ht
      simp only [execR, semR]
      cases hr : execD O fix from_ to d with
      | error e => rw [hr] at ih; simp only [ResRefD] at ih; simp [ResRef, ih]
      | ok r1 =>
        obtain ⟨fm, s⟩ := r1
        rw [hr] at ih
        simp only [ResRefD] at ih
        simp only [ResRef, ih]
        rfl
  theorem execD_refN (fix : Bool) (from_ to : Int) : ∀ (q : DDs D), WfD q → JoinFreeD q →
      ResRefD (execD O fix from_ to q) (semD O fix from_ to q)
    | .static fm rows, hw, _ => execD_ref O fix from_ to (.static fm rows) hw trivial
    | .filtered d fs, hw, ht => by
      have ih := execD_refN fix from_ to d hw ht
      simp only [execD, semD, bind, Except.bind]
      cases hr : execD O fix from_ to d with
      | error e => rw [hr] at ih; simp only [ResRefD] at ih; simp [ResRefD, ih]
      | ok r1 =>
        obtain ⟨fm, s⟩ := r1
        rw [hr] at ih
        simp only [ResRefD] at ih
        simp only [ih, Option.bind_some]
        have hsd := soundD O fix from_ to d _ hw hr
        have hw' : Wrap (fm, s) ([fm], wrapStream s) := ⟨rfl, rfl⟩
        have href := applyRFs_refN O true (liftFilters fm.urn fs) (wrap_sound hsd)
        rcases applyDFs_twinB O true fs (Or.inl rfl) hw' with ⟨e, e1, e2⟩ | ⟨d', r', e1, e2, hwr⟩
        · simp only at e1 e2
          rw [e1]
          rw [e2] at href
          simp only [ResRef] at href
          simp [ResRefD, href]
        · simp only at e1 e2
          rw [e1]
          rw [e2] at href
          obtain ⟨fm', s'⟩ := d'
          obtain ⟨rm, rs⟩ := r'
          obtain ⟨h1, h2⟩ := hwr
          simp only at h1 h2; subst h1; subst h2
          simp only [ResRef] at href
          simp [ResRefD, href]
    | .xfiltered _ _, _, ht => by simp [JoinFreeD] at ht
    | .reduction _ _ _ _ _, _, ht => by simp [JoinFreeD] at ht
    | .fromReport r urn, hw, ht => by
      have ih := execR_refN fix from_ to r hw ht
      simp only [execD, semD]
      cases hr : execR O fix from_ to r with
      | error e => rw [hr] at ih; simp only [ResRef] at ih; simp [ResRefD, ih]
      | ok r1 =>
        obtain ⟨metas, s⟩ := r1
        rw [hr] at ih
        simp only [ResRef] at ih
        simp only [ih, Option.bind_some, findField_findIdx]
        cases hf : findField urn metas with
        | none => simp [ResRefD]
        | some p =>
          obtain ⟨m, idx⟩ := p
          obtain ⟨hidx, _⟩ := findField_spec hf
          simp only [Option.map_some, Option.bind_some, hidx, ResRefD, wrapStream, map_map]
          congr 2
          rw [← collect_map_map]
          congr 1
          apply map_congr_left
          intro e _
          cases e <;> rfl
end

end ShpanVerif.Proofs.Query
