/-
Buffered: the global decreasing measure and deadlock freedom.
-/
import ShpanVerif.Proofs.BufferedInv

namespace ShpanVerif.Proofs.Buffered
open ShpanVerif.Model.Conc ShpanVerif.Model.Buffered

def fW : FPc → Nat
  | .done => 0 | .closeCh => 1 | .sendFin _ => 5 | .closed _ => 6 | .closeP _ => 7 | .inEmit => 8 | .check => 9
  | .opening => 10 | .cb _ => 17

def cW : CPc → Nat
  | .ret => 0 | .join => 1 | .close2 => 2 | .sel => 3 | .check => 4 | .got => 5

def mu (cfg : Cfg) (s : St) : Nat :=
  20 * (cfg.n - s.cursor) + 20 * s.errBudget + fW s.f + 7 * s.ch.length + (if s.fin.isSome then 3 else 0) +
    cW s.cons + (if s.ctx0 then 0 else 1)

set_option maxHeartbeats 2000000 in
theorem mu_step {cfg : Cfg} {s s' : St} {l : Label} (hb : Basic cfg s) (hs : step cfg s l = some s') :
    mu cfg s' < mu cfg s := by
  have hfin := hb.fin_pc
  step_cases hs <;> simp_all [mu, fW, cW, finishedPc] <;> grind

theorem run_length_le {cfg : Cfg} : ∀ (ls : List Label) (s s' : St), Reachable (sys cfg) s →
    run (step cfg) s ls = some s' → ls.length + mu cfg s' ≤ mu cfg s := by
  intro ls
  induction ls with
  | nil => intro s s' _ h; simp [run] at h; subst h; simp
  | cons l ls ih =>
    intro s s' hr h
    simp only [run] at h
    cases hst : step cfg s l with
    | none => simp [hst] at h
    | some s1 =>
      simp only [hst] at h
      have := ih s1 s' (Reachable.step (sys := sys cfg) hr hst) h
      have := mu_step (basic hr) hst
      simp only [List.length_cons]
      omega

def obliged : Label → Bool
  | .cancel | .fOpenErr | .fEmitErr | .cStop | .cFail | .cRepull | .cOpenFail => false
  | _ => true

/-- The filler can move unless it is done — provided the channel is empty or ctx1 is cancelled. -/
theorem progress_filler {cfg : Cfg} {s : St} (hsz : 2 ≤ cfg.size) (hb : Basic cfg s)
    (hA : s.ctx1 = true ∨ (s.ch = [] ∧ s.fin = none)) :
    s.f = .done ∨ ∃ l, obliged l = true ∧ (step cfg s l).isSome = true := by
  have hcap : 0 < cfg.cap := by simp [Cfg.cap]; omega
  match hf : s.f with
  | .done => exact Or.inl rfl
  | .opening => exact Or.inr ⟨.fOpenOk, rfl, by simp [step, hf]⟩
  | .check => exact Or.inr ⟨.fCheck, rfl, by by_cases h : s.ctx1 = true <;> simp [step, hf, h]⟩
  | .inEmit =>
    have := hb.cursor_le
    by_cases h : s.cursor < cfg.n
    · exact Or.inr ⟨.fEmitVal, rfl, by simp [step, hf, h]⟩
    · exact Or.inr ⟨.fEmitEof, rfl, by simp [step, hf]; omega⟩
  | .closeP ok => exact Or.inr ⟨.fCloseP, rfl, by simp [step, hf]⟩
  | .closed ok => exact Or.inr ⟨.fClosed, rfl, by simp [step, hf]⟩
  | .closeCh => exact Or.inr ⟨.fCloseCh, rfl, by simp [step, hf]⟩
  | .cb i =>
    rcases hA with h | ⟨h1, h2⟩
    · exact Or.inr ⟨.fSkip, rfl, by simp [step, hf, h]⟩
    · exact Or.inr ⟨.fSend, rfl, by simp [step, hf, St.chLen, h1, h2, hcap]⟩
  | .sendFin it =>
    rcases hA with h | ⟨h1, h2⟩
    · exact Or.inr ⟨.fDropFin, rfl, by simp [step, hf, h]⟩
    · exact Or.inr ⟨.fSendFin, rfl, by simp [step, hf, St.chLen, h1, h2, hcap]⟩

theorem progress {cfg : Cfg} {s : St} (hsz : 2 ≤ cfg.size) (hb : Basic cfg s) (hnf : final s = false) :
    ∃ l, obliged l = true ∧ (step cfg s l).isSome = true := by
  match hcs : s.cons with
  | .check => exact ⟨.cCheck, rfl, by by_cases h : s.ctx0 = true <;> simp [step, hcs, h]⟩
  | .got => exact ⟨.cNext, rfl, by simp [step, hcs]⟩
  | .close2 => exact ⟨.cClose2, rfl, by simp [step, hcs]⟩
  | .ret =>
    -- (earlier code, `fixJoin = false`: the terminal has returned and the filler winds down on its own)
    have ht : s.term1 = true := hb.ret_term.mp (Or.inr hcs)
    rcases progress_filler hsz hb (Or.inl (by simp [St.ctx1, ht])) with h | h
    · simp [final, hcs, h] at hnf
    · exact h
  | .join =>
    -- the close sequence waits for the filler: its ctx is cancelled, so the filler moves until it is done
    have ht : s.term1 = true := hb.ret_term.mp (Or.inl hcs)
    rcases progress_filler hsz hb (Or.inl (by simp [St.ctx1, ht])) with h | h
    · exact ⟨.cJoin, rfl, by simp [step, hcs, h]⟩
    · exact h
  | .sel =>
    by_cases hctx : s.ctx0 = true
    · exact ⟨.cSelCtx, rfl, by simp [step, hcs, hctx]⟩
    · match hch : s.ch, hfin : s.fin with
      | i :: r, _ => exact ⟨.cRecv, rfl, by simp [step, hcs, hch]⟩
      | [], some .marker => exact ⟨.cRecv, rfl, by simp [step, hcs, hch, hfin]⟩
      | [], some .err => exact ⟨.cRecv, rfl, by simp [step, hcs, hch, hfin]⟩
      | [], none =>
        by_cases hcl : s.chClosed = true
        · refine ⟨.cClosed, rfl, ?_⟩
          simp only [step, hcs, hch, hfin, hcl, and_self, ↓reduceIte]
          split <;> rfl
        · rcases progress_filler hsz hb (Or.inr ⟨hch, hfin⟩) with h | h
          · exact absurd (hb.chCl.mpr h) hcl
          · exact h

end ShpanVerif.Proofs.Buffered
