/-
C14 helper lemmas: the folds of the reducers (sum, running average, first-element-seeded extremum).
-/
import ShpanVerif.Model.Reduce

namespace ShpanVerif.Proofs.Red
open List ShpanVerif.Model.TsB ShpanVerif.Model.Reduce

variable {ν δ : Type}

theorem foldl_congr_fun {α β : Type} (f g : β → α → β) (h : ∀ b a, f b a = g b a) (l : List α) (b : β) :
    l.foldl f b = l.foldl g b := by
  induction l generalizing b with
  | nil => rfl
  | cons a l ih => simp only [foldl_cons, h, ih]

theorem tsSum_int (D : Dec δ) (g : List Int) : tsSum (Num.int D) g = g.sum := by
  simp [tsSum, Num.int, List.sum_eq_foldl]

theorem tsSum_rat (g : List Rat) : tsSum (Num.dec Dec.rat) g = g.sum := by
  simp [tsSum, Num.dec, Dec.rat, List.sum_eq_foldl]

/-- Invariant of the running average over the rationals. -/
theorem avg_fold_rat (g : List Rat) : ∀ (a : Rat) (n : Nat), (n = 0 → a = 0) →
    g.foldl (avgStep (Num.dec Dec.rat)) (a, n) = ((a * n + g.sum) / ((n + g.length : Nat) : Rat), n + g.length) := by
  induction g with
  | nil =>
    intro a n h
    simp only [List.foldl_nil, List.sum_nil, List.length_nil, Nat.add_zero, Prod.mk.injEq, and_true]
    by_cases hn : n = 0
    · subst hn; simp [h rfl, Rat.div_def]
    · have : (n : Rat) ≠ 0 := by
        intro h0; apply hn; exact_mod_cast h0
      grind
  | cons x g ih =>
    intro a n h
    simp only [List.foldl_cons]
    have hstep : avgStep (Num.dec Dec.rat) (a, n) x = ((a * n + x) / ((n : Rat) + 1), n + 1) := by
      simp only [avgStep, Num.dec, Dec.rat, Rat.intCast_natCast, Rat.natCast_add, Prod.mk.injEq, and_true]
      have : (n : Rat) + 1 ≠ 0 := by
        have : (0 : Rat) ≤ (n : Rat) := by exact_mod_cast Nat.zero_le n
        grind
      simp; grind
    rw [hstep, ih _ _ (by omega)]
    simp only [List.sum_cons, List.length_cons, Prod.mk.injEq]
    refine ⟨?_, by omega⟩
    have h1 : (n : Rat) + 1 ≠ 0 := by
      have : (0 : Rat) ≤ (n : Rat) := by exact_mod_cast Nat.zero_le n
      grind
    have e1 : ((n + 1 : Nat) : Rat) = (n : Rat) + 1 := by simp [Rat.natCast_add]
    have e2 : ((n + 1 + g.length : Nat) : Rat) = ((n + (g.length + 1) : Nat) : Rat) := by congr 1; omega
    rw [e1, e2]
    grind

/-- `lt` is the strict part of a total order (what `cmp.Ordered` types without NaN provide). -/
structure StrictTotal (lt : ν → ν → Bool) : Prop where
  irrefl : ∀ a, lt a a = false
  trans : ∀ a b c, lt a b = true → lt b c = true → lt a c = true
  tri : ∀ a b, lt a b = false → lt b a = false → a = b

theorem StrictTotal.ge_trans {lt : ν → ν → Bool} (h : StrictTotal lt) {m a x : ν}
    (h1 : lt m a = false) (h2 : lt a x = false) : lt m x = false := by
  cases hmx : lt m x
  · rfl
  · cases hxa : lt x a
    · have := h.tri a x h2 hxa; subst this; simp [hmx] at h1
    · have := h.trans m x a hmx hxa; simp [this] at h1

theorem foldl_extremumStep (pick : ν → ν → ν) (x : ν) (r : List ν) :
    (x :: r).foldl (extremumStep pick) none = some (r.foldl pick x) := by
  simp only [foldl_cons, extremumStep]
  induction r generalizing x with
  | nil => rfl
  | cons y r ih => simp only [foldl_cons, extremumStep]; exact ih (pick x y)

theorem foldl_goMax {lt : ν → ν → Bool} (h : StrictTotal lt) (r : List ν) (x : ν) :
    r.foldl (goMax lt) x ∈ x :: r ∧ ∀ y ∈ x :: r, lt (r.foldl (goMax lt) x) y = false := by
  induction r generalizing x with
  | nil => simp [h.irrefl]
  | cons y r ih =>
    simp only [foldl_cons]
    obtain ⟨hm, hb⟩ := ih (goMax lt x y)
    have hpick : goMax lt x y = x ∨ goMax lt x y = y := by unfold goMax; split <;> simp
    have hgx : lt (goMax lt x y) x = false := by
      unfold goMax; split
      · rename_i hxy
        cases hyx : lt y x
        · rfl
        · have := h.trans x y x hxy hyx; simp [h.irrefl] at this
      · exact h.irrefl x
    have hgy : lt (goMax lt x y) y = false := by
      unfold goMax; split
      · exact h.irrefl y
      · rename_i hxy; simpa using hxy
    have hb0 := hb (goMax lt x y) (by simp)
    constructor
    · rcases mem_cons.mp hm with hm | hm
      · rw [hm]; rcases hpick with hp | hp <;> simp [hp]
      · simp [hm]
    · intro z hz
      rcases mem_cons.mp hz with rfl | hz
      · exact h.ge_trans hb0 hgx
      · rcases mem_cons.mp hz with rfl | hz
        · exact h.ge_trans hb0 hgy
        · exact hb z (by simp [hz])

theorem foldl_goMin {lt : ν → ν → Bool} (h : StrictTotal lt) (r : List ν) (x : ν) :
    r.foldl (goMin lt) x ∈ x :: r ∧ ∀ y ∈ x :: r, lt y (r.foldl (goMin lt) x) = false := by
  induction r generalizing x with
  | nil => simp [h.irrefl]
  | cons y r ih =>
    simp only [foldl_cons]
    obtain ⟨hm, hb⟩ := ih (goMin lt x y)
    have hpick : goMin lt x y = x ∨ goMin lt x y = y := by unfold goMin; split <;> simp
    have hgx : lt x (goMin lt x y) = false := by
      unfold goMin; split
      · rename_i hyx
        cases hxy : lt x y
        · rfl
        · have := h.trans x y x hxy hyx; simp [h.irrefl] at this
      · exact h.irrefl x
    have hgy : lt y (goMin lt x y) = false := by
      unfold goMin; split
      · exact h.irrefl y
      · rename_i hyx; simpa using hyx
    have hb0 := hb (goMin lt x y) (by simp)
    constructor
    · rcases mem_cons.mp hm with hm | hm
      · rw [hm]; rcases hpick with hp | hp <;> simp [hp]
      · simp [hm]
    · intro z hz
      rcases mem_cons.mp hz with rfl | hz
      · exact h.ge_trans hgx hb0
      · rcases mem_cons.mp hz with rfl | hz
        · exact h.ge_trans hgy hb0
        · exact hb z (by simp [hz])

theorem strictTotal_int (D : Dec δ) : StrictTotal (Num.int D).lt := by
  constructor <;> simp [Num.int] <;> omega

theorem strictTotal_rat : StrictTotal (Num.dec Dec.rat).lt := by
  constructor <;> simp [Num.dec, Dec.rat] <;> grind

end ShpanVerif.Proofs.Red
