/-
C01, part 3a: the specifications of the ten fuel-recursive functions of the model (`openP`, `openList`,
`emitP`, `skipLoop`, `zipRow`, `mergeRefill`, `windowFill`, `clusterRead`, `clusterSkip`,
`clusterSkipLoop`), bundled as `AllSpec fuel`, so that one induction on `fuel` proves them simultaneously
(PipeC01Open.lean, PipeC01Emit.lean, PipeC01Main.lean).

Every spec reads: "out of fuel, or the identities of the resources are unchanged, `bad` is still off,
nothing outside the pipeline's resources was touched, and the operator object is again in a state that
agrees with the open set" — for EVERY result (value, EOF, error, panic).
-/
import ShpanVerif.Proofs.PipeC01Close

namespace ShpanVerif.Proofs.PipeC01
open ShpanVerif.Model.Pipe

/-- open functions: success leaves the pipeline opened, anything else leaves it closed (rolled back) -/
def OpenOK (p : Pipe) (w : World) (x : Res Unit × Pipe × World) : Prop :=
  x.1.isOof = false → ids x.2.1 = ids p ∧ Keep (ids p) w x.2.2 ∧
    (if x.1.isVal = true then Op x.2.1 x.2.2.isOpen else Cl x.2.1 x.2.2.isOpen)

def OpenLOK (ps : PipeList) (w : World) (x : Res Unit × PipeList × World) : Prop :=
  x.1.isOof = false → idsList x.2.1 = idsList ps ∧ x.2.1.length = ps.length ∧ Keep (idsList ps) w x.2.2 ∧
    (if x.1.isVal = true then St x.2.1 (fun _ => true) x.2.2.isOpen else ClL x.2.1 x.2.2.isOpen)

/-- provider functions: the pipeline stays opened whatever the result -/
def EmitOK {α : Type} (p : Pipe) (w : World) (x : Res α × Pipe × World) : Prop :=
  x.1.isOof = false → ids x.2.1 = ids p ∧ Keep (ids p) w x.2.2 ∧ Op x.2.1 x.2.2.isOpen

def EmitLOK {α : Type} (ps : PipeList) (w : World) (x : Res α × PipeList × World) : Prop :=
  x.1.isOof = false → idsList x.2.1 = idsList ps ∧ x.2.1.length = ps.length ∧ Keep (idsList ps) w x.2.2 ∧
    St x.2.1 (fun _ => true) x.2.2.isOpen

/-- the cluster helpers return `(res, nextItem, lastItem, source, world)` -/
def drop2 {α β γ : Type} (x : Res α × β × γ × Pipe × World) : Res α × Pipe × World := (x.1, x.2.2.2.1, x.2.2.2.2)

structure AllSpec (fuel : Nat) : Prop where
  openP : ∀ p w, Cl p w.isOpen → (ids p).Nodup → w.bad = false → OpenOK p w (openP fuel p w)
  openList : ∀ ps i w (f : Nat → Bool), (∀ j, j < ps.length → f j = decide (j < i)) →
    St ps f w.isOpen → (idsList ps).Nodup → w.bad = false → OpenLOK ps w (openList fuel ps i w)
  emitP : ∀ p w, Op p w.isOpen → (ids p).Nodup → w.bad = false → EmitOK p w (emitP fuel p w)
  skipLoop : ∀ n p w, Op p w.isOpen → (ids p).Nodup → w.bad = false → EmitOK p w (skipLoop fuel n p w)
  zipRow : ∀ ps i acc w, St ps (fun _ => true) w.isOpen → (idsList ps).Nodup → w.bad = false →
    EmitLOK ps w (zipRow fuel ps i acc w)
  mergeRefill : ∀ ps i slots w, St ps (fun _ => true) w.isOpen → (idsList ps).Nodup → w.bad = false →
    EmitLOK ps w (mergeRefill fuel ps i slots w)
  windowFill : ∀ s st o buf p w, Op p w.isOpen → (ids p).Nodup → w.bad = false →
    EmitOK p w (windowFill fuel s st o buf true p w)
  clusterRead : ∀ k cls want acc nxt last p w, Op p w.isOpen → (ids p).Nodup → w.bad = false →
    EmitOK p w (drop2 (clusterRead fuel k cls want acc nxt last p w))
  clusterSkip : ∀ k cls nxt last p w, Op p w.isOpen → (ids p).Nodup → w.bad = false →
    EmitOK p w (drop2 (clusterSkip fuel k cls nxt last p w))
  clusterSkipLoop : ∀ k cls ncls nxt last p w, Op p w.isOpen → (ids p).Nodup → w.bad = false →
    EmitOK p w (drop2 (clusterSkipLoop fuel k cls ncls nxt last p w))

/-! ### small tools shared by the step proofs -/

theorem userCall_eq (w : World) : ∃ h w', userCall w = (h, w') ∧ w'.isOpen = w.isOpen ∧ w'.bad = w.bad :=
  ⟨(userCall w).1, (userCall w).2, rfl, userCall_isOpen w, userCall_bad w⟩

theorem emitRes_eq (r : Nat) (w : World) :
    ∃ h w', emitRes r w = (h, w') ∧ w'.isOpen = w.isOpen ∧ w'.bad = (w.bad || !w.isOpen r) :=
  ⟨(emitRes r w).1, (emitRes r w).2, rfl, emitRes_isOpen r w, emitRes_bad r w⟩

/-- a world-only step (call position, nothing opened or closed) after a `Keep` step -/
theorem Keep.world {l : List Nat} {w w1 w2 : World} (h : Keep l w w1) (ho : w2.isOpen = w1.isOpen)
    (hb : w2.bad = w1.bad) : Keep l w w2 :=
  ⟨by rw [hb]; exact h.bad, fun x hx => by rw [ho]; exact h.frame x hx⟩

theorem openRes_keep {l : List Nat} {r : Nat} {w : World} (hb : w.bad = false) (ho : w.isOpen r = false)
    (hr : r ∈ l) : Keep l w (openRes r w).2 := by
  rcases openRes_cases r w with ⟨_, h2, h3⟩ | ⟨_, h2, h3⟩
  · refine ⟨by simp [h3, hb, ho], fun x hx => ?_⟩
    have : x ≠ r := fun h => hx (h ▸ hr)
    simp [h2, upd, this]
  · exact ⟨by rw [h3]; exact hb, fun x _ => by rw [h2]⟩

end ShpanVerif.Proofs.PipeC01
