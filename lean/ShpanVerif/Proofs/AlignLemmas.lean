/-
Lemmas about the aligner model (`Model/Align.lean`): the list-level specification `alignSpec`, the refinement
`alignWith = alignSpec` for time-sorted inputs under `Tiles`, and naturality of the cluster mechanism in the
item type (used for representation independence).  Core Lean only.
-/
import ShpanVerif.Model.Align

namespace ShpanVerif.Proofs.Align
open ShpanVerif.Model.Align

variable {β : Type}

instance {α : Type} [DecidableEq α] : DecidableEq (Except Err α) := fun a b =>
  match a, b with
  | .ok x, .ok y => if h : x = y then isTrue (by rw [h]) else isFalse (by intro e; cases e; exact h rfl)
  | .error x, .error y => if h : x = y then isTrue (by rw [h]) else isFalse (by intro e; cases e; exact h rfl)
  | .ok _, .error _ => isFalse (by intro e; cases e)
  | .error _, .ok _ => isFalse (by intro e; cases e)

/-! ## List-level specification -/

/-- Output record at boundary `b`. -/
def outRec (P : Period) (b : Int) (v : β) : Rec β := ⟨⟨b, P.loc⟩, v⟩

/-- Value at a later boundary `b` given the last input before it (`p`) and the first input at or after it
(`y`): the input's own value when it lies exactly on the boundary, else the interpolation. -/
def boundaryVal (core : Int → Int → β → β → Except Err β) (b : Int) (p y : Rec β) : Except Err β :=
  if y.ts.inst = b then .ok y.val
  else core (b - p.ts.inst) (y.ts.inst - p.ts.inst) p.val y.val

/-- One pass over adjacent pairs `(p, y)`: a record is produced exactly where the period changes. -/
def specGo (P : Period) (core : Int → Int → β → β → Except Err β) :
    Rec β → List (Rec β) → Except Err (List (Rec β))
  | _, [] => .ok []
  | p, y :: ys =>
    if P.start y.ts.inst = P.start p.ts.inst then specGo P core y ys
    else
      match boundaryVal core (P.start y.ts.inst) p y with
      | .error e => .error e
      | .ok v =>
        match specGo P core y ys with
        | .error e => .error e
        | .ok rest => .ok (outRec P (P.start y.ts.inst) v :: rest)

/-- The aligned series of `xs`, as a list-level definition. -/
def alignSpec (P : Period) (core : Int → Int → β → β → Except Err β) :
    List (Rec β) → Except Err (List (Rec β))
  | [] => .ok []
  | x :: xs =>
    match specGo P core x xs with
    | .error e => .error e
    | .ok rest => .ok (outRec P (P.start x.ts.inst) x.val :: rest)

/-- Time-sorted input. -/
def Sorted (xs : List (Rec β)) : Prop := xs.Pairwise (fun a b => a.ts.inst ≤ b.ts.inst)

/-! ## Facts about periods -/
section tiles
variable {P : Period} (T : Tiles P)
include T

/-- An earlier instant in a different period lies strictly before the later instant's period start. -/
theorem lt_start_of_ne {t u : Int} (h : t ≤ u) (hne : P.start t ≠ P.start u) : t < P.start u := by
  apply Classical.byContradiction
  intro hc
  have h1 : P.start u ≤ t := by omega
  have h2 := T.mono _ _ h1
  rw [T.start_idem] at h2
  have h3 := T.mono _ _ h
  omega

theorem start_le_of_le {t u : Int} (h : t ≤ u) : P.start t ≤ P.start u := T.mono _ _ h

end tiles

theorem cmpInt_eq_iff (a b : Int) : cmpInt a b = .eq ↔ a = b := by
  unfold cmpInt
  by_cases h1 : a < b
  · simp [h1]; omega
  · by_cases h2 : a = b
    · simp [h2]
    · simp [h1, h2]

theorem cmpInt_gt_iff (a b : Int) : cmpInt a b = .gt ↔ b < a := by
  unfold cmpInt
  by_cases h1 : a < b
  · simp [h1]; omega
  · by_cases h2 : a = b
    · simp [h2]
    · simp [h1, h2]; omega

theorem cmpInt_self (a : Int) : cmpInt a a = .eq := (cmpInt_eq_iff a a).2 rfl

/-! ## Refinement: the cluster machine driven by the aligner factory computes `alignSpec` -/
section refine
variable (P : Period) (core : Int → Int → β → β → Except Err β)

/-- What the specification says the machine will still produce from state `s` (at an `Emit` boundary). -/
def specState (s : CState (Rec β) Int) : Except Err (List (Rec β)) :=
  match s.nextItem with
  | none => .ok []
  | some y =>
    match s.last with
    | none =>
      match specGo P core y s.src with
      | .error e => .error e
      | .ok rest => .ok (outRec P (P.start y.ts.inst) y.val :: rest)
    | some p =>
      match boundaryVal core (P.start y.ts.inst) p y with
      | .error e => .error e
      | .ok v =>
        match specGo P core y s.src with
        | .error e => .error e
        | .ok rest => .ok (outRec P (P.start y.ts.inst) v :: rest)

/-- Invariant of the machine at `Emit` boundaries. -/
def SInv (s : CState (Rec β) Int) : Prop :=
  match s.nextItem with
  | none => True
  | some y =>
    s.curr = P.start y.ts.inst ∧ Sorted (y :: s.src) ∧
    (match s.last with
     | none => True
     | some p => p.ts.inst ≤ y.ts.inst ∧ P.start p.ts.inst ≠ P.start y.ts.inst)

variable {P}

/-- The skip loop: from a state where `n` is the look-ahead item, `prev` the item before it (inside the
current cluster `cc`), it reaches an `Emit`-boundary state satisfying the invariant, having consumed
only items, and the specification continues from there exactly as `specGo prev (n :: rest)`. -/
theorem cskip_spec (T : Tiles P) (cc : Int) :
    ∀ (rest : List (Rec β)) (n prev : Rec β),
      P.start prev.ts.inst = cc → prev.ts.inst ≤ n.ts.inst → Sorted (n :: rest) →
      ∃ nc n' l' src',
        cskip (classify P) cmpInt cc (classify P n) (cmpInt cc (classify P n)) n (some prev) rest
          = .ok (nc, n', l', src') ∧
        SInv P ⟨n', nc, l', src'⟩ ∧ src'.length ≤ rest.length ∧
        specState P core ⟨n', nc, l', src'⟩ = specGo P core prev (n :: rest) := by
  intro rest
  induction rest with
  | nil =>
    intro n prev hprev hle hs
    unfold cskip
    by_cases hn : P.start n.ts.inst = cc
    · have : cmpInt cc (classify P n) = .eq := (cmpInt_eq_iff _ _).2 (by simp [classify, hn])
      refine ⟨classify P n, none, some prev, [], ?_, ?_, ?_, ?_⟩
      · simp [this]
      · simp [SInv]
      · simp
      · simp [specState, specGo, hn, hprev]
    · have hne : cmpInt cc (classify P n) ≠ .eq := by
        intro h; exact hn ((cmpInt_eq_iff _ _).1 h).symm
      refine ⟨classify P n, some n, some prev, [], ?_, ?_, ?_, ?_⟩
      · simp [hne]
      · unfold SInv
        exact ⟨rfl, hs, hle, by rw [hprev]; exact fun h => hn h.symm⟩
      · simp
      · have hne' : ¬ P.start n.ts.inst = P.start prev.ts.inst := by rw [hprev]; exact hn
        simp only [specState, specGo, hne', if_false]
  | cons x xs ih =>
    intro n prev hprev hle hs
    unfold cskip
    by_cases hn : P.start n.ts.inst = cc
    · have heq : cmpInt cc (classify P n) = .eq := (cmpInt_eq_iff _ _).2 (by simp [classify, hn])
      have hs' : Sorted (x :: xs) := (List.pairwise_cons.1 hs).2
      have hnx : n.ts.inst ≤ x.ts.inst := (List.pairwise_cons.1 hs).1 x (List.mem_cons_self)
      have hmono : cc ≤ P.start x.ts.inst := by rw [← hn]; exact T.mono _ _ hnx
      have hngt : (cmpInt cc (classify P x) == Ordering.gt) = false := by
        have : ¬ cmpInt cc (classify P x) = .gt := by
          rw [cmpInt_gt_iff]; simp only [classify]; omega
        simpa using this
      obtain ⟨nc, n', l', src', h1, h2, h3, h4⟩ := ih x n hn hnx hs'
      refine ⟨nc, n', l', src', ?_, h2, by simp; omega, ?_⟩
      · simp only [heq, bne_self_eq_false, Bool.false_eq_true, if_false, hngt]
        exact h1
      · rw [h4]
        conv => rhs; unfold specGo
        simp [hn, hprev]
    · have hne : cmpInt cc (classify P n) ≠ .eq := by
        intro h; exact hn ((cmpInt_eq_iff _ _).1 h).symm
      refine ⟨classify P n, some n, some prev, x :: xs, ?_, ?_, ?_, ?_⟩
      · simp [hne]
      · unfold SInv
        exact ⟨rfl, hs, hle, by rw [hprev]; exact fun h => hn h.symm⟩
      · simp
      · have hne' : ¬ P.start n.ts.inst = P.start prev.ts.inst := by rw [hprev]; exact hn
        simp only [specState, specGo, hne', if_false]

/-- On a sorted input the time checks of `timeWeightedAverage` never fire at a period boundary. -/
theorem twa_boundary (T : Tiles P) {p y : Rec β} (hle : p.ts.inst ≤ y.ts.inst)
    (hne : P.start p.ts.inst ≠ P.start y.ts.inst) :
    twa core (P.start y.ts.inst) p.ts.inst p.val y.ts.inst y.val
      = core (P.start y.ts.inst - p.ts.inst) (y.ts.inst - p.ts.inst) p.val y.val := by
  have h1 : p.ts.inst < P.start y.ts.inst := lt_start_of_ne T hle hne
  have h2 : P.start y.ts.inst ≤ y.ts.inst := T.start_le _
  unfold twa
  have h3 : ¬ p.ts.inst = y.ts.inst := by omega
  have h4 : ¬ (P.start y.ts.inst < p.ts.inst ∨ P.start y.ts.inst > y.ts.inst) := by omega
  simp [h3, h4]

/-- The factory's answer for a later cluster. -/
theorem factory_later (T : Tiles P) {p y : Rec β} (hle : p.ts.inst ≤ y.ts.inst)
    (hne : P.start p.ts.inst ≠ P.start y.ts.inst) :
    alignFactory P.loc core (P.start y.ts.inst) (some y) (some p)
      = match boundaryVal core (P.start y.ts.inst) p y with
        | .error e => .error e
        | .ok v => .ok (outRec P (P.start y.ts.inst) v) := by
  unfold alignFactory boundaryVal
  dsimp only
  by_cases hb : y.ts.inst = P.start y.ts.inst
  · rw [if_pos hb, if_pos hb]; rfl
  · rw [if_neg hb, if_neg hb, twa_boundary core T hle hne]
    cases core (P.start y.ts.inst - p.ts.inst) (y.ts.inst - p.ts.inst) p.val y.val <;> rfl

theorem factory_first (y : Rec β) :
    alignFactory P.loc core (P.start y.ts.inst) (some y) none = .ok (outRec P (P.start y.ts.inst) y.val) := rfl

/-- **Refinement.** From any invariant state, with enough fuel, `Collect` of the machine is what the
list-level specification says (errors included). -/
theorem ccollect_spec (T : Tiles P) :
    ∀ (fuel : Nat) (s : CState (Rec β) Int), SInv P s → s.src.length + 1 < fuel →
      ccollect (classify P) cmpInt (alignFactory P.loc core) fuel s = specState P core s := by
  intro fuel
  induction fuel with
  | zero => intro s _ h; omega
  | succ fuel ih =>
    intro s hinv hfuel
    rcases s with ⟨ni, curr, last, src⟩
    cases ni with
    | none => simp [ccollect, cemit, specState]
    | some y =>
      obtain ⟨hcurr, hsort, hlast⟩ := hinv
      simp only at hcurr hsort hlast hfuel
      subst hcurr
      have hself : cmpInt (P.start y.ts.inst) (classify P y) = .eq := by
        simp [classify, cmpInt_self]
      cases src with
      | nil =>
        -- the cluster stream yields `y`, the source is exhausted
        cases last with
        | none =>
          simp only [ccollect, cemit, cpull, hself, bne_self_eq_false, Bool.false_eq_true, if_false,
            factory_first, specState, specGo]
          cases fuel with
          | zero => omega
          | succ f => simp [ccollect, cemit]
        | some p =>
          simp only [ccollect, cemit, cpull, hself, bne_self_eq_false, Bool.false_eq_true, if_false,
            factory_later core T hlast.1 hlast.2, specState, specGo]
          cases boundaryVal core (P.start y.ts.inst) p y with
          | error e => simp
          | ok v =>
            cases fuel with
            | zero => omega
            | succ f => simp [ccollect, cemit]
      | cons n rest =>
        have hyn : y.ts.inst ≤ n.ts.inst := (List.pairwise_cons.1 hsort).1 n List.mem_cons_self
        have hs' : Sorted (n :: rest) := (List.pairwise_cons.1 hsort).2
        obtain ⟨nc, n', l', src', h1, h2, h3, h4⟩ :=
          cskip_spec core T (P.start y.ts.inst) rest n y rfl hyn hs'
        have hlen : src'.length + 1 < fuel := by simp at hfuel; omega
        have hrec := (ih ⟨n', nc, l', src'⟩ h2 hlen).trans h4
        cases last with
        | none =>
          simp only [ccollect, cemit, cpull, hself, bne_self_eq_false, Bool.false_eq_true, if_false,
            factory_first, h1, hrec, specState]
          generalize specGo P core y (n :: rest) = r
          cases r <;> rfl
        | some p =>
          simp only [ccollect, cemit, cpull, hself, bne_self_eq_false, Bool.false_eq_true, if_false,
            factory_later core T hlast.1 hlast.2, specState]
          cases boundaryVal core (P.start y.ts.inst) p y with
          | error e => simp
          | ok v =>
            simp only [h1, hrec]
            generalize specGo P core y (n :: rest) = r
            cases r <;> rfl

/-- **C13 refinement theorem**: for every period with `Tiles`, every interpolation core and every
time-sorted input, the aligner (cluster machine + factory, first materialisation) returns exactly the
list-level aligned series - same records, same error. -/
theorem alignWith_eq_spec (T : Tiles P) (xs : List (Rec β)) (hs : Sorted xs) :
    alignWith P core xs = alignSpec P core xs := by
  unfold alignWith alignFrom
  cases xs with
  | nil => simp [copen, ccollect, cemit, alignSpec]
  | cons x xs =>
    rw [copen, ccollect_spec core T]
    · simp [specState, alignSpec]
    · exact ⟨rfl, hs, trivial⟩
    · simp

end refine

/-! ## Naturality of the cluster machine in the item type

If a re-expression `f` of the items is invisible to the classifier and to the factory, the machine cannot
tell `xs.map f` from `xs`.  No assumption on the comparator, the classifier, sortedness or arithmetic. -/
section natural
variable {T T' C O : Type}

def CState.map (f : T → T') (s : CState T C) : CState T' C :=
  ⟨s.nextItem.map f, s.curr, s.last.map f, s.src.map f⟩

variable (f : T → T') (cls : T → C) (cls' : T' → C) (cmp : C → C → Ordering)
variable (hcls : ∀ x, cls' (f x) = cls x)
include hcls

theorem cpull_map (cc : C) (s : CState T C) :
    cpull cls' cmp cc (CState.map f s) =
      ((cpull cls cmp cc s).1.map f, CState.map f (cpull cls cmp cc s).2) := by
  rcases s with ⟨ni, curr, last, src⟩
  cases ni with
  | none => simp [cpull, CState.map]
  | some n =>
    cases src with
    | nil =>
      simp only [cpull, CState.map, Option.map_some, hcls, List.map_nil]
      split <;> simp
    | cons x xs =>
      simp only [cpull, CState.map, Option.map_some, hcls, List.map_cons]
      split <;> simp

theorem cskip_map (cc : C) :
    ∀ (src : List T) (nc : C) (r : Ordering) (n : T) (last : Option T),
      cskip cls' cmp cc nc r (f n) (last.map f) (src.map f) =
        match cskip cls cmp cc nc r n last src with
        | .error e => .error e
        | .ok (a, b, c, d) => .ok (a, b.map f, c.map f, d.map f) := by
  intro src
  induction src with
  | nil =>
    intro nc r n last
    unfold cskip
    by_cases hr : (r != .eq) = true
    · simp [hr]
    · simp [hr]
  | cons x xs ih =>
    intro nc r n last
    unfold cskip
    by_cases hr : (r != .eq) = true
    · simp [hr]
    · simp only [hr, Bool.false_eq_true, if_false, List.map_cons, hcls]
      by_cases hg : (cmp cc (cls x) == .gt) = true
      · simp [hg]
      · simp only [hg, Bool.false_eq_true, if_false]
        have := ih (cls x) (cmp cc (cls x)) x (some n)
        simpa using this

variable (fac : C → Option T → Option T → Except Err O) (fac' : C → Option T' → Option T' → Except Err O)
variable (hfac : ∀ c o1 o2, fac' c (Option.map f o1) (Option.map f o2) = fac c o1 o2)
include hfac

theorem cemit_map (s : CState T C) :
    cemit cls' cmp fac' (CState.map f s) =
      ((cemit cls cmp fac s).1, CState.map f (cemit cls cmp fac s).2) := by
  rcases s with ⟨ni, curr, last, src⟩
  cases ni with
  | none => simp [cemit, CState.map]
  | some y =>
    have hp := cpull_map f cls cls' cmp hcls curr ⟨some y, curr, last, src⟩
    simp only [CState.map, Option.map_some] at hp
    simp only [cemit, CState.map, Option.map_some, hp]
    rw [hfac]
    cases hfr : fac curr (cpull cls cmp curr ⟨some y, curr, last, src⟩).1 last with
    | error e => simp
    | ok o =>
      simp only
      generalize hs1 : (cpull cls cmp curr ⟨some y, curr, last, src⟩).2 = s1
      rcases s1 with ⟨ni1, c1, l1, src1⟩
      cases ni1 with
      | none => simp
      | some n =>
        simp only [Option.map_some, hcls]
        rw [cskip_map f cls cls' cmp hcls]
        cases cskip cls cmp curr (cls n) (cmp curr (cls n)) n l1 src1 with
        | error e => simp
        | ok q => rcases q with ⟨a, b, c, d⟩; simp

theorem ccollect_map :
    ∀ (fuel : Nat) (s : CState T C),
      ccollect cls' cmp fac' fuel (CState.map f s) = ccollect cls cmp fac fuel s := by
  intro fuel
  induction fuel with
  | zero => intro s; rfl
  | succ fuel ih =>
    intro s
    simp only [ccollect]
    rw [cemit_map f cls cls' cmp hcls fac fac' hfac]
    rcases hc : cemit cls cmp fac s with ⟨o, s'⟩
    cases o with
    | none => rfl
    | some r =>
      cases r with
      | error e => rfl
      | ok v => simp only [ih]

end natural

/-- The aligner factory only reads the instant and the value of the items it is given. -/
theorem alignFactory_natural (ploc : Nat) (core : Int → Int → β → β → Except Err β) (f : Rec β → Rec β)
    (hf : ∀ r, (f r).ts.inst = r.ts.inst ∧ (f r).val = r.val) (c : Int) (o1 o2 : Option (Rec β)) :
    alignFactory ploc core c (o1.map f) (o2.map f) = alignFactory ploc core c o1 o2 := by
  cases o1 <;> cases o2 <;> simp [alignFactory, hf]

/-- Re-expressing every timestamp (any function of the record that keeps instant and value) does not
change the aligner's result - for every period, every core (hence every arithmetic), every input. -/
theorem alignFrom_map (P : Period) (core : Int → Int → β → β → Except Err β) (f : Rec β → Rec β)
    (hf : ∀ r, (f r).ts.inst = r.ts.inst ∧ (f r).val = r.val) (last0 : Option (Rec β)) (xs : List (Rec β)) :
    alignFrom P core (last0.map f) (xs.map f) = alignFrom P core last0 xs := by
  unfold alignFrom
  have hcls : ∀ x, classify P (f x) = classify P x := fun x => by simp [classify, hf]
  have hopen : copen (classify P) 0 (last0.map f) (xs.map f) = CState.map f (copen (classify P) 0 last0 xs) := by
    cases xs <;> simp [copen, CState.map, hcls]
  rw [hopen, List.length_map]
  exact ccollect_map f (classify P) (classify P) cmpInt hcls _ _
    (alignFactory_natural P.loc core f hf) _ _

end ShpanVerif.Proofs.Align
