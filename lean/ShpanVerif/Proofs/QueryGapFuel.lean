/-
C10 helper lemmas: the step budget of the gap filler (`gapFillStream`, Model/QueryExec.lean) is never what ends its
stream ("gap-fill termination").  The real `NewTsGapFillerStream` has no budget; the model's loop `fillLoop` is
fuel-bounded, and `gapFillStream` runs it with `steps (last − first) + length + 3`.  For every period whose
consecutive ends are at least `g > 0` apart (`E t + g ≤ E (E t)`) and every `steps` that allows `span / g` periods per
span, any larger budget yields the same stream (`gapFillStream_fuel_irrel`).  Instantiated for `PeriodK` (fixed:
`g` = the duration; calendar: `g` = one second, from `t < GetEndTime t`) in Props/C10Cal.lean.
-/
import ShpanVerif.Proofs.QueryXFilters
namespace ShpanVerif.Proofs.Query
open ShpanVerif.Model.Query List

section fuel
variable {α β : Type} (ts : α → Int) (val : α → β) (mk : Int → β → α)

/-- every record still to come (look-ahead and remaining pulls) is stamped at most `M` -/
def TsBound (M : Int) (next : Option α) (src : List (Option α)) : Prop :=
  (∀ n, next = some n → ts n ≤ M) ∧ ∀ r ∈ okRows src, ts r ≤ M

theorem fillAdvance_bound (e M : Int) : ∀ (prev next : Option α) (src : List (Option α))
    {prev' next' : Option α} {src' : List (Option α)},
    fillAdvance ts e prev next src = some (prev', next', src') → TsBound ts M next src →
    TsBound ts M next' src' ∧ ∀ n, next' = some n → e < ts n
  | prev, none, src, prev', next', src', h, hb => by
    simp only [fillAdvance, Option.some.injEq, Prod.mk.injEq] at h
    obtain ⟨rfl, rfl, rfl⟩ := h
    exact ⟨hb, fun n hn => (by cases hn)⟩
  | prev, some n, [], prev', next', src', h, hb => by
    simp only [fillAdvance] at h
    split at h
    · simp only [Option.some.injEq, Prod.mk.injEq] at h
      obtain ⟨rfl, rfl, rfl⟩ := h
      exact ⟨⟨fun n hn => (by cases hn), hb.2⟩, fun n hn => (by cases hn)⟩
    · simp only [Option.some.injEq, Prod.mk.injEq] at h
      obtain ⟨rfl, rfl, rfl⟩ := h
      exact ⟨hb, fun m hm => by simp only [Option.some.injEq] at hm; subst hm; omega⟩
  | prev, some n, none :: t, prev', next', src', h, hb => by
    simp only [fillAdvance] at h
    split at h
    · simp at h
    · simp only [Option.some.injEq, Prod.mk.injEq] at h
      obtain ⟨rfl, rfl, rfl⟩ := h
      exact ⟨hb, fun m hm => by simp only [Option.some.injEq] at hm; subst hm; omega⟩
  | prev, some n, some x :: t, prev', next', src', h, hb => by
    simp only [fillAdvance] at h
    split at h
    · refine fillAdvance_bound e M (some n) (some x) t h ⟨?_, ?_⟩
      · intro m hm; simp only [Option.some.injEq] at hm; subst hm
        exact hb.2 _ (by simp [okRows])
      · intro r hr
        exact hb.2 r (by simp only [okRows, filterMap_cons, id_eq, mem_cons]; exact Or.inr hr)
    · simp only [Option.some.injEq, Prod.mk.injEq] at h
      obtain ⟨rfl, rfl, rfl⟩ := h
      exact ⟨hb, fun m hm => by simp only [Option.some.injEq] at hm; subst hm; omega⟩

/-- the number of loop iterations still possible when the gap filler expects `e`, every record to come is stamped
`≤ M` and consecutive period ends are at least `g` apart -/
def fillBudget (g M e : Int) : Nat := ((M - e) / g + 1).toNat + 1

theorem fillBudget_step {g M e e' : Int} (hg : 0 < g) (hstep : e + g ≤ e') (hlt : e < M) :
    fillBudget g M e' + 1 ≤ fillBudget g M e := by
  unfold fillBudget
  have h1 : (M - e') / g ≤ (M - e - g) / g := Int.ediv_le_ediv hg (by omega)
  have h2 : (M - e - g) / g = (M - e) / g - 1 := by
    have := Int.add_mul_ediv_right (M - e) (-1) (Int.ne_of_gt hg)
    rw [show M - e - g = M - e + -1 * g by omega, this]; omega
  have h3 : 0 ≤ (M - e) / g := Int.ediv_nonneg (by omega) (Int.le_of_lt hg)
  omega

/-- **the step budget is never the reason to stop**: with any two fuels of at least `fillBudget` the gap filler's
loop yields the same stream — for every period whose end lies at least `g > 0` after the instant it is asked about
(on the instants the loop visits: `e` and, inductively, the period ends) -/
theorem fillLoop_fuel_irrel {E : Int → Int} {g : Int} (hg : 0 < g) (hEE : ∀ t, E t + g ≤ E (E t))
    {mode : FillMode} {interp : Int → Int → β → Int → β → Option β} (M : Int) :
    ∀ (fuel fuel' : Nat) (prev next : Option α) (e : Int) (src : List (Option α)),
    e + g ≤ E e → TsBound ts M next src → fillBudget g M e ≤ fuel → fillBudget g M e ≤ fuel' →
    fillLoop ts val mk E mode interp fuel prev next e src = fillLoop ts val mk E mode interp fuel' prev next e src
  | 0, _, _, _, _, _, _, _, h, _ => by unfold fillBudget at h; omega
  | _ + 1, 0, _, _, _, _, _, _, _, h => by unfold fillBudget at h; omega
  | fuel + 1, fuel' + 1, prev, next, e, src, he, hb, hf, hf' => by
    simp only [fillLoop]
    cases hadv : fillAdvance ts e prev next src with
    | none => rfl
    | some tr =>
      obtain ⟨prev', next', src'⟩ := tr
      obtain ⟨hb', hnext⟩ := fillAdvance_bound ts e M prev next src hadv hb
      -- the recursive calls are made only when a look-ahead record later than `e` exists
      have ih : ∀ n, next' = some n →
          fillLoop ts val mk E mode interp fuel prev' next' (E e) src' =
            fillLoop ts val mk E mode interp fuel' prev' next' (E e) src' := by
        intro n hn
        have hlt : e < M := Int.lt_of_lt_of_le (hnext n hn) (hb'.1 n hn)
        have := fillBudget_step hg he hlt
        exact fillLoop_fuel_irrel hg hEE M fuel fuel' prev' next' (E e) src' (hEE e) hb' (by omega) (by omega)
      simp only
      cases prev' with
      | none => rfl
      | some pp =>
        simp only
        cases next' with
        | none => rfl
        | some n =>
          have := ih n rfl
          simp only [this]

theorem fillBudget_mono {g M e e' : Int} (hg : 0 < g) (h : e ≤ e') : fillBudget g M e' ≤ fillBudget g M e := by
  unfold fillBudget
  have : (M - e') / g ≤ (M - e) / g := Int.ediv_le_ediv hg (by omega)
  omega

/-- the same from an arbitrary first instant `e` (the first point's own timestamp): one more step of budget -/
theorem fillLoop_fuel_irrel0 {E : Int → Int} {g : Int} (hg : 0 < g) (hE : ∀ t, t ≤ E t) (hEE : ∀ t, E t + g ≤ E (E t))
    {mode : FillMode} {interp : Int → Int → β → Int → β → Option β} (M : Int) :
    ∀ (fuel fuel' : Nat) (prev next : Option α) (e : Int) (src : List (Option α)),
    TsBound ts M next src → fillBudget g M e + 1 ≤ fuel → fillBudget g M e + 1 ≤ fuel' →
    fillLoop ts val mk E mode interp fuel prev next e src = fillLoop ts val mk E mode interp fuel' prev next e src
  | 0, _, _, _, _, _, _, h, _ => by omega
  | _ + 1, 0, _, _, _, _, _, _, h => by omega
  | fuel + 1, fuel' + 1, prev, next, e, src, hb, hf, hf' => by
    simp only [fillLoop]
    cases hadv : fillAdvance ts e prev next src with
    | none => rfl
    | some tr =>
      obtain ⟨prev', next', src'⟩ := tr
      obtain ⟨hb', _⟩ := fillAdvance_bound ts e M prev next src hadv hb
      have hm := fillBudget_mono (M := M) hg (hE e)
      have ih := fillLoop_fuel_irrel ts val mk hg hEE (mode := mode) (interp := interp) M fuel fuel' prev' next' (E e)
        src' (hEE e) hb' (by omega) (by omega)
      simp only [ih]

theorem le_maxTs (s : List (Option α)) : ∀ (m : Int), m ≤ maxTs ts s m ∧ ∀ r ∈ okRows s, ts r ≤ maxTs ts s m := by
  induction s with
  | nil => intro m; simp [maxTs, okRows]
  | cons x t ih =>
    intro m
    cases x with
    | none =>
      simp only [maxTs, foldl_cons, okRows, filterMap_cons, id_eq]
      exact ih m
    | some a =>
      simp only [maxTs, foldl_cons, okRows, filterMap_cons, id_eq, mem_cons, forall_eq_or_imp]
      have := ih (if ts a > m then ts a else m)
      simp only [maxTs, okRows] at this
      refine ⟨?_, ?_, this.2⟩
      · have := this.1; split at this <;> omega
      · have := this.1; split at this <;> omega

/-- **`NewTsGapFillerStream` terminates in the model**: the step budget `gapFillStream` runs its loop with is never
what ends the stream — any larger budget gives the same result — for every period whose ends are at least `g > 0`
apart, provided `steps` allows for `span / g` periods in a span -/
theorem gapFillStream_fuel_irrel {E : Int → Int} {g : Int} (hg : 0 < g) (hE : ∀ t, t ≤ E t)
    (hEE : ∀ t, E t + g ≤ E (E t)) {steps : Int → Nat} (hsteps : ∀ span, (span / g).toNat ≤ steps span)
    {mode : FillMode} {interp : Int → Int → β → Int → β → Option β} (first : α) (rest : List (Option α)) (fuel' : Nat)
    (hf : steps (maxTs ts rest (ts first) - ts first) + (some first :: rest).length + 3 ≤ fuel') :
    fillLoop ts val mk E mode interp fuel' none (some first) (ts first) rest =
      gapFillStream ts val mk E steps mode interp (some first :: rest) := by
  simp only [gapFillStream]
  have hmx := le_maxTs ts rest (ts first)
  have hb : TsBound ts (maxTs ts rest (ts first)) (some first) rest :=
    ⟨fun n hn => by simp only [Option.some.injEq] at hn; subst hn; exact hmx.1, hmx.2⟩
  have hbud : fillBudget g (maxTs ts rest (ts first)) (ts first) + 1 ≤
      steps (maxTs ts rest (ts first) - ts first) + (some first :: rest).length + 3 := by
    have h1 := hsteps (maxTs ts rest (ts first) - ts first)
    have h2 : 0 ≤ (maxTs ts rest (ts first) - ts first) / g := Int.ediv_nonneg (by omega) (Int.le_of_lt hg)
    simp only [fillBudget, length_cons]
    omega
  exact fillLoop_fuel_irrel0 ts val mk hg hE hEE _ _ _ _ _ _ _ hb (by omega) hbud

end fuel
end ShpanVerif.Proofs.Query
