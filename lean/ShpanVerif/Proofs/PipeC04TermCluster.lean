/-
C04 termination, part 4: ClusterSortedStream preserves `Term`.  Potential `Phi nxt m0` = what the source can
still emit plus the look-ahead item; every pull decreases it, and every emit pulls at least once because
the look-ahead item belongs to the current cluster (`cls = classify k item`).
-/
import ShpanVerif.Proofs.PipeC04TermOps2

namespace ShpanVerif.Proofs.PipeC04
open ShpanVerif.Model.Pipe ShpanVerif

def Phi (nxt : Option V) (m0 : Nat) : Nat := m0 + (if nxt.isSome then 1 else 0)

theorem Phi_some (v : V) (m0 : Nat) : Phi (some v) m0 = m0 + 1 := rfl
theorem Phi_none (m0 : Nat) : Phi none m0 = m0 := rfl

/-- nested read: the potential does not grow; it is unchanged only if nothing was pulled -/
def CReadT (G : Nat) (r : Res (List V) × Option V × Option V × Pipe × World) (nxt : Option V) (m0 : Nat) : Prop :=
  match r with
  | (.val _, nxt', _, p', w') => w'.Clean ∧ ∃ m1, Term G p' m1 ∧ (Phi nxt' m1 < Phi nxt m0 ∨ (nxt' = nxt ∧ m1 = m0))
  | (.eof, _, _, _, _) => False
  | (.fail _, _, _, _, _) => True
  | (.panic _, _, _, _, _) => False
  | (.oof, _, _, _, _) => False

theorem clusterRead_term {G : Nat} (k cls : Int) : ∀ (b : Nat) (want : Option Nat) (acc : List V) (nxt last : Option V)
    (p : Pipe) (m0 : Nat) (w : World) (fuel : Nat),
    Term G p m0 → Phi nxt m0 ≤ b → w.Clean → G + b + 1 ≤ fuel →
    CReadT G (clusterRead fuel k cls want acc nxt last p w) nxt m0
  | b, want, acc, nxt, last, p, m0, w, fuel, hp, hb, hw, hf => by
    obtain ⟨f, rfl, hf'⟩ := fuel_succ (F := G + b) (fuel := fuel) (by omega)
    have hsame : CReadT G (.val acc, nxt, last, p, w) nxt m0 := ⟨hw, m0, hp, Or.inr ⟨rfl, rfl⟩⟩
    unfold clusterRead
    split
    · rw [if_neg (not_cancelled hw)]; exact hsame
    · rw [if_neg (not_cancelled hw)]
      cases nxt with
      | none => exact hsame
      | some item =>
        simp only
        split
        · exact hsame
        · rw [Phi_some] at hb
          have := hp.step w hw f (by omega)
          rcases he : emitP f p w with ⟨res, p', w'⟩
          rw [he] at this
          cases res <;> simp only [TRes, CReadT] at this ⊢
          · rename_i v
            obtain ⟨hc, m', hm', ht⟩ := this
            cases b with
            | zero => omega
            | succ b' =>
              have ih := clusterRead_term k cls b' (want.map (· - 1)) (item :: acc) (some v) (some item) p' m' w' f
                ht (by rw [Phi_some]; omega) hc (by omega)
              rcases hr : clusterRead f k cls (want.map (· - 1)) (item :: acc) (some v) (some item) p' w' with
                ⟨res2, nxt2, last2, p2, w2⟩
              rw [hr] at ih
              cases res2 <;> simp only [CReadT] at ih ⊢
              obtain ⟨hc2, m1, ht1, hphi⟩ := ih
              refine ⟨hc2, m1, ht1, Or.inl ?_⟩
              rw [Phi_some]
              rcases hphi with h | ⟨rfl, rfl⟩
              · rw [Phi_some] at h; omega
              · rw [Phi_some]; omega
          · obtain ⟨hc, ht⟩ := this
            cases b with
            | zero => omega
            | succ b' =>
              have ih := clusterRead_term k cls b' (want.map (· - 1)) (item :: acc) none (some item) p' m0 w' f
                ht (by rw [Phi_none]; omega) hc (by omega)
              rcases hr : clusterRead f k cls (want.map (· - 1)) (item :: acc) none (some item) p' w' with
                ⟨res2, nxt2, last2, p2, w2⟩
              rw [hr] at ih
              cases res2 <;> simp only [CReadT] at ih ⊢
              obtain ⟨hc2, m1, ht1, hphi⟩ := ih
              refine ⟨hc2, m1, ht1, Or.inl ?_⟩
              rw [Phi_some]
              rcases hphi with h | ⟨rfl, rfl⟩
              · rw [Phi_none] at h; omega
              · rw [Phi_none]; omega

/-- skip loop: the potential does not grow, and shrinks if the look-ahead item is in the current cluster -/
def CSkipT (G : Nat) (k cls : Int) (r : Res Int × Option V × Option V × Pipe × World) (nxt : Option V)
    (nextCls : Int) (m0 : Nat) : Prop :=
  match r with
  | (.val cls', nxt', _, p', w') => w'.Clean ∧ (∀ it, nxt' = some it → cls' = classify k it) ∧
      ∃ m1, Term G p' m1 ∧ Phi nxt' m1 ≤ Phi nxt m0 ∧ (nxt.isSome = true → nextCls = cls → Phi nxt' m1 < Phi nxt m0)
  | (.eof, _, _, _, _) => False
  | (.fail _, _, _, _, _) => True
  | (.panic _, _, _, _, _) => False
  | (.oof, _, _, _, _) => False

theorem clusterSkipLoop_term {G : Nat} (k cls : Int) : ∀ (b : Nat) (nextCls : Int) (nxt last : Option V)
    (p : Pipe) (m0 : Nat) (w : World) (fuel : Nat),
    Term G p m0 → Phi nxt m0 ≤ b → (∀ it, nxt = some it → nextCls = classify k it) → w.Clean → G + b + 1 ≤ fuel →
    CSkipT G k cls (clusterSkipLoop fuel k cls nextCls nxt last p w) nxt nextCls m0
  | b, nextCls, nxt, last, p, m0, w, fuel, hp, hb, hcl, hw, hf => by
    obtain ⟨f, rfl, hf'⟩ := fuel_succ (F := G + b) (fuel := fuel) (by omega)
    unfold clusterSkipLoop
    cases nxt with
    | none => exact ⟨hw, by simp, m0, hp, Nat.le_refl _, by simp⟩
    | some item =>
      simp only
      by_cases hc : nextCls = cls
      · have hc1 : (nextCls != cls) = false := by simp [hc]
        rw [hc1]
        simp only [Bool.false_eq_true, if_false]
        rw [Phi_some] at hb
        have := hp.step w hw f (by omega)
        rcases he : emitP f p w with ⟨res, p', w'⟩
        rw [he] at this
        cases res with
        | val v =>
          simp only [TRes] at this
          obtain ⟨hcw, m', hm', ht⟩ := this
          simp only
          by_cases hgt : cls > classify k v
          · rw [if_pos hgt]; trivial
          · rw [if_neg hgt]
            cases b with
            | zero => omega
            | succ b' =>
              have ih := clusterSkipLoop_term k cls b' (classify k v) (some v) (some item) p' m' w' f ht
                (by rw [Phi_some]; omega) (by intro it hit; cases hit; rfl) hcw (by omega)
              rcases hr : clusterSkipLoop f k cls (classify k v) (some v) (some item) p' w' with
                ⟨res2, nxt2, last2, p2, w2⟩
              rw [hr] at ih
              cases res2 <;> simp only [CSkipT] at ih ⊢
              obtain ⟨hc2, hcl2, m1, ht1, hle, _⟩ := ih
              rw [Phi_some] at hle
              exact ⟨hc2, hcl2, m1, ht1, by rw [Phi_some]; omega, fun _ _ => by rw [Phi_some]; omega⟩
        | eof =>
          simp only [TRes] at this
          obtain ⟨hcw, ht⟩ := this
          exact ⟨hcw, by simp, m0, ht, by rw [Phi_none, Phi_some]; omega, fun _ _ => by rw [Phi_none, Phi_some]; omega⟩
        | fail e => trivial
        | panic e => exact this.elim
        | oof => exact this.elim
      · have hc1 : (nextCls != cls) = true := by simp [hc]
        rw [hc1]
        simp only [if_true, CSkipT]
        exact ⟨hw, hcl, m0, hp, Nat.le_refl _, fun _ h => absurd h hc⟩

theorem clusterSkip_term {G : Nat} (k cls : Int) (b : Nat) (nxt last : Option V) (p : Pipe) (m0 : Nat) (w : World)
    (fuel : Nat) (hp : Term G p m0) (hb : Phi nxt m0 ≤ b) (hw : w.Clean) (hf : G + b + 2 ≤ fuel) :
    match clusterSkip fuel k cls nxt last p w with
    | (.val cls', nxt', _, p', w') => w'.Clean ∧ (∀ it, nxt' = some it → cls' = classify k it) ∧
        ∃ m1, Term G p' m1 ∧ Phi nxt' m1 ≤ Phi nxt m0 ∧
          ((∃ it, nxt = some it ∧ classify k it = cls) → Phi nxt' m1 < Phi nxt m0)
    | (.fail _, _, _, _, _) => True
    | _ => False := by
  obtain ⟨f, rfl, hf'⟩ := fuel_succ (F := G + b + 1) (fuel := fuel) (by omega)
  unfold clusterSkip
  cases nxt with
  | none => exact ⟨hw, by simp, m0, hp, Nat.le_refl _, by simp⟩
  | some item =>
    simp only
    have := clusterSkipLoop_term k cls b (classify k item) (some item) last p m0 w f hp hb
      (by intro it hit; cases hit; rfl) hw (by omega)
    rcases hr : clusterSkipLoop f k cls (classify k item) (some item) last p w with ⟨res, nxt2, last2, p2, w2⟩
    rw [hr] at this
    cases res <;> simp only [CSkipT] at this ⊢
    obtain ⟨hc2, hcl2, m1, ht1, hle, hlt⟩ := this
    refine ⟨hc2, hcl2, m1, ht1, hle, ?_⟩
    rintro ⟨it, hit, hcls⟩
    cases hit
    exact hlt rfl hcls

/-- states of a cluster operator whose source is bounded -/
def CluR (G F' : Nat) (k : Int) (fac : Fac) (so : Bool) (q : Pipe) (m : Nat) : Prop :=
  ∃ nxt cls last p, q = .cluster k fac nxt cls last so p ∧
    (nxt = none ∨ ∃ item m0, nxt = some item ∧ cls = classify k item ∧ Term G p m0 ∧ m0 + 1 ≤ m ∧ G + m0 + 4 ≤ F')

theorem term_cluster {G : Nat} (k : Int) (fac : Fac) (nxt : Option V) (cls : Int) (last : Option V) (so : Bool)
    {p : Pipe} {m0 : Nat} (hp : Term G p m0) (hcls : ∀ it, nxt = some it → cls = classify k it) :
    Term (G + m0 + 4) (.cluster k fac nxt cls last so p) (m0 + 1) := by
  refine Term.intro (CluR G (G + m0 + 4) k fac so) ?_ ⟨nxt, cls, last, p, rfl, ?_⟩
  · rintro q m ⟨nxt, cls, last, p, rfl, hq⟩ w hw fuel hf
    obtain ⟨f, rfl, hf'⟩ := fuel_succ (F := G + m0 + 3) (fuel := fuel) (by omega)
    rcases hq with rfl | ⟨item, m1, rfl, rfl, ht, hm, hF⟩
    · rw [emitP]
      exact ⟨hw, none, cls, last, p, rfl, Or.inl rfl⟩
    · rw [emitP]
      obtain ⟨w1, hu, hc1⟩ := userCall_clean hw
      rw [hu]
      simp only
      have hread : CReadT G (if fac = Fac.none then (Res.val [], some item, last, p, w1)
          else clusterRead f k (classify k item) (facWant fac) [] (some item) last p w1) (some item) m1 := by
        by_cases hfac : fac = Fac.none
        · rw [if_pos hfac]; exact ⟨hc1, m1, ht, Or.inr ⟨rfl, rfl⟩⟩
        · rw [if_neg hfac]
          exact clusterRead_term k _ (m1 + 1) _ [] (some item) last p m1 w1 f ht (by rw [Phi_some]; exact Nat.le_refl _) hc1 (by omega)
      rcases hr : (if fac = Fac.none then (Res.val [], some item, last, p, w1)
          else clusterRead f k (classify k item) (facWant fac) [] (some item) last p w1) with
        ⟨res, nxt1, last1, p1, w2⟩
      rw [hr] at hread
      cases res <;> simp only [CReadT, TRes] at hread ⊢
      obtain ⟨hc2, m2, ht2, hphi⟩ := hread
      have hb2 : Phi nxt1 m2 ≤ m1 + 1 := by
        rcases hphi with h | ⟨rfl, rfl⟩
        · rw [Phi_some] at h; omega
        · rw [Phi_some]; omega
      have hskip := clusterSkip_term k (classify k item) (m1 + 1) nxt1 last1 p1 m2 w2 f ht2 hb2 hc2 (by omega)
      rcases hsk : clusterSkip f k (classify k item) nxt1 last1 p1 w2 with ⟨res2, nxt2, last2, p2, w3⟩
      rw [hsk] at hskip
      cases res2 <;> simp only at hskip ⊢
      obtain ⟨hc3, hcl3, m3, ht3, hle, hlt⟩ := hskip
      have hdec : Phi nxt2 m3 < m1 + 1 := by
        rcases hphi with h | ⟨rfl, rfl⟩
        · rw [Phi_some] at h; omega
        · have := hlt ⟨item, rfl, rfl⟩
          rw [Phi_some] at this; exact this
      cases nxt2 with
      | none => exact ⟨hc3, 0, by omega, none, _, last2, p2, rfl, Or.inl rfl⟩
      | some it =>
        rw [Phi_some] at hdec
        exact ⟨hc3, m3 + 1, by omega, some it, _, last2, p2, rfl, Or.inr
          ⟨it, m3, rfl, hcl3 it rfl, ht3, Nat.le_refl _, by omega⟩⟩
  · cases nxt with
    | none => exact Or.inl rfl
    | some item => exact Or.inr ⟨item, m0, rfl, hcls item rfl, hp, Nat.le_refl _, Nat.le_refl _⟩

end ShpanVerif.Proofs.PipeC04
