/-
FlatMap model (`Model/PipeDyn.lean`), C03 prefix: a run under ANY fault plan (`wf`) and the run without it (`w`) go in
lockstep — same results, same operator object, same call counter — until the faulty run returns a failure
(the injected one, or a context error after an injected cancellation).  Hence what the faulty run delivered is a
prefix of the fault-free delivery.
-/
import ShpanVerif.Model.PipeDyn

namespace ShpanVerif.Proofs.PipeDyn
open ShpanVerif.Model.Pipe ShpanVerif.Model.PipeDyn

def isFail {α : Type} : Res α → Prop
  | .fail _ => True
  | .panic _ => True
  | _ => False

@[simp, grind =] theorem isFail_val {α : Type} (a : α) : isFail (Res.val a) = False := rfl
@[simp, grind =] theorem isFail_eof {α : Type} : isFail (Res.eof : Res α) = False := rfl
@[simp, grind =] theorem isFail_oof {α : Type} : isFail (Res.oof : Res α) = False := rfl
@[simp, grind =] theorem isFail_fail {α : Type} (e : Root) : isFail (Res.fail e : Res α) = True := rfl
@[simp, grind =] theorem isFail_panic {α : Type} (b : Bool) : isFail (Res.panic b : Res α) = True := rfl

theorem isFail_hitRes {α : Type} {h : Hit} (hn : h ≠ .none) : isFail (hitRes h : Res α) := by
  cases h <;> simp_all [hitRes]
theorem isFail_hitRes_noErr {α : Type} {h : Hit} (hn : h ≠ .none) : isFail (hitRes (noErr h) : Res α) := by
  cases h <;> simp_all [hitRes, noErr]
theorem isFail_castRes {α β : Type} {r : Res α} (h : isFail r) : isFail (castRes r : Res β) := by
  cases r <;> simp_all [castRes]
@[simp] theorem castRes_eof {α β : Type} : (castRes (Res.eof : Res α) : Res β) = .eof := rfl
@[simp] theorem castRes_oof {α β : Type} : (castRes (Res.oof : Res α) : Res β) = .oof := rfl

/-- `w`: the fault-free world; `wf`: the same call position in a world with any fault plan -/
def Sim (w wf : World) : Prop := w.fault = none ∧ w.cancelled = false ∧ wf.calls = w.calls

def CoupleP {α : Type} (x xf : Res α × World) : Prop := isFail xf.1 ∨ (xf.1 = x.1 ∧ Sim x.2 xf.2)
def CoupleT {α σ : Type} (x xf : Res α × σ × World) : Prop :=
  isFail xf.1 ∨ (xf.1 = x.1 ∧ xf.2.1 = x.2.1 ∧ Sim x.2.2 xf.2.2)

theorem call_couple {w wf : World} (h : Sim w wf) : (w.call).1 = .none ∧ Sim (w.call).2 (wf.call).2 := by
  obtain ⟨h1, h2, h3⟩ := h
  unfold World.call Sim
  rw [h1]
  simp only []
  refine ⟨trivial, trivial, h2, ?_⟩
  split
  · split
    · split <;> simp [h3]
    · simp [h3]
  · simp [h3]

theorem userCall_couple {w wf : World} (h : Sim w wf) : (userCall w).1 = .none ∧ Sim (userCall w).2 (userCall wf).2 :=
  call_couple h

theorem emitRes_couple (r : Nat) {w wf : World} (h : Sim w wf) :
    (emitRes r w).1 = .none ∧ Sim (emitRes r w).2 (emitRes r wf).2 := by
  have := call_couple h
  unfold emitRes
  generalize w.call = x at *
  generalize wf.call = y at *
  obtain ⟨a, w1⟩ := x
  obtain ⟨b, w2⟩ := y
  unfold Sim at *
  simp_all

theorem openRes_couple (r : Nat) {w wf : World} (h : Sim w wf) :
    (openRes r w).1 = .val () ∧ Sim (openRes r w).2 (openRes r wf).2 ∧
    ((openRes r wf).1 = .val () ∨ isFail (openRes r wf).1) := by
  have := call_couple h
  unfold openRes
  generalize w.call = x at *
  generalize wf.call = y at *
  obtain ⟨a, w1⟩ := x
  obtain ⟨b, w2⟩ := y
  unfold Sim at *
  cases b <;> simp_all

theorem closeRes_couple (r : Nat) {w wf : World} (h : Sim w wf) : Sim (closeRes r w) (closeRes r wf) := h

theorem applyOps_couple : ∀ (ops : List OOp) (v : V) (w wf : World), Sim w wf →
    CoupleP (applyOps ops v w) (applyOps ops v wf)
  | [], v, w, wf, h => by simp [applyOps, CoupleP, h]
  | .peek :: ops, v, w, wf, h => by
      have hu := userCall_couple h
      simp only [applyOps]
      generalize userCall w = x at *
      generalize userCall wf = y at *
      obtain ⟨a, w1⟩ := x
      obtain ⟨b, w2⟩ := y
      simp only at hu
      obtain ⟨rfl, hs⟩ := hu
      have ih := applyOps_couple ops v w1 w2 hs
      cases b with
      | none => exact ih
      | err => simp [CoupleP, CoupleT, hitRes, noErr]
      | panic b => simp [CoupleP, CoupleT, hitRes, noErr]
  | .map f :: ops, v, w, wf, h => by
      have hu := userCall_couple h
      simp only [applyOps]
      generalize userCall w = x at *
      generalize userCall wf = y at *
      obtain ⟨a, w1⟩ := x
      obtain ⟨b, w2⟩ := y
      simp only at hu
      obtain ⟨rfl, hs⟩ := hu
      have ih := applyOps_couple ops (f.app v) w1 w2 hs
      cases b with
      | none => exact ih
      | err => simp [CoupleP, CoupleT, hitRes, noErr]
      | panic b => simp [CoupleP, CoupleT, hitRes, noErr]
  | .filter p :: ops, v, w, wf, h => by
      have hu := userCall_couple h
      simp only [applyOps]
      generalize userCall w = x at *
      generalize userCall wf = y at *
      obtain ⟨a, w1⟩ := x
      obtain ⟨b, w2⟩ := y
      simp only at hu
      obtain ⟨rfl, hs⟩ := hu
      have ih := applyOps_couple ops v w1 w2 hs
      cases b with
      | none =>
          simp only []
          split
          · exact ih
          · exact Or.inr ⟨rfl, hs⟩
      | err => simp [CoupleP, CoupleT, hitRes, noErr]
      | panic b => simp [CoupleP, CoupleT, hitRes, noErr]

theorem emitRest_couple (r0 : Nat) (ops : List OOp) : ∀ (rest : List Int) (w wf : World), Sim w wf →
    CoupleT (emitRest r0 ops rest w) (emitRest r0 ops rest wf)
  | [], w, wf, h => by
      have he := emitRes_couple r0 h
      simp only [emitRest]
      generalize emitRes r0 w = x at *
      generalize emitRes r0 wf = y at *
      obtain ⟨a, w1⟩ := x
      obtain ⟨b, w2⟩ := y
      simp only at he
      obtain ⟨rfl, hs⟩ := he
      cases b with
      | none => exact Or.inr ⟨rfl, rfl, hs⟩
      | err => simp [CoupleP, CoupleT, hitRes, noErr]
      | panic b => simp [CoupleP, CoupleT, hitRes, noErr]
  | x :: rest, w, wf, h => by
      have he := emitRes_couple r0 h
      simp only [emitRest]
      generalize emitRes r0 w = x1 at *
      generalize emitRes r0 wf = y1 at *
      obtain ⟨a, w1⟩ := x1
      obtain ⟨b, w2⟩ := y1
      simp only at he
      obtain ⟨rfl, hs⟩ := he
      cases b with
      | none =>
          simp only []
          have ha := applyOps_couple ops (.int x) w1 w2 hs
          generalize applyOps ops (.int x) w1 = x2 at *
          generalize applyOps ops (.int x) w2 = y2 at *
          obtain ⟨ra, w3⟩ := x2
          obtain ⟨rb, w4⟩ := y2
          rcases ha with hf | ⟨he1, hs2⟩
          · left
            simp only at hf
            cases rb <;> simp_all [castRes]
          · simp only at he1 hs2
            subst he1
            cases rb with
            | val o =>
                cases o with
                | some v => exact Or.inr ⟨rfl, rfl, hs2⟩
                | none => exact emitRest_couple r0 ops rest w3 w4 hs2
            | eof => exact Or.inr ⟨rfl, rfl, hs2⟩
            | fail e => exact Or.inl (by simp [castRes])
            | panic b => exact Or.inl (by simp [castRes])
            | oof => exact Or.inr ⟨rfl, rfl, hs2⟩
      | err => simp [CoupleP, CoupleT, hitRes, noErr]
      | panic b => simp [CoupleP, CoupleT, hitRes, noErr]

/-! ### inner streams -/

theorem openI_couple (s : InnerS) {w wf : World} (h : Sim w wf) : CoupleT (openI s w) (openI s wf) := by
  cases s with
  | probe r ys rest =>
      have ho := openRes_couple r h
      simp only [openI]
      generalize openRes r w = x at *
      generalize openRes r wf = y at *
      obtain ⟨a, w1⟩ := x
      obtain ⟨b, w2⟩ := y
      simp only at ho
      obtain ⟨rfl, hs, hb⟩ := ho
      rcases hb with rfl | hf
      · exact Or.inr ⟨rfl, rfl, hs⟩
      · cases b <;> simp_all [CoupleT]
  | just ys rest => exact Or.inr ⟨rfl, rfl, h⟩
  | empty => exact Or.inr ⟨rfl, rfl, h⟩
  | error => exact Or.inl (by simp [openI])
  | iter r ys st => exact Or.inr ⟨rfl, rfl, h⟩

theorem iterStep_couple (r : Nat) (ys rest : List V) {w wf : World} (h : Sim w wf) :
    CoupleT (iterStep r ys rest w) (iterStep r ys rest wf) := by
  cases rest with
  | nil => exact Or.inr ⟨rfl, rfl, closeRes_couple r h⟩
  | cons y rest => exact Or.inr ⟨rfl, rfl, h⟩

theorem emitI_couple (s : InnerS) {w wf : World} (h : Sim w wf) : CoupleT (emitI s w) (emitI s wf) := by
  have hcan := h.2.1
  cases s with
  | probe r ys rest =>
      have he := emitRes_couple r h
      simp only [emitI]
      generalize emitRes r w = x at *
      generalize emitRes r wf = y at *
      obtain ⟨a, w1⟩ := x
      obtain ⟨b, w2⟩ := y
      simp only at he
      obtain ⟨rfl, hs⟩ := he
      cases b with
      | none => cases rest <;> exact Or.inr ⟨rfl, rfl, hs⟩
      | err => simp [CoupleT, hitRes]
      | panic b => simp [CoupleT, hitRes]
  | just ys rest =>
      simp only [emitI, hcan, Bool.false_eq_true, if_false]
      by_cases hcf : wf.cancelled = true
      · simp [CoupleT, hcf]
      · simp only [hcf, if_false]
        cases rest <;> exact Or.inr ⟨rfl, rfl, h⟩
  | empty => exact Or.inr ⟨rfl, rfl, h⟩
  | error => exact Or.inl (by simp [emitI])
  | iter r ys st =>
      simp only [emitI, hcan, Bool.false_eq_true, if_false]
      by_cases hcf : wf.cancelled = true
      · simp [CoupleT, hcf]
      · simp only [hcf, if_false]
        cases st with
        | fresh =>
            have ho := openRes_couple r h
            simp only []
            generalize openRes r w = x at *
            generalize openRes r wf = y at *
            obtain ⟨a, w1⟩ := x
            obtain ⟨b, w2⟩ := y
            simp only at ho
            obtain ⟨rfl, hs, hb⟩ := ho
            rcases hb with rfl | hf
            · exact iterStep_couple r ys ys hs
            · cases b <;> simp_all [CoupleT, castRes]
        | running rest => exact iterStep_couple r ys rest h
        | done => exact Or.inr ⟨rfl, rfl, h⟩

theorem closeI_couple (s : InnerS) {w wf : World} (h : Sim w wf) :
    (closeI s wf).1 = (closeI s w).1 ∧ Sim (closeI s w).2 (closeI s wf).2 := by
  cases s with
  | iter r ys st => cases st <;> exact ⟨rfl, h⟩
  | _ => exact ⟨rfl, h⟩

/-! ### the concatenation -/

theorem pullOuter_couple (c : Obj) {w wf : World} (h : Sim w wf) : CoupleT (pullOuter c w) (pullOuter c wf) := by
  have he := emitRest_couple c.r0 c.ops c.rest w wf h
  simp only [pullOuter]
  generalize emitRest c.r0 c.ops c.rest w = x at *
  generalize emitRest c.r0 c.ops c.rest wf = y at *
  obtain ⟨ra, resta, w1⟩ := x
  obtain ⟨rb, restb, w2⟩ := y
  rcases he with hf | ⟨he1, he2, hs⟩
  · left; simp only at hf; cases rb <;> simp_all [castRes]
  · simp only at he1 he2 hs
    subst he1 he2
    cases rb with
    | val v =>
        have hu := userCall_couple hs
        simp only []
        generalize userCall w1 = x2 at *
        generalize userCall w2 = y2 at *
        obtain ⟨a, w3⟩ := x2
        obtain ⟨b, w4⟩ := y2
        simp only at hu
        obtain ⟨rfl, hs2⟩ := hu
        cases b with
        | none => exact Or.inr ⟨rfl, rfl, hs2⟩
        | err => simp [CoupleT, hitRes, noErr]
        | panic b => simp [CoupleT, hitRes, noErr]
    | eof => exact Or.inr ⟨rfl, rfl, hs⟩
    | fail e => simp [CoupleT, castRes]
    | panic b => simp [CoupleT, castRes]
    | oof => exact Or.inr ⟨rfl, rfl, hs⟩

theorem openOuter_couple (c : Obj) {w wf : World} (h : Sim w wf) : CoupleT (openOuter c w) (openOuter c wf) := by
  have ho := openRes_couple c.r0 h
  simp only [openOuter]
  generalize openRes c.r0 w = x at *
  generalize openRes c.r0 wf = y at *
  obtain ⟨a, w1⟩ := x
  obtain ⟨b, w2⟩ := y
  simp only at ho
  obtain ⟨rfl, hs, hb⟩ := ho
  rcases hb with rfl | hf
  · exact Or.inr ⟨rfl, rfl, hs⟩
  · cases b <;> simp_all [CoupleT]

theorem openNext_couple (c : Obj) (i : Inner) {w wf : World} (h : Sim w wf) :
    CoupleT (openNext c i w) (openNext c i wf) := by
  have ho := openI_couple i.init h
  simp only [openNext]
  generalize openI i.init w = x at *
  generalize openI i.init wf = y at *
  obtain ⟨ra, sa, w1⟩ := x
  obtain ⟨rb, sb, w2⟩ := y
  rcases ho with hf | ⟨he1, he2, hs⟩
  · left; simp only at hf; cases rb <;> simp_all
  · simp only at he1 he2 hs
    subst he1 he2
    cases rb with
    | val u => exact Or.inr ⟨rfl, rfl, hs⟩
    | eof => exact Or.inr ⟨rfl, rfl, hs⟩
    | fail e => simp [CoupleT]
    | panic b => simp [CoupleT]
    | oof => exact Or.inr ⟨rfl, rfl, hs⟩

theorem cpOpen_couple (c : Obj) {w wf : World} (h : Sim w wf) : CoupleT (cpOpen c w) (cpOpen c wf) := by
  have ho := openOuter_couple { c with cur := none } h
  simp only [cpOpen]
  generalize openOuter { c with cur := none } w = x at *
  generalize openOuter { c with cur := none } wf = y at *
  obtain ⟨ra, ca, w1⟩ := x
  obtain ⟨rb, cb, w2⟩ := y
  rcases ho with hf | ⟨he1, he2, hs⟩
  · left; simp only at hf; cases rb <;> simp_all
  · simp only at he1 he2 hs
    subst he1 he2
    cases rb with
    | val u =>
        simp only []
        have hp := pullOuter_couple cb hs
        generalize pullOuter cb w1 = x2 at *
        generalize pullOuter cb w2 = y2 at *
        obtain ⟨ra2, ca2, w3⟩ := x2
        obtain ⟨rb2, cb2, w4⟩ := y2
        rcases hp with hf | ⟨he1, he2, hs2⟩
        · left; simp only at hf; cases rb2 <;> simp_all [castRes]
        · simp only at he1 he2 hs2
          subst he1 he2
          cases rb2 with
          | val i => exact openNext_couple cb2 i hs2
          | eof => exact Or.inr ⟨rfl, rfl, hs2⟩
          | fail e => simp [CoupleT, castRes]
          | panic b => simp [CoupleT, castRes]
          | oof => exact Or.inr ⟨rfl, rfl, hs2⟩
    | eof => exact Or.inr ⟨rfl, rfl, hs⟩
    | fail e => simp [CoupleT]
    | panic b => simp [CoupleT]
    | oof => exact Or.inr ⟨rfl, rfl, hs⟩

theorem closeFunc_couple (c : Obj) {w wf : World} (h : Sim w wf) :
    (closeFunc c wf).1 = (closeFunc c w).1 ∧ Sim (closeFunc c w).2 (closeFunc c wf).2 := by
  simp only [closeFunc]
  cases c.curOpen <;> cases hc : c.cur <;> simp only [] <;> split <;>
    first
      | exact ⟨rfl, h⟩
      | exact ⟨rfl, closeRes_couple _ h⟩
      | (rename_i s _; have := closeI_couple s h; exact ⟨by rw [this.1], this.2⟩)
      | (rename_i s _; have := closeI_couple s h; exact ⟨by rw [this.1], closeRes_couple _ this.2⟩)

theorem openC_couple (c : Obj) {w wf : World} (h : Sim w wf) : CoupleT (openC c w) (openC c wf) := by
  have ho := cpOpen_couple c h
  simp only [openC]
  generalize cpOpen c w = x at *
  generalize cpOpen c wf = y at *
  obtain ⟨ra, ca, w1⟩ := x
  obtain ⟨rb, cb, w2⟩ := y
  rcases ho with hf | ⟨he1, he2, hs⟩
  · left; simp only at hf; cases rb <;> simp_all
  · simp only at he1 he2 hs
    subst he1 he2
    have hcf := closeFunc_couple cb hs
    cases rb with
    | val u => exact Or.inr ⟨rfl, rfl, hs⟩
    | eof => exact Or.inr ⟨rfl, hcf.1, hcf.2⟩
    | fail e => simp [CoupleT]
    | panic b => simp [CoupleT]
    | oof => exact Or.inr ⟨rfl, hcf.1, hcf.2⟩

theorem emitC_couple : ∀ (fuel : Nat) (c : Obj) (w wf : World), Sim w wf → CoupleT (emitC fuel c w) (emitC fuel c wf) := by
  intro fuel
  induction fuel with
  | zero => intro c w wf h; exact Or.inr ⟨rfl, rfl, h⟩
  | succ n ih =>
    intro c w wf h
    have hcan := h.2.1
    simp only [emitC, hcan, Bool.false_eq_true, if_false]
    by_cases hcf : wf.cancelled = true
    · simp [CoupleT, hcf]
    · simp only [hcf, if_false]
      cases hcur : c.cur with
      | none => exact Or.inr ⟨rfl, rfl, h⟩
      | some s =>
        simp only []
        have he := emitI_couple s h
        generalize emitI s w = x at *
        generalize emitI s wf = y at *
        obtain ⟨ra, sa, w1⟩ := x
        obtain ⟨rb, sb, w2⟩ := y
        rcases he with hf | ⟨he1, he2, hs⟩
        · left; simp only at hf; cases rb <;> simp_all
        · simp only at he1 he2 hs
          subst he1 he2
          cases rb with
          | val v => exact Or.inr ⟨rfl, rfl, hs⟩
          | fail e => simp [CoupleT]
          | panic b => simp [CoupleT]
          | oof => exact Or.inr ⟨rfl, rfl, hs⟩
          | eof =>
            simp only []
            cases hco : c.curOpen with
            | false => simp [CoupleT]
            | true =>
              simp only [if_true]
              have hcl := closeI_couple sb hs
              generalize closeI sb w1 = x2 at *
              generalize closeI sb w2 = y2 at *
              obtain ⟨sa2, w3⟩ := x2
              obtain ⟨sb2, w4⟩ := y2
              simp only at hcl ⊢
              obtain ⟨-, hs2⟩ := hcl
              have hcan3 := hs2.2.1
              simp only [hcan3, Bool.false_eq_true, if_false]
              by_cases hcf4 : w4.cancelled = true
              · simp [CoupleT, hcf4]
              · simp only [hcf4, if_false]
                have hp := pullOuter_couple { c with cur := none, curOpen := false } hs2
                generalize pullOuter { c with cur := none, curOpen := false } w3 = x3 at *
                generalize pullOuter { c with cur := none, curOpen := false } w4 = y3 at *
                obtain ⟨ra3, ca3, w5⟩ := x3
                obtain ⟨rb3, cb3, w6⟩ := y3
                rcases hp with hf | ⟨he1, he2, hs3⟩
                · left; simp only at hf; cases rb3 <;> simp_all [castRes]
                · simp only at he1 he2 hs3
                  subst he1 he2
                  cases rb3 with
                  | val i =>
                      simp only []
                      have hn := openNext_couple cb3 i hs3
                      generalize openNext cb3 i w5 = x4 at *
                      generalize openNext cb3 i w6 = y4 at *
                      obtain ⟨ra4, ca4, w7⟩ := x4
                      obtain ⟨rb4, cb4, w8⟩ := y4
                      rcases hn with hf | ⟨he1, he2, hs4⟩
                      · left; simp only at hf; cases rb4 <;> simp_all [castRes]
                      · simp only at he1 he2 hs4
                        subst he1 he2
                        cases rb4 with
                        | val u => exact ih cb4 w7 w8 hs4
                        | eof => exact Or.inr ⟨rfl, rfl, hs4⟩
                        | fail e => simp [CoupleT, castRes]
                        | panic b => simp [CoupleT, castRes]
                        | oof => exact Or.inr ⟨rfl, rfl, hs4⟩
                  | eof => exact Or.inr ⟨rfl, rfl, hs3⟩
                  | fail e => simp [CoupleT, castRes]
                  | panic b => simp [CoupleT, castRes]
                  | oof => exact Or.inr ⟨rfl, rfl, hs3⟩

theorem emitT_couple (fuel : Nat) (lim : Option Int) (consumed : Int) (c : Obj) {w wf : World} (h : Sim w wf) :
    CoupleT (emitT fuel lim consumed c w) (emitT fuel lim consumed c wf) := by
  unfold emitT
  cases lim with
  | none => exact emitC_couple fuel c w wf h
  | some n =>
    simp only []
    split
    · exact Or.inr ⟨rfl, rfl, h⟩
    · exact emitC_couple fuel c w wf h

/-- the pull loop only ever appends to what it has delivered -/
theorem pullLoop_mono : ∀ (fuel : Nat) (kc : Consumer) (lim : Option Int) (consumed : Int) (c : Obj) (acc : List V) (w : World),
    acc.reverse <+: (Model.PipeDyn.pullLoop fuel kc lim consumed c acc w).2.1.reverse := by
  intro fuel
  induction fuel with
  | zero => intro kc lim consumed c acc w; exact List.prefix_refl _
  | succ n ih =>
    intro kc lim consumed c acc w
    simp only [Model.PipeDyn.pullLoop]
    have hstep : ∀ v, acc.reverse <+: (v :: acc).reverse := by intro v; simp
    split
    · exact List.prefix_refl _
    · generalize emitT n lim consumed c w = x
      obtain ⟨res, c1, w1⟩ := x
      cases res with
      | val v =>
          cases kc with
          | collect => exact (hstep v).trans (ih .collect lim (consumed + 1) c1 (v :: acc) w1)
          | user =>
              simp only []
              generalize userCall w1 = y
              obtain ⟨hit, w2⟩ := y
              cases hit with
              | none => exact (hstep v).trans (ih .user lim (consumed + 1) c1 (v :: acc) w2)
              | err => exact List.prefix_refl _
              | panic b => exact List.prefix_refl _
      | eof => exact List.prefix_refl _
      | fail e => exact List.prefix_refl _
      | panic b => exact List.prefix_refl _
      | oof => exact List.prefix_refl _

theorem pullLoop_couple : ∀ (fuel : Nat) (kc : Consumer) (lim : Option Int) (consumed : Int) (c : Obj) (acc : List V)
    (w wf : World), Sim w wf →
    (Model.PipeDyn.pullLoop fuel kc lim consumed c acc w).1 = .oof ∨
    (Model.PipeDyn.pullLoop fuel kc lim consumed c acc wf).2.1.reverse <+:
      (Model.PipeDyn.pullLoop fuel kc lim consumed c acc w).2.1.reverse := by
  intro fuel
  induction fuel with
  | zero => intro kc lim consumed c acc w wf h; left; rfl
  | succ n ih =>
    intro kc lim consumed c acc w wf h
    have hmono := pullLoop_mono (n+1) kc lim consumed c acc w
    have hcan := h.2.1
    simp only [Model.PipeDyn.pullLoop, hcan, Bool.false_eq_true, if_false] at hmono ⊢
    by_cases hcf : wf.cancelled = true
    · right; simp only [hcf, if_true]; exact hmono
    · simp only [hcf, if_false]
      have he := emitT_couple n lim consumed c h
      generalize emitT n lim consumed c w = x at *
      generalize emitT n lim consumed c wf = y at *
      obtain ⟨ra, ca, w1⟩ := x
      obtain ⟨rb, cb, w2⟩ := y
      rcases he with hf | ⟨he1, he2, hs⟩
      · right; simp only at hf
        cases rb with
        | fail e => exact hmono
        | panic b => exact hmono
        | val v => simp at hf
        | eof => simp at hf
        | oof => simp at hf
      · simp only at he1 he2 hs
        subst he1 he2
        cases rb with
        | val v =>
            cases kc with
            | collect => exact ih .collect lim (consumed + 1) cb (v :: acc) w1 w2 hs
            | user =>
                have hu := userCall_couple hs
                simp only [] at hmono ⊢
                generalize userCall w1 = x2 at *
                generalize userCall w2 = y2 at *
                obtain ⟨a, w3⟩ := x2
                obtain ⟨b, w4⟩ := y2
                simp only at hu
                obtain ⟨rfl, hs2⟩ := hu
                cases b with
                | none => exact ih .user lim (consumed + 1) cb (v :: acc) w3 w4 hs2
                | err => right; exact hmono
                | panic b => right; exact hmono
        | eof => right; exact List.prefix_refl _
        | fail e => right; exact List.prefix_refl _
        | panic b => right; exact List.prefix_refl _
        | oof => left; rfl

/-- **prefix**: whatever the fault plan, what the terminal delivered before it ended is a prefix of what the same
    materialisation delivers without the fault -/
theorem consume_prefix (fuel : Nat) (kc : Consumer) (lim : Option Int) (c : Obj) (w : World) (plan : Option (Nat × FaultKind))
    (hf : w.fault = none) (hcan : w.cancelled = false) :
    (Model.PipeDyn.consume fuel kc lim c w).1 = .oof ∨
    (Model.PipeDyn.consume fuel kc lim c { w with fault := plan }).1.delivered <+:
      (Model.PipeDyn.consume fuel kc lim c w).1.delivered := by
  have h : Sim w { w with fault := plan } := ⟨hf, hcan, rfl⟩
  simp only [Model.PipeDyn.consume]
  split
  · right; simp only [hcan]; exact List.prefix_refl _
  · have ho := openC_couple c h
    generalize openC c w = x at *
    generalize openC c { w with fault := plan } = y at *
    obtain ⟨ra, ca, w1⟩ := x
    obtain ⟨rb, cb, w2⟩ := y
    rcases ho with hf' | ⟨he1, he2, hs⟩
    · right; simp only at hf'
      cases rb with
      | fail e => simp [Outcome.delivered]
      | panic b => simp [Outcome.delivered]
      | val v => simp at hf'
      | eof => simp at hf'
      | oof => simp at hf'
    · simp only at he1 he2 hs
      subst he1 he2
      cases rb with
      | val u =>
          simp only []
          have hp := pullLoop_couple fuel kc lim 1 cb [] w1 w2 hs
          generalize Model.PipeDyn.pullLoop fuel kc lim 1 cb [] w1 = x2 at *
          generalize Model.PipeDyn.pullLoop fuel kc lim 1 cb [] w2 = y2 at *
          obtain ⟨ra2, acca, ca2, w3⟩ := x2
          obtain ⟨rb2, accb, cb2, w4⟩ := y2
          simp only at hp
          rcases hp with rfl | hpre
          · left; rfl
          · cases ra2 with
            | oof => left; rfl
            | val u => right; cases rb2 <;> simp [outcomeOf, Outcome.delivered, hpre]
            | eof => right; cases rb2 <;> simp [outcomeOf, Outcome.delivered, hpre]
            | fail e => right; cases rb2 <;> simp [outcomeOf, Outcome.delivered, hpre]
            | panic b => right; cases rb2 <;> simp [outcomeOf, Outcome.delivered, hpre]
      | eof => left; rfl
      | oof => left; rfl
      | fail e => right; simp [Outcome.delivered]
      | panic b => right; simp [Outcome.delivered]

/-! ### termination in every world: a run under any fault plan ends no later than the fault-free run -/

theorem pullLoop_couple_res : ∀ (fuel : Nat) (kc : Consumer) (lim : Option Int) (consumed : Int) (c : Obj) (acc : List V)
    (w wf : World), Sim w wf →
    isFail (Model.PipeDyn.pullLoop fuel kc lim consumed c acc wf).1 ∨
    (Model.PipeDyn.pullLoop fuel kc lim consumed c acc wf).1 = (Model.PipeDyn.pullLoop fuel kc lim consumed c acc w).1 := by
  intro fuel
  induction fuel with
  | zero => intro kc lim consumed c acc w wf h; right; rfl
  | succ n ih =>
    intro kc lim consumed c acc w wf h
    have hcan := h.2.1
    simp only [Model.PipeDyn.pullLoop, hcan, Bool.false_eq_true, if_false]
    by_cases hcf : wf.cancelled = true
    · left; simp [hcf]
    · simp only [hcf, if_false]
      have he := emitT_couple n lim consumed c h
      generalize emitT n lim consumed c w = x at *
      generalize emitT n lim consumed c wf = y at *
      obtain ⟨ra, ca, w1⟩ := x
      obtain ⟨rb, cb, w2⟩ := y
      rcases he with hf | ⟨he1, he2, hs⟩
      · left; simp only at hf
        cases rb <;> simp_all [castRes]
      · simp only at he1 he2 hs
        subst he1 he2
        cases rb with
        | val v =>
            cases kc with
            | collect => exact ih .collect lim (consumed + 1) cb (v :: acc) w1 w2 hs
            | user =>
                have hu := userCall_couple hs
                simp only []
                generalize userCall w1 = x2 at *
                generalize userCall w2 = y2 at *
                obtain ⟨a, w3⟩ := x2
                obtain ⟨b, w4⟩ := y2
                simp only at hu
                obtain ⟨rfl, hs2⟩ := hu
                cases b with
                | none => exact ih .user lim (consumed + 1) cb (v :: acc) w3 w4 hs2
                | err => left; simp [hitRes]
                | panic b => left; simp [hitRes]
        | eof => right; rfl
        | fail e => right; rfl
        | panic b => right; rfl
        | oof => right; rfl

/-- if the run without the fault plan (and without the cancellation) does not run out of fuel, neither does the run with it -/
theorem consume_no_oof (fuel : Nat) (kc : Consumer) (lim : Option Int) (c : Obj) (w wf : World) (h : Sim w wf)
    (hw : (Model.PipeDyn.consume fuel kc lim c w).1 ≠ .oof) : (Model.PipeDyn.consume fuel kc lim c wf).1 ≠ .oof := by
  simp only [Model.PipeDyn.consume] at hw ⊢
  split
  · split <;> simp
  · rename_i hoff
    simp only [hoff] at hw
    have ho := openC_couple c h
    generalize openC c w = x at *
    generalize openC c wf = y at *
    obtain ⟨ra, ca, w1⟩ := x
    obtain ⟨rb, cb, w2⟩ := y
    rcases ho with hf' | ⟨he1, he2, hs⟩
    · simp only at hf'
      cases rb <;> simp_all
    · simp only at he1 he2 hs
      subst he1 he2
      cases rb with
      | val u =>
          simp only [] at hw ⊢
          have hp := pullLoop_couple_res fuel kc lim 1 cb [] w1 w2 hs
          generalize Model.PipeDyn.pullLoop fuel kc lim 1 cb [] w1 = x2 at *
          generalize Model.PipeDyn.pullLoop fuel kc lim 1 cb [] w2 = y2 at *
          obtain ⟨ra2, acca, ca2, w3⟩ := x2
          obtain ⟨rb2, accb, cb2, w4⟩ := y2
          simp only at hp
          rcases hp with hf | rfl
          · cases rb2 <;> simp_all [outcomeOf]
          · cases rb2 <;> simp_all [outcomeOf]
      | eof => simp at hw
      | oof => simp at hw
      | fail e => simp
      | panic b => simp

end ShpanVerif.Proofs.PipeDyn
