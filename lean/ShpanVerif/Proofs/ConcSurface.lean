/-
"Where is the error item" invariants of the concurrent map and the concurrent consume transition systems
(`Model/ConcMap.lean`, `Model/ConcConsume.lean`), over ALL labels: after a failure was injected (source Emit error,
mapper / callback error) the `Result{Err}` item is held by the producer, sits in a channel, is held by a worker, was
received by the consumer — or it was dropped at a `select` whose other branch is a cancelled context, and then the
terminal's result is not `nil` either.  Used by `Props/C03Async.lean`.
-/
import ShpanVerif.Proofs.ConcMapInv
import ShpanVerif.Proofs.ConcConsumeInv

namespace ShpanVerif.Proofs.ConcSurface
open ShpanVerif.Model.Conc
open ShpanVerif.Model

/-! ### concurrent map -/
section concmap
open ShpanVerif.Model.ConcMap ShpanVerif.Proofs.ConcMap

theorem map_err_mem_erase {l : List ConcMap.Item} {it : ConcMap.Item} (h : ConcMap.Item.err ∈ l) :
    ConcMap.Item.err ∈ l.erase it ∨ it = .err := by
  by_cases he : it = .err
  · exact Or.inr he
  · exact Or.inl ((List.mem_erase_of_ne (fun h' => he h'.symm)).mpr h)

/-- Location of the error item while the terminal has not decided its result and the caller ctx is live; and the
    clean-`nil` state. -/
structure MSurf (cfg : ConcMap.Cfg) (s : ConcMap.St) : Prop where
  /-- a failure was injected, no result yet, ctx live ⇒ the error item is on its way to the consumer -/
  loc : s.faulted = true → s.res = none → s.ctx0 = false →
    (s.prod = .have .err ∨ ConcMap.Item.err ∈ s.srcChan ∨ ConcMap.Item.err ∈ s.wHold ∨ ConcMap.Item.err ∈ s.tgtChan)
  /-- no result yet, ctx live ⇒ a worker exits only when srcChan is closed and drained (nothing is left behind) -/
  exitc : s.res = none → s.ctx0 = false → 0 < s.wExit → s.srcChan = []
  /-- `nil` without an early stop ⇒ no failure was injected, and the stage was drained (so none can be any more) -/
  ok_clean : s.res = some .ok → s.stopped = false → s.faulted = false ∧ s.drained = true

theorem msurf_init (cfg : ConcMap.Cfg) : MSurf cfg (ConcMap.init cfg) := by
  constructor <;> simp [ConcMap.init]

set_option maxHeartbeats 8000000 in
theorem msurf_step {cfg : ConcMap.Cfg} {s s' : ConcMap.St} {l : ConcMap.Label} (hc : 0 < cfg.c)
    (hfix : cfg.fix24 = true) (hb : ConcMap.Basic cfg s) (h : MSurf cfg s) (hs : ConcMap.step cfg s l = some s') :
    MSurf cfg s' := by
  obtain ⟨h1, h2, h3, h4, h5, h6, h7, h8, h9, h10, h11, h12, h13, h14, h15, h16, h17, h18, h19, h20, h21, h22⟩ := hb
  obtain ⟨a1, a2, a3⟩ := h
  cases l <;> simp only [ConcMap.step] at hs <;> (repeat' split at hs) <;> (try (simp at hs)) <;> (try (subst hs)) <;>
    (constructor <;> (try (simp_all [St.ctx1, St.pctx])) <;>
      (try grind [List.length_pos_of_mem, map_err_mem_erase, List.mem_of_mem_erase]))

theorem msurf {cfg : ConcMap.Cfg} {s : ConcMap.St} (hc : 0 < cfg.c) (hfix : cfg.fix24 = true)
    (hr : Reachable (ConcMap.sys cfg) s) : MSurf cfg s := by
  have : ConcMap.Basic cfg s ∧ MSurf cfg s := by
    refine invariant (sys := ConcMap.sys cfg) (P := fun s => ConcMap.Basic cfg s ∧ MSurf cfg s) ?_ ?_ s hr
    · exact ⟨ConcMap.basic_init cfg, msurf_init cfg⟩
    · intro s l s' h hs
      exact ⟨ConcMap.basic_step h.1 hs, msurf_step hc hfix h.1 h.2 hs⟩
  exact this.2

end concmap

/-! ### concurrent consume -/
section consume
open ShpanVerif.Model.ConcConsume ShpanVerif.Proofs.ConcConsume

structure CSurf (cfg : ConcConsume.Cfg) (s : ConcConsume.St) : Prop where
  /-- a failure was injected, no result yet, no error recorded, ctx live ⇒ the error item is on its way to a worker -/
  loc : s.faulted = true → s.res = none → s.firstErr = false → s.ctx0 = false →
    (s.prod = .have .err ∨ ConcConsume.Item.err ∈ s.ch)
  /-- no error recorded ⇒ a worker exits only when itemChan is closed and drained -/
  exitc : 0 < s.wExit → s.firstErr = false → s.ch = [] ∧ s.chClosed = true
  /-- `nil` ⇒ no failure was injected -/
  ok_clean : s.res = some .ok → s.faulted = false

theorem csurf_init (cfg : ConcConsume.Cfg) : CSurf cfg (ConcConsume.init cfg) := by
  constructor <;> simp [ConcConsume.init]

set_option maxHeartbeats 8000000 in
theorem csurf_step {cfg : ConcConsume.Cfg} {s s' : ConcConsume.St} {l : ConcConsume.Label} (hc : 0 < cfg.c)
    (hb : ConcConsume.Basic cfg s) (h : CSurf cfg s) (hs : ConcConsume.step cfg s l = some s') : CSurf cfg s' := by
  obtain ⟨h1, h2, h3, h4, h5, h6, h7, h8, h9, h10, h11, h12, h13, h14, h15⟩ := hb
  obtain ⟨a1, a2, a3⟩ := h
  cases l <;> simp only [ConcConsume.step] at hs <;> (repeat' split at hs) <;> (try (simp at hs)) <;>
    (try (subst hs)) <;>
    (constructor <;> (try (simp_all [St.wctx])) <;> (try grind [List.length_pos_of_mem]))

theorem csurf {cfg : ConcConsume.Cfg} {s : ConcConsume.St} (hc : 0 < cfg.c) (hr : Reachable (ConcConsume.sys cfg) s) :
    CSurf cfg s := by
  have : ConcConsume.Basic cfg s ∧ CSurf cfg s := by
    refine invariant (sys := ConcConsume.sys cfg) (P := fun s => ConcConsume.Basic cfg s ∧ CSurf cfg s) ?_ ?_ s hr
    · exact ⟨ConcConsume.basic_init cfg, csurf_init cfg⟩
    · intro s l s' h hs
      exact ⟨ConcConsume.basic_step h.1 hs, csurf_step hc h.1 h.2 hs⟩
  exact this.2

end consume

end ShpanVerif.Proofs.ConcSurface
