/-
Join lifecycle model (`Model/JoinLife.lean`) against the C09 model (`Model/Join.lean`), list level, LEFT join: over plain
lists the program `leftJoin2` (LeftJoinSortedStreams written as a tree of its effects) does, call by call, what
`Join.emitLeftJoin` does — same rows, same captured variables, same read positions, same errors — for ALL inputs, sorted or
not, and from ALL values of the captured variables.
-/
import ShpanVerif.Proofs.JoinLifeTie

namespace ShpanVerif.Proofs.JoinLife
open ShpanVerif.Model.JoinLife
open ShpanVerif.Model.Join (JErr)

variable (kf : Int → Int)

/-- left_join_stream.go:88-146 in the C09 model: what `Join.emitLeftJoin` does after its first-element block (`s2`) -/
def leftTail (x lk : Int) (s2 : Model.Join.J2 Int Int) :
    Model.Join.Step (Model.Join.J2 Int Int) (Int × Option Int) :=
  if s2.rightStreamIsDone then .row (x, none) s2
  else
    match Model.Join.advRight kf lk s2.lastRightKey s2.lastRightValue s2.right with
    | .eof lrk lrv =>
      .row (x, none) { s2 with rightStreamIsDone := true, lastRightKey := lrk, lastRightValue := lrv, right := [] }
    | .unsorted => .err .rightUnsorted
    | .stop lrk lrv r =>
      if lk == lrk then .row (x, some lrv) { s2 with lastRightKey := lrk, lastRightValue := lrv, right := r }
      else .row (x, none) { s2 with lastRightKey := lrk, lastRightValue := lrv, right := r }

/-- `Join.emitLeftJoin`, its `let`s spelled out -/
theorem emitLeftJoin_cons (s : Model.Join.J2 Int Int) (x : Int) (l : List Int) (h : s.left = x :: l) :
    Model.Join.emitLeftJoin kf kf s =
      if s.firstElement then
        match s.right with
        | [] => leftTail kf x (kf x) { s with firstElement := false, rightStreamIsDone := true, lastLeftKey := kf x, left := l }
        | y :: r => leftTail kf x (kf x) { s with firstElement := false, lastRightValue := y, lastRightKey := kf y,
                                                   right := r, lastLeftKey := kf x, left := l }
      else if kf x < s.lastLeftKey then .err .leftUnsorted
      else leftTail kf x (kf x) { s with lastLeftKey := kf x, left := l } := by
  obtain ⟨fe, rd, llk, lrk, lrv, left, right⟩ := s
  simp only at h
  subst h
  cases fe
  · by_cases hlt : kf x < llk
    · simp [Model.Join.emitLeftJoin, hlt]
    · simp only [Model.Join.emitLeftJoin, hlt, leftTail, Bool.false_eq_true, if_false]
      cases rd
      · simp only [Bool.false_eq_true, if_false]
        generalize Model.Join.advRight kf (kf x) lrk lrv right = a
        cases a <;> rfl
      · rfl
  · cases right with
    | nil => simp only [Model.Join.emitLeftJoin, leftTail, if_true]
    | cons y r =>
      simp only [Model.Join.emitLeftJoin, leftTail, if_true]
      cases rd
      · simp only [Bool.false_eq_true, if_false]
        generalize Model.Join.advRight kf (kf x) (kf y) y r = a
        cases a <;> rfl
      · rfl

/-- one call of `leftJoin2` over plain lists against one call of `Join.emitLeftJoin`; `r` = what the right input had left -/
def SimL (r : List Int) (x : LRes J2) : Model.Join.Step (Model.Join.J2 Int Int) (Int × Option Int) → Prop
  | .eof => ∃ s ls, x = .eof s ls
  | .err e => e ≠ .fuel ∧ ∃ s ls, x = .err e s ls
  | .row v st => ∃ s l' r', x = .row [some v.1, v.2] s [l', r'] ∧ toJ2 s l' r' = st ∧ r'.length ≤ r.length

theorem leftFin_runL (F : Nat) (lv : Int) (s : J2) (l r : List Int) (hF : r.length < F) :
    SimL r (runL (leftFin kf F lv s) [l, r]) (leftTail kf lv s.lastLeftKey (toJ2 s l r)) := by
  unfold leftFin leftTail
  by_cases hrd : s.rightDone = true
  · simp only [hrd, if_true, toJ2, runL]
    exact ⟨_, _, _, rfl, by simp [toJ2, hrd], Nat.le_refl _⟩
  · have hrd : s.rightDone = false := by simpa using hrd
    simp only [hrd, toJ2, Bool.false_eq_true, if_false]
    have ha := advR_runL kf (fun s => Prog.ret [some lv, none] { s with rightDone := true })
      (fun s => if s.lastLeftKey == s.lastRightKey then Prog.ret [some lv, some s.lastRightValue] s
                else Prog.ret [some lv, none] s) s.lastLeftKey r F s l hF
    generalize Model.Join.advRight kf s.lastLeftKey s.lastRightKey s.lastRightValue r = a at ha
    cases a with
    | eof lrk lrv =>
      simp only [AdvSpec, runL] at ha
      rw [ha]
      exact ⟨_, _, _, rfl, by simp [toJ2], by simp⟩
    | unsorted => obtain ⟨s', ls, h⟩ := ha; rw [h]; exact ⟨by decide, _, _, rfl⟩
    | stop lrk lrv r' =>
      obtain ⟨hl, h⟩ := ha
      rw [h]
      simp only []
      split
      · simp only [runL]
        exact ⟨_, _, _, rfl, by simp [toJ2, hrd], hl⟩
      · simp only [runL]
        exact ⟨_, _, _, rfl, by simp [toJ2, hrd], hl⟩

/-- **`leftJoin2` over plain lists = `Join.emitLeftJoin`**, one call, from any values of the captured variables -/
theorem leftJoin2_emitLeftJoin (F : Nat) (s : J2) (l r : List Int) (hr : r.length < F) :
    SimL r (runL (leftJoin2 kf F s) [l, r]) (Model.Join.emitLeftJoin kf kf (toJ2 s l r)) := by
  cases l with
  | nil =>
    simp only [leftJoin2, runL, List.getElem?_cons_zero, Model.Join.emitLeftJoin, toJ2]
    exact ⟨_, _, rfl⟩
  | cons x l' =>
    rw [emitLeftJoin_cons kf (toJ2 s (x :: l') r) x l' rfl]
    simp only [leftJoin2, runL, List.getElem?_cons_zero, List.set_cons_zero, toJ2]
    by_cases hfe : s.firstElement = true
    · simp only [hfe, if_true]
      cases r with
      | nil =>
        simp only [runL, List.getElem?_cons_succ, List.getElem?_cons_zero]
        have := leftFin_runL kf F x { s with firstElement := false, rightDone := true, lastLeftKey := kf x } l' [] hr
        simpa only [toJ2] using this
      | cons y r' =>
        simp only [runL, List.getElem?_cons_succ, List.getElem?_cons_zero, List.set_cons_succ, List.set_cons_zero]
        have := leftFin_runL kf F x
          { s with firstElement := false, lastRightValue := y, lastRightKey := kf y, lastLeftKey := kf x } l' r'
          (by simp at hr; omega)
        simp only [toJ2] at this
        generalize leftTail kf x (kf x) _ = b at this ⊢
        cases b with
        | eof => exact this
        | err e => exact this
        | row v st =>
          obtain ⟨s2, l2, r2, h1, h2, h3⟩ := this
          exact ⟨s2, l2, r2, h1, h2, by simp; omega⟩
    · have hfe : s.firstElement = false := by simpa using hfe
      simp only [hfe, Bool.false_eq_true, if_false]
      by_cases hlt : kf x < s.lastLeftKey
      · simp only [hlt, if_true]
        exact ⟨by decide, _, _, rfl⟩
      · simp only [hlt, if_false]
        have := leftFin_runL kf F x { s with lastLeftKey := kf x } l' r hr
        simpa only [toJ2, hfe] using this

/-- a run of the C09 model of the left join as a run over plain lists -/
def mapOutL2 (o : Model.Join.Out (Int × Option Int)) : List Row × LEnd :=
  (o.1.map (fun p => [some p.1, p.2]),
   match o.2 with
   | none => .eof
   | some .fuel => .oof
   | some e => .err e)

/-- what the terminal returns for a run of the C09 model of the left join -/
def outcomeLJ2 (o : Model.Join.Out (Int × Option Int)) : JOutcome := outcomeL (mapOutL2 o)

theorem collectL_leftJoin2_aux (F : Nat) : ∀ (n : Nat) (s : J2) (l r : List Int), r.length < F →
    collectL (leftJoin2 kf F) n s [l, r] =
      mapOutL2 (Model.Join.collect (Model.Join.emitLeftJoin kf kf) n (toJ2 s l r)) := by
  intro n
  induction n with
  | zero => intro s l r _; rfl
  | succ m ih =>
    intro s l r hF
    have h := leftJoin2_emitLeftJoin kf F s l r hF
    simp only [collectL, Model.Join.collect]
    generalize Model.Join.emitLeftJoin kf kf (toJ2 s l r) = b at h
    cases b with
    | eof => obtain ⟨s', ls, h⟩ := h; rw [h]; rfl
    | err e =>
      obtain ⟨he, s', ls, h⟩ := h
      rw [h]
      cases e <;> first | rfl | exact absurd rfl he
    | row v st =>
      obtain ⟨s2, l2, r2, h1, h2, h3⟩ := h
      rw [h1]
      simp only []
      rw [ih s2 l2 r2 (by omega), h2]
      rfl

theorem collectL_leftJoin2 (F n : Nat) (l r : List Int) (hF : r.length < F) :
    outcomeL (collectL (leftJoin2 kf F) n ({} : J2) ([(0, l), (1, r)].map (·.2))) =
      outcomeLJ2 (Model.Join.collect (Model.Join.emitLeftJoin kf kf) n (Model.Join.init2 l r)) := by
  have := collectL_leftJoin2_aux kf F n ({} : J2) l r hF
  simp only [List.map_cons, List.map_nil]
  rw [this]
  rfl

end ShpanVerif.Proofs.JoinLife
