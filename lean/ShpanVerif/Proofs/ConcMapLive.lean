/-
Concurrent map: window/overlap invariants (C02), completeness of a successful result (C07), the global
decreasing measure and deadlock freedom (C07).
-/
import ShpanVerif.Proofs.ConcMapInv

namespace ShpanVerif.Proofs.ConcMap
open ShpanVerif.Model.Conc ShpanVerif.Model.ConcMap

/-! ### C02: where the close/emit overlap can and cannot happen -/

structure Win (s : St) : Prop where
  pre : s.srcClosed = false → s.badWindow = false ∧ s.badOverlap = false
  drained : s.drained = true → s.badWindow = false ∧ s.badOverlap = false

set_option maxHeartbeats 2000000 in
theorem win_step {cfg : Cfg} {s s' : St} {l : Label} (hb : Basic cfg s) (h : Win s) (hs : step cfg s l = some s') :
    Win s' := by
  obtain ⟨b1, b2, b3, b4, b5, b6, b7, b8, b9, b10, b11, b12, b13, b14, b15, b16, b17, b18, b19, b20, b21⟩ := hb
  obtain ⟨w1, w2⟩ := h
  step_cases hs <;> (constructor <;> simp_all <;> grind)

theorem win {cfg : Cfg} {s : St} (hr : Reachable (sys cfg) s) : Win s := by
  have : Basic cfg s ∧ Win s := by
    refine invariant (sys := sys cfg) (P := fun s => Basic cfg s ∧ Win s) ?_ ?_ s hr
    · exact ⟨basic_init cfg, by constructor <;> simp [sys, init]⟩
    · intro s l s' h hs
      exact ⟨basic_step h.1 hs, win_step h.1 h.2 hs⟩
  exact this.2

/-! ### C07: a successful result is complete -/

/-- `nil` from the terminal means: the downstream stopped by itself, or a failure was injected (then C03 is the property
    that speaks), or every source element's mapped value was returned by `Emit`. -/
def OkComplete (cfg : Cfg) (s : St) : Prop :=
  s.res = some .ok → s.stopped = true ∨ s.faulted = true ∨ ∀ i, i < cfg.n → s.delivered.count i = 1

theorem complete_of_drained {cfg : Cfg} {s : St} (hc : 0 < cfg.c) (hb : Basic cfg s) (he : Exact cfg s)
    (h1 : s.tgtClosed = true) (h2 : s.tgtChan = []) (h3 : s.eof = true) :
    ∀ i, i < cfg.n → s.delivered.count i = 1 := by
  intro i hi
  have hdone : s.prod = .done := hb.tgtCl.mp h1
  have hex : s.wExit = cfg.c := hb.done_exit hdone
  have hw := hb.workers
  have hm : s.wMap = [] := List.eq_nil_of_length_eq_zero (by omega)
  have hh : s.wHold = [] := List.eq_nil_of_length_eq_zero (by omega)
  have hs : s.srcChan = [] := (he.exit_closed (by omega)).2
  have hcur : s.cursor = cfg.n := (hb.eof_cursor h3).1
  have := he.cons i
  simp [cnt, inHand, hdone, hm, hh, hs, h2, hcur, hi] at this
  exact this

set_option maxHeartbeats 2000000 in
theorem okComplete_step {cfg : Cfg} {s s' : St} {l : Label} (hc : 0 < cfg.c) (hfix : cfg.fix24 = true)
    (hb : Basic cfg s) (he : FF s → Exact cfg s) (h : OkComplete cfg s) (hs : step cfg s l = some s') :
    OkComplete cfg s' := by
  have hcomp : s.ctx0 = false → s.faulted = false → s.stopped = false → s.tgtClosed = true → s.tgtChan = [] →
      s.eof = true → ∀ i, i < cfg.n → s.delivered.count i = 1 :=
    fun a b c => complete_of_drained hc hb (he ⟨a, b, c⟩)
  clear he
  have hres := hb.res_iff
  have hstop := hb.stopped_cons
  unfold OkComplete at *
  by_cases hl : l = .cClosed
  · subst hl
    simp only [step] at hs
    split at hs
    · rename_i hg
      obtain ⟨g1, g2, g3⟩ := hg
      have hr0 : s.res = none := hres.mpr (Or.inr (Or.inl g1))
      have hst : s.stopped = false := by
        cases hx : s.stopped
        · rfl
        · exact absurd hr0 (hstop hx)
      by_cases hctx : s.ctx0 = true
      · simp [hfix, hctx] at hs; subst hs; simp
      · simp only [Bool.not_eq_true] at hctx
        simp only [hctx, Bool.false_eq_true, and_false, ↓reduceIte] at hs
        by_cases heof : s.eof = true
        · simp only [heof, ↓reduceIte, Option.some.injEq] at hs
          subst hs
          intro _
          by_cases hf : s.faulted = true
          · exact Or.inr (Or.inl hf)
          · simp only [Bool.not_eq_true] at hf
            exact Or.inr (Or.inr (hcomp hctx hf hst g3 g2 heof))
        · simp [heof] at hs; subst hs; simp
    · simp at hs
  · step_cases hs <;> (first | exact absurd rfl hl | (simp_all; done) | (simp_all; grind))

theorem okComplete {cfg : Cfg} {s : St} (hc : 0 < cfg.c) (hfix : cfg.fix24 = true) (hr : Reachable (sys cfg) s) :
    OkComplete cfg s := by
  have : Basic cfg s ∧ (FF s → Exact cfg s) ∧ OkComplete cfg s := by
    refine invariant (sys := sys cfg) (P := fun s => Basic cfg s ∧ (FF s → Exact cfg s) ∧ OkComplete cfg s) ?_ ?_ s hr
    · exact ⟨basic_init cfg, fun _ => by constructor <;> simp [sys, init, cnt, inHand], by simp [OkComplete, sys, init]⟩
    · intro s l s' h hs
      exact ⟨basic_step h.1 hs, exact_step h.1 h.2.1 hs, okComplete_step hc hfix h.1 h.2.1 h.2.2 hs⟩
  exact this.2.2

/-! ### C07: a measure that every transition strictly decreases -/

def pW : PPc → Nat
  | .done => 0 | .waiting => 1 | .closing => 2 | .stopping => 3 | .inEmit => 4 | .top => 5 | .have _ => 13

def cW : CPc → Nat
  | .ret => 0 | .close2 => 1 | .close1 => 2 | .closeP => 3 | .closeW => 4 | .close0 => 5 | .sel => 6 | .check => 7
  | .got => 8

/-- Remaining work: source elements and fault budget not yet used, every element weighted by the stages still ahead
    of it, goroutine program counters, the caller's cancel. -/
def mu (cfg : Cfg) (s : St) : Nat :=
  20 * (cfg.n - s.cursor) + 20 * s.errBudget + pW s.prod + 7 * s.srcChan.length + 6 * s.wMap.length +
    5 * s.wHold.length + 3 * s.tgtChan.length + s.wIdle + cW s.cons + (if s.ctx0 then 0 else 1)

set_option maxHeartbeats 2000000 in
theorem mu_step {cfg : Cfg} {s s' : St} {l : Label} (hs : step cfg s l = some s') : mu cfg s' < mu cfg s := by
  step_cases hs <;> simp_all [mu, pW, cW, List.length_erase_of_mem] <;> grind [List.length_pos_of_mem]

/-- Every schedule is finite: its length is bounded by the measure of the state it starts from. -/
theorem run_length_le {cfg : Cfg} : ∀ (ls : List Label) (s s' : St), run (step cfg) s ls = some s' →
    ls.length + mu cfg s' ≤ mu cfg s := by
  intro ls
  induction ls with
  | nil => intro s s' h; simp [run] at h; subst h; simp
  | cons l ls ih =>
    intro s s' h
    simp only [run] at h
    cases hst : step cfg s l with
    | none => simp [hst] at h
    | some s1 =>
      simp only [hst] at h
      have := ih s1 s' h
      have := mu_step hst
      simp only [List.length_cons]
      omega

/-! ### C07: deadlock freedom -/

/-- Transitions the library and the in-flight calls owe: every library step, the return of the source's Emit, the
    return of a mapper call, the downstream handing control back to the terminal.  Not owed (environment choices):
    cancel, injected failures, early stop, a direct re-pull. -/
def obliged : Label → Bool
  | .cancel | .pEmitErr | .wMapErr _ | .cStop | .cFail | .cRepull | .cOpenFail => false
  | _ => true

/-- Producer and workers can move unless they are all done — provided the consumer side is not what blocks them:
    either ctx1 is cancelled, or tgtChan is empty and still open. -/
theorem progress_lib {cfg : Cfg} {s : St} (hc : 0 < cfg.c) (hb : Basic cfg s)
    (hA : s.ctx1 = true ∨ (s.tgtChan = [] ∧ s.tgtClosed = false)) :
    (s.prod = .done ∧ s.wExit = cfg.c) ∨ ∃ l, obliged l = true ∧ (step cfg s l).isSome = true := by
  have hw := hb.workers
  -- a worker inside the mapper can always return
  by_cases hmap : s.wMap = []
  case neg =>
    obtain ⟨i, r, hir⟩ := List.exists_cons_of_ne_nil hmap
    exact Or.inr ⟨.wMapOk i, rfl, by simp [step, hir]⟩
  -- a worker holding a result can send (tgtChan has room) or drop (ctx1)
  by_cases hhold : s.wHold = []
  case neg =>
    obtain ⟨it, r, hir⟩ := List.exists_cons_of_ne_nil hhold
    rcases hA with hctx | ⟨ht, _⟩
    · exact Or.inr ⟨.wDrop it, rfl, by simp [step, hir, hctx]⟩
    · exact Or.inr ⟨.wSend it, rfl, by simp [step, hir, ht, hc]⟩
  simp only [hmap, hhold, List.length_nil, Nat.add_zero] at hw
  -- idle workers
  have hidle : 0 < s.wIdle → (s.srcChan = [] ∧ s.srcChClosed = false ∧ s.ctx1 = false) ∨
      ∃ l, obliged l = true ∧ (step cfg s l).isSome = true := by
    intro hi
    by_cases hctx : s.ctx1 = true
    · exact Or.inr ⟨.wExitCtx, rfl, by simp [step, hi, hctx]⟩
    · match hsc : s.srcChan with
      | .val i :: r => exact Or.inr ⟨.wRecv, rfl, by simp [step, hi, hsc]⟩
      | .err :: r => exact Or.inr ⟨.wRecv, rfl, by simp [step, hi, hsc]⟩
      | [] =>
        by_cases hcl : s.srcChClosed = true
        · exact Or.inr ⟨.wExitClosed, rfl, by simp [step, hi, hsc, hcl]⟩
        · exact Or.inl ⟨rfl, by simpa using hcl, by simpa using hctx⟩
  match hp : s.prod with
  | .top => exact Or.inr ⟨.pTop, rfl, by by_cases h : s.pctx = true <;> simp [step, hp, h]⟩
  | .stopping => exact Or.inr ⟨.pStop, rfl, by simp [step, hp]⟩
  | .inEmit =>
    have := hb.cursor_le
    by_cases h : s.cursor < cfg.n
    · exact Or.inr ⟨.pEmitVal, rfl, by simp [step, hp, h]⟩
    · exact Or.inr ⟨.pEmitEof, rfl, by simp [step, hp]; omega⟩
  | .closing => exact Or.inr ⟨.pCloseSrc, rfl, by simp [step, hp]⟩
  | .done => exact Or.inl ⟨rfl, hb.done_exit hp⟩
  | .waiting =>
    by_cases hex : s.wExit = cfg.c
    · exact Or.inr ⟨.pWait, rfl, by simp [step, hp, hex]⟩
    · rcases hidle (by omega) with ⟨_, h2, _⟩ | h
      · have := hb.srcCh.mpr (Or.inl hp); simp [this] at h2
      · exact Or.inr h
  | .have it =>
    by_cases hroom : s.srcChan.length < cfg.c
    · exact Or.inr ⟨.pSend, rfl, by simp [step, hp, hroom]⟩
    · by_cases hctx : s.ctx1 = true
      · exact Or.inr ⟨.pDrop, rfl, by simp [step, hp, St.pctx]; simp [St.ctx1] at hctx; rcases hctx with h | h <;> simp [h]⟩
      · by_cases hi : 0 < s.wIdle
        · rcases hidle hi with ⟨h1, _, _⟩ | h
          · simp [h1] at hroom; omega
          · exact Or.inr h
        · -- every worker has exited although ctx1 is live and srcChan is still open: impossible
          have hex : 0 < s.wExit := by omega
          rcases hb.exit_why hex with h | h
          · exact absurd h hctx
          · have := hb.srcCh.mp h; simp [hp] at this

/-- Deadlock freedom: in every reachable state that is not final some owed transition is enabled. -/
theorem progress {cfg : Cfg} {s : St} (hc : 0 < cfg.c) (hb : Basic cfg s) (hnf : final cfg s = false) :
    ∃ l, obliged l = true ∧ (step cfg s l).isSome = true := by
  match hcs : s.cons with
  | .check => exact ⟨.cCheck, rfl, by by_cases h : s.ctx0 = true <;> simp [step, hcs, h]⟩
  | .got => exact ⟨.cNext, rfl, by simp [step, hcs]⟩
  | .close0 => exact ⟨.cClose0, rfl, by by_cases h : cfg.fix5 = true <;> simp [step, hcs, h]⟩
  | .closeP => exact ⟨.cCloseP, rfl, by simp [step, hcs]⟩
  | .closeW =>
    -- the consumer waits for the producer, whose ctx is cancelled: the producer moves until it has signalled
    have hpc : s.pcancel = true := by
      have hfix : cfg.fix5 = true := by
        cases h : cfg.fix5
        · exact absurd hcs (hb.closeW_fix h)
        · rfl
      exact hb.cons_pcancel hfix (Or.inl hcs)
    have hpctx : s.pctx = true := by simp [St.pctx, hpc]
    match hp : s.prod with
    | .top => exact ⟨.pTop, rfl, by simp [step, hp, hpctx]⟩
    | .inEmit =>
      have := hb.cursor_le
      by_cases h : s.cursor < cfg.n
      · exact ⟨.pEmitVal, rfl, by simp [step, hp, h]⟩
      · exact ⟨.pEmitEof, rfl, by simp [step, hp]; omega⟩
    | .have it => exact ⟨.pDrop, rfl, by simp [step, hp, hpctx]⟩
    | .stopping => exact ⟨.pStop, rfl, by simp [step, hp]⟩
    | .closing => exact ⟨.cCloseW, rfl, by simp [step, hcs, hb.pStop_iff.mpr (Or.inl hp)]⟩
    | .waiting => exact ⟨.cCloseW, rfl, by simp [step, hcs, hb.pStop_iff.mpr (Or.inr (Or.inl hp))]⟩
    | .done => exact ⟨.cCloseW, rfl, by simp [step, hcs, hb.pStop_iff.mpr (Or.inr (Or.inr hp))]⟩
  | .close1 => exact ⟨.cClose1, rfl, by simp [step, hcs]⟩
  | .close2 => exact ⟨.cClose2, rfl, by simp [step, hcs]⟩
  | .ret =>
    have ht : s.term1 = true := hb.ret_term.mp hcs
    rcases progress_lib hc hb (Or.inl (by simp [St.ctx1, ht])) with ⟨h1, h2⟩ | h
    · simp [final, hcs, h1, h2] at hnf
    · exact h
  | .sel =>
    by_cases hctx : s.ctx0 = true
    · exact ⟨.cSelCtx, rfl, by simp [step, hcs, hctx]⟩
    · match htg : s.tgtChan with
      | .val i :: r => exact ⟨.cRecv, rfl, by simp [step, hcs, htg]⟩
      | .err :: r => exact ⟨.cRecv, rfl, by simp [step, hcs, htg]⟩
      | [] =>
        by_cases hcl : s.tgtClosed = true
        · refine ⟨.cClosed, rfl, ?_⟩
          simp only [step, hcs, htg, hcl, and_self, ↓reduceIte]
          split <;> (try split) <;> (try split) <;> rfl
        · rcases progress_lib hc hb (Or.inr ⟨htg, by simpa using hcl⟩) with ⟨h1, _⟩ | h
          · exact absurd (hb.tgtCl.mpr h1) hcl
          · exact h

end ShpanVerif.Proofs.ConcMap
