/-
C03 surfacing, the one-run invariant: under a non-cancel fault plan every function of the mutual block of
`Model/Pipe.lean` keeps the plan in place and either leaves the ghost flag `fired` unchanged or returns the
injected failure (`Good`: `fail (expectedRoot k)`, a panic that recovers to it, or out of fuel).
Proved for all ten functions simultaneously by induction on the fuel.
-/
import ShpanVerif.Proofs.PipeC03Base

namespace ShpanVerif.Proofs.PipeC03
open ShpanVerif.Model.Pipe

/-- `Step` on a (result, state, world) triple -/
def StepT (pos : Nat) (k : FaultKind) (w : World) {α σ : Type} (x : Res α × σ × World) : Prop :=
  Step pos k w x.1 x.2.2
/-- `Step` on the 5-tuples of the cluster helpers -/
def StepC (pos : Nat) (k : FaultKind) (w : World) {α σ₁ σ₂ σ₃ : Type} (x : Res α × σ₁ × σ₂ × σ₃ × World) : Prop :=
  Step pos k w x.1 x.2.2.2.2

/-- `Step` on the 4-tuple of the pull loop -/
def StepQ (pos : Nat) (k : FaultKind) (w : World) {α σ₁ σ₂ : Type} (x : Res α × σ₁ × σ₂ × World) : Prop :=
  Step pos k w x.1 x.2.2.2

/-- the invariant for all functions of the mutual block at one fuel level -/
structure AllStep (pos : Nat) (k : FaultKind) (fuel : Nat) : Prop where
  openP : ∀ p w, Plan pos k w → StepT pos k w (openP fuel p w)
  openList : ∀ ps i w, Plan pos k w → StepT pos k w (openList fuel ps i w)
  emitP : ∀ p w, Plan pos k w → StepT pos k w (emitP fuel p w)
  skipLoop : ∀ n p w, Plan pos k w → StepT pos k w (skipLoop fuel n p w)
  zipRow : ∀ ps i acc w, Plan pos k w → StepT pos k w (zipRow fuel ps i acc w)
  mergeRefill : ∀ ps i sl w, Plan pos k w → StepT pos k w (mergeRefill fuel ps i sl w)
  windowFill : ∀ s st o buf so p w, Plan pos k w → StepT pos k w (windowFill fuel s st o buf so p w)
  clusterRead : ∀ k' cls want acc nxt last p w, Plan pos k w → StepC pos k w (clusterRead fuel k' cls want acc nxt last p w)
  clusterSkip : ∀ k' cls nxt last p w, Plan pos k w → StepC pos k w (clusterSkip fuel k' cls nxt last p w)
  clusterSkipLoop : ∀ k' cls nc nxt last p w, Plan pos k w → StepC pos k w (clusterSkipLoop fuel k' cls nc nxt last p w)

theorem allStep_zero {pos : Nat} {k : FaultKind} : AllStep pos k 0 := by
  constructor <;> intros <;> simp [openP, openList, emitP, skipLoop, zipRow, mergeRefill, windowFill,
    clusterRead, clusterSkip, clusterSkipLoop, StepT, StepC, Step, *]

set_option hygiene false in
local macro "c03_setup" : tactic => `(tactic| (
  obtain ⟨i1, i2, i3, i4, i5, i6, i7, i8, i9, i10⟩ := ih
  simp only [StepT, StepC, Step] at i1 i2 i3 i4 i5 i6 i7 i8 i9 i10))

/-- split the unfolded body into its branches, then close every leaf -/
local macro "c03_leaves" : tactic => `(tactic| (
  repeat' split
  all_goals (simp only [StepT, StepC, Step]; grind)))

section succ
variable {pos : Nat} {k : FaultKind} (fuel : Nat) (ih : AllStep pos k fuel)
include ih

theorem s_openP : ∀ p w, Plan pos k w → StepT pos k w (openP (fuel+1) p w) := by
  intro p w h
  c03_setup
  cases p <;> simp only [openP] <;> c03_leaves

theorem s_openList : ∀ ps i w, Plan pos k w → StepT pos k w (openList (fuel+1) ps i w) := by
  intro ps i w h
  c03_setup
  simp only [openList]
  c03_leaves

set_option maxHeartbeats 1600000 in
theorem s_emitP : ∀ p w, Plan pos k w → StepT pos k w (emitP (fuel+1) p w) := by
  intro p w h
  c03_setup
  cases p
  case src => (first | simp only [emitP] | (rw [emitP.eq_def]; simp only [])); c03_leaves
  case lc => (first | simp only [emitP] | (rw [emitP.eq_def]; simp only [])); c03_leaves
  case map => (first | simp only [emitP] | (rw [emitP.eq_def]; simp only [])); c03_leaves
  case filter => (first | simp only [emitP] | (rw [emitP.eq_def]; simp only [])); c03_leaves
  case limit => (first | simp only [emitP] | (rw [emitP.eq_def]; simp only [])); c03_leaves
  case skip => (first | simp only [emitP] | (rw [emitP.eq_def]; simp only [])); c03_leaves
  case concat => (first | simp only [emitP] | (rw [emitP.eq_def]; simp only [])); c03_leaves
  case zip => (first | simp only [emitP] | (rw [emitP.eq_def]; simp only [])); c03_leaves
  case merge => (first | simp only [emitP] | (rw [emitP.eq_def]; simp only [])); c03_leaves
  case window => (first | simp only [emitP] | (rw [emitP.eq_def]; simp only [])); c03_leaves
  case cluster => (first | simp only [emitP] | (rw [emitP.eq_def]; simp only [])); c03_leaves

theorem s_skipLoop : ∀ n p w, Plan pos k w → StepT pos k w (skipLoop (fuel+1) n p w) := by
  intro n p w h
  c03_setup
  cases n <;> simp only [skipLoop] <;> c03_leaves

theorem s_zipRow : ∀ ps i acc w, Plan pos k w → StepT pos k w (zipRow (fuel+1) ps i acc w) := by
  intro ps i acc w h
  c03_setup
  simp only [zipRow]
  c03_leaves

theorem s_mergeRefill : ∀ ps i sl w, Plan pos k w → StepT pos k w (mergeRefill (fuel+1) ps i sl w) := by
  intro ps i sl w h
  c03_setup
  simp only [mergeRefill]
  c03_leaves

theorem s_windowFill : ∀ s st o buf so p w, Plan pos k w → StepT pos k w (windowFill (fuel+1) s st o buf so p w) := by
  intro s st o buf so p w h
  c03_setup
  simp only [windowFill]
  c03_leaves

theorem s_clusterRead : ∀ k' cls want acc nxt last p w, Plan pos k w → StepC pos k w (clusterRead (fuel+1) k' cls want acc nxt last p w) := by
  intro k' cls want acc nxt last p w h
  c03_setup
  rw [clusterRead.eq_def]; simp only []
  c03_leaves

theorem s_clusterSkip : ∀ k' cls nxt last p w, Plan pos k w → StepC pos k w (clusterSkip (fuel+1) k' cls nxt last p w) := by
  intro k' cls nxt last p w h
  c03_setup
  rw [clusterSkip.eq_def]; simp only []
  c03_leaves

theorem s_clusterSkipLoop : ∀ k' cls nc nxt last p w, Plan pos k w → StepC pos k w (clusterSkipLoop (fuel+1) k' cls nc nxt last p w) := by
  intro k' cls nc nxt last p w h
  c03_setup
  rw [clusterSkipLoop.eq_def]; simp only []
  c03_leaves

end succ

theorem allStep (pos : Nat) (k : FaultKind) : ∀ fuel, AllStep pos k fuel
  | 0 => allStep_zero
  | fuel+1 =>
    have ih := allStep pos k fuel
    ⟨s_openP fuel ih, s_openList fuel ih, s_emitP fuel ih, s_skipLoop fuel ih, s_zipRow fuel ih,
     s_mergeRefill fuel ih, s_windowFill fuel ih, s_clusterRead fuel ih, s_clusterSkip fuel ih,
     s_clusterSkipLoop fuel ih⟩

/-- the pull loop of the terminal operation: same invariant -/
theorem pullLoop_step {pos : Nat} {k : FaultKind} : ∀ fuel c p acc w, Plan pos k w →
    StepQ pos k w (pullLoop fuel c p acc w)
  | 0, c, p, acc, w, h => by simp [pullLoop, StepQ, Step, h]
  | fuel+1, c, p, acc, w, h => by
    have i3 := (allStep pos k fuel).emitP
    have ih := pullLoop_step (pos := pos) (k := k) fuel
    simp only [StepT, StepQ, Step] at i3 ih
    simp only [pullLoop]
    repeat' split
    all_goals (simp only [StepQ, Step]; grind)

/-- the outcome is an error with the root the plan must surface as -/
def IsErr (k : FaultKind) : Outcome → Prop
  | .err e _ => e = expectedRoot k
  | _ => False

@[simp, grind =] theorem IsErr_err {k : FaultKind} {e : Root} {d : List V} :
    IsErr k (.err e d) = (e = expectedRoot k) := rfl
@[simp, grind =] theorem IsErr_ok {k : FaultKind} {d : List V} : IsErr k (.ok d) = False := rfl
@[simp, grind =] theorem IsErr_oof {k : FaultKind} : IsErr k .oof = False := rfl

/-- `consume`: if the ghost flag changed during the run, the outcome is the injected failure (or oof) -/
theorem consume_step {pos : Nat} {k : FaultKind} (fuel : Nat) (c : Consumer) (p : Pipe) (w : World)
    (h : Plan pos k w) :
    (consume fuel c p w).1 = .oof ∨ (consume fuel c p w).2.2.fired = w.fired ∨
      IsErr k (consume fuel c p w).1 := by
  have i1 := (allStep pos k fuel).openP
  have i2 := pullLoop_step (pos := pos) (k := k) fuel
  simp only [StepT, StepQ, Step] at i1 i2
  unfold consume
  repeat' split
  all_goals grind

end ShpanVerif.Proofs.PipeC03
