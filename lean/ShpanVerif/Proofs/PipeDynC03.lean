/-
FlatMap model (`Model/PipeDyn.lean`), C03 surfacing: under a non-cancel fault plan every function keeps the plan in
place and either leaves the ghost flag `fired` unchanged or returns the injected failure (`Good`: a `fail` / `panic`
whose root is the injected one, or out of fuel).  Vocabulary (`Plan`, `Step`, `Good`, the one-call lemmas for the probe
primitives) is the one of the static pipeline model (`Proofs/PipeC03Base.lean`).
-/
import ShpanVerif.Model.PipeDyn
import ShpanVerif.Proofs.PipeC03Base

namespace ShpanVerif.Proofs.PipeDyn
open ShpanVerif.Model.Pipe ShpanVerif.Model.PipeDyn ShpanVerif.Proofs.PipeC03

theorem Good_hitRes_noErr {k : FaultKind} {α : Type} (h : Hit) (hg : HitGood k h) : Good k (hitRes (noErr h) : Res α) := by
  cases h <;> simp_all [hitRes, noErr, Good, HitGood, recovered]

theorem Good_hitRes' {k : FaultKind} {α : Type} (h : Hit) (hg : HitGood k h) : Good k (hitRes h : Res α) := by
  cases h <;> simp_all [hitRes, Good, HitGood] <;> exact hg.symm

theorem Good_castRes {k : FaultKind} {α β : Type} (r : Res α) (hg : Good k r) : Good k (castRes r : Res β) := by
  cases r <;> simp_all [castRes, Good]

def StepP (pos : Nat) (k : FaultKind) (w : World) {α : Type} (x : Res α × World) : Prop := Step pos k w x.1 x.2
def StepT (pos : Nat) (k : FaultKind) (w : World) {α σ : Type} (x : Res α × σ × World) : Prop := Step pos k w x.1 x.2.2
def StepQ (pos : Nat) (k : FaultKind) (w : World) {α σ₁ σ₂ : Type} (x : Res α × σ₁ × σ₂ × World) : Prop :=
  Step pos k w x.1 x.2.2.2
/-- functions that make no call -/
def Quiet (pos : Nat) (k : FaultKind) (w w' : World) : Prop := Plan pos k w' ∧ w'.fired = w.fired

variable {pos : Nat} {k : FaultKind}

@[grind =] theorem Step_def {α : Type} (w : World) (res : Res α) (w' : World) :
    Step pos k w res w' = (Plan pos k w' ∧ (w'.fired = w.fired ∨ Good k res)) := rfl
@[grind =] theorem StepP_def {α : Type} (w : World) (x : Res α × World) : StepP pos k w x = Step pos k w x.1 x.2 := rfl
@[grind =] theorem StepT_def {α σ : Type} (w : World) (x : Res α × σ × World) : StepT pos k w x = Step pos k w x.1 x.2.2 := rfl
@[grind =] theorem StepQ_def {α σ₁ σ₂ : Type} (w : World) (x : Res α × σ₁ × σ₂ × World) :
    StepQ pos k w x = Step pos k w x.1 x.2.2.2 := rfl
@[grind =] theorem Quiet_def (w w' : World) : Quiet pos k w w' = (Plan pos k w' ∧ w'.fired = w.fired) := rfl

theorem closeRes_quiet (r : Nat) (w : World) (h : Plan pos k w) : Quiet pos k w (closeRes r w) := ⟨h, rfl⟩

grind_pattern closeRes_quiet => closeRes r w, Plan pos k w

theorem applyOps_step : ∀ (ops : List OOp) (v : V) (w : World), Plan pos k w → StepP pos k w (applyOps ops v w)
  | [], v, w, h => by simp [applyOps, StepP, Step, h]
  | .peek :: ops, v, w, h => by
      have hu := userCall_step w h
      simp only [applyOps]
      generalize userCall w = x at *
      obtain ⟨hit, w'⟩ := x
      have ih := applyOps_step ops v w' hu.1
      cases hit <;> simp_all [StepP, Step, hitRes, noErr, Good, HitGood, recovered] <;> grind
  | .map f :: ops, v, w, h => by
      have hu := userCall_step w h
      simp only [applyOps]
      generalize userCall w = x at *
      obtain ⟨hit, w'⟩ := x
      have ih := applyOps_step ops (f.app v) w' hu.1
      cases hit <;> simp_all [StepP, Step, hitRes, Good, HitGood] <;> grind
  | .filter p :: ops, v, w, h => by
      have hu := userCall_step w h
      simp only [applyOps]
      generalize userCall w = x at *
      obtain ⟨hit, w'⟩ := x
      have ih := applyOps_step ops v w' hu.1
      cases hit <;> by_cases hp : p.app v <;> simp_all [StepP, Step, hitRes, Good, HitGood] <;> grind

grind_pattern applyOps_step => applyOps ops v w, Plan pos k w

attribute [local grind ←] Good_hitRes' Good_hitRes_noErr Good_castRes

/-- a probe Open fails with the injected error only -/
theorem openRes_fail {r : Nat} {w w' : World} {e : Root} (h : openRes r w = (.fail e, w')) : e = .user := by
  unfold openRes at h
  generalize w.call = x at h
  obtain ⟨hit, w1⟩ := x
  cases hit <;> simp at h
  exact h.1.symm

attribute [local grind →] openRes_fail

@[grind =] theorem recovered_true : recovered true = .user := rfl
@[grind =] theorem recovered_false : recovered false = .panicVal := rfl

/-- split the unfolded body into its branches, then close every leaf -/
local macro "c03_leaves" : tactic => `(tactic| (
  repeat' split
  all_goals (simp only [StepP, StepT, StepQ, Step, Quiet] at *; grind)))

theorem emitRest_step (r0 : Nat) (ops : List OOp) : ∀ (rest : List Int) (w : World), Plan pos k w →
    StepT pos k w (emitRest r0 ops rest w)
  | [], w, h => by
      simp only [emitRest]
      c03_leaves
  | x :: rest, w, h => by
      have he := emitRes_step r0 w h
      simp only [emitRest]
      generalize emitRes r0 w = y at *
      obtain ⟨hit, w1⟩ := y
      simp only at he
      cases hit with
      | none =>
          simp only []
          have ha := applyOps_step ops (.int x) w1 he.1
          generalize applyOps ops (.int x) w1 = z at *
          obtain ⟨res, w2⟩ := z
          simp only [StepP, Step] at ha
          have ih := emitRest_step r0 ops rest w2 ha.1
          simp only [StepT, Step] at ih ⊢
          cases res with
          | val o => cases o <;> simp_all <;> grind
          | eof => simp_all [castRes]
          | fail e => simp_all [castRes] <;> grind
          | panic b => simp_all [castRes] <;> grind
          | oof => simp_all [castRes]
      | err => simp_all [StepT, Step, hitRes] <;> grind
      | panic b => simp_all [StepT, Step, hitRes] <;> grind

grind_pattern emitRest_step => emitRest r0 ops rest w, Plan pos k w

theorem openI_step (s : InnerS) (w : World) (h : Plan pos k w) : StepT pos k w (openI s w) := by
  cases s <;> simp only [openI] <;> c03_leaves

theorem iterStep_step (r : Nat) (ys rest : List V) (w : World) (h : Plan pos k w) : StepT pos k w (iterStep r ys rest w) := by
  cases rest <;> simp only [iterStep] <;> c03_leaves

grind_pattern iterStep_step => iterStep r ys rest w, Plan pos k w

theorem emitI_step (s : InnerS) (w : World) (h : Plan pos k w) : StepT pos k w (emitI s w) := by
  cases s <;> simp only [emitI] <;> c03_leaves

theorem closeI_quiet (s : InnerS) (w : World) (h : Plan pos k w) : Quiet pos k w (closeI s w).2 := by
  cases s <;> simp only [closeI] <;> c03_leaves

grind_pattern openI_step => openI s w, Plan pos k w
grind_pattern emitI_step => emitI s w, Plan pos k w
grind_pattern closeI_quiet => closeI s w, Plan pos k w

theorem pullOuter_step (c : Obj) (w : World) (h : Plan pos k w) : StepT pos k w (pullOuter c w) := by
  simp only [pullOuter]
  c03_leaves

theorem closeFunc_quiet (c : Obj) (w : World) (h : Plan pos k w) : Quiet pos k w (closeFunc c w).2 := by
  simp only [closeFunc]
  c03_leaves

theorem openOuter_step (c : Obj) (w : World) (h : Plan pos k w) : StepT pos k w (openOuter c w) := by
  simp only [openOuter]
  c03_leaves

theorem openNext_step (c : Obj) (i : Inner) (w : World) (h : Plan pos k w) : StepT pos k w (openNext c i w) := by
  simp only [openNext]
  c03_leaves

grind_pattern pullOuter_step => pullOuter c w, Plan pos k w
grind_pattern closeFunc_quiet => closeFunc c w, Plan pos k w
grind_pattern openOuter_step => openOuter c w, Plan pos k w
grind_pattern openNext_step => openNext c i w, Plan pos k w

theorem cpOpen_step (c : Obj) (w : World) (h : Plan pos k w) : StepT pos k w (cpOpen c w) := by
  have h1 := openOuter_step { c with cur := none } w h
  simp only [cpOpen]
  generalize openOuter { c with cur := none } w = x at *
  obtain ⟨res, c1, w1⟩ := x
  simp only [StepT, Step] at h1
  cases res with
  | val u =>
      simp only []
      have h2 := pullOuter_step c1 w1 h1.1
      generalize pullOuter c1 w1 = y at *
      obtain ⟨res2, c2, w2⟩ := y
      simp only [StepT, Step] at h2
      cases res2 with
      | val i =>
          simp only []
          have h3 := openNext_step c2 i w2 h2.1
          generalize openNext c2 i w2 = z at *
          obtain ⟨res3, c3, w3⟩ := z
          simp only [StepT, Step] at h3 ⊢
          grind
      | eof => simp only [StepT, Step]; grind
      | fail e => simp only [StepT, Step, castRes]; grind
      | panic b => simp only [StepT, Step, castRes]; grind
      | oof => simp only [StepT, Step, castRes]; grind
  | eof => simp only [StepT, Step]; grind
  | fail e => simp only [StepT, Step]; grind
  | panic b => simp only [StepT, Step]; grind
  | oof => simp only [StepT, Step]; grind

grind_pattern cpOpen_step => cpOpen c w, Plan pos k w

theorem openC_step (c : Obj) (w : World) (h : Plan pos k w) : StepT pos k w (openC c w) := by
  simp only [openC]
  c03_leaves

grind_pattern openC_step => openC c w, Plan pos k w

theorem emitC_step : ∀ (fuel : Nat) (c : Obj) (w : World), Plan pos k w → StepT pos k w (emitC fuel c w) := by
  intro fuel
  induction fuel with
  | zero => intro c w h; simp [emitC, StepT, Step, h]
  | succ n ih =>
    intro c w h
    simp only [emitC]
    split
    · simp only [StepT, Step]; grind
    · cases hcur : c.cur with
      | none => simp only [StepT, Step]; grind
      | some s =>
        simp only []
        have h1 := emitI_step s w h
        generalize emitI s w = x at *
        obtain ⟨res, s1, w1⟩ := x
        simp only [StepT, Step] at h1
        cases res with
        | val v => simp only [StepT, Step]; grind
        | fail e => simp only [StepT, Step]; grind
        | panic b => simp only [StepT, Step]; grind
        | oof => simp only [StepT, Step]; grind
        | eof =>
          simp only []
          split
          · have h2 := closeI_quiet s1 w1 h1.1
            generalize closeI s1 w1 = y at *
            obtain ⟨s2, w2⟩ := y
            simp only [Quiet] at h2 ⊢
            split
            · simp only [StepT, Step]; grind
            · have h3 := pullOuter_step { c with cur := none, curOpen := false } w2 h2.1
              generalize pullOuter { c with cur := none, curOpen := false } w2 = z at *
              obtain ⟨res3, c3, w3⟩ := z
              simp only [StepT, Step] at h3
              cases res3 with
              | val i =>
                  simp only []
                  have h4 := openNext_step c3 i w3 h3.1
                  generalize openNext c3 i w3 = u at *
                  obtain ⟨res4, c4, w4⟩ := u
                  simp only [StepT, Step] at h4
                  cases res4 with
                  | val a =>
                      simp only []
                      have h5 := ih c4 w4 h4.1
                      simp only [StepT, Step] at h5 ⊢
                      grind
                  | eof => simp only [StepT, Step, castRes]; grind
                  | fail e => simp only [StepT, Step, castRes]; grind
                  | panic b => simp only [StepT, Step, castRes]; grind
                  | oof => simp only [StepT, Step, castRes]; grind
              | eof => simp only [StepT, Step, castRes]; grind
              | fail e => simp only [StepT, Step, castRes]; grind
              | panic b => simp only [StepT, Step, castRes]; grind
              | oof => simp only [StepT, Step, castRes]; grind
          · simp only [StepT, Step]; grind

grind_pattern emitC_step => emitC fuel c w, Plan pos k w

theorem emitT_step (fuel : Nat) (lim : Option Int) (consumed : Int) (c : Obj) (w : World) (h : Plan pos k w) :
    StepT pos k w (emitT fuel lim consumed c w) := by
  simp only [emitT]
  c03_leaves

grind_pattern emitT_step => emitT fuel lim consumed c w, Plan pos k w

theorem pullLoop_step : ∀ (fuel : Nat) (kc : Consumer) (lim : Option Int) (consumed : Int) (c : Obj) (acc : List V) (w : World),
    Plan pos k w → StepQ pos k w (Model.PipeDyn.pullLoop fuel kc lim consumed c acc w) := by
  intro fuel
  induction fuel with
  | zero => intro kc lim consumed c acc w h; simp [Model.PipeDyn.pullLoop, StepQ, Step, h]
  | succ n ih =>
    intro kc lim consumed c acc w h
    simp only [Model.PipeDyn.pullLoop]
    split
    · simp only [StepQ, Step]; grind
    · have h1 := emitT_step n lim consumed c w h
      generalize emitT n lim consumed c w = x at *
      obtain ⟨res, c1, w1⟩ := x
      simp only [StepT, Step] at h1
      cases res with
      | val v =>
          cases kc with
          | collect =>
              simp only []
              have h2 := ih .collect lim (consumed + 1) c1 (v :: acc) w1 h1.1
              simp only [StepQ, Step] at h2 ⊢
              grind
          | user =>
              simp only []
              have h2 := userCall_step w1 h1.1
              generalize userCall w1 = y at *
              obtain ⟨hit, w2⟩ := y
              cases hit with
              | none =>
                  simp only []
                  have h3 := ih .user lim (consumed + 1) c1 (v :: acc) w2 h2.1
                  simp only [StepQ, Step] at h3 ⊢
                  grind
              | err => simp only [StepQ, Step]; grind
              | panic b => simp only [StepQ, Step]; grind
      | eof => simp only [StepQ, Step]; grind
      | fail e => simp only [StepQ, Step, castRes]; grind
      | panic b => simp only [StepQ, Step, castRes]; grind
      | oof => simp only [StepQ, Step, castRes]; grind

/-- **surfacing**: a fired non-cancel fault makes the terminal return an error whose root is the injected one -/
theorem consume_surface (fuel : Nat) (kc : Consumer) (lim : Option Int) (c : Obj) (w : World)
    (hf : w.fault = some (pos, k)) (hk : k ≠ .cancel) (hnf : w.fired = false) :
    (Model.PipeDyn.consume fuel kc lim c w).1 = .oof ∨
    ((Model.PipeDyn.consume fuel kc lim c w).2.2.fired = true →
      ∃ d, (Model.PipeDyn.consume fuel kc lim c w).1 = .err (expectedRoot k) d) := by
  have h : Plan pos k w := ⟨hf, hk⟩
  simp only [Model.PipeDyn.consume]
  split
  · right; intro hh; simp [hnf] at hh
  · have h1 := openC_step c w h
    generalize openC c w = x at *
    obtain ⟨res, c1, w1⟩ := x
    simp only [StepT, Step] at h1
    cases res with
    | val u =>
        simp only []
        have h2 := pullLoop_step fuel kc lim 1 c1 [] w1 h1.1
        generalize Model.PipeDyn.pullLoop fuel kc lim 1 c1 [] w1 = y at *
        obtain ⟨res2, acc, c2, w2⟩ := y
        simp only [StepQ, Step] at h2
        have h3 := closeFunc_quiet c2 w2 h2.1
        simp only [Quiet] at h3
        cases res2 with
        | oof => left; rfl
        | val u => right; intro hh; simp only [] at hh; grind
        | eof => right; intro hh; simp only [] at hh; grind
        | fail e => right; intro hh; simp only [] at hh; refine ⟨acc.reverse, ?_⟩; simp only [outcomeOf]; grind
        | panic b => right; intro hh; simp only [] at hh; refine ⟨acc.reverse, ?_⟩; simp only [outcomeOf]; grind
    | eof => left; rfl
    | oof => left; rfl
    | fail e => right; intro hh; simp only [] at hh; refine ⟨[], ?_⟩; simp only []; grind
    | panic b => right; intro hh; simp only [] at hh; refine ⟨[], ?_⟩; simp only []; grind

end ShpanVerif.Proofs.PipeDyn
