/-
C03 (sequential part), shared lemmas: what `closeP` can and cannot touch (the "frame"), independence of the
closed operator object from the world, the classification of results that carry the injected failure, and
the one-call lemmas for `World.call` and the three probes built on it.

Nothing here changes the model (`Model/PipeBase.lean`, `Model/Pipe.lean`); everything is proved about it.
-/
import ShpanVerif.Model.PipeWF

namespace ShpanVerif.Proofs.PipeC03
open ShpanVerif.Model.Pipe

/-! ### the frame of `closeP`: fault plan, ghost flag, call counter, cancellation are untouched -/

/-- the control-relevant part of the world is untouched (only `isOpen`, `bad`, `trace` may differ) -/
def Frame (w w' : World) : Prop :=
  w'.fault = w.fault ∧ w'.fired = w.fired ∧ w'.calls = w.calls ∧ w'.cancelled = w.cancelled

theorem Frame.refl (w : World) : Frame w w := ⟨rfl, rfl, rfl, rfl⟩

theorem Frame.trans {a b c : World} (h1 : Frame a b) (h2 : Frame b c) : Frame a c := by
  unfold Frame at *; grind

theorem closeRes_frame (r : Nat) (w : World) : Frame w (closeRes r w) := ⟨rfl, rfl, rfl, rfl⟩

mutual
/-- `closeP` makes no probe call: it never fires the plan, never moves the call counter -/
theorem closeP_frame : ∀ p w, Frame w (closeP p w).2
  | .src r xs i, w => by simp [closeP, closeRes_frame]
  | .lc r p, w => by
      simp only [closeP]; exact (closeP_frame p w).trans (closeRes_frame _ _)
  | .map f p, w => by simp only [closeP]; exact closeP_frame p w
  | .filter f p, w => by simp only [closeP]; exact closeP_frame p w
  | .limit n c p, w => by
      simp only [closeP]; split
      · exact Frame.refl _
      · exact closeP_frame p w
  | .skip n d p, w => by simp only [closeP]; exact closeP_frame p w
  | .concat ps n c o, w => by
      simp only [closeP]; split
      · exact closeAt_frame ps _ w
      · exact Frame.refl _
  | .zip ps o, w => by simp only [closeP]; exact closeFirst_frame ps _ w
  | .merge ps o s, w => by simp only [closeP]; exact closeFirst_frame ps _ w
  | .window s st o b d so p, w => by
      simp only [closeP]; split
      · exact closeP_frame p w
      · exact Frame.refl _
  | .cluster k f n c l so p, w => by
      simp only [closeP]; split
      · exact closeP_frame p w
      · exact Frame.refl _
theorem closeFirst_frame : ∀ ps k w, Frame w (closeFirst ps k w).2
  | .nil, _, w => by simp [closeFirst, Frame.refl]
  | .cons p ps, 0, w => by simp [closeFirst, Frame.refl]
  | .cons p ps, k+1, w => by
      simp only [closeFirst]
      exact (closeFirst_frame ps k w).trans (closeP_frame p _)
theorem closeAt_frame : ∀ ps k w, Frame w (closeAt ps k w).2
  | .nil, _, w => by simp [closeAt, Frame.refl]
  | .cons p ps, 0, w => by simp only [closeAt]; exact closeP_frame p w
  | .cons p ps, k+1, w => by simp only [closeAt]; exact closeAt_frame ps k w
end

mutual
/-- the operator object `closeP` returns does not depend on the world -/
theorem closeP_indep : ∀ p w w', (closeP p w).1 = (closeP p w').1
  | .src r xs i, w, w' => by simp [closeP]
  | .lc r p, w, w' => by simp only [closeP]; rw [closeP_indep p w w']
  | .map f p, w, w' => by simp only [closeP]; rw [closeP_indep p w w']
  | .filter f p, w, w' => by simp only [closeP]; rw [closeP_indep p w w']
  | .limit n c p, w, w' => by
      simp only [closeP]; split
      · rfl
      · simp only []; rw [closeP_indep p w w']
  | .skip n d p, w, w' => by simp only [closeP]; rw [closeP_indep p w w']
  | .concat ps n c o, w, w' => by
      simp only [closeP]; split
      · simp only []; rw [closeAt_indep ps _ w w']
      · rfl
  | .zip ps o, w, w' => by simp only [closeP]; rw [closeFirst_indep ps _ w w']
  | .merge ps o s, w, w' => by simp only [closeP]; rw [closeFirst_indep ps _ w w']
  | .window s st o b d so p, w, w' => by
      simp only [closeP]; split
      · simp only []; rw [closeP_indep p w w']
      · rfl
  | .cluster k f n c l so p, w, w' => by
      simp only [closeP]; split
      · simp only []; rw [closeP_indep p w w']
      · rfl
theorem closeFirst_indep : ∀ ps k w w', (closeFirst ps k w).1 = (closeFirst ps k w').1
  | .nil, _, w, w' => by simp [closeFirst]
  | .cons p ps, 0, w, w' => by simp [closeFirst]
  | .cons p ps, k+1, w, w' => by
      simp only [closeFirst]
      rw [closeFirst_indep ps k w w', closeP_indep p _ (closeFirst ps k w').2]
theorem closeAt_indep : ∀ ps k w w', (closeAt ps k w).1 = (closeAt ps k w').1
  | .nil, _, w, w' => by simp [closeAt]
  | .cons p ps, 0, w, w' => by simp only [closeAt]; rw [closeP_indep p w w']
  | .cons p ps, k+1, w, w' => by simp only [closeAt]; rw [closeAt_indep ps k w w']
end

/-! ### results that carry the injected failure -/

/-- the result is the injected failure (its root survives: `fail (expectedRoot k)`, or a panic whose
    recovery gives that root), or the model ran out of fuel -/
def Good (k : FaultKind) {α : Type} : Res α → Prop
  | .fail e => e = expectedRoot k
  | .panic b => recovered b = expectedRoot k
  | .oof => True
  | _ => False

@[simp, grind =] theorem Good_val {k : FaultKind} {α : Type} (a : α) : Good k (Res.val a) = False := rfl
@[simp, grind =] theorem Good_eof {k : FaultKind} {α : Type} : Good k (Res.eof : Res α) = False := rfl
@[simp, grind =] theorem Good_oof {k : FaultKind} {α : Type} : Good k (Res.oof : Res α) = True := rfl
@[simp, grind =] theorem Good_fail {k : FaultKind} {α : Type} (e : Root) :
    Good k (Res.fail e : Res α) = (e = expectedRoot k) := rfl
@[simp, grind =] theorem Good_panic {k : FaultKind} {α : Type} (b : Bool) :
    Good k (Res.panic b : Res α) = (recovered b = expectedRoot k) := rfl

/-- the same for the raw answer of a probe call -/
def HitGood (k : FaultKind) : Hit → Prop
  | .none => False
  | .err => expectedRoot k = .user
  | .panic b => recovered b = expectedRoot k

@[simp, grind =] theorem HitGood_none {k : FaultKind} : HitGood k .none = False := rfl
@[simp, grind =] theorem HitGood_err {k : FaultKind} : HitGood k .err = (expectedRoot k = .user) := rfl
@[simp, grind =] theorem HitGood_panic {k : FaultKind} {b : Bool} :
    HitGood k (.panic b) = (recovered b = expectedRoot k) := rfl

/-- the world carries the (non-cancel) fault plan `(pos, k)` -/
def Plan (pos : Nat) (k : FaultKind) (w : World) : Prop := w.fault = some (pos, k) ∧ k ≠ .cancel

/-- One step of a run under the plan `(pos, k)`: the plan stays in place, and either the ghost flag is
    unchanged or the result is the injected failure (or out of fuel). -/
def Step (pos : Nat) (k : FaultKind) (w : World) {α : Type} (res : Res α) (w' : World) : Prop :=
  Plan pos k w' ∧ (w'.fired = w.fired ∨ Good k res)

/-- (i) `World.call` is the only place that sets `fired`; when it does (k ≠ cancel) it answers with the
    injected failure. -/
theorem call_step {pos : Nat} {k : FaultKind} (w : World) (h : Plan pos k w) :
    Plan pos k (w.call).2 ∧ ((w.call).2.fired = w.fired ∨ HitGood k (w.call).1) := by
  obtain ⟨h, hk⟩ := h
  unfold World.call Plan
  rw [h]
  cases k <;> simp at hk ⊢ <;> split <;> simp [expectedRoot, recovered]

theorem userCall_step {pos : Nat} {k : FaultKind} (w : World) (h : Plan pos k w) :
    Plan pos k (userCall w).2 ∧ ((userCall w).2.fired = w.fired ∨ HitGood k (userCall w).1) :=
  call_step w h

theorem emitRes_step {pos : Nat} {k : FaultKind} (r : Nat) (w : World) (h : Plan pos k w) :
    Plan pos k (emitRes r w).2 ∧ ((emitRes r w).2.fired = w.fired ∨ HitGood k (emitRes r w).1) := by
  have := call_step w h
  unfold emitRes
  generalize w.call = x at *
  obtain ⟨hit, w'⟩ := x
  exact this

theorem openRes_step {pos : Nat} {k : FaultKind} (r : Nat) (w : World) (h : Plan pos k w) :
    Plan pos k (openRes r w).2 ∧ ((openRes r w).2.fired = w.fired ∨ Good k (openRes r w).1) := by
  have := call_step w h
  unfold openRes
  generalize w.call = x at *
  obtain ⟨hit, w'⟩ := x
  unfold Plan at *
  cases hit <;> simp_all <;> grind

/-- (ii-a) closing makes no call -/
theorem closeP_plan {pos : Nat} {k : FaultKind} (p : Pipe) (w : World) (h : Plan pos k w) :
    Plan pos k (closeP p w).2 ∧ (closeP p w).2.fired = w.fired := by
  have := closeP_frame p w; unfold Frame Plan at *; grind
theorem closeFirst_plan {pos : Nat} {k : FaultKind} (ps : PipeList) (n : Nat) (w : World) (h : Plan pos k w) :
    Plan pos k (closeFirst ps n w).2 ∧ (closeFirst ps n w).2.fired = w.fired := by
  have := closeFirst_frame ps n w; unfold Frame Plan at *; grind
theorem closeAt_plan {pos : Nat} {k : FaultKind} (ps : PipeList) (n : Nat) (w : World) (h : Plan pos k w) :
    Plan pos k (closeAt ps n w).2 ∧ (closeAt ps n w).2.fired = w.fired := by
  have := closeAt_frame ps n w; unfold Frame Plan at *; grind

grind_pattern userCall_step => userCall w, Plan pos k w
grind_pattern emitRes_step => emitRes r w, Plan pos k w
grind_pattern openRes_step => openRes r w, Plan pos k w
grind_pattern closeP_plan => closeP p w, Plan pos k w
grind_pattern closeFirst_plan => closeFirst ps n w, Plan pos k w
grind_pattern closeAt_plan => closeAt ps n w, Plan pos k w

end ShpanVerif.Proofs.PipeC03
