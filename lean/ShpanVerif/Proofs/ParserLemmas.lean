/-
Helper lemmas for C19 (parser part): no modelled call panics; decoding what the serialiser wrote.
-/
import ShpanVerif.Model.Parser

namespace ShpanVerif.Proofs.Parser

open ShpanVerif.Model.Parser ShpanVerif.Model.Parser.Outcome

set_option linter.unusedSimpArgs false

/-! ### "never panics" -/

/-- the call returns a value or an error -/
def NoPanic {α : Type} (o : Outcome α) : Prop := o ≠ .panic

theorem np_ok {α : Type} (a : α) : NoPanic (Outcome.ok a) := by simp [NoPanic]
theorem np_reject {α : Type} : NoPanic (Outcome.reject : Outcome α) := by simp [NoPanic]

theorem np_bind {α β : Type} {x : Outcome α} {f : α → Outcome β}
    (hx : NoPanic x) (hf : ∀ a, NoPanic (f a)) : NoPanic (x >>= f) := by
  cases x with
  | ok a => exact hf a
  | reject => exact np_reject
  | panic => exact absurd rfl hx

theorem np_ite {α : Type} {c : Prop} [Decidable c] {a b : Outcome α}
    (ha : NoPanic a) (hb : NoPanic b) : NoPanic (if c then a else b) := by
  split <;> assumption

theorem np_mapList {α β : Type} {f : α → Outcome β} (hf : ∀ a, NoPanic (f a)) :
    ∀ l, NoPanic (mapList f l)
  | [] => np_ok _
  | a :: t => np_bind (hf a) (fun _ => np_bind (np_mapList hf t) (fun _ => np_ok _))

theorem np_asStr (j : Json) : NoPanic (asStr j) := by cases j <;> simp [asStr, NoPanic]
theorem np_asOptStr (j : Json) : NoPanic (asOptStr j) := by cases j <;> simp [asOptStr, NoPanic]
theorem np_asBool (j : Json) : NoPanic (asBool j) := by cases j <;> simp [asBool, NoPanic]
theorem np_asDec (j : Json) : NoPanic (asDec j) := by cases j <;> simp [asDec, NoPanic]
theorem np_asList (j : Json) : NoPanic (asList j) := by cases j <;> simp [asList, NoPanic]
theorem np_asMeta (j : Json) : NoPanic (asMeta j) := by cases j <;> simp [asMeta, NoPanic]
theorem np_asStruct (j : Json) : NoPanic (asStruct j) := by cases j <;> simp [asStruct, NoPanic]
theorem np_asTime (j : Json) : NoPanic (asTime j) := by cases j <;> simp [asTime, NoPanic]
theorem np_asInt64 (j : Json) : NoPanic (asInt64 j) := by
  cases j with
  | num m e => cases e <;> simp [asInt64, NoPanic]; split <;> simp
  | _ => simp [asInt64, NoPanic]
theorem np_asOptInt (j : Json) : NoPanic (asOptInt j) := by
  cases j with
  | num m e => cases e <;> simp [asOptInt, NoPanic]; split <;> simp
  | _ => simp [asOptInt, NoPanic]
theorem np_asStrList (j : Json) : NoPanic (asStrList j) := by
  cases j with
  | arr l => simp only [asStrList]; exact np_mapList np_asStr l
  | _ => simp [asStrList, NoPanic]
theorem np_discriminator (j : Json) : NoPanic (discriminator j) := by
  cases j with
  | obj kv => simp only [discriminator]; exact np_bind (np_asStr _) (fun _ => np_ok _)
  | _ => simp [discriminator, NoPanic]

/-- structural "no panic" prover: binds, ifs, decoders, hypotheses -/
macro "np_step" : tactic =>
  `(tactic| with_reducible first
    | exact np_ok _ | exact np_reject | exact np_asStr _ | exact np_asOptStr _ | exact np_asBool _
    | exact np_asDec _ | exact np_asList _ | exact np_asMeta _ | exact np_asStruct _ | exact np_asTime _
    | exact np_asInt64 _ | exact np_asOptInt _ | exact np_asStrList _ | exact np_discriminator _
    | assumption
    | apply np_bind
    | apply np_ite
    | apply np_mapList
    | (intro x; first | (obtain ⟨_, _⟩ := x; dsimp only) | skip)
    | split)

macro "np" : tactic => `(tactic| repeat' np_step)

/-! ### alignment periods: the duration guard -/

theorem maxInt64_div : maxInt64 / nsPerMs = 9223372036854 := by decide

/-- The D21 guard: a custom period is never a panic, and an accepted duration is positive and its
    nanosecond value is computed without int64 wrap-around. -/
theorem parseCustomPeriod_spec (zoneOk : String → Bool) (ms : Int) (zone : String) :
    (parseCustomPeriod zoneOk ms zone = .reject ∨
      (parseCustomPeriod zoneOk ms zone = .ok (.custom ms zone) ∧ zoneOk zone = true ∧
        0 < ms * nsPerMs ∧ ms * nsPerMs ≤ maxInt64 ∧ wrap64 (wrap64 ms * nsPerMs) = ms * nsPerMs)) := by
  unfold parseCustomPeriod
  rw [maxInt64_div]
  by_cases hz : zoneOk zone = true
  · simp only [hz, Bool.not_true, Bool.false_eq_true, if_false]
    by_cases h0 : ms ≤ 0
    · simp [h0]
    · by_cases h1 : ms > 9223372036854
      · simp [h0, h1]
      · right
        have hw : wrap64 ms = ms := by unfold wrap64; omega
        have hw2 : wrap64 (ms * nsPerMs) = ms * nsPerMs := by simp only [wrap64, nsPerMs]; omega
        have hpos : ¬ (ms * nsPerMs ≤ 0) := by simp only [nsPerMs]; omega
        refine ⟨?_, by first | exact hz | trivial, ?_, ?_, ?_⟩
        · rw [hw, hw2]
          simp only [h0, h1, if_false, newFixedAlignmentPeriod, hpos]
        · simp only [nsPerMs]; omega
        · simp only [nsPerMs, maxInt64]; omega
        · rw [hw, hw2]
  · simp [hz]

theorem np_parseCustomPeriod (zoneOk : String → Bool) (ms : Int) (zone : String) :
    NoPanic (parseCustomPeriod zoneOk ms zone) := by
  rcases parseCustomPeriod_spec zoneOk ms zone with h | ⟨h, _⟩ <;> simp [h, NoPanic]

theorem newFixed_pos {d : Int} (h : 0 < d) (p : Period) : newFixedAlignmentPeriod d p = .ok p := by
  unfold newFixedAlignmentPeriod
  rw [if_neg (by omega)]

theorem np_parseCalendarPeriod (zoneOk : String → Bool) (kind zone : String) :
    NoPanic (parseCalendarPeriod zoneOk kind zone) := by
  unfold parseCalendarPeriod
  rw [newFixed_pos (by decide), newFixed_pos (by decide)]
  np

theorem np_parsePeriod (zoneOk : String → Bool) (j : Json) : NoPanic (parsePeriod zoneOk j) := by
  unfold parsePeriod
  repeat' first | np_step | exact np_parseCustomPeriod _ _ _ | exact np_parseCalendarPeriod _ _ _

theorem np_parseAligner (zoneOk : String → Bool) (kv : Obj) : NoPanic (parseAligner zoneOk kv) := by
  unfold parseAligner
  repeat' first | np_step | exact np_parsePeriod _ _

theorem np_parseAddMeta (j : Json) : NoPanic (parseAddMeta j) := by unfold parseAddMeta; np
theorem np_parseFieldMeta (j : Json) : NoPanic (parseFieldMeta j) := by unfold parseFieldMeta; np
theorem np_parsePoint (j : Json) : NoPanic (parsePoint j) := by unfold parsePoint; np
theorem np_parseRow (j : Json) : NoPanic (parseRow j) := by unfold parseRow; np

theorem np_parseQField : ∀ (n : Nat) (j : Json), NoPanic (parseQField n j)
  | 0, _ => by simp [parseQField, NoPanic]
  | n + 1, j => by
    have ih := np_parseQField n
    rw [parseQField]
    repeat' first | np_step | exact ih _

theorem np_parseRField : ∀ (n : Nat) (j : Json), NoPanic (parseRField n j)
  | 0, _ => by simp [parseRField, NoPanic]
  | n + 1, j => by
    have ih := np_parseRField n
    rw [parseRField]
    repeat' first | np_step | exact ih _

theorem np_parseFilter (zoneOk : String → Bool) (n : Nat) (j : Json) : NoPanic (parseFilter zoneOk n j) := by
  unfold parseFilter
  repeat' first | np_step | exact np_parseAligner _ _ | exact np_parseQField _ _ | exact np_parseAddMeta _

theorem np_parseRFilter (zoneOk : String → Bool) (n : Nat) (j : Json) : NoPanic (parseRFilter zoneOk n j) := by
  unfold parseRFilter
  repeat' first | np_step | exact np_parseAligner _ _ | exact np_parseRField _ _ | exact np_parseAddMeta _

theorem np_parseDSs (zoneOk : String → Bool) (n : Nat) (h : ∀ j, NoPanic (parseDS zoneOk n j)) :
    ∀ l, NoPanic (parseDSs zoneOk n l)
  | [] => by rw [parseDSs]; exact np_ok _
  | j :: t => by
    have iht := np_parseDSs zoneOk n h t
    rw [parseDSs]
    repeat' first | np_step | exact h _

theorem np_parseRDSs (zoneOk : String → Bool) (n : Nat) (h : ∀ j, NoPanic (parseRDS zoneOk n j)) :
    ∀ l, NoPanic (parseRDSs zoneOk n l)
  | [] => by rw [parseRDSs]; exact np_ok _
  | j :: t => by
    have iht := np_parseRDSs zoneOk n h t
    rw [parseRDSs]
    repeat' first | np_step | exact h _

/-- No datasource / report parser call panics, for any fuel and any JSON value. -/
theorem np_all (zoneOk : String → Bool) : ∀ n : Nat,
    (∀ j, NoPanic (parseDS zoneOk n j)) ∧ (∀ j, NoPanic (parseMDS zoneOk n j)) ∧
    (∀ j, NoPanic (parseRDS zoneOk n j)) ∧ (∀ j, NoPanic (parseRMDS zoneOk n j))
  | 0 => by
    refine ⟨?_, ?_, ?_, ?_⟩ <;> intro j
    · rw [parseDS]; exact np_reject
    · rw [parseMDS]; exact np_reject
    · rw [parseRDS]; exact np_reject
    · rw [parseRMDS]; exact np_reject
  | n + 1 => by
    obtain ⟨h1, h2, h3, h4⟩ := np_all zoneOk n
    refine ⟨?_, ?_, ?_, ?_⟩ <;> intro j
    · rw [parseDS]
      repeat' first
        | np_step | exact h1 _ | exact h2 _ | exact h3 _ | exact np_parseFilter _ _ _ | exact np_parseAligner _ _
        | exact np_parseAddMeta _ | exact np_parseFieldMeta _ | exact np_parsePoint _ | exact np_parseQField _ _
    · rw [parseMDS]
      repeat' first
        | np_step | exact h2 _ | exact np_parseDSs _ _ h1 _ | exact np_parseFilter _ _ _
    · rw [parseRDS]
      repeat' first
        | np_step | exact h1 _ | exact h3 _ | exact h4 _ | exact np_parseRFilter _ _ _
        | exact np_parseFieldMeta _ | exact np_parseRow _
    · rw [parseRMDS]
      repeat' first
        | np_step | exact h2 _ | exact h4 _ | exact np_parseRDSs _ _ h3 _ | exact np_parseRFilter _ _ _

/-! ### the drop filter's planning step (D23) -/

theorem np_planDrop (fields urns : List String) : NoPanic (planDrop fields urns) := by
  unfold planDrop makeSliceCap
  have : ¬ (max 0 ((fields.length : Int) - ((urns.eraseDups).length : Int)) < 0) := by omega
  simp only [this, if_false]
  np

end ShpanVerif.Proofs.Parser
