/-
Helper lemmas for C19 (parser part): no modelled call panics; decoding what the serialiser wrote.
-/
import ShpanVerif.Model.Parser

namespace ShpanVerif.Proofs.Parser

open ShpanVerif.Model.Parser ShpanVerif.Model.Parser.Outcome

set_option linter.unusedSimpArgs false

/-! ### "never panics" -/

/-- the call returns a value or an error -/
def NoPanic {α : Type} (o : Outcome α) : Prop := o ≠ .panic

theorem np_ok {α : Type} (a : α) : NoPanic (Outcome.ok a) := by simp [NoPanic]
theorem np_reject {α : Type} : NoPanic (Outcome.reject : Outcome α) := by simp [NoPanic]

theorem np_bind {α β : Type} {x : Outcome α} {f : α → Outcome β}
    (hx : NoPanic x) (hf : ∀ a, NoPanic (f a)) : NoPanic (x >>= f) := by
  cases x with
  | ok a => exact hf a
  | reject => exact np_reject
  | panic => exact absurd rfl hx

theorem np_ite {α : Type} {c : Prop} [Decidable c] {a b : Outcome α}
    (ha : NoPanic a) (hb : NoPanic b) : NoPanic (if c then a else b) := by
  split <;> assumption

theorem np_mapList {α β : Type} {f : α → Outcome β} (hf : ∀ a, NoPanic (f a)) :
    ∀ l, NoPanic (mapList f l)
  | [] => np_ok _
  | a :: t => np_bind (hf a) (fun _ => np_bind (np_mapList hf t) (fun _ => np_ok _))

theorem np_asStr (j : Json) : NoPanic (asStr j) := by cases j <;> simp [asStr, NoPanic]
theorem np_asOptStr (j : Json) : NoPanic (asOptStr j) := by cases j <;> simp [asOptStr, NoPanic]
theorem np_asBool (j : Json) : NoPanic (asBool j) := by cases j <;> simp [asBool, NoPanic]
theorem np_asDec (j : Json) : NoPanic (asDec j) := by cases j <;> simp [asDec, NoPanic]
theorem np_asList (j : Json) : NoPanic (asList j) := by cases j <;> simp [asList, NoPanic]
theorem np_asMeta (j : Json) : NoPanic (asMeta j) := by cases j <;> simp [asMeta, NoPanic]
theorem np_asStruct (j : Json) : NoPanic (asStruct j) := by cases j <;> simp [asStruct, NoPanic]
theorem np_asTime (j : Json) : NoPanic (asTime j) := by cases j <;> simp [asTime, NoPanic]
theorem np_asInt64 (j : Json) : NoPanic (asInt64 j) := by
  cases j with
  | num m e => cases e <;> simp [asInt64, NoPanic]; split <;> simp
  | _ => simp [asInt64, NoPanic]
theorem np_asOptInt (j : Json) : NoPanic (asOptInt j) := by
  cases j with
  | num m e => cases e <;> simp [asOptInt, NoPanic]; split <;> simp
  | _ => simp [asOptInt, NoPanic]
theorem np_asStrList (j : Json) : NoPanic (asStrList j) := by
  cases j with
  | arr l => simp only [asStrList]; exact np_mapList np_asStr l
  | _ => simp [asStrList, NoPanic]
theorem np_discriminator (j : Json) : NoPanic (discriminator j) := by
  cases j with
  | obj kv => simp only [discriminator]; exact np_bind (np_asStr _) (fun _ => np_ok _)
  | _ => simp [discriminator, NoPanic]

/-- structural "no panic" prover: binds, ifs, decoders, hypotheses -/
macro "np_step" : tactic =>
  `(tactic| with_reducible first
    | exact np_ok _ | exact np_reject | exact np_asStr _ | exact np_asOptStr _ | exact np_asBool _
    | exact np_asDec _ | exact np_asList _ | exact np_asMeta _ | exact np_asStruct _ | exact np_asTime _
    | exact np_asInt64 _ | exact np_asOptInt _ | exact np_asStrList _ | exact np_discriminator _
    | assumption
    | apply np_bind
    | apply np_ite
    | apply np_mapList
    | (intro x; first | (obtain ⟨_, _⟩ := x; dsimp only) | skip)
    | split)

macro "np" : tactic => `(tactic| repeat' np_step)

/-! ### alignment periods: the duration guard -/

theorem maxInt64_div : maxInt64 / nsPerMs = 9223372036854 := by decide

/-- The D21 guard: a custom period is never a panic, and an accepted duration is positive and its
    nanosecond value is computed without int64 wrap-around. -/
theorem parseCustomPeriod_spec (zoneOk : String → Bool) (ms : Int) (zone : String) :
    (parseCustomPeriod zoneOk ms zone = .reject ∨
      (parseCustomPeriod zoneOk ms zone = .ok (.custom ms zone) ∧ zoneOk zone = true ∧
        0 < ms * nsPerMs ∧ ms * nsPerMs ≤ maxInt64 ∧ wrap64 (wrap64 ms * nsPerMs) = ms * nsPerMs)) := by
  unfold parseCustomPeriod
  rw [maxInt64_div]
  by_cases hz : zoneOk zone = true
  · simp only [hz, Bool.not_true, Bool.false_eq_true, if_false]
    by_cases h0 : ms ≤ 0
    · simp [h0]
    · by_cases h1 : ms > 9223372036854
      · simp [h0, h1]
      · right
        have hw : wrap64 ms = ms := by unfold wrap64; omega
        have hw2 : wrap64 (ms * nsPerMs) = ms * nsPerMs := by simp only [wrap64, nsPerMs]; omega
        have hpos : ¬ (ms * nsPerMs ≤ 0) := by simp only [nsPerMs]; omega
        refine ⟨?_, by first | exact hz | trivial, ?_, ?_, ?_⟩
        · rw [hw, hw2]
          simp only [h0, h1, if_false, newFixedAlignmentPeriod, hpos]
        · simp only [nsPerMs]; omega
        · simp only [nsPerMs, maxInt64]; omega
        · rw [hw, hw2]
  · simp [hz]

theorem np_parseCustomPeriod (zoneOk : String → Bool) (ms : Int) (zone : String) :
    NoPanic (parseCustomPeriod zoneOk ms zone) := by
  rcases parseCustomPeriod_spec zoneOk ms zone with h | ⟨h, _⟩ <;> simp [h, NoPanic]

theorem newFixed_pos {d : Int} (h : 0 < d) (p : Period) : newFixedAlignmentPeriod d p = .ok p := by
  unfold newFixedAlignmentPeriod
  rw [if_neg (by omega)]

theorem np_parseCalendarPeriod (zoneOk : String → Bool) (kind zone : String) :
    NoPanic (parseCalendarPeriod zoneOk kind zone) := by
  unfold parseCalendarPeriod
  rw [newFixed_pos (by decide), newFixed_pos (by decide)]
  np

theorem np_parsePeriod (zoneOk : String → Bool) (j : Json) : NoPanic (parsePeriod zoneOk j) := by
  unfold parsePeriod
  repeat' first | np_step | exact np_parseCustomPeriod _ _ _ | exact np_parseCalendarPeriod _ _ _

theorem np_parseAligner (zoneOk : String → Bool) (kv : Obj) : NoPanic (parseAligner zoneOk kv) := by
  unfold parseAligner
  repeat' first | np_step | exact np_parsePeriod _ _

theorem np_parseAddMeta (j : Json) : NoPanic (parseAddMeta j) := by unfold parseAddMeta; np
theorem np_parseFieldMeta (j : Json) : NoPanic (parseFieldMeta j) := by unfold parseFieldMeta; np
theorem np_parsePoint (j : Json) : NoPanic (parsePoint j) := by unfold parsePoint; np
theorem np_parseRow (j : Json) : NoPanic (parseRow j) := by unfold parseRow; np

theorem np_parseQField : ∀ (n : Nat) (j : Json), NoPanic (parseQField n j)
  | 0, _ => by simp [parseQField, NoPanic]
  | n + 1, j => by
    have ih := np_parseQField n
    rw [parseQField]
    repeat' first | np_step | exact ih _

theorem np_parseRField : ∀ (n : Nat) (j : Json), NoPanic (parseRField n j)
  | 0, _ => by simp [parseRField, NoPanic]
  | n + 1, j => by
    have ih := np_parseRField n
    rw [parseRField]
    repeat' first | np_step | exact ih _

theorem np_parseFilter (zoneOk : String → Bool) (n : Nat) (j : Json) : NoPanic (parseFilter zoneOk n j) := by
  unfold parseFilter
  repeat' first | np_step | exact np_parseAligner _ _ | exact np_parseQField _ _ | exact np_parseAddMeta _

theorem np_parseRFilter (zoneOk : String → Bool) (n : Nat) (j : Json) : NoPanic (parseRFilter zoneOk n j) := by
  unfold parseRFilter
  repeat' first | np_step | exact np_parseAligner _ _ | exact np_parseRField _ _ | exact np_parseAddMeta _

theorem np_parseDSs (zoneOk : String → Bool) (n : Nat) (h : ∀ j, NoPanic (parseDS zoneOk n j)) :
    ∀ l, NoPanic (parseDSs zoneOk n l)
  | [] => by rw [parseDSs]; exact np_ok _
  | j :: t => by
    have iht := np_parseDSs zoneOk n h t
    rw [parseDSs]
    repeat' first | np_step | exact h _

theorem np_parseRDSs (zoneOk : String → Bool) (n : Nat) (h : ∀ j, NoPanic (parseRDS zoneOk n j)) :
    ∀ l, NoPanic (parseRDSs zoneOk n l)
  | [] => by rw [parseRDSs]; exact np_ok _
  | j :: t => by
    have iht := np_parseRDSs zoneOk n h t
    rw [parseRDSs]
    repeat' first | np_step | exact h _

/-- No datasource / report parser call panics, for any fuel and any JSON value. -/
theorem np_all (zoneOk : String → Bool) : ∀ n : Nat,
    (∀ j, NoPanic (parseDS zoneOk n j)) ∧ (∀ j, NoPanic (parseMDS zoneOk n j)) ∧
    (∀ j, NoPanic (parseRDS zoneOk n j)) ∧ (∀ j, NoPanic (parseRMDS zoneOk n j))
  | 0 => by
    refine ⟨?_, ?_, ?_, ?_⟩ <;> intro j
    · rw [parseDS]; exact np_reject
    · rw [parseMDS]; exact np_reject
    · rw [parseRDS]; exact np_reject
    · rw [parseRMDS]; exact np_reject
  | n + 1 => by
    obtain ⟨h1, h2, h3, h4⟩ := np_all zoneOk n
    refine ⟨?_, ?_, ?_, ?_⟩ <;> intro j
    · rw [parseDS]
      repeat' first
        | np_step | exact h1 _ | exact h2 _ | exact h3 _ | exact np_parseFilter _ _ _ | exact np_parseAligner _ _
        | exact np_parseAddMeta _ | exact np_parseFieldMeta _ | exact np_parsePoint _ | exact np_parseQField _ _
    · rw [parseMDS]
      repeat' first
        | np_step | exact h2 _ | exact np_parseDSs _ _ h1 _ | exact np_parseFilter _ _ _
    · rw [parseRDS]
      repeat' first
        | np_step | exact h1 _ | exact h3 _ | exact h4 _ | exact np_parseRFilter _ _ _
        | exact np_parseFieldMeta _ | exact np_parseRow _
    · rw [parseRMDS]
      repeat' first
        | np_step | exact h2 _ | exact h4 _ | exact np_parseRDSs _ _ h3 _ | exact np_parseRFilter _ _ _

/-! ### the drop filter's planning step (D23) -/

theorem np_planDrop (fields urns : List String) : NoPanic (planDrop fields urns) := by
  unfold planDrop makeSliceCap
  have : ¬ (max 0 ((fields.length : Int) - ((urns.eraseDups).length : Int)) < 0) := by omega
  simp only [this, if_false]
  np

/-! ### decoding what the serialiser wrote -/

@[simp] theorem member_nil (k : String) : member [] k = .null := rfl

@[simp] theorem member_cons (k k' : String) (v : Json) (rest : Obj) :
    member ((k, v) :: rest) k' = if k' == k then v else member rest k' := by
  simp only [member, List.lookup]
  split <;> simp_all

@[simp] theorem optKV_true (k : String) (v : Json) : optKV true k v = [(k, v)] := rfl
@[simp] theorem optKV_false (k : String) (v : Json) : optKV false k v = [] := rfl

theorem mapList_asStr (l : List String) : mapList asStrElem (l.map Json.str) = .ok l := by
  induction l with
  | nil => rfl
  | cons a t ih =>
    simp only [List.map, mapList, ih]
    simp [asStrElem, asStr]

theorem asStrList_ser (l : List String) : asStrList (serStrs l) = .ok l := by
  simp [asStrList, serStrs, mapList_asStr]

/-- the `omitempty` test of a string member -/
theorem strPresent (u : String) : (u != "") = if u = "" then false else true := by
  by_cases h : u = "" <;> simp [h]

/-- the `omitempty` test of a map / slice member -/
theorem listPresent {α : Type} (l : List α) : (!l.isEmpty) = if l = [] then false else true := by
  cases l <;> simp

theorem rt_addMeta (m : AddMeta) : parseAddMeta (serAddMeta m) = .ok m := by
  obtain ⟨uri, unit, custom⟩ := m
  by_cases hc : custom = [] <;> by_cases hu : unit = "" <;>
    simp [parseAddMeta, serAddMeta, asStruct, asMeta, asStr, strPresent, listPresent, hc, hu]

/-- `NewFieldMetaWithCustomData` accepts the metadata. -/
def ValidFieldMeta (m : FieldMeta) : Prop := m.uri ≠ "" ∧ m.dataType ∈ dataTypes

theorem rt_fieldMeta (m : FieldMeta) (h : ValidFieldMeta m) : parseFieldMeta (serFieldMeta m) = .ok m := by
  obtain ⟨uri, dt, req, unit, custom⟩ := m
  obtain ⟨h1, h2⟩ := h
  simp only at h1 h2
  by_cases hc : custom = [] <;> by_cases hu : unit = "" <;>
    simp [parseFieldMeta, serFieldMeta, asStruct, asMeta, asStr, asBool, strPresent, listPresent, hc, hu, h1, h2]

/-- What `ParseAlignmentPeriod` accepts. -/
def ValidPeriod (zoneOk : String → Bool) : Period → Prop
  | .custom ms zone => zoneOk zone = true ∧ 0 < ms ∧ ms ≤ 9223372036854
  | .calendar kind zone => zoneOk zone = true ∧ kind ∈ calendarKinds

theorem parseCustomPeriod_ok (zoneOk : String → Bool) (ms : Int) (zone : String)
    (hz : zoneOk zone = true) (h0 : 0 < ms) (h1 : ms ≤ 9223372036854) :
    parseCustomPeriod zoneOk ms zone = .ok (.custom ms zone) := by
  rcases parseCustomPeriod_spec zoneOk ms zone with h | ⟨h, _⟩
  · exfalso
    unfold parseCustomPeriod at h
    rw [maxInt64_div] at h
    have hw : wrap64 ms = ms := by unfold wrap64; omega
    have hw2 : wrap64 (ms * nsPerMs) = ms * nsPerMs := by simp only [wrap64, nsPerMs]; omega
    have hpos : 0 < ms * nsPerMs := by simp only [nsPerMs]; omega
    rw [hw, hw2, newFixed_pos hpos] at h
    simp [hz, show ¬ ms ≤ 0 by omega, show ¬ ms > 9223372036854 by omega] at h
  · exact h

theorem rt_period (zoneOk : String → Bool) (p : Period) (h : ValidPeriod zoneOk p) :
    parsePeriod zoneOk (serPeriod p) = .ok p := by
  cases p with
  | custom ms zone =>
    obtain ⟨hz, h0, h1⟩ := h
    have hr : minInt64 ≤ ms ∧ ms ≤ maxInt64 := by simp only [minInt64, maxInt64]; omega
    simp [parsePeriod, serPeriod, discriminator, asStr, asInt64, hr, parseCustomPeriod_ok zoneOk ms zone hz h0 h1]
  | calendar kind zone =>
    obtain ⟨hz, hk⟩ := h
    simp only [parsePeriod, serPeriod, discriminator, asStr, member_cons, member_nil]
    simp only [calendarKinds, List.mem_cons, List.not_mem_nil, or_false] at hk
    rcases hk with rfl | rfl | rfl | rfl | rfl | rfl | rfl | rfl <;>
      simp [parseCalendarPeriod, hz, newFixed_pos, calendarKinds]

/-- What `parseAlignerFilter` accepts. -/
def ValidAligner (zoneOk : String → Bool) (a : Aligner) : Prop :=
  ValidPeriod zoneOk a.period ∧ ∀ m, a.fillMode = some m → m ∈ fillModes

theorem rt_aligner (zoneOk : String → Bool) (ty : String) (a : Aligner) (h : ValidAligner zoneOk a) :
    parseAligner zoneOk (serAlignerKV ty a) = .ok a := by
  obtain ⟨p, fm⟩ := a
  obtain ⟨hp, hf⟩ := h
  cases fm with
  | none => simp [parseAligner, serAlignerKV, asOptStr, asStr, rt_period zoneOk p hp]
  | some m =>
    have hm : m ∈ fillModes := hf m rfl
    simp [parseAligner, serAlignerKV, asOptStr, asStr, rt_period zoneOk p hp, hm]

/-! ### field values -/

def qDepth : QField → Nat
  | .constant .. => 1
  | .condition _ a b => max (qDepth a) (qDepth b) + 1
  | .logical _ a b => max (qDepth a) (qDepth b) + 1
  | .ref => 1
  | .selector s t f => max (qDepth s) (max (qDepth t) (qDepth f)) + 1
  | .nvl s a => max (qDepth s) (qDepth a) + 1
  | .cast s _ => qDepth s + 1
  | .numeric _ a b => max (qDepth a) (qDepth b) + 1
  | .unary _ a => qDepth a + 1
  | .nil .. => 1

def rDepth : RField → Nat
  | .constant .. => 1
  | .condition _ a b => max (rDepth a) (rDepth b) + 1
  | .logical _ a b => max (rDepth a) (rDepth b) + 1
  | .ref _ => 1
  | .selector s t f => max (rDepth s) (max (rDepth t) (rDepth f)) + 1
  | .nvl s a => max (rDepth s) (rDepth a) + 1
  | .cast s _ => rDepth s + 1
  | .numeric _ a b => max (rDepth a) (rDepth b) + 1
  | .unary _ a => rDepth a + 1
  | .reduce .. => 1
  | .nil .. => 1

theorem rt_qfield : ∀ (f : QField) (n : Nat), qDepth f ≤ n → parseQField n (serQField f) = .ok f := by
  intro f
  induction f with
  | constant dt v r u =>
    intro n h; cases n with
    | zero => simp [qDepth] at h
    | succ n => by_cases hu : u = "" <;> simp [parseQField, serQField, discriminator, asStr, asBool, strPresent, hu]
  | condition op a b iha ihb =>
    intro n h; cases n with
    | zero => simp [qDepth] at h
    | succ n =>
      simp only [qDepth] at h
      simp [parseQField, serQField, discriminator, asStr, iha n (by omega), ihb n (by omega)]
  | logical op a b iha ihb =>
    intro n h; cases n with
    | zero => simp [qDepth] at h
    | succ n =>
      simp only [qDepth] at h
      simp [parseQField, serQField, discriminator, asStr, iha n (by omega), ihb n (by omega)]
  | ref =>
    intro n h; cases n with
    | zero => simp [qDepth] at h
    | succ n => simp [parseQField, serQField, discriminator, asStr]
  | selector s t f ihs iht ihf =>
    intro n h; cases n with
    | zero => simp [qDepth] at h
    | succ n =>
      simp only [qDepth] at h
      simp [parseQField, serQField, discriminator, asStr, ihs n (by omega), iht n (by omega), ihf n (by omega)]
  | nvl s a ihs iha =>
    intro n h; cases n with
    | zero => simp [qDepth] at h
    | succ n =>
      simp only [qDepth] at h
      simp [parseQField, serQField, discriminator, asStr, ihs n (by omega), iha n (by omega)]
  | cast s tt ihs =>
    intro n h; cases n with
    | zero => simp [qDepth] at h
    | succ n =>
      simp only [qDepth] at h
      simp [parseQField, serQField, discriminator, asStr, ihs n (by omega)]
  | numeric op a b iha ihb =>
    intro n h; cases n with
    | zero => simp [qDepth] at h
    | succ n =>
      simp only [qDepth] at h
      simp [parseQField, serQField, discriminator, asStr, iha n (by omega), ihb n (by omega)]
  | unary op a iha =>
    intro n h; cases n with
    | zero => simp [qDepth] at h
    | succ n =>
      simp only [qDepth] at h
      simp [parseQField, serQField, discriminator, asStr, iha n (by omega)]
  | nil dt u =>
    intro n h; cases n with
    | zero => simp [qDepth] at h
    | succ n => by_cases hu : u = "" <;> simp [parseQField, serQField, discriminator, asStr, strPresent, hu]

theorem rt_rfield : ∀ (f : RField) (n : Nat), rDepth f ≤ n → parseRField n (serRField f) = .ok f := by
  intro f
  induction f with
  | constant dt v r u =>
    intro n h; cases n with
    | zero => simp [rDepth] at h
    | succ n => by_cases hu : u = "" <;> simp [parseRField, serRField, discriminator, asStr, asBool, strPresent, hu]
  | condition op a b iha ihb =>
    intro n h; cases n with
    | zero => simp [rDepth] at h
    | succ n =>
      simp only [rDepth] at h
      simp [parseRField, serRField, discriminator, asStr, iha n (by omega), ihb n (by omega)]
  | logical op a b iha ihb =>
    intro n h; cases n with
    | zero => simp [rDepth] at h
    | succ n =>
      simp only [rDepth] at h
      simp [parseRField, serRField, discriminator, asStr, iha n (by omega), ihb n (by omega)]
  | ref urn =>
    intro n h; cases n with
    | zero => simp [rDepth] at h
    | succ n => simp [parseRField, serRField, discriminator, asStr]
  | selector s t f ihs iht ihf =>
    intro n h; cases n with
    | zero => simp [rDepth] at h
    | succ n =>
      simp only [rDepth] at h
      simp [parseRField, serRField, discriminator, asStr, ihs n (by omega), iht n (by omega), ihf n (by omega)]
  | nvl s a ihs iha =>
    intro n h; cases n with
    | zero => simp [rDepth] at h
    | succ n =>
      simp only [rDepth] at h
      simp [parseRField, serRField, discriminator, asStr, ihs n (by omega), iha n (by omega)]
  | cast s tt ihs =>
    intro n h; cases n with
    | zero => simp [rDepth] at h
    | succ n =>
      simp only [rDepth] at h
      simp [parseRField, serRField, discriminator, asStr, ihs n (by omega)]
  | numeric op a b iha ihb =>
    intro n h; cases n with
    | zero => simp [rDepth] at h
    | succ n =>
      simp only [rDepth] at h
      simp [parseRField, serRField, discriminator, asStr, iha n (by omega), ihb n (by omega)]
  | unary op a iha =>
    intro n h; cases n with
    | zero => simp [rDepth] at h
    | succ n =>
      simp only [rDepth] at h
      simp [parseRField, serRField, discriminator, asStr, iha n (by omega)]
  | reduce us rt =>
    intro n h; cases n with
    | zero => simp [rDepth] at h
    | succ n =>
      by_cases hu : us = []
      · simp [parseRField, serRField, discriminator, asStr, asStrList, listPresent, hu]
      · simp [parseRField, serRField, discriminator, asStr, asStrList_ser, listPresent, hu]
  | nil dt u =>
    intro n h; cases n with
    | zero => simp [rDepth] at h
    | succ n => by_cases hu : u = "" <;> simp [parseRField, serRField, discriminator, asStr, strPresent, hu]

/-! ### filters -/

/-- a decimal literal in the form `json.Marshal` omits/writes it: zero is `0` -/
def ValidDec (d : Dec) : Prop := d.m = 0 → d.e = 0

def ValidFilter (zoneOk : String → Bool) : Filter → Prop
  | .aligner a => ValidAligner zoneOk a
  | .condition _ => True
  | .fieldValue _ _ => True
  | .overrideMeta _ _ _ => True
  | .delta nn mx => counterRuleOk nn mx = true ∧ ValidDec mx
  | .rate _ ps nn mx => counterRuleOk nn mx = true ∧ ValidDec mx ∧ ∀ p, ps = some p → minInt64 ≤ p ∧ p ≤ maxInt64

def fDepth : Filter → Nat
  | .condition f => qDepth f
  | .fieldValue f _ => qDepth f
  | _ => 0

def ValidRFilter (zoneOk : String → Bool) : RFilter → Prop
  | .aligner a => ValidAligner zoneOk a
  | .dropFields us => us ≠ []
  | .projection us => us ≠ []
  | _ => True

def rfDepth : RFilter → Nat
  | .condition f => rDepth f
  | .appendField f _ => rDepth f
  | .singleField f _ => rDepth f
  | _ => 0

theorem decPresent (m : Int) : (m != 0) = if m = 0 then false else true := by
  by_cases h : m = 0 <;> simp [h]

set_option maxHeartbeats 1600000 in
theorem rt_filter_rate (zoneOk : String → Bool) (n : Nat) (u : String) (ps : Option Int) (nn : Bool) (mx : Dec)
    (hv : ValidFilter zoneOk (.rate u ps nn mx)) :
    parseFilter zoneOk n (serFilter (.rate u ps nn mx)) = .ok (.rate u ps nn mx) := by
  obtain ⟨hr, hdv, hps⟩ := hv
  obtain ⟨m, e⟩ := mx
  by_cases hm : m = 0
  · have he : e = 0 := hdv hm
    subst hm; subst he
    cases ps with
    | none =>
      by_cases hu : u = "" <;> cases nn <;>
        simp [serFilter, parseFilter, discriminator, asStr, asDec, asBool, asOptInt, hr, strPresent, hu]
    | some p =>
      have hp := hps p rfl
      by_cases hu : u = "" <;> cases nn <;>
        simp [serFilter, parseFilter, discriminator, asStr, asDec, asBool, asOptInt, hr, strPresent, hu, hp]
  · cases ps with
    | none =>
      by_cases hu : u = "" <;> cases nn <;>
        simp [serFilter, parseFilter, discriminator, asStr, asDec, asBool, asOptInt, serDec, decPresent,
          hr, strPresent, hu, hm]
    | some p =>
      have hp := hps p rfl
      by_cases hu : u = "" <;> cases nn <;>
        simp [serFilter, parseFilter, discriminator, asStr, asDec, asBool, asOptInt, serDec, decPresent,
          hr, strPresent, hu, hm, hp]

theorem rt_filter (zoneOk : String → Bool) (f : Filter) (n : Nat) (hv : ValidFilter zoneOk f)
    (hd : fDepth f ≤ n) : parseFilter zoneOk n (serFilter f) = .ok f := by
  cases f with
  | aligner a =>
    simp only [serFilter, parseFilter, discriminator]
    have ht : member (serAlignerKV "aligner" a) "type" = .str "aligner" := by
      obtain ⟨p, fm⟩ := a
      cases fm <;> simp [serAlignerKV]
    simp [ht, asStr, rt_aligner zoneOk "aligner" a hv]
  | condition q =>
    simp [serFilter, parseFilter, discriminator, asStr, rt_qfield q n hd]
  | fieldValue q m =>
    simp [serFilter, parseFilter, discriminator, asStr, rt_qfield q n hd, rt_addMeta]
  | overrideMeta urn unit c =>
    by_cases h1 : urn = "" <;> by_cases h2 : unit = "" <;> by_cases h3 : c = [] <;>
      simp [serFilter, parseFilter, discriminator, asStr, asMeta, strPresent, listPresent, h1, h2, h3]
  | delta nn mx =>
    obtain ⟨hr, hdv⟩ := hv
    obtain ⟨m, e⟩ := mx
    by_cases hm : m = 0
    · have he : e = 0 := hdv hm
      subst hm; subst he
      cases nn <;> simp [serFilter, parseFilter, discriminator, asStr, asDec, asBool, hr]
    · cases nn <;>
        simp [serFilter, parseFilter, discriminator, asStr, asDec, asBool, serDec, decPresent, hm, hr]
  | rate u ps nn mx => exact rt_filter_rate zoneOk n u ps nn mx hv

theorem rt_rfilter (zoneOk : String → Bool) (f : RFilter) (n : Nat) (hv : ValidRFilter zoneOk f)
    (hd : rfDepth f ≤ n) : parseRFilter zoneOk n (serRFilter f) = .ok f := by
  cases f with
  | aligner a =>
    simp only [serRFilter, parseRFilter, discriminator]
    have ht : member (serAlignerKV "aligner" a) "type" = .str "aligner" := by
      obtain ⟨p, fm⟩ := a
      cases fm <;> simp [serAlignerKV]
    simp [ht, asStr, rt_aligner zoneOk "aligner" a hv]
  | condition q =>
    simp [serRFilter, parseRFilter, discriminator, asStr, rt_rfield q n hd]
  | appendField q m =>
    simp [serRFilter, parseRFilter, discriminator, asStr, rt_rfield q n hd, rt_addMeta]
  | dropFields us =>
    have : us ≠ [] := hv
    simp [serRFilter, parseRFilter, discriminator, asStr, asStrList_ser, this]
  | singleField q m =>
    simp [serRFilter, parseRFilter, discriminator, asStr, rt_rfield q n hd, rt_addMeta]
  | projection us =>
    have : us ≠ [] := hv
    simp [serRFilter, parseRFilter, discriminator, asStr, asStrList_ser, this]

theorem rt_filters (zoneOk : String → Bool) (n : Nat) : ∀ (fs : List Filter),
    (∀ f ∈ fs, ValidFilter zoneOk f ∧ fDepth f ≤ n) →
    mapList (parseFilter zoneOk n) (fs.map serFilter) = .ok fs
  | [], _ => rfl
  | f :: t, h => by
    have h1 := h f List.mem_cons_self
    have h2 := rt_filters zoneOk n t (fun g hg => h g (List.mem_cons_of_mem _ hg))
    simp [mapList, rt_filter zoneOk f n h1.1 h1.2, h2]

theorem rt_rfilters (zoneOk : String → Bool) (n : Nat) : ∀ (fs : List RFilter),
    (∀ f ∈ fs, ValidRFilter zoneOk f ∧ rfDepth f ≤ n) →
    mapList (parseRFilter zoneOk n) (fs.map serRFilter) = .ok fs
  | [], _ => rfl
  | f :: t, h => by
    have h1 := h f List.mem_cons_self
    have h2 := rt_rfilters zoneOk n t (fun g hg => h g (List.mem_cons_of_mem _ hg))
    simp [mapList, rt_rfilter zoneOk f n h1.1 h1.2, h2]

end ShpanVerif.Proofs.Parser
