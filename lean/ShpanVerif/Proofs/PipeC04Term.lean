/-
C04 termination, part 1: a count-only semantic invariant.

`Term F p n` — the opened operator state `p` emits at most `n` more values, and no provider call on `p`,
nor on any state reached from it, needs more than `F` fuel (in a clean world).  It is defined as a greatest
fixed point by hand ("there is a relation closed under provider calls"), so that each operator can be
handled by exhibiting the relation on its own states.  No list-level meaning is involved: the invariant
also covers pipelines whose preconditions fail (unsorted cluster / merge inputs), where a call may return
a library error — an error ends the materialisation and is allowed everywhere.
-/
import ShpanVerif.Proofs.PipeC04Ops

namespace ShpanVerif.Proofs.PipeC04
open ShpanVerif.Model.Pipe ShpanVerif

/-- what a provider call with enough fuel may return for a state with at most `n` values left -/
def TRes (R : Pipe → Nat → Prop) (r : Res V × Pipe × World) (n : Nat) : Prop :=
  match r with
  | (.val _, p', w') => w'.Clean ∧ ∃ m, m < n ∧ R p' m
  | (.eof, p', w') => w'.Clean ∧ R p' n
  | (.fail _, _, _) => True
  | (.panic _, _, _) => False
  | (.oof, _, _) => False

def TStep (F : Nat) (R : Pipe → Nat → Prop) (p : Pipe) (n : Nat) : Prop :=
  ∀ w : World, w.Clean → ∀ fuel, F ≤ fuel → TRes R (emitP fuel p w) n

def Term (F : Nat) (p : Pipe) (n : Nat) : Prop :=
  ∃ R : Pipe → Nat → Prop, (∀ q m, R q m → TStep F R q m) ∧ R p n

theorem TRes.imp {R S : Pipe → Nat → Prop} (h : ∀ q m, R q m → S q m) {r : Res V × Pipe × World} {n : Nat}
    (hr : TRes R r n) : TRes S r n := by
  rcases r with ⟨res, p', w'⟩
  cases res <;> simp only [TRes] at hr ⊢
  · obtain ⟨hc, m, hm, hR⟩ := hr; exact ⟨hc, m, hm, h _ _ hR⟩
  · exact ⟨hr.1, h _ _ hr.2⟩

/-- coinduction principle -/
theorem Term.intro {F : Nat} (R : Pipe → Nat → Prop) (hR : ∀ q m, R q m → TStep F R q m) {p : Pipe} {n : Nat}
    (h : R p n) : Term F p n := ⟨R, hR, h⟩

theorem Term.step {F : Nat} {p : Pipe} {n : Nat} (h : Term F p n) : TStep F (Term F) p n := by
  obtain ⟨R, hR, hp⟩ := h
  intro w hw fuel hf
  exact (hR p n hp w hw fuel hf).imp (fun q m hq => ⟨R, hR, hq⟩)

theorem Term.mono_n {F : Nat} {p : Pipe} {m n : Nat} (h : Term F p m) (hmn : m ≤ n) : Term F p n := by
  refine Term.intro (fun q n => ∃ m, m ≤ n ∧ Term F q m) ?_ ⟨m, hmn, h⟩
  intro q n ⟨m, hmn, hq⟩ w hw fuel hf
  have := hq.step w hw fuel hf
  rcases hr : emitP fuel q w with ⟨res, p', w'⟩
  rw [hr] at this
  cases res <;> simp only [TRes] at this ⊢
  · obtain ⟨hc, m', hm', ht⟩ := this
    exact ⟨hc, m', by omega, m', Nat.le_refl _, ht⟩
  · exact ⟨this.1, m, hmn, this.2⟩

theorem Term.mono_F {F G : Nat} {p : Pipe} {n : Nat} (h : Term F p n) (hFG : F ≤ G) : Term G p n := by
  refine Term.intro (Term F) ?_ h
  intro q m hq w hw fuel hf
  exact hq.step w hw fuel (Nat.le_trans hFG hf)

/-- weakening of a call result in the count -/
theorem TRes.mono_n {F : Nat} {r : Res V × Pipe × World} {m n : Nat} (h : TRes (Term F) r m) (hmn : m ≤ n) :
    TRes (Term F) r n := by
  rcases r with ⟨res, p', w'⟩
  cases res <;> simp only [TRes] at h ⊢
  · obtain ⟨hc, m', hm', ht⟩ := h; exact ⟨hc, m', by omega, ht⟩
  · exact ⟨h.1, h.2.mono_n hmn⟩

theorem fuel_succ {F fuel : Nat} (h : F + 1 ≤ fuel) : ∃ f, fuel = f + 1 ∧ F ≤ f :=
  ⟨fuel - 1, by omega, by omega⟩

/-! ### the operators without sub-loops -/

theorem term_src (r : Nat) (xs : List Int) (idx : Nat) : Term 1 (.src r xs idx) (xs.length - idx) := by
  refine Term.intro (fun q m => ∃ idx, q = .src r xs idx ∧ xs.length - idx ≤ m) ?_ ⟨idx, rfl, Nat.le_refl _⟩
  rintro q m ⟨idx, rfl, hm⟩ w hw fuel hf
  obtain ⟨f, rfl, _⟩ := fuel_succ hf
  rw [emitP]
  obtain ⟨w', he, hc⟩ := emitRes_clean r hw
  rw [he]
  simp only
  cases hx : xs[idx]? with
  | none => exact ⟨hc, idx, rfl, hm⟩
  | some x =>
    have hlt : idx < xs.length := (List.getElem?_eq_some_iff.mp hx).1
    exact ⟨hc, xs.length - (idx + 1), by omega, idx + 1, rfl, Nat.le_refl _⟩

theorem term_lc {F : Nat} (r : Nat) {p : Pipe} {n : Nat} (h : Term F p n) : Term (F+1) (.lc r p) n := by
  refine Term.intro (fun q m => ∃ p, q = .lc r p ∧ Term F p m) ?_ ⟨p, rfl, h⟩
  rintro q m ⟨p, rfl, hp⟩ w hw fuel hf
  obtain ⟨f, rfl, hf'⟩ := fuel_succ hf
  have := hp.step w hw f hf'
  rw [emitP]
  rcases he : emitP f p w with ⟨res, p', w'⟩
  rw [he] at this
  cases res <;> simp only [TRes] at this ⊢
  · obtain ⟨hc, m', hm', ht⟩ := this; exact ⟨hc, m', hm', p', rfl, ht⟩
  · exact ⟨this.1, p', rfl, this.2⟩

theorem term_map {F : Nat} (g : Fn) {p : Pipe} {n : Nat} (h : Term F p n) : Term (F+1) (.map g p) n := by
  refine Term.intro (fun q m => ∃ p, q = .map g p ∧ Term F p m) ?_ ⟨p, rfl, h⟩
  rintro q m ⟨p, rfl, hp⟩ w hw fuel hf
  obtain ⟨f, rfl, hf'⟩ := fuel_succ hf
  have := hp.step w hw f hf'
  rw [emitP]
  rcases he : emitP f p w with ⟨res, p', w'⟩
  rw [he] at this
  cases res <;> simp only [TRes] at this ⊢
  · obtain ⟨hc, m', hm', ht⟩ := this
    obtain ⟨w'', hu, hc'⟩ := userCall_clean hc
    rw [hu]
    exact ⟨hc', m', hm', p', rfl, ht⟩
  · exact ⟨this.1, p', rfl, this.2⟩

/-- Filter: one call may skip over up to `m` rejected elements -/
theorem filter_call {F F' : Nat} (g : Pred) : ∀ (m : Nat) (p : Pipe) (w : World) (fuel : Nat),
    Term F p m → F + m + 2 ≤ F' → w.Clean → F + m + 1 ≤ fuel →
    TRes (fun q m => ∃ p, q = .filter g p ∧ Term F p m ∧ F + m + 2 ≤ F') (emitP fuel (.filter g p) w) m := by
  intro m
  induction m using Nat.strongRecOn with
  | _ m ih =>
    intro p w fuel hp hF hw hf
    obtain ⟨f, rfl, hf'⟩ := fuel_succ (F := F + m) (by omega)
    have := hp.step w hw f (by omega)
    rw [emitP]
    rcases he : emitP f p w with ⟨res, p', w'⟩
    rw [he] at this
    cases res <;> simp only [TRes] at this ⊢
    · rename_i v
      obtain ⟨hc, m', hm', ht⟩ := this
      obtain ⟨w'', hu, hc'⟩ := userCall_clean hc
      rw [hu]
      simp only
      by_cases hg : g.app v = true
      · rw [if_pos hg]
        exact ⟨hc', m', hm', p', rfl, ht, by omega⟩
      · rw [if_neg hg]
        have := ih m' hm' p' w'' f ht (by omega) hc' (by omega)
        rcases hr : emitP f (.filter g p') w'' with ⟨res2, p2, w2⟩
        rw [hr] at this
        cases res2 <;> simp only [TRes] at this ⊢
        · obtain ⟨hc2, m2, hm2, hR⟩ := this
          exact ⟨hc2, m2, by omega, hR⟩
        · obtain ⟨hc2, p3, rfl, ht3, _⟩ := this
          exact ⟨hc2, p3, rfl, ht3.mono_n (by omega), hF⟩
    · exact ⟨this.1, p', rfl, this.2, hF⟩

theorem term_filter {F : Nat} (g : Pred) {p : Pipe} {n : Nat} (h : Term F p n) :
    Term (F + n + 2) (.filter g p) n := by
  refine Term.intro (fun q m => ∃ p, q = .filter g p ∧ Term F p m ∧ F + m + 2 ≤ F + n + 2) ?_
    ⟨p, rfl, h, Nat.le_refl _⟩
  rintro q m ⟨p, rfl, hp, hF⟩ w hw fuel hf
  exact filter_call g m p w fuel hp hF hw (by omega)

theorem term_limit_empty (n c : Int) (p : Pipe) (hn : n ≤ 0) : Term 1 (.limit n c p) 0 := by
  refine Term.intro (fun q _ => q = .limit n c p) ?_ rfl
  rintro q m rfl w hw fuel hf
  obtain ⟨f, rfl, _⟩ := fuel_succ hf
  rw [emitP, if_pos hn]
  exact ⟨hw, rfl⟩

theorem term_limit {F : Nat} (n c : Int) {p : Pipe} {m : Nat} (h : Term F p m) : Term (F+1) (.limit n c p) m := by
  refine Term.intro (fun q m => ∃ c p, q = .limit n c p ∧ Term F p m) ?_ ⟨c, p, rfl, h⟩
  rintro q m ⟨c, p, rfl, hp⟩ w hw fuel hf
  obtain ⟨f, rfl, hf'⟩ := fuel_succ hf
  rw [emitP]
  split
  · exact ⟨hw, c, p, rfl, hp⟩
  · split
    · exact ⟨hw, c, p, rfl, hp⟩
    · have := hp.step w hw f hf'
      rcases he : emitP f p w with ⟨res, p', w'⟩
      rw [he] at this
      cases res <;> simp only [TRes] at this ⊢
      · obtain ⟨hc, m', hm', ht⟩ := this; exact ⟨hc, m', hm', c + 1, p', rfl, ht⟩
      · exact ⟨this.1, c, p', rfl, this.2⟩

end ShpanVerif.Proofs.PipeC04
