/-
C05 (general pull bound), part 1: the potential.

`SD r p n k` — "state demand": for the OPENED operator state `p`, `k` is an upper bound on the number of `Emit`
calls the probe source `r` receives during the next `n` provider calls of `p` (in a clean world).  It is the
state-relative version of `Spec.demand`: the same per-operator formulas, but over the lists the sub states
*still denote* (C04's `Den`) and the operators' counters / buffers / look-ahead.  Sub streams that are not
opened yet (Concat's later inputs) are bounded by `Spec.demand` itself (`RD`).

The proof (parts 2, 3) is a potential argument: one provider call on a state with `SD r p (n+1) k` leaves a
state with `SD r p' n k'` such that `pulls after + k' ≤ pulls before + k` (`Pot`).
-/
import ShpanVerif.Proofs.PipeC04Main
import ShpanVerif.Spec.PipeDemand
import ShpanVerif.Props.C05

namespace ShpanVerif.Proofs.PipeC05
open ShpanVerif.Model.Pipe ShpanVerif ShpanVerif.Proofs.PipeC04

/-! ### arithmetic of the demand formulas -/

/-- child calls of `Limit` with `b` elements of budget left over a child holding `len` elements, `n` calls -/
def limCalls (b len n : Nat) : Nat := if n ≤ b then n else if len ≥ b then b else n

theorem limCalls_mono (b len : Nat) {n' n : Nat} (h : n' ≤ n) : limCalls b len n' ≤ limCalls b len n := by
  unfold limCalls; split <;> split <;> (try split) <;> (try split) <;> omega

theorem filterCalls_zero (g : V → Bool) (l : List V) : Spec.filterCalls g l 0 = 0 := by
  cases l <;> rfl

theorem filterCalls_nil (g : V → Bool) (n : Nat) : Spec.filterCalls g [] n = n := by
  cases n <;> rfl

theorem filterCalls_cons (g : V → Bool) (x : V) (xs : List V) (n : Nat) :
    Spec.filterCalls g (x :: xs) (n+1) =
      1 + (if g x then Spec.filterCalls g xs n else Spec.filterCalls g xs (n+1)) := rfl

theorem filterCalls_mono (g : V → Bool) : ∀ (l : List V) {n' n : Nat}, n' ≤ n →
    Spec.filterCalls g l n' ≤ Spec.filterCalls g l n
  | [], n', n, h => by rw [filterCalls_nil, filterCalls_nil]; exact h
  | x :: xs, 0, n, _ => by rw [filterCalls_zero]; exact Nat.zero_le _
  | x :: xs, n'+1, 0, h => by omega
  | x :: xs, n'+1, n+1, h => by
    rw [filterCalls_cons, filterCalls_cons]
    cases g x
    · simp only [Bool.false_eq_true, if_false]
      have := filterCalls_mono g xs (n' := n'+1) (n := n+1) h
      omega
    · simp only [if_true]
      have := filterCalls_mono g xs (n' := n') (n := n) (by omega)
      omega

theorem concatCalls_cons (len : Nat) (ls : List Nat) (n : Nat) :
    Spec.concatCalls (len :: ls) n =
      (if n = 0 then 0 else if n ≤ len then n else len + 1) ::
        Spec.concatCalls ls (if n ≤ len then 0 else n - len) := by
  cases n with
  | zero => simp [Spec.concatCalls]
  | succ n =>
    rw [Spec.concatCalls]
    · split <;> simp
    · intro h; cases h

theorem concatCalls_mono : ∀ (lens : List Nat) {n' n : Nat}, n' ≤ n → ∀ j,
    (Spec.concatCalls lens n').getD j 0 ≤ (Spec.concatCalls lens n).getD j 0
  | [], _, _, _, j => by simp [Spec.concatCalls]
  | len :: ls, n', n, h, j => by
    rw [concatCalls_cons, concatCalls_cons]
    cases j with
    | zero =>
      simp only [List.getD_cons_zero]
      split <;> split <;> (try split) <;> (try split) <;> omega
    | succ j =>
      simp only [List.getD_cons_succ]
      apply concatCalls_mono ls
      split <;> split <;> omega

/-- child calls of Cluster for `n` outputs: the lengths of the first `n` runs -/
def runSum (k : Int) (l : List V) (n : Nat) : Nat := (((Spec.runs k l).take n).map List.length).sum

theorem sum_take_mono : ∀ (xs : List Nat) {n' n : Nat}, n' ≤ n → (xs.take n').sum ≤ (xs.take n).sum
  | [], _, _, _ => by simp
  | x :: xs, 0, _, _ => by simp
  | x :: xs, n'+1, 0, h => by omega
  | x :: xs, n'+1, n+1, h => by
    simp only [List.take_succ_cons, List.sum_cons]
    have := sum_take_mono xs (n' := n') (n := n) (by omega)
    omega

theorem runSum_mono (k : Int) (l : List V) {n' n : Nat} (h : n' ≤ n) : runSum k l n' ≤ runSum k l n := by
  unfold runSum
  rw [List.map_take, List.map_take]
  exact sum_take_mono _ h

theorem runSum_cons (k : Int) (a : V) (l : List V) (n : Nat) :
    runSum k (a :: l) (n+1) =
      (1 + (l.takeWhile (inCls k (classify k a))).length) +
        runSum k (l.dropWhile (inCls k (classify k a))) n := by
  unfold runSum
  rw [runs_cons]
  simp only [List.take_succ_cons, List.map_cons, List.sum_cons, List.length_cons]
  have : (fun b => classify k b == classify k a) = inCls k (classify k a) := rfl
  rw [this]; omega

theorem runSum_nil (k : Int) (n : Nat) : runSum k [] n = 0 := by
  simp [runSum, runs_nil]

/-- sum of the first `n` values of a function -/
def sumTo : Nat → (Nat → Nat) → Nat
  | 0, _ => 0
  | n+1, f => sumTo n f + f n

theorem sumTo_upd (f : Nat → Nat) (i a : Nat) : ∀ n, i < n →
    sumTo n (fun j => if j = i then a else f j) + f i = sumTo n f + a
  | 0, h => by omega
  | n+1, h => by
    simp only [sumTo]
    by_cases hi : i = n
    · subst hi
      have : sumTo i (fun j => if j = i then a else f j) = sumTo i f := by
        have key : ∀ m, m ≤ i → sumTo m (fun j => if j = i then a else f j) = sumTo m f := by
          intro m
          induction m with
          | zero => intro _; rfl
          | succ m ih =>
            intro hm
            simp only [sumTo]
            rw [ih (by omega), if_neg (by omega)]
        exact key i (Nat.le_refl _)
      rw [this, if_pos rfl]; omega
    · have := sumTo_upd f i a n (by omega)
      rw [if_neg (Ne.symm hi)]
      omega

theorem sumTo_succ' (f : Nat → Nat) : ∀ n, sumTo (n+1) f = f 0 + sumTo n (fun j => f (j+1))
  | 0 => by simp [sumTo]
  | n+1 => by
    rw [sumTo, sumTo_succ' f n, sumTo]
    omega

/-! ### the potential -/

/-- bound for a sub stream that is not opened yet: `Spec.demand` itself -/
def RD (r : Nat) (p : Pipe) (n k : Nat) : Prop := ∃ f, Spec.demand p n = some f ∧ f r ≤ k

/-- the same for a list of unopened sub streams with individual call counts -/
def RDL (r : Nat) : List Pipe → (Nat → Nat) → Nat → Prop
  | [], _, _ => True
  | q :: qs, ns, k => ∃ k1 k2, RD r q (ns 0) k1 ∧ RDL r qs (fun j => ns (j+1)) k2 ∧ k1 + k2 ≤ k

mutual
def SD (r : Nat) : Pipe → Nat → Nat → Prop
  | .src r' _ _, n, k => (if r = r' then n else 0) ≤ k
  | .lc _ p, n, k => SD r p n k
  | .map _ p, n, k => SD r p n k
  | .filter g p, n, k => ∃ l0, Den p l0 ∧ SD r p (Spec.filterCalls g.app l0 n) k
  | .limit m c p, n, k => m ≤ 0 ∨ ∃ l0, Den p l0 ∧ SD r p (limCalls (m + 1 - c).toNat l0.length n) k
  | .skip m d p, n, k => (d = true ∧ SD r p n k) ∨ (d = false ∧ (n = 0 ∨ SD r p (n + m) k))
  | .concat ps next curOpen _, n, k =>
      curOpen = false ∨
      (0 < next ∧ ∃ (l0 : List V) (ls : List (List V)) (cf : Nat → Nat),
        DenAt ps (next - 1) l0 ∧ All2 RE (ps.toList.drop next) ls ∧
        (∀ j, (Spec.concatCalls (l0.length :: ls.map List.length) n).getD j 0 ≤ cf j) ∧
        ∃ k1 k2, SDAt r ps (next - 1) (cf 0) k1 ∧ RDL r (ps.toList.drop next) (fun j => cf (j+1)) k2 ∧
          k1 + k2 ≤ k)
  | .zip ps _, n, k => ∃ ks : Nat → Nat, SDL r ps (fun _ => n) ks ∧ sumTo ps.length ks ≤ k
  | .merge ps _ _, n, k => ∃ ks : Nat → Nat, SDL r ps (fun _ => n) ks ∧ sumTo ps.length ks ≤ k
  | .window s st _ buf d _ p, n, k => d = true ∨ n = 0 ∨ SD r p ((s - buf.length) + (n - 1) * st) k
  | .cluster kk _ nxt cls _ _ p, n, k =>
      match nxt with
      | none => True
      | some item =>
        cls = classify kk item ∧ ∃ l0, Den p l0 ∧ Spec.sortedBy (classify kk) (item :: l0) = true ∧
          SD r p (runSum kk (item :: l0) n) k
def SDL (r : Nat) : PipeList → (Nat → Nat) → (Nat → Nat) → Prop
  | .nil, _, _ => True
  | .cons p ps, ns, ks => SD r p (ns 0) (ks 0) ∧ SDL r ps (fun j => ns (j+1)) (fun j => ks (j+1))
def SDAt (r : Nat) : PipeList → Nat → Nat → Nat → Prop
  | .nil, _, _, _ => False
  | .cons p _, 0, n, k => SD r p n k
  | .cons _ ps, i+1, n, k => SDAt r ps i n k
end

theorem sdl_iff (r : Nat) : ∀ (ps : PipeList) (ns ks : Nat → Nat),
    SDL r ps ns ks ↔ ∀ j p, ps.get? j = some p → SD r p (ns j) (ks j)
  | .nil, _, _ => by simp [SDL, PipeList.get?]
  | .cons p ps, ns, ks => by
    rw [SDL, sdl_iff r ps]
    constructor
    · intro ⟨h0, h⟩ j q hq
      cases j with
      | zero => simp only [PipeList.get?, Option.some.injEq] at hq; subst hq; exact h0
      | succ j => exact h j q (by simpa [PipeList.get?] using hq)
    · intro h
      exact ⟨h 0 p rfl, fun j q hq => h (j+1) q (by simpa [PipeList.get?] using hq)⟩

theorem sdAt_iff (r : Nat) : ∀ (ps : PipeList) (i n k : Nat),
    SDAt r ps i n k ↔ ∃ p, ps.get? i = some p ∧ SD r p n k
  | .nil, _, _, _ => by simp [SDAt, PipeList.get?]
  | .cons p _, 0, n, k => by simp [SDAt, PipeList.get?]
  | .cons _ ps, i+1, n, k => by simp only [SDAt, PipeList.get?]; exact sdAt_iff r ps i n k

/-! ### fewer calls need no more -/

mutual
theorem sd_mono (r : Nat) : ∀ (p : Pipe) {n' n : Nat} (k : Nat), n' ≤ n → SD r p n k → SD r p n' k
  | .src r' _ _, n', n, k, h, hs => by
    rw [SD] at hs ⊢; split at hs <;> simp_all <;> omega
  | .lc _ p, n', n, k, h, hs => by rw [SD] at hs ⊢; exact sd_mono r p k h hs
  | .map _ p, n', n, k, h, hs => by rw [SD] at hs ⊢; exact sd_mono r p k h hs
  | .filter g p, n', n, k, h, hs => by
    rw [SD] at hs ⊢
    obtain ⟨l0, hd, hs⟩ := hs
    exact ⟨l0, hd, sd_mono r p k (filterCalls_mono g.app l0 h) hs⟩
  | .limit m c p, n', n, k, h, hs => by
    rw [SD] at hs ⊢
    rcases hs with hm | ⟨l0, hd, hs⟩
    · exact Or.inl hm
    · exact Or.inr ⟨l0, hd, sd_mono r p k (limCalls_mono _ _ h) hs⟩
  | .skip m d p, n', n, k, h, hs => by
    rw [SD] at hs ⊢
    rcases hs with ⟨hd, hs⟩ | ⟨hd, hs⟩
    · exact Or.inl ⟨hd, sd_mono r p k h hs⟩
    · refine Or.inr ⟨hd, ?_⟩
      by_cases h0 : n' = 0
      · exact Or.inl h0
      · rcases hs with hs | hs
        · omega
        · exact Or.inr (sd_mono r p k (by omega) hs)
  | .concat ps next curOpen _, n', n, k, h, hs => by
    rw [SD] at hs ⊢
    rcases hs with hc | ⟨hn, l0, ls, cf, hat, hre, hcf, hrest⟩
    · exact Or.inl hc
    · exact Or.inr ⟨hn, l0, ls, cf, hat, hre,
        fun j => Nat.le_trans (concatCalls_mono _ h j) (hcf j), hrest⟩
  | .zip ps _, n', n, k, h, hs => by
    rw [SD] at hs ⊢
    obtain ⟨ks, hs, hk⟩ := hs
    exact ⟨ks, sdl_mono r ps ks (fun _ => h) hs, hk⟩
  | .merge ps _ _, n', n, k, h, hs => by
    rw [SD] at hs ⊢
    obtain ⟨ks, hs, hk⟩ := hs
    exact ⟨ks, sdl_mono r ps ks (fun _ => h) hs, hk⟩
  | .window s st _ buf d _ p, n', n, k, h, hs => by
    rw [SD] at hs ⊢
    rcases hs with hd | h0 | hs
    · exact Or.inl hd
    · exact Or.inr (Or.inl (by omega))
    · refine Or.inr (Or.inr (sd_mono r p k ?_ hs))
      have : (n' - 1) * st ≤ (n - 1) * st := Nat.mul_le_mul_right _ (by omega)
      omega
  | .cluster kk _ nxt cls _ _ p, n', n, k, h, hs => by
    cases nxt with
    | none => rw [SD]; trivial
    | some item =>
      rw [SD] at hs ⊢
      obtain ⟨hc, l0, hd, hso, hs⟩ := hs
      exact ⟨hc, l0, hd, hso, sd_mono r p k (runSum_mono _ _ h) hs⟩
theorem sdl_mono (r : Nat) : ∀ (ps : PipeList) {ns' ns : Nat → Nat} (ks : Nat → Nat), (∀ j, ns' j ≤ ns j) →
    SDL r ps ns ks → SDL r ps ns' ks
  | .nil, _, _, _, _, _ => by rw [SDL]; trivial
  | .cons p ps, ns', ns, ks, h, hs => by
    rw [SDL] at hs ⊢
    exact ⟨sd_mono r p _ (h 0) hs.1, sdl_mono r ps _ (fun j => h (j+1)) hs.2⟩
end

/-! ### the clean world and the pull counter -/

open ShpanVerif.Props.C05 (pulls_append)

theorem userCall_pulls {w : World} (h : w.Clean) :
    ∃ w', userCall w = (.none, w') ∧ w'.Clean ∧ ∀ r, pulls w'.trace r = pulls w.trace r := by
  refine ⟨_, Props.C05.call_clean h, ⟨h.1, h.2⟩, fun r => ?_⟩
  simp [pulls, List.count_append]

theorem openRes_pulls (x : Nat) {w : World} (h : w.Clean) :
    ∃ w', openRes x w = (.val (), w') ∧ w'.Clean ∧ ∀ r, pulls w'.trace r = pulls w.trace r := by
  have e : openRes x w = (.val (), { w with
      calls := w.calls + 1, trace := w.trace ++ [Event.call w.calls] ++ [Event.openOk x],
      isOpen := upd w.isOpen x true, bad := w.bad || w.isOpen x }) := by
    simp [openRes, Props.C05.call_clean h]
  refine ⟨_, e, ⟨h.1, h.2⟩, fun r => ?_⟩
  simp [pulls, List.count_append]

theorem emitRes_pulls (x : Nat) {w : World} (h : w.Clean) :
    ∃ w', emitRes x w = (.none, w') ∧ w'.Clean ∧
      ∀ r, pulls w'.trace r = pulls w.trace r + (if r = x then 1 else 0) := by
  obtain ⟨w', he, hc, h1, h2⟩ := Props.C05.emitRes_clean h x
  refine ⟨w', he, hc, fun r => ?_⟩
  by_cases hr : r = x
  · subst hr; simp [h1]
  · simp [hr, h2 r hr]

/-- potential step: the state `p'` reached in world `w'` from world `w` has potential `k'` for the next `M`
    calls, and the pulls made on the way are paid for by the drop of the potential from `k` -/
def Pot (r : Nat) (p' : Pipe) (w' w : World) (M k : Nat) : Prop :=
  ∃ k', SD r p' M k' ∧ pulls w'.trace r + k' ≤ pulls w.trace r + k

/-- result of one provider call on a state with potential `k` for `n+1` calls -/
def PullStep (r : Nat) (res : Res V × Pipe × World) (w : World) (n k : Nat) : Prop :=
  match res with
  | (.oof, _, _) => True
  | (.val _, p', w') => Pot r p' w' w n k
  | (.eof, p', w') => Pot r p' w' w n k
  | (.fail _, _, _) => True
  | (.panic _, _, _) => True

/-- result of Open on a ready sub stream bounded by `Spec.demand` -/
def OpenPullStep (r : Nat) (res : Res Unit × Pipe × World) (w : World) (n k : Nat) : Prop :=
  match res with
  | (.oof, _, _) => True
  | (.val _, p', w') => Pot r p' w' w n k
  | (.eof, _, _) => True
  | (.fail _, _, _) => True
  | (.panic _, _, _) => True

def PullOK (r : Nat) (fuel : Nat) : Prop :=
  ∀ p l w n k, Den p l → SD r p (n+1) k → w.Clean → PullStep r (emitP fuel p w) w n k

def OpenPullOK (r : Nat) (fuel : Nat) : Prop :=
  ∀ p l w n k, RE p l → RD r p (n+1) k → w.Clean → OpenPullStep r (openP fuel p w) w (n+1) k

def PBelow (r : Nat) (F : Nat) : Prop := ∀ f, f < F → PullOK r f ∧ OpenPullOK r f

theorem PBelow.mono {r F G : Nat} (h : PBelow r F) (hle : G ≤ F) : PBelow r G :=
  fun f hf => h f (Nat.lt_of_lt_of_le hf hle)

theorem pullOK_zero (r : Nat) : PullOK r 0 := by
  intro p l w n k _ _ _; rw [emitP]; trivial

theorem openPullOK_zero (r : Nat) : OpenPullOK r 0 := by
  intro p l w n k _ _ _; rw [openP]; trivial

/-- the functional facts of C04, for every fuel -/
theorem hB (F : Nat) : Below F := below_all F

end ShpanVerif.Proofs.PipeC05
