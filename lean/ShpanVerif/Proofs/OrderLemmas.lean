/-
Helper lemmas for C19 (ordering part): closed forms of the graph-building loops, the decrement loop,
the loop invariant of Kahn's algorithm, and the "no sink ⇒ cycle" lemma.
-/
import ShpanVerif.Model.Order

namespace ShpanVerif.Proofs.Order

open List ShpanVerif.Model.Order

set_option linter.unusedSimpArgs false

variable {α : Type} [DecidableEq α]

/-! ### graph building -/

/-- `relevantDeps` of one field: its references that are in the set and are not the field itself. -/
def rel (urns : List α) (f : Field α) : List α :=
  f.refs.filter (fun r => decide (r ∈ urns ∧ r ≠ f.uri))

theorem scanRefs_eq (urns : List α) (uri : α) : ∀ (refs rel0 : List α) (dep0 : α → List α),
    scanRefs urns uri refs (rel0, dep0) =
      (rel0 ++ refs.filter (fun r => decide (r ∈ urns ∧ r ≠ uri)),
       fun r => dep0 r ++ replicate (count r (refs.filter (fun r => decide (r ∈ urns ∧ r ≠ uri)))) uri) := by
  intro refs
  induction refs with
  | nil => intro rel0 dep0; simp [scanRefs]
  | cons x rest ih =>
    intro rel0 dep0
    by_cases hx : x ∈ urns ∧ x ≠ uri
    · rw [scanRefs, if_pos hx, ih]
      have hf : filter (fun r => decide (r ∈ urns ∧ r ≠ uri)) (x :: rest)
          = x :: filter (fun r => decide (r ∈ urns ∧ r ≠ uri)) rest := by
        rw [filter_cons]; simp [hx]
      rw [hf]
      refine Prod.ext (by simp) ?_
      funext r
      by_cases hr : r = x
      · subst hr
        simp [upd, replicate_succ]
      · have hxr : ¬ (x = r) := fun h => hr h.symm
        simp [upd, hr, count_cons, hxr]
    · rw [scanRefs, if_neg hx, ih]
      have hf : filter (fun r => decide (r ∈ urns ∧ r ≠ uri)) (x :: rest)
          = filter (fun r => decide (r ∈ urns ∧ r ≠ uri)) rest := by
        rw [filter_cons]; simp [hx]
      rw [hf]

/-- The entries the first loop appends to `dependents[r]`. -/
def depEntries (urns : List α) (r : α) (fs : List (Field α)) : List α :=
  fs.flatMap (fun f => replicate (count r (rel urns f)) f.uri)

theorem buildGraph_dependents (urns : List α) : ∀ (fs : List (Field α)) (g : Graph α) (r : α),
    (buildGraph urns fs g).dependents r = g.dependents r ++ depEntries urns r fs := by
  intro fs
  induction fs with
  | nil => intro g r; simp [buildGraph, depEntries]
  | cons f fs ih =>
    intro g r
    rw [buildGraph, ih]
    simp only [scanRefs_eq, depEntries, flatMap_cons, rel, append_assoc]

theorem buildGraph_inDegree_notMem (urns : List α) : ∀ (fs : List (Field α)) (g : Graph α) (u : α),
    u ∉ urnsOf fs → (buildGraph urns fs g).inDegree u = g.inDegree u := by
  intro fs
  induction fs with
  | nil => intro g u _; simp [buildGraph]
  | cons f fs ih =>
    intro g u hu
    simp only [urnsOf, map_cons, mem_cons, not_or] at hu
    rw [buildGraph, ih _ _ hu.2]
    simp [upd, hu.1]

theorem buildGraph_inDegree (urns : List α) : ∀ (fs : List (Field α)) (g : Graph α) (f : Field α),
    f ∈ fs → (urnsOf fs).Nodup → (buildGraph urns fs g).inDegree f.uri = ((rel urns f).length : Int) := by
  intro fs
  induction fs with
  | nil => intro g f hf; simp at hf
  | cons f0 fs ih =>
    intro g f hf hnd
    simp only [urnsOf, map_cons, nodup_cons] at hnd
    rcases mem_cons.mp hf with rfl | hf
    · rw [buildGraph, buildGraph_inDegree_notMem _ _ _ _ hnd.1]
      simp [upd, scanRefs_eq, rel]
    · rw [buildGraph]
      exact ih _ f hf hnd.2

/-- The in-set, non-self references of URN `u` (of every field carrying that URN). -/
def depsOf (fs : List (Field α)) (u : α) : List α :=
  (fs.filter (fun f => decide (f.uri = u))).flatMap (rel (urnsOf fs))

theorem count_depEntries (urns : List α) (r u : α) : ∀ fs : List (Field α),
    count u (depEntries urns r fs) =
      count r ((fs.filter (fun f => decide (f.uri = u))).flatMap (rel urns)) := by
  intro fs
  induction fs with
  | nil => simp [depEntries]
  | cons f fs ih =>
    have ih' : count u (flatMap (fun f => replicate (count r (rel urns f)) f.uri) fs) =
        count r ((fs.filter (fun f => decide (f.uri = u))).flatMap (rel urns)) := ih
    by_cases h : f.uri = u
    · simp [depEntries, flatMap_cons, count_append, count_replicate, filter_cons, h, ih']
    · simp [depEntries, flatMap_cons, count_append, count_replicate, filter_cons, h, ih']

theorem mem_depEntries {urns : List α} {r x : α} {fs : List (Field α)}
    (h : x ∈ depEntries urns r fs) : x ∈ urnsOf fs := by
  simp only [depEntries, mem_flatMap, mem_replicate] at h
  obtain ⟨f, hf, _, rfl⟩ := h
  exact mem_map_of_mem hf

theorem graphOf_dependents (fs : List (Field α)) (r : α) :
    (graphOf fs).dependents r = depEntries (urnsOf fs) r fs := by
  simp [graphOf, buildGraph_dependents, emptyGraph]

/-- `count u dependents[r] = count r deps(u)`: the two adjacency maps describe the same multigraph. -/
theorem count_dependents (fs : List (Field α)) (u r : α) :
    count u ((graphOf fs).dependents r) = count r (depsOf fs u) := by
  rw [graphOf_dependents, count_depEntries]; rfl

theorem filter_uri_of_mem {f : Field α} : ∀ (l : List (Field α)), (l.map (·.uri)).Nodup → f ∈ l →
    l.filter (fun g => decide (g.uri = f.uri)) = [f] := by
  intro l
  induction l with
  | nil => intro _ hf; simp at hf
  | cons g l ih =>
    intro hnd hf
    simp only [map_cons, nodup_cons] at hnd
    rcases mem_cons.mp hf with rfl | hf
    · have hnone : l.filter (fun g => decide (g.uri = f.uri)) = [] := by
        rw [filter_eq_nil_iff]
        intro x hx
        have : x.uri ≠ f.uri := fun h => hnd.1 (h ▸ mem_map_of_mem hx)
        simp [this]
      simp [filter_cons, hnone]
    · have hne : g.uri ≠ f.uri := fun h => hnd.1 (h ▸ mem_map_of_mem hf)
      simp [filter_cons, hne, ih hnd.2 hf]

theorem depsOf_of_mem {fs : List (Field α)} (hnd : (urnsOf fs).Nodup) {f : Field α} (hf : f ∈ fs) :
    depsOf fs f.uri = rel (urnsOf fs) f := by
  unfold depsOf
  rw [filter_uri_of_mem fs hnd hf]
  simp

/-! ### the decrement loop -/

/-- Effect of `for _, dependent := range dependents[curr]`: every in-degree drops by the number of
    occurrences; the keys whose value passes through 0 are appended to the queue, each exactly once. -/
theorem decLoop_spec : ∀ (L : List α) (deg : α → Int) (q : List α),
    ∃ E : List α,
      (decLoop L (deg, q)).2 = q ++ E ∧
      (∀ u, (decLoop L (deg, q)).1 u = deg u - (count u L : Int)) ∧
      E.Nodup ∧
      (∀ u, u ∈ E ↔ (1 ≤ deg u ∧ deg u ≤ (count u L : Int))) := by
  intro L
  induction L with
  | nil =>
    intro deg q
    refine ⟨[], by simp [decLoop], by simp [decLoop], nodup_nil, ?_⟩
    intro u; simp; omega
  | cons x L ih =>
    intro deg q
    by_cases h0 : upd deg x (deg x - 1) x = 0
    · obtain ⟨E, hq, hdeg, hnd, hmem⟩ := ih (upd deg x (deg x - 1)) (q ++ [x])
      have hx1 : deg x = 1 := by simp [upd] at h0; omega
      refine ⟨x :: E, ?_, ?_, ?_, ?_⟩
      · rw [decLoop]; simp only [h0, if_true]; rw [hq]; simp
      · intro u
        rw [decLoop]; simp only [h0, if_true]; rw [hdeg]
        by_cases hu : u = x
        · subst hu; simp [upd, count_cons]; omega
        · have : ¬ (x = u) := fun h => hu h.symm
          simp [upd, hu, count_cons, this]
      · refine nodup_cons.mpr ⟨?_, hnd⟩
        rw [hmem]; simp [upd, hx1]
      · intro u
        rw [mem_cons, hmem]
        by_cases hu : u = x
        · subst hu; simp [upd, count_cons, hx1]; omega
        · have : ¬ (x = u) := fun h => hu h.symm
          simp [upd, hu, count_cons, this]
    · obtain ⟨E, hq, hdeg, hnd, hmem⟩ := ih (upd deg x (deg x - 1)) q
      have hx1 : deg x ≠ 1 := by simp [upd] at h0; omega
      refine ⟨E, ?_, ?_, hnd, ?_⟩
      · rw [decLoop]; simp only [h0, if_false]; rw [hq]
      · intro u
        rw [decLoop]; simp only [h0, if_false]; rw [hdeg]
        by_cases hu : u = x
        · subst hu; simp [upd, count_cons]; omega
        · have : ¬ (x = u) := fun h => hu h.symm
          simp [upd, hu, count_cons, this]
      · intro u
        rw [hmem]
        by_cases hu : u = x
        · subst hu; simp [upd, count_cons]; omega
        · have : ¬ (x = u) := fun h => hu h.symm
          simp [upd, hu, count_cons, this]

/-! ### loop invariant of Kahn's algorithm (distinct URNs) -/

theorem filter_notMem_snoc (res : List α) (curr : α) (hc : curr ∉ res) : ∀ l : List α,
    (l.filter (fun r => decide (r ∉ res ++ [curr]))).length + count curr l =
      (l.filter (fun r => decide (r ∉ res))).length := by
  intro l
  induction l with
  | nil => simp
  | cons x l ih =>
    by_cases hx : x = curr
    · subst hx
      simp [filter_cons, hc, count_cons] at ih ⊢
      omega
    · have hx' : ¬ (curr = x) := fun h => hx h.symm
      by_cases hr : x ∈ res
      · simp [filter_cons, hr, hx, count_cons] at ih ⊢; omega
      · simp [filter_cons, hr, hx, count_cons] at ih ⊢; omega

section kahn

variable (V : List α) (deps dependents : α → List α)

/-- Invariant of the main loop for a graph with distinct nodes `V`; `deps u` are the in-set non-self
    references of `u` (with multiplicity), `s.inDegree u` counts those not yet in `result`. -/
structure KInv (s : St α) : Prop where
  ndr : s.result.Nodup
  ndq : s.queue.Nodup
  disj : ∀ u ∈ s.result, u ∉ s.queue
  sub : ∀ u, u ∈ s.result ∨ u ∈ s.queue → u ∈ V
  deg : ∀ u ∈ V, s.inDegree u = (((deps u).filter (fun r => decide (r ∉ s.result))).length : Int)
  zero : ∀ u ∈ V, (u ∈ s.result ∨ u ∈ s.queue) ↔ s.inDegree u = 0
  resp : ∀ u ∈ s.result, ∀ r ∈ deps u, idxOf r s.result < idxOf u s.result

variable {V deps dependents}

theorem KInv.step_inv (hcount : ∀ u r, count u (dependents r) = count r (deps u))
    (hdepsV : ∀ u, u ∉ V → deps u = [])
    {s : St α} (inv : KInv V deps s) {curr : α} {rest : List α} (hq : s.queue = curr :: rest) :
    KInv V deps (Model.Order.step dependents curr rest s) := by
  obtain ⟨E, hE2, hE1, hEnd, hEmem⟩ := decLoop_spec (dependents curr) s.inDegree rest
  have hcq : curr ∈ s.queue := by rw [hq]; exact mem_cons_self
  have hcr : curr ∉ s.result := fun h => inv.disj curr h hcq
  have hcV : curr ∈ V := inv.sub curr (Or.inr hcq)
  have hndq := inv.ndq
  rw [hq, nodup_cons] at hndq
  -- new in-degrees
  have hF : ∀ u, (((deps u).filter (fun r => decide (r ∉ s.result ++ [curr]))).length : Int)
        + (count u (dependents curr) : Int)
      = (((deps u).filter (fun r => decide (r ∉ s.result))).length : Int) := by
    intro u
    rw [hcount]
    exact_mod_cast filter_notMem_snoc s.result curr hcr (deps u)
  have hdeg' : ∀ u ∈ V, (decLoop (dependents curr) (s.inDegree, rest)).1 u
      = (((deps u).filter (fun r => decide (r ∉ s.result ++ [curr]))).length : Int) := by
    intro u hu
    rw [hE1, inv.deg u hu]
    have := hF u
    omega
  have hEV : ∀ u ∈ E, u ∈ V := by
    intro u hu
    by_cases huV : u ∈ V
    · exact huV
    · exfalso
      have h1 := (hEmem u).mp hu
      have h2 : count u (dependents curr) = 0 := by rw [hcount, hdepsV u huV]; simp
      rw [h2] at h1
      omega
  have hEnew : ∀ u ∈ E, u ∉ s.result ∧ u ∉ s.queue := by
    intro u hu
    have h1 := (hEmem u).mp hu
    have hz := inv.zero u (hEV u hu)
    constructor
    · intro h; have := hz.mp (Or.inl h); omega
    · intro h; have := hz.mp (Or.inr h); omega
  have hres : (Model.Order.step dependents curr rest s).result = s.result ++ [curr] := rfl
  have hque : (Model.Order.step dependents curr rest s).queue = rest ++ E := hE2
  have hind : (Model.Order.step dependents curr rest s).inDegree = (decLoop (dependents curr) (s.inDegree, rest)).1 := rfl
  refine ⟨?_, ?_, ?_, ?_, ?_, ?_, ?_⟩
  · rw [hres, nodup_append]
    refine ⟨inv.ndr, by simp, ?_⟩
    intro a ha b hb
    simp only [mem_singleton] at hb
    subst hb
    exact fun h => hcr (h ▸ ha)
  · rw [hque, nodup_append]
    refine ⟨hndq.2, hEnd, ?_⟩
    intro a ha b hb hab
    subst hab
    exact (hEnew a hb).2 (by rw [hq]; exact mem_cons_of_mem _ ha)
  · intro u hu
    rw [hres, mem_append, mem_singleton] at hu
    rw [hque, mem_append]
    rintro (h | h)
    · rcases hu with hu | hu
      · exact inv.disj u hu (by rw [hq]; exact mem_cons_of_mem _ h)
      · subst hu; exact hndq.1 h
    · rcases hu with hu | hu
      · exact (hEnew u h).1 hu
      · subst hu; exact (hEnew u h).2 hcq
  · intro u hu
    rw [hres, hque, mem_append, mem_append, mem_singleton] at hu
    rcases hu with (hu | hu) | (hu | hu)
    · exact inv.sub u (Or.inl hu)
    · subst hu; exact hcV
    · exact inv.sub u (Or.inr (by rw [hq]; exact mem_cons_of_mem _ hu))
    · exact hEV u hu
  · intro u hu
    rw [hind, hres]
    exact hdeg' u hu
  · intro u hu
    rw [hind, hres, hque, hdeg' u hu]
    have hz := inv.zero u hu
    have hd := inv.deg u hu
    have hf := hF u
    have hm := hEmem u
    rw [mem_append, mem_append, mem_singleton]
    constructor
    · rintro ((h | h) | (h | h))
      · have := hz.mp (Or.inl h); omega
      · subst h; have := hz.mp (Or.inr hcq); omega
      · have := hz.mp (Or.inr (by rw [hq]; exact mem_cons_of_mem _ h)); omega
      · have := hm.mp h; omega
    · intro h0
      by_cases hzero : s.inDegree u = 0
      · rcases hz.mpr hzero with h | h
        · exact Or.inl (Or.inl h)
        · rw [hq, mem_cons] at h
          rcases h with h | h
          · exact Or.inl (Or.inr h)
          · exact Or.inr (Or.inl h)
      · refine Or.inr (Or.inr (hm.mpr ?_))
        omega
  · intro u hu r hr
    rw [hres] at hu ⊢
    rw [mem_append, mem_singleton] at hu
    rcases hu with hu | hu
    · have hlt := inv.resp u hu r hr
      have hrmem : r ∈ s.result := by
        have : idxOf r s.result < s.result.length := Nat.lt_trans hlt (idxOf_lt_length_of_mem hu)
        exact idxOf_lt_length_iff.mp this
      rw [idxOf_append, idxOf_append, if_pos hrmem, if_pos hu]
      exact hlt
    · subst hu
      have hz := (inv.zero u hcV).mp (Or.inr hcq)
      have hd := inv.deg u hcV
      rw [hz] at hd
      have hlen : ((deps u).filter (fun r => decide (r ∉ s.result))).length = 0 := by omega
      have hnil := List.eq_nil_of_length_eq_zero hlen
      rw [filter_eq_nil_iff] at hnil
      have hrmem : r ∈ s.result := by
        have := hnil r hr
        simpa using this
      rw [idxOf_append, idxOf_append, if_pos hrmem, if_neg hcr]
      have := idxOf_lt_length_of_mem hrmem
      simp
      omega

theorem KInv.loop_inv (hcount : ∀ u r, count u (dependents r) = count r (deps u))
    (hdepsV : ∀ u, u ∉ V → deps u = []) :
    ∀ (n : Nat) {s : St α}, KInv V deps s → KInv V deps (Model.Order.loop dependents n s) := by
  intro n
  induction n with
  | zero => intro s inv; exact inv
  | succ n ih =>
    intro s inv
    rw [Model.Order.loop]
    split
    · exact inv
    · next curr rest hq => exact ih (inv.step_inv hcount hdepsV hq)

theorem KInv.length_le {s : St α} (inv : KInv V deps s) :
    s.result.length + s.queue.length ≤ V.length := by
  have hnd : (s.result ++ s.queue).Nodup := by
    rw [nodup_append]
    exact ⟨inv.ndr, inv.ndq, fun a ha b hb hab => inv.disj a ha (hab ▸ hb)⟩
  have hsub : s.result ++ s.queue ⊆ V := by
    intro u hu
    exact inv.sub u (mem_append.mp hu)
  have := hnd.length_le_of_subset hsub
  simpa using this

/-- The fuel never runs out: with more than `|V| - |result|` iterations left the loop ends on an empty queue. -/
theorem KInv.loop_queue_nil (hcount : ∀ u r, count u (dependents r) = count r (deps u))
    (hdepsV : ∀ u, u ∉ V → deps u = []) :
    ∀ (n : Nat) {s : St α}, KInv V deps s → V.length < s.result.length + n →
      (Model.Order.loop dependents n s).queue = [] := by
  intro n
  induction n with
  | zero =>
    intro s inv h
    have := inv.length_le
    cases hq : s.queue with
    | nil => simpa [Model.Order.loop] using hq
    | cons c r => rw [hq] at this; simp at this; omega
  | succ n ih =>
    intro s inv h
    rw [Model.Order.loop]
    split
    · next hq => exact hq
    · next curr rest hq =>
      apply ih (inv.step_inv hcount hdepsV hq)
      show V.length < (s.result ++ [curr]).length + n
      simp; omega

/-- More fuel changes nothing once the queue is empty. -/
theorem loop_of_queue_nil : ∀ (n : Nat) (s : St α), s.queue = [] → loop dependents n s = s := by
  intro n s h
  cases n with
  | zero => rfl
  | succ n => rw [Model.Order.loop]; simp [h]

theorem loop_add : ∀ (n m : Nat) (s : St α),
    loop dependents (n + m) s = loop dependents m (loop dependents n s) := by
  intro n
  induction n with
  | zero => intro m s; simp [Model.Order.loop]
  | succ n ih =>
    intro m s
    rw [show n + 1 + m = (n + m) + 1 by omega, Model.Order.loop]
    cases hq : s.queue with
    | nil =>
      simp only []
      rw [Model.Order.loop]; simp only [hq]
      exact (loop_of_queue_nil m s hq).symm
    | cons c r =>
      simp only []
      rw [Model.Order.loop]; simp only [hq]
      exact ih m _

end kahn

/-! ### finite graphs: no sink ⇒ cycle; pigeonhole for duplicate-free lists -/

omit [DecidableEq α] in
theorem transGen_mono {R R' : α → α → Prop} (h : ∀ x y, R x y → Relation.TransGen R' x y) {x y : α}
    (hxy : Relation.TransGen R x y) : Relation.TransGen R' x y := by
  induction hxy with
  | single hab => exact h _ _ hab
  | tail _ hbc ih => exact ih.trans (h _ _ hbc)

/-- In a finite non-empty set in which every element has a successor inside the set there is a cycle.
    (Remove one node `a`, short-cutting paths through it, and recurse.) -/
theorem exists_cycle_of_no_sink : ∀ (n : Nat) (S : List α) (R : α → α → Prop), S.length ≤ n → S ≠ [] →
    (∀ x ∈ S, ∃ y ∈ S, R x y) → ∃ x, Relation.TransGen R x x := by
  intro n
  induction n with
  | zero =>
    intro S R hlen hne _
    exact absurd (List.eq_nil_of_length_eq_zero (Nat.le_zero.mp hlen)) hne
  | succ n ih =>
    intro S R hlen hne hsucc
    cases S with
    | nil => exact absurd rfl hne
    | cons a T =>
      obtain ⟨z, hzS, hRaz⟩ := hsucc a mem_cons_self
      by_cases hza : z = a
      · subst hza; exact ⟨z, .single hRaz⟩
      · let S' := T.filter (fun x => decide (x ≠ a))
        have hS'mem : ∀ x, x ∈ S' ↔ x ∈ T ∧ x ≠ a := by intro x; simp [S']
        have hmemS : ∀ x, x ∈ a :: T → x ≠ a → x ∈ S' := by
          intro x hx hxa
          rcases mem_cons.mp hx with h | h
          · exact absurd h hxa
          · exact (hS'mem x).mpr ⟨h, hxa⟩
        have hzS' : z ∈ S' := hmemS z hzS hza
        have hlen' : S'.length ≤ n := by
          have : S'.length ≤ T.length := length_filter_le _ _
          simp at hlen; omega
        let R' : α → α → Prop := fun x y => R x y ∨ (R x a ∧ R a y)
        have hsucc' : ∀ x ∈ S', ∃ y ∈ S', R' x y := by
          intro x hx
          obtain ⟨hxT, hxa⟩ := (hS'mem x).mp hx
          obtain ⟨y, hyS, hRxy⟩ := hsucc x (mem_cons_of_mem _ hxT)
          by_cases hya : y = a
          · subst hya; exact ⟨z, hzS', Or.inr ⟨hRxy, hRaz⟩⟩
          · exact ⟨y, hmemS y hyS hya, Or.inl hRxy⟩
        obtain ⟨x, hx⟩ := ih S' R' hlen' (ne_nil_of_mem hzS') hsucc'
        refine ⟨x, transGen_mono ?_ hx⟩
        intro p q hpq
        rcases hpq with h | ⟨h1, h2⟩
        · exact .single h
        · exact (Relation.TransGen.single h1).tail h2

theorem subset_of_nodup_of_length_le : ∀ {l₁ l₂ : List α}, l₁.Nodup → l₁ ⊆ l₂ → l₂.Nodup →
    l₂.length ≤ l₁.length → l₂ ⊆ l₁ := by
  intro l₁
  induction l₁ with
  | nil =>
    intro l₂ _ _ _ hlen
    have : l₂ = [] := List.eq_nil_of_length_eq_zero (Nat.le_zero.mp hlen)
    simp [this]
  | cons a t ih =>
    intro l₂ h₁ hsub h₂ hlen
    rw [nodup_cons] at h₁
    have ha : a ∈ l₂ := hsub mem_cons_self
    have htsub : t ⊆ l₂.erase a := by
      intro x hx
      have hxa : x ≠ a := fun h => h₁.1 (h ▸ hx)
      exact (mem_erase_of_ne hxa).2 (hsub (mem_cons_of_mem _ hx))
    have hlen' : (l₂.erase a).length ≤ t.length := by
      rw [length_erase_of_mem ha]; simp at hlen; omega
    have hih := ih h₁.2 htsub (h₂.erase a) hlen'
    intro x hx
    by_cases hxa : x = a
    · subst hxa; exact mem_cons_self
    · exact mem_cons_of_mem _ (hih ((mem_erase_of_ne hxa).2 hx))

/-! ### termination for every input (also with duplicate URNs): a decreasing measure -/

/-- duplicate-free list with the same members -/
def dedup : List α → List α
  | [] => []
  | a :: l => if a ∈ dedup l then dedup l else a :: dedup l

theorem mem_dedup {a : α} : ∀ {l : List α}, a ∈ dedup l ↔ a ∈ l
  | [] => by simp [dedup]
  | b :: l => by
    have ih := @mem_dedup a l
    by_cases hb : b ∈ dedup l
    · simp only [dedup, hb, if_true, mem_cons, ih]
      constructor
      · exact Or.inr
      · rintro (rfl | h)
        · exact mem_dedup.mp hb
        · exact h
    · simp [dedup, hb, ih]

theorem nodup_dedup : ∀ l : List α, (dedup l).Nodup
  | [] => by simp [dedup]
  | b :: l => by
    by_cases hb : b ∈ dedup l
    · simp [dedup, hb, nodup_dedup l]
    · simp [dedup, hb, nodup_dedup l]

theorem length_dedup_le : ∀ l : List α, (dedup l).length ≤ l.length
  | [] => by simp [dedup]
  | b :: l => by
    have := length_dedup_le l
    by_cases hb : b ∈ dedup l <;> simp [dedup, hb] <;> omega

/-- number of keys whose in-degree is still positive -/
def posCount (K : List α) (deg : α → Int) : Nat := (K.filter (fun u => decide (1 ≤ deg u))).length

omit [DecidableEq α] in
theorem posCount_congr (K : List α) {d d' : α → Int} (h : ∀ u ∈ K, (1 ≤ d' u ↔ 1 ≤ d u)) :
    posCount K d' = posCount K d := by
  unfold posCount
  congr 1
  apply filter_congr
  intro u hu
  simp [h u hu]

theorem posCount_drop : ∀ (K : List α) (d d' : α → Int) (x : α), K.Nodup → x ∈ K →
    (∀ u, u ≠ x → d' u = d u) → 1 ≤ d x → ¬ (1 ≤ d' x) → posCount K d' + 1 = posCount K d
  | [], _, _, _, _, hx, _, _, _ => by simp at hx
  | k :: K, d, d', x, hnd, hx, hne, h1, h2 => by
    rw [nodup_cons] at hnd
    by_cases hk : k = x
    · subst hk
      have hrest : posCount K d' = posCount K d := by
        apply posCount_congr
        intro u hu
        have : u ≠ k := fun h => hnd.1 (h ▸ hu)
        rw [hne u this]
      simp only [posCount, filter_cons, h1, h2, decide_true, decide_false, if_true, length_cons] at *
      simp [hrest]
    · have hxK : x ∈ K := by
        rcases mem_cons.mp hx with h | h
        · exact absurd h.symm hk
        · exact h
      have ih := posCount_drop K d d' x hnd.2 hxK hne h1 h2
      have hkk : d' k = d k := hne k hk
      simp only [posCount, filter_cons, hkk] at *
      split
      · simp only [length_cons]; omega
      · exact ih

/-- The decrement loop preserves `|queue| + #positive`. -/
theorem decLoop_measure (K : List α) (hK : K.Nodup) : ∀ (L : List α) (deg : α → Int) (q : List α),
    (∀ x ∈ L, x ∈ K) →
    (decLoop L (deg, q)).2.length + posCount K (decLoop L (deg, q)).1 = q.length + posCount K deg := by
  intro L
  induction L with
  | nil => intro deg q _; simp [decLoop]
  | cons x L ih =>
    intro deg q hL
    have hxK : x ∈ K := hL x mem_cons_self
    have hL' : ∀ y ∈ L, y ∈ K := fun y hy => hL y (mem_cons_of_mem _ hy)
    have hne : ∀ u, u ≠ x → upd deg x (deg x - 1) u = deg u := by intro u hu; simp [upd, hu]
    have hxx : upd deg x (deg x - 1) x = deg x - 1 := by simp [upd]
    by_cases h0 : upd deg x (deg x - 1) x = 0
    · rw [decLoop]; simp only [h0, if_true]
      rw [ih _ _ hL']
      have hd := posCount_drop K deg (upd deg x (deg x - 1)) x hK hxK hne (by rw [hxx] at h0; omega) (by rw [h0]; omega)
      simp; omega
    · rw [decLoop]; simp only [h0, if_false]
      rw [ih _ _ hL']
      have hc : posCount K (upd deg x (deg x - 1)) = posCount K deg := by
        apply posCount_congr
        intro u _
        by_cases hu : u = x
        · subst hu; rw [hxx] at h0 ⊢; omega
        · rw [hne u hu]
      omega

/-- With at least `|queue| + #positive` iterations the loop ends on an empty queue. -/
theorem loop_queue_nil_general (K : List α) (hK : K.Nodup) (dependents : α → List α)
    (hdep : ∀ r, ∀ x ∈ dependents r, x ∈ K) : ∀ (n : Nat) (s : St α),
    s.queue.length + posCount K s.inDegree ≤ n → (Model.Order.loop dependents n s).queue = [] := by
  intro n
  induction n with
  | zero =>
    intro s h
    have : s.queue.length = 0 := by omega
    simpa [Model.Order.loop] using List.eq_nil_of_length_eq_zero this
  | succ n ih =>
    intro s h
    rw [Model.Order.loop]
    split
    · next hq => exact hq
    · next curr rest hq =>
      apply ih
      have hm := decLoop_measure K hK (dependents curr) s.inDegree rest (hdep curr)
      show (decLoop (dependents curr) (s.inDegree, rest)).2.length
        + posCount K (decLoop (dependents curr) (s.inDegree, rest)).1 ≤ n
      rw [hm]
      rw [hq] at h
      simp at h
      omega

/-- Fuel adequacy of the model for EVERY input: `finalState` is reached with an empty queue. -/
theorem finalState_queue_nil (fs : List (Field α)) : (finalState fs).queue = [] := by
  apply loop_queue_nil_general (dedup (urnsOf fs)) (nodup_dedup _)
  · intro r x hx
    rw [graphOf_dependents] at hx
    exact mem_dedup.mpr (mem_depEntries hx)
  · have h1 : (initState fs).queue.length ≤ fs.length := by
      have : (initState fs).queue.length ≤ (urnsOf fs).length := length_filter_le _ _
      simpa [urnsOf] using this
    have h2 : posCount (dedup (urnsOf fs)) (initState fs).inDegree ≤ fs.length := by
      have a : posCount (dedup (urnsOf fs)) (initState fs).inDegree ≤ (dedup (urnsOf fs)).length :=
        length_filter_le _ _
      have b := length_dedup_le (urnsOf fs)
      have c : (urnsOf fs).length = fs.length := by simp [urnsOf]
      omega
    simp only [fuelFor]
    omega

end ShpanVerif.Proofs.Order
